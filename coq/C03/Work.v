(* C03 — work accounting on the byte-level model, free of any invariant: every carrier
   operation, reader call and buffer drain either leaves the state exactly as it was (it was
   blocked) or strictly decreases a potential made of buffered bytes, bytes in the pipes and
   remaining script entries. Used for the byte-level termination theorem (Live.v). *)
From Coq Require Import List Arith NArith Bool Lia ZifyBool ZifyNat ZifyN.
From V.gen Require Import Consts.
From V.common Require Import Wire.
From V.C03 Require Import Model Proofs.
Import ListNotations.
Open Scope N_scope.

Arguments N.add : simpl never.
Arguments N.sub : simpl never.
Arguments N.mul : simpl never.
Arguments N.eqb : simpl never.
Arguments N.ltb : simpl never.
Arguments N.leb : simpl never.
Arguments N.of_nat : simpl never.
Arguments N.min : simpl never.

Lemma len_cons : forall (x : N) l, len (x :: l) = 1 + len l.
Proof. intros. unfold len. cbn [length]. lia. Qed.

Lemma len_firstn_skipn : forall (l : bytes) n, len (firstn n l) + len (skipn n l) = len l.
Proof. intros. rewrite <- len_app, firstn_skipn. reflexivity. Qed.

Lemma len_zero_nil : forall l : bytes, len l = 0 -> l = [].
Proof. intros [|x l] H; [reflexivity|]. rewrite len_cons in H. lia. Qed.

(* ------------------------------------------------------------------ pipe operations *)
Lemma pipe_read_work : forall p k p' r, 1 <= k -> pipe_read p k = (p', r) ->
  p_wscript p' = p_wscript p /\ p_closed p' = p_closed p /\ p_total p' = p_total p /\
  match r with
  | RData bs => len (p_buf p') + len bs = len (p_buf p) /\ 1 <= len bs /\
                len (p_rscript p') <= len (p_rscript p)
  | RPending => p_buf p' = p_buf p /\
                ((p' = p /\ p_buf p = [] /\ p_closed p = false) \/
                 len (p_rscript p') + 1 = len (p_rscript p))
  | REof => p' = p /\ p_buf p = [] /\ p_closed p = true
  end.
Proof.
  intros p k p' r Hk H. pose proof (pipe_read_spec p k p' r Hk H) as (Hc & Hs).
  unfold pipe_read in H. destruct (p_buf p) as [|x b] eqn:Eb.
  - destruct (p_closed p) eqn:Ec; injection H as <- <-; repeat split; auto.
  - destruct (p_rscript p) as [|c s] eqn:Es.
    + injection H as <- <-. cbn [p_wscript p_closed p_total p_buf p_rscript].
      repeat split; auto.
      * rewrite N.add_comm. apply len_firstn_skipn.
      * destruct Hs as (_ & H1 & _). exact H1.
      * lia.
    + destruct (c =? 0) eqn:E0.
      * injection H as <- <-. cbn [p_wscript p_closed p_total p_buf p_rscript].
        repeat split; auto. right. rewrite len_cons. lia.
      * injection H as <- <-. cbn [p_wscript p_closed p_total p_buf p_rscript].
        repeat split; auto.
        -- rewrite N.add_comm. apply len_firstn_skipn.
        -- destruct Hs as (_ & H1 & _). exact H1.
        -- rewrite len_cons. lia.
Qed.

Lemma pipe_write_work : forall p data p' r, data <> [] -> pipe_write p data = (p', r) ->
  p_rscript p' = p_rscript p /\ p_closed p' = p_closed p /\
  match r with
  | Some n => (1 <= n <= length data)%nat /\ len (p_buf p') = len (p_buf p) + N.of_nat n /\
              len (p_wscript p') <= len (p_wscript p)
  | None => p_buf p' = p_buf p /\ len (p_wscript p') + 1 = len (p_wscript p)
  end.
Proof.
  intros p data p' r Hd H.
  pose proof (pipe_write_spec p data p' r Hd H) as (Hc & Hr & Hs).
  unfold pipe_write in H. destruct (p_wscript p) as [|c s] eqn:Es.
  - injection H as <- <-. cbn [p_rscript p_closed p_buf p_wscript]. repeat split; auto.
    + destruct data; [congruence | cbn; lia].
    + rewrite len_app. unfold len. lia.
    + lia.
  - destruct (c =? 0) eqn:E0.
    + injection H as <- <-. cbn [p_rscript p_closed p_buf p_wscript]. repeat split; auto.
      rewrite len_cons. lia.
    + injection H as <- <-. cbn [p_rscript p_closed p_buf p_wscript].
      destruct Hs as (Hn & _). repeat split; auto; try lia.
      * rewrite len_app. f_equal. unfold len. rewrite firstn_length. unfold len in *. lia.
      * rewrite len_cons. lia.
Qed.

(* ------------------------------------------------------------------ the frame reader *)
(* states the reader can be in: inside a body there is always something left to read *)
Definition rd_wf (st : rstate) : Prop :=
  match st with RBody n acc => len acc < n | RLen _ => True end.

Definition RdWork (fuel : nat) (st : rstate) (p : pipe) (st' : rstate) (p' : pipe) (r : fres) : Prop :=
  rd_wf st' /\
  p_wscript p' = p_wscript p /\ p_closed p' = p_closed p /\ p_total p' = p_total p /\
  len (p_buf p') <= len (p_buf p) /\ len (p_rscript p') <= len (p_rscript p) /\
  (len (p_buf p') = len (p_buf p) -> len (p_rscript p') = len (p_rscript p) ->
     p' = p /\ st' = st /\ (r = FPending \/ r = FNone \/ r = FErr IoUnexpectedEof) /\
     (fuel = 0%nat \/ (p_buf p = [] /\ (r = FPending -> p_closed p = false)))) /\
  match r with
  | FFrame _ => len (p_buf p') < len (p_buf p)
  | FErr IoInvalidData => len (p_buf p') < len (p_buf p)
  | _ => True
  end.

Lemma rdw_blocked : forall fuel st p r, rd_wf st ->
  (r = FPending \/ r = FNone \/ r = FErr IoUnexpectedEof) ->
  (fuel = 0%nat \/ (p_buf p = [] /\ (r = FPending -> p_closed p = false))) ->
  RdWork fuel st p st p r.
Proof.
  intros fuel st p r Hwf Hr Hb. unfold RdWork.
  split; [exact Hwf|]. do 3 (split; [reflexivity|]). split; [lia|]. split; [lia|].
  split; [intros _ _; auto|]. destruct Hr as [-> | [-> | ->]]; exact I.
Qed.

Lemma rdw_script : forall fuel st p p', rd_wf st ->
  p_wscript p' = p_wscript p -> p_closed p' = p_closed p -> p_total p' = p_total p ->
  p_buf p' = p_buf p -> len (p_rscript p') + 1 = len (p_rscript p) ->
  RdWork fuel st p st p' FPending.
Proof.
  intros fuel st p p' Hwf A1 A2 A3 B1 B2. unfold RdWork.
  split; [exact Hwf|]. do 3 (split; [assumption|]). rewrite B1. split; [lia|]. split; [lia|].
  split; [intros _ E; lia | exact I].
Qed.

Lemma rdw_strict : forall fuel st p st' p' r, rd_wf st' ->
  p_wscript p' = p_wscript p -> p_closed p' = p_closed p -> p_total p' = p_total p ->
  len (p_buf p') < len (p_buf p) -> len (p_rscript p') <= len (p_rscript p) ->
  RdWork fuel st p st' p' r.
Proof.
  intros fuel st p st' p' r Hwf A1 A2 A3 B1 B2. unfold RdWork.
  split; [exact Hwf|]. do 3 (split; [assumption|]). split; [lia|]. split; [lia|].
  split; [intros E; lia|]. destruct r as [| |b|e]; auto. destruct e; auto.
Qed.

Lemma rdw_trans : forall f st p st1 p1 st' p' r,
  p_wscript p1 = p_wscript p -> p_closed p1 = p_closed p -> p_total p1 = p_total p ->
  len (p_buf p1) < len (p_buf p) -> len (p_rscript p1) <= len (p_rscript p) ->
  RdWork f st1 p1 st' p' r -> RdWork (S f) st p st' p' r.
Proof.
  intros f st p st1 p1 st' p' r A1 A2 A3 B1 B2 (C0 & C1 & C2 & C3 & C4 & C5 & C6 & C7).
  apply rdw_strict; try congruence; lia.
Qed.

Lemma rd_poll_work : forall fuel st p st' p' r, rd_wf st -> rd_poll fuel st p = (st', p', r) ->
  RdWork fuel st p st' p' r.
Proof.
  induction fuel as [|f IH]; intros st p st' p' r Hwf H.
  - cbn in H. injection H as <- <- <-. apply rdw_blocked; auto.
  - cbn [rd_poll] in H. destruct st as [buf | n acc].
    + destruct (pipe_read p 1) as [p1 rr] eqn:Er.
      pose proof (pipe_read_work p 1 p1 rr ltac:(lia) Er) as (A1 & A2 & A3 & A4).
      destruct rr as [| |bs].
      * injection H as <- <- <-. destruct A4 as (B1 & [(-> & B2 & B2') | B2]).
        -- apply rdw_blocked; auto.
        -- apply rdw_script; auto.
      * injection H as <- <- <-. destruct A4 as (-> & B2 & B3).
        apply rdw_blocked; auto.
        -- destruct buf; auto.
        -- right. split; [exact B2|]. destruct buf; discriminate.
      * destruct A4 as (B1 & B2 & B3).
        assert (Hlt : len (p_buf p1) < len (p_buf p)) by lia.
        destruct (last bs 0 <? 128).
        -- destruct (dec_len (buf ++ bs)) as [n|].
           ++ destruct (1 <=? n) eqn:E1.
              ** assert (Hwf1 : rd_wf (RBody n [])) by (cbn; unfold len; cbn; lia).
                 exact (rdw_trans _ _ _ _ _ _ _ _ A1 A2 A3 Hlt B3 (IH _ _ _ _ _ Hwf1 H)).
              ** injection H as <- <- <-. apply rdw_strict; auto; try exact I.
           ++ injection H as <- <- <-. apply rdw_strict; auto; try exact I.
        -- destruct (len (buf ++ bs) =? C03_MAX_LEN_BYTES).
           ++ injection H as <- <- <-. apply rdw_strict; auto; try exact I.
           ++ assert (Hwf1 : rd_wf (RLen (buf ++ bs))) by exact I.
              exact (rdw_trans _ _ _ _ _ _ _ _ A1 A2 A3 Hlt B3 (IH _ _ _ _ _ Hwf1 H)).
    + cbn in Hwf.
      destruct (pipe_read p (n - len acc)) as [p1 rr] eqn:Er.
      assert (Hk : 1 <= n - len acc) by lia.
      pose proof (pipe_read_work p _ p1 rr Hk Er) as (A1 & A2 & A3 & A4).
      pose proof (pipe_read_spec p _ p1 rr Hk Er) as (_ & Hsp).
      destruct rr as [| |bs].
      * injection H as <- <- <-. destruct A4 as (B1 & [(-> & B2 & B2') | B2]).
        -- apply rdw_blocked; auto.
        -- apply rdw_script; auto.
      * injection H as <- <- <-. destruct A4 as (-> & B2 & B3).
        apply rdw_blocked; auto. right. split; [exact B2 | discriminate].
      * destruct A4 as (B1 & B2 & B3). destruct Hsp as (_ & _ & Hle).
        assert (Hlt : len (p_buf p1) < len (p_buf p)) by lia.
        destruct (len (acc ++ bs) =? n) eqn:En.
        -- injection H as <- <- <-. apply rdw_strict; auto; try exact I.
        -- assert (Hwf1 : rd_wf (RBody n (acc ++ bs))) by (cbn; rewrite len_app in *; lia).
           exact (rdw_trans _ _ _ _ _ _ _ _ A1 A2 A3 Hlt B3 (IH _ _ _ _ _ Hwf1 H)).
Qed.

(* ------------------------------------------------------------------ draining a write buffer *)
Lemma wr_drain_work : forall fuel w p w' p' ok, wr_drain fuel w p = (w', p', ok) ->
  p_rscript p' = p_rscript p /\ p_closed p' = p_closed p /\
  len w' + len (p_buf p') = len w + len (p_buf p) /\ len w' <= len w /\
  len (p_wscript p') <= len (p_wscript p) /\
  (len w' = len w -> len (p_wscript p') = len (p_wscript p) ->
     p' = p /\ w' = w /\ (fuel = 0%nat \/ w = [])) /\
  (ok = true -> w' = []).
Proof.
  induction fuel as [|f IH]; intros w p w' p' ok H.
  - cbn in H. injection H as <- <- <-. repeat split; intros; auto; try lia; try discriminate.
  - cbn [wr_drain] in H. destruct w as [|x w].
    + injection H as <- <- <-. repeat split; intros; auto; try lia.
    + destruct (pipe_write p (x :: w)) as [p1 r] eqn:Ew.
      assert (Hne : x :: w <> []) by discriminate.
      pose proof (pipe_write_work p (x :: w) p1 r Hne Ew) as (A1 & A2 & A3).
      destruct r as [n|].
      * destruct A3 as (B1 & B2 & B3).
        destruct (IH _ _ _ _ _ H) as (C1 & C2 & C3 & C4 & C5 & C6 & C7).
        pose proof (len_firstn_skipn (x :: w) n) as L.
        assert (Lf : len (firstn n (x :: w)) = N.of_nat n).
        { unfold len. rewrite firstn_length. lia. }
        repeat split; intros; try congruence; try lia; auto.
        all: exfalso; lia.
      * injection H as <- <- <-. destruct A3 as (B1 & B2).
        repeat split; intros; auto; try lia; try discriminate; try (rewrite B1; lia).
Qed.
