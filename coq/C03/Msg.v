(* C03 — message-level system: the two negotiation state machines of Model.v with the framing
   abstracted away (frame-exactness and codec round-trip, Proofs.v, justify this): channels
   carry whole messages, and every scheduler tick performs ONE micro-step of one side —
   emitting a message into the own write buffer, moving one buffered message onto the channel
   (a flush may be interrupted between any two messages), or consuming one message.
   A real `poll` is a finite run of such micro-steps of one side, so quantifying over all
   tick sequences covers every poll schedule, every fragmentation and every Pending injection
   at message granularity. Definitions only. *)
From Coq Require Import List NArith Bool.
From V.C03 Require Import Model.
Import ListNotations.
Open Scope N_scope.

Inductive mdphase :=
| MDSendHeader
| MDSendProto (p : name) (hr : bool)
| MDFlush (p : name) (hr : bool)
| MDAwait (p : name) (hr : bool)
| MDDone (r : option name).
Record mdial := mkD { md_ph : mdphase; md_rest : list name; md_wbuf : list msg }.

Inductive mlphase :=
| MLRecvHeader | MLSendHeader | MLRecvMsg
| MLSendMsg (m : msg) (o : option name)
| MLFlush (o : option name)
| MLDone (r : option name).
Record mlis := mkL { ml_ph : mlphase; ml_wbuf : list msg }.

(* c_dl: dialer -> listener, c_ld: listener -> dialer; a closed flag is set when the writing
   side drops its stream (negotiation error) *)
Record msys := mkS {
  sd : mdial; sl : mlis;
  c_dl : list msg; dl_closed : bool;
  c_ld : list msg; ld_closed : bool }.

Definition d_fail (s : msys) : msys :=
  mkS (mkD (MDDone None) (md_rest (sd s)) []) (sl s) (c_dl s) true (c_ld s) (ld_closed s).
Definition l_fail (s : msys) : msys :=
  mkS (sd s) (mkL (MLDone None) []) (c_dl s) (dl_closed s) (c_ld s) true.
Definition set_d (s : msys) (d : mdial) : msys :=
  mkS d (sl s) (c_dl s) (dl_closed s) (c_ld s) (ld_closed s).
Definition set_l (s : msys) (l : mlis) : msys :=
  mkS (sd s) l (c_dl s) (dl_closed s) (c_ld s) (ld_closed s).

Definition mstep_d (s : msys) : msys :=
  let d := sd s in
  match md_ph d with
  | MDSendHeader =>
      match md_rest d with
      | [] => d_fail s
      | p :: r => set_d s (mkD (MDSendProto p false) r (md_wbuf d ++ [MHeader]))
      end
  | MDSendProto p hr =>
      if starts_slash p then set_d s (mkD (MDFlush p hr) (md_rest d) (md_wbuf d ++ [MProto p]))
      else d_fail s
  | MDFlush p hr =>
      match md_wbuf d with
      | m :: w => mkS (mkD (MDFlush p hr) (md_rest d) w) (sl s) (c_dl s ++ [m]) (dl_closed s) (c_ld s) (ld_closed s)
      | [] => set_d s (mkD (MDAwait p hr) (md_rest d) [])
      end
  | MDAwait p hr =>
      match c_ld s with
      | m :: c =>
          let s' := mkS d (sl s) (c_dl s) (dl_closed s) c (ld_closed s) in
          match d_react p hr m with
          | DRHeader => set_d s' (mkD (MDAwait p true) (md_rest d) (md_wbuf d))
          | DRConfirm => set_d s' (mkD (MDDone (Some p)) (md_rest d) (md_wbuf d))
          | DRNext =>
              match md_rest d with
              | [] => d_fail s'
              | p' :: r => set_d s' (mkD (MDSendProto p' hr) r (md_wbuf d))
              end
          | DRInvalid => d_fail s'
          end
      | [] => if ld_closed s then d_fail s else s
      end
  | MDDone _ => s
  end.

(* ls: the listener's supported names (already tagged with themselves: the reported item is
   the listener's own entry) *)
Definition sup (ls : list name) : list (name * name) :=
  l_filter (map (fun n => (n, n)) ls).

Definition mstep_l (ls : list name) (s : msys) : msys :=
  let l := sl s in
  match ml_ph l with
  | MLRecvHeader =>
      match c_dl s with
      | m :: c =>
          let s' := mkS (sd s) l c (dl_closed s) (c_ld s) (ld_closed s) in
          match m with
          | MHeader => set_l s' (mkL MLSendHeader (ml_wbuf l))
          | _ => l_fail s'
          end
      | [] => if dl_closed s then l_fail s else s
      end
  | MLSendHeader => set_l s (mkL (MLFlush None) (ml_wbuf l ++ [MHeader]))
  | MLRecvMsg =>
      match c_dl s with
      | m :: c =>
          let s' := mkS (sd s) l c (dl_closed s) (c_ld s) (ld_closed s) in
          match m with
          | MLs => set_l s' (mkL (MLSendMsg (MProtos (map snd (sup ls))) None) (ml_wbuf l))
          | MProto p =>
              match l_find (sup ls) p with
              | Some n => set_l s' (mkL (MLSendMsg (MProto p) (Some n)) (ml_wbuf l))
              | None => set_l s' (mkL (MLSendMsg MNa None) (ml_wbuf l))
              end
          | _ => l_fail s'
          end
      | [] => if dl_closed s then l_fail s else s
      end
  | MLSendMsg m o => set_l s (mkL (MLFlush o) (ml_wbuf l ++ [m]))
  | MLFlush o =>
      match ml_wbuf l with
      | m :: w => mkS (sd s) (mkL (MLFlush o) w) (c_dl s) (dl_closed s) (c_ld s ++ [m]) (ld_closed s)
      | [] =>
          match o with
          | Some n => set_l s (mkL (MLDone (Some n)) [])
          | None => set_l s (mkL MLRecvMsg [])
          end
      end
  | MLDone _ => s
  end.

Definition minit (ds : list name) : msys :=
  mkS (mkD MDSendHeader ds []) (mkL MLRecvHeader []) [] false [] false.

(* a schedule: true = the dialer ticks, false = the listener ticks *)
Definition mtick (ls : list name) (s : msys) (b : bool) : msys :=
  if b then mstep_d s else mstep_l ls s.
Definition mrun (ls : list name) (sched : list bool) (s : msys) : msys :=
  fold_left (mtick ls) sched s.

(* the specification: the dialer's most preferred name that the listener supports *)
Definition supported (ls : list name) (p : name) : bool := existsb (name_eqb p) ls.
Definition first_common (ds ls : list name) : option name := find (supported ls) ds.

Definition d_result (s : msys) : option (option name) :=
  match md_ph (sd s) with MDDone r => Some r | _ => None end.
Definition l_result (s : msys) : option (option name) :=
  match ml_ph (sl s) with MLDone r => Some r | _ => None end.

(* a schedule is k-fair when it consists of k blocks, each ticking both sides at least once *)
Fixpoint fair (k : nat) (sched : list bool) : Prop :=
  match k with
  | O => True
  | S k' => exists blk rest, sched = blk ++ rest /\ In true blk /\ In false blk /\ fair k' rest
  end.
(* number of blocks that always suffice: 12 micro-steps per proposed name plus the preamble *)
Definition fair_bound (ds : list name) : nat := (20 + 12 * length ds)%nat.
