(* C03 — theorems about the message-based (WebRTC) multistream-select variant of Model.v and
   the session driver of WebRtc.v. *)
From Coq Require Import List PeanoNat NArith Bool Lia ZifyBool ZifyNat ZifyN.
From V.gen Require Import Consts.
From V.common Require Import Wire.
From V.C03 Require Import Model Proofs UviProofs LsProofs WebRtc.
Import ListNotations.
Open Scope N_scope.

Arguments N.add : simpl never.
Arguments N.sub : simpl never.
Arguments N.eqb : simpl never.
Arguments N.ltb : simpl never.
Arguments N.leb : simpl never.
Arguments N.of_nat : simpl never.
Arguments N.modulo : simpl never.
Arguments N.div : simpl never.
Arguments N.min : simpl never.
Arguments N.pow : simpl never.
Arguments N.mul : simpl never.

(* ------------------------------------------------------------------ payload shapes *)
(* one varint-prefixed message *)
Definition msg_part (m : msg) : bytes := uvi_enc (len (encode_msg m)) ++ encode_msg m.
Definition hdr_part : bytes := msg_part MHeader.

(* room for header + proposal in one payload: 1 + 19 bytes of header, at most 2 bytes of length
   prefix, the name and its newline *)
Definition fits (p : name) : Prop := len p + 23 <= MAX_FRAME.
Definition wfw (p : name) : Prop := wf_name p /\ fits p.

Lemma hdr_part_len : len hdr_part = 20.
Proof. reflexivity. Qed.

Lemma msg_part_nonempty : forall m x, msg_part m ++ x <> [].
Proof.
  intros m x. unfold msg_part. pose proof (uvi_enc_nonempty (len (encode_msg m))) as H.
  destruct (uvi_enc (len (encode_msg m))); [congruence|discriminate].
Qed.

Lemma enc_proto_len : forall p, len (encode_msg (MProto p)) = len p + 1.
Proof. intros. cbn [encode_msg]. rewrite len_app. reflexivity. Qed.

Lemma msg_part_len : forall m, len (msg_part m) = len (uvi_enc (len (encode_msg m))) + len (encode_msg m).
Proof. intros. unfold msg_part. apply len_app. Qed.

Lemma webrtc_encode_eq : forall m h,
  webrtc_encode m h =
  if MAX_FRAME <? len ((if h then hdr_part else []) ++ msg_part m) then None
  else Some ((if h then hdr_part else []) ++ msg_part m).
Proof. reflexivity. Qed.

Lemma webrtc_encode_some_inv : forall m h b, webrtc_encode m h = Some b ->
  b = (if h then hdr_part else []) ++ msg_part m /\ len b <= MAX_FRAME.
Proof.
  intros m h b H. rewrite webrtc_encode_eq in H.
  destruct (MAX_FRAME <? len ((if h then hdr_part else []) ++ msg_part m)) eqn:E; [discriminate|].
  injection H as <-. split; [reflexivity|lia].
Qed.

Lemma webrtc_encode_proto : forall p h, fits p ->
  webrtc_encode (MProto p) h = Some ((if h then hdr_part else []) ++ msg_part (MProto p)).
Proof.
  intros p h Hf. unfold fits in Hf. rewrite max_frame_val in Hf.
  rewrite webrtc_encode_eq.
  destruct (MAX_FRAME <? len ((if h then hdr_part else []) ++ msg_part (MProto p))) eqn:E; [|reflexivity].
  exfalso. rewrite max_frame_val in E.
  rewrite len_app, msg_part_len, enc_proto_len in E.
  pose proof (uvi_enc_len2 (len p + 1) ltac:(lia)) as H2.
  set (c := len (uvi_enc (len p + 1))) in *. clearbody c.
  destruct h.
  - rewrite hdr_part_len in E. lia.
  - change (len []) with 0 in E. lia.
Qed.

Lemma webrtc_encode_na : forall h,
  webrtc_encode MNa h = Some ((if h then hdr_part else []) ++ msg_part MNa).
Proof. intros [|]; reflexivity. Qed.

(* whatever is encoded keeps its name's length prefix inside the varint range *)
Lemma webrtc_encode_proto_bound : forall p h b, webrtc_encode (MProto p) h = Some b ->
  len p + 1 < 2 ^ 64.
Proof.
  intros p h b H. apply webrtc_encode_some_inv in H. destruct H as (-> & Hl).
  rewrite max_frame_val in Hl. rewrite len_app, msg_part_len, enc_proto_len in Hl.
  assert (len p + 1 <= 16383) by lia.
  eapply N.le_lt_trans; [eassumption|reflexivity].
Qed.

Lemma fits_bound : forall p, fits p -> len p + 1 < 2 ^ 64.
Proof.
  intros p H. unfold fits in H. rewrite max_frame_val in H.
  assert (len p + 1 <= 16383) by lia.
  eapply N.le_lt_trans; [eassumption|reflexivity].
Qed.

(* ------------------------------------------------------------------ (a) decode_multistream_message *)
Lemma decode1_msg : forall m rest, wf_msg m -> len (encode_msg m) < 2 ^ 64 ->
  webrtc_decode1 (msg_part m ++ rest) = Some (DOk m, rest).
Proof.
  intros m rest Hwf Hl. unfold webrtc_decode1, msg_part. rewrite <- app_assoc.
  rewrite uvi_roundtrip by exact Hl.
  destruct (len (encode_msg m ++ rest) <? len (encode_msg m)) eqn:E.
  { rewrite len_app in E. lia. }
  replace (N.to_nat (len (encode_msg m))) with (length (encode_msg m)) by (unfold len; lia).
  rewrite firstn_app_exact, skipn_app_exact, codec_roundtrip by exact Hwf. reflexivity.
Qed.

Lemma webrtc_decode1_roundtrip : forall m rest, wf_msg m -> len (encode_msg m) < 2 ^ 64 ->
  webrtc_decode1 (uvi_enc (len (encode_msg m)) ++ encode_msg m ++ rest) = Some (DOk m, rest).
Proof.
  intros m rest Hwf Hl. rewrite app_assoc. apply (decode1_msg m rest Hwf Hl).
Qed.

Lemma decode1_hdr : forall rest, webrtc_decode1 (hdr_part ++ rest) = Some (DOk MHeader, rest).
Proof. intros. apply decode1_msg; [exact I|reflexivity]. Qed.

Lemma decode1_na : forall rest, webrtc_decode1 (msg_part MNa ++ rest) = Some (DOk MNa, rest).
Proof. intros. apply decode1_msg; [exact I|reflexivity]. Qed.

Lemma decode1_proto : forall p rest, wf_name p -> len p + 1 < 2 ^ 64 ->
  webrtc_decode1 (msg_part (MProto p) ++ rest) = Some (DOk (MProto p), rest).
Proof.
  intros p rest Hwf Hl. apply decode1_msg; [exact Hwf|]. rewrite enc_proto_len. exact Hl.
Qed.

(* ------------------------------------------------------------------ listener *)
Lemma listener_hdr_proto : forall ls p extra, wf_name p -> len p + 1 < 2 ^ 64 ->
  webrtc_listener ls (hdr_part ++ msg_part (MProto p) ++ extra) false = wl_finish ls p true extra.
Proof.
  intros ls p extra Hwf Hl. unfold webrtc_listener.
  rewrite decode1_hdr.
  pose proof (msg_part_nonempty (MProto p) extra) as Hne.
  destruct (msg_part (MProto p) ++ extra) as [|x r] eqn:E; [congruence|].
  rewrite <- E. rewrite decode1_proto by assumption. reflexivity.
Qed.

Lemma listener_proto : forall ls p extra, wf_name p -> len p + 1 < 2 ^ 64 ->
  webrtc_listener ls (msg_part (MProto p) ++ extra) true = wl_finish ls p false extra.
Proof.
  intros ls p extra Hwf Hl. unfold webrtc_listener.
  rewrite decode1_proto by assumption. reflexivity.
Qed.

Lemma wl_finish_nil : forall ls p h, fits p ->
  wl_finish ls p h [] =
  match l_find ls p with
  | Some i => WLAccepted i ((if h then hdr_part else []) ++ msg_part (MProto p))
  | None => WLRejected ((if h then hdr_part else []) ++ msg_part MNa)
  end.
Proof.
  intros ls p h Hf. cbn [wl_finish].
  rewrite webrtc_encode_proto by exact Hf. rewrite webrtc_encode_na. reflexivity.
Qed.

Lemma wl_finish_extra : forall ls p h extra, extra <> [] -> wl_finish ls p h extra = WLErr 1.
Proof. intros ls p h [|x e] H; [congruence|reflexivity]. Qed.

(* the proposal's own encoding fits, hence so does the (equal) confirmation *)
Lemma wl_finish_nil_enc : forall ls p h b, webrtc_encode (MProto p) h = Some b ->
  wl_finish ls p h [] =
  match l_find ls p with
  | Some i => WLAccepted i b
  | None => WLRejected ((if h then hdr_part else []) ++ msg_part MNa)
  end.
Proof.
  intros ls p h b Hb. cbn [wl_finish]. rewrite Hb, webrtc_encode_na. reflexivity.
Qed.

(* (b) header and proposal in one payload, first payload on the channel *)
Theorem webrtc_listener_header_proposal : forall ls p b, wf_name p ->
  webrtc_encode (MProto p) true = Some b ->
  match l_find ls p with
  | Some i => exists reply, webrtc_encode (MProto p) true = Some reply /\
                            webrtc_listener ls b false = WLAccepted i reply
  | None => exists reply, webrtc_encode MNa true = Some reply /\
                          webrtc_listener ls b false = WLRejected reply
  end.
Proof.
  intros ls p b Hwf Hb.
  pose proof (webrtc_encode_proto_bound _ _ _ Hb) as Hl.
  pose proof (webrtc_encode_some_inv _ _ _ Hb) as (Eb & _).
  assert (E : webrtc_listener ls b false = wl_finish ls p true []).
  { rewrite Eb. rewrite <- (app_nil_r (msg_part (MProto p))).
    apply listener_hdr_proto; assumption. }
  rewrite E, (wl_finish_nil_enc ls p true b Hb).
  destruct (l_find ls p) as [i|].
  - exists b. split; [exact Hb|reflexivity].
  - eexists. split; [apply webrtc_encode_na|reflexivity].
Qed.

(* (c) bare proposal once the header has been exchanged *)
Theorem webrtc_listener_proposal_after_header : forall ls p b, wf_name p ->
  webrtc_encode (MProto p) false = Some b ->
  match l_find ls p with
  | Some i => exists reply, webrtc_encode (MProto p) false = Some reply /\
                            webrtc_listener ls b true = WLAccepted i reply
  | None => exists reply, webrtc_encode MNa false = Some reply /\
                          webrtc_listener ls b true = WLRejected reply
  end.
Proof.
  intros ls p b Hwf Hb.
  pose proof (webrtc_encode_proto_bound _ _ _ Hb) as Hl.
  pose proof (webrtc_encode_some_inv _ _ _ Hb) as (Eb & _).
  assert (E : webrtc_listener ls b true = wl_finish ls p false []).
  { rewrite Eb. cbn [app]. rewrite <- (app_nil_r (msg_part (MProto p))).
    apply listener_proto; assumption. }
  rewrite E, (wl_finish_nil_enc ls p false b Hb).
  destruct (l_find ls p) as [i|].
  - exists b. split; [exact Hb|reflexivity].
  - eexists. split; [apply webrtc_encode_na|reflexivity].
Qed.

(* (d) the header alone is echoed and the proposal awaited *)
Theorem webrtc_listener_header_alone : forall ls,
  webrtc_listener ls (uvi_enc (len MSG_HEADER) ++ MSG_HEADER) false =
  WLPendingProtocol (uvi_enc (len MSG_HEADER) ++ MSG_HEADER).
Proof. intros ls. reflexivity. Qed.

(* (e) anything after the proposal is a parse error, before the supported set is even looked at *)
Theorem webrtc_listener_trailing_rejected : forall ls p hdr b extra, wf_name p ->
  webrtc_encode (MProto p) (negb hdr) = Some b -> extra <> [] ->
  webrtc_listener ls (b ++ extra) hdr = WLErr 1.
Proof.
  intros ls p hdr b extra Hwf Hb Hex.
  pose proof (webrtc_encode_proto_bound _ _ _ Hb) as Hl.
  pose proof (webrtc_encode_some_inv _ _ _ Hb) as (Eb & _).
  rewrite Eb. destruct hdr; cbn [negb app].
  - rewrite listener_proto by assumption. apply wl_finish_extra. exact Hex.
  - rewrite <- app_assoc. rewrite listener_hdr_proto by assumption.
    apply wl_finish_extra. exact Hex.
Qed.

(* the flag is checked both ways: a proposal without the header first, or a second header *)
Theorem webrtc_listener_proposal_before_header : forall ls p b extra, wf_name p ->
  webrtc_encode (MProto p) false = Some b ->
  webrtc_listener ls (b ++ extra) false = WLErr 2.
Proof.
  intros ls p b extra Hwf Hb.
  pose proof (webrtc_encode_proto_bound _ _ _ Hb) as Hl.
  pose proof (webrtc_encode_some_inv _ _ _ Hb) as (Eb & _).
  rewrite Eb. cbn [app]. unfold webrtc_listener.
  rewrite decode1_proto by assumption. reflexivity.
Qed.

Theorem webrtc_listener_second_header : forall ls rest,
  webrtc_listener ls (hdr_part ++ rest) true = WLErr 2.
Proof. intros. unfold webrtc_listener. rewrite decode1_hdr. reflexivity. Qed.

(* ------------------------------------------------------------------ dialer *)
Lemma register_unfold : forall f proto w b, b <> [] ->
  webrtc_dialer_register (S f) proto w b =
  match webrtc_decode1 b with
  | None => (w, WDErr 1)
  | Some (r, rest) =>
      if w then
        match r with
        | DOk MNa => (true, WDRejected)
        | DOk (MProto q) => (true, if name_eqb proto q then WDSucceeded else WDErr 2)
        | DOk MLs => (true, WDErr 4)
        | DOk MHeader => (true, WDErr 3)
        | _ => (true, WDErr 3)
        end
      else
        match r with
        | DOk MHeader => webrtc_dialer_register f proto true rest
        | DOk _ => (false, WDErr 2)
        | DErr _ => (false, WDErr 3)
        end
  end.
Proof. intros f proto w [|x b] H; [congruence|reflexivity]. Qed.

(* header first: the rest of the payload is handled exactly as a later payload would be *)
Lemma dialer_hdr : forall f proto rest,
  webrtc_dialer_register (S f) proto false (hdr_part ++ rest) =
  webrtc_dialer_register f proto true rest.
Proof.
  intros. rewrite register_unfold by apply msg_part_nonempty.
  rewrite decode1_hdr. reflexivity.
Qed.

Lemma dialer_wait_proto : forall f proto q rest, wf_name q -> len q + 1 < 2 ^ 64 ->
  webrtc_dialer_register (S f) proto true (msg_part (MProto q) ++ rest) =
  (true, if name_eqb proto q then WDSucceeded else WDErr 2).
Proof.
  intros. rewrite register_unfold by apply msg_part_nonempty.
  rewrite decode1_proto by assumption. reflexivity.
Qed.

Lemma dialer_wait_na : forall f proto rest,
  webrtc_dialer_register (S f) proto true (msg_part MNa ++ rest) = (true, WDRejected).
Proof.
  intros. rewrite register_unfold by apply msg_part_nonempty.
  rewrite decode1_na. reflexivity.
Qed.

Lemma name_eqb_refl : forall p, name_eqb p p = true.
Proof. intros. apply bytes_eqb_refl. Qed.

Lemma hdr_app_length : forall x : bytes, length (hdr_part ++ x) = S (19 + length x).
Proof. intros. rewrite app_length. reflexivity. Qed.

(* (f1) header + confirmation of the current protocol, as the listener replies to header+proposal *)
Theorem webrtc_dialer_header_confirmation : forall p reply, wf_name p ->
  webrtc_encode (MProto p) true = Some reply ->
  webrtc_dialer_register (S (length reply)) p false reply = (true, WDSucceeded).
Proof.
  intros p reply Hwf Hb.
  pose proof (webrtc_encode_proto_bound _ _ _ Hb) as Hl.
  pose proof (webrtc_encode_some_inv _ _ _ Hb) as (Eb & _). subst reply.
  rewrite dialer_hdr, hdr_app_length.
  rewrite <- (app_nil_r (msg_part (MProto p))) at 2.
  rewrite dialer_wait_proto by assumption. rewrite name_eqb_refl. reflexivity.
Qed.

(* (f2) header + na *)
Theorem webrtc_dialer_header_na : forall p reply,
  webrtc_encode MNa true = Some reply ->
  webrtc_dialer_register (S (length reply)) p false reply = (true, WDRejected).
Proof.
  intros p reply Hb. apply webrtc_encode_some_inv in Hb. destruct Hb as (-> & _).
  rewrite dialer_hdr, hdr_app_length.
  rewrite <- (app_nil_r (msg_part MNa)) at 2.
  apply dialer_wait_na.
Qed.

(* (f3) header already seen: bare confirmation, bare na *)
Theorem webrtc_dialer_bare_confirmation : forall p reply, wf_name p ->
  webrtc_encode (MProto p) false = Some reply ->
  webrtc_dialer_register (S (length reply)) p true reply = (true, WDSucceeded).
Proof.
  intros p reply Hwf Hb.
  pose proof (webrtc_encode_proto_bound _ _ _ Hb) as Hl.
  pose proof (webrtc_encode_some_inv _ _ _ Hb) as (Eb & _). subst reply. cbn [app].
  rewrite <- (app_nil_r (msg_part (MProto p))) at 2.
  rewrite dialer_wait_proto by assumption. rewrite name_eqb_refl. reflexivity.
Qed.

Theorem webrtc_dialer_bare_na : forall p reply,
  webrtc_encode MNa false = Some reply ->
  webrtc_dialer_register (S (length reply)) p true reply = (true, WDRejected).
Proof.
  intros p reply Hb. apply webrtc_encode_some_inv in Hb. destruct Hb as (-> & _). cbn [app].
  rewrite <- (app_nil_r (msg_part MNa)) at 2.
  apply dialer_wait_na.
Qed.

(* (f4) message grouping does not matter: the header in a payload of its own leaves the dialer
   waiting, and the remainder delivered as a second payload gets the verdict the single
   payload `header ++ rest` gets *)
Theorem webrtc_dialer_header_alone : forall p,
  webrtc_dialer_register (S (length hdr_part)) p false hdr_part = (true, WDNotReady).
Proof. intros p. reflexivity. Qed.

Theorem webrtc_dialer_grouping : forall p rest, rest <> [] ->
  let '(w1, r1) := webrtc_dialer_register (S (length hdr_part)) p false hdr_part in
  r1 = WDNotReady /\
  webrtc_dialer_register (S (length rest)) p w1 rest =
  webrtc_dialer_register (S (length (hdr_part ++ rest))) p false (hdr_part ++ rest).
Proof.
  intros p rest Hne. rewrite webrtc_dialer_header_alone. split; [reflexivity|].
  rewrite dialer_hdr, hdr_app_length.
  (* with the header seen, one decoded message decides: the verdict is fuel independent *)
  rewrite (register_unfold (length rest)) by exact Hne.
  rewrite (register_unfold (19 + length rest)) by exact Hne.
  reflexivity.
Qed.

(* (f5) a confirmation of some other protocol fails the negotiation *)
Theorem webrtc_dialer_wrong_confirmation : forall p q hdr reply, wf_name q -> q <> p ->
  webrtc_encode (MProto q) hdr = Some reply ->
  webrtc_dialer_register (S (length reply)) p (negb hdr) reply = (true, WDErr 2).
Proof.
  intros p q hdr reply Hwf Hne Hb.
  pose proof (webrtc_encode_proto_bound _ _ _ Hb) as Hl.
  pose proof (webrtc_encode_some_inv _ _ _ Hb) as (Eb & _). subst reply.
  assert (En : name_eqb p q = false) by (apply bytes_eqb_neq; congruence).
  destruct hdr; cbn [negb app].
  - rewrite dialer_hdr, hdr_app_length.
    rewrite <- (app_nil_r (msg_part (MProto q))) at 2.
    rewrite dialer_wait_proto by assumption. rewrite En. reflexivity.
  - rewrite <- (app_nil_r (msg_part (MProto q))) at 2.
    rewrite dialer_wait_proto by assumption. rewrite En. reflexivity.
Qed.

(* ------------------------------------------------------------------ (g) the session *)
Lemma dialer_on_confirmation : forall cur (first : bool), wfw cur ->
  webrtc_dialer_register
    (S (length ((if first then hdr_part else @nil N) ++ msg_part (MProto cur)))) cur (negb first)
    ((if first then hdr_part else []) ++ msg_part (MProto cur)) = (true, WDSucceeded).
Proof.
  intros cur first (Hwf & Hf).
  destruct first; cbn [negb];
    [apply webrtc_dialer_header_confirmation|apply webrtc_dialer_bare_confirmation];
    try exact Hwf; apply webrtc_encode_proto; exact Hf.
Qed.

Lemma dialer_on_na : forall cur (first : bool),
  webrtc_dialer_register
    (S (length ((if first then hdr_part else @nil N) ++ msg_part MNa))) cur (negb first)
    ((if first then hdr_part else []) ++ msg_part MNa) = (true, WDRejected).
Proof.
  intros cur first.
  destruct first; cbn [negb];
    [apply webrtc_dialer_header_na|apply webrtc_dialer_bare_na]; apply webrtc_encode_na.
Qed.

(* one round trip: proposal out, listener's verdict, dialer's reading of the reply. The two
   reachable states are (first payload, no header seen on either side) and (later payload,
   header seen on both sides). *)
Lemma ws_step : forall ls fs cur first, wfw cur ->
  ws_run ls fs cur first (negb first) (negb first) =
  ws_sent cur
    match l_find ls cur with
    | Some i => mkWs (Some cur) (Some i) []
    | None => match fs with
              | [] => mkWs None None []
              | f :: fs' => ws_run ls fs' f false true true
              end
    end.
Proof.
  intros ls fs cur first Hw.
  pose proof Hw as (Hwf & Hf). pose proof Hwf as (Hs & _).
  pose proof (fits_bound cur Hf) as Hl.
  assert (Ep : propose_msg cur first =
               Some ((if first then hdr_part else []) ++ msg_part (MProto cur))).
  { unfold propose_msg. rewrite Hs. apply webrtc_encode_proto. exact Hf. }
  assert (El : webrtc_listener ls ((if first then hdr_part else []) ++ msg_part (MProto cur))
                 (negb first) = wl_finish ls cur first []).
  { destruct first; cbn [negb app]; rewrite <- (app_nil_r (msg_part (MProto cur)));
      [apply listener_hdr_proto|apply listener_proto]; assumption. }
  rewrite wl_finish_nil in El by exact Hf.
  destruct fs as [|f fs']; cbn [ws_run]; rewrite Ep, El;
    destruct (l_find ls cur) as [i|];
    rewrite ?(dialer_on_confirmation cur first Hw), ?dialer_on_na; reflexivity.
Qed.

(* what the session must produce for the dialer's preference list `l` *)
Definition ws_spec (ls : list (N * name)) (l : list name) : ws_result :=
  mkWs (find (ws_supported ls) l)
       (match find (ws_supported ls) l with Some q => l_find ls q | None => None end)
       (take_until (ws_supported ls) l).

Lemma ws_run_spec : forall ls fs cur first, Forall wfw (cur :: fs) ->
  ws_run ls fs cur first (negb first) (negb first) = ws_spec ls (cur :: fs).
Proof.
  intros ls fs. induction fs as [|f fs IH]; intros cur first H;
    inversion H as [|? ? Hc Hfs]; subst; rewrite ws_step by exact Hc;
    unfold ws_spec; cbn [find take_until];
    destruct (l_find ls cur) as [i|] eqn:E;
    (assert (Es : ws_supported ls cur = match l_find ls cur with Some _ => true | None => false end)
       by reflexivity); rewrite E in Es; rewrite Es.
  - unfold ws_sent. cbn [ws_dialer ws_listener ws_proposed]. rewrite E. reflexivity.
  - reflexivity.
  - unfold ws_sent. cbn [ws_dialer ws_listener ws_proposed]. rewrite E. reflexivity.
  - pose proof (IH f false Hfs) as IH'. cbn [negb] in IH'. rewrite IH'. reflexivity.
Qed.

Theorem webrtc_session_agreement : forall ls p fs, Forall wfw (p :: fs) ->
  let sup := ws_supported (tag_from 0 ls) in
  let r := webrtc_session ls p fs in
  ws_dialer r = find sup (p :: fs) /\
  ws_listener r = match find sup (p :: fs) with
                  | Some q => l_find (tag_from 0 ls) q
                  | None => None
                  end /\
  ws_proposed r = take_until sup (p :: fs).
Proof.
  intros ls p fs H sup r. subst sup r. unfold webrtc_session.
  change (ws_run (tag_from 0 ls) fs p true false false)
    with (ws_run (tag_from 0 ls) fs p true (negb true) (negb true)).
  rewrite (ws_run_spec (tag_from 0 ls) fs p true H). unfold ws_spec.
  cbn [ws_dialer ws_listener ws_proposed]. repeat split.
Qed.

(* --- reading the specification: `take_until` is the prefix ending at the first supported name *)
Lemma take_until_prefix : forall {A} (f : A -> bool) l, exists rest, l = take_until f l ++ rest.
Proof.
  intros A f. induction l as [|x t [rest IH]]; [exists []; reflexivity|].
  cbn [take_until]. destruct (f x).
  - exists t. reflexivity.
  - exists rest. cbn [app]. f_equal. exact IH.
Qed.

Lemma take_until_found : forall {A} (f : A -> bool) l q, find f l = Some q ->
  exists pre, take_until f l = pre ++ [q] /\ Forall (fun x => f x = false) pre /\ f q = true.
Proof.
  intros A f. induction l as [|x t IH]; intros q H; [discriminate|].
  cbn [find take_until] in *. destruct (f x) eqn:E.
  - injection H as <-. exists []. repeat split; [constructor|exact E].
  - destruct (IH q H) as (pre & Hp & Hf & Hq). exists (x :: pre). rewrite Hp.
    repeat split; [constructor; assumption|exact Hq].
Qed.

Lemma take_until_none : forall {A} (f : A -> bool) l, find f l = None ->
  take_until f l = l /\ Forall (fun x => f x = false) l.
Proof.
  intros A f. induction l as [|x t IH]; intros H; [split; [reflexivity|constructor]|].
  cbn [find take_until] in *. destruct (f x) eqn:E; [discriminate|].
  destruct (IH H) as (Ht & Hf). rewrite Ht. split; [reflexivity|constructor; assumption].
Qed.

(* --- the listener's index is the position of the first occurrence in its supported list *)
Lemma l_find_tag_first : forall ls k q i, l_find (tag_from k ls) q = Some i ->
  exists n, i = k + N.of_nat n /\ nth_error ls n = Some q /\
            forall m, (m < n)%nat -> nth_error ls m <> Some q.
Proof.
  induction ls as [|x t IH]; intros k q i H; [discriminate|].
  cbn [tag_from l_find] in H. destruct (name_eqb q x) eqn:E.
  - injection H as <-. apply bytes_eqb_eq in E. subst x. exists 0%nat.
    split; [lia|]. split; [reflexivity|]. intros m Hm. lia.
  - destruct (IH _ _ _ H) as (n & Hi & Hn & Hmin). exists (S n).
    split; [lia|]. split; [exact Hn|]. intros [|m] Hm.
    + cbn [nth_error]. intros Ex. injection Ex as ->.
      unfold name_eqb in E. rewrite bytes_eqb_refl in E. discriminate.
    + cbn [nth_error]. apply Hmin. lia.
Qed.

Lemma l_find_tag_none : forall ls k q, l_find (tag_from k ls) q = None -> ~ In q ls.
Proof.
  induction ls as [|x t IH]; intros k q H; [intros []|].
  cbn [tag_from l_find] in H. destruct (name_eqb q x) eqn:E; [discriminate|].
  intros [->|Hin].
  - unfold name_eqb in E. rewrite bytes_eqb_refl in E. discriminate.
  - exact (IH _ _ H Hin).
Qed.

(* the agreement theorem in words: the dialer gets the first of its names the listener supports,
   the listener opens the substream for that very name (first position in its own list), every
   earlier name was proposed and rejected, and nothing is proposed afterwards; with no common
   name everything is proposed in order and both sides end without a substream *)
Corollary webrtc_session_success : forall ls p fs q, Forall wfw (p :: fs) ->
  find (ws_supported (tag_from 0 ls)) (p :: fs) = Some q ->
  let r := webrtc_session ls p fs in
  ws_dialer r = Some q /\
  (exists n, ws_listener r = Some (N.of_nat n) /\ nth_error ls n = Some q /\
             forall m, (m < n)%nat -> nth_error ls m <> Some q) /\
  exists pre rest, ws_proposed r = pre ++ [q] /\ p :: fs = pre ++ [q] ++ rest /\
                   Forall (fun x => ~ In x ls) pre.
Proof.
  intros ls p fs q H Hq r. subst r.
  destruct (webrtc_session_agreement ls p fs H) as (Hd & Hl & Hp).
  rewrite Hq in Hd, Hl. split; [exact Hd|]. split.
  - pose proof (take_until_found _ _ _ Hq) as (_ & _ & _ & Hs).
    unfold ws_supported in Hs. destruct (l_find (tag_from 0 ls) q) as [i|] eqn:E; [|discriminate].
    destruct (l_find_tag_first _ _ _ _ E) as (n & Hi & Hn & Hm).
    exists n. rewrite Hl. split; [f_equal; lia|]. split; assumption.
  - destruct (take_until_found _ _ _ Hq) as (pre & Ht & Hf & _).
    destruct (take_until_prefix (ws_supported (tag_from 0 ls)) (p :: fs)) as (rest & Hr).
    exists pre, rest. rewrite Hp. split; [exact Ht|]. split.
    + rewrite Hr at 1. rewrite Ht, <- app_assoc. reflexivity.
    + eapply Forall_impl; [|exact Hf]. intros x Hx. cbv beta in Hx.
      unfold ws_supported in Hx.
      destruct (l_find (tag_from 0 ls) x) eqn:E; [discriminate|].
      eapply l_find_tag_none. exact E.
Qed.

Corollary webrtc_session_failure : forall ls p fs, Forall wfw (p :: fs) ->
  find (ws_supported (tag_from 0 ls)) (p :: fs) = None ->
  let r := webrtc_session ls p fs in
  ws_dialer r = None /\ ws_listener r = None /\ ws_proposed r = p :: fs /\
  Forall (fun x => ~ In x ls) (p :: fs).
Proof.
  intros ls p fs H Hq r. subst r.
  destruct (webrtc_session_agreement ls p fs H) as (Hd & Hl & Hp).
  rewrite Hq in Hd, Hl. destruct (take_until_none _ _ Hq) as (Ht & Hf).
  repeat split; [exact Hd|exact Hl|rewrite Hp; exact Ht|].
  eapply Forall_impl; [|exact Hf]. intros x Hx. cbv beta in Hx.
  unfold ws_supported in Hx.
  destruct (l_find (tag_from 0 ls) x) eqn:E; [discriminate|].
  eapply l_find_tag_none. exact E.
Qed.
