(* C03 — litep2p's negotiation futures against ANY peer that holds a legal multistream-select
   conversation (the reference implementation, rust-libp2p's multistream-select, in particular):
   not only against the model's own other half.

   The peer is the environment. What it sends is described by an inductive predicate on its
   FRAMES: `LegalL` (a listener's answers to the proposals made to it: one `na` per name it does
   not support, the confirmation of the first one it does) and `LegalD` (a dialer's proposals:
   names the other side rejects, then at most one that it accepts). The peer's bytes are the
   header frame, these frames and, once a name is agreed, arbitrary application bytes; they are
   delivered by the environment ONE BYTE AT A TIME at arbitrary moments between the polls of the
   litep2p task (any grouping of bytes into deliveries is a sequence of such events), under any
   read/write scripts of the carrier (chunk limits, injected Pendings); the peer's end is closed
   after its last byte. The environment is "prescient" (it may deliver an answer before the
   question has left): this only adds behaviours, since no real peer can do more than deliver a
   prefix of the same stream later.

   Proved for the byte-level machines of Model.v (the ones diffed against the Rust code), V1:
   - the dialer task: a reported success carries the exact index of the first name the peer
     supports, and that is the name the peer confirmed; a reported failure means the peer supports
     none; the application bytes the task receives are exactly the peer's, none consumed by the
     negotiation, none lost; what the task put on the wire is exactly a legal dialer
     conversation followed by its payload; the task terminates under every fair sequence of events;
   - the listener task: likewise (index of its first entry equal to the accepted proposal).
   The proofs reuse the per-poll simulation of SimD / SimL / SimSys, which is parametric in the
   invariant of the peer. *)
From Coq Require Import List Arith NArith Bool Lia ZifyBool ZifyNat ZifyN.
From V.gen Require Import Consts.
From V.common Require Import Wire.
From V.C03 Require Import Model Msg Proofs MsgRef MsgProofs MsgInv Chan Dir SimD SimL SimSys.
From V.C03 Require Import BytesThm Work Work2 Live.
Import ListNotations.
Open Scope N_scope.

Arguments N.add : simpl never.
Arguments N.sub : simpl never.
Arguments N.mul : simpl never.
Arguments N.eqb : simpl never.
Arguments N.ltb : simpl never.
Arguments N.leb : simpl never.
Arguments N.of_nat : simpl never.
Arguments N.min : simpl never.

(* ------------------------------------------------------------------ legal conversations *)

(* a listener that supports exactly the names satisfying S, asked `ps` in this order: its answers
   and the name agreed on *)
Inductive LegalL (S : name -> bool) : list name -> list msg -> option name -> Prop :=
| LL_nil : LegalL S [] [] None
| LL_na : forall p ps rs r, S p = false -> LegalL S ps rs r -> LegalL S (p :: ps) (MNa :: rs) r
| LL_ok : forall p ps, S p = true -> LegalL S (p :: ps) [MProto p] (Some p).

(* a dialer facing a listener that supports exactly the names satisfying S: the proposals it
   makes (it goes on after a rejection, or gives up; it stops at the first acceptance) *)
Inductive LegalD (S : name -> bool) : list name -> option name -> Prop :=
| LD_nil : LegalD S [] None
| LD_rej : forall p ps r, S p = false -> LegalD S ps r -> LegalD S (p :: ps) r
| LD_acc : forall p, S p = true -> LegalD S [p] (Some p).

Fixpoint resp (S : name -> bool) (ps : list name) : list msg :=
  match ps with
  | [] => []
  | p :: t => if S p then [MProto p] else MNa :: resp S t
  end.
Fixpoint agreed (S : name -> bool) (ps : list name) : option name :=
  match ps with
  | [] => None
  | p :: t => if S p then Some p else agreed S t
  end.

Lemma LegalL_fun : forall S ps rs r, LegalL S ps rs r -> rs = resp S ps /\ r = agreed S ps.
Proof.
  intros S ps rs r H. induction H as [|p ps rs r Hp _ [IH1 IH2]|p ps Hp]; cbn [resp agreed].
  - split; reflexivity.
  - rewrite Hp. subst. split; reflexivity.
  - rewrite Hp. split; reflexivity.
Qed.

Lemma LegalL_resp : forall S ps, LegalL S ps (resp S ps) (agreed S ps).
Proof.
  intros S ps. induction ps as [|p ps IH]; cbn [resp agreed]; [constructor|].
  destruct (S p) eqn:E; [apply LL_ok | apply LL_na]; assumption.
Qed.

Lemma resp_nonempty : forall S p t, resp S (p :: t) <> [].
Proof. intros S p t. cbn. destruct (S p); discriminate. Qed.

Lemma LegalD_agreed : forall S ps r, LegalD S ps r -> r = agreed S ps.
Proof.
  intros S ps r H. induction H as [|p ps r Hp _ IH|p Hp]; cbn [agreed]; [reflexivity| |].
  - rewrite Hp. exact IH.
  - rewrite Hp. reflexivity.
Qed.

Lemma LegalD_some_nonempty : forall S ps q, LegalD S ps (Some q) -> ps <> [].
Proof. intros S ps q H. inversion H; discriminate. Qed.

(* ------------------------------------------------------------------ the environment's carrier
   operation: bytes appear in the pipe *)
Definition pipe_push (p : pipe) (bs : bytes) : pipe :=
  mkPipe (p_buf p ++ bs) (p_closed p) (p_rscript p) (p_wscript p) (p_total p ++ bs).

Lemma dir_push : forall wb rv p c w written wb',
  DirRel (SvN wb) rv p c w -> wb = written ++ wb' ->
  exists k, (k <= length w)%nat /\
    DirRel (SvN wb') rv (pipe_push p written) (c ++ firstn k w) (skipn k w) /\
    (wb' = [] -> k = length w).
Proof.
  intros wb rv p c w written wb' (X & [Hc Hw] & Hr) E.
  destruct (drain_sim w wb X written wb' Hw E) as (k & X' & Hk & Hw' & He & Hn).
  exists k. split; [exact Hk|]. split.
  - exists X'. split; [split; [exact Hc | exact Hw']|].
    destruct rv as [st|acc| |acc2]; cbn in *; auto.
    + destruct Hr as (pre & H1 & H2). exists pre. split.
      * rewrite <- app_assoc, firstn_skipn. exact H1.
      * rewrite app_assoc, H2, FR_app, <- !app_assoc. f_equal. exact He.
    + rewrite app_assoc, Hr, FR_app, <- !app_assoc. f_equal. exact He.
    + destruct Hr as (_ & Hr & _). congruence.
  - intros ->. destruct (Hn eq_refl) as [-> _]. reflexivity.
Qed.

Lemma dir_ppush : forall pw rv p c w bs,
  DirRel (SvP pw false) rv p c w -> DirRel (SvP (pw ++ bs) false) rv (pipe_push p bs) c w.
Proof.
  intros pw rv p c w bs (X & (Hw & Hc & ->) & Hr).
  exists (pw ++ bs). split; [cbn; repeat split; assumption|].
  destruct rv as [st|acc| |acc2]; cbn in *; auto.
  - destruct Hr as (pre & H1 & H2). exists pre. split; [exact H1|].
    rewrite app_assoc, H2, <- app_assoc. reflexivity.
  - rewrite app_assoc, Hr, <- app_assoc. reflexivity.
  - destruct Hr as (_ & Hr & _). congruence.
Qed.

Lemma pipe_close_closed0 : forall p, p_closed p = true -> pipe_close p = p.
Proof. intros [b c r w t] H. cbn in H. subst c. reflexivity. Qed.

Lemma pipe_push_nil : forall p, pipe_push p [] = p.
Proof. intros [b c r w t]. unfold pipe_push. cbn. rewrite !app_nil_r. reflexivity. Qed.

(* ------------------------------------------------------------------ one litep2p task and its
   environment *)
Record esys := mkE { e_t : task; e_in : pipe; e_out : pipe; e_rem : bytes }.
Inductive eev := EvPoll | EvByte | EvClose.

Definition estep (s : esys) (e : eev) : esys :=
  match e with
  | EvPoll =>
      let '(t1, pi1, po1) := t_poll (t_fuel (e_t s) (e_in s)) (e_t s) (e_in s) (e_out s) in
      mkE t1 pi1 po1 (e_rem s)
  | EvByte =>
      match e_rem s with
      | [] => s
      | b :: r => mkE (e_t s) (pipe_push (e_in s) [b]) (e_out s) r
      end
  | EvClose =>
      match e_rem s with
      | [] => mkE (e_t s) (pipe_close (e_in s)) (e_out s) []
      | _ :: _ => s
      end
  end.
Definition erun (evs : list eev) (s : esys) : esys := fold_left estep evs s.

(* read script of the inbound pipe, write script of the outbound pipe, the peer's whole stream *)
Definition einit (t : task) (rs ws : list N) (stream : bytes) : esys :=
  mkE t (pipe_init rs []) (pipe_init [] ws) stream.

Lemma erun_app : forall a b s, erun (a ++ b) s = erun b (erun a s).
Proof. intros. unfold erun. apply fold_left_app. Qed.

(* message-level bookkeeping of what the environment does *)
Definition move_l (m : msys) (k : nat) : msys :=
  mkS (sd m) (mkL (ml_ph (sl m)) (skipn k (ml_wbuf (sl m)))) (c_dl m) (dl_closed m)
      (c_ld m ++ firstn k (ml_wbuf (sl m))) (ld_closed m).
Definition set_lph (m : msys) (ph : mlphase) : msys :=
  mkS (sd m) (mkL ph (ml_wbuf (sl m))) (c_dl m) (dl_closed m) (c_ld m) (ld_closed m).
Definition close_l (m : msys) : msys :=
  mkS (sd m) (sl m) (c_dl m) (dl_closed m) (c_ld m) true.

Definition move_d (m : msys) (k : nat) : msys :=
  mkS (mkD (md_ph (sd m)) (md_rest (sd m)) (skipn k (md_wbuf (sd m)))) (sl m)
      (c_dl m ++ firstn k (md_wbuf (sd m))) (dl_closed m) (c_ld m) (ld_closed m).
Definition set_dph (m : msys) (ph : mdphase) : msys :=
  mkS (mkD ph (md_rest (sd m)) (md_wbuf (sd m))) (sl m) (c_dl m) (dl_closed m) (c_ld m) (ld_closed m).
Definition close_d (m : msys) : msys :=
  mkS (sd m) (sl m) (c_dl m) true (c_ld m) (ld_closed m).

(* ------------------------------------------------------------------ termination: the
   potential of Live.v plus what the environment still has to deliver. No invariant needed. *)
Definition noop (e : eev) (s : esys) (blocked : Prop) : Prop :=
  match e with
  | EvPoll => blocked
  | EvByte => e_rem s = []
  | EvClose => e_rem s <> [] \/ p_closed (e_in s) = true
  end.

(* K rounds, each containing a poll, a delivery and a close attempt *)
Fixpoint fairE (k : nat) (evs : list eev) : Prop :=
  match k with
  | O => True
  | Datatypes.S k' => exists blk rest, evs = blk ++ rest /\ In EvPoll blk /\ In EvByte blk /\ In EvClose blk /\
                        fairE k' rest
  end.

Lemma done_estep : forall s e, t_done (e_t s) = true -> t_done (e_t (estep s e)) = true.
Proof.
  intros s e H. destruct e; cbn [estep].
  - destruct s as [[ph pl rs gt en] pin pout rem]. unfold t_done in H. cbn in H.
    destruct ph; try discriminate. reflexivity.
  - destruct (e_rem s); exact H.
  - destruct (e_rem s); exact H.
Qed.

Lemma done_erun : forall evs s, t_done (e_t s) = true -> t_done (e_t (erun evs s)) = true.
Proof.
  induction evs as [|e evs IH]; intros s H; [exact H|]. cbn. apply IH. apply done_estep. exact H.
Qed.

Definition PhiD (s : esys) : N := MD (e_t s) (e_in s) (e_out s) + 2 * len (e_rem s) + cl (e_in s).
Definition PhiL (s : esys) : N := ML (e_t s) (e_in s) (e_out s) + (WDL + 1) * len (e_rem s) + cl (e_in s).

Lemma estep_workD : forall s e, WfTD (e_t s) ->
  WfTD (e_t (estep s e)) /\ PhiD (estep s e) <= PhiD s /\
  (PhiD (estep s e) = PhiD s -> estep s e = s /\ noop e s (BlockedD (e_t s) (e_in s))).
Proof.
  intros [t pin pout rem] e Hw. cbn [e_t e_in e_out e_rem] in *. destruct e; cbn [estep e_t e_in e_out e_rem noop].
  - remember (t_fuel t pin) as fu eqn:Efu.
    destruct (t_poll fu t pin pout) as [[t1 pi1] po1] eqn:Et.
    destruct (d_task_work _ _ _ _ _ _ _ Hw Et) as (W & (F1 & F2 & F3) & G1 & G2).
    cbn [e_t]. split; [exact W|].
    assert (Ec : cl pi1 = cl pin) by (unfold cl; rewrite F2; reflexivity).
    unfold PhiD. cbn [e_t e_in e_out e_rem]. rewrite Ec. split; [lia|]. intros E.
    assert (E' : MD t1 pi1 po1 = MD t pin pout) by lia.
    destruct (G2 E') as (-> & -> & -> & Hb). split; [reflexivity|].
    destruct Hb as [Hb | Hb]; [rewrite Efu in Hb; unfold t_fuel in Hb; lia | exact Hb].
  - destruct rem as [|b rem']; cbn [e_t e_in e_out e_rem].
    + split; [exact Hw|]. split; [lia|]. intros _. split; reflexivity.
    + split; [exact Hw|].
      assert (E : PhiD (mkE t (pipe_push pin [b]) pout rem') + 1 = PhiD (mkE t pin pout (b :: rem'))).
      { unfold PhiD, MD, PipesD, cl, pipe_push. cbn [e_t e_in e_out e_rem p_buf p_closed p_rscript p_wscript].
        rewrite len_app, (len_cons b rem'). change (len [b]) with 1. unfold WDL. lia. }
      split; [lia|]. intros E2. lia.
  - destruct rem as [|b rem']; cbn [e_t e_in e_out e_rem].
    + split; [exact Hw|]. destruct (p_closed pin) eqn:Ecl.
      * rewrite (pipe_close_closed0 pin Ecl). split; [lia|]. intros _. split; [reflexivity | right; reflexivity].
      * assert (E : PhiD (mkE t (pipe_close pin) pout []) + 1 = PhiD (mkE t pin pout [])).
        { unfold PhiD, MD, PipesD, cl, pipe_close. cbn [e_t e_in e_out e_rem p_buf p_closed p_rscript p_wscript].
          rewrite Ecl. unfold WDL. lia. }
        split; [lia|]. intros E2. lia.
    + split; [exact Hw|]. split; [lia|]. intros _. split; [reflexivity | left; discriminate].
Qed.

Lemma estep_workL : forall s e, WfTL (e_t s) ->
  WfTL (e_t (estep s e)) /\ PhiL (estep s e) <= PhiL s /\
  (PhiL (estep s e) = PhiL s -> estep s e = s /\ noop e s (BlockedL (e_t s) (e_in s))).
Proof.
  intros [t pin pout rem] e Hw. cbn [e_t e_in e_out e_rem] in *. destruct e; cbn [estep e_t e_in e_out e_rem noop].
  - remember (t_fuel t pin) as fu eqn:Efu.
    destruct (t_poll fu t pin pout) as [[t1 pi1] po1] eqn:Et.
    destruct (l_task_work _ _ _ _ _ _ _ Hw Et) as (W & (F1 & F2 & F3) & G1 & G2).
    cbn [e_t]. split; [exact W|].
    assert (Ec : cl pi1 = cl pin) by (unfold cl; rewrite F2; reflexivity).
    unfold PhiL. cbn [e_t e_in e_out e_rem]. rewrite Ec. split; [lia|]. intros E.
    assert (E' : ML t1 pi1 po1 = ML t pin pout) by lia.
    destruct (G2 E') as (-> & -> & -> & Hb). split; [reflexivity|].
    destruct Hb as [Hb | Hb]; [rewrite Efu in Hb; unfold t_fuel in Hb; lia | exact Hb].
  - destruct rem as [|b rem']; cbn [e_t e_in e_out e_rem].
    + split; [exact Hw|]. split; [lia|]. intros _. split; reflexivity.
    + split; [exact Hw|].
      assert (E : PhiL (mkE t (pipe_push pin [b]) pout rem') + 1 = PhiL (mkE t pin pout (b :: rem'))).
      { unfold PhiL, ML, PipesL, cl, pipe_push. cbn [e_t e_in e_out e_rem p_buf p_closed p_rscript p_wscript].
        rewrite len_app, (len_cons b rem'). change (len [b]) with 1. unfold WDL. lia. }
      split; [lia|]. intros E2. lia.
  - destruct rem as [|b rem']; cbn [e_t e_in e_out e_rem].
    + split; [exact Hw|]. destruct (p_closed pin) eqn:Ecl.
      * rewrite (pipe_close_closed0 pin Ecl). split; [lia|]. intros _. split; [reflexivity | right; reflexivity].
      * assert (E : PhiL (mkE t (pipe_close pin) pout []) + 1 = PhiL (mkE t pin pout [])).
        { unfold PhiL, ML, PipesL, cl, pipe_close. cbn [e_t e_in e_out e_rem p_buf p_closed p_rscript p_wscript].
          rewrite Ecl. unfold WDL. lia. }
        split; [lia|]. intros E2. lia.
    + split; [exact Hw|]. split; [lia|]. intros _. split; [reflexivity | left; discriminate].
Qed.

Section Term.
Variables (Wf : task -> Prop) (Phi : esys -> N) (Blk : task -> pipe -> Prop).
Hypothesis step_work : forall s e, Wf (e_t s) ->
  Wf (e_t (estep s e)) /\ Phi (estep s e) <= Phi s /\
  (Phi (estep s e) = Phi s -> estep s e = s /\ noop e s (Blk (e_t s) (e_in s))).
Hypothesis blk_closed : forall t pin, Blk t pin -> p_closed pin = true -> t_ph t = TDone.

Lemma erun_work : forall evs s, Wf (e_t s) ->
  Wf (e_t (erun evs s)) /\ Phi (erun evs s) <= Phi s /\
  (Phi (erun evs s) = Phi s -> erun evs s = s /\ forall e, In e evs -> noop e s (Blk (e_t s) (e_in s))).
Proof.
  induction evs as [|e evs IH]; intros s Hw.
  - split; [exact Hw|]. split; [cbn; lia|]. intros _. split; [reflexivity|]. intros e [].
  - cbn [erun fold_left]. fold (erun evs (estep s e)).
    destruct (step_work s e Hw) as (W1 & L1 & E1).
    destruct (IH _ W1) as (W2 & L2 & E2).
    split; [exact W2|]. split; [lia|]. intros E.
    assert (Ea : Phi (estep s e) = Phi s) by lia.
    destruct (E1 Ea) as [Es Hb]. rewrite Es in *.
    destruct (E2 E) as [Es2 Hb2]. split; [exact Es2|].
    intros x [<- | Hx]; [exact Hb | exact (Hb2 x Hx)].
Qed.

Theorem env_terminate : forall K evs s, Wf (e_t s) -> fairE K evs -> Phi s < N.of_nat K ->
  t_done (e_t (erun evs s)) = true.
Proof.
  induction K as [|K IH]; intros evs s Hw Hf Hphi; [lia|].
  cbn in Hf. destruct Hf as (blk & rest & -> & Hp & Hb & Hc & Hf).
  rewrite erun_app.
  destruct (erun_work blk s Hw) as (W1 & L1 & E1).
  destruct (N.eq_dec (Phi (erun blk s)) (Phi s)) as [E | E].
  - destruct (E1 E) as [Es Hn]. rewrite Es.
    pose proof (Hn _ Hp) as N1. pose proof (Hn _ Hb) as N2. pose proof (Hn _ Hc) as N3. cbn in N1, N2, N3.
    assert (Hcl : p_closed (e_in s) = true) by (destruct N3 as [N3 | N3]; [contradiction | exact N3]).
    apply done_erun. unfold t_done. rewrite (blk_closed _ _ N1 Hcl). reflexivity.
  - apply (IH rest _ W1 Hf). lia.
Qed.
End Term.

Lemma blockedD_closed : forall t pin, BlockedD t pin -> p_closed pin = true -> t_ph t = TDone.
Proof.
  intros t pin [H | [H | (d & _ & (_ & _ & H))]] Hc; [exact H| |congruence].
  destruct (ReadWait_ph _ _ H) as [_ E]. congruence.
Qed.

Lemma blockedL_closed : forall t pin, BlockedL t pin -> p_closed pin = true -> t_ph t = TDone.
Proof.
  intros t pin [H | [H | (l & _ & (_ & _ & H))]] Hc; [exact H| |congruence].
  destruct (ReadWait_ph _ _ H) as [_ E]. congruence.
Qed.

(* ================================================================== A. the dialer task against
   a legal listener *)
Section DialerVsPeer.
Variables (ds : list name) (S : name -> bool).
Hypothesis Hwf : Forall wfn ds.

Definition unsupS (p : name) : Prop := S p = false.
Definition inb (m : msys) : list msg := c_ld m ++ ml_wbuf (sl m).
Definition outb (m : msys) : list msg := c_dl m ++ md_wbuf (sd m).
Definition hdm (hr : bool) : list msg := if hr then [] else [MHeader].

(* where the dialer stands in the conversation *)
Definition JD (m : msys) : Prop :=
  match md_ph (sd m) with
  | MDSendHeader => md_rest (sd m) = ds /\ inb m = MHeader :: resp S ds /\ outb m = []
  | MDSendProto p hr => exists pre, ds = pre ++ p :: md_rest (sd m) /\ Forall unsupS pre /\
      inb m = hdm hr ++ resp S (p :: md_rest (sd m)) /\ outb m = MHeader :: map MProto pre
  | MDFlush p hr | MDAwait p hr => exists pre, ds = pre ++ p :: md_rest (sd m) /\ Forall unsupS pre /\
      inb m = hdm hr ++ resp S (p :: md_rest (sd m)) /\ outb m = MHeader :: map MProto (pre ++ [p])
  | MDDone (Some p) => exists pre, ds = pre ++ p :: md_rest (sd m) /\ Forall unsupS pre /\
      S p = true /\ inb m = [] /\ outb m = MHeader :: map MProto (pre ++ [p])
  | MDDone None => Forall unsupS ds
  end.

Definition RD (m : msys) : Prop :=
  JD m /\ Forall (lmsg ds) (inb m) /\ (ld_closed m = true -> ml_wbuf (sl m) = []) /\
  (forall q, ml_ph (sl m) = MLDone (Some q) -> ml_wbuf (sl m) = []).

Lemma in_ds_slash : forall p, In p ds -> starts_slash p = true.
Proof.
  intros p H. rewrite Forall_forall in Hwf. destruct (Hwf p H) as [(Hs & _) _]. exact Hs.
Qed.

Lemma RD_step_d : forall m, RD m -> RD (mstep_d m).
Proof.
  intros [[dph drest dw] [lph lw] cdl dlc cld ldc] (HJ & HF & HC & HQ).
  unfold RD, JD, inb, outb, mstep_d, set_d, d_fail in *. cbn in *.
  destruct dph as [|p hr|p hr|p hr|r].
  - (* SendHeader *)
    destruct HJ as (Hr & Hi & Ho). apply app_eq_nil in Ho. destruct Ho as [-> ->].
    destruct drest as [|p r]; cbn.
    + split; [rewrite <- Hr; constructor|]. repeat split; auto.
    + split; [|repeat split; auto].
      exists []. cbn. split; [symmetry; exact Hr|]. split; [constructor|].
      split; [rewrite Hi, <- Hr; reflexivity | reflexivity].
  - (* SendProto *)
    destruct HJ as (pre & Hds & Hpre & Hi & Ho).
    assert (Hs : starts_slash p = true).
    { apply in_ds_slash. rewrite Hds. apply in_or_app. right. left. reflexivity. }
    rewrite Hs. cbn. split; [|repeat split; auto].
    exists pre. split; [exact Hds|]. split; [exact Hpre|]. split; [exact Hi|].
    rewrite app_assoc, Ho, map_app. reflexivity.
  - (* Flush *)
    destruct HJ as (pre & Hds & Hpre & Hi & Ho).
    destruct dw as [|x dw]; cbn.
    + split; [|repeat split; auto]. exists pre. rewrite app_nil_r in Ho. repeat split; auto.
      rewrite app_nil_r. exact Ho.
    + split; [|repeat split; auto]. exists pre. repeat split; auto.
      rewrite <- app_assoc. exact Ho.
  - (* Await *)
    destruct HJ as (pre & Hds & Hpre & Hi & Ho).
    destruct cld as [|x cld]; cbn.
    + destruct ldc; cbn.
      * exfalso. rewrite (HC eq_refl) in Hi. cbn in Hi.
        destruct hr; cbn in Hi; [|discriminate]. symmetry in Hi. exact (resp_nonempty _ _ _ Hi).
      * split; [|repeat split; auto]. exists pre. repeat split; auto.
    + cbn in Hi. pose proof (Forall_inv_tail HF) as HF'.
      destruct hr; cbn [hdm app] in Hi.
      * (* header already seen: the answer to p *)
        cbn [resp] in Hi. destruct (S p) eqn:Esp.
        -- injection Hi as -> Hi. cbn [d_react]. unfold name_eqb. rewrite bytes_eqb_refl. cbn.
           split; [|repeat split; auto].
           exists pre. repeat split; auto.
        -- injection Hi as -> Hi. cbn [d_react].
           destruct drest as [|p' r']; cbn.
           ++ split; [|repeat split; auto]. rewrite Hds. apply Forall_app. split; [exact Hpre|].
              constructor; [exact Esp | constructor].
           ++ split; [|repeat split; auto].
              exists (pre ++ [p]). rewrite <- app_assoc. cbn. split; [exact Hds|].
              split; [apply Forall_app; split; [exact Hpre | constructor; [exact Esp | constructor]]|].
              split; [exact Hi | exact Ho].
      * injection Hi as -> Hi. cbn [d_react]. cbn.
        split; [|repeat split; auto]. exists pre. repeat split; auto.
  - destruct r as [q|]; (split; [exact HJ | repeat split; auto]).
Qed.

Lemma RD_ok_ld : forall m, RD m -> Forall okmsg (c_ld m ++ ml_wbuf (sl m)).
Proof. intros m (_ & HF & _). eapply Forall_impl; [|exact HF]. apply (lmsg_ok ds Hwf). Qed.

Lemma RD_guard_d : forall m q p hr, RD m -> ml_ph (sl m) = MLDone (Some q) ->
  md_ph (sd m) = MDAwait p hr -> c_ld m <> [].
Proof.
  intros m q p hr (HJ & _ & _ & HQ) Hq Hph Hc. unfold JD in HJ. rewrite Hph in HJ.
  destruct HJ as (pre & _ & _ & Hi & _). unfold inb in Hi. rewrite Hc, (HQ q Hq) in Hi. cbn in Hi.
  destruct hr; cbn in Hi; [|discriminate]. symmetry in Hi. exact (resp_nonempty _ _ _ Hi).
Qed.

(* the environment's moves keep the invariant *)
Lemma JD_ext : forall m m', sd m' = sd m -> inb m' = inb m -> c_dl m' = c_dl m -> JD m -> JD m'.
Proof. intros m m' E1 E2 E3 H. unfold JD, outb in *. rewrite E1, E2, E3. exact H. Qed.

Lemma inb_move_l : forall m k, inb (move_l m k) = inb m.
Proof. intros m k. unfold inb, move_l. cbn. rewrite <- app_assoc, firstn_skipn. reflexivity. Qed.

Lemma skipn_nil_of_nil : forall (A : Type) (l : list A) k, l = [] -> skipn k l = [].
Proof. intros A l k ->. apply skipn_nil. Qed.

Lemma RD_move_l : forall m k, RD m -> RD (move_l m k).
Proof.
  intros m k (HJ & HF & HC & HQ). split; [|split; [|split]].
  - apply (JD_ext m); [reflexivity | apply inb_move_l | reflexivity | exact HJ].
  - rewrite inb_move_l. exact HF.
  - intros E. cbn. apply skipn_nil_of_nil. exact (HC E).
  - intros q E. cbn. apply skipn_nil_of_nil. exact (HQ q E).
Qed.

Lemma RD_set_lph : forall m ph, RD m -> ml_wbuf (sl m) = [] -> RD (set_lph m ph).
Proof.
  intros m ph (HJ & HF & HC & HQ) Hw. split; [|split; [|split]].
  - apply (JD_ext m); [reflexivity | reflexivity | reflexivity | exact HJ].
  - exact HF.
  - intros _. exact Hw.
  - intros q _. exact Hw.
Qed.

Lemma RD_close_l : forall m, RD m -> ml_wbuf (sl m) = [] -> RD (close_l m).
Proof.
  intros m (HJ & HF & HC & HQ) Hw. split; [|split; [|split]].
  - apply (JD_ext m); [reflexivity | reflexivity | reflexivity | exact HJ].
  - exact HF.
  - intros _. exact Hw.
  - exact HQ.
Qed.

(* ---- the byte-level state and its environment *)
Variable pay : bytes.
Definition r0 : option name := agreed S ds.
Definition popt (r : option name) : bytes := match r with Some _ => pay | None => [] end.

(* what is left of the peer's stream, by what the peer is doing *)
Definition PeerL (svl : sview) (s : esys) : Prop :=
  match svl with
  | SvN wb => e_rem s = wb ++ popt r0
  | SvP pw fin => r0 <> None /\ pay = pw ++ e_rem s /\ (fin = true -> e_rem s = [])
  | SvF => r0 = None /\ e_rem s = []
  end.

Definition EInvD (s : esys) : Prop :=
  exists m svd rvd svl,
    RD m /\ DTask ds (e_t s) m svd rvd /\ SLinkL svl m /\
    DirRel svd (RvP []) (e_out s) (c_dl m) (md_wbuf (sd m)) /\
    DirRel svl rvd (e_in s) (c_ld m) (ml_wbuf (sl m)) /\
    PeerL svl s.

Lemma EInvD_intro : forall s m svd rvd svl,
  RD m -> DTask ds (e_t s) m svd rvd -> SLinkL svl m ->
  DirRel svd (RvP []) (e_out s) (c_dl m) (md_wbuf (sd m)) ->
  DirRel svl rvd (e_in s) (c_ld m) (ml_wbuf (sl m)) ->
  PeerL svl s -> EInvD s.
Proof. intros s m svd rvd svl H1 H2 H3 H4 H5 H6. exists m, svd, rvd, svl. tauto. Qed.

Lemma SLinkL_frame : forall sv m m', sl m' = sl m -> ld_closed m' = ld_closed m ->
  SLinkL sv m -> SLinkL sv m'.
Proof. intros sv m m' E1 E2 H. destruct sv; cbn in *; rewrite ?E1, ?E2; exact H. Qed.

Lemma pipe_close_closed : forall p, p_closed p = true -> pipe_close p = p.
Proof. intros [b c r w t] H. cbn in H. subst c. reflexivity. Qed.

Lemma EInvD_step : forall s e, EInvD s -> EInvD (estep s e).
Proof.
  intros s e (m & svd & rvd & svl & HR & HT & HL & Hout & Hin & HP).
  destruct e; cbn [estep].
  - (* a poll of the task *)
    destruct (t_poll (t_fuel (e_t s) (e_in s)) (e_t s) (e_in s) (e_out s)) as [[t1 pi1] po1] eqn:Et.
    destruct (d_task_sim_gen ds [] Hwf RD RD_step_d RD_ok_ld RD_guard_d
                _ _ _ _ _ _ _ _ _ _ _ _ HR HT HL Hout Hin Et)
      as (k & svd' & rvd' & HR' & HT' & Ho & Hi).
    destruct (mdk_frame [] k m) as [E1 E2].
    exists (mdk [] k m), svd', rvd', svl. cbn [e_t e_in e_out e_rem].
    split; [exact HR'|]. split; [exact HT'|].
    split; [exact (SLinkL_frame _ _ _ E1 E2 HL)|]. split; [exact Ho|]. split; [exact Hi|].
    destruct svl; exact HP.
  - (* one more byte of the peer's stream arrives *)
    destruct (e_rem s) as [|b rem'] eqn:Er.
    { apply (EInvD_intro _ m svd rvd svl); assumption. }
    destruct svl as [wb|pw fin|]; cbn [PeerL] in HP.
    + rewrite Er in HP. destruct wb as [|b' wb'].
      * (* the negotiation frames are all out: this is the first application byte *)
        cbn [app] in HP. unfold popt in HP. destruct r0 as [q|] eqn:Er0; [|discriminate].
        destruct (dir_to_payload _ _ _ _ Hin) as [Hw Hin1].
        pose proof (dir_ppush _ _ _ _ _ [b] Hin1) as Hin2. cbn [app] in Hin2.
        exists (set_lph m (MLDone (Some q))), svd, rvd, (SvP [b] false).
        cbn [e_t e_in e_out e_rem].
        split; [apply RD_set_lph; assumption|].
        split; [apply (DTask_frame ds _ m); [reflexivity | reflexivity | exact HT]|].
        split; [cbn; eauto|]. split; [exact Hout|].
        split; [cbn [set_lph sl c_ld ml_wbuf]; rewrite Hw; exact Hin2|].
        cbn. rewrite Er0. split; [discriminate|]. split; [symmetry; exact HP | discriminate].
      * cbn [app] in HP. injection HP as <- HP.
        destruct (dir_push _ _ _ _ _ [b] wb' Hin eq_refl) as (k & Hk & Hin1 & _).
        exists (move_l m k), svd, rvd, (SvN wb'). cbn [e_t e_in e_out e_rem].
        split; [apply RD_move_l; exact HR|].
        split; [apply (DTask_frame ds _ m); [reflexivity | reflexivity | exact HT]|].
        split; [exact HL|]. split; [exact Hout|]. split; [exact Hin1 | exact HP].
    + destruct HP as (Hr & Hp & Hf). rewrite Er in Hp, Hf.
      destruct fin; [specialize (Hf eq_refl); discriminate|].
      pose proof (dir_ppush _ _ _ _ _ [b] Hin) as Hin1.
      apply (EInvD_intro _ m svd rvd (SvP (pw ++ [b]) false)); cbn [e_t e_in e_out e_rem]; auto.
      cbn. split; [exact Hr|]. split; [rewrite <- app_assoc; exact Hp | discriminate].
    + destruct HP as [_ HP]. rewrite Er in HP. discriminate.
  - (* the peer's end is closed, once its stream is out *)
    destruct (e_rem s) as [|b rem'] eqn:Er.
    2:{ apply (EInvD_intro _ m svd rvd svl); assumption. }
    destruct svl as [wb|pw fin|]; cbn [PeerL] in HP.
    + rewrite Er in HP. symmetry in HP. apply app_eq_nil in HP. destruct HP as [-> HP].
      destruct (dir_to_payload _ _ _ _ Hin) as [Hw Hin1].
      unfold popt in HP. destruct r0 as [q|] eqn:Er0.
      * exists (set_lph m (MLDone (Some q))), svd, rvd, (SvP [] true). cbn [e_t e_in e_out e_rem].
        split; [apply RD_set_lph; assumption|].
        split; [apply (DTask_frame ds _ m); [reflexivity | reflexivity | exact HT]|].
        split; [cbn; eauto|]. split; [exact Hout|].
        split; [cbn [set_lph sl c_ld ml_wbuf]; rewrite Hw; apply dir_pclose; exact Hin1|].
        cbn. rewrite Er0. split; [discriminate|]. split; [exact HP | reflexivity].
      * rewrite Hw in Hin.
        exists (close_l m), svd, rvd, SvF. cbn [e_t e_in e_out e_rem].
        split; [apply RD_close_l; assumption|].
        split; [apply (DTask_frame ds _ m); [reflexivity | reflexivity | exact HT]|].
        split; [reflexivity|]. split; [exact Hout|].
        split; [cbn [close_l sl c_ld]; rewrite Hw; apply dir_fail; exact Hin|].
        cbn. rewrite Er0. split; reflexivity.
    + destruct HP as (Hr & Hp & Hf). rewrite Er in Hp.
      destruct fin.
      * assert (Hc : p_closed (e_in s) = true).
        { destruct Hin as (X & (_ & Hc & _) & _). exact Hc. }
        rewrite (pipe_close_closed _ Hc).
        apply (EInvD_intro _ m svd rvd (SvP pw true)); cbn [e_t e_in e_out e_rem]; auto.
        cbn. split; [exact Hr|]. split; [exact Hp | reflexivity].
      * apply (EInvD_intro _ m svd rvd (SvP pw true)); cbn [e_t e_in e_out e_rem]; auto.
        -- apply dir_pclose. exact Hin.
        -- cbn. split; [exact Hr|]. split; [exact Hp | reflexivity].
    + assert (Hc : p_closed (e_in s) = true).
      { destruct Hin as (X & (_ & Hc & _) & _). exact Hc. }
      rewrite (pipe_close_closed _ Hc).
      apply (EInvD_intro _ m svd rvd SvF); cbn [e_t e_in e_out e_rem]; auto.
      cbn. split; [apply HP | reflexivity].
Qed.

(* ---- the initial state *)
Definition d_task (dpay : bytes) : task := task_init (FDial (d_init ds false)) dpay.
(* the peer's whole stream: header, its answers, then (if a name was agreed) its payload *)
Definition lstream : bytes := FR (MHeader :: resp S ds) ++ popt r0.
Definition m0 : msys :=
  mkS (mkD MDSendHeader ds []) (mkL MLRecvMsg (MHeader :: resp S ds)) [] false [] false.

Lemma resp_lmsg : forall ps, incl ps ds -> Forall (lmsg ds) (resp S ps).
Proof.
  induction ps as [|p ps IH]; intros Hi; cbn [resp]; [constructor|].
  assert (Hp : In p ds) by (apply Hi; left; reflexivity).
  assert (Hi' : incl ps ds) by (intros x Hx; apply Hi; right; exact Hx).
  destruct (S p).
  - constructor; [|constructor]. right. right. exists p. split; [reflexivity | exact Hp].
  - constructor; [right; left; reflexivity | exact (IH Hi')].
Qed.

Lemma EInvD_init : forall dpay rs ws, EInvD (einit (d_task dpay) rs ws lstream).
Proof.
  intros dpay rs ws.
  apply (EInvD_intro _ m0 (SvN []) (RvN rd_init) (SvN (FR (MHeader :: resp S ds)))).
  - split; [|split; [|split]].
    + unfold JD, m0, inb, outb. cbn. repeat split; reflexivity.
    + unfold m0, inb. cbn. constructor; [left; reflexivity|]. apply resp_lmsg. apply incl_refl.
    + cbn. discriminate.
    + cbn. discriminate.
  - apply (DT_neg ds _ _ (d_init ds false)); try reflexivity.
    split; [reflexivity|]. cbn. repeat split; reflexivity.
  - reflexivity.
  - exists []. split; [cbn; auto|]. reflexivity.
  - exists []. split; [split; [reflexivity | apply WB_fresh]|].
    exists []. split; [left; split; reflexivity | reflexivity].
  - reflexivity.
Qed.

Lemma EInvD_run : forall evs s, EInvD s -> EInvD (erun evs s).
Proof.
  induction evs as [|e evs IH]; intros s H; [exact H|]. cbn. apply IH. apply EInvD_step. exact H.
Qed.

(* ---- reading the invariant *)
Lemma agreed_at : forall pre p rest, Forall unsupS pre -> S p = true ->
  agreed S (pre ++ p :: rest) = Some p.
Proof.
  induction pre as [|x pre IH]; intros p rest Hp Hs; cbn [app agreed].
  - rewrite Hs. reflexivity.
  - inversion Hp as [|? ? Hx Hp']; subst. unfold unsupS in Hx. rewrite Hx. apply IH; assumption.
Qed.

Lemma agreed_none : forall ps, Forall unsupS ps -> agreed S ps = None.
Proof.
  induction ps as [|x ps IH]; intros Hp; [reflexivity|]. cbn [agreed].
  inversion Hp as [|? ? Hx Hp']; subst. unfold unsupS in Hx. rewrite Hx. apply IH. exact Hp'.
Qed.

(* the application bytes the task has taken out of its stream so far *)
Definition t_read (t : task) : bytes :=
  match t_ph t with TRead _ acc => acc | TDone => t_got t | _ => [] end.

Definition first_supported (i : N) (p : name) : Prop :=
  exists pre rest, ds = pre ++ p :: rest /\ i = N.of_nat (length pre) /\ Forall unsupS pre /\ S p = true.

Lemma EInvD_ok : forall s i, EInvD s -> t_res (e_t s) = (0, i) ->
  exists p, first_supported i p /\ r0 = Some p /\
    t_read (e_t s) ++ p_buf (e_in s) ++ e_rem s = pay /\
    (t_done (e_t s) = true ->
       t_end (e_t s) = 0 /\ p_buf (e_in s) = [] /\ e_rem s = [] /\ p_closed (e_out s) = true /\
       p_buf (e_out s) = FR (MHeader :: map MProto (firstn (N.to_nat i + 1) ds)) ++ t_payload (e_t s)).
Proof.
  intros s i (m & svd & rvd & svl & (HJ & _ & _ & _) & HT & HL & Hout & Hin & HP) Hres.
  destruct HT as [d Hph HD Hcl Hres' | sv rv i' p pre HV Hres' Hds Hi Hph Hcl | code Hph Hres' Hc Hmd Hcl].
  { rewrite Hres in Hres'. discriminate. }
  2:{ rewrite Hres in Hres'. injection Hres' as <- _. lia. }
  rewrite Hres in Hres'. injection Hres' as <-.
  unfold JD in HJ. rewrite Hph in HJ. destruct HJ as (pre' & Hds' & Hpre & Hsp & Hinb & Houtb).
  assert (pre' = pre).
  { rewrite Hds in Hds'. apply (f_equal (@rev name)) in Hds'. rewrite !rev_app_distr in Hds'.
    cbn [rev] in Hds'. rewrite <- !app_assoc in Hds'. apply app_inv_head in Hds'.
    cbn in Hds'. injection Hds' as Hds'. apply (f_equal (@rev name)) in Hds'.
    rewrite !rev_involutive in Hds'. symmetry. exact Hds'. }
  subst pre'.
  assert (Hr0 : r0 = Some p) by (unfold r0; rewrite Hds; apply agreed_at; assumption).
  exists p. split; [exists pre, (md_rest (sd m)); repeat split; assumption|]. split; [exact Hr0|].
  unfold inb in Hinb. apply app_eq_nil in Hinb. destruct Hinb as [Hc Hw].
  rewrite Hc, Hw in Hin.
  (* the inbound direction: what the task has read, what is in the pipe, what is to come *)
  assert (Hread : forall acc X, acc ++ p_buf (e_in s) = X -> SPart svl (e_in s) [] X ->
                    acc ++ p_buf (e_in s) ++ e_rem s = pay).
  { intros acc X Hx Hs. rewrite app_assoc, Hx.
    destruct svl as [wb|pw fin|]; cbn in Hs, HP.
    - destruct Hs as (_ & -> & ->). rewrite HP, Hr0. reflexivity.
    - destruct Hs as (_ & _ & ->). destruct HP as (_ & HP & _). symmetry. exact HP.
    - destruct HP as [HP _]. rewrite Hr0 in HP. discriminate. }
  destruct Hin as (X & Hs & Hr).
  destruct HV as [rem pw Eph Epay | Eph | acc Eph | Eph Eend].
  - (* writing its payload *)
    split; [|unfold t_done; rewrite Eph; discriminate].
    unfold t_read. rewrite Eph. cbn in Hr. apply (Hread [] X); assumption.
  - split; [|unfold t_done; rewrite Eph; discriminate].
    unfold t_read. rewrite Eph. cbn in Hr. apply (Hread [] X); assumption.
  - split; [|unfold t_done; rewrite Eph; discriminate].
    unfold t_read. rewrite Eph. cbn in Hr. apply (Hread acc X); assumption.
  - (* done *)
    cbn in Hr. destruct Hr as (Hb & Hcl' & Hg).
    assert (Hrem : e_rem s = []).
    { destruct svl as [wb|pw fin|]; cbn in Hs, HP.
      - destruct Hs as [Hs _]. congruence.
      - destruct Hs as (_ & Hf & _). destruct HP as (_ & _ & HP). apply HP. congruence.
      - apply HP. }
    split.
    + unfold t_read. rewrite Eph. cbn in Hg. rewrite Hg.
      apply (Hread (FR [] ++ X) X); [rewrite Hb, app_nil_r; reflexivity | exact Hs].
    + intros _. split; [exact Eend|]. split; [exact Hb|]. split; [exact Hrem|].
      destruct Hout as (Y & (Hw' & Hcl2 & ->) & Ho). cbn in Ho.
      split; [exact Hcl2|]. rewrite Ho.
      unfold outb in Houtb. rewrite Hw', app_nil_r in Houtb. rewrite Houtb. f_equal. f_equal. f_equal.
      rewrite Hds, Hi, Nat2N.id. rewrite firstn_app.
      replace (length pre + 1 - length pre)%nat with 1%nat by lia.
      rewrite firstn_all2 by lia. reflexivity.
Qed.

Lemma EInvD_fail : forall s code i, EInvD s -> t_res (e_t s) = (code, i) -> code <> 0 -> code <> 99 ->
  Forall unsupS ds /\ r0 = None.
Proof.
  intros s code i (m & svd & rvd & svl & (HJ & _ & _ & _) & HT & _) Hres H0 H99.
  destruct HT as [d Hph HD Hcl Hres' | sv rv i' p pre HV Hres' Hds Hi Hph Hcl | code' Hph Hres' Hc Hmd Hcl];
    rewrite Hres in Hres'; injection Hres' as -> ?; try congruence.
  unfold JD in HJ. rewrite Hmd in HJ. split; [exact HJ|]. apply agreed_none. exact HJ.
Qed.

End DialerVsPeer.

(* ================================================================== B. the listener task
   against a legal dialer *)
Section ListenerVsPeer.
(* ls: the names litep2p's listener supports; ps: the proposals the peer makes, in order;
   r0: the name the conversation settles on; silent: the peer opens the stream and closes it
   without a word (what a dialer with an empty list does) *)
Variables (ls ps : list name) (r0 : option name) (silent : bool).
Hypothesis Hwfp : Forall wfn ps.
Definition Sl (p : name) : bool := supported ls p.
Hypothesis Hleg : LegalD Sl ps r0.
Hypothesis Hsilent : silent = true -> ps = [].

Definition unsupL (p : name) : Prop := Sl p = false.
Definition nas (pre : list name) : list msg := map (fun _ : name => MNa) pre.
Definition msgs0 : list msg := if silent then [] else MHeader :: map MProto ps.
Definition inbL (m : msys) : list msg := c_dl m ++ md_wbuf (sd m).
Definition outL (m : msys) : list msg := c_ld m ++ ml_wbuf (sl m).

(* where the listener stands in the conversation *)
Definition JL (m : msys) : Prop :=
  match ml_ph (sl m) with
  | MLRecvHeader => inbL m = msgs0 /\ outL m = []
  | MLSendHeader => silent = false /\ inbL m = map MProto ps /\ outL m = []
  | MLRecvMsg | MLFlush None =>
      exists pre ps', ps = pre ++ ps' /\ Forall unsupL pre /\ LegalD Sl ps' r0 /\
        inbL m = map MProto ps' /\ outL m = MHeader :: nas pre
  | MLSendMsg x o =>
      exists pre p ps', ps = pre ++ p :: ps' /\ Forall unsupL pre /\
        inbL m = map MProto ps' /\ outL m = MHeader :: nas pre /\
        ((x = MNa /\ o = None /\ Sl p = false /\ LegalD Sl ps' r0) \/
         (x = MProto p /\ o = Some p /\ Sl p = true /\ ps' = [] /\ r0 = Some p))
  | MLFlush (Some p) | MLDone (Some p) =>
      exists pre, ps = pre ++ [p] /\ Forall unsupL pre /\ Sl p = true /\ r0 = Some p /\
        inbL m = [] /\ outL m = MHeader :: nas pre ++ [MProto p]
  | MLDone None => r0 = None
  end.

Definition RL (m : msys) : Prop :=
  JL m /\ Forall (dmsg ps) (inbL m) /\ (dl_closed m = true -> md_wbuf (sd m) = []) /\
  (forall q, md_ph (sd m) = MDDone (Some q) -> md_wbuf (sd m) = [] /\ r0 <> None).

Lemma in_ps_slash : forall p, In p ps -> starts_slash p = true.
Proof.
  intros p H. rewrite Forall_forall in Hwfp. destruct (Hwfp p H) as [(Hs & _) _]. exact Hs.
Qed.

Lemma LegalD_nil_inv : forall r, LegalD Sl [] r -> r = None.
Proof. intros r H. inversion H. reflexivity. Qed.

Lemma LegalD_cons_inv : forall p t r, LegalD Sl (p :: t) r ->
  (Sl p = false /\ LegalD Sl t r) \/ (Sl p = true /\ t = [] /\ r = Some p).
Proof. intros p t r H. inversion H; subst; [left | right]; auto. Qed.

Lemma map_proto_nil : forall l : list name, map MProto l = [] -> l = [].
Proof. intros [|x l] H; [reflexivity | discriminate]. Qed.

Local Ltac rl_rest := split; [first [assumption | auto] | split; [assumption | assumption]].

Lemma RL_step_l : forall m, RL m -> RL (mstep_l ls m).
Proof.
  intros [[dph drest dw] [lph lw] cdl dlc cld ldc] (HJ & HF & HC & HQ).
  unfold RL, JL, inbL, outL, mstep_l, set_l, l_fail in *. cbn in *.
  destruct lph as [| | |x o|o|r].
  - (* RecvHeader *)
    destruct HJ as (Hi & Ho).
    destruct cdl as [|x cdl]; cbn.
    + destruct dlc; cbn.
      * split; [|rl_rest]. rewrite (HC eq_refl) in Hi. cbn in Hi.
        unfold msgs0 in Hi. destruct silent eqn:Es; [|discriminate].
        pose proof (Hsilent eq_refl) as Hps. rewrite Hps in Hleg. exact (LegalD_nil_inv _ Hleg).
      * split; [|rl_rest]. split; assumption.
    + pose proof (Forall_inv_tail HF) as HF'. cbn in Hi. unfold msgs0 in Hi.
      destruct silent eqn:Es; [discriminate|]. injection Hi as -> Hi. cbn.
      split; [|rl_rest]. repeat split; auto.
  - (* SendHeader *)
    destruct HJ as (Hs & Hi & Ho). apply app_eq_nil in Ho. destruct Ho as [-> ->]. cbn.
    split; [|rl_rest].
    exists [], ps. repeat split; auto.
  - (* RecvMsg *)
    destruct HJ as (pre & ps' & Hps & Hpre & Hl & Hi & Ho).
    destruct cdl as [|x cdl]; cbn.
    + destruct dlc; cbn.
      * split; [|rl_rest]. rewrite (HC eq_refl) in Hi. cbn in Hi. symmetry in Hi.
        apply map_proto_nil in Hi. subst ps'. exact (LegalD_nil_inv _ Hl).
      * split; [|rl_rest]. exists pre, ps'. repeat split; auto.
    + pose proof (Forall_inv_tail HF) as HF'. cbn in Hi.
      destruct ps' as [|p ps'']; [discriminate|]. cbn [map] in Hi. injection Hi as -> Hi.
      assert (Hin : In p ps) by (rewrite Hps; apply in_or_app; right; left; reflexivity).
      destruct (LegalD_cons_inv _ _ _ Hl) as [[Hsp Hl'] | (Hsp & -> & ->)].
      * rewrite (l_find_sup_none ls p Hsp). cbn.
        split; [|rl_rest]. exists pre, p, ps''. repeat split; auto.
      * rewrite (l_find_sup_some ls p (in_ps_slash p Hin) Hsp). cbn.
        split; [|rl_rest]. exists pre, p, []. repeat split; auto.
        right. repeat split; auto.
  - (* SendMsg *)
    destruct HJ as (pre & p & ps' & Hps & Hpre & Hi & Ho & Hx).
    split; [|rl_rest].
    destruct Hx as [(-> & -> & Hsp & Hl) | (-> & -> & Hsp & -> & Hr)];
      cbn [sd sl c_dl c_ld md_wbuf ml_wbuf ml_ph md_ph dl_closed ld_closed].
    + exists (pre ++ [p]), ps'. rewrite <- app_assoc. cbn. split; [exact Hps|].
      split; [apply Forall_app; split; [exact Hpre | constructor; [exact Hsp | constructor]]|].
      split; [exact Hl|]. split; [exact Hi|].
      rewrite app_assoc, Ho. unfold nas. rewrite map_app. reflexivity.
    + exists pre. split; [exact Hps|]. split; [exact Hpre|]. split; [exact Hsp|]. split; [exact Hr|].
      split; [exact Hi|]. rewrite app_assoc, Ho. reflexivity.
  - (* Flush *)
    destruct lw as [|x lw]; cbn.
    + destruct o as [n|]; cbn; (split; [|rl_rest]).
      * rewrite app_nil_r in HJ. rewrite app_nil_r. exact HJ.
      * rewrite app_nil_r in HJ. rewrite app_nil_r. exact HJ.
    + split; [|rl_rest]. rewrite <- app_assoc. cbn. exact HJ.
  - split; [exact HJ | rl_rest].
Qed.

Lemma RL_ok_dl : forall m, RL m -> Forall okmsg (c_dl m ++ md_wbuf (sd m)).
Proof. intros m (_ & HF & _). eapply Forall_impl; [|exact HF]. apply (dmsg_ok ps Hwfp). Qed.

Lemma RL_head_dl : forall m, RL m -> Forall (dmsg ps) (c_dl m).
Proof. intros m (_ & HF & _). unfold inbL in HF. apply Forall_app in HF. apply HF. Qed.

Lemma RL_send_l : forall m, RL m -> lph_ok ps (ml_ph (sl m)).
Proof.
  intros m (HJ & _). unfold JL in HJ. unfold lph_ok. destruct (ml_ph (sl m)) as [| | |x o|o|r]; auto.
  destruct HJ as (pre & p & ps' & Hps & _ & _ & _ & [(-> & _) | (-> & _)]).
  - right. left. reflexivity.
  - right. right. exists p. split; [reflexivity|]. rewrite Hps. apply in_or_app. right. left. reflexivity.
Qed.

Lemma RL_guard_l : forall m q, RL m -> md_ph (sd m) = MDDone (Some q) ->
  (ml_ph (sl m) = MLRecvHeader \/ ml_ph (sl m) = MLRecvMsg) -> c_dl m <> [].
Proof.
  intros m q (HJ & _ & _ & HQ) Hq Hph Hc. destruct (HQ q Hq) as [Hw Hr].
  unfold JL, inbL in HJ. rewrite Hc, Hw in HJ. cbn [app] in HJ.
  destruct Hph as [E | E]; rewrite E in HJ.
  - destruct HJ as [Hi _]. unfold msgs0 in Hi. destruct silent eqn:Es; [|discriminate].
    rewrite (Hsilent eq_refl) in Hleg. apply Hr. exact (LegalD_nil_inv _ Hleg).
  - destruct HJ as (pre & ps' & _ & _ & Hl & Hi & _). symmetry in Hi. apply map_proto_nil in Hi.
    subst ps'. apply Hr. exact (LegalD_nil_inv _ Hl).
Qed.

(* the environment's moves keep the invariant *)
Lemma JL_ext : forall m m', sl m' = sl m -> inbL m' = inbL m -> c_ld m' = c_ld m -> JL m -> JL m'.
Proof. intros m m' E1 E2 E3 H. unfold JL, outL in *. rewrite E1, E2, E3. exact H. Qed.

Lemma inbL_move_d : forall m k, inbL (move_d m k) = inbL m.
Proof. intros m k. unfold inbL, move_d. cbn. rewrite <- app_assoc, firstn_skipn. reflexivity. Qed.

Lemma RL_move_d : forall m k, RL m -> RL (move_d m k).
Proof.
  intros m k (HJ & HF & HC & HQ). split; [|split; [|split]].
  - apply (JL_ext m); [reflexivity | apply inbL_move_d | reflexivity | exact HJ].
  - rewrite inbL_move_d. exact HF.
  - intros E. cbn. apply skipn_nil_of_nil. exact (HC E).
  - intros q E. cbn. destruct (HQ q E) as [A B]. split; [apply skipn_nil_of_nil; exact A | exact B].
Qed.

Lemma RL_set_dph : forall m ph, RL m -> md_wbuf (sd m) = [] -> r0 <> None -> RL (set_dph m ph).
Proof.
  intros m ph (HJ & HF & HC & HQ) Hw Hr. split; [|split; [|split]].
  - apply (JL_ext m); [reflexivity | reflexivity | reflexivity | exact HJ].
  - exact HF.
  - intros _. exact Hw.
  - intros q _. split; [exact Hw | exact Hr].
Qed.

Lemma RL_close_d : forall m, RL m -> md_wbuf (sd m) = [] -> RL (close_d m).
Proof.
  intros m (HJ & HF & HC & HQ) Hw. split; [|split; [|split]].
  - apply (JL_ext m); [reflexivity | reflexivity | reflexivity | exact HJ].
  - exact HF.
  - intros _. exact Hw.
  - exact HQ.
Qed.

(* ---- the byte-level state and its environment *)
Variable pay : bytes.
Definition poptL : bytes := match r0 with Some _ => pay | None => [] end.

Definition PeerD (svd : sview) (s : esys) : Prop :=
  match svd with
  | SvN wb => e_rem s = wb ++ poptL
  | SvP pw fin => r0 <> None /\ pay = pw ++ e_rem s /\ (fin = true -> e_rem s = [])
  | SvF => r0 = None /\ e_rem s = []
  end.

Definition EInvL (s : esys) : Prop :=
  exists m svl rvl svd,
    RL m /\ LTask ls (e_t s) m svl rvl /\ SLinkD svd m /\
    DirRel svl (RvP []) (e_out s) (c_ld m) (ml_wbuf (sl m)) /\
    DirRel svd rvl (e_in s) (c_dl m) (md_wbuf (sd m)) /\
    PeerD svd s.

Lemma EInvL_intro : forall s m svl rvl svd,
  RL m -> LTask ls (e_t s) m svl rvl -> SLinkD svd m ->
  DirRel svl (RvP []) (e_out s) (c_ld m) (ml_wbuf (sl m)) ->
  DirRel svd rvl (e_in s) (c_dl m) (md_wbuf (sd m)) ->
  PeerD svd s -> EInvL s.
Proof. intros s m svl rvl svd H1 H2 H3 H4 H5 H6. exists m, svl, rvl, svd. tauto. Qed.

Lemma SLinkD_frame : forall sv m m', sd m' = sd m -> dl_closed m' = dl_closed m ->
  SLinkD sv m -> SLinkD sv m'.
Proof. intros sv m m' E1 E2 H. destruct sv; cbn in *; rewrite ?E1, ?E2; exact H. Qed.

Lemma EInvL_step : forall s e, EInvL s -> EInvL (estep s e).
Proof.
  intros s e (m & svl & rvl & svd & HR & HT & HL & Hout & Hin & HP).
  destruct e; cbn [estep].
  - (* a poll of the task *)
    destruct (t_poll (t_fuel (e_t s) (e_in s)) (e_t s) (e_in s) (e_out s)) as [[t1 pi1] po1] eqn:Et.
    destruct (l_task_sim_gen ps ls Hwfp RL RL_step_l RL_ok_dl RL_head_dl RL_send_l RL_guard_l
                _ _ _ _ _ _ _ _ _ _ _ _ HR HT HL Hout Hin Et)
      as (k & svl' & rvl' & HR' & HT' & Ho & Hi).
    destruct (mlk_frame ls k m) as [E1 E2].
    exact (EInvL_intro (mkE t1 pi1 po1 (e_rem s)) (mlk ls k m) svl' rvl' svd HR' HT'
             (SLinkD_frame _ _ _ E1 E2 HL) Ho Hi HP).
  - (* one more byte of the peer's stream arrives *)
    destruct (e_rem s) as [|b rem'] eqn:Er.
    { apply (EInvL_intro _ m svl rvl svd); assumption. }
    destruct svd as [wb|pw fin|]; cbn [PeerD] in HP.
    + rewrite Er in HP. destruct wb as [|b' wb'].
      * cbn [app] in HP. unfold poptL in HP. destruct r0 as [q|] eqn:Er0; [|discriminate].
        destruct (dir_to_payload _ _ _ _ Hin) as [Hw Hin1].
        pose proof (dir_ppush _ _ _ _ _ [b] Hin1) as Hin2. cbn [app] in Hin2.
        apply (EInvL_intro _ (set_dph m (MDDone (Some q))) svl rvl (SvP [b] false));
          cbn [e_t e_in e_out e_rem]; auto.
        -- apply RL_set_dph; [exact HR | exact Hw | rewrite Er0; discriminate].
        -- apply (LTask_frame ls _ m); [reflexivity | reflexivity | exact HT].
        -- cbn. eauto.
        -- cbn [set_dph sd c_dl md_wbuf]. rewrite Hw. exact Hin2.
        -- cbn. rewrite Er0. split; [discriminate|]. split; [symmetry; exact HP | discriminate].
      * cbn [app] in HP. injection HP as <- HP.
        destruct (dir_push _ _ _ _ _ [b] wb' Hin eq_refl) as (k & Hk & Hin1 & _).
        apply (EInvL_intro _ (move_d m k) svl rvl (SvN wb')); cbn [e_t e_in e_out e_rem]; auto.
        -- apply RL_move_d. exact HR.
        -- apply (LTask_frame ls _ m); [reflexivity | reflexivity | exact HT].
    + destruct HP as (Hr & Hp & Hf). rewrite Er in Hp, Hf.
      destruct fin; [specialize (Hf eq_refl); discriminate|].
      pose proof (dir_ppush _ _ _ _ _ [b] Hin) as Hin1.
      apply (EInvL_intro _ m svl rvl (SvP (pw ++ [b]) false)); cbn [e_t e_in e_out e_rem]; auto.
      cbn. split; [exact Hr|]. split; [rewrite <- app_assoc; exact Hp | discriminate].
    + destruct HP as [_ HP]. rewrite Er in HP. discriminate.
  - (* the peer's end is closed, once its stream is out *)
    destruct (e_rem s) as [|b rem'] eqn:Er.
    2:{ apply (EInvL_intro _ m svl rvl svd); assumption. }
    destruct svd as [wb|pw fin|]; cbn [PeerD] in HP.
    + rewrite Er in HP. symmetry in HP. apply app_eq_nil in HP. destruct HP as [-> HP].
      destruct (dir_to_payload _ _ _ _ Hin) as [Hw Hin1].
      unfold poptL in HP. destruct r0 as [q|] eqn:Er0.
      * apply (EInvL_intro _ (set_dph m (MDDone (Some q))) svl rvl (SvP [] true));
          cbn [e_t e_in e_out e_rem]; auto.
        -- apply RL_set_dph; [exact HR | exact Hw | rewrite Er0; discriminate].
        -- apply (LTask_frame ls _ m); [reflexivity | reflexivity | exact HT].
        -- cbn. eauto.
        -- cbn [set_dph sd c_dl md_wbuf]. rewrite Hw. apply dir_pclose. exact Hin1.
        -- cbn. rewrite Er0. split; [discriminate|]. split; [exact HP | reflexivity].
      * rewrite Hw in Hin.
        apply (EInvL_intro _ (close_d m) svl rvl SvF); cbn [e_t e_in e_out e_rem]; auto.
        -- apply RL_close_d; assumption.
        -- apply (LTask_frame ls _ m); [reflexivity | reflexivity | exact HT].
        -- reflexivity.
        -- cbn [close_d sd c_dl]. rewrite Hw. apply dir_fail. exact Hin.
        -- cbn. rewrite Er0. split; reflexivity.
    + destruct HP as (Hr & Hp & Hf). rewrite Er in Hp.
      destruct fin.
      * assert (Hc : p_closed (e_in s) = true).
        { destruct Hin as (X & (_ & Hc & _) & _). exact Hc. }
        rewrite (pipe_close_closed0 _ Hc).
        apply (EInvL_intro _ m svl rvl (SvP pw true)); cbn [e_t e_in e_out e_rem]; auto.
        cbn. split; [exact Hr|]. split; [exact Hp | reflexivity].
      * apply (EInvL_intro _ m svl rvl (SvP pw true)); cbn [e_t e_in e_out e_rem]; auto.
        -- apply dir_pclose. exact Hin.
        -- cbn. split; [exact Hr|]. split; [exact Hp | reflexivity].
    + assert (Hc : p_closed (e_in s) = true).
      { destruct Hin as (X & (_ & Hc & _) & _). exact Hc. }
      rewrite (pipe_close_closed0 _ Hc).
      apply (EInvL_intro _ m svl rvl SvF); cbn [e_t e_in e_out e_rem]; auto.
      cbn. split; [apply HP | reflexivity].
Qed.

Lemma EInvL_run : forall evs s, EInvL s -> EInvL (erun evs s).
Proof.
  induction evs as [|e evs IH]; intros s H; [exact H|]. cbn. apply IH. apply EInvL_step. exact H.
Qed.

(* ---- the initial state *)
Definition l_task (lpay : bytes) : task := task_init (FList (l_init ls)) lpay.
Definition dstream : bytes := FR msgs0 ++ poptL.
Definition m0L : msys :=
  mkS (mkD (MDFlush [] false) [] msgs0) (mkL MLRecvHeader []) [] false [] false.

Lemma msgs0_dmsg : Forall (dmsg ps) msgs0.
Proof.
  unfold msgs0. destruct silent; [constructor|]. constructor; [left; reflexivity|].
  apply Forall_forall. intros x Hx. apply in_map_iff in Hx. destruct Hx as (p & <- & Hp).
  right. exists p. split; [reflexivity | exact Hp].
Qed.

Lemma EInvL_init : forall lpay rs ws, EInvL (einit (l_task lpay) rs ws dstream).
Proof.
  intros lpay rs ws.
  apply (EInvL_intro _ m0L (SvN []) (RvN rd_init) (SvN (FR msgs0))).
  - split; [|split; [|split]].
    + unfold JL, m0L, inbL, outL. cbn. split; reflexivity.
    + unfold m0L, inbL. cbn. exact msgs0_dmsg.
    + cbn. discriminate.
    + cbn. discriminate.
  - apply (LT_neg ls _ _ (l_init ls)); try reflexivity.
    split; [reflexivity|]. cbn. split; reflexivity.
  - reflexivity.
  - exists []. split; [cbn; auto|]. reflexivity.
  - exists []. split; [split; [reflexivity | apply WB_fresh]|].
    exists []. split; [left; split; reflexivity | reflexivity].
  - reflexivity.
Qed.

(* ---- reading the invariant *)
(* j is the position of the listener's first (valid) entry equal to n, n is the proposal the peer
   made last, the listener supports it and none of the earlier ones *)
Definition accepted (j : N) (n : name) : Prop :=
  lidx 0 ls n = Some j /\ exists pre, ps = pre ++ [n] /\ Forall unsupL pre /\ Sl n = true.

Lemma EInvL_ok : forall s j, EInvL s -> t_res (e_t s) = (0, j) ->
  exists n, accepted j n /\ r0 = Some n /\
    t_read (e_t s) ++ p_buf (e_in s) ++ e_rem s = pay /\
    (t_done (e_t s) = true ->
       t_end (e_t s) = 0 /\ p_buf (e_in s) = [] /\ e_rem s = [] /\ p_closed (e_out s) = true /\
       exists pre, ps = pre ++ [n] /\
         p_buf (e_out s) = FR (MHeader :: nas pre ++ [MProto n]) ++ t_payload (e_t s)).
Proof.
  intros s j (m & svl & rvl & svd & (HJ & _ & _ & _) & HT & HL & Hout & Hin & HP) Hres.
  destruct HT as [l Hph HD Hcl Hres' | sv rv j' n HV Hres' Hidx Hph Hcl | code Hph Hres' Hc Hml Hcl].
  { rewrite Hres in Hres'. discriminate. }
  2:{ rewrite Hres in Hres'. injection Hres' as <- _. lia. }
  rewrite Hres in Hres'. injection Hres' as <-.
  unfold JL in HJ. rewrite Hph in HJ. destruct HJ as (pre & Hps & Hpre & Hsn & Hr0 & Hinb & Houtb).
  exists n. split; [split; [exact Hidx | exists pre; repeat split; assumption]|]. split; [exact Hr0|].
  unfold inbL in Hinb. apply app_eq_nil in Hinb. destruct Hinb as [Hc Hw].
  rewrite Hc, Hw in Hin.
  assert (Hread : forall acc X, acc ++ p_buf (e_in s) = X -> SPart svd (e_in s) [] X ->
                    acc ++ p_buf (e_in s) ++ e_rem s = pay).
  { intros acc X Hx Hs. rewrite app_assoc, Hx.
    destruct svd as [wb|pw fin|]; cbn in Hs, HP.
    - destruct Hs as (_ & -> & ->). rewrite HP. unfold poptL. rewrite Hr0. reflexivity.
    - destruct Hs as (_ & _ & ->). destruct HP as (_ & HP & _). symmetry. exact HP.
    - destruct HP as [HP _]. rewrite Hr0 in HP. discriminate. }
  destruct Hin as (X & Hs & Hr).
  destruct HV as [rem pw Eph Epay | Eph | acc Eph | Eph Eend].
  - split; [|unfold t_done; rewrite Eph; discriminate].
    unfold t_read. rewrite Eph. cbn in Hr. apply (Hread [] X); assumption.
  - split; [|unfold t_done; rewrite Eph; discriminate].
    unfold t_read. rewrite Eph. cbn in Hr. apply (Hread [] X); assumption.
  - split; [|unfold t_done; rewrite Eph; discriminate].
    unfold t_read. rewrite Eph. cbn in Hr. apply (Hread acc X); assumption.
  - cbn in Hr. destruct Hr as (Hb & Hcl' & Hg).
    assert (Hrem : e_rem s = []).
    { destruct svd as [wb|pw fin|]; cbn in Hs, HP.
      - destruct Hs as [Hs _]. congruence.
      - destruct Hs as (_ & Hf & _). destruct HP as (_ & _ & HP). apply HP. congruence.
      - apply HP. }
    split.
    + unfold t_read. rewrite Eph. cbn in Hg. rewrite Hg.
      apply (Hread (FR [] ++ X) X); [rewrite Hb, app_nil_r; reflexivity | exact Hs].
    + intros _. split; [exact Eend|]. split; [exact Hb|]. split; [exact Hrem|].
      destruct Hout as (Y & (Hw' & Hcl2 & ->) & Ho). cbn in Ho.
      split; [exact Hcl2|]. exists pre. split; [exact Hps|]. rewrite Ho.
      unfold outL in Houtb. rewrite Hw', app_nil_r in Houtb. rewrite Houtb. reflexivity.
Qed.

Lemma EInvL_fail : forall s code j, EInvL s -> t_res (e_t s) = (code, j) -> code <> 0 -> code <> 99 ->
  r0 = None.
Proof.
  intros s code j (m & svl & rvl & svd & (HJ & _ & _ & _) & HT & _) Hres H0 H99.
  destruct HT as [l Hph HD Hcl Hres' | sv rv j' n HV Hres' Hidx Hph Hcl | code' Hph Hres' Hc Hml Hcl];
    rewrite Hres in Hres'; injection Hres' as -> ?; try congruence.
  unfold JL in HJ. rewrite Hml in HJ. exact HJ.
Qed.

End ListenerVsPeer.

(* ================================================================== the theorems *)
Lemma estep_payload : forall s e, t_payload (e_t (estep s e)) = t_payload (e_t s).
Proof.
  intros s e. destruct e; cbn [estep].
  - pose proof (t_poll_payload (t_fuel (e_t s) (e_in s)) (e_t s) (e_in s) (e_out s)) as H.
    destruct (t_poll (t_fuel (e_t s) (e_in s)) (e_t s) (e_in s) (e_out s)) as [[t1 a] b]. exact H.
  - destruct (e_rem s); reflexivity.
  - destruct (e_rem s); reflexivity.
Qed.

Lemma erun_payload : forall evs s, t_payload (e_t (erun evs s)) = t_payload (e_t s).
Proof.
  induction evs as [|e evs IH]; intros s; [reflexivity|]. cbn. rewrite IH. apply estep_payload.
Qed.

Definition opt_pay (r : option name) (pay : bytes) : bytes :=
  match r with Some _ => pay | None => [] end.

(* A. litep2p's dialer task (V1) against any legal listener: S is what the peer supports, rs its
   answers, r the agreed name; rsc / wsc are the carrier's read / write scripts, evs any
   interleaving of polls, single-byte deliveries of the peer's stream and the final close *)
Theorem dialer_vs_any_legal_listener :
  forall ds S rs r pay dpay rsc wsc evs,
    Forall wfn ds -> LegalL S ds rs r ->
    let s := erun evs (einit (d_task ds dpay) rsc wsc (FR (MHeader :: rs) ++ opt_pay r pay)) in
    (forall i, t_res (e_t s) = (0, i) ->
       exists p, first_supported ds S i p /\ r = Some p /\
         t_read (e_t s) ++ p_buf (e_in s) ++ e_rem s = pay /\
         (t_done (e_t s) = true ->
            t_end (e_t s) = 0 /\ t_got (e_t s) = pay /\ p_buf (e_in s) = [] /\ e_rem s = [] /\
            p_closed (e_out s) = true /\
            p_buf (e_out s) = FR (MHeader :: map MProto (firstn (N.to_nat i + 1) ds)) ++ dpay)) /\
    (forall code i, t_res (e_t s) = (code, i) -> code <> 0 -> code <> 99 ->
       r = None /\ Forall (unsupS S) ds).
Proof.
  intros ds S rs r pay dpay rsc wsc evs Hwf Hleg s.
  destruct (LegalL_fun _ _ _ _ Hleg) as [-> ->].
  assert (HI : EInvD ds S pay s).
  { unfold s. apply EInvD_run; [exact Hwf|]. exact (EInvD_init ds S pay dpay rsc wsc). }
  split.
  - intros i Hres. destruct (EInvD_ok ds S pay s i HI Hres) as (p & H1 & H2 & H3 & H4).
    exists p. split; [exact H1|]. split; [exact H2|]. split; [exact H3|].
    intros Hd. destruct (H4 Hd) as (A & B & C & D & E).
    assert (Hg : t_got (e_t s) = pay).
    { unfold t_read in H3. unfold t_done in Hd. destruct (t_ph (e_t s)); try discriminate.
      rewrite B, C, !app_nil_r in H3. exact H3. }
    repeat split; auto. rewrite E. f_equal. unfold s. rewrite erun_payload. reflexivity.
  - intros code i Hres H0 H99. destruct (EInvD_fail ds S pay s code i HI Hres H0 H99) as [A B].
    split; assumption.
Qed.

(* B. litep2p's listener task against any legal dialer *)
Theorem listener_vs_any_legal_dialer :
  forall ls ps r silent pay lpay rsc wsc evs,
    Forall wfn ps -> LegalD (supported ls) ps r -> (silent = true -> ps = []) ->
    let s := erun evs (einit (l_task ls lpay) rsc wsc
                         (FR (if silent then [] else MHeader :: map MProto ps) ++ opt_pay r pay)) in
    (forall j, t_res (e_t s) = (0, j) ->
       exists n, accepted ls ps j n /\ r = Some n /\
         t_read (e_t s) ++ p_buf (e_in s) ++ e_rem s = pay /\
         (t_done (e_t s) = true ->
            t_end (e_t s) = 0 /\ t_got (e_t s) = pay /\ p_buf (e_in s) = [] /\ e_rem s = [] /\
            p_closed (e_out s) = true /\
            exists pre, ps = pre ++ [n] /\
              p_buf (e_out s) = FR (MHeader :: nas pre ++ [MProto n]) ++ lpay)) /\
    (forall code j, t_res (e_t s) = (code, j) -> code <> 0 -> code <> 99 -> r = None).
Proof.
  intros ls ps r silent pay lpay rsc wsc evs Hwf Hleg Hsil s.
  assert (HI : EInvL ls ps r silent pay s).
  { unfold s. apply EInvL_run; [exact Hwf | exact Hleg | exact Hsil|].
    exact (EInvL_init ls ps r silent Hsil pay lpay rsc wsc). }
  split.
  - intros j Hres. destruct (EInvL_ok ls ps r silent Hsil pay s j HI Hres) as (n & H1 & H2 & H3 & H4).
    exists n. split; [exact H1|]. split; [exact H2|]. split; [exact H3|].
    intros Hd. destruct (H4 Hd) as (A & B & C & D & pre & E1 & E2).
    assert (Hg : t_got (e_t s) = pay).
    { unfold t_read in H3. unfold t_done in Hd. destruct (t_ph (e_t s)); try discriminate.
      rewrite B, C, !app_nil_r in H3. exact H3. }
    repeat split; auto. exists pre. split; [exact E1|]. rewrite E2. f_equal.
    unfold s. rewrite erun_payload. reflexivity.
  - intros code j Hres H0 H99. exact (EInvL_fail ls ps r silent pay s code j HI Hres H0 H99).
Qed.

(* both tasks terminate against ANY byte stream (legal or not) that the peer eventually
   finishes and closes: every fair sequence of events — K rounds, each with a poll, a delivery
   and a close attempt, K above the initial potential — ends with the task done *)
Theorem dialer_vs_any_peer_terminates :
  forall ds dpay rsc wsc stream K evs,
    let s0 := einit (d_task ds dpay) rsc wsc stream in
    fairE K evs -> PhiD s0 < N.of_nat K -> t_done (e_t (erun evs s0)) = true.
Proof.
  intros ds dpay rsc wsc stream K evs s0 Hf Hphi.
  apply (env_terminate WfTD PhiD BlockedD estep_workD blockedD_closed K evs s0); [|exact Hf | exact Hphi].
  unfold s0, einit, d_task, task_init, WfTD. cbn. split; [reflexivity | exact I].
Qed.

Theorem listener_vs_any_peer_terminates :
  forall ls lpay rsc wsc stream K evs,
    let s0 := einit (l_task ls lpay) rsc wsc stream in
    fairE K evs -> PhiL s0 < N.of_nat K -> t_done (e_t (erun evs s0)) = true.
Proof.
  intros ls lpay rsc wsc stream K evs s0 Hf Hphi.
  apply (env_terminate WfTL PhiL BlockedL estep_workL blockedL_closed K evs s0); [|exact Hf | exact Hphi].
  unfold s0, einit, l_task, task_init, WfTL. cbn. exact I.
Qed.

(* any way of grouping the peer's bytes into deliveries is a sequence of single-byte events *)
Definition push_k (s : esys) (k : nat) : esys :=
  mkE (e_t s) (pipe_push (e_in s) (firstn k (e_rem s))) (e_out s) (skipn k (e_rem s)).

Lemma pipe_push_app : forall p a b, pipe_push (pipe_push p a) b = pipe_push p (a ++ b).
Proof. intros p a b. unfold pipe_push. cbn. rewrite <- !app_assoc. reflexivity. Qed.

Lemma push_k_bytes : forall k s, (k <= length (e_rem s))%nat -> erun (repeat EvByte k) s = push_k s k.
Proof.
  induction k as [|k IH]; intros s Hk.
  - unfold push_k. cbn. rewrite pipe_push_nil. destruct s; reflexivity.
  - destruct s as [t pin pout rem]. cbn [e_rem] in Hk. destruct rem as [|b rem']; [cbn in Hk; lia|].
    cbn [repeat erun fold_left estep e_rem]. fold (erun (repeat EvByte k) (mkE t (pipe_push pin [b]) pout rem')).
    rewrite IH by (cbn in *; lia). unfold push_k. cbn [e_t e_in e_out e_rem firstn skipn].
    rewrite pipe_push_app. reflexivity.
Qed.
