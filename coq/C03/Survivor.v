(* C03 — what the peer of a timed-out dialer sees when it had already accepted: the inherent case
   in which only one side can report the protocol (the listener has flushed its confirmation, the
   dialer's timer fires before it reads it). The listener's stream then delivers NOTHING - in
   particular no negotiation bytes as application data - and ends with a clean EOF. *)
From Coq Require Import List Arith NArith Bool Lia.
From V.gen Require Import Consts.
From V.common Require Import Wire.
From V.C03 Require Import Model Msg Proofs MsgRef MsgProofs MsgInv Chan Dir SimD SimL SimSys BytesThm.
From V.C03 Require Import Work Work2 Live Timed TimedProofs.
Import ListNotations.
Open Scope N_scope.

(* message level: once the listener has accepted, a dialer that has not finished has nothing more
   to say: it is flushing an empty buffer or awaiting the answer *)
Lemma accepted_dialer_quiet : forall ds ls m n, wfd ds -> Reach ds ls m ->
  ml_ph (sl m) = MLDone (Some n) ->
  match md_ph (sd m) with
  | MDSendHeader | MDSendProto _ _ => False
  | MDFlush _ _ => md_wbuf (sd m) = []
  | _ => True
  end.
Proof.
  intros ds ls m n Hw HR Hl.
  (* the listener's state is not changed by steps of the dialer, and in every reachable state in
     which the listener has accepted, c_dl is empty and the dialer's direction open *)
  assert (G : forall k, c_dl (mdk ls k m) = [] /\ dl_closed (mdk ls k m) = false).
  { intros k. assert (HR' : Reach ds ls (mdk ls k m)) by (apply Reach_run; exact HR).
    assert (Hl' : ml_ph (sl (mdk ls k m)) = MLDone (Some n)).
    { destruct (mdk_frame ls k m) as [E _]. rewrite E. exact Hl. }
    destruct (handover_l ds ls _ n Hw HR' Hl') as (A & _ & B & _). auto. }
  destruct m as [[dph drest dw] [lph lw] cdl dlc cld ldc]. cbn [sd sl md_ph md_wbuf ml_ph] in *.
  destruct dph as [|p hr|p hr|p hr|r]; try exact I.
  - (* SendHeader *)
    destruct drest as [|p r].
    + destruct (G 1%nat) as [_ B]. cbn in B. discriminate.
    + destruct (starts_slash p) eqn:Es.
      * destruct (G 3%nat) as [A _]. cbn in A. rewrite Es in A. cbn in A.
        destruct dw; cbn in A; destruct cdl; discriminate.
      * destruct (G 2%nat) as [_ B]. cbn in B. rewrite Es in B. cbn in B. discriminate.
  - destruct (starts_slash p) eqn:Es.
    + destruct (G 2%nat) as [A _]. cbn in A. rewrite Es in A. cbn in A.
      destruct dw; cbn in A; destruct cdl; discriminate.
    + destruct (G 1%nat) as [_ B]. cbn in B. rewrite Es in B. cbn in B. discriminate.
  - destruct dw as [|x dw]; [reflexivity|].
    destruct (G 1%nat) as [A _]. cbn in A. destruct cdl; discriminate.
Qed.

Section Survivor.
Variables (c : ncase).
Hypothesis Hc : wf_case c.
Let ds := c_ds c.
Let ls := c_ls c.

Lemma Hwf_c : Forall wfn ds.
Proof. exact (proj2 Hc). Qed.

(* in a state of the plain system in which the dialer is still negotiating and the listener has
   accepted and is reading application data, nothing is on its way to the listener *)
Lemma accepted_nothing_in_flight : forall who acc j,
  let s := polls who (sys_init c) in
  in_neg (s_d s) = true -> t_ph (s_l s) = TRead NCompleted acc -> t_res (s_l s) = (0, j) ->
  acc = [] /\ p_buf (s_dl s) = [].
Proof.
  intros who acc j s Hn Hph Hres.
  destruct (bytes_project c who Hc) as (sched & HR & svd & rvd & svl & rvl & HD & HL & Hdl & _).
  fold s in HD, HL, Hdl. fold ds in HR, HD, Hdl. fold ls in HR, HD, HL, Hdl.
  set (m := mrun ls sched (minit ds)) in *.
  pose proof (wfd_ds ds Hwf_c) as Hw.
  (* the listener's task: payload phase, reading *)
  destruct HL as [l E _ _ _ | sv rv j' n HV Hr _ Hml _ | code E _ _ _ _];
    [rewrite Hph in E; discriminate | | rewrite Hph in E; discriminate].
  destruct HV as [rem pw E _ | E | acc' E | E _]; try (rewrite Hph in E; discriminate).
  rewrite Hph in E. injection E as <-.
  (* the dialer's task: negotiating *)
  destruct HD as [d Ed HDl Hcl _ | sv rv i p pre HV' _ _ _ _ _ | code E _ _ _ _].
  2:{ unfold in_neg in Hn. destruct HV' as [rem pw E _ | E | a E | E _]; rewrite E in Hn; discriminate. }
  2:{ unfold in_neg in Hn. rewrite E in Hn. discriminate. }
  destruct (handover_l ds ls m n Hw HR Hml) as (Hcdl & _).
  pose proof (accepted_dialer_quiet ds ls m n Hw HR Hml) as Hq.
  destruct Hdl as (X & (_ & HWB) & HRP). cbn [RPart] in HRP. rewrite Hcdl in HRP. cbn in HRP.
  assert (HX : X = []).
  { destruct HDl as [_ HDl]. destruct (d_ph d) as [|i p hr|i p hr|i p hr].
    - destruct HDl as (E & _). rewrite E in Hq. contradiction.
    - destruct HDl as (E & _). rewrite E in Hq. contradiction.
    - destruct HDl as (E & _). rewrite E in Hq. rewrite Hq in HWB. cbn in HWB. tauto.
    - destruct HDl as (_ & _ & E). rewrite E in HWB.
      pose proof (WB_nil_inv _ _ _ HWB eq_refl) as Ew. rewrite Ew in HWB. cbn in HWB. tauto. }
  rewrite HX in HRP. apply app_eq_nil in HRP. exact HRP.
Qed.

(* the plain system cannot show a finished listener next to a dialer that still negotiates *)
Lemma accepted_not_done_yet : forall who,
  let s := polls who (sys_init c) in
  in_neg (s_d s) = true -> t_ph (s_l s) = TDone -> fst (t_res (s_l s)) = 0 -> False.
Proof.
  intros who s Hn Hph Hres.
  destruct (bytes_project c who Hc) as (sched & HR & svd & rvd & svl & rvl & HD & HL & Hdl & _).
  fold s in HD, HL, Hdl.
  destruct HL as [l E _ _ _ | sv rv j' n HV Hr _ Hml _ | code E Hr Hcd _ _].
  - rewrite Hph in E. discriminate.
  - destruct HV as [rem pw E _ | E | acc' E | E Hend]; try (rewrite Hph in E; discriminate).
    destruct HD as [d Ed HDl Hcl _ | sv rv i p pre HV' _ _ _ _ _ | code E' _ _ _ _].
    + destruct Hdl as (X & (Ho & _) & (_ & Hcl' & _)). congruence.
    + unfold in_neg in Hn. destruct HV' as [rem pw E' _ | E' | a E' | E' _]; rewrite E' in Hn; discriminate.
    + unfold in_neg in Hn. rewrite E' in Hn. discriminate.
  - rewrite Hr in Hres. cbn in Hres. lia.
Qed.

(* THE SURVIVOR: under any timeouts and any interleaving, when the listener has finished with a
   success while the dialer has finished without one (its timer fired), the listener's stream
   delivered no byte and ended with a clean EOF *)
Theorem timed_survivor_clean : forall to_d to_l es,
  let sa := ts_sys (trun to_d to_l es (tinit c)) in
  t_done (s_d sa) = true -> t_done (s_l sa) = true ->
  fst (t_res (s_d sa)) <> 0 -> fst (t_res (s_l sa)) = 0 ->
  t_got (s_l sa) = [] /\ t_end (s_l sa) = 0.
Proof.
  intros to_d to_l es sa Dd Dl Fd Fl.
  destruct (timed_shadow c to_d to_l es) as (who & H). fold sa in H.
  assert (Pl : t_ph (s_l sa) = TDone) by (unfold t_done in Dl; destruct (t_ph (s_l sa)); congruence).
  destruct H as [E | Hd Hr Hn Hl | Hl Hr _ _]; [| |contradiction].
  - (* no timer fired: agreement of the plain system excludes this *)
    exfalso. rewrite E in *.
    destruct (done_has_result c who Hc) as [R1 _]. specialize (R1 Dd).
    destruct (t_res (s_d (polls who (sys_init c)))) as [dc di] eqn:Ed.
    destruct (t_res (s_l (polls who (sys_init c)))) as [lc li] eqn:El.
    cbn [fst] in *. subst lc.
    pose proof (dialer_fail_result c who Hc dc di Ed Fd R1) as A.
    destruct (listener_ok_result c who Hc li El) as (p & B & _). congruence.
  - destruct Hl as [(E1 & _) | (_ & [Hne | [(Er & acc & Eph & Eg & Ee) | (Er & _ & g & acc & Eph & Hg)]])].
    + exfalso. rewrite E1 in Pl, Fl. exact (accepted_not_done_yet who Hn Pl Fl).
    + contradiction.
    + destruct (t_res (s_l sa)) as [lc li] eqn:El. cbn [fst] in Fl. subst lc.
      destruct (accepted_nothing_in_flight who acc li Hn Eph (eq_sym Er)) as [-> _].
      auto.
    + exfalso. (* an expecting stream does not occur in a V1 case *)
      destruct (bytes_project c who Hc) as (sched & HR & svd & rvd & svl & rvl & _ & HL & _).
      destruct HL as [l E _ _ _ | sv rv j' n HV _ _ _ _ | code E _ _ _ _]; try (rewrite Eph in E; discriminate).
      destruct HV as [rem pw E _ | E | acc' E | E _]; rewrite Eph in E; try discriminate.
      injection E as -> _. contradiction.
Qed.

End Survivor.
