(* C03 — potentials of the negotiation futures and of the tasks (V1): one poll of a task
   either leaves task and pipes exactly as they were — and then the task is done or is waiting
   on an empty, open inbound pipe — or strictly decreases the potential. No invariant about the
   peer is used: this holds in every state. *)
From Coq Require Import List Arith NArith Bool Lia ZifyBool ZifyNat ZifyN.
From V.gen Require Import Consts.
From V.common Require Import Wire.
From V.C03 Require Import Model Proofs Work.
Import ListNotations.
Open Scope N_scope.

Arguments N.add : simpl never.
Arguments N.sub : simpl never.
Arguments N.mul : simpl never.
Arguments N.eqb : simpl never.
Arguments N.ltb : simpl never.
Arguments N.leb : simpl never.
Arguments N.of_nat : simpl never.
Arguments N.min : simpl never.

(* weights *)
Definition FMAX : N := 16385.          (* longest frame: MAX_FRAME_SIZE + 2 *)
Definition WDL : N := 32820.           (* a byte in the dialer -> listener pipe *)
Definition SD : N := 2 * WDL * FMAX.   (* what one dialer send may add to its buffer weight *)
Definition RD : N := SD + 4.
Definition HD : N := 42 * WDL.
Definition SL : N := 2 * FMAX.

Lemma frame_len : forall body, len (frame body) <= len body + 2.
Proof.
  intros body. unfold frame. rewrite len_app. unfold enc_len.
  destruct (len body <? 128); unfold len at 1; cbn [length]; lia.
Qed.

Lemma wr_send_len : forall wb body w2, wr_send wb body = Some w2 -> len w2 <= len wb + FMAX.
Proof.
  intros wb body w2 H. unfold wr_send in H.
  destruct (len body <=? MAX_FRAME) eqn:E; [|discriminate]. injection H as <-.
  rewrite len_app. pose proof (frame_len body). rewrite max_frame_val in E. unfold FMAX. lia.
Qed.

Lemma header_send_len : forall wb w2, wr_send wb MSG_HEADER = Some w2 -> len w2 = len wb + 20.
Proof.
  intros wb w2 H. unfold wr_send in H. destruct (len MSG_HEADER <=? MAX_FRAME); [|discriminate].
  injection H as <-. rewrite len_app. reflexivity.
Qed.

(* MessageIO::poll_next *)
Lemma msg_poll_work : forall st p st' p' r, rd_wf st -> msg_poll st p = (st', p', r) ->
  rd_wf st' /\
  p_wscript p' = p_wscript p /\ p_closed p' = p_closed p /\ p_total p' = p_total p /\
  len (p_buf p') <= len (p_buf p) /\ len (p_rscript p') <= len (p_rscript p) /\
  (len (p_buf p') = len (p_buf p) -> len (p_rscript p') = len (p_rscript p) ->
     p' = p /\ st' = st /\ p_buf p = [] /\ (r = MPending -> p_closed p = false) /\
     (r = MPending \/ r = MEof \/ r = MFail C_IO_EOF)) /\
  match r with
  | MMsg _ => len (p_buf p') < len (p_buf p)
  | _ => True
  end.
Proof.
  intros st p st' p' r Hwf H. unfold msg_poll in H.
  destruct (rd_poll (rd_fuel p) st p) as [[st1 p1] fr1] eqn:Er.
  injection H as <- <- <-.
  destruct (rd_poll_work _ _ _ _ _ _ Hwf Er) as (C0 & C1 & C2 & C3 & C4 & C5 & C6 & C7).
  split; [exact C0|]. do 5 (split; [assumption|]). split.
  - intros E1 E2. destruct (C6 E1 E2) as (D1 & D2 & D3 & D4).
    destruct D4 as [D4 | (D4 & D5)]; [discriminate D4|].
    split; [exact D1|]. split; [exact D2|]. split; [exact D4|]. split.
    + intros E. apply D5. destruct fr1 as [| |b|e]; try discriminate; [reflexivity|].
      destruct (decode_msg b); discriminate.
    + destruct D3 as [-> | [-> | ->]]; auto.
  - destruct fr1 as [| |b|e]; auto.
    destruct (decode_msg b); auto.
Qed.

(* ------------------------------------------------------------------ the dialer future *)
Definition rkd (ph : dphase) : N :=
  match ph with
  | DSendHeader => 4 + HD
  | DSendProto _ _ _ => 3 + SD
  | DFlush _ _ _ => 2
  | DAwait _ _ _ => 1
  end.
Definition nrest (d : dialer) : N := N.of_nat (length (d_rest d)).
Definition Pd (d : dialer) : N := RD * nrest d + rkd (d_ph d) + 2 * WDL * len (d_wbuf d).
Definition PipesD (pin pout : pipe) : N :=
  WDL * len (p_buf pout) + len (p_wscript pout) + len (p_buf pin) + len (p_rscript pin).
Definition WfD (d : dialer) : Prop := d_lazy d = false /\ rd_wf (d_rd d).
Definition AwaitBlocked (d : dialer) (pin : pipe) : Prop :=
  (exists i p hr, d_ph d = DAwait i p hr) /\ p_buf pin = [] /\ p_closed pin = false.
Definition FrameP (pin pout pin' pout' : pipe) : Prop :=
  p_wscript pin' = p_wscript pin /\ p_closed pin' = p_closed pin /\
  p_rscript pout' = p_rscript pout /\ p_closed pout' = p_closed pout.

Definition DWork (fuel : nat) (d : dialer) (pin pout : pipe) (d' : dialer) (pin' pout' : pipe)
  (r : nout) : Prop :=
  FrameP pin pout pin' pout' /\ WfD d' /\
  match r with
  | NPending =>
      Pd d' + PipesD pin' pout' <= Pd d + PipesD pin pout /\
      (Pd d' + PipesD pin' pout' = Pd d + PipesD pin pout ->
       d' = d /\ pin' = pin /\ pout' = pout /\ (fuel = 0%nat \/ AwaitBlocked d pin))
  | NLazy _ _ _ _ => False
  | _ => PipesD pin' pout' <= Pd d + PipesD pin pout
  end.

Lemma FrameP_refl : forall a b, FrameP a b a b.
Proof. intros. repeat split. Qed.

Lemma FrameP_trans : forall a b a1 b1 a2 b2, FrameP a b a1 b1 -> FrameP a1 b1 a2 b2 -> FrameP a b a2 b2.
Proof. intros a b a1 b1 a2 b2 (A & B & C & D) (E & F & G & H). repeat split; congruence. Qed.

Lemma dw_trans : forall f d pin pout d1 pin1 pout1 d' pin' pout' r,
  FrameP pin pout pin1 pout1 ->
  Pd d1 + PipesD pin1 pout1 < Pd d + PipesD pin pout ->
  DWork f d1 pin1 pout1 d' pin' pout' r -> DWork (S f) d pin pout d' pin' pout' r.
Proof.
  intros f d pin pout d1 pin1 pout1 d' pin' pout' r HF Hlt (F1 & W1 & H).
  split; [exact (FrameP_trans _ _ _ _ _ _ HF F1)|]. split; [exact W1|].
  destruct r as [|c|i|i p st w].
  - destruct H as [H1 H2]. split; [lia|]. intros E. exfalso. lia.
  - lia.
  - lia.
  - exact H.
Qed.

Lemma wr_ready_work : forall w p w' p' ok, wr_ready w p = (w', p', ok) ->
  p_rscript p' = p_rscript p /\ p_closed p' = p_closed p /\
  len w' + len (p_buf p') = len w + len (p_buf p) /\ len w' <= len w /\
  len (p_wscript p') <= len (p_wscript p) /\
  (ok = false -> len w' < len w \/ len (p_wscript p') < len (p_wscript p)).
Proof.
  intros w p w' p' ok H. unfold wr_ready in H. destruct (MAX_FRAME <=? len w).
  - destruct (wr_drain_work _ _ _ _ _ _ H) as (A1 & A2 & A3 & A4 & A5 & A6 & A7).
    do 5 (split; [assumption|]). intros ->.
    destruct (N.eq_dec (len w') (len w)) as [E1|E1]; [|lia].
    destruct (N.eq_dec (len (p_wscript p')) (len (p_wscript p))) as [E2|E2]; [|lia].
    exfalso. destruct (A6 E1 E2) as (-> & -> & [E | E]); [discriminate E|].
    subst w. cbn in H. discriminate H.
  - injection H as <- <- <-. repeat split; auto; try lia; try discriminate.
Qed.

Ltac use_IH IH H Hrd HF :=
  match type of H with
  | d_poll _ ?d1 _ _ = _ =>
      let HW := fresh "HW" in let HI := fresh "HI" in
      assert (HW : WfD d1) by (split; [reflexivity | exact Hrd]);
      pose proof (IH _ _ _ _ _ _ _ HW H) as HI;
      refine (dw_trans _ _ _ _ _ _ _ _ _ _ _ HF _ HI)
  end.

Ltac wnum := unfold Pd, PipesD, rkd, nrest, RD, SD, HD, SL, WDL, FMAX in *;
             cbn [d_ph d_rest d_wbuf d_lazy d_rd length] in *.

Lemma d_poll_work : forall fuel d pin pout d' pin' pout' r, WfD d ->
  d_poll fuel d pin pout = (d', pin', pout', r) -> DWork fuel d pin pout d' pin' pout' r.
Proof.
  induction fuel as [|f IH]; intros d pin pout d' pin' pout' r Hwf H.
  - cbn in H. injection H as <- <- <- <-. split; [apply FrameP_refl|]. split; [exact Hwf|].
    split; [lia|]. intros _. auto.
  - destruct d as [ph rest lz rd wb]. destruct Hwf as [Hlz Hrd]. cbn in Hlz, Hrd. subst lz.
    cbn [d_poll d_ph d_wbuf d_rest d_lazy d_rd] in H.
    destruct ph as [|i p hr|i p hr|i p hr].
    + (* SendHeader *)
      destruct (wr_ready wb pout) as [[w1 po1] ok] eqn:Ew.
      destruct (wr_ready_work _ _ _ _ _ Ew) as (A1 & A2 & A3 & A4 & A5 & A6).
      assert (HF : FrameP pin pout pin po1) by (repeat split; auto).
      destruct ok; cbn [negb] in H.
      * destruct (wr_send w1 MSG_HEADER) as [w2|] eqn:Es.
        -- pose proof (header_send_len _ _ Es) as L2.
           destruct rest as [|[i0 p0] rest'].
           ++ injection H as <- <- <- <-. split; [exact HF|]. split; [split; [reflexivity | exact Hrd]|].
              wnum. lia.
           ++ use_IH IH H Hrd HF.
              wnum. lia.
        -- injection H as <- <- <- <-. split; [exact HF|]. split; [split; [reflexivity | exact Hrd]|].
           wnum. lia.
      * injection H as <- <- <- <-. split; [exact HF|]. split; [split; [reflexivity | exact Hrd]|].
        specialize (A6 eq_refl). split; [wnum; lia|]. intros E. exfalso. wnum. lia.
    + (* SendProto *)
      destruct (wr_ready wb pout) as [[w1 po1] ok] eqn:Ew.
      destruct (wr_ready_work _ _ _ _ _ Ew) as (A1 & A2 & A3 & A4 & A5 & A6).
      assert (HF : FrameP pin pout pin po1) by (repeat split; auto).
      destruct ok; cbn [negb] in H.
      * destruct (negb (starts_slash p)).
        -- injection H as <- <- <- <-. split; [exact HF|]. split; [split; [reflexivity | exact Hrd]|].
           wnum. lia.
        -- destruct (wr_send w1 (encode_msg (MProto p))) as [w2|] eqn:Es.
           ++ pose proof (wr_send_len _ _ _ Es) as L2.
              assert (G : d_poll f (mkDialer (DFlush i p hr) rest false rd w2) pin po1 = (d', pin', pout', r)).
              { destruct rest; exact H. }
              use_IH IH G Hrd HF.
              wnum. lia.
           ++ injection H as <- <- <- <-. split; [exact HF|]. split; [split; [reflexivity | exact Hrd]|].
              wnum. lia.
      * injection H as <- <- <- <-. split; [exact HF|]. split; [split; [reflexivity | exact Hrd]|].
        specialize (A6 eq_refl). split; [wnum; lia|]. intros E. exfalso. wnum. lia.
    + (* Flush *)
      destruct (wr_drain (wr_fuel wb) wb pout) as [[w1 po1] ok] eqn:Ew.
      destruct (wr_drain_work _ _ _ _ _ _ Ew) as (A1 & A2 & A3 & A4 & A5 & A6 & A7).
      assert (HF : FrameP pin pout pin po1) by (repeat split; auto).
      destruct ok.
      * specialize (A7 eq_refl). subst w1.
        use_IH IH H Hrd HF.
        wnum. change (len []) with 0 in *. lia.
      * injection H as <- <- <- <-. split; [exact HF|]. split; [split; [reflexivity | exact Hrd]|].
        split; [wnum; lia|]. intros E. exfalso.
        assert (E1 : len w1 = len wb) by (wnum; lia).
        assert (E2 : len (p_wscript po1) = len (p_wscript pout)) by (wnum; lia).
        destruct (A6 E1 E2) as (-> & -> & [E3 | E3]); [discriminate E3|].
        subst wb. cbn in Ew. discriminate Ew.
    + (* Await *)
      destruct (msg_poll rd pin) as [[st1 pi1] mr] eqn:Em.
      destruct (msg_poll_work _ _ _ _ _ Hrd Em) as (B0 & B1 & B2 & B3 & B4 & B5 & B6 & B7).
      assert (HF : FrameP pin pout pi1 pout) by (repeat split; auto).
      destruct mr as [| |m|c].
      * injection H as <- <- <- <-. split; [exact HF|]. split; [split; [reflexivity | exact B0]|].
        split; [wnum; lia|]. intros E.
        assert (E1 : len (p_buf pi1) = len (p_buf pin)) by (wnum; lia).
        assert (E2 : len (p_rscript pi1) = len (p_rscript pin)) by (wnum; lia).
        destruct (B6 E1 E2) as (-> & -> & C1 & C2 & _).
        split; [reflexivity|]. split; [reflexivity|]. split; [reflexivity|]. right.
        split; [exists i, p, hr; reflexivity|]. split; [exact C1 | apply C2; reflexivity].
      * injection H as <- <- <- <-. split; [exact HF|]. split; [split; [reflexivity | exact B0]|].
        wnum. lia.
      * destruct (d_react p hr m).
        -- use_IH IH H B0 HF.
           wnum. lia.
        -- injection H as <- <- <- <-. split; [exact HF|]. split; [split; [reflexivity | exact B0]|].
           wnum. lia.
        -- destruct rest as [|[i' p'] rest'].
           ++ injection H as <- <- <- <-. split; [exact HF|]. split; [split; [reflexivity | exact B0]|].
              wnum. lia.
           ++ use_IH IH H B0 HF.
              wnum. lia.
        -- injection H as <- <- <- <-. split; [exact HF|]. split; [split; [reflexivity | exact B0]|].
           wnum. lia.
      * injection H as <- <- <- <-. split; [exact HF|]. split; [split; [reflexivity | exact B0]|].
        wnum. lia.
Qed.

(* ------------------------------------------------------------------ the listener future *)
Definition rkl (ph : lphase) : N :=
  match ph with
  | LRecvHeader => 1
  | LSendHeader => 44
  | LRecvMsg => 1
  | LSendMsg _ _ => 3 + SL
  | LFlush _ => 2
  end.
Definition Pl (l : listener) : N := rkl (l_ph l) + 2 * len (l_wbuf l).
Definition PipesL (pin pout : pipe) : N :=
  len (p_buf pout) + len (p_wscript pout) + WDL * len (p_buf pin) + len (p_rscript pin).
Definition WfL (l : listener) : Prop := rd_wf (l_rd l).
Definition ReadBlocked (l : listener) (pin : pipe) : Prop :=
  (l_ph l = LRecvHeader \/ l_ph l = LRecvMsg) /\ p_buf pin = [] /\ p_closed pin = false.

Definition LWork (fuel : nat) (l : listener) (pin pout : pipe) (l' : listener) (pin' pout' : pipe)
  (r : nout) : Prop :=
  FrameP pin pout pin' pout' /\ WfL l' /\
  match r with
  | NPending =>
      Pl l' + PipesL pin' pout' <= Pl l + PipesL pin pout /\
      (Pl l' + PipesL pin' pout' = Pl l + PipesL pin pout ->
       l' = l /\ pin' = pin /\ pout' = pout /\ (fuel = 0%nat \/ ReadBlocked l pin))
  | NLazy _ _ _ _ => False
  | _ => PipesL pin' pout' <= Pl l + PipesL pin pout
  end.

Lemma lw_trans : forall f l pin pout l1 pin1 pout1 l' pin' pout' r,
  FrameP pin pout pin1 pout1 ->
  Pl l1 + PipesL pin1 pout1 < Pl l + PipesL pin pout ->
  LWork f l1 pin1 pout1 l' pin' pout' r -> LWork (S f) l pin pout l' pin' pout' r.
Proof.
  intros f l pin pout l1 pin1 pout1 l' pin' pout' r HF Hlt (F1 & W1 & H).
  split; [exact (FrameP_trans _ _ _ _ _ _ HF F1)|]. split; [exact W1|].
  destruct r as [|c|i|i p st w].
  - destruct H as [H1 H2]. split; [lia|]. intros E. exfalso. lia.
  - lia.
  - lia.
  - exact H.
Qed.

Ltac use_IHL IH H Hrd HF :=
  match type of H with
  | l_poll _ ?l1 _ _ = _ =>
      let HW := fresh "HW" in let HI := fresh "HI" in
      assert (HW : WfL l1) by exact Hrd;
      pose proof (IH _ _ _ _ _ _ _ HW H) as HI;
      refine (lw_trans _ _ _ _ _ _ _ _ _ _ _ HF _ HI)
  end.

Ltac lnum := unfold Pl, PipesL, rkl, RD, SD, HD, SL, WDL, FMAX in *;
             cbn [l_ph l_wbuf l_rd l_na l_protos length] in *.

Lemma l_poll_work : forall fuel l pin pout l' pin' pout' r, WfL l ->
  l_poll fuel l pin pout = (l', pin', pout', r) -> LWork fuel l pin pout l' pin' pout' r.
Proof.
  induction fuel as [|f IH]; intros l pin pout l' pin' pout' r Hwf H.
  - cbn in H. injection H as <- <- <- <-. split; [apply FrameP_refl|]. split; [exact Hwf|].
    split; [lia|]. intros _. auto.
  - destruct l as [ph protos na rd wb]. unfold WfL in Hwf. cbn in Hwf.
    cbn [l_poll l_ph l_wbuf l_protos l_na l_rd] in H.
    destruct ph as [| | |x o|o].
    + (* RecvHeader *)
      destruct (msg_poll rd pin) as [[st1 pi1] mr] eqn:Em.
      destruct (msg_poll_work _ _ _ _ _ Hwf Em) as (B0 & B1 & B2 & B3 & B4 & B5 & B6 & B7).
      assert (HF : FrameP pin pout pi1 pout) by (repeat split; auto).
      destruct mr as [| |m|c].
      * injection H as <- <- <- <-. split; [exact HF|]. split; [exact B0|].
        split; [lnum; lia|]. intros E.
        assert (E1 : len (p_buf pi1) = len (p_buf pin)) by (lnum; lia).
        assert (E2 : len (p_rscript pi1) = len (p_rscript pin)) by (lnum; lia).
        destruct (B6 E1 E2) as (-> & -> & C1 & C2 & _).
        split; [reflexivity|]. split; [reflexivity|]. split; [reflexivity|]. right.
        split; [left; reflexivity|]. split; [exact C1 | apply C2; reflexivity].
      * injection H as <- <- <- <-. split; [exact HF|]. split; [exact B0|]. lnum. lia.
      * destruct m; try (injection H as <- <- <- <-; split; [exact HF|]; split; [exact B0|]; lnum; lia).
        use_IHL IH H B0 HF. lnum. lia.
      * injection H as <- <- <- <-. split; [exact HF|]. split; [exact B0|]. lnum. lia.
    + (* SendHeader *)
      destruct (wr_ready wb pout) as [[w1 po1] ok] eqn:Ew.
      destruct (wr_ready_work _ _ _ _ _ Ew) as (A1 & A2 & A3 & A4 & A5 & A6).
      assert (HF : FrameP pin pout pin po1) by (repeat split; auto).
      destruct ok; cbn [negb] in H.
      * destruct (wr_send w1 MSG_HEADER) as [w2|] eqn:Es.
        -- pose proof (header_send_len _ _ Es) as L2. use_IHL IH H Hwf HF. lnum. lia.
        -- injection H as <- <- <- <-. split; [exact HF|]. split; [exact Hwf|]. lnum. lia.
      * injection H as <- <- <- <-. split; [exact HF|]. split; [exact Hwf|].
        specialize (A6 eq_refl). split; [lnum; lia|]. intros E. exfalso. lnum. lia.
    + (* RecvMsg *)
      destruct (msg_poll rd pin) as [[st1 pi1] mr] eqn:Em.
      destruct (msg_poll_work _ _ _ _ _ Hwf Em) as (B0 & B1 & B2 & B3 & B4 & B5 & B6 & B7).
      assert (HF : FrameP pin pout pi1 pout) by (repeat split; auto).
      destruct mr as [| |m|c].
      * injection H as <- <- <- <-. split; [exact HF|]. split; [exact B0|].
        split; [lnum; lia|]. intros E.
        assert (E1 : len (p_buf pi1) = len (p_buf pin)) by (lnum; lia).
        assert (E2 : len (p_rscript pi1) = len (p_rscript pin)) by (lnum; lia).
        destruct (B6 E1 E2) as (-> & -> & C1 & C2 & _).
        split; [reflexivity|]. split; [reflexivity|]. split; [reflexivity|]. right.
        split; [right; reflexivity|]. split; [exact C1 | apply C2; reflexivity].
      * injection H as <- <- <- <-. split; [exact HF|]. split; [exact B0|]. lnum. lia.
      * destruct m as [|q| |qs|];
          try (injection H as <- <- <- <-; split; [exact HF|]; split; [exact B0|]; lnum; lia).
        -- destruct (l_find protos q); use_IHL IH H B0 HF; lnum; lia.
        -- use_IHL IH H B0 HF. lnum. lia.
      * destruct (na && ((c =? C_INVMSG) || (c =? C_IO_EOF)));
          injection H as <- <- <- <-; (split; [exact HF|]); (split; [exact B0|]); lnum; lia.
    + (* SendMsg *)
      destruct (wr_ready wb pout) as [[w1 po1] ok] eqn:Ew.
      destruct (wr_ready_work _ _ _ _ _ Ew) as (A1 & A2 & A3 & A4 & A5 & A6).
      assert (HF : FrameP pin pout pin po1) by (repeat split; auto).
      destruct ok; cbn [negb] in H.
      * destruct (wr_send w1 (encode_msg x)) as [w2|] eqn:Es.
        -- pose proof (wr_send_len _ _ _ Es) as L2. use_IHL IH H Hwf HF. lnum. lia.
        -- injection H as <- <- <- <-. split; [exact HF|]. split; [exact Hwf|]. lnum. lia.
      * injection H as <- <- <- <-. split; [exact HF|]. split; [exact Hwf|].
        specialize (A6 eq_refl). split; [lnum; lia|]. intros E. exfalso. lnum. lia.
    + (* Flush *)
      destruct (wr_drain (wr_fuel wb) wb pout) as [[w1 po1] ok] eqn:Ew.
      destruct (wr_drain_work _ _ _ _ _ _ Ew) as (A1 & A2 & A3 & A4 & A5 & A6 & A7).
      assert (HF : FrameP pin pout pin po1) by (repeat split; auto).
      destruct ok.
      * specialize (A7 eq_refl). subst w1. destruct o as [j|].
        -- injection H as <- <- <- <-. split; [exact HF|]. split; [exact Hwf|].
           lnum. change (len []) with 0 in *. lia.
        -- use_IHL IH H Hwf HF. lnum. change (len []) with 0 in *. lia.
      * injection H as <- <- <- <-. split; [exact HF|]. split; [exact Hwf|].
        split; [lnum; lia|]. intros E. exfalso.
        assert (E1 : len w1 = len wb) by (lnum; lia).
        assert (E2 : len (p_wscript po1) = len (p_wscript pout)) by (lnum; lia).
        destruct (A6 E1 E2) as (-> & -> & [E3 | E3]); [discriminate E3|].
        subst wb. cbn in Ew. discriminate Ew.
Qed.

(* ------------------------------------------------------------------ payload phases of a task *)
Definition PayPhase (t : task) : Prop :=
  match t_ph t with
  | TNeg _ => False
  | TWrite g _ | TClose g | TRead g _ => g = NCompleted
  | TDone => True
  end.
Definition krank (t : task) : N :=
  match t_ph t with TNeg _ => 4 | TWrite _ _ => 3 | TClose _ => 2 | TRead _ _ => 1 | TDone => 0 end.
Definition rrem (t : task) : N :=
  match t_ph t with TWrite _ rem => len rem | _ => 0 end.
Definition cl (p : pipe) : N := if p_closed p then 0 else 1.

Definition ReadWait (t : task) (pin : pipe) : Prop :=
  exists acc, t_ph t = TRead NCompleted acc /\ p_buf pin = [] /\ p_closed pin = false.

Definition PW (fuel : nat) (t : task) (pin pout : pipe) (t' : task) (pin' pout' : pipe) : Prop :=
  PayPhase t' /\
  p_wscript pin' = p_wscript pin /\ p_closed pin' = p_closed pin /\ p_rscript pout' = p_rscript pout /\
  rrem t' + len (p_buf pout') = rrem t + len (p_buf pout) /\ rrem t' <= rrem t /\
  len (p_wscript pout') <= len (p_wscript pout) /\
  len (p_buf pin') <= len (p_buf pin) /\ len (p_rscript pin') <= len (p_rscript pin) /\
  krank t' <= krank t /\ cl pout' <= cl pout /\
  (rrem t' = rrem t -> len (p_wscript pout') = len (p_wscript pout) ->
   len (p_buf pin') = len (p_buf pin) -> len (p_rscript pin') = len (p_rscript pin) ->
   krank t' = krank t ->
   t' = t /\ pin' = pin /\ pout' = pout /\ (fuel = 0%nat \/ t_ph t = TDone \/ ReadWait t pin)).

Lemma pw_trans : forall f t pin pout t1 pin1 pout1 t' pin' pout',
  p_wscript pin1 = p_wscript pin -> p_closed pin1 = p_closed pin -> p_rscript pout1 = p_rscript pout ->
  rrem t1 + len (p_buf pout1) = rrem t + len (p_buf pout) -> rrem t1 <= rrem t ->
  len (p_wscript pout1) <= len (p_wscript pout) ->
  len (p_buf pin1) <= len (p_buf pin) -> len (p_rscript pin1) <= len (p_rscript pin) ->
  krank t1 <= krank t -> cl pout1 <= cl pout ->
  (rrem t1 < rrem t \/ len (p_wscript pout1) < len (p_wscript pout) \/
   len (p_buf pin1) < len (p_buf pin) \/ len (p_rscript pin1) < len (p_rscript pin) \/
   krank t1 < krank t) ->
  PW f t1 pin1 pout1 t' pin' pout' -> PW (S f) t pin pout t' pin' pout'.
Proof.
  intros f t pin pout t1 pin1 pout1 t' pin' pout' A1 A2 A3 A4 A5 A6 A7 A8 A9 A10 Hs
         (B0 & B1 & B2 & B3 & B4 & B5 & B6 & B7 & B8 & B9 & B10 & B11).
  split; [exact B0|]. repeat split; try congruence; try lia.
  all: intros; exfalso; lia.
Qed.

Lemma pay_work : forall fuel t pin pout t' pin' pout', PayPhase t ->
  t_poll fuel t pin pout = (t', pin', pout') -> PW fuel t pin pout t' pin' pout'.
Proof.
  induction fuel as [|f IH]; intros t pin pout t' pin' pout' Hp H.
  - cbn in H. injection H as <- <- <-. split; [exact Hp|]. repeat split; auto; try lia.
  - destruct t as [ph pay res got en]. unfold PayPhase in Hp. cbn in Hp.
    cbn [t_poll t_ph t_payload t_res t_got t_end] in H.
    destruct ph as [fu | g rem | g | g acc | ].
    + destruct Hp.
    + subst g. destruct rem as [|b rem].
      * refine (pw_trans _ _ _ _ _ _ _ _ _ _ _ _ _ _ _ _ _ _ _ _ _ (IH _ _ _ _ _ _ _ H));
          try reflexivity; try (unfold krank, rrem, cl; cbn; lia); try exact eq_refl.
      * destruct (pipe_write pout (b :: rem)) as [po1 [n|]] eqn:Ew.
        -- assert (Hne : b :: rem <> []) by discriminate.
           destruct (pipe_write_work _ _ _ _ Hne Ew) as (A1 & A2 & (B1 & B2 & B3)).
           pose proof (len_firstn_skipn (b :: rem) n) as L.
           assert (Lf : len (firstn n (b :: rem)) = N.of_nat n).
           { unfold len. rewrite firstn_length. lia. }
           refine (pw_trans _ _ _ _ _ _ _ _ _ _ _ _ _ _ _ _ _ _ _ _ _ (IH _ _ _ _ _ _ _ H));
             try reflexivity; try assumption;
             try (unfold krank, rrem, cl; cbn [t_ph]; try rewrite A2; lia); try exact eq_refl.
        -- assert (Hne : b :: rem <> []) by discriminate.
           destruct (pipe_write_work _ _ _ _ Hne Ew) as (A1 & A2 & (B1 & B2)).
           injection H as <- <- <-. split; [exact eq_refl|].
           unfold krank, rrem, cl; cbn [t_ph]. rewrite A2, B1.
           repeat split; auto; try lia. all: intros; exfalso; lia.
    + subst g.
      refine (pw_trans _ _ _ _ _ _ _ _ _ _ _ _ _ _ _ _ _ _ _ _ _ (IH _ _ _ _ _ _ _ H));
        try reflexivity; try (unfold krank, rrem, cl; cbn; try destruct (p_closed pout); lia);
        try exact eq_refl.
    + subst g. destruct (pipe_read pin READ_CHUNK) as [pi1 rr] eqn:Er.
      assert (Hk : 1 <= READ_CHUNK) by (unfold READ_CHUNK; lia).
      destruct (pipe_read_work _ _ _ _ Hk Er) as (A1 & A2 & A3 & A4).
      destruct rr as [| |bs].
      * injection H as <- <- <-. destruct A4 as (B1 & B2). split; [exact eq_refl|].
        unfold krank, rrem, cl; cbn [t_ph].
        destruct B2 as [(-> & B2 & B3) | B2].
        -- repeat split; auto; try lia. right; right. exists acc. auto.
        -- rewrite B1. repeat split; auto; try lia. all: intros; exfalso; lia.
      * injection H as <- <- <-. destruct A4 as (-> & B2 & B3). split; [exact I|].
        unfold krank, rrem, cl; cbn [t_ph]. repeat split; auto; try lia.
        all: intros; exfalso; lia.
      * destruct A4 as (B1 & B2 & B3).
        refine (pw_trans _ _ _ _ _ _ _ _ _ _ _ _ _ _ _ _ _ _ _ _ _ (IH _ _ _ _ _ _ _ H));
          try reflexivity; try assumption; try (unfold krank, rrem, cl; cbn [t_ph]; lia);
          try exact eq_refl.
    + injection H as <- <- <-. split; [exact I|]. repeat split; auto; try lia.
Qed.
