(* C03 — the reference run of the message-level system: for every dialer list and listener set
   there is a schedule of effective ticks that ends in the expected final state. *)
From Coq Require Import List NArith Bool Lia.
From V.common Require Import Wire.
From V.C03 Require Import Model Msg Proofs.
Import ListNotations.
Open Scope N_scope.

Definition wfd (ds : list name) : Prop := Forall (fun p => starts_slash p = true) ds.

Fixpoint eff (ls : list name) (sched : list bool) (s : msys) : Prop :=
  match sched with
  | [] => True
  | b :: t => mtick ls s b <> s /\ eff ls t (mtick ls s b)
  end.

Definition final_ok (ds ls : list name) (F : msys) : Prop :=
  md_ph (sd F) = MDDone (first_common ds ls) /\ ml_ph (sl F) = MLDone (first_common ds ls) /\
  md_wbuf (sd F) = [] /\ ml_wbuf (sl F) = [] /\ c_dl F = [] /\ c_ld F = [] /\
  (forall p, first_common ds ls = Some p -> dl_closed F = false /\ ld_closed F = false).

Lemma eff_app : forall ls a b s, eff ls a s -> eff ls b (mrun ls a s) -> eff ls (a ++ b) s.
Proof.
  induction a as [|x a IH]; intros b s Ha Hb; [exact Hb|].
  cbn [app eff]. destruct Ha as [H1 H2]. split; [exact H1|]. apply IH; assumption.
Qed.

Lemma mrun_app : forall ls a b s, mrun ls (a ++ b) s = mrun ls b (mrun ls a s).
Proof. intros. unfold mrun. apply fold_left_app. Qed.

Lemma name_eqb_refl : forall p : name, name_eqb p p = true.
Proof. exact bytes_eqb_refl. Qed.

(* the listener's lookup against the specification's `supported` *)
Lemma l_find_sup_none : forall ls p, supported ls p = false -> l_find (sup ls) p = None.
Proof.
  intros ls p. unfold supported, sup, l_filter.
  induction ls as [|q ls IH]; intros H; [reflexivity|].
  cbn [existsb] in H. apply orb_false_iff in H. destruct H as [H1 H2].
  cbn [map filter]. cbn [snd]. destruct (starts_slash q).
  - cbn [l_find]. rewrite H1. apply IH. exact H2.
  - apply IH. exact H2.
Qed.

Lemma l_find_sup_some : forall ls p, starts_slash p = true -> supported ls p = true ->
  l_find (sup ls) p = Some p.
Proof.
  intros ls p Hs. unfold supported, sup, l_filter.
  induction ls as [|q ls IH]; intros H; [discriminate|].
  cbn [existsb] in H. cbn [map filter]. cbn [snd].
  destruct (name_eqb p q) eqn:E.
  - apply bytes_eqb_eq in E. subst q. rewrite Hs. cbn [l_find]. rewrite name_eqb_refl. reflexivity.
  - cbn [orb] in H. destruct (starts_slash q).
    + cbn [l_find]. rewrite E. apply IH. exact H.
    + apply IH. exact H.
Qed.

(* canonical states *)
Definition RS (p : name) (post : list name) : msys :=
  mkS (mkD (MDSendProto p true) post []) (mkL MLRecvMsg []) [] false [] false.
Definition Mid (p : name) (post : list name) : msys :=
  mkS (mkD (MDAwait p true) post []) (mkL MLRecvMsg []) [MProto p] false [] false.
Definition Fok (p : name) (post : list name) : msys :=
  mkS (mkD (MDDone (Some p)) post []) (mkL (MLDone (Some p)) []) [] false [] false.
Definition Ffail : msys :=
  mkS (mkD (MDDone None) [] []) (mkL (MLDone None) []) [] true [] true.

Ltac eff_tac :=
  repeat (split; [cbn; let Hc := fresh "Hc" in intro Hc; discriminate Hc|]); exact I.

Lemma seg_rs_mid : forall ls p post, starts_slash p = true ->
  mrun ls [true; true; true] (RS p post) = Mid p post /\ eff ls [true; true; true] (RS p post).
Proof.
  intros ls p post Hs. unfold RS, Mid.
  split.
  - cbn. rewrite Hs. cbn. reflexivity.
  - cbn [eff mtick]. cbn. rewrite Hs. cbn. eff_tac.
Qed.

Definition seg5 : list bool := [false; false; false; false; true].

Lemma seg_mid_next : forall ls p p' post, supported ls p = false ->
  mrun ls seg5 (Mid p (p' :: post)) = RS p' post /\ eff ls seg5 (Mid p (p' :: post)).
Proof.
  intros ls p p' post Hu. pose proof (l_find_sup_none ls p Hu) as Hf.
  unfold Mid, RS, seg5. split.
  - cbn. rewrite Hf. cbn. reflexivity.
  - cbn [eff mtick]. cbn. rewrite Hf. cbn. eff_tac.
Qed.

Lemma seg_mid_fail : forall ls p, supported ls p = false ->
  mrun ls (seg5 ++ [false]) (Mid p []) = Ffail /\ eff ls (seg5 ++ [false]) (Mid p []).
Proof.
  intros ls p Hu. pose proof (l_find_sup_none ls p Hu) as Hf.
  unfold Mid, Ffail, seg5. split.
  - cbn. rewrite Hf. cbn. reflexivity.
  - cbn [eff mtick app]. cbn. rewrite Hf. cbn. eff_tac.
Qed.

Lemma seg_mid_ok : forall ls p post, starts_slash p = true -> supported ls p = true ->
  mrun ls seg5 (Mid p post) = Fok p post /\ eff ls seg5 (Mid p post).
Proof.
  intros ls p post Hs Hu. pose proof (l_find_sup_some ls p Hs Hu) as Hf.
  unfold Mid, Fok, seg5. split.
  - cbn. rewrite Hf. cbn. rewrite name_eqb_refl. cbn. reflexivity.
  - cbn [eff mtick]. cbn. rewrite Hf. cbn. rewrite name_eqb_refl. cbn. eff_tac.
Qed.

Definition pre0 : list bool :=
  [true; true; true; true; true; false; false; false; false; true].

Lemma seg_init : forall ls p post, starts_slash p = true ->
  mrun ls pre0 (minit (p :: post)) = Mid p post /\ eff ls pre0 (minit (p :: post)).
Proof.
  intros ls p post Hs. unfold minit, Mid, pre0. split.
  - cbn. rewrite Hs. cbn. reflexivity.
  - cbn [eff mtick]. cbn. rewrite Hs. cbn. eff_tac.
Qed.

Lemma seg_init_nil : forall ls,
  mrun ls [true; false] (minit []) = Ffail /\ eff ls [true; false] (minit []).
Proof. intros ls. unfold minit, Ffail. split; [reflexivity|]. cbn [eff mtick]. cbn. eff_tac. Qed.

(* from the middle of a round to the end, by induction on the remaining names *)
Lemma from_mid : forall ls post p, starts_slash p = true -> wfd post ->
  exists sched,
    eff ls sched (Mid p post) /\ (length sched <= 6 + 8 * length post)%nat /\
    match find (supported ls) (p :: post) with
    | Some q => exists pre rest, mrun ls sched (Mid p post) = Fok q rest /\
                  p :: post = pre ++ q :: rest /\ Forall (fun x => supported ls x = false) pre
    | None => mrun ls sched (Mid p post) = Ffail
    end.
Proof.
  intros ls post. induction post as [|p' post IH]; intros p Hs Hw.
  - cbn [find]. destruct (supported ls p) eqn:Hu.
    + destruct (seg_mid_ok ls p [] Hs Hu) as [H1 H2].
      exists seg5. split; [exact H2|]. split; [unfold seg5; cbn [length app]; lia|].
      exists [], []. split; [exact H1|]. split; [reflexivity | constructor].
    + destruct (seg_mid_fail ls p Hu) as [H1 H2].
      exists (seg5 ++ [false]). split; [exact H2|]. split; [unfold seg5; cbn [length app]; lia|]. exact H1.
  - cbn [find]. destruct (supported ls p) eqn:Hu.
    + destruct (seg_mid_ok ls p (p' :: post) Hs Hu) as [H1 H2].
      exists seg5. split; [exact H2|]. split; [unfold seg5; cbn [length app]; lia|].
      exists [], (p' :: post). split; [exact H1|]. split; [reflexivity | constructor].
    + pose proof (Forall_inv Hw) as Hs'. pose proof (Forall_inv_tail Hw) as Hw'. cbv beta in Hs'.
      destruct (seg_mid_next ls p p' post Hu) as [H1 H2].
      destruct (seg_rs_mid ls p' post Hs') as [H3 H4].
      destruct (IH p' Hs' Hw') as (sched & He & Hl & Hr).
      exists (seg5 ++ [true; true; true] ++ sched).
      split.
      * apply (eff_app ls seg5); [exact H2|]. rewrite H1. apply (eff_app ls [true; true; true] sched); [exact H4|]. rewrite H3. exact He.
      * split.
        -- rewrite !app_length. unfold seg5. cbn [length]. cbn [length] in Hl. lia.
        -- rewrite !mrun_app. rewrite H1, H3. cbn [find] in Hr.
           destruct (if supported ls p' then Some p' else find (supported ls) post) as [q|]; [|exact Hr].
           destruct Hr as (pre & rest & E1 & E2 & E3).
           exists (p :: pre), rest. split; [exact E1|]. split.
           ++ cbn [app]. f_equal. exact E2.
           ++ constructor; assumption.
Qed.

(* where the dialer's remaining list stands in the final state: right after the first supported
   name (this pins down the INDEX the dialer reports, also with duplicate names) *)
Definition rest_ok (ds ls : list name) (F : msys) : Prop :=
  forall q, first_common ds ls = Some q ->
  exists pre, ds = pre ++ q :: md_rest (sd F) /\ Forall (fun x => supported ls x = false) pre.

Lemma final_ok_Fok : forall ds ls q rest, first_common ds ls = Some q -> final_ok ds ls (Fok q rest).
Proof.
  intros ds ls q rest H. unfold final_ok, Fok. cbn. rewrite H. repeat split; reflexivity.
Qed.

Lemma final_ok_Ffail : forall ds ls, first_common ds ls = None -> final_ok ds ls Ffail.
Proof.
  intros ds ls H. unfold final_ok, Ffail. cbn. rewrite H. repeat split; try reflexivity; discriminate.
Qed.

Lemma ref_run2 : forall ds ls, wfd ds ->
  exists sched, eff ls sched (minit ds) /\ (length sched <= fair_bound ds)%nat /\
                final_ok ds ls (mrun ls sched (minit ds)) /\ rest_ok ds ls (mrun ls sched (minit ds)).
Proof.
  intros [|p post] ls Hw.
  - destruct (seg_init_nil ls) as [H1 H2]. exists [true; false].
    split; [exact H2|]. split; [unfold fair_bound; cbn; lia|].
    rewrite H1. split; [apply final_ok_Ffail; reflexivity|]. intros q Hq. discriminate Hq.
  - pose proof (Forall_inv Hw) as Hs. pose proof (Forall_inv_tail Hw) as Hw'. cbv beta in Hs.
    destruct (seg_init ls p post Hs) as [H1 H2].
    destruct (from_mid ls post p Hs Hw') as (sched & He & Hl & Hr).
    exists (pre0 ++ sched). unfold name, bytes in *. split.
    + apply (eff_app ls pre0 sched); [exact H2|]. rewrite <- H1 in He. exact He.
    + split.
      * rewrite app_length. unfold fair_bound, pre0. cbn [length]. unfold name, bytes in *. lia.
      * rewrite mrun_app.
        assert (E : mrun ls sched (mrun ls pre0 (minit (p :: post))) = mrun ls sched (Mid p post))
          by (f_equal; exact H1).
        match type of Hr with match ?x with _ => _ end => destruct x as [q|] eqn:Ef end.
        -- destruct Hr as (pre & rest & Hr & E2 & E3). rewrite Hr in E.
           pose proof (final_ok_Fok (p :: post) ls q rest Ef) as HF. rewrite <- E in HF.
           split; [exact HF|]. intros q' Hq'. unfold first_common in Hq'.
           unfold name, bytes in *. rewrite Ef in Hq'. injection Hq' as <-.
           exists pre. rewrite E. cbn. split; assumption.
        -- rewrite Hr in E.
           pose proof (final_ok_Ffail (p :: post) ls Ef) as HF. rewrite <- E in HF.
           split; [exact HF|]. intros q' Hq'. unfold first_common in Hq'.
           unfold name, bytes in *. rewrite Ef in Hq'. discriminate Hq'.
Qed.

Lemma ref_run : forall ds ls, wfd ds ->
  exists sched, eff ls sched (minit ds) /\ (length sched <= fair_bound ds)%nat /\
                final_ok ds ls (mrun ls sched (minit ds)).
Proof.
  intros ds ls Hw. destruct (ref_run2 ds ls Hw) as (sched & A & B & C & _).
  exists sched. split; [exact A|]. split; [exact B | exact C].
Qed.
