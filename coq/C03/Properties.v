(* C03 — pinned property theorems. Statements, `exact`, Print Assumptions and non-vacuity
   Examples only. The pins in tools/pins/C03.v re-check the statements.

   Structure: (1) codec, (2) framing for every fragmentation, (3) the message-level system
   under an arbitrary scheduler, (4) the projection theorem C03_bytes_project — every run of the
   byte-level two-ended system of Model.v (tasks, scripted pipes, any poll sequence, any
   chunking, any Pending injection) is related, poll by poll, to a run of the message-level
   system — and its consequences for the byte-level model that the harness is diffed against:
   agreement with the exact indices, clean hand-over, transparency of the application bytes;
   (5) the message-based (WebRTC) variant, (6) the fallback-name -> main-protocol mapping. *)
From Coq Require Import List NArith Bool.
From V.gen Require Consts.
From V.C03 Require Import Model Msg Proofs UviProofs LsProofs WebRtc WebRtcProofs WGroup WGroupProofs Fallback.
From V.C03 Require Import MsgRef MsgProofs MsgInv Chan Dir SimD SimL SimSys BytesThm LazyThm.
From V.C03 Require Import Work Work2 Live Timed TimedProofs Survivor NegOps LazyBytes Compose Sub SubProofs.
From V.C03 Require Import Peer PeerTie RefDiff.
From V.C03 Require Glue.
Import ListNotations.
Open Scope N_scope.

(* ---- layer 1: Message codec *)
Theorem C03_codec_roundtrip :
  forall m, wf_msg m -> decode_msg (encode_msg m) = DOk m.
Proof. exact codec_roundtrip. Qed.
Print Assumptions C03_codec_roundtrip.

Theorem C03_codec_injective :
  forall m1 m2, wf_msg m1 -> wf_msg m2 -> encode_msg m1 = encode_msg m2 -> m1 = m2.
Proof. exact codec_injective. Qed.
Print Assumptions C03_codec_injective.

(* the ls response (Message::Protocols), incl. the MAX_PROTOCOLS bound; names inside an ls
   response may contain newlines *)
Theorem C03_ls_roundtrip :
  forall ps, Forall wf_entry ps -> N.of_nat (length ps) <= V.gen.Consts.C03_MAX_PROTOCOLS ->
  decode_msg (encode_msg (MProtos ps)) = DOk (MProtos ps).
Proof. exact ls_roundtrip. Qed.
Print Assumptions C03_ls_roundtrip.

Theorem C03_ls_too_many :
  forall ps, Forall wf_entry ps -> V.gen.Consts.C03_MAX_PROTOCOLS < N.of_nat (length ps) ->
  decode_msg (encode_msg (MProtos ps)) = DErr ETooMany.
Proof. exact ls_too_many. Qed.
Print Assumptions C03_ls_too_many.

Theorem C03_varint_roundtrip :
  forall n t, n < 2 ^ 64 -> uvi_dec (uvi_enc n ++ t) = Some (n, t).
Proof. exact uvi_roundtrip. Qed.
Print Assumptions C03_varint_roundtrip.

(* ---- layer 2: LengthDelimited framing, every fragmentation *)
(* One poll_next of the reader, from any point inside a frame (pre = bytes of the frame already
   consumed), with any amount of the stream `frame body ++ tail` available on the carrier and
   any read script: it either stays inside the frame, or yields exactly `body` having consumed
   exactly `frame body` (so `tail` — the application data — is untouched), or reports EOF
   because the carrier was closed mid-frame. It never yields a wrong frame or an error on a
   well-formed stream. *)
Theorem C03_frame_exact :
  forall body tail, len body <= MAX_FRAME ->
  forall fuel st p pre st' p' r,
  InFrame body st pre -> agrees body tail pre (p_buf p) ->
  rd_poll fuel st p = (st', p', r) ->
  exists consumed,
    p_buf p = consumed ++ p_buf p' /\ p_closed p' = p_closed p /\
    match r with
    | FPending => InFrame body st' (pre ++ consumed)
    | FFrame b => b = body /\ pre ++ consumed = frame body /\ st' = rd_init
    | FErr e => e = IoUnexpectedEof /\ p_closed p = true /\ p_buf p' = [] /\ pre ++ consumed <> []
    | FNone => pre = [] /\ consumed = [] /\ p_buf p = [] /\ p_closed p = true
    end.
Proof. exact frame_exact_weak. Qed.
Print Assumptions C03_frame_exact.

(* Writer side: under any write script the carrier receives a prefix of the write buffer, in
   order, nothing lost or duplicated; when the flush reports completion the buffer is empty
   (this is the `into_inner` assertion on write_buffer). *)
Theorem C03_writer_exact :
  forall fuel wbuf p w' p' ok,
  wr_drain fuel wbuf p = (w', p', ok) ->
  exists written, wbuf = written ++ w' /\ p_buf p' = p_buf p ++ written /\
                  p_total p' = p_total p ++ written /\ p_closed p' = p_closed p /\
                  p_rscript p' = p_rscript p /\ (ok = true -> w' = []).
Proof. exact wr_drain_spec. Qed.
Print Assumptions C03_writer_exact.

(* ---- layer 3: negotiation, all dialer lists, all listener sets, all schedules *)
(* Whatever the schedule, a result reported by the dialer is the dialer's most preferred name
   that the listener supports (None = failure). *)
Theorem C03_agreement_dialer :
  forall ds ls sched r, wfd ds ->
  d_result (mrun ls sched (minit ds)) = Some r -> r = first_common ds ls.
Proof. exact agreement_dialer. Qed.
Print Assumptions C03_agreement_dialer.

Theorem C03_agreement_listener :
  forall ds ls sched r, wfd ds ->
  l_result (mrun ls sched (minit ds)) = Some r -> r = first_common ds ls.
Proof. exact agreement_listener. Qed.
Print Assumptions C03_agreement_listener.

(* Both sides terminate under every fair schedule, with that same result. *)
Theorem C03_terminates :
  forall ds ls sched, wfd ds -> fair (fair_bound ds) sched ->
  d_result (mrun ls sched (minit ds)) = Some (first_common ds ls) /\
  l_result (mrun ls sched (minit ds)) = Some (first_common ds ls).
Proof. exact termination. Qed.
Print Assumptions C03_terminates.

(* Hand-over: when a side reports success, no negotiation message is left on its inbound
   channel (so the next inbound byte is the peer's application data), its own write buffer is
   empty, and neither direction has been closed. *)
Theorem C03_handover_dialer :
  forall ds ls sched p, wfd ds ->
  let s := mrun ls sched (minit ds) in
  d_result s = Some (Some p) ->
  c_ld s = [] /\ md_wbuf (sd s) = [] /\ dl_closed s = false /\ ld_closed s = false.
Proof. exact handover_dialer. Qed.
Print Assumptions C03_handover_dialer.

Theorem C03_handover_listener :
  forall ds ls sched p, wfd ds ->
  let s := mrun ls sched (minit ds) in
  l_result s = Some (Some p) ->
  c_dl s = [] /\ ml_wbuf (sl s) = [] /\ dl_closed s = false /\ ld_closed s = false.
Proof. exact handover_listener. Qed.
Print Assumptions C03_handover_listener.

(* ---- layer 4: the byte-level system projects onto the message-level system *)
(* For every V1 case whose dialer names are valid and fit a frame (any listener set, any
   scripts, any payloads) and every sequence of polls, the reached byte-level state is related
   (SimSys.Sim: task phases, reader/writer buffers and both pipes vs. phases, channels and
   write buffers) to a state the message-level system reaches under some schedule. *)
Theorem C03_bytes_project :
  forall c who, wf_case c ->
  exists sched, Sim (c_ds c) (c_ls c) (polls who (sys_init c)) (mrun (c_ls c) sched (minit (c_ds c))).
Proof. exact bytes_project. Qed.
Print Assumptions C03_bytes_project.

(* one poll of either side is a finite run of that side's micro-steps *)
Theorem C03_bytes_poll_sim :
  forall ds ls, Forall wfn ds -> forall who s m, Sim ds ls s m ->
  exists k, Sim ds ls (poll_side who s) (mrun ls (repeat (negb who) k) m).
Proof. exact poll_sim. Qed.
Print Assumptions C03_bytes_poll_sim.

(* whenever the byte-level dialer task reports success with index i, ds[i] is the first name of
   its list that the listener supports (exact index, also with duplicate names) *)
Theorem C03_bytes_dialer_result :
  forall c who, wf_case c -> forall i, t_res (s_d (polls who (sys_init c))) = (0, i) ->
  exists p, first_common (c_ds c) (c_ls c) = Some p /\ first_at (c_ds c) (c_ls c) i p.
Proof. exact dialer_ok_result. Qed.
Print Assumptions C03_bytes_dialer_result.

Theorem C03_bytes_listener_result :
  forall c who, wf_case c -> forall j, t_res (s_l (polls who (sys_init c))) = (0, j) ->
  exists p, first_common (c_ds c) (c_ls c) = Some p /\ lidx 0 (c_ls c) p = Some j.
Proof. exact listener_ok_result. Qed.
Print Assumptions C03_bytes_listener_result.

(* a reported failure means there is no common name *)
Theorem C03_bytes_dialer_failure :
  forall c who, wf_case c -> forall code i, t_res (s_d (polls who (sys_init c))) = (code, i) ->
  code <> 0 -> code <> 99 -> first_common (c_ds c) (c_ls c) = None.
Proof. exact dialer_fail_result. Qed.
Print Assumptions C03_bytes_dialer_failure.

Theorem C03_bytes_listener_failure :
  forall c who, wf_case c -> forall code j, t_res (s_l (polls who (sys_init c))) = (code, j) ->
  code <> 0 -> code <> 99 -> first_common (c_ds c) (c_ls c) = None.
Proof. exact listener_fail_result. Qed.
Print Assumptions C03_bytes_listener_failure.

(* transparency at byte level: after a successful negotiation, once both tasks have finished,
   each side has received exactly the other's application bytes, ended on a clean EOF, and
   both pipes are empty: the negotiation consumed no application byte and lost none *)
Theorem C03_bytes_transparent :
  forall c who, wf_case c ->
  let s := polls who (sys_init c) in
  t_done (s_d s) = true -> t_done (s_l s) = true ->
  forall p, first_common (c_ds c) (c_ls c) = Some p ->
  t_got (s_l s) = c_dpay c /\ t_got (s_d s) = c_lpay c /\
  t_end (s_d s) = 0 /\ t_end (s_l s) = 0 /\ p_buf (s_dl s) = [] /\ p_buf (s_ld s) = [].
Proof. exact transparent. Qed.
Print Assumptions C03_bytes_transparent.

(* the scheduler the harness uses (script, then alternation, stuck detection): whenever it
   reports completion (status 0) the final state is fully determined as the property demands *)
Theorem C03_bytes_run_correct :
  forall c fuel s st, wf_case c ->
  run_sys fuel (c_sched c) false 0 (sys_init c) = (s, st) -> st = 0 ->
  match first_common (c_ds c) (c_ls c) with
  | Some p =>
      exists i j, t_res (s_d s) = (0, i) /\ t_res (s_l s) = (0, j) /\
        first_at (c_ds c) (c_ls c) i p /\ lidx 0 (c_ls c) p = Some j /\
        t_got (s_l s) = c_dpay c /\ t_got (s_d s) = c_lpay c /\
        t_end (s_d s) = 0 /\ t_end (s_l s) = 0 /\ p_buf (s_dl s) = [] /\ p_buf (s_ld s) = []
  | None =>
      fst (t_res (s_d s)) <> 0 /\ fst (t_res (s_l s)) <> 0
  end.
Proof. exact run_sys_correct. Qed.
Print Assumptions C03_bytes_run_correct.

(* ---- byte-level termination *)
(* A potential (buffered bytes, bytes in the pipes, remaining script entries, remaining names,
   phase ranks) never increases under a poll and strictly decreases unless the polled task is
   blocked and nothing at all changed. This needs no invariant: it holds in every state. *)
Theorem C03_bytes_poll_work :
  forall b s, WfS s ->
  WfS (poll_side b s) /\ Phi (poll_side b s) <= Phi s /\
  (Phi (poll_side b s) = Phi s -> poll_side b s = s /\ Blocked b s).
Proof. exact poll_work. Qed.
Print Assumptions C03_bytes_poll_work.

(* two blocked tasks are two finished tasks: no reachable state of a well-formed V1 case is
   stuck short of completion *)
Theorem C03_bytes_no_deadlock :
  forall ds ls, Forall wfn ds -> forall s m, Sim ds ls s m ->
  Blocked false s -> Blocked true s ->
  t_done (s_d s) = true /\ t_done (s_l s) = true.
Proof. exact no_deadlock. Qed.
Print Assumptions C03_bytes_no_deadlock.

(* both sides terminate: under every fair poll sequence (K blocks, each polling both sides at
   least once, K above the initial potential), any chunking and any Pending injection, both
   tasks finish - and then C03_bytes_transparent / the result theorems apply *)
Theorem C03_bytes_terminate :
  forall c, wf_case c -> forall K who,
  fair K who -> Phi (sys_init c) < N.of_nat K ->
  t_done (s_d (polls who (sys_init c))) = true /\ t_done (s_l (polls who (sys_init c))) = true.
Proof. exact bytes_terminate. Qed.
Print Assumptions C03_bytes_terminate.

(* ---- the optimistic variant (V1Lazy), dialer side *)
(* byte level: with a single name the future settles on its first poll, header and proposal
   buffered, no carrier operation *)
Theorem C03_lazy_immediate :
  forall d pin pout fuel, wfn d ->
  d_poll (S (S fuel)) (d_init [d] true) pin pout =
  (mkDialer (DSendProto 0 d false) [] true rd_init (fr MHeader), pin, pout,
   NLazy 0 d rd_init (fr MHeader ++ fr (MProto d))).
Proof. exact lazy_immediate. Qed.
Print Assumptions C03_lazy_immediate.

(* message level: header, proposal and then application data (for the listener's frame parser
   an arbitrary sequence `junk` of further frames) are written, then the dialer reads; for
   every junk, listener set and schedule its verdict is "confirmed" iff the listener supports
   the name *)
Theorem C03_lazy_dialer_verdict :
  forall d ls, starts_slash d = true -> forall junk sched,
  let m := mrun ls sched (lazy_init d junk) in
  (forall q, md_ph (sd m) = MDDone (Some q) -> q = d /\ supported ls d = true) /\
  (md_ph (sd m) = MDDone None -> supported ls d = false).
Proof. exact lazy_dialer_verdict. Qed.
Print Assumptions C03_lazy_dialer_verdict.

(* the listener half of agreement does NOT hold for V1Lazy (upstream-documented pitfall) *)
Theorem C03_lazy_listener_agreement_refuted :
  exists d ls junk sched,
    let m := mrun ls sched (lazy_init d junk) in
    md_ph (sd m) = MDDone None /\ ml_ph (sl m) = MLDone (Some [47; 98]) /\ d <> [47; 98].
Proof. exact lazy_listener_agreement_refuted. Qed.
Print Assumptions C03_lazy_listener_agreement_refuted.

(* ---- layer 5: the message-based variant (webrtc_listener_negotiate / WebRtcDialerState) *)
(* header + proposal in one payload *)
Theorem C03_webrtc_listener_header_proposal :
  forall ls p b, wf_name p -> webrtc_encode (MProto p) true = Some b ->
  match l_find ls p with
  | Some i => exists reply, webrtc_encode (MProto p) true = Some reply /\
                            webrtc_listener ls b false = WLAccepted i reply
  | None => exists reply, webrtc_encode MNa true = Some reply /\
                          webrtc_listener ls b false = WLRejected reply
  end.
Proof. exact webrtc_listener_header_proposal. Qed.
Print Assumptions C03_webrtc_listener_header_proposal.

(* proposal after the header was exchanged *)
Theorem C03_webrtc_listener_proposal_after_header :
  forall ls p b, wf_name p -> webrtc_encode (MProto p) false = Some b ->
  match l_find ls p with
  | Some i => exists reply, webrtc_encode (MProto p) false = Some reply /\
                            webrtc_listener ls b true = WLAccepted i reply
  | None => exists reply, webrtc_encode MNa false = Some reply /\
                          webrtc_listener ls b true = WLRejected reply
  end.
Proof. exact webrtc_listener_proposal_after_header. Qed.
Print Assumptions C03_webrtc_listener_proposal_after_header.

(* header alone: echoed, the proposal is awaited *)
Theorem C03_webrtc_listener_header_alone :
  forall ls, webrtc_listener ls (uvi_enc (len MSG_HEADER) ++ MSG_HEADER) false =
             WLPendingProtocol (uvi_enc (len MSG_HEADER) ++ MSG_HEADER).
Proof. exact webrtc_listener_header_alone. Qed.
Print Assumptions C03_webrtc_listener_header_alone.

(* trailing bytes after the proposal are rejected *)
Theorem C03_webrtc_listener_trailing_rejected :
  forall ls p hdr b extra, wf_name p -> webrtc_encode (MProto p) (negb hdr) = Some b ->
  extra <> [] -> webrtc_listener ls (b ++ extra) hdr = WLErr 1.
Proof. exact webrtc_listener_trailing_rejected. Qed.
Print Assumptions C03_webrtc_listener_trailing_rejected.

(* the dialer's verdict does not depend on how the listener's bytes are grouped into payloads *)
Theorem C03_webrtc_dialer_grouping :
  forall p rest, rest <> [] ->
  let '(w1, r1) := webrtc_dialer_register (S (length hdr_part)) p false hdr_part in
  r1 = WDNotReady /\
  webrtc_dialer_register (S (length rest)) p w1 rest =
  webrtc_dialer_register (S (length (hdr_part ++ rest))) p false (hdr_part ++ rest).
Proof. exact webrtc_dialer_grouping. Qed.
Print Assumptions C03_webrtc_dialer_grouping.

(* a whole session (main name p, fallbacks fs in order, listener set ls): the dialer ends with
   the first of p :: fs that the listener supports, the listener accepted exactly that name
   (first position in its own list), names are proposed in order and none after acceptance *)
Theorem C03_webrtc_session_agreement :
  forall ls p fs, Forall wfw (p :: fs) ->
  let sup := ws_supported (tag_from 0 ls) in
  let r := webrtc_session ls p fs in
  ws_dialer r = find sup (p :: fs) /\
  ws_listener r = match find sup (p :: fs) with
                  | Some q => l_find (tag_from 0 ls) q
                  | None => None
                  end /\
  ws_proposed r = take_until sup (p :: fs).
Proof. exact webrtc_session_agreement. Qed.
Print Assumptions C03_webrtc_session_agreement.

(* ---- layer 5b: the grouping of the listener's frames into data-channel messages is irrelevant *)
(* A legal reply ([header echo +] `na` / confirmation of a valid name) delivered to the dialer
   under ANY grouping of its frames into messages (script gs: one frame per message, all in one,
   empty messages in between; excluded only: an empty message in front of the header echo):
   every register_response call but the last answers NotReady - the handshake state is carried
   from message to message -, and the last call ends in exactly the state and the verdict of the
   reply delivered as ONE message (= the concatenation). *)
Theorem C03_webrtc_grouping_irrelevant :
  forall cur (first : bool) v gs,
  legal_verdict v -> (first = true -> hd 1 gs <> 0) ->
  let msgs := group gs (reply_frames first v) in
  let whole := webrtc_dialer_register (S (length (concat (reply_frames first v)))) cur (negb first)
                                      (concat (reply_frames first v)) in
  wd_feed cur (negb first) msgs =
  (fst whole, repeat WDNotReady (length msgs - 1) ++ [snd whole]).
Proof. exact webrtc_grouping_irrelevant. Qed.
Print Assumptions C03_webrtc_grouping_irrelevant.

(* what that verdict is: Rejected on na, Succeeded on the confirmation of the current name *)
Theorem C03_webrtc_whole_reply_verdict :
  forall cur (first : bool) v, legal_verdict v ->
  webrtc_dialer_register (S (length (concat (reply_frames first v)))) cur (negb first)
                         (concat (reply_frames first v)) = (true, verdict_of cur v).
Proof. exact register_whole. Qed.
Print Assumptions C03_webrtc_whole_reply_verdict.

(* the whole session (real listener model, real dialer model, every reply split into its frames
   and regrouped by the case's scripts): for well-formed names and EVERY grouping the trace of the
   model is the ground-truth trace that the oracle of the session mode (Glue.ok4) demands: the
   listener accepts iff the proposed name is in its list (first position), the dialer then ends
   Succeeded with that very name after NotReady answers only, otherwise Rejected and the next
   fallback is proposed in order *)
Theorem C03_webrtc_grouped_session_spec :
  forall p fs ls gss,
  forallb Glue.wfw_b (p :: fs) = true -> Glue.clean4 gss = true ->
  Glue.propose_msg p true = Some (hdr_part ++ msg_part (MProto p)) /\
  [1; 0] ++ Glue.enc_bytes (hdr_part ++ msg_part (MProto p)) ++
    Glue.run4 (tag_from 0 ls) fs p (hdr_part ++ msg_part (MProto p)) false false gss =
  1 :: Glue.spec4_trace p fs ls gss.
Proof. exact webrtc_grouped_session_spec. Qed.
Print Assumptions C03_webrtc_grouped_session_spec.

(* hence the oracle accepts the model's session trace, and nothing else on that domain *)
Theorem C03_webrtc_session_oracle_accepts_model :
  forall p fs ls gss tb,
  forallb Glue.wfw_b (p :: fs) = true -> Glue.clean4 gss = true ->
  (match Glue.propose_msg p true with
   | Some m => [1; 0] ++ Glue.enc_bytes m ++ Glue.run4 (tag_from 0 ls) fs p m false false gss
   | None => [1; 1]
   end) = 1 :: tb ->
  Glue.ok4 p fs ls gss tb = true /\ tb = Glue.spec4_trace p fs ls gss.
Proof. exact webrtc_session_oracle_accepts_model. Qed.
Print Assumptions C03_webrtc_session_oracle_accepts_model.

(* ---- layer 6: fallback name -> main protocol (ProtocolSet::report_substream_open) *)
Theorem C03_fallback_reported_to_main :
  forall cfg m fs f, wf_cfg cfg -> In (m, fs) cfg -> In f fs -> report cfg f = Some (m, Some f).
Proof. exact Fallback.C03_fallback_reported_to_main. Qed.
Print Assumptions C03_fallback_reported_to_main.

Theorem C03_main_reported_as_main :
  forall cfg m, wf_cfg cfg -> In m (mains cfg) -> report cfg m = Some (m, None).
Proof. exact Fallback.C03_main_reported_as_main. Qed.
Print Assumptions C03_main_reported_as_main.

Theorem C03_unknown_not_supported :
  forall cfg n, ~ In n (mains cfg) -> ~ In n (fallbacks cfg) -> report cfg n = None.
Proof. exact Fallback.C03_unknown_not_supported. Qed.
Print Assumptions C03_unknown_not_supported.

(* every name offered for negotiation is reported under an installed main protocol, for ANY
   configuration *)
Theorem C03_offered_always_supported :
  forall cfg n, In n (offered cfg) ->
  exists m fb, report cfg n = Some (m, fb) /\ In m (mains cfg).
Proof. exact Fallback.C03_offered_always_supported. Qed.
Print Assumptions C03_offered_always_supported.

(* degenerate configurations (a fallback that is also a main name, a fallback declared by several
   mains): a report is still consistent with the declarations *)
Theorem C03_report_consistent :
  forall cfg n m fb, report cfg n = Some (m, fb) ->
  In m (mains cfg) /\
  match fb with
  | Some f => f = n /\ exists fs, In (m, fs) cfg /\ In n fs
  | None => m = n /\ ~ In n (fallbacks cfg)
  end.
Proof. exact Fallback.C03_report_consistent. Qed.
Print Assumptions C03_report_consistent.

(* for a well-formed configuration the hash-map iteration order (the order of the list) does not
   influence any report *)
Theorem C03_report_order_irrelevant :
  forall cfg cfg' n, wf_cfg cfg -> Permutation.Permutation cfg cfg' -> report cfg' n = report cfg n.
Proof. exact Fallback.C03_report_order_irrelevant. Qed.
Print Assumptions C03_report_order_irrelevant.

(* `protocol_codec` resolves a name to the same main protocol as `report_substream_open` *)
Theorem C03_codec_resolves_like_report :
  forall cfg n, resolve cfg n = option_map fst (report cfg n).
Proof. exact Fallback.C03_codec_resolves_like_report. Qed.
Print Assumptions C03_codec_resolves_like_report.

(* the trace oracle of the fallback mode is exact on well-formed configurations: the only report
   it accepts is the model's (so "accepted by the oracle" means "as the theorems above say") *)
Theorem C03_fallback_oracle_exact :
  forall cfg n r, wf_cfg cfg -> ok_rep cfg n r = true -> r = report cfg n.
Proof. exact Fallback.C03_ok_rep_exact. Qed.
Print Assumptions C03_fallback_oracle_exact.

(* ... and it accepts the model's own trace on EVERY input (all pools, configurations - degenerate
   and ill-formed ones included -, report lists): trace parser vs. trace encoder, canonical pool
   indices, per-report checks, the table rows of `protocols_with_keep_alives` and the coverage
   check. A rejected implementation trace is therefore never a quirk of the oracle's wire layer. *)
Theorem C03_fallback_oracle_accepts_model :
  forall case : list N, ok_fallback case (run_fallback case) = true.
Proof. exact Fallback.ok_fallback_accepts_model. Qed.
Print Assumptions C03_fallback_oracle_accepts_model.

(* ---- layer 7: the transports' timeout wrapper around a negotiation (`negotiate_protocol` of
   src/transport/{tcp,websocket}/connection.rs: tokio::time::timeout around the select future).
   Timed.v puts a clock, one deadline per side (fixed at the side's first poll) and the abort
   (result Timeout, stream dropped = outbound pipe closed mid-frame or not) on top of the
   byte-level system; events are polls of either side and clock ticks in any order. *)

(* the peer of a dropped stream: one poll of ANY task on an inbound pipe that the peer has closed
   does what the same poll does on the pipe as it was, or the task has seen the end of the stream
   and is finished: with a failure, or - it was reading application data - delivering what it had
   read with a clean EOF, or - it was still expecting an optimistic confirmation - with a read
   error; in the last two cases it keeps the result it had. It never invents a success. *)
Theorem C03_timeout_peer_poll :
  forall fuel t pin pout t1 pi1 po1,
  t_poll fuel t pin pout = (t1, pi1, po1) ->
  exists t1' pi1' po1', t_poll fuel t (pipe_close pin) pout = (t1', pi1', po1') /\
    ((t1' = t1 /\ pi1' = pipe_close pi1 /\ po1' = po1) \/
     (t_ph t1' = TDone /\
      (fst (t_res t1') <> 0 \/
       (t_res t1' = t_res t1 /\
        exists acc, t_ph t1 = TRead NCompleted acc /\ t_got t1' = acc /\ t_end t1' = 0) \/
       (t_res t1' = t_res t1 /\ t_end t1' <> 0 /\
        exists g acc, t_ph t1 = TRead g acc /\ g <> NCompleted)))).
Proof. exact t_poll_closed. Qed.
Print Assumptions C03_timeout_peer_poll.

(* SAFETY under timeouts: for all timeouts and every interleaving of polls and clock ticks, a side
   that reports success reports the dialer's first supported name with its exact index - a timer
   firing at any point of the negotiation (mid-frame included) never makes either side settle on
   a wrong protocol *)
Theorem C03_timeout_dialer_result :
  forall c to_d to_l es, wf_case c ->
  forall i, t_res (s_d (ts_sys (trun to_d to_l es (tinit c)))) = (0, i) ->
  exists p, first_common (c_ds c) (c_ls c) = Some p /\ first_at (c_ds c) (c_ls c) i p.
Proof. exact timed_dialer_result. Qed.
Print Assumptions C03_timeout_dialer_result.

Theorem C03_timeout_listener_result :
  forall c to_d to_l es, wf_case c ->
  forall j, t_res (s_l (ts_sys (trun to_d to_l es (tinit c)))) = (0, j) ->
  exists p, first_common (c_ds c) (c_ls c) = Some p /\ lidx 0 (c_ls c) p = Some j.
Proof. exact timed_listener_result. Qed.
Print Assumptions C03_timeout_listener_result.

(* when both sides report success no timer has interfered: the timed run IS a plain run, so
   C03_bytes_transparent and the hand-over theorems apply to it verbatim *)
Theorem C03_timeout_both_ok_plain :
  forall c to_d to_l es,
  let sa := ts_sys (trun to_d to_l es (tinit c)) in
  fst (t_res (s_d sa)) = 0 -> fst (t_res (s_l sa)) = 0 ->
  exists who, sa = polls who (sys_init c).
Proof. exact timed_both_ok_plain. Qed.
Print Assumptions C03_timeout_both_ok_plain.

(* the inherent one-sided case (the listener has accepted, the dialer's timer fires before it reads
   the confirmation; C03_timeout_example): the listener's stream then delivers NOTHING - no
   negotiation byte ever reaches the application as data - and ends with a clean EOF. For all
   timeouts and interleavings. *)
Theorem C03_timeout_survivor_clean :
  forall c, wf_case c -> forall to_d to_l es,
  let sa := ts_sys (trun to_d to_l es (tinit c)) in
  t_done (s_d sa) = true -> t_done (s_l sa) = true ->
  fst (t_res (s_d sa)) <> 0 -> fst (t_res (s_l sa)) = 0 ->
  t_got (s_l sa) = [] /\ t_end (s_l sa) = 0.
Proof. exact timed_survivor_clean. Qed.
Print Assumptions C03_timeout_survivor_clean.

(* TERMINATION under timeouts: any timeouts, every fair timed schedule (K blocks each polling both
   sides, ticks anywhere): both tasks finish; a fired timer strictly lowers the potential and the
   peer of an aborted side cannot block on the closed pipe *)
Theorem C03_timeout_terminates :
  forall c to_d to_l, wf_case c -> forall K es,
  tfair K es -> Phi (sys_init c) < N.of_nat K ->
  let sa := ts_sys (trun to_d to_l es (tinit c)) in
  t_done (s_d sa) = true /\ t_done (s_l sa) = true.
Proof. exact timed_terminate. Qed.
Print Assumptions C03_timeout_terminates.

(* while the clock has not reached the timeouts the wrapper is invisible: the timed run equals
   the plain run of the same polls (so layers 3-4 are theorems about `negotiate_protocol`) *)
Theorem C03_timeout_no_fire :
  forall c to_d to_l es, nticks es < to_d -> nticks es < to_l ->
  ts_sys (trun to_d to_l es (tinit c)) = polls (polls_of es) (sys_init c).
Proof. exact timed_no_fire. Qed.
Print Assumptions C03_timeout_no_fire.

(* the scheduler the harness uses for the timed mode, under any timeouts *)
Theorem C03_timeout_run_correct :
  forall c to_d to_l fuel S st, wf_case c ->
  run_tsys to_d to_l fuel (c_sched c) false 0 (tinit c) = (S, st) ->
  let s := ts_sys S in
  (forall i, t_res (s_d s) = (0, i) ->
     exists p, first_common (c_ds c) (c_ls c) = Some p /\ first_at (c_ds c) (c_ls c) i p) /\
  (forall j, t_res (s_l s) = (0, j) ->
     exists p, first_common (c_ds c) (c_ls c) = Some p /\ lidx 0 (c_ls c) p = Some j) /\
  (st = 0 -> fst (t_res (s_d s)) = 0 -> fst (t_res (s_l s)) = 0 ->
     t_got (s_l s) = c_dpay c /\ t_got (s_d s) = c_lpay c /\
     t_end (s_d s) = 0 /\ t_end (s_l s) = 0 /\ p_buf (s_dl s) = [] /\ p_buf (s_ld s) = []).
Proof. exact timed_run_correct. Qed.
Print Assumptions C03_timeout_run_correct.

(* ---- layer 8: the `Negotiated` stream of the optimistic dialer as an I/O object, byte level,
   every fragmentation (NegOps.v, LazyBytes.v) *)

(* one Negotiated::poll from any point of the expectation, inbound stream `header frame ++ answer
   frame ++ tail` with any part of it available, any scripts: the buffered header and proposal
   are written first; the poll stays inside the two frames, or has consumed EXACTLY them and gives
   the verdict (Completed iff the answer confirms the proposed name; the stream is left failed
   otherwise), or the carrier was closed before the answer was complete. `tail` is never touched. *)
Theorem C03_lazy_expect_exact :
  forall p m tail, okmsg m ->
  forall fuel st wbuf hdr pre pin pout g' pin' pout' r,
  ExpAt m hdr st pre ->
  (exists fut, pre ++ p_buf pin ++ fut = fr MHeader ++ fr m ++ tail) ->
  neg_poll fuel (NExpecting st wbuf p hdr) pin pout = (g', pin', pout', r) ->
  exists consumed written w',
    p_buf pin = consumed ++ p_buf pin' /\ wbuf = written ++ w' /\ p_buf pout' = p_buf pout ++ written /\
    match r with
    | PPending => exists st' hdr', g' = NExpecting st' w' p hdr' /\ ExpAt m hdr' st' (pre ++ consumed)
    | _ =>
        (w' = [] /\ pre ++ consumed = fr MHeader ++ fr m /\ r = verdict p m /\ g' = after_verdict r) \/
        (r = PErr C_IO_EOF /\ p_closed pin = true /\ p_buf pin' = [] /\ g' = NInvalid)
    end.
Proof. exact lazy_expect_exact. Qed.
Print Assumptions C03_lazy_expect_exact.

(* poll_read on the expecting stream: the read that completes the negotiation returns the first
   bytes of `tail` unchanged (everything consumed is the two frames plus exactly those bytes); a
   failed expectation is reported by that read, the stream is failed, its outbound side closed *)
Theorem C03_lazy_read_exact :
  forall p m tail k, okmsg m -> 1 <= k ->
  forall st wbuf hdr pre pin pout g' pin' pout' r,
  ExpAt m hdr st pre ->
  (exists fut, pre ++ p_buf pin ++ fut = fr MHeader ++ fr m ++ tail) ->
  op_read 2 k (NExpecting st wbuf p hdr) pin pout = (g', pin', pout', r) ->
  exists consumed, p_buf pin = consumed ++ p_buf pin' /\
  match r with
  | OData bs =>
      verdict p m = POk /\ g' = NCompleted /\ pre ++ consumed = fr MHeader ++ fr m ++ bs /\
      p_buf pout' = p_buf pout ++ wbuf /\ (bs = [] -> p_buf pin' = [] /\ p_closed pin = true)
  | OErr c =>
      g' = NInvalid /\ p_closed pout' = true /\
      ((exists c0, verdict p m = PErr c0 /\ c = io_code c0 /\ pre ++ consumed = fr MHeader ++ fr m) \/
       (c = C_IO_EOF /\ p_closed pin = true /\ p_buf pin' = []))
  | OPending => exists z, pre ++ consumed ++ z = fr MHeader ++ fr m
  | ODone _ => False
  end.
Proof. exact lazy_read_exact. Qed.
Print Assumptions C03_lazy_read_exact.

(* poll_write / poll_flush / poll_close on the expecting stream: header and proposal go out first,
   in order; application bytes are accepted only once that buffer is empty and follow it on the
   wire; the inbound direction and the expectation are not touched *)
Theorem C03_lazy_write_exact :
  forall op st wbuf p hdr pin pout g' pin' pout' r,
  (match op with OpRead _ => False | OpWrite d => d <> [] | _ => True end) ->
  op_poll op (NExpecting st wbuf p hdr) pin pout = (g', pin', pout', r) ->
  exists written w' app,
    pin' = pin /\ g' = NExpecting st w' p hdr /\ wbuf = written ++ w' /\
    p_buf pout' = p_buf pout ++ written ++ app /\ (app <> [] -> w' = []) /\
    match r with
    | OPending => app = []
    | ODone n =>
        w' = [] /\
        match op with
        | OpWrite d => app = firstn (N.to_nat n) d /\ 1 <= n
        | OpClose => app = [] /\ p_closed pout' = true
        | _ => app = []
        end
    | _ => False
    end.
Proof. exact lazy_write_exact. Qed.
Print Assumptions C03_lazy_write_exact.

(* after a failed expectation every operation reports an error (before the repair of this tree:
   a panic), nothing is read, nothing is written *)
Theorem C03_negotiated_failed_sticky :
  forall op pin pout,
  exists pout', op_poll op NInvalid pin pout = (NInvalid, pin, pout', OErr NEG_GONE) /\
                p_buf pout' = p_buf pout /\ p_total pout' = p_total pout.
Proof. exact neg_failed_sticky. Qed.
Print Assumptions C03_negotiated_failed_sticky.

(* ---- layer 9: a substream opened with fallback names, end to end in the model: the dialer
   negotiates `main :: fallbacks` (open_substream), the listener the names its ProtocolSet offers
   (accept_substream), both report through report_substream_open - under any timeouts *)
Theorem C03_substream_fallback_agreement :
  forall c to_d to_l es cfgD cfgL p fs,
  wf_case c -> c_ds c = p :: fs ->
  wf_cfg cfgD -> In (p, fs) cfgD ->
  (forall n, In n (c_ls c) <-> In n (offered cfgL)) ->
  forall i, t_res (s_d (ts_sys (trun to_d to_l es (tinit c)))) = (0, i) ->
  exists n,
    nth_error (p :: fs) (N.to_nat i) = Some n /\
    first_common (p :: fs) (c_ls c) = Some n /\
    (forall k q, (k < N.to_nat i)%nat -> nth_error (p :: fs) k = Some q -> ~ In q (offered cfgL)) /\
    report cfgD n = Some (p, if i =? 0 then None else Some n) /\
    exists m fb, report cfgL n = Some (m, fb) /\ In m (mains cfgL).
Proof. exact substream_fallback_agreement. Qed.
Print Assumptions C03_substream_fallback_agreement.

Theorem C03_substream_fallback_listener :
  forall c to_d to_l es cfgL,
  wf_case c -> (forall n, In n (c_ls c) <-> In n (offered cfgL)) ->
  forall j, t_res (s_l (ts_sys (trun to_d to_l es (tinit c)))) = (0, j) ->
  exists n, first_common (c_ds c) (c_ls c) = Some n /\ nth_error (c_ls c) (N.to_nat j) = Some n /\
    exists m fb, report cfgL n = Some (m, fb) /\ In m (mains cfgL) /\
      (wf_cfg cfgL -> report cfgL n = spec cfgL n).
Proof. exact substream_fallback_listener. Qed.
Print Assumptions C03_substream_fallback_listener.

(* the end-to-end mode (two real nodes, request-response protocols with fallback names; Sub.v): its
   trace oracle - "the name in use is the most preferred of main :: fallbacks that the listener
   offers, delivered to the protocol and with the fallback that Fallback.spec names" - accepts the
   model's trace on EVERY input *)
Theorem C03_sub_oracle_accepts_model :
  forall case : list N, ok_sub case (run_sub case) = true.
Proof. exact sub_oracle_accepts_model. Qed.
Print Assumptions C03_sub_oracle_accepts_model.

(* ---- layer 10: litep2p's futures against ANY peer that holds a legal multistream-select
   conversation - the reference implementation (rust-libp2p's multistream-select) in particular -,
   not only against the model's own other half (Peer.v, PeerTie.v). The peer is the environment:
   its bytes are the header frame, frames satisfying the inductive predicates LegalL (a listener's
   answers) / LegalD (a dialer's proposals) and, once a name is agreed, arbitrary application bytes;
   they arrive ONE BYTE AT A TIME at arbitrary moments between the polls of the litep2p task (evs),
   under any read / write scripts of the carrier; the peer's end closes after its last byte.

   The dialer task (V1, names valid and fitting a frame): a reported success carries the exact
   index of the first name the peer supports and that is the name the peer confirmed; at every
   moment the application bytes already read ++ those in the pipe ++ those still to come are exactly
   the peer's payload (none consumed by the negotiation, none lost); when done: clean EOF,
   everything received, and what the task put on the wire is the header, its proposals up to that
   name and its own payload, nothing else. A reported failure means the peer supports none. *)
Theorem C03_peer_dialer_vs_any_legal_listener :
  forall (ds : list name) (S : name -> bool) (rs : list msg) (r : option name)
         (pay dpay : bytes) (rsc wsc : list N) (evs : list eev),
    Forall wfn ds -> LegalL S ds rs r ->
    let s := erun evs (einit (d_task ds dpay) rsc wsc (FR (MHeader :: rs) ++ opt_pay r pay)) in
    (forall i, t_res (e_t s) = (0, i) ->
       exists p, first_supported ds S i p /\ r = Some p /\
         t_read (e_t s) ++ p_buf (e_in s) ++ e_rem s = pay /\
         (t_done (e_t s) = true ->
            t_end (e_t s) = 0 /\ t_got (e_t s) = pay /\ p_buf (e_in s) = [] /\ e_rem s = [] /\
            p_closed (e_out s) = true /\
            p_buf (e_out s) = FR (MHeader :: map MProto (firstn (N.to_nat i + 1) ds)) ++ dpay)) /\
    (forall code i, t_res (e_t s) = (code, i) -> code <> 0 -> code <> 99 ->
       r = None /\ Forall (unsupS S) ds).
Proof. exact dialer_vs_any_legal_listener. Qed.
Print Assumptions C03_peer_dialer_vs_any_legal_listener.

(* The listener task, supporting ls, against any legal dialer (ps = its proposals; `silent` = the
   peer closes without a word, as a dialer with no name does): a reported success carries the index
   of the listener's first entry equal to the accepted proposal, which is the peer's last one, the
   earlier ones being unsupported; transparency as above; its wire is the header, one `na` per
   rejected proposal, the confirmation, then its payload. A reported failure means nothing was
   agreed. *)
Theorem C03_peer_listener_vs_any_legal_dialer :
  forall (ls ps : list name) (r : option name) (silent : bool)
         (pay lpay : bytes) (rsc wsc : list N) (evs : list eev),
    Forall wfn ps -> LegalD (supported ls) ps r -> (silent = true -> ps = []) ->
    let s := erun evs (einit (l_task ls lpay) rsc wsc
                         (FR (if silent then [] else MHeader :: map MProto ps) ++ opt_pay r pay)) in
    (forall j, t_res (e_t s) = (0, j) ->
       exists n, accepted ls ps j n /\ r = Some n /\
         t_read (e_t s) ++ p_buf (e_in s) ++ e_rem s = pay /\
         (t_done (e_t s) = true ->
            t_end (e_t s) = 0 /\ t_got (e_t s) = pay /\ p_buf (e_in s) = [] /\ e_rem s = [] /\
            p_closed (e_out s) = true /\
            exists pre, ps = pre ++ [n] /\
              p_buf (e_out s) = FR (MHeader :: nas pre ++ [MProto n]) ++ lpay)) /\
    (forall code j, t_res (e_t s) = (code, j) -> code <> 0 -> code <> 99 -> r = None).
Proof. exact listener_vs_any_legal_dialer. Qed.
Print Assumptions C03_peer_listener_vs_any_legal_dialer.

(* Both tasks terminate against ANY byte stream, legal or not, that the peer finishes and closes:
   K rounds of events, each containing a poll, a delivery and a close attempt, suffice as soon as K
   exceeds the initial potential (Live.v's potential plus the bytes still to be delivered). *)
Theorem C03_peer_dialer_terminates :
  forall (ds : list name) (dpay : bytes) (rsc wsc : list N) (stream : bytes) (K : nat) (evs : list eev),
    let s0 := einit (d_task ds dpay) rsc wsc stream in
    fairE K evs -> PhiD s0 < N.of_nat K -> t_done (e_t (erun evs s0)) = true.
Proof. exact dialer_vs_any_peer_terminates. Qed.
Print Assumptions C03_peer_dialer_terminates.

Theorem C03_peer_listener_terminates :
  forall (ls : list name) (lpay : bytes) (rsc wsc : list N) (stream : bytes) (K : nat) (evs : list eev),
    let s0 := einit (l_task ls lpay) rsc wsc stream in
    fairE K evs -> PhiL s0 < N.of_nat K -> t_done (e_t (erun evs s0)) = true.
Proof. exact listener_vs_any_peer_terminates. Qed.
Print Assumptions C03_peer_listener_terminates.

(* delivering k bytes at once is k single-byte deliveries: every grouping is covered *)
Theorem C03_peer_deliveries_are_bytes :
  forall (k : nat) (s : esys), (k <= length (e_rem s))%nat ->
    erun (repeat EvByte k) s = push_k s k.
Proof. exact push_k_bytes. Qed.
Print Assumptions C03_peer_deliveries_are_bytes.

(* what litep2p's tasks put on the wire when they succeed is itself a legal conversation with the
   same verdict: any peer that is correct on legal conversations settles on the same name *)
Theorem C03_peer_own_wire_legal :
  (forall ds S i p, first_supported ds S i p -> LegalD S (firstn (N.to_nat i + 1) ds) (Some p)) /\
  (forall ls ps j n, accepted ls ps j n ->
     exists pre, ps = pre ++ [n] /\ LegalL (supported ls) ps (nas pre ++ [MProto n]) (Some n)).
Proof. split; [exact first_supported_LegalD | exact accepted_LegalL]. Qed.
Print Assumptions C03_peer_own_wire_legal.

(* TIE to the differential stream against the reference implementation (mode 9 of Glue.v). The
   trace oracle ok9 demands that the bytes each end put on the wire equal Glue.legal_dialer_wire /
   Glue.legal_listener_wire of the case; these ARE legal conversations for the case's two lists,
   with the verdict of the property text. *)
Theorem C03_peer_oracle_wire_legal :
  forall c : ncase, c_ds c <> [] ->
    let S := supported (c_ls c) in
    let r := agreed S (c_ds c) in
    r = first_common (c_ds c) (c_ls c) /\
    exists ps, LegalD S ps r /\ (exists rest, c_ds c = ps ++ rest) /\
      LegalL S (c_ds c) (resp S (c_ds c)) r /\
      Glue.legal_dialer_wire c = FR (MHeader :: map MProto ps) ++ opt_pay r (c_dpay c) /\
      Glue.legal_listener_wire c = FR (MHeader :: resp S (c_ds c)) ++ opt_pay r (c_lpay c).
Proof. exact oracle_wire_legal. Qed.
Print Assumptions C03_peer_oracle_wire_legal.

(* Hence: fed with the bytes that a trace accepted by ok9 shows the REFERENCE dialer to have sent,
   litep2p's listener task reports - under every delivery order, chunking and Pending injection -
   the dialer's first supported name at the index of its first matching entry, and hands over
   exactly the dialer's payload; symmetrically for litep2p's dialer task and the reference
   listener's bytes (index as computed by the oracle's find_idx). *)
Theorem C03_peer_reference_dialer_wire_vs_listener :
  forall (c : ncase) (rsc wsc : list N) (evs : list eev), c_ds c <> [] -> Forall wfn (c_ds c) ->
    let s := erun evs (einit (l_task (c_ls c) (c_lpay c)) rsc wsc (Glue.legal_dialer_wire c)) in
    (forall j, t_res (e_t s) = (0, j) ->
       exists n, first_common (c_ds c) (c_ls c) = Some n /\ lidx 0 (c_ls c) n = Some j /\
         t_read (e_t s) ++ p_buf (e_in s) ++ e_rem s = c_dpay c /\
         (t_done (e_t s) = true -> t_end (e_t s) = 0 /\ t_got (e_t s) = c_dpay c /\
            p_buf (e_in s) = [] /\ e_rem s = [])) /\
    (forall code j, t_res (e_t s) = (code, j) -> code <> 0 -> code <> 99 ->
       first_common (c_ds c) (c_ls c) = None).
Proof. exact reference_dialer_wire_vs_listener. Qed.
Print Assumptions C03_peer_reference_dialer_wire_vs_listener.

Theorem C03_peer_reference_listener_wire_vs_dialer :
  forall (c : ncase) (rsc wsc : list N) (evs : list eev), c_ds c <> [] -> Forall wfn (c_ds c) ->
    let s := erun evs (einit (d_task (c_ds c) (c_dpay c)) rsc wsc (Glue.legal_listener_wire c)) in
    (forall i, t_res (e_t s) = (0, i) ->
       exists p, first_common (c_ds c) (c_ls c) = Some p /\
         Glue.find_idx (Glue.supported_b (c_ls c)) (c_ds c) 0 = Some (i, p) /\
         t_read (e_t s) ++ p_buf (e_in s) ++ e_rem s = c_lpay c /\
         (t_done (e_t s) = true -> t_end (e_t s) = 0 /\ t_got (e_t s) = c_lpay c /\
            p_buf (e_in s) = [] /\ e_rem s = [])) /\
    (forall code i, t_res (e_t s) = (code, i) -> code <> 0 -> code <> 99 ->
       first_common (c_ds c) (c_ls c) = None).
Proof. exact reference_listener_wire_vs_dialer. Qed.
Print Assumptions C03_peer_reference_listener_wire_vs_dialer.

(* Where the reference and litep2p legitimately differ (RefDiff.v), stated explicitly: (1) the
   reference's dialer accepts the header line any number of times, litep2p's once - the two
   reactions differ on a SECOND header only, and against every legal listener (invariant RD of
   Peer.v, which holds along every run of the dialer and its environment) the reference's dialer
   takes exactly the step litep2p's takes; a legal listener's answers contain no header line. *)
Theorem C03_ref_header_difference :
  (forall p hr m, d_react p hr m <> d_react_ref p m -> hr = true /\ m = MHeader) /\
  (forall ds S m, RD ds S m -> mstep_d_ref m = mstep_d m) /\
  (forall S ps rs r, LegalL S ps rs r -> ~ In MHeader rs).
Proof. split; [exact d_react_ref_diff | split; [exact ref_dialer_same_steps | exact legal_answers_no_header]]. Qed.
Print Assumptions C03_ref_header_difference.

(* (2) the reference's names are text (`String::from_utf8`, otherwise InvalidProtocol), litep2p's
   are byte strings: the two decoders agree on every name line whose name is valid UTF-8 - the
   domain of the differential stream -, and every piece of an ASCII payload is text *)
Theorem C03_ref_name_difference :
  (forall p, text_name p = true ->
     decode_line_ref (encode_msg (MProto p)) = decode_msg (encode_msg (MProto p))) /\
  (forall a b c : bytes, forallb (fun x => x <? 128) (a ++ b ++ c) = true -> text_name b = true).
Proof.
  split; [exact ref_decode_same_on_text|].
  intros a b c H. apply ascii_is_text. exact (ascii_piece a b c H).
Qed.
Print Assumptions C03_ref_name_difference.

(* ---- non-vacuity of layer 10. A peer that supports only "/b" against the dialer of ["/a"; "/b"]:
   it answers header, na, confirmation of "/b" and sends "hi"; its bytes arrive one at a time with
   polls in between (the carrier also injects a Pending and one-byte reads), then the close. The
   dialer ends on index 1 with "hi" received and a clean EOF; its wire is the legal dialer
   conversation followed by its payload. And a dialer peer proposing "/x", "/b" to the listener of
   ["/b"; "/c"], everything delivered before the first poll. *)
Example C03_peer_example :
  let a := [47; 97] in let b := [47; 98] in let x := [47; 120] in
  let S := fun p : name => name_eqb p b in
  let rounds := flat_map (fun _ : nat => [EvByte; EvPoll]) (seq 0 40) ++ [EvClose; EvPoll; EvPoll] in
  let s := erun rounds (einit (d_task [a; b] [1; 2; 3]) [1; 0; 1; 1] [2; 0]
                          (FR (MHeader :: resp S [a; b]) ++ opt_pay (agreed S [a; b]) [104; 105])) in
  LegalL S [a; b] [MNa; MProto b] (Some b) /\
  t_res (e_t s) = (0, 1) /\ t_done (e_t s) = true /\ t_got (e_t s) = [104; 105] /\ t_end (e_t s) = 0 /\
  p_buf (e_out s) = FR [MHeader; MProto a; MProto b] ++ [1; 2; 3] /\
  let evs2 := repeat EvByte 60 ++ [EvClose; EvPoll; EvPoll; EvPoll] in
  let s2 := erun evs2 (einit (l_task [b; [47; 99]] [9]) [] []
                          (FR (MHeader :: map MProto [x; b]) ++ [7; 7])) in
  LegalD (supported [b; [47; 99]]) [x; b] (Some b) /\
  t_res (e_t s2) = (0, 0) /\ t_done (e_t s2) = true /\ t_got (e_t s2) = [7; 7] /\
  p_buf (e_out s2) = FR [MHeader; MNa; MProto b] ++ [9].
Proof.
  cbv zeta. split; [apply LL_na; [reflexivity | apply LL_ok; reflexivity]|].
  split; [vm_compute; reflexivity|]. split; [vm_compute; reflexivity|]. split; [vm_compute; reflexivity|].
  split; [vm_compute; reflexivity|]. split; [vm_compute; reflexivity|].
  split; [apply LD_rej; [reflexivity | apply LD_acc; reflexivity]|].
  split; [vm_compute; reflexivity|]. split; [vm_compute; reflexivity|]. split; vm_compute; reflexivity.
Qed.

(* ---- non-vacuity of layer 7: the dialer's timer (1 tick) fires while the listener's confirmation
   is in flight (the carrier injects one Pending): the listener has accepted "/a" (index 0), the
   dialer reports Timeout (9) and has dropped its stream; the listener then reads a clean EOF and
   not a single byte - the inherent case in which only ONE side can report the protocol. *)
Example C03_timeout_example :
  let a := [47; 97] in
  let c := mkCase [a] [a] false [0; 1; 2; 0] [] [] [0] [] [104; 105] [119] in
  let '(T, status) := run_tsys 1 100 500 (c_sched c) false 0 (tinit c) in
  status = 0 /\ t_res (s_d (ts_sys T)) = (C_TIMEOUT, 0) /\ t_res (s_l (ts_sys T)) = (0, 0) /\
  t_got (s_l (ts_sys T)) = [] /\ t_end (s_l (ts_sys T)) = 0 /\ p_closed (s_dl (ts_sys T)) = true.
Proof. vm_compute. repeat split; reflexivity. Qed.

(* ---- non-vacuity of layer 8: the optimistic dialer of "/a"; the listener answers header,
   confirmation and "hello". A write of 3 bytes (carrier: 3 bytes, Pending, rest), reads of 3 and
   64, close, read: the wire carries header, proposal, then 1 2 3; the reads return "hel", "lo",
   then EOF; final state Completed. And a rejected one: the first read fails, close and write
   report errors (state failed, outbound closed). *)
Example C03_lazy_stream_example :
  let a := [47; 97] in
  run_session true [a] [1; 1; 0; 5] [3; 0]
    (frame MSG_HEADER ++ frame (a ++ [NL]) ++ [104; 101; 108; 108; 111])
    [OpWrite [1; 2; 3]; OpRead 3; OpRead 64; OpClose; OpRead 1] =
  [1; 0; 0; 0] ++ [1; 1; 2; 3] ++ [0; 1; 1; 3; 104; 101; 108] ++ [0; 0; 1; 2; 108; 111] ++
  [3; 0; 2; 0] ++ [0; 0; 1; 0] ++
  [0; 1; 27] ++ frame MSG_HEADER ++ frame (a ++ [NL]) ++ [1; 2; 3] ++ [0] /\
  run_session true [a] [] [] (frame MSG_HEADER ++ frame MSG_NA ++ [104; 101])
    [OpRead 3; OpClose; OpWrite [1]] =
  [1; 0; 0; 0] ++ [0; 0; 3; 1] ++ [3; 0; 3; 1] ++ [1; 0; 3; 1] ++
  [2; 1; 24] ++ frame MSG_HEADER ++ frame (a ++ [NL]) ++ [2; 104; 101].
Proof. vm_compute. split; reflexivity. Qed.

(* ---- non-vacuity: the byte-level system on a concrete case, one byte per read and write,
   Pending injections, listener polled first: agreement on "/b" (dialer index 1, listener index
   0) and both payloads delivered unchanged with nothing left in the pipes. *)
Example C03_bytelevel_example :
  let a := [47; 97] in let b := [47; 98] in
  let c := mkCase [a; b] [b] false [1; 1; 0; 0; 0; 1]
             [1; 0; 1; 1; 0; 1; 1; 1; 1; 1; 1; 1; 1; 1; 1; 1; 1; 1; 1; 1; 1; 1; 1; 1; 1; 1; 1; 1; 1; 1]
             [1; 1; 0; 1; 1; 1; 1; 1; 1; 1; 1; 1; 1; 1; 1; 1; 1; 1; 1; 1; 1; 1; 1; 1; 1; 1; 1; 1; 1; 1]
             [2; 0; 3] [0; 5]
             [3; 47; 98; 10; 104; 105] [119] in
  let '(s, status) := run_sys 500 (c_sched c) false 0 (sys_init c) in
  status = 0 /\ t_res (s_d s) = (0, 1) /\ t_res (s_l s) = (0, 0) /\
  t_got (s_l s) = [3; 47; 98; 10; 104; 105] /\ t_got (s_d s) = [119] /\
  p_buf (s_dl s) = [] /\ p_buf (s_ld s) = [].
Proof. vm_compute. repeat split; reflexivity. Qed.

(* ---- the same pitfall on the byte-level model (V1Lazy is not used by litep2p's transports). The dialer settles on "/a" which the listener does not support; its
   first application bytes look like a proposal of "/b": the listener accepts "/b", the dialer
   learns of the failure (error 1 = Failed) on its first read. So for V1Lazy only the dialer
   half of agreement is claimed (see prop_ok in Glue.v). *)
Example C03_lazy_pitfall :
  let a := [47; 97] in let b := [47; 98] in
  let c := mkCase [a] [b] true [] [] [] [] [] [3; 47; 98; 10] [] in
  let '(s, status) := run_sys 500 (c_sched c) false 0 (sys_init c) in
  status = 0 /\ t_res (s_d s) = (0, 0) /\ t_end (s_d s) = 1 /\ t_res (s_l s) = (0, 0).
Proof. vm_compute. repeat split; reflexivity. Qed.
