(* C03 — pinned property theorems. Statements, `exact`, Print Assumptions and non-vacuity
   Examples only. The pins in tools/pins/C03.v re-check the statements.

   How the pieces compose (the composition itself is an argument, not a Coq theorem — see
   level_note in tools/props.py): the codec theorems say a well-formed message survives
   encode/decode; C03_writer_exact and C03_frame_exact say that for EVERY write script and
   EVERY read script (chunk limits, Pending injections, partial availability) the byte carrier
   delivers each frame unchanged and the reader consumes exactly the frame and not one byte
   more; hence the byte-level machines of Model.v (which are what is diffed against the Rust
   code) behave as the message-level system of Msg.v, for which agreement, termination and a
   clean hand-over are proved for all dialer lists, all listener sets and all schedules. *)
From Coq Require Import List NArith Bool.
From V.gen Require Consts.
From V.C03 Require Import Model Msg Proofs MsgRef MsgProofs.
Import ListNotations.
Open Scope N_scope.

(* ---- layer 1: Message codec *)
Theorem C03_codec_roundtrip :
  forall m, wf_msg m -> decode_msg (encode_msg m) = DOk m.
Proof. exact codec_roundtrip. Qed.
Print Assumptions C03_codec_roundtrip.

Theorem C03_codec_injective :
  forall m1 m2, wf_msg m1 -> wf_msg m2 -> encode_msg m1 = encode_msg m2 -> m1 = m2.
Proof. exact codec_injective. Qed.
Print Assumptions C03_codec_injective.

(* ---- layer 2: LengthDelimited framing, every fragmentation *)
(* One poll_next of the reader, from any point inside a frame (pre = bytes of the frame already
   consumed), with any amount of the stream `frame body ++ tail` available on the carrier and
   any read script: it either stays inside the frame, or yields exactly `body` having consumed
   exactly `frame body` (so `tail` — the application data — is untouched), or reports EOF
   because the carrier was closed mid-frame. It never yields a wrong frame or an error on a
   well-formed stream. *)
Theorem C03_frame_exact :
  forall body tail, len body <= MAX_FRAME ->
  forall fuel st p pre st' p' r,
  InFrame body st pre -> agrees body tail pre (p_buf p) ->
  rd_poll fuel st p = (st', p', r) ->
  exists consumed,
    p_buf p = consumed ++ p_buf p' /\ p_closed p' = p_closed p /\
    match r with
    | FPending => InFrame body st' (pre ++ consumed)
    | FFrame b => b = body /\ pre ++ consumed = frame body /\ st' = rd_init
    | FErr e => e = IoUnexpectedEof /\ p_closed p = true /\ p_buf p' = [] /\ pre ++ consumed <> []
    | FNone => pre = [] /\ consumed = [] /\ p_buf p = [] /\ p_closed p = true
    end.
Proof. exact frame_exact_poll. Qed.
Print Assumptions C03_frame_exact.

(* Writer side: under any write script the carrier receives a prefix of the write buffer, in
   order, nothing lost or duplicated; when the flush reports completion the buffer is empty
   (this is the `into_inner` assertion on write_buffer). *)
Theorem C03_writer_exact :
  forall fuel wbuf p w' p' ok,
  wr_drain fuel wbuf p = (w', p', ok) ->
  exists written, wbuf = written ++ w' /\ p_buf p' = p_buf p ++ written /\
                  p_total p' = p_total p ++ written /\ p_closed p' = p_closed p /\
                  p_rscript p' = p_rscript p /\ (ok = true -> w' = []).
Proof. exact wr_drain_spec. Qed.
Print Assumptions C03_writer_exact.

(* ---- layer 3: negotiation, all dialer lists, all listener sets, all schedules *)
(* Whatever the schedule, a result reported by the dialer is the dialer's most preferred name
   that the listener supports (None = failure). *)
Theorem C03_agreement_dialer :
  forall ds ls sched r, wfd ds ->
  d_result (mrun ls sched (minit ds)) = Some r -> r = first_common ds ls.
Proof. exact agreement_dialer. Qed.
Print Assumptions C03_agreement_dialer.

Theorem C03_agreement_listener :
  forall ds ls sched r, wfd ds ->
  l_result (mrun ls sched (minit ds)) = Some r -> r = first_common ds ls.
Proof. exact agreement_listener. Qed.
Print Assumptions C03_agreement_listener.

(* Both sides terminate under every fair schedule, with that same result. *)
Theorem C03_terminates :
  forall ds ls sched, wfd ds -> fair (fair_bound ds) sched ->
  d_result (mrun ls sched (minit ds)) = Some (first_common ds ls) /\
  l_result (mrun ls sched (minit ds)) = Some (first_common ds ls).
Proof. exact termination. Qed.
Print Assumptions C03_terminates.

(* Hand-over: when a side reports success, no negotiation message is left on its inbound
   channel (so the next inbound byte is the peer's application data), its own write buffer is
   empty, and neither direction has been closed. *)
Theorem C03_handover_dialer :
  forall ds ls sched p, wfd ds ->
  let s := mrun ls sched (minit ds) in
  d_result s = Some (Some p) ->
  c_ld s = [] /\ md_wbuf (sd s) = [] /\ dl_closed s = false /\ ld_closed s = false.
Proof. exact handover_dialer. Qed.
Print Assumptions C03_handover_dialer.

Theorem C03_handover_listener :
  forall ds ls sched p, wfd ds ->
  let s := mrun ls sched (minit ds) in
  l_result s = Some (Some p) ->
  c_dl s = [] /\ ml_wbuf (sl s) = [] /\ dl_closed s = false /\ ld_closed s = false.
Proof. exact handover_listener. Qed.
Print Assumptions C03_handover_listener.

(* ---- non-vacuity: the byte-level system on a concrete case, one byte per read and write,
   Pending injections, listener polled first: agreement on "/b" (dialer index 1, listener index
   0) and both payloads delivered unchanged with nothing left in the pipes. *)
Example C03_bytelevel_example :
  let a := [47; 97] in let b := [47; 98] in
  let c := mkCase [a; b] [b] false [1; 1; 0; 0; 0; 1]
             [1; 0; 1; 1; 0; 1; 1; 1; 1; 1; 1; 1; 1; 1; 1; 1; 1; 1; 1; 1; 1; 1; 1; 1; 1; 1; 1; 1; 1; 1]
             [1; 1; 0; 1; 1; 1; 1; 1; 1; 1; 1; 1; 1; 1; 1; 1; 1; 1; 1; 1; 1; 1; 1; 1; 1; 1; 1; 1; 1; 1]
             [2; 0; 3] [0; 5]
             [3; 47; 98; 10; 104; 105] [119] in
  let '(s, status) := run_sys 500 (c_sched c) false 0 (sys_init c) in
  status = 0 /\ t_res (s_d s) = (0, 1) /\ t_res (s_l s) = (0, 0) /\
  t_got (s_l s) = [3; 47; 98; 10; 104; 105] /\ t_got (s_d s) = [119] /\
  p_buf (s_dl s) = [] /\ p_buf (s_ld s) = [].
Proof. vm_compute. repeat split; reflexivity. Qed.

(* ---- the optimistic variant (V1Lazy; not used by litep2p's transports): the documented
   pitfall, kept explicit. The dialer settles on "/a" which the listener does not support; its
   first application bytes look like a proposal of "/b": the listener accepts "/b", the dialer
   learns of the failure (error 1 = Failed) on its first read. So for V1Lazy only the dialer
   half of agreement is claimed (see prop_ok in Glue.v). *)
Example C03_lazy_pitfall :
  let a := [47; 97] in let b := [47; 98] in
  let c := mkCase [a] [b] true [] [] [] [] [] [3; 47; 98; 10] [] in
  let '(s, status) := run_sys 500 (c_sched c) false 0 (sys_init c) in
  status = 0 /\ t_res (s_d s) = (0, 0) /\ t_end (s_d s) = 1 /\ t_res (s_l s) = (0, 0).
Proof. vm_compute. repeat split; reflexivity. Qed.
