(* C03 — the two-ended byte-level system of Model.v (tasks over two scripted pipes, polled by
   an arbitrary scheduler) projects onto the message-level system of Msg.v: every poll of a
   side is a finite run of that side's micro-steps. Consequently agreement, the reported
   indices, a clean hand-over and transparency of the application bytes are theorems about
   the byte-level model that the harness is diffed against. *)
From Coq Require Import List Arith NArith Bool Lia ZifyBool ZifyNat ZifyN.
From V.gen Require Import Consts.
From V.common Require Import Wire.
From V.C03 Require Import Model Msg Proofs MsgRef MsgProofs MsgInv Chan Dir SimD SimL.
Import ListNotations.
Open Scope N_scope.

Arguments N.add : simpl never.
Arguments N.sub : simpl never.
Arguments N.eqb : simpl never.
Arguments N.ltb : simpl never.
Arguments N.leb : simpl never.
Arguments N.of_nat : simpl never.
Arguments N.min : simpl never.

(* ------------------------------------------------------------------ payload phases *)
Inductive PView (t : task) : sview -> rview -> Prop :=
| PV_write : forall rem pw, t_ph t = TWrite NCompleted rem -> t_payload t = pw ++ rem ->
    PView t (SvP pw false) (RvP [])
| PV_close : t_ph t = TClose NCompleted -> PView t (SvP (t_payload t) false) (RvP [])
| PV_read : forall acc, t_ph t = TRead NCompleted acc -> PView t (SvP (t_payload t) true) (RvP acc)
| PV_done : t_ph t = TDone -> t_end t = 0 -> PView t (SvP (t_payload t) true) (RvE (t_got t)).

Lemma payload_sim : forall fuel t pin pout sv rv svO rvO cO wO cI wI t' pin' pout',
  PView t sv rv -> DirRel sv rvO pout cO wO -> DirRel svO rv pin cI wI ->
  t_poll fuel t pin pout = (t', pin', pout') ->
  exists sv' rv', PView t' sv' rv' /\ DirRel sv' rvO pout' cO wO /\ DirRel svO rv' pin' cI wI /\
    t_res t' = t_res t /\ t_payload t' = t_payload t.
Proof.
  induction fuel as [|f IH]; intros t pin pout sv rv svO rvO cO wO cI wI t' pin' pout' HV Hout Hin H.
  - cbn in H. injection H as <- <- <-. exists sv, rv. repeat split; auto.
  - cbn [t_poll] in H. destruct HV as [rem pw Hph Hpay | Hph | acc Hph | Hph Hend].
    + rewrite Hph in H. destruct rem as [|b rem].
      * (* everything written: close *)
        rewrite app_nil_r in Hpay. rewrite <- Hpay in Hout.
        assert (HV1 : PView (mkTask (TClose NCompleted) (t_payload t) (t_res t) (t_got t) (t_end t))
                        (SvP (t_payload t) false) (RvP [])).
        { apply (PV_close (mkTask (TClose NCompleted) (t_payload t) (t_res t) (t_got t) (t_end t))).
          reflexivity. }
        exact (IH _ _ _ _ _ _ _ _ _ _ _ _ _ _ HV1 Hout Hin H).
      * destruct (pipe_write pout (b :: rem)) as [po1 [n|]] eqn:Ew.
        -- assert (Hne : b :: rem <> []) by discriminate.
           pose proof (dir_pwrite _ _ _ _ _ _ _ _ Hne Hout Ew) as Hout1.
           assert (HV1 : PView (mkTask (TWrite NCompleted (skipn n (b :: rem))) (t_payload t) (t_res t)
                                  (t_got t) (t_end t))
                           (SvP (pw ++ firstn n (b :: rem)) false) (RvP [])).
           { apply (PV_write (mkTask (TWrite NCompleted (skipn n (b :: rem))) (t_payload t) (t_res t)
                                  (t_got t) (t_end t)) (skipn n (b :: rem)) (pw ++ firstn n (b :: rem))); [reflexivity|].
             cbn [t_payload]. rewrite <- app_assoc, firstn_skipn. exact Hpay. }
           exact (IH _ _ _ _ _ _ _ _ _ _ _ _ _ _ HV1 Hout1 Hin H).
        -- injection H as <- <- <-.
           exists (SvP pw false), (RvP []). split.
           ++ apply (PV_write (mkTask (TWrite NCompleted (b :: rem)) (t_payload t) (t_res t) (t_got t) (t_end t))
                       (b :: rem) pw); [reflexivity | exact Hpay].
           ++ split; [eapply dir_pwrite_pending; eauto; discriminate|]. repeat split; auto.
    + rewrite Hph in H.
      assert (HV1 : PView (mkTask (TRead NCompleted []) (t_payload t) (t_res t) (t_got t) (t_end t))
                      (SvP (t_payload t) true) (RvP [])).
      { apply (PV_read (mkTask (TRead NCompleted []) (t_payload t) (t_res t) (t_got t) (t_end t)) []).
        reflexivity. }
      exact (IH _ _ _ _ _ _ _ _ _ _ _ _ _ _ HV1 (dir_pclose _ _ _ _ _ Hout) Hin H).
    + rewrite Hph in H.
      destruct (pipe_read pin READ_CHUNK) as [pi1 rr] eqn:Er.
      assert (Hk : 1 <= READ_CHUNK) by (unfold READ_CHUNK; lia).
      pose proof (dir_pread _ _ _ _ _ _ _ _ Hk Hin Er) as Hin1.
      destruct rr as [| |bs].
      * injection H as <- <- <-. exists (SvP (t_payload t) true), (RvP acc). split.
        -- apply (PV_read (mkTask (TRead NCompleted acc) (t_payload t) (t_res t) (t_got t) (t_end t)) acc).
           reflexivity.
        -- repeat split; auto.
      * injection H as <- <- <-. exists (SvP (t_payload t) true), (RvE acc). split.
        -- apply (PV_done (mkTask TDone (t_payload t) (t_res t) acc 0)); reflexivity.
        -- repeat split; auto.
      * assert (HV1 : PView (mkTask (TRead NCompleted (acc ++ bs)) (t_payload t) (t_res t) (t_got t) (t_end t))
                        (SvP (t_payload t) true) (RvP (acc ++ bs))).
        { apply (PV_read (mkTask (TRead NCompleted (acc ++ bs)) (t_payload t) (t_res t) (t_got t) (t_end t))
                   (acc ++ bs)). reflexivity. }
        exact (IH _ _ _ _ _ _ _ _ _ _ _ _ _ _ HV1 Hout Hin1 H).
    + rewrite Hph in H. injection H as <- <- <-.
      exists (SvP (t_payload t) true), (RvE (t_got t)). split; [apply PV_done; assumption|].
      repeat split; auto.
Qed.

Section Sys.
Variables (ds ls : list name).
Hypothesis Hwf : Forall wfn ds.

Let wfd_ds := wfd_ds ds Hwf.

(* ------------------------------------------------------------------ tasks vs. message level *)
Inductive DTask (t : task) (m : msys) : sview -> rview -> Prop :=
| DT_neg : forall d, t_ph t = TNeg (FDial d) -> DLoc ds d (sd m) -> dl_closed m = false ->
    t_res t = (99, 0) -> DTask t m (SvN (d_wbuf d)) (RvN (d_rd d))
| DT_pay : forall sv rv i p pre, PView t sv rv -> t_res t = (0, i) ->
    ds = pre ++ p :: md_rest (sd m) -> i = N.of_nat (length pre) ->
    md_ph (sd m) = MDDone (Some p) -> dl_closed m = false -> DTask t m sv rv
| DT_fail : forall code, t_ph t = TDone -> t_res t = (code, 0) -> 0 < code < 90 ->
    md_ph (sd m) = MDDone None -> dl_closed m = true -> DTask t m SvF RvF.

Inductive LTask (t : task) (m : msys) : sview -> rview -> Prop :=
| LT_neg : forall l, t_ph t = TNeg (FList l) -> LLoc ls l (sl m) -> ld_closed m = false ->
    t_res t = (99, 0) -> LTask t m (SvN (l_wbuf l)) (RvN (l_rd l))
| LT_pay : forall sv rv j n, PView t sv rv -> t_res t = (0, j) ->
    lidx 0 ls n = Some j -> ml_ph (sl m) = MLDone (Some n) -> ld_closed m = false -> LTask t m sv rv
| LT_fail : forall code, t_ph t = TDone -> t_res t = (code, 0) -> 0 < code < 90 ->
    ml_ph (sl m) = MLDone None -> ld_closed m = true -> LTask t m SvF RvF.

Lemma DTask_frame : forall t m m' sv rv, sd m' = sd m -> dl_closed m' = dl_closed m ->
  DTask t m sv rv -> DTask t m' sv rv.
Proof.
  intros t m m' sv rv E1 E2 H. destruct H.
  - apply DT_neg; rewrite ?E1, ?E2; assumption.
  - eapply DT_pay; rewrite ?E1, ?E2; eassumption.
  - eapply DT_fail; rewrite ?E1, ?E2; eassumption.
Qed.

Lemma LTask_frame : forall t m m' sv rv, sl m' = sl m -> ld_closed m' = ld_closed m ->
  LTask t m sv rv -> LTask t m' sv rv.
Proof.
  intros t m m' sv rv E1 E2 H. destruct H.
  - apply LT_neg; rewrite ?E1, ?E2; assumption.
  - eapply LT_pay; rewrite ?E1, ?E2; eassumption.
  - eapply LT_fail; rewrite ?E1, ?E2; eassumption.
Qed.

Lemma mdk_frame : forall k m, sl (mdk ls k m) = sl m /\ ld_closed (mdk ls k m) = ld_closed m.
Proof.
  induction k as [|k IH]; intros m; [split; reflexivity|].
  rewrite mdk_S. destruct (IH (mstep_d m)) as [A B]. destruct (frame_d m) as (C & D & _).
  split; congruence.
Qed.

Lemma mlk_frame : forall k m, sd (mlk ls k m) = sd m /\ dl_closed (mlk ls k m) = dl_closed m.
Proof.
  induction k as [|k IH]; intros m; [split; reflexivity|].
  rewrite mlk_S. destruct (IH (mstep_l ls m)) as [A B]. destruct (frame_l ls m) as (C & D & _).
  split; congruence.
Qed.

Lemma LTask_link : forall t m sv rv, LTask t m sv rv -> SLinkL sv m.
Proof. intros t m sv rv H. destruct H; cbn; eauto. destruct H; cbn; eauto. Qed.

Lemma DTask_link : forall t m sv rv, DTask t m sv rv -> SLinkD sv m.
Proof. intros t m sv rv H. destruct H; cbn; eauto. destruct H; cbn; eauto. Qed.

(* ------------------------------------------------------------------ one poll of a task *)
(* The peer of the polled task is abstract (see SimD.v / SimL.v): `R` is an invariant of the
   message-level state; d_task_sim_gen only uses the dialer-side hypotheses, l_task_sim_gen only
   the listener-side ones. *)
Section Gen.
Variable R : msys -> Prop.
Hypothesis R_step_d : forall m, R m -> R (mstep_d m).
Hypothesis R_ok_ld : forall m, R m -> Forall okmsg (c_ld m ++ ml_wbuf (sl m)).
Hypothesis R_guard_d : forall m q p hr, R m -> ml_ph (sl m) = MLDone (Some q) ->
  md_ph (sd m) = MDAwait p hr -> c_ld m <> [].
Hypothesis R_step_l : forall m, R m -> R (mstep_l ls m).
Hypothesis R_ok_dl : forall m, R m -> Forall okmsg (c_dl m ++ md_wbuf (sd m)).
Hypothesis R_head_dl : forall m, R m -> Forall (dmsg ds) (c_dl m).
Hypothesis R_send_l : forall m, R m -> lph_ok ds (ml_ph (sl m)).
Hypothesis R_guard_l : forall m q, R m -> md_ph (sd m) = MDDone (Some q) ->
  (ml_ph (sl m) = MLRecvHeader \/ ml_ph (sl m) = MLRecvMsg) -> c_dl m <> [].

Lemma d_task_sim_gen : forall fuel t pin pout m svd rvd svl rvl t' pin' pout',
  R m -> DTask t m svd rvd -> SLinkL svl m ->
  DirRel svd rvl pout (c_dl m) (md_wbuf (sd m)) ->
  DirRel svl rvd pin (c_ld m) (ml_wbuf (sl m)) ->
  t_poll fuel t pin pout = (t', pin', pout') ->
  exists k svd' rvd', R (mdk ls k m) /\ DTask t' (mdk ls k m) svd' rvd' /\
    DirRel svd' rvl pout' (c_dl (mdk ls k m)) (md_wbuf (sd (mdk ls k m))) /\
    DirRel svl rvd' pin' (c_ld (mdk ls k m)) (ml_wbuf (sl (mdk ls k m))).
Proof.
  intros fuel t pin pout m svd rvd svl rvl t' pin' pout' HR HT HL Hout Hin H.
  destruct fuel as [|f].
  { cbn in H. injection H as <- <- <-. exists 0%nat, svd, rvd. rewrite mdk_0. auto. }
  destruct HT as [d Hph HD Hcl Hres | sv rv i p pre HV Hres Hds Hi Hph Hcl | code Hph Hres Hc Hmd Hcl].
  - (* negotiating *)
    cbn [t_poll] in H. rewrite Hph in H.
    destruct (d_poll (d_fuel d pin) d pin pout) as [[[d1 a] b] r] eqn:Ed.
    destruct (d_poll_sim ds ls Hwf R R_step_d R_ok_ld R_guard_d _ _ _ _ _ _ _ _ _ _ _ HR HL HD Hcl Hout Hin Ed)
      as (k & HR' & HL' & HP).
    destruct r as [|c|i|i p st w].
    + injection H as <- <- <-. destruct HP as (HD' & Hcl' & Ho & Hi).
      exists k, (SvN (d_wbuf d1)), (RvN (d_rd d1)). split; [exact HR'|]. split.
      * apply (DT_neg _ _ d1); auto.
      * split; assumption.
    + injection H as <- <- <-. destruct HP as (Hc & Hmd & Hcl' & Ho & Hi).
      exists k, SvF, RvF. split; [exact HR'|]. split.
      * apply (DT_fail _ _ c); auto.
      * split; assumption.
    + destruct HP as (p & Hmd & (pre & Hds & Hi) & Hwb & Hrd & Hcl' & Ho & Hin').
      rewrite Hrd, Hwb in H. cbn [rd_buffer_empty rd_init andb] in H.
      destruct (dir_to_payload _ _ _ _ Ho) as [Hw Ho'].
      pose proof (dir_reader_payload _ _ _ _ Hin') as Hin''.
      set (t1 := mkTask (TWrite NCompleted (t_payload t)) (t_payload t) (0, i) (t_got t) (t_end t)) in *.
      assert (HV : PView t1 (SvP [] false) (RvP [])).
      { apply (PV_write t1 (t_payload t) []); reflexivity. }
      destruct (payload_sim _ _ _ _ _ _ _ _ _ _ _ _ _ _ _ HV Ho' Hin'' H)
        as (sv' & rv' & HV' & Ho2 & Hi2 & Hres' & _).
      exists k, sv', rv'. split; [exact HR'|]. split.
      * apply (DT_pay _ _ sv' rv' i p pre); auto.
      * rewrite Hw. split; assumption.
    + destruct HP.
  - (* payload phase *)
    destruct (payload_sim _ _ _ _ _ _ _ _ _ _ _ _ _ _ _ HV Hout Hin H)
      as (sv' & rv' & HV' & Ho2 & Hi2 & Hres' & _).
    exists 0%nat, sv', rv'. rewrite mdk_0. split; [exact HR|]. split.
    + apply (DT_pay _ _ sv' rv' i p pre); auto. congruence.
    + split; assumption.
  - (* failed *)
    cbn [t_poll] in H. rewrite Hph in H. injection H as <- <- <-.
    exists 0%nat, SvF, RvF. rewrite mdk_0. split; [exact HR|]. split.
    + apply (DT_fail _ _ code); auto.
    + split; assumption.
Qed.

Lemma l_task_sim_gen : forall fuel t pin pout m svl rvl svd rvd t' pin' pout',
  R m -> LTask t m svl rvl -> SLinkD svd m ->
  DirRel svl rvd pout (c_ld m) (ml_wbuf (sl m)) ->
  DirRel svd rvl pin (c_dl m) (md_wbuf (sd m)) ->
  t_poll fuel t pin pout = (t', pin', pout') ->
  exists k svl' rvl', R (mlk ls k m) /\ LTask t' (mlk ls k m) svl' rvl' /\
    DirRel svl' rvd pout' (c_ld (mlk ls k m)) (ml_wbuf (sl (mlk ls k m))) /\
    DirRel svd rvl' pin' (c_dl (mlk ls k m)) (md_wbuf (sd (mlk ls k m))).
Proof.
  intros fuel t pin pout m svl rvl svd rvd t' pin' pout' HR HT HL Hout Hin H.
  destruct fuel as [|f].
  { cbn in H. injection H as <- <- <-. exists 0%nat, svl, rvl. rewrite mlk_0. auto. }
  destruct HT as [l Hph HD Hcl Hres | sv rv j n HV Hres Hidx Hph Hcl | code Hph Hres Hc Hml Hcl].
  - cbn [t_poll] in H. rewrite Hph in H.
    destruct (l_poll (l_fuel pin) l pin pout) as [[[l1 a] b] r] eqn:Ed.
    destruct (l_poll_sim ds ls Hwf R R_step_l R_ok_dl R_head_dl R_send_l R_guard_l _ _ _ _ _ _ _ _ _ _ _ HR HL HD Hcl Hout Hin Ed)
      as (k & HR' & HL' & HP).
    destruct r as [|c|j|j p st w].
    + injection H as <- <- <-. destruct HP as (HD' & Hcl' & Ho & Hi).
      exists k, (SvN (l_wbuf l1)), (RvN (l_rd l1)). split; [exact HR'|]. split.
      * apply (LT_neg _ _ l1); auto.
      * split; assumption.
    + injection H as <- <- <-. destruct HP as (Hc & Hml & Hcl' & Ho & Hi).
      exists k, SvF, RvF. split; [exact HR'|]. split.
      * apply (LT_fail _ _ c); auto.
      * split; assumption.
    + destruct HP as (n & Hml & Hidx & Hwb & Hrd & Hcl' & Ho & Hin').
      rewrite Hrd, Hwb in H. cbn [rd_buffer_empty rd_init andb] in H.
      destruct (dir_to_payload _ _ _ _ Ho) as [Hw Ho'].
      pose proof (dir_reader_payload _ _ _ _ Hin') as Hin''.
      set (t1 := mkTask (TWrite NCompleted (t_payload t)) (t_payload t) (0, j) (t_got t) (t_end t)) in *.
      assert (HV : PView t1 (SvP [] false) (RvP [])).
      { apply (PV_write t1 (t_payload t) []); reflexivity. }
      destruct (payload_sim _ _ _ _ _ _ _ _ _ _ _ _ _ _ _ HV Ho' Hin'' H)
        as (sv' & rv' & HV' & Ho2 & Hi2 & Hres' & _).
      exists k, sv', rv'. split; [exact HR'|]. split.
      * apply (LT_pay _ _ sv' rv' j n); auto.
      * rewrite Hw. split; assumption.
    + destruct HP.
  - destruct (payload_sim _ _ _ _ _ _ _ _ _ _ _ _ _ _ _ HV Hout Hin H)
      as (sv' & rv' & HV' & Ho2 & Hi2 & Hres' & _).
    exists 0%nat, sv', rv'. rewrite mlk_0. split; [exact HR|]. split.
    + apply (LT_pay _ _ sv' rv' j n); auto. congruence.
    + split; assumption.
  - cbn [t_poll] in H. rewrite Hph in H. injection H as <- <- <-.
    exists 0%nat, SvF, RvF. rewrite mlk_0. split; [exact HR|]. split.
    + apply (LT_fail _ _ code); auto.
    + split; assumption.
Qed.

End Gen.

Lemma d_task_sim : forall fuel t pin pout m svd rvd svl rvl t' pin' pout',
  Reach ds ls m -> DTask t m svd rvd -> SLinkL svl m ->
  DirRel svd rvl pout (c_dl m) (md_wbuf (sd m)) ->
  DirRel svl rvd pin (c_ld m) (ml_wbuf (sl m)) ->
  t_poll fuel t pin pout = (t', pin', pout') ->
  exists k svd' rvd', Reach ds ls (mdk ls k m) /\ DTask t' (mdk ls k m) svd' rvd' /\
    DirRel svd' rvl pout' (c_dl (mdk ls k m)) (md_wbuf (sd (mdk ls k m))) /\
    DirRel svl rvd' pin' (c_ld (mdk ls k m)) (ml_wbuf (sl (mdk ls k m))).
Proof.
  apply (d_task_sim_gen (Reach ds ls)).
  - intros m H. exact (Reach_run ds ls m [true] H).
  - intros m H. exact (ok_ld ds ls Hwf m H).
  - intros m q p hr HR Hq Hph. exact (await_has_message ds ls m q p hr wfd_ds HR Hq Hph).
Qed.

Lemma l_task_sim : forall fuel t pin pout m svl rvl svd rvd t' pin' pout',
  Reach ds ls m -> LTask t m svl rvl -> SLinkD svd m ->
  DirRel svl rvd pout (c_ld m) (ml_wbuf (sl m)) ->
  DirRel svd rvl pin (c_dl m) (md_wbuf (sd m)) ->
  t_poll fuel t pin pout = (t', pin', pout') ->
  exists k svl' rvl', Reach ds ls (mlk ls k m) /\ LTask t' (mlk ls k m) svl' rvl' /\
    DirRel svl' rvd pout' (c_ld (mlk ls k m)) (ml_wbuf (sl (mlk ls k m))) /\
    DirRel svd rvl' pin' (c_dl (mlk ls k m)) (md_wbuf (sd (mlk ls k m))).
Proof.
  apply (l_task_sim_gen (Reach ds ls)).
  - intros m H. exact (Reach_run ds ls m [false] H).
  - intros m H. exact (ok_dl ds ls Hwf m H).
  - intros m H. destruct (NM_reach ds ls m H) as (H1 & _). exact H1.
  - intros m H. destruct (NM_reach ds ls m H) as (_ & _ & _ & _ & _ & _ & H7). exact H7.
  - intros m q HR Hq Hph. destruct (done_dialer_no_read ds ls m q wfd_ds HR Hq) as [N1 N2].
    exfalso. destruct Hph; contradiction.
Qed.

(* ------------------------------------------------------------------ the system *)
Definition Sim (s : sys) (m : msys) : Prop :=
  Reach ds ls m /\ exists svd rvd svl rvl,
    DTask (s_d s) m svd rvd /\ LTask (s_l s) m svl rvl /\
    DirRel svd rvl (s_dl s) (c_dl m) (md_wbuf (sd m)) /\
    DirRel svl rvd (s_ld s) (c_ld m) (ml_wbuf (sl m)).

Theorem poll_sim : forall who s m, Sim s m ->
  exists k, Sim (poll_side who s) (mrun ls (repeat (negb who) k) m).
Proof.
  intros who s m (HR & svd & rvd & svl & rvl & HD & HL & Hdl & Hld).
  unfold poll_side. destruct who.
  - (* the listener is polled *)
    destruct (t_poll (t_fuel (s_l s) (s_dl s)) (s_l s) (s_dl s) (s_ld s)) as [[t1 pi1] po1] eqn:Et.
    destruct (l_task_sim _ _ _ _ _ _ _ _ _ _ _ _ HR HL (DTask_link _ _ _ _ HD) Hld Hdl Et)
      as (k & svl' & rvl' & HR' & HL' & Ho & Hi).
    exists k. cbn [negb]. fold (mlk ls k m). split; [exact HR'|].
    exists svd, rvd, svl', rvl'. cbn [s_d s_l s_dl s_ld].
    destruct (mlk_frame k m) as [E1 E2].
    split; [exact (DTask_frame _ _ _ _ _ E1 E2 HD)|]. split; [exact HL'|]. split; assumption.
  - destruct (t_poll (t_fuel (s_d s) (s_ld s)) (s_d s) (s_ld s) (s_dl s)) as [[t1 pi1] po1] eqn:Et.
    destruct (d_task_sim _ _ _ _ _ _ _ _ _ _ _ _ HR HD (LTask_link _ _ _ _ HL) Hdl Hld Et)
      as (k & svd' & rvd' & HR' & HD' & Ho & Hi).
    exists k. cbn [negb]. fold (mdk ls k m). split; [exact HR'|].
    exists svd', rvd', svl, rvl. cbn [s_d s_l s_dl s_ld].
    destruct (mdk_frame k m) as [E1 E2].
    split; [exact HD'|]. split; [exact (LTask_frame _ _ _ _ _ E1 E2 HL)|]. split; assumption.
Qed.

Definition polls (who : list bool) (s : sys) : sys :=
  fold_left (fun s b => poll_side b s) who s.

Theorem polls_sim : forall who s m, Sim s m -> exists sched, Sim (polls who s) (mrun ls sched m).
Proof.
  induction who as [|b who IH]; intros s m H.
  - exists []. exact H.
  - destruct (poll_sim b s m H) as (k & H1).
    destruct (IH _ _ H1) as (sched & H2).
    exists (repeat (negb b) k ++ sched). rewrite mrun_app. exact H2.
Qed.

End Sys.
