(* C03 — byte-level termination. A potential over tasks, buffers, pipes and scripts never
   increases under a poll and strictly decreases unless the polled task is blocked (done, or
   waiting on an empty open inbound pipe) and nothing at all changed (Work.v, Work2.v: no
   invariant needed). With the projection onto the message level (SimSys.v) two blocked tasks
   are two finished tasks. Hence: under every fair poll sequence, any chunking and any Pending
   injection, both tasks of a well-formed V1 case finish. *)
From Coq Require Import List Arith NArith Bool Lia ZifyBool ZifyNat ZifyN.
From V.gen Require Import Consts.
From V.common Require Import Wire.
From V.C03 Require Import Model Msg Proofs MsgRef MsgProofs MsgInv Chan Dir SimD SimL SimSys BytesThm.
From V.C03 Require Import Work Work2.
Import ListNotations.
Open Scope N_scope.

Arguments N.add : simpl never.
Arguments N.sub : simpl never.
Arguments N.mul : simpl never.
Arguments N.eqb : simpl never.
Arguments N.ltb : simpl never.
Arguments N.leb : simpl never.
Arguments N.of_nat : simpl never.
Arguments N.min : simpl never.

(* ------------------------------------------------------------------ task potentials *)
Definition WfTD (t : task) : Prop :=
  match t_ph t with TNeg (FDial d) => WfD d | TNeg (FList _) => False | _ => PayPhase t end.
Definition WfTL (t : task) : Prop :=
  match t_ph t with TNeg (FList l) => WfL l | TNeg (FDial _) => False | _ => PayPhase t end.

Definition TpD (t : task) : N :=
  match t_ph t with
  | TNeg (FDial d) => 20 + Pd d + 2 * WDL * len (t_payload t)
  | TNeg (FList _) => 0
  | _ => 4 * krank t + 2 * WDL * rrem t
  end.
Definition TpL (t : task) : N :=
  match t_ph t with
  | TNeg (FList l) => 20 + Pl l + 2 * len (t_payload t)
  | TNeg (FDial _) => 0
  | _ => 4 * krank t + 2 * rrem t
  end.
Definition MD (t : task) (pin pout : pipe) : N := TpD t + PipesD pin pout + cl pout.
Definition ML (t : task) (pin pout : pipe) : N := TpL t + PipesL pin pout + cl pout.

Definition BlockedD (t : task) (pin : pipe) : Prop :=
  t_ph t = TDone \/ ReadWait t pin \/ (exists d, t_ph t = TNeg (FDial d) /\ AwaitBlocked d pin).
Definition BlockedL (t : task) (pin : pipe) : Prop :=
  t_ph t = TDone \/ ReadWait t pin \/ (exists l, t_ph t = TNeg (FList l) /\ ReadBlocked l pin).

Definition FrameT (pin pout pin' pout' : pipe) : Prop :=
  p_wscript pin' = p_wscript pin /\ p_closed pin' = p_closed pin /\ p_rscript pout' = p_rscript pout.

Ltac tnum := unfold MD, ML, TpD, TpL, Pd, Pl, PipesD, PipesL, rkd, rkl, nrest, krank, rrem, cl,
                    RD, SD, HD, SL, WDL, FMAX in *;
             cbn [t_ph t_payload t_res t_got t_end d_ph d_rest d_wbuf l_ph l_wbuf length] in *.

Lemma cl_close : forall p, cl (pipe_close p) <= cl p.
Proof. intros p. unfold cl, pipe_close. cbn. destruct (p_closed p); lia. Qed.

Lemma pay_TpD : forall x, PayPhase x -> TpD x = 4 * krank x + 2 * WDL * rrem x /\ WfTD x.
Proof.
  intros x Hx. unfold TpD, WfTD, krank, rrem. pose proof Hx as Hx'. unfold PayPhase in Hx'.
  destruct (t_ph x) eqn:E; try contradiction; (split; [reflexivity|]);
    unfold PayPhase; rewrite E; exact Hx'.
Qed.

Lemma pay_TpL : forall x, PayPhase x -> TpL x = 4 * krank x + 2 * rrem x /\ WfTL x.
Proof.
  intros x Hx. unfold TpL, WfTL, krank, rrem. pose proof Hx as Hx'. unfold PayPhase in Hx'.
  destruct (t_ph x) eqn:E; try contradiction; (split; [reflexivity|]);
    unfold PayPhase; rewrite E; exact Hx'.
Qed.

Lemma pay_to_MD : forall f t pin pout t' pin' pout', PayPhase t ->
  PW f t pin pout t' pin' pout' ->
  WfTD t' /\ FrameT pin pout pin' pout' /\ MD t' pin' pout' <= MD t pin pout /\
  (MD t' pin' pout' = MD t pin pout ->
   t' = t /\ pin' = pin /\ pout' = pout /\ (f = 0%nat \/ t_ph t = TDone \/ ReadWait t pin)).
Proof.
  intros f t pin pout t' pin' pout' Hp (B0 & B1 & B2 & B3 & B4 & B5 & B6 & B7 & B8 & B9 & B10 & B11).
  destruct (pay_TpD t Hp) as [E1 _]. destruct (pay_TpD t' B0) as [E2 W2].
  split; [exact W2|]. split; [repeat split; assumption|].
  unfold MD, PipesD. rewrite E1, E2. unfold WDL. split; [lia|].
  intros E. apply B11; lia.
Qed.

Lemma pay_to_ML : forall f t pin pout t' pin' pout', PayPhase t ->
  PW f t pin pout t' pin' pout' ->
  WfTL t' /\ FrameT pin pout pin' pout' /\ ML t' pin' pout' <= ML t pin pout /\
  (ML t' pin' pout' = ML t pin pout ->
   t' = t /\ pin' = pin /\ pout' = pout /\ (f = 0%nat \/ t_ph t = TDone \/ ReadWait t pin)).
Proof.
  intros f t pin pout t' pin' pout' Hp (B0 & B1 & B2 & B3 & B4 & B5 & B6 & B7 & B8 & B9 & B10 & B11).
  destruct (pay_TpL t Hp) as [E1 _]. destruct (pay_TpL t' B0) as [E2 W2].
  split; [exact W2|]. split; [repeat split; assumption|].
  unfold ML, PipesL. rewrite E1, E2. unfold WDL. split; [lia|].
  intros E. apply B11; lia.
Qed.

Lemma task_eta : forall t ph, t_ph t = ph ->
  mkTask ph (t_payload t) (t_res t) (t_got t) (t_end t) = t.
Proof. intros [a b c d e] ph H. cbn in *. subst. reflexivity. Qed.

Lemma d_task_work : forall fuel t pin pout t' pin' pout', WfTD t ->
  t_poll fuel t pin pout = (t', pin', pout') ->
  WfTD t' /\ FrameT pin pout pin' pout' /\ MD t' pin' pout' <= MD t pin pout /\
  (MD t' pin' pout' = MD t pin pout ->
   t' = t /\ pin' = pin /\ pout' = pout /\ (fuel = 0%nat \/ BlockedD t pin)).
Proof.
  intros fuel t pin pout t' pin' pout' Hw H.
  destruct fuel as [|f].
  { cbn in H. injection H as <- <- <-. split; [exact Hw|]. repeat split; auto; lia. }
  destruct (t_ph t) as [[d | l] | g rem | g | g acc | ] eqn:Hph.
  - (* negotiating *)
    assert (Hwd : WfD d) by (unfold WfTD in Hw; rewrite Hph in Hw; exact Hw).
    assert (ET : TpD t = 20 + Pd d + 2 * WDL * len (t_payload t))
      by (unfold TpD; rewrite Hph; reflexivity).
    cbn [t_poll] in H. rewrite Hph in H.
    remember (d_fuel d pin) as fu eqn:Efu.
    destruct (d_poll fu d pin pout) as [[[d1 a] b] r] eqn:Ed.
    destruct (d_poll_work _ _ _ _ _ _ _ _ Hwd Ed) as ((F1 & F2 & F3 & F4) & W1 & Hr).
    assert (Ec : cl b = cl pout) by (unfold cl; rewrite F4; reflexivity).
    destruct r as [|c|i|i p st w].
    + injection H as <- <- <-. destruct Hr as [H1 H2].
      split; [exact W1|]. split; [repeat split; assumption|].
      unfold MD. rewrite ET. unfold TpD. cbn [t_ph t_payload].
      split; [unfold WDL in *; lia|]. intros E.
      assert (E' : Pd d1 + PipesD a b = Pd d + PipesD pin pout) by (unfold WDL in *; lia).
      destruct (H2 E') as (-> & -> & -> & Hb).
      split; [apply task_eta; exact Hph|]. split; [reflexivity|]. split; [reflexivity|].
      destruct Hb as [Hb | Hb]; [rewrite Efu in Hb; unfold d_fuel in Hb; lia|].
      right. right. right. exists d. split; [exact Hph | exact Hb].
    + injection H as <- <- <-.
      split; [exact I|]. split; [repeat split; assumption|].
      pose proof (cl_close b) as Hc.
      assert (Ep : PipesD a (pipe_close b) = PipesD a b) by reflexivity.
      unfold MD. rewrite ET, Ep. unfold TpD, krank, rrem. cbn [t_ph].
      split; [unfold WDL in *; lia|]. intros E. exfalso. unfold WDL in *. lia.
    + destruct (rd_buffer_empty (d_rd d1) && match d_wbuf d1 with [] => true | _ :: _ => false end).
      * set (t1 := mkTask (TWrite NCompleted (t_payload t)) (t_payload t) (0, i) (t_got t) (t_end t)) in *.
        assert (Hp1 : PayPhase t1) by reflexivity.
        destruct (pay_to_MD _ _ _ _ _ _ _ Hp1 (pay_work _ _ _ _ _ _ _ Hp1 H)) as (W2 & (G1 & G2 & G3) & G4 & _).
        split; [exact W2|]. split; [repeat split; congruence|].
        assert (Lt : MD t1 a b < MD t pin pout).
        { unfold MD. rewrite ET. unfold t1, TpD, krank, rrem. cbn [t_ph t_payload].
          unfold WDL in *. lia. }
        split; [lia|]. intros E. exfalso. lia.
      * injection H as <- <- <-.
        split; [exact I|]. split; [repeat split; assumption|].
        pose proof (cl_close b) as Hc.
        assert (Ep : PipesD a (pipe_close b) = PipesD a b) by reflexivity.
        unfold MD. rewrite ET, Ep. unfold TpD, krank, rrem. cbn [t_ph].
        split; [unfold WDL in *; lia|]. intros E. exfalso. unfold WDL in *. lia.
    + destruct Hr.
  - exfalso. unfold WfTD in Hw. rewrite Hph in Hw. exact Hw.
  - assert (Hp : PayPhase t) by (unfold WfTD in Hw; rewrite Hph in Hw; exact Hw).
    destruct (pay_to_MD _ _ _ _ _ _ _ Hp (pay_work _ _ _ _ _ _ _ Hp H)) as (W2 & G & G4 & G5).
    split; [exact W2|]. split; [exact G|]. split; [exact G4|]. intros E.
    destruct (G5 E) as (A & B & C & D). split; [exact A|]. split; [exact B|]. split; [exact C|].
    destruct D as [D | [D | D]]; [discriminate D | right; left; exact D | right; right; left; exact D].
  - assert (Hp : PayPhase t) by (unfold WfTD in Hw; rewrite Hph in Hw; exact Hw).
    destruct (pay_to_MD _ _ _ _ _ _ _ Hp (pay_work _ _ _ _ _ _ _ Hp H)) as (W2 & G & G4 & G5).
    split; [exact W2|]. split; [exact G|]. split; [exact G4|]. intros E.
    destruct (G5 E) as (A & B & C & D). split; [exact A|]. split; [exact B|]. split; [exact C|].
    destruct D as [D | [D | D]]; [discriminate D | right; left; exact D | right; right; left; exact D].
  - assert (Hp : PayPhase t) by (unfold WfTD in Hw; rewrite Hph in Hw; exact Hw).
    destruct (pay_to_MD _ _ _ _ _ _ _ Hp (pay_work _ _ _ _ _ _ _ Hp H)) as (W2 & G & G4 & G5).
    split; [exact W2|]. split; [exact G|]. split; [exact G4|]. intros E.
    destruct (G5 E) as (A & B & C & D). split; [exact A|]. split; [exact B|]. split; [exact C|].
    destruct D as [D | [D | D]]; [discriminate D | right; left; exact D | right; right; left; exact D].
  - assert (Hp : PayPhase t) by (unfold WfTD in Hw; rewrite Hph in Hw; exact Hw).
    destruct (pay_to_MD _ _ _ _ _ _ _ Hp (pay_work _ _ _ _ _ _ _ Hp H)) as (W2 & G & G4 & G5).
    split; [exact W2|]. split; [exact G|]. split; [exact G4|]. intros E.
    destruct (G5 E) as (A & B & C & D). split; [exact A|]. split; [exact B|]. split; [exact C|].
    destruct D as [D | [D | D]]; [discriminate D | right; left; exact D | right; right; left; exact D].
Qed.

Lemma l_task_work : forall fuel t pin pout t' pin' pout', WfTL t ->
  t_poll fuel t pin pout = (t', pin', pout') ->
  WfTL t' /\ FrameT pin pout pin' pout' /\ ML t' pin' pout' <= ML t pin pout /\
  (ML t' pin' pout' = ML t pin pout ->
   t' = t /\ pin' = pin /\ pout' = pout /\ (fuel = 0%nat \/ BlockedL t pin)).
Proof.
  intros fuel t pin pout t' pin' pout' Hw H.
  destruct fuel as [|f].
  { cbn in H. injection H as <- <- <-. split; [exact Hw|]. repeat split; auto; lia. }
  destruct (t_ph t) as [[d | l] | g rem | g | g acc | ] eqn:Hph.
  - exfalso. unfold WfTL in Hw. rewrite Hph in Hw. exact Hw.
  - assert (Hwd : WfL l) by (unfold WfTL in Hw; rewrite Hph in Hw; exact Hw).
    assert (ET : TpL t = 20 + Pl l + 2 * len (t_payload t))
      by (unfold TpL; rewrite Hph; reflexivity).
    cbn [t_poll] in H. rewrite Hph in H.
    remember (l_fuel pin) as fu eqn:Efu.
    destruct (l_poll fu l pin pout) as [[[l1 a] b] r] eqn:Ed.
    destruct (l_poll_work _ _ _ _ _ _ _ _ Hwd Ed) as ((F1 & F2 & F3 & F4) & W1 & Hr).
    assert (Ec : cl b = cl pout) by (unfold cl; rewrite F4; reflexivity).
    destruct r as [|c|i|i p st w].
    + injection H as <- <- <-. destruct Hr as [H1 H2].
      split; [exact W1|]. split; [repeat split; assumption|].
      unfold ML. rewrite ET. unfold TpL. cbn [t_ph t_payload].
      split; [lia|]. intros E.
      assert (E' : Pl l1 + PipesL a b = Pl l + PipesL pin pout) by lia.
      destruct (H2 E') as (-> & -> & -> & Hb).
      split; [apply task_eta; exact Hph|]. split; [reflexivity|]. split; [reflexivity|].
      destruct Hb as [Hb | Hb]; [rewrite Efu in Hb; unfold l_fuel in Hb; lia|].
      right. right. right. exists l. split; [exact Hph | exact Hb].
    + injection H as <- <- <-.
      split; [exact I|]. split; [repeat split; assumption|].
      pose proof (cl_close b) as Hc.
      assert (Ep : PipesL a (pipe_close b) = PipesL a b) by reflexivity.
      unfold ML. rewrite ET, Ep. unfold TpL, krank, rrem. cbn [t_ph].
      split; [lia|]. intros E. exfalso. lia.
    + destruct (rd_buffer_empty (l_rd l1) && match l_wbuf l1 with [] => true | _ :: _ => false end).
      * set (t1 := mkTask (TWrite NCompleted (t_payload t)) (t_payload t) (0, i) (t_got t) (t_end t)) in *.
        assert (Hp1 : PayPhase t1) by reflexivity.
        destruct (pay_to_ML _ _ _ _ _ _ _ Hp1 (pay_work _ _ _ _ _ _ _ Hp1 H)) as (W2 & (G1 & G2 & G3) & G4 & _).
        split; [exact W2|]. split; [repeat split; congruence|].
        assert (Lt : ML t1 a b < ML t pin pout).
        { unfold ML. rewrite ET. unfold t1, TpL, krank, rrem. cbn [t_ph t_payload]. lia. }
        split; [lia|]. intros E. exfalso. lia.
      * injection H as <- <- <-.
        split; [exact I|]. split; [repeat split; assumption|].
        pose proof (cl_close b) as Hc.
        assert (Ep : PipesL a (pipe_close b) = PipesL a b) by reflexivity.
        unfold ML. rewrite ET, Ep. unfold TpL, krank, rrem. cbn [t_ph].
        split; [lia|]. intros E. exfalso. lia.
    + destruct Hr.
  - assert (Hp : PayPhase t) by (unfold WfTL in Hw; rewrite Hph in Hw; exact Hw).
    destruct (pay_to_ML _ _ _ _ _ _ _ Hp (pay_work _ _ _ _ _ _ _ Hp H)) as (W2 & G & G4 & G5).
    split; [exact W2|]. split; [exact G|]. split; [exact G4|]. intros E.
    destruct (G5 E) as (A & B & C & D). split; [exact A|]. split; [exact B|]. split; [exact C|].
    destruct D as [D | [D | D]]; [discriminate D | right; left; exact D | right; right; left; exact D].
  - assert (Hp : PayPhase t) by (unfold WfTL in Hw; rewrite Hph in Hw; exact Hw).
    destruct (pay_to_ML _ _ _ _ _ _ _ Hp (pay_work _ _ _ _ _ _ _ Hp H)) as (W2 & G & G4 & G5).
    split; [exact W2|]. split; [exact G|]. split; [exact G4|]. intros E.
    destruct (G5 E) as (A & B & C & D). split; [exact A|]. split; [exact B|]. split; [exact C|].
    destruct D as [D | [D | D]]; [discriminate D | right; left; exact D | right; right; left; exact D].
  - assert (Hp : PayPhase t) by (unfold WfTL in Hw; rewrite Hph in Hw; exact Hw).
    destruct (pay_to_ML _ _ _ _ _ _ _ Hp (pay_work _ _ _ _ _ _ _ Hp H)) as (W2 & G & G4 & G5).
    split; [exact W2|]. split; [exact G|]. split; [exact G4|]. intros E.
    destruct (G5 E) as (A & B & C & D). split; [exact A|]. split; [exact B|]. split; [exact C|].
    destruct D as [D | [D | D]]; [discriminate D | right; left; exact D | right; right; left; exact D].
  - assert (Hp : PayPhase t) by (unfold WfTL in Hw; rewrite Hph in Hw; exact Hw).
    destruct (pay_to_ML _ _ _ _ _ _ _ Hp (pay_work _ _ _ _ _ _ _ Hp H)) as (W2 & G & G4 & G5).
    split; [exact W2|]. split; [exact G|]. split; [exact G4|]. intros E.
    destruct (G5 E) as (A & B & C & D). split; [exact A|]. split; [exact B|]. split; [exact C|].
    destruct D as [D | [D | D]]; [discriminate D | right; left; exact D | right; right; left; exact D].
Qed.

(* ------------------------------------------------------------------ the system potential *)
Definition WfS (s : sys) : Prop := WfTD (s_d s) /\ WfTL (s_l s).

Definition Phi (s : sys) : N :=
  TpD (s_d s) + TpL (s_l s) +
  WDL * len (p_buf (s_dl s)) + len (p_wscript (s_dl s)) + len (p_rscript (s_dl s)) + cl (s_dl s) +
  len (p_buf (s_ld s)) + len (p_wscript (s_ld s)) + len (p_rscript (s_ld s)) + cl (s_ld s).

Definition Blocked (b : bool) (s : sys) : Prop :=
  if b then BlockedL (s_l s) (s_dl s) else BlockedD (s_d s) (s_ld s).

Theorem poll_work : forall b s, WfS s ->
  WfS (poll_side b s) /\ Phi (poll_side b s) <= Phi s /\
  (Phi (poll_side b s) = Phi s -> poll_side b s = s /\ Blocked b s).
Proof.
  intros b s [Hd Hl]. unfold poll_side. destruct s as [td tl dl ld]. cbn [s_d s_l s_dl s_ld] in *.
  destruct b.
  - remember (t_fuel tl dl) as fu eqn:Efu.
    destruct (t_poll fu tl dl ld) as [[t1 pi1] po1] eqn:Et.
    destruct (l_task_work _ _ _ _ _ _ _ Hl Et) as (W & (F1 & F2 & F3) & G1 & G2).
    split; [split; assumption|].
    assert (Ec : cl pi1 = cl dl) by (unfold cl; rewrite F2; reflexivity).
    unfold Phi, Blocked. cbn [s_d s_l s_dl s_ld]. unfold ML, PipesL in G1, G2. rewrite F1, F3.
    split; [unfold WDL in *; lia|]. intros E.
    assert (E' : TpL t1 + (len (p_buf po1) + len (p_wscript po1) + WDL * len (p_buf pi1) + len (p_rscript pi1)) + cl po1 =
                 TpL tl + (len (p_buf ld) + len (p_wscript ld) + WDL * len (p_buf dl) + len (p_rscript dl)) + cl ld)
      by (unfold WDL in *; lia).
    destruct (G2 E') as (-> & -> & -> & Hb). split; [reflexivity|].
    destruct Hb as [Hb | Hb]; [rewrite Efu in Hb; unfold t_fuel in Hb; lia | exact Hb].
  - remember (t_fuel td ld) as fu eqn:Efu.
    destruct (t_poll fu td ld dl) as [[t1 pi1] po1] eqn:Et.
    destruct (d_task_work _ _ _ _ _ _ _ Hd Et) as (W & (F1 & F2 & F3) & G1 & G2).
    split; [split; assumption|].
    assert (Ec : cl pi1 = cl ld) by (unfold cl; rewrite F2; reflexivity).
    unfold Phi, Blocked. cbn [s_d s_l s_dl s_ld]. unfold MD, PipesD in G1, G2. rewrite F1, F3.
    split; [unfold WDL in *; lia|]. intros E.
    assert (E' : TpD t1 + (WDL * len (p_buf po1) + len (p_wscript po1) + len (p_buf pi1) + len (p_rscript pi1)) + cl po1 =
                 TpD td + (WDL * len (p_buf dl) + len (p_wscript dl) + len (p_buf ld) + len (p_rscript ld)) + cl dl)
      by (unfold WDL in *; lia).
    destruct (G2 E') as (-> & -> & -> & Hb). split; [reflexivity|].
    destruct Hb as [Hb | Hb]; [rewrite Efu in Hb; unfold t_fuel in Hb; lia | exact Hb].
Qed.

(* ------------------------------------------------------------------ two blocked tasks are two
   finished tasks *)
Lemma DTask_closed : forall ds t m sv rv, DTask ds t m sv rv ->
  (t_ph t = TDone \/ exists acc, t_ph t = TRead NCompleted acc) ->
  forall rv' p c w, DirRel sv rv' p c w -> p_closed p = true.
Proof.
  intros ds t m sv rv H Hph rv' p c w (X & Hs & _).
  destruct H as [d E | sv rv i q pre HV | code E].
  - destruct Hph as [E' | (acc & E')]; rewrite E in E'; discriminate.
  - destruct HV as [rem pw E | E | acc E | E]; cbn in Hs;
      try (destruct Hph as [E' | (acc' & E')]; rewrite E in E'; discriminate); tauto.
  - cbn in Hs. tauto.
Qed.

Lemma LTask_closed : forall ls t m sv rv, LTask ls t m sv rv ->
  (t_ph t = TDone \/ exists acc, t_ph t = TRead NCompleted acc) ->
  forall rv' p c w, DirRel sv rv' p c w -> p_closed p = true.
Proof.
  intros ls t m sv rv H Hph rv' p c w (X & Hs & _).
  destruct H as [l E | sv rv j n HV | code E].
  - destruct Hph as [E' | (acc & E')]; rewrite E in E'; discriminate.
  - destruct HV as [rem pw E | E | acc E | E]; cbn in Hs;
      try (destruct Hph as [E' | (acc' & E')]; rewrite E in E'; discriminate); tauto.
  - cbn in Hs. tauto.
Qed.

Lemma dir_empty_no_msg : forall sv st p c w, Forall okmsg (c ++ w) ->
  DirRel sv (RvN st) p c w -> p_buf p = [] -> c = [].
Proof.
  intros sv st p c w Hok (X & _ & (pre & H1 & H2)) Hb. rewrite Hb, app_nil_r in H2.
  destruct c as [|x c']; [reflexivity|]. exfalso.
  cbn [FR flat_map] in H2. destruct H1 as [[_ ->] | (m0 & rest & E & Hi)].
  - symmetry in H2. apply app_eq_nil in H2. destruct H2 as [H2 _].
    apply app_eq_nil in H2. destruct H2 as [H2 _]. exact (fr_nonempty x H2).
  - cbn [app] in E. injection E as <- _.
    assert (Hm : okmsg x) by (inversion Hok; assumption). destruct Hm as [_ Hlen].
    destruct (InFrame_prefix _ _ _ Hlen Hi) as (z & Hz & Hf).
    unfold fr in H2. rewrite Hf in H2.
    assert (L := f_equal (@length N) H2). rewrite !app_length in L.
    destruct z; [congruence | cbn [length] in L; lia].
Qed.

Lemma ReadWait_ph : forall t pin, ReadWait t pin ->
  (exists acc, t_ph t = TRead NCompleted acc) /\ p_closed pin = false.
Proof. intros t pin (acc & E & _ & C). eauto. Qed.

Theorem no_deadlock : forall ds ls, Forall wfn ds -> forall s m, Sim ds ls s m ->
  Blocked false s -> Blocked true s ->
  t_done (s_d s) = true /\ t_done (s_l s) = true.
Proof.
  intros ds ls Hwf s m (HR & svd & rvd & svl & rvl & HD & HL & Hdl & Hld) Bd Bl.
  unfold Blocked in Bd, Bl.
  (* the closed flags seen by a task that waits or is done *)
  assert (Cd : (t_ph (s_d s) = TDone \/ exists acc, t_ph (s_d s) = TRead NCompleted acc) ->
               p_closed (s_dl s) = true).
  { intros E. exact (DTask_closed ds _ _ _ _ HD E _ _ _ _ Hdl). }
  assert (Cl : (t_ph (s_l s) = TDone \/ exists acc, t_ph (s_l s) = TRead NCompleted acc) ->
               p_closed (s_ld s) = true).
  { intros E. exact (LTask_closed ls _ _ _ _ HL E _ _ _ _ Hld). }
  destruct Bd as [Bd | [Bd | (d & Ed & (Ea & Eb & Ec))]].
  - (* dialer done *)
    pose proof (Cd (or_introl Bd)) as Hc.
    destruct Bl as [Bl | [Bl | (l & El & (_ & _ & Ecl))]].
    + unfold t_done. rewrite Bd, Bl. split; reflexivity.
    + destruct (ReadWait_ph _ _ Bl) as [_ E]. congruence.
    + congruence.
  - destruct (ReadWait_ph _ _ Bd) as [Ph Eo]. pose proof (Cd (or_intror Ph)) as Hc.
    destruct Bl as [Bl | [Bl | (l & El & (_ & _ & Ecl))]].
    + pose proof (Cl (or_introl Bl)). congruence.
    + destruct (ReadWait_ph _ _ Bl) as [_ E]. congruence.
    + congruence.
  - (* dialer awaits on an empty open pipe *)
    destruct Bl as [Bl | [Bl | (l & El & (Ela & Elb & Elc))]].
    + pose proof (Cl (or_introl Bl)). congruence.
    + destruct (ReadWait_ph _ _ Bl) as [Ph _]. pose proof (Cl (or_intror Ph)). congruence.
    + (* both negotiate and both wait: the message level would be stuck short of its final state *)
      exfalso.
      destruct HD as [d0 E0 HDl Hcl _ | sv rv i q pre HV | code E0]; try (rewrite Ed in E0; discriminate).
      2:{ destruct HV as [rem pw E | E | acc E | E]; rewrite Ed in E; discriminate. }
      rewrite Ed in E0. injection E0 as <-.
      destruct HL as [l0 E0 HLl Hcl' _ | sv rv j n HV | code E0]; try (rewrite El in E0; discriminate).
      2:{ destruct HV as [rem pw E | E | acc E | E]; rewrite El in E; discriminate. }
      rewrite El in E0. injection E0 as <-.
      destruct Ea as (i & p & hr & Eph). destruct HDl as [_ HDl]. rewrite Eph in HDl.
      destruct HDl as (Hmd & _).
      destruct HLl as [_ HLl].
      assert (Hml : ml_ph (sl m) = MLRecvHeader \/ ml_ph (sl m) = MLRecvMsg).
      { destruct Ela as [E | E]; rewrite E in HLl; destruct HLl as [HLl _]; auto. }
      pose proof (dir_empty_no_msg _ _ _ _ _ (ok_ld ds ls Hwf m HR) Hld Eb) as Hcld.
      pose proof (dir_empty_no_msg _ _ _ _ _ (ok_dl ds ls Hwf m HR) Hdl Elb) as Hcdl.
      assert (HT : terminal m).
      { intros [|]; cbn.
        - unfold en_d. rewrite Hmd, Hcld. exact Hcl'.
        - unfold en_l. destruct Hml as [E | E]; rewrite E, Hcdl; exact Hcl. }
      destruct (Reach_converge ds ls m (wfd_ds ds Hwf) HR) as (n & F & Hreach & Hf).
      destruct (reach_terminal_0 ls n m F HT Hreach) as [_ ->].
      destruct Hf as (H1 & _). rewrite Hmd in H1. discriminate.
Qed.

(* ------------------------------------------------------------------ termination *)
Lemma polls_cons : forall b who s, polls (b :: who) s = polls who (poll_side b s).
Proof. reflexivity. Qed.

Lemma polls_app : forall a b s, polls (a ++ b) s = polls b (polls a s).
Proof. intros. unfold polls. apply fold_left_app. Qed.

Lemma polls_work : forall who s, WfS s ->
  WfS (polls who s) /\ Phi (polls who s) <= Phi s /\
  (Phi (polls who s) = Phi s -> polls who s = s /\ forall b, In b who -> Blocked b s).
Proof.
  induction who as [|b who IH]; intros s Hw.
  - split; [exact Hw|]. split; [cbn; lia|]. intros _. split; [reflexivity|]. intros b [].
  - rewrite polls_cons. destruct (poll_work b s Hw) as (W1 & L1 & E1).
    destruct (IH _ W1) as (W2 & L2 & E2).
    split; [exact W2|]. split; [lia|]. intros E.
    assert (Ea : Phi (poll_side b s) = Phi s) by lia.
    destruct (E1 Ea) as [Es Hb]. rewrite Es in *.
    destruct (E2 E) as [Es2 Hb2]. split; [exact Es2|].
    intros x [<- | Hx]; [exact Hb | exact (Hb2 x Hx)].
Qed.

Lemma done_stable : forall who s, t_done (s_d s) = true -> t_done (s_l s) = true -> polls who s = s.
Proof.
  induction who as [|b who IH]; intros s Hd Hl; [reflexivity|].
  rewrite polls_cons.
  assert (E : poll_side b s = s).
  { destruct s as [[phd pd rd gd ed] [phl pl rl gl el] dl ld]. cbn in Hd, Hl.
    unfold t_done in Hd, Hl. cbn in Hd, Hl.
    destruct phd; try discriminate. destruct phl; try discriminate.
    unfold poll_side. destruct b; reflexivity. }
  rewrite E. apply IH; assumption.
Qed.

Theorem bytes_terminate_gen : forall ds ls, Forall wfn ds ->
  forall K who s m, WfS s -> Sim ds ls s m -> fair K who -> Phi s < N.of_nat K ->
  t_done (s_d (polls who s)) = true /\ t_done (s_l (polls who s)) = true.
Proof.
  intros ds ls Hwf. induction K as [|K IH]; intros who s m Hw Hs Hf Hphi; [lia|].
  cbn in Hf. destruct Hf as (blk & rest & -> & Ht & Hfl & Hf).
  rewrite polls_app.
  destruct (polls_work blk s Hw) as (W1 & L1 & E1).
  destruct (polls_sim ds ls Hwf blk s m Hs) as (sched & Hs1).
  destruct (N.eq_dec (Phi (polls blk s)) (Phi s)) as [E | E].
  - destruct (E1 E) as [Es Hb]. rewrite Es.
    destruct (no_deadlock ds ls Hwf s m Hs (Hb false Hfl) (Hb true Ht)) as [Dd Dl].
    rewrite (done_stable rest s Dd Dl). split; assumption.
  - apply (IH rest _ _ W1 Hs1 Hf). lia.
Qed.

Lemma wfs_init : forall c, wf_case c -> WfS (sys_init c).
Proof.
  intros c [Hl _]. split; unfold sys_init, WfTD, WfTL; cbn.
  - split; [exact Hl | exact I].
  - exact I.
Qed.

(* both tasks of a well-formed V1 case finish under every fair poll sequence: K blocks, each
   polling both sides at least once, suffice as soon as K exceeds the initial potential *)
Theorem bytes_terminate : forall c, wf_case c -> forall K who,
  fair K who -> Phi (sys_init c) < N.of_nat K ->
  t_done (s_d (polls who (sys_init c))) = true /\ t_done (s_l (polls who (sys_init c))) = true.
Proof.
  intros c Hc K who Hf Hphi. destruct Hc as [Hl Hw].
  exact (bytes_terminate_gen (c_ds c) (c_ls c) Hw K who _ _ (wfs_init c (conj Hl Hw))
           (sim_init c (conj Hl Hw)) Hf Hphi).
Qed.
