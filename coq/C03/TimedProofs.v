(* C03 — negotiation under the transports' timeout wrapper (Timed.v): proofs.

   1. What a task does when its inbound pipe has been closed by the peer (the peer's wrapper fired
      and dropped the stream) compared with the same poll on the still-open pipe: the same, or it
      has observed the end of the stream and is finished — with the result it already had, or a
      failure. Hence:
   2. SAFETY for every timed run (any timeouts, any interleaving of polls and clock ticks): there
      is a plain poll sequence (no timeouts) whose state the timed run shadows; a success reported
      under timeouts is a success of that plain run, so it carries the exact index of the dialer's
      first supported name (BytesThm). A timeout never makes a side settle on a wrong protocol.
   3. TERMINATION for every fair timed run, and what a fired timeout leaves behind.
   4. No timer fires while the clock has not reached the timeouts: the timed run IS the plain run. *)
From Coq Require Import List Arith NArith Bool Lia ZifyBool ZifyNat ZifyN.
From V.gen Require Import Consts.
From V.common Require Import Wire.
From V.C03 Require Import Model Msg Proofs MsgRef MsgProofs MsgInv Chan Dir SimD SimL SimSys BytesThm.
From V.C03 Require Import Work Work2 Live Timed.
Import ListNotations.
Open Scope N_scope.

Arguments N.add : simpl never.
Arguments N.sub : simpl never.
Arguments N.eqb : simpl never.
Arguments N.ltb : simpl never.
Arguments N.leb : simpl never.
Arguments N.of_nat : simpl never.
Arguments N.min : simpl never.

(* ------------------------------------------------------------------ 1. a closed inbound pipe *)
Lemma pipe_close_buf : forall p, p_buf (pipe_close p) = p_buf p.
Proof. reflexivity. Qed.

Lemma pipe_close_idem : forall p, pipe_close (pipe_close p) = pipe_close p.
Proof. reflexivity. Qed.

Lemma pipe_close_closed : forall p, p_closed p = true -> pipe_close p = p.
Proof. intros [b c rs ws t] H. cbn in H. subst. reflexivity. Qed.

(* a read either finds data (then the closed flag plays no role) or finds the pipe empty *)
Lemma pipe_read_closed : forall p k p1 r, pipe_read p k = (p1, r) ->
  (pipe_read (pipe_close p) k = (pipe_close p1, r)) \/
  (p_buf p = [] /\ p1 = p /\ pipe_read (pipe_close p) k = (pipe_close p, REof)).
Proof.
  intros p k p1 r H. unfold pipe_read in *. cbn [pipe_close p_buf p_closed p_rscript p_wscript p_total].
  destruct (p_buf p) as [|x b] eqn:Eb.
  - right. injection H as <- _. auto.
  - left. destruct (p_rscript p) as [|c s].
    + injection H as <- <-. reflexivity.
    + destruct (c =? 0); injection H as <- <-; reflexivity.
Qed.

Definition rd_bad (r : fres) : Prop := r = FNone \/ r = FErr IoUnexpectedEof.

Lemma rd_poll_closed : forall fuel st p st1 p1 r, rd_poll fuel st p = (st1, p1, r) ->
  exists r', rd_poll fuel st (pipe_close p) = (st1, pipe_close p1, r') /\
             (r' = r \/ (r = FPending /\ rd_bad r')).
Proof.
  induction fuel as [|f IH]; intros st p st1 p1 r H.
  - cbn in *. injection H as <- <- <-. exists FPending. auto.
  - cbn [rd_poll] in *. destruct st as [buf | n acc].
    + destruct (pipe_read p 1) as [pa ra] eqn:Er.
      destruct (pipe_read_closed _ _ _ _ Er) as [Ec | (Hb & -> & Ec)]; rewrite Ec.
      * destruct ra as [| |bs].
        -- injection H as <- <- <-. eexists; split; [reflexivity | auto].
        -- injection H as <- <- <-. eexists; split; [reflexivity | auto].
        -- destruct (last bs 0 <? 128).
           ++ destruct (dec_len (buf ++ bs)) as [n|].
              ** destruct (1 <=? n); [exact (IH _ _ _ _ _ H)|].
                 injection H as <- <- <-. eexists; split; [reflexivity | auto].
              ** injection H as <- <- <-. eexists; split; [reflexivity | auto].
           ++ destruct (len (buf ++ bs) =? C03_MAX_LEN_BYTES).
              ** injection H as <- <- <-. eexists; split; [reflexivity | auto].
              ** exact (IH _ _ _ _ _ H).
      * unfold pipe_read in Er. rewrite Hb in Er.
        destruct (p_closed p); injection Er as <-; injection H as <- <- <-;
          (eexists; split; [reflexivity|]); destruct buf; unfold rd_bad; auto.
    + destruct (pipe_read p (n - len acc)) as [pa ra] eqn:Er.
      destruct (pipe_read_closed _ _ _ _ Er) as [Ec | (Hb & -> & Ec)]; rewrite Ec.
      * destruct ra as [| |bs].
        -- injection H as <- <- <-. eexists; split; [reflexivity | auto].
        -- injection H as <- <- <-. eexists; split; [reflexivity | auto].
        -- destruct (len (acc ++ bs) =? n).
           ++ injection H as <- <- <-. eexists; split; [reflexivity | auto].
           ++ exact (IH _ _ _ _ _ H).
      * unfold pipe_read in Er. rewrite Hb in Er.
        destruct (p_closed p); injection Er as <-; injection H as <- <- <-;
          (eexists; split; [reflexivity|]); unfold rd_bad; auto.
Qed.

Definition m_bad (r : mres) : Prop := r = MEof \/ r = MFail C_IO_EOF.

Lemma msg_poll_closed : forall st p st1 p1 r, msg_poll st p = (st1, p1, r) ->
  exists r', msg_poll st (pipe_close p) = (st1, pipe_close p1, r') /\
             (r' = r \/ (r = MPending /\ m_bad r')).
Proof.
  intros st p st1 p1 r H. unfold msg_poll in *.
  replace (rd_fuel (pipe_close p)) with (rd_fuel p) by reflexivity.
  destruct (rd_poll (rd_fuel p) st p) as [[sa pa] ra] eqn:Er.
  destruct (rd_poll_closed _ _ _ _ _ _ Er) as (r' & Ec & Hr). rewrite Ec.
  injection H as <- <- <-. eexists; split; [reflexivity|].
  destruct Hr as [-> | (-> & [-> | ->])]; [left; reflexivity | right | right];
    (split; [reflexivity|]); [left | right]; reflexivity.
Qed.

Ltac same_leaf H := injection H as <- <- <- <-; do 2 eexists; split; [reflexivity | auto].

(* the dialer future: same outcome, or an error where the open pipe said Pending *)
Lemma d_poll_closed : forall fuel d pin pout d1 pi1 po1 r,
  d_poll fuel d pin pout = (d1, pi1, po1, r) ->
  exists d1' r', d_poll fuel d (pipe_close pin) pout = (d1', pipe_close pi1, po1, r') /\
    ((d1' = d1 /\ r' = r) \/ (r = NPending /\ exists c, r' = NErr c /\ c <> 0)).
Proof.
  induction fuel as [|f IH]; intros d pin pout d1 pi1 po1 r H.
  - cbn in *. same_leaf H.
  - cbn [d_poll] in *. destruct (d_ph d) as [|i p hr|i p hr|i p hr].
    + destruct (wr_ready (d_wbuf d) pout) as [[w1 poa] ok]. destruct ok; cbn [negb] in *.
      * destruct (wr_send w1 MSG_HEADER) as [w2|].
        -- destruct (d_rest d) as [|[i p] rest]; [same_leaf H | exact (IH _ _ _ _ _ _ _ H)].
        -- same_leaf H.
      * same_leaf H.
    + destruct (wr_ready (d_wbuf d) pout) as [[w1 poa] ok]. destruct ok; cbn [negb] in *.
      * destruct (starts_slash p); cbn [negb] in *.
        -- destruct (wr_send w1 (encode_msg (MProto p))) as [w2|].
           ++ destruct (d_rest d) as [|x rest].
              ** destruct (d_lazy d); [same_leaf H | exact (IH _ _ _ _ _ _ _ H)].
              ** exact (IH _ _ _ _ _ _ _ H).
           ++ same_leaf H.
        -- same_leaf H.
      * same_leaf H.
    + destruct (wr_drain (wr_fuel (d_wbuf d)) (d_wbuf d) pout) as [[w1 poa] ok]. destruct ok.
      * exact (IH _ _ _ _ _ _ _ H).
      * same_leaf H.
    + destruct (msg_poll (d_rd d) pin) as [[sa pa] ra] eqn:Em.
      destruct (msg_poll_closed _ _ _ _ _ Em) as (r' & Ec & Hr). rewrite Ec.
      destruct Hr as [-> | (-> & Hbad)].
      * destruct ra as [| |m|c]; try (same_leaf H).
        destruct (d_react p hr m); try (same_leaf H).
        -- exact (IH _ _ _ _ _ _ _ H).
        -- destruct (d_rest d) as [|[i' p'] rest]; [same_leaf H | exact (IH _ _ _ _ _ _ _ H)].
      * injection H as <- <- <- <-.
        destruct Hbad as [-> | ->]; do 2 eexists; (split; [reflexivity|]); right;
          (split; [reflexivity|]); eexists; (split; [reflexivity|]); discriminate.
Qed.

Lemma l_poll_closed : forall fuel l pin pout l1 pi1 po1 r,
  l_poll fuel l pin pout = (l1, pi1, po1, r) ->
  exists l1' r', l_poll fuel l (pipe_close pin) pout = (l1', pipe_close pi1, po1, r') /\
    ((l1' = l1 /\ r' = r) \/ (r = NPending /\ exists c, r' = NErr c /\ c <> 0)).
Proof.
  induction fuel as [|f IH]; intros l pin pout l1 pi1 po1 r H.
  - cbn in *. same_leaf H.
  - cbn [l_poll] in *. destruct (l_ph l) as [| | |m o|o].
    + destruct (msg_poll (l_rd l) pin) as [[sa pa] ra] eqn:Em.
      destruct (msg_poll_closed _ _ _ _ _ Em) as (r' & Ec & Hr). rewrite Ec.
      destruct Hr as [-> | (-> & Hbad)].
      * destruct ra as [| |m|c]; try (same_leaf H).
        destruct m; try (same_leaf H). exact (IH _ _ _ _ _ _ _ H).
      * injection H as <- <- <- <-.
        destruct Hbad as [-> | ->]; do 2 eexists; (split; [reflexivity|]); right;
          (split; [reflexivity|]); eexists; (split; [reflexivity|]); discriminate.
    + destruct (wr_ready (l_wbuf l) pout) as [[w1 poa] ok]. destruct ok; cbn [negb] in *.
      * destruct (wr_send w1 MSG_HEADER) as [w2|]; [exact (IH _ _ _ _ _ _ _ H) | same_leaf H].
      * same_leaf H.
    + destruct (msg_poll (l_rd l) pin) as [[sa pa] ra] eqn:Em.
      destruct (msg_poll_closed _ _ _ _ _ Em) as (r' & Ec & Hr). rewrite Ec.
      destruct Hr as [-> | (-> & Hbad)].
      * destruct ra as [| |m|c]; try (same_leaf H).
        -- destruct m as [|p| |ps|]; try (same_leaf H); try exact (IH _ _ _ _ _ _ _ H).
           destruct (l_find (l_protos l) p); exact (IH _ _ _ _ _ _ _ H).
        -- destruct (l_na l && ((c =? C_INVMSG) || (c =? C_IO_EOF))); same_leaf H.
      * injection H as <- <- <- <-.
        destruct Hbad as [-> | ->].
        -- do 2 eexists. split; [reflexivity|]. right. split; [reflexivity|].
           eexists. split; [reflexivity | discriminate].
        -- destruct (l_na l && ((C_IO_EOF =? C_INVMSG) || (C_IO_EOF =? C_IO_EOF)));
             do 2 eexists; (split; [reflexivity|]); right; (split; [reflexivity|]);
             eexists; (split; [reflexivity | discriminate]).
    + destruct (wr_ready (l_wbuf l) pout) as [[w1 poa] ok]. destruct ok; cbn [negb] in *.
      * destruct (wr_send w1 (encode_msg m)) as [w2|]; [exact (IH _ _ _ _ _ _ _ H) | same_leaf H].
      * same_leaf H.
    + destruct (wr_drain (wr_fuel (l_wbuf l)) (l_wbuf l) pout) as [[w1 poa] ok]. destruct ok.
      * destruct o; [same_leaf H | exact (IH _ _ _ _ _ _ _ H)].
      * same_leaf H.
Qed.

Lemma neg_poll_closed : forall fuel g pin pout g1 pi1 po1 r,
  neg_poll fuel g pin pout = (g1, pi1, po1, r) ->
  exists g1' r', neg_poll fuel g (pipe_close pin) pout = (g1', pipe_close pi1, po1, r') /\
    ((g1' = g1 /\ r' = r) \/ (r = PPending /\ exists c, r' = PErr c /\ c <> 0)).
Proof.
  induction fuel as [|f IH]; intros g pin pout g1 pi1 po1 r H.
  - cbn in *. same_leaf H.
  - cbn [neg_poll] in *. destruct g as [|st wbuf p hdr|]; try (same_leaf H).
    destruct (wr_drain (wr_fuel wbuf) wbuf pout) as [[w1 poa] ok]. destruct ok; cbn [negb] in *;
      [|same_leaf H].
    destruct (msg_poll st pin) as [[sa pa] ra] eqn:Em.
    destruct (msg_poll_closed _ _ _ _ _ Em) as (r' & Ec & Hr). rewrite Ec.
    destruct Hr as [-> | (-> & Hbad)].
    + destruct ra as [| |m|c]; try (same_leaf H).
      destruct m as [|q| |ps|]; try (same_leaf H).
      * destruct hdr; [exact (IH _ _ _ _ _ _ _ H) | same_leaf H].
      * destruct (name_eqb q p); same_leaf H.
    + injection H as <- <- <- <-.
      destruct Hbad as [-> | ->]; do 2 eexists; (split; [reflexivity|]); right;
        (split; [reflexivity|]); eexists; (split; [reflexivity|]); discriminate.
Qed.

(* the task has seen the end of the stream where the open pipe would have said Pending: it is
   finished, (1) with a failure, or (2) it was reading application data and has delivered what it
   had read so far with a clean EOF, or (3) it was still expecting the confirmation of an
   optimistic negotiation and reports a read error; in (2) and (3) the result it had is kept *)
Definition diverged (ta t : task) : Prop :=
  t_ph ta = TDone /\
  (fst (t_res ta) <> 0 \/
   (t_res ta = t_res t /\ exists acc, t_ph t = TRead NCompleted acc /\ t_got ta = acc /\ t_end ta = 0) \/
   (t_res ta = t_res t /\ t_end ta <> 0 /\ exists g acc, t_ph t = TRead g acc /\ g <> NCompleted)).

Lemma io_code_nonzero : forall c, c <> 0 -> io_code c <> 0.
Proof.
  intros c H. unfold io_code.
  destruct (c =? C_FAILED); [discriminate|]. destruct (c =? C_IO_EOF); [discriminate|].
  destruct (c =? 0) eqn:E; [apply N.eqb_eq in E; contradiction | discriminate].
Qed.

Lemma neg_poll_pending_state : forall fuel g pin pout g1 pi1 po1,
  neg_poll fuel g pin pout = (g1, pi1, po1, PPending) -> g <> NCompleted -> g1 <> NCompleted.
Proof.
  induction fuel as [|f IH]; intros g pin pout g1 pi1 po1 H Hg; [cbn in H; congruence|].
  cbn [neg_poll] in H. destruct g as [|st wbuf p hdr|]; [contradiction| |discriminate].
  destruct (wr_drain (wr_fuel wbuf) wbuf pout) as [[w1 poa] ok]. destruct ok; cbn [negb] in H;
    [|injection H as <- _ _; discriminate].
  destruct (msg_poll st pin) as [[sa pa] ra]. destruct ra as [| |m|c]; try discriminate.
  - injection H as <- _ _. discriminate.
  - destruct m as [|q| |ps|]; try discriminate.
    + destruct hdr; [|discriminate]. apply (IH _ _ _ _ _ _ H). discriminate.
    + destruct (name_eqb q p); discriminate.
Qed.

Ltac t_same H := injection H as <- <- <-; do 3 eexists; split; [reflexivity | left; auto].

(* one poll of a task whose inbound pipe was closed by the peer, against the same poll on the
   pipe as it was: lock-step, or the task has seen the end of the stream and is finished *)
Lemma t_poll_closed : forall fuel t pin pout t1 pi1 po1,
  t_poll fuel t pin pout = (t1, pi1, po1) ->
  exists t1' pi1' po1', t_poll fuel t (pipe_close pin) pout = (t1', pi1', po1') /\
    ((t1' = t1 /\ pi1' = pipe_close pi1 /\ po1' = po1) \/ diverged t1' t1).
Proof.
  induction fuel as [|f IH]; intros t pin pout t1 pi1 po1 H.
  - cbn in *. t_same H.
  - cbn [t_poll] in *. destruct (t_ph t) as [fu|g rem|g|g acc|] eqn:Eph.
    + (* negotiating *)
      destruct fu as [d | l].
      * replace (d_fuel d (pipe_close pin)) with (d_fuel d pin) by reflexivity.
        destruct (d_poll (d_fuel d pin) d pin pout) as [[[da pa] poa] ra] eqn:Ed.
        destruct (d_poll_closed _ _ _ _ _ _ _ _ Ed) as (d' & r' & Ec & Hr). rewrite Ec.
        destruct Hr as [[-> ->] | (-> & c & -> & Hc)].
        -- destruct ra as [|c|i|i p st w]; try (t_same H).
           ++ destruct (rd_buffer_empty (d_rd da) && match d_wbuf da with [] => true | _ :: _ => false end);
                [exact (IH _ _ _ _ _ _ H) | t_same H].
           ++ exact (IH _ _ _ _ _ _ H).
        -- injection H as <- <- <-. do 3 eexists. split; [reflexivity|]. right.
           split; [reflexivity|]. left. exact Hc.
      * replace (l_fuel (pipe_close pin)) with (l_fuel pin) by reflexivity.
        destruct (l_poll (l_fuel pin) l pin pout) as [[[la pa] poa] ra] eqn:Ed.
        destruct (l_poll_closed _ _ _ _ _ _ _ _ Ed) as (l' & r' & Ec & Hr). rewrite Ec.
        destruct Hr as [[-> ->] | (-> & c & -> & Hc)].
        -- destruct ra as [|c|i|i p st w]; try (t_same H).
           ++ destruct (rd_buffer_empty (l_rd la) && match l_wbuf la with [] => true | _ :: _ => false end);
                [exact (IH _ _ _ _ _ _ H) | t_same H].
           ++ exact (IH _ _ _ _ _ _ H).
        -- injection H as <- <- <-. do 3 eexists. split; [reflexivity|]. right.
           split; [reflexivity|]. left. exact Hc.
    + (* writing the payload: the inbound pipe is not touched *)
      destruct rem as [|b rem]; [exact (IH _ _ _ _ _ _ H)|].
      destruct g as [|st wbuf p hdr|].
      * destruct (pipe_write pout (b :: rem)) as [poa [n|]]; [exact (IH _ _ _ _ _ _ H) | t_same H].
      * destruct (wr_drain (wr_fuel wbuf) wbuf pout) as [[w1 poa] ok]. destruct ok; cbn [negb] in *.
        -- destruct (pipe_write poa (b :: rem)) as [pob [n|]]; [exact (IH _ _ _ _ _ _ H) | t_same H].
        -- t_same H.
      * destruct (pipe_write pout (b :: rem)) as [poa [n|]]; [exact (IH _ _ _ _ _ _ H) | t_same H].
    + destruct g as [|st wbuf p hdr|]; try exact (IH _ _ _ _ _ _ H).
      destruct (wr_drain (wr_fuel wbuf) wbuf pout) as [[w1 poa] ok]. destruct ok; cbn [negb] in *;
        [exact (IH _ _ _ _ _ _ H) | t_same H].
    + (* reading *)
      assert (Hneg : forall g', g' <> NCompleted ->
                (let '(g1, pi1, po1, r) := neg_poll (neg_fuel pin) g' pin pout in
                 match r with
                 | PPending => (mkTask (TRead g1 acc) (t_payload t) (t_res t) (t_got t) (t_end t), pi1, po1)
                 | POk => t_poll f (mkTask (TRead g1 acc) (t_payload t) (t_res t) (t_got t) (t_end t)) pi1 po1
                 | PErr c => (mkTask TDone (t_payload t) (t_res t) acc (io_code c), pi1, po1)
                 end) = (t1, pi1, po1) ->
                exists t1' pi1' po1',
                  (let '(g1, pi1, po1, r) := neg_poll (neg_fuel (pipe_close pin)) g' (pipe_close pin) pout in
                   match r with
                   | PPending => (mkTask (TRead g1 acc) (t_payload t) (t_res t) (t_got t) (t_end t), pi1, po1)
                   | POk => t_poll f (mkTask (TRead g1 acc) (t_payload t) (t_res t) (t_got t) (t_end t)) pi1 po1
                   | PErr c => (mkTask TDone (t_payload t) (t_res t) acc (io_code c), pi1, po1)
                   end) = (t1', pi1', po1') /\
                  ((t1' = t1 /\ pi1' = pipe_close pi1 /\ po1' = po1) \/ diverged t1' t1)).
      { intros g' Hg' H'.
        replace (neg_fuel (pipe_close pin)) with (neg_fuel pin) by reflexivity.
        destruct (neg_poll (neg_fuel pin) g' pin pout) as [[[ga pa] poa] ra] eqn:En.
        destruct (neg_poll_closed _ _ _ _ _ _ _ _ En) as (g'' & r' & Ec & Hr). rewrite Ec.
        destruct Hr as [[-> ->] | (-> & c & -> & Hc)].
        - destruct ra as [| |c]; [t_same H' | exact (IH _ _ _ _ _ _ H') | t_same H'].
        - injection H' as <- <- <-. do 3 eexists. split; [reflexivity|]. right.
          split; [reflexivity|]. right. right. split; [reflexivity|].
          split; [cbn [t_end]; apply io_code_nonzero; exact Hc|].
          exists ga, acc. split; [reflexivity|]. exact (neg_poll_pending_state _ _ _ _ _ _ _ En Hg'). }
      destruct g as [|st wbuf p hdr|].
      * destruct (pipe_read pin READ_CHUNK) as [pa ra] eqn:Er.
        destruct (pipe_read_closed _ _ _ _ Er) as [Ec | (Hb & -> & Ec)]; rewrite Ec.
        -- destruct ra as [| |bs]; [t_same H | t_same H | exact (IH _ _ _ _ _ _ H)].
        -- unfold pipe_read in Er. rewrite Hb in Er.
           destruct (p_closed pin) eqn:Ecl; injection Er as <-; injection H as <- <- <-.
           ++ do 3 eexists. split; [reflexivity|]. left. auto.
           ++ do 3 eexists. split; [reflexivity|]. right. split; [reflexivity|]. right. left.
              split; [reflexivity|]. exists acc. auto.
      * apply Hneg; [discriminate | exact H].
      * apply Hneg; [discriminate | exact H].
    + t_same H.
Qed.

(* ------------------------------------------------------------------ 2. the shadow run *)
Lemma t_poll_done : forall fuel t pin pout, t_ph t = TDone -> t_poll fuel t pin pout = (t, pin, pout).
Proof. intros [|f] t pin pout H; cbn [t_poll]; [reflexivity | rewrite H; reflexivity]. Qed.

Lemma poll_side_done : forall who s, t_ph (side_task who s) = TDone -> poll_side who s = s.
Proof.
  intros who [td tl dl ld] H. unfold poll_side. destruct who; cbn [side_task s_d s_l s_dl s_ld] in *;
    rewrite (t_poll_done _ _ _ _ H); reflexivity.
Qed.

Lemma poll_true_d : forall s, s_d (poll_side true s) = s_d s.
Proof. intros s. unfold poll_side. destruct (t_poll _ _ _ _) as [[t1 pi1] po1]. reflexivity. Qed.

Lemma poll_false_l : forall s, s_l (poll_side false s) = s_l s.
Proof. intros s. unfold poll_side. destruct (t_poll _ _ _ _) as [[t1 pi1] po1]. reflexivity. Qed.

(* sa: the state of the timed run; s: a state of the plain system. Either they are equal (no
   timer has fired), or one side was aborted by its timer (finished with a failure; in the plain
   state it is frozen in its negotiation) and the other side either still moves in lock-step
   with the plain run - seeing the same bytes on a pipe that is now closed - or has observed the
   end of the stream and finished. *)
Inductive TRel (sa s : sys) : Prop :=
| TR_same : sa = s -> TRel sa s
| TR_dab : t_ph (s_d sa) = TDone -> fst (t_res (s_d sa)) <> 0 -> in_neg (s_d s) = true ->
    ((s_l sa = s_l s /\ s_dl sa = pipe_close (s_dl s) /\ s_ld sa = s_ld s) \/ diverged (s_l sa) (s_l s)) ->
    TRel sa s
| TR_lab : t_ph (s_l sa) = TDone -> fst (t_res (s_l sa)) <> 0 -> in_neg (s_l s) = true ->
    ((s_d sa = s_d s /\ s_ld sa = pipe_close (s_ld s) /\ s_dl sa = s_dl s) \/ diverged (s_d sa) (s_d s)) ->
    TRel sa s.

Lemma poll_rel : forall who sa s, TRel sa s ->
  exists s', (s' = s \/ s' = poll_side who s) /\ TRel (poll_side who sa) s'.
Proof.
  intros who sa s H. destruct H as [-> | Hd Hr Hn Hl | Hl Hr Hn Hd].
  - exists (poll_side who s). split; [right; reflexivity | apply TR_same; reflexivity].
  - destruct who.
    + destruct Hl as [(E1 & E2 & E3) | Hdiv].
      * exists (poll_side true s). split; [right; reflexivity|].
        destruct sa as [tda tla dla lda], s as [td tl dl ld]. cbn [s_d s_l s_dl s_ld] in *. subst tla dla lda.
        unfold poll_side. cbn [s_d s_l s_dl s_ld].
        replace (t_fuel tl (pipe_close dl)) with (t_fuel tl dl) by reflexivity.
        destruct (t_poll (t_fuel tl dl) tl dl ld) as [[t1 pi1] po1] eqn:Et.
        destruct (t_poll_closed _ _ _ _ _ _ _ Et) as (t1' & pi1' & po1' & Ec & Hc). rewrite Ec.
        apply TR_dab; cbn [s_d s_l s_dl s_ld]; [exact Hd | exact Hr | exact Hn|].
        destruct Hc as [(-> & -> & ->) | Hdv]; [left; auto | right; exact Hdv].
      * exists s. split; [left; reflexivity|].
        rewrite (poll_side_done true sa) by (exact (proj1 Hdiv)).
        apply TR_dab; auto.
    + exists s. split; [left; reflexivity|]. rewrite (poll_side_done false sa) by exact Hd.
      apply TR_dab; auto.
  - destruct who.
    + exists s. split; [left; reflexivity|]. rewrite (poll_side_done true sa) by exact Hl.
      apply TR_lab; auto.
    + destruct Hd as [(E1 & E2 & E3) | Hdiv].
      * exists (poll_side false s). split; [right; reflexivity|].
        destruct sa as [tda tla dla lda], s as [td tl dl ld]. cbn [s_d s_l s_dl s_ld] in *. subst tda dla lda.
        unfold poll_side. cbn [s_d s_l s_dl s_ld].
        replace (t_fuel td (pipe_close ld)) with (t_fuel td ld) by reflexivity.
        destruct (t_poll (t_fuel td ld) td ld dl) as [[t1 pi1] po1] eqn:Et.
        destruct (t_poll_closed _ _ _ _ _ _ _ Et) as (t1' & pi1' & po1' & Ec & Hc). rewrite Ec.
        apply TR_lab; cbn [s_d s_l s_dl s_ld]; [exact Hl | exact Hr | exact Hn|].
        destruct Hc as [(-> & -> & ->) | Hdv]; [left; auto | right; exact Hdv].
      * exists s. split; [left; reflexivity|].
        rewrite (poll_side_done false sa) by (exact (proj1 Hdiv)).
        apply TR_lab; auto.
Qed.

Lemma in_neg_not_done : forall t, in_neg t = true -> t_ph t <> TDone.
Proof. intros t H E. unfold in_neg in H. rewrite E in H. discriminate. Qed.

Lemma abort_rel : forall who sa s, TRel sa s -> in_neg (side_task who sa) = true ->
  TRel (abort_side who sa) s.
Proof.
  intros who sa s H Hn. pose proof (in_neg_not_done _ Hn) as Hnd.
  assert (H9 : fst (C_TIMEOUT, 0) <> 0) by (cbn; discriminate).
  destruct H as [-> | Hd Hr Hns Hl | Hl Hr Hns Hd]; destruct who; cbn [side_task] in Hnd, Hn;
    unfold abort_side; try contradiction.
  - apply TR_lab; cbn [s_d s_l s_dl s_ld timed_out t_ph t_res]; auto.
  - apply TR_dab; cbn [s_d s_l s_dl s_ld timed_out t_ph t_res]; auto.
  - apply TR_dab; cbn [s_d s_l s_dl s_ld timed_out t_ph t_res]; auto.
    right. split; [reflexivity | left; exact H9].
  - apply TR_lab; cbn [s_d s_l s_dl s_ld timed_out t_ph t_res]; auto.
    right. split; [reflexivity | left; exact H9].
Qed.

Lemma tstep_rel : forall to_d to_l S e s, TRel (ts_sys S) s ->
  exists s', (s' = s \/ exists who, s' = poll_side who s) /\ TRel (ts_sys (tstep to_d to_l S e)) s'.
Proof.
  intros to_d to_l S e s H. destruct e as [who|]; cbn [tstep].
  - destruct (poll_rel who _ _ H) as (s' & Hs' & H').
    exists s'. split; [destruct Hs' as [-> | ->]; [left; reflexivity | right; eexists; reflexivity]|].
    destruct (in_neg (side_task who (ts_sys S))).
    + match goal with |- context [if ?c then abort_side _ _ else _] => destruct c eqn:Ec end.
      * apply andb_true_iff in Ec. destruct Ec as [Ec _].
        destruct who; cbn [ts_sys]; apply abort_rel; assumption.
      * destruct who; cbn [ts_sys]; exact H'.
    + cbn [ts_sys]. exact H'.
  - exists s. split; [left; reflexivity | exact H].
Qed.

(* every timed run shadows a plain run *)
Theorem timed_shadow : forall c to_d to_l es,
  exists who, TRel (ts_sys (trun to_d to_l es (tinit c))) (polls who (sys_init c)).
Proof.
  intros c to_d to_l es.
  assert (G : forall evs S who0, TRel (ts_sys S) (polls who0 (sys_init c)) ->
              exists who, TRel (ts_sys (trun to_d to_l evs S)) (polls who (sys_init c))).
  { induction evs as [|e evs IH]; intros S who0 H; [exists who0; exact H|].
    cbn [trun fold_left]. fold (trun to_d to_l evs (tstep to_d to_l S e)).
    destruct (tstep_rel to_d to_l S e _ H) as (s' & Hs' & H').
    destruct Hs' as [-> | (who & ->)].
    - exact (IH _ who0 H').
    - apply (IH _ (who0 ++ [who])). rewrite polls_app. exact H'. }
  apply (G es (tinit c) []). apply TR_same. reflexivity.
Qed.

(* a task that has diverged keeps the result of its plain counterpart, unless it failed *)
Lemma diverged_res : forall ta t i, diverged ta t -> t_res ta = (0, i) -> t_res t = (0, i).
Proof.
  intros ta t i (_ & [Hne | [(E & _) | (E & _)]]) H; [|congruence|congruence].
  rewrite H in Hne. cbn in Hne. contradiction.
Qed.

(* SAFETY under timeouts: whatever the timeouts and however polls and clock ticks interleave, a
   side that reports success reports the dialer's first supported name, at its exact index *)
Theorem timed_dialer_result : forall c to_d to_l es, wf_case c ->
  forall i, t_res (s_d (ts_sys (trun to_d to_l es (tinit c)))) = (0, i) ->
  exists p, first_common (c_ds c) (c_ls c) = Some p /\ first_at (c_ds c) (c_ls c) i p.
Proof.
  intros c to_d to_l es Hc i Hres.
  destruct (timed_shadow c to_d to_l es) as (who & H).
  apply (dialer_ok_result c who Hc i).
  destruct H as [<- | Hd Hr _ Hl | Hl Hr _ Hd]; [exact Hres | |].
  - rewrite Hres in Hr. cbn in Hr. contradiction.
  - destruct Hd as [(<- & _) | Hdv]; [exact Hres | exact (diverged_res _ _ _ Hdv Hres)].
Qed.

Theorem timed_listener_result : forall c to_d to_l es, wf_case c ->
  forall j, t_res (s_l (ts_sys (trun to_d to_l es (tinit c)))) = (0, j) ->
  exists p, first_common (c_ds c) (c_ls c) = Some p /\ lidx 0 (c_ls c) p = Some j.
Proof.
  intros c to_d to_l es Hc j Hres.
  destruct (timed_shadow c to_d to_l es) as (who & H).
  apply (listener_ok_result c who Hc j).
  destruct H as [<- | Hd Hr _ Hl | Hl Hr _ Hd]; [exact Hres | |].
  - destruct Hl as [(<- & _) | Hdv]; [exact Hres | exact (diverged_res _ _ _ Hdv Hres)].
  - rewrite Hres in Hr. cbn in Hr. contradiction.
Qed.

(* when both sides report success no timer has interfered: the timed run is a plain run, and
   everything proved about plain runs (transparency, clean hand-over) applies to it *)
Theorem timed_both_ok_plain : forall c to_d to_l es,
  let sa := ts_sys (trun to_d to_l es (tinit c)) in
  fst (t_res (s_d sa)) = 0 -> fst (t_res (s_l sa)) = 0 ->
  exists who, sa = polls who (sys_init c).
Proof.
  intros c to_d to_l es sa Hd Hl.
  destruct (timed_shadow c to_d to_l es) as (who & H). fold sa in H.
  exists who. destruct H as [E | _ Hr _ _ | _ Hr _ _]; [exact E | contradiction | contradiction].
Qed.

(* ------------------------------------------------------------------ 3. termination under timeouts *)
Lemma timed_out_wfd : forall t, WfTD (timed_out t).
Proof. intros t. unfold WfTD, timed_out, PayPhase. cbn. exact I. Qed.
Lemma timed_out_wfl : forall t, WfTL (timed_out t).
Proof. intros t. unfold WfTL, timed_out, PayPhase. cbn. exact I. Qed.

(* a fired timer strictly lowers the potential *)
Lemma abort_work : forall who s, WfS s -> in_neg (side_task who s) = true ->
  WfS (abort_side who s) /\ Phi (abort_side who s) < Phi s.
Proof.
  intros who [td tl dl ld] [Hd Hl] Hn. unfold abort_side. destruct who; cbn [side_task s_d s_l s_dl s_ld] in *.
  - split; [split; [exact Hd | apply timed_out_wfl]|].
    unfold Phi. cbn [s_d s_l s_dl s_ld pipe_close p_buf p_wscript p_rscript].
    assert (A : TpL (timed_out tl) + 20 <= TpL tl).
    { unfold in_neg in Hn. unfold WfTL in Hl. unfold TpL, timed_out, krank, rrem. cbn [t_ph].
      destruct (t_ph tl) as [[d|l]| | | |]; try discriminate; [contradiction | lia]. }
    pose proof (cl_close ld). lia.
  - split; [split; [apply timed_out_wfd | exact Hl]|].
    unfold Phi. cbn [s_d s_l s_dl s_ld pipe_close p_buf p_wscript p_rscript].
    assert (A : TpD (timed_out td) + 20 <= TpD td).
    { unfold in_neg in Hn. unfold WfTD in Hd. unfold TpD, timed_out, krank, rrem. cbn [t_ph].
      destruct (t_ph td) as [[d|l]| | | |]; try discriminate; [lia | contradiction]. }
    pose proof (cl_close dl). lia.
Qed.

Definition is_poll (who : bool) (e : tev) : Prop := e = EPoll who.

(* one event: the potential never grows; a poll that leaves it unchanged changed nothing and
   found the polled task blocked *)
Lemma tstep_work : forall to_d to_l S e, WfS (ts_sys S) ->
  WfS (ts_sys (tstep to_d to_l S e)) /\ Phi (ts_sys (tstep to_d to_l S e)) <= Phi (ts_sys S) /\
  (Phi (ts_sys (tstep to_d to_l S e)) = Phi (ts_sys S) ->
   ts_sys (tstep to_d to_l S e) = ts_sys S /\ forall who, e = EPoll who -> Blocked who (ts_sys S)).
Proof.
  intros to_d to_l S e Hw. destruct e as [who|]; cbn [tstep].
  - destruct (poll_work who _ Hw) as (W1 & L1 & E1).
    assert (Plain : WfS (poll_side who (ts_sys S)) /\ Phi (poll_side who (ts_sys S)) <= Phi (ts_sys S) /\
              (Phi (poll_side who (ts_sys S)) = Phi (ts_sys S) ->
               poll_side who (ts_sys S) = ts_sys S /\ forall w, EPoll who = EPoll w -> Blocked w (ts_sys S))).
    { split; [exact W1|]. split; [exact L1|]. intros E. destruct (E1 E) as [A B].
      split; [exact A|]. intros w Hw'. injection Hw' as <-. exact B. }
    destruct (in_neg (side_task who (ts_sys S))).
    + match goal with |- context [if ?c then abort_side _ _ else _] => destruct c eqn:Ec end.
      * apply andb_true_iff in Ec. destruct Ec as [Ec _].
        destruct (abort_work who _ W1 Ec) as (W2 & L2).
        pose proof (N.lt_le_trans _ _ _ L2 L1) as L3. clear Plain E1 Ec.
        destruct who; cbn [ts_sys]; (split; [exact W2|]); (split; [apply N.lt_le_incl, L3|]);
          intros E; rewrite E in L3; exfalso; exact (N.lt_irrefl _ L3).
      * destruct who; cbn [ts_sys]; exact Plain.
    + cbn [ts_sys]. exact Plain.
  - cbn [ts_sys]. split; [exact Hw|]. split; [lia|]. intros _. split; [reflexivity|]. intros who E. discriminate.
Qed.

Section TimedLive.
Variables (ds ls : list name).
Hypothesis Hwf : Forall wfn ds.

(* either no timer has fired (the state is one of the plain system), or a side was aborted:
   it is finished and its outbound pipe is closed *)
Definition TInv (s : sys) : Prop :=
  (exists m, Sim ds ls s m) \/
  (t_ph (s_d s) = TDone /\ p_closed (s_dl s) = true) \/
  (t_ph (s_l s) = TDone /\ p_closed (s_ld s) = true).

Lemma poll_true_closed : forall s, WfS s -> p_closed (s_dl (poll_side true s)) = p_closed (s_dl s).
Proof.
  intros [td tl dl ld] [Hd Hl]. unfold poll_side. cbn [s_d s_l s_dl s_ld] in *.
  destruct (t_poll (t_fuel tl dl) tl dl ld) as [[t1 pi1] po1] eqn:Et.
  destruct (l_task_work _ _ _ _ _ _ _ Hl Et) as (_ & (_ & F2 & _) & _). exact F2.
Qed.

Lemma poll_false_closed : forall s, WfS s -> p_closed (s_ld (poll_side false s)) = p_closed (s_ld s).
Proof.
  intros [td tl dl ld] [Hd Hl]. unfold poll_side. cbn [s_d s_l s_dl s_ld] in *.
  destruct (t_poll (t_fuel td ld) td ld dl) as [[t1 pi1] po1] eqn:Et.
  destruct (d_task_work _ _ _ _ _ _ _ Hd Et) as (_ & (_ & F2 & _) & _). exact F2.
Qed.

Lemma TInv_poll : forall who s, WfS s -> TInv s -> TInv (poll_side who s).
Proof.
  intros who s Hw [(m & Hs) | [(Hd & Hc) | (Hl & Hc)]].
  - left. destruct (poll_sim ds ls Hwf who s m Hs) as (k & H). eexists. exact H.
  - right. left. destruct who.
    + rewrite poll_true_d, (poll_true_closed s Hw). auto.
    + rewrite (poll_side_done false s) by exact Hd. auto.
  - right. right. destruct who.
    + rewrite (poll_side_done true s) by exact Hl. auto.
    + rewrite poll_false_l, (poll_false_closed s Hw). auto.
Qed.

Lemma TInv_abort : forall who s, TInv s -> TInv (abort_side who s).
Proof.
  intros who s _. unfold abort_side, TInv. destruct who.
  - right. right. cbn [s_l s_ld timed_out t_ph pipe_close p_closed]. auto.
  - right. left. cbn [s_d s_dl timed_out t_ph pipe_close p_closed]. auto.
Qed.

Lemma TInv_step : forall to_d to_l S e, WfS (ts_sys S) -> TInv (ts_sys S) ->
  TInv (ts_sys (tstep to_d to_l S e)).
Proof.
  intros to_d to_l S e Hw H. destruct e as [who|]; cbn [tstep]; [|exact H].
  pose proof (TInv_poll who _ Hw H) as H1.
  destruct (in_neg (side_task who (ts_sys S))).
  - match goal with |- context [if ?c then abort_side _ _ else _] => destruct c end.
    + destruct who; cbn [ts_sys]; apply TInv_abort; exact H1.
    + destruct who; cbn [ts_sys]; exact H1.
  - cbn [ts_sys]. exact H1.
Qed.

(* two blocked tasks are two finished tasks, also after a timer has fired *)
Lemma timed_no_deadlock : forall s, TInv s -> Blocked false s -> Blocked true s ->
  t_done (s_d s) = true /\ t_done (s_l s) = true.
Proof.
  intros s [(m & Hs) | [(Hd & Hc) | (Hl & Hc)]] Bd Bl.
  - exact (no_deadlock ds ls Hwf s m Hs Bd Bl).
  - unfold Blocked in Bl. unfold t_done. rewrite Hd.
    destruct Bl as [Bl | [Bl | (l & _ & (_ & _ & E))]].
    + rewrite Bl. auto.
    + destruct (ReadWait_ph _ _ Bl) as [_ E]. congruence.
    + congruence.
  - unfold Blocked in Bd. unfold t_done. rewrite Hl.
    destruct Bd as [Bd | [Bd | (d & _ & (_ & _ & E))]].
    + rewrite Bd. auto.
    + destruct (ReadWait_ph _ _ Bd) as [_ E]. congruence.
    + congruence.
Qed.

(* fairness of a timed schedule: K blocks, each polling both sides at least once (ticks anywhere) *)
Fixpoint tfair (K : nat) (es : list tev) : Prop :=
  match K with
  | O => True
  | S K' => exists blk rest, es = blk ++ rest /\ In (EPoll true) blk /\ In (EPoll false) blk /\ tfair K' rest
  end.

Lemma trun_app : forall to_d to_l a b S, trun to_d to_l (a ++ b) S = trun to_d to_l b (trun to_d to_l a S).
Proof. intros. unfold trun. apply fold_left_app. Qed.

Lemma trun_work : forall to_d to_l es S, WfS (ts_sys S) -> TInv (ts_sys S) ->
  WfS (ts_sys (trun to_d to_l es S)) /\ TInv (ts_sys (trun to_d to_l es S)) /\
  Phi (ts_sys (trun to_d to_l es S)) <= Phi (ts_sys S) /\
  (Phi (ts_sys (trun to_d to_l es S)) = Phi (ts_sys S) ->
   ts_sys (trun to_d to_l es S) = ts_sys S /\ forall who, In (EPoll who) es -> Blocked who (ts_sys S)).
Proof.
  intros to_d to_l. induction es as [|e es IH]; intros S Hw Hi.
  - cbn. split; [exact Hw|]. split; [exact Hi|]. split; [lia|]. intros _. split; [reflexivity|]. intros who [].
  - cbn [trun fold_left]. fold (trun to_d to_l es (tstep to_d to_l S e)).
    destruct (tstep_work to_d to_l S e Hw) as (W1 & L1 & E1).
    pose proof (TInv_step to_d to_l S e Hw Hi) as I1.
    destruct (IH _ W1 I1) as (W2 & I2 & L2 & E2).
    split; [exact W2|]. split; [exact I2|]. split; [lia|]. intros E.
    assert (Ea : Phi (ts_sys (tstep to_d to_l S e)) = Phi (ts_sys S)) by lia.
    destruct (E1 Ea) as [Es Hb]. rewrite Es in E2.
    destruct (E2 E) as [Es2 Hb2]. split; [congruence|].
    intros who [Heq | Hin]; [exact (Hb who Heq) | exact (Hb2 who Hin)].
Qed.

Lemma tstep_done_stable : forall to_d to_l S e,
  t_done (s_d (ts_sys S)) = true -> t_done (s_l (ts_sys S)) = true ->
  ts_sys (tstep to_d to_l S e) = ts_sys S.
Proof.
  intros to_d to_l S e Hd Hl. destruct e as [who|]; cbn [tstep]; [|reflexivity].
  assert (Dd : t_ph (s_d (ts_sys S)) = TDone) by (unfold t_done in Hd; destruct (t_ph (s_d (ts_sys S))); congruence).
  assert (Dl : t_ph (s_l (ts_sys S)) = TDone) by (unfold t_done in Hl; destruct (t_ph (s_l (ts_sys S))); congruence).
  assert (E : in_neg (side_task who (ts_sys S)) = false).
  { unfold in_neg. destruct who; cbn [side_task]; [rewrite Dl | rewrite Dd]; reflexivity. }
  rewrite E. cbn [ts_sys]. apply poll_side_done. destruct who; cbn [side_task]; assumption.
Qed.

Lemma trun_done_stable : forall to_d to_l es S,
  t_done (s_d (ts_sys S)) = true -> t_done (s_l (ts_sys S)) = true ->
  ts_sys (trun to_d to_l es S) = ts_sys S.
Proof.
  intros to_d to_l. induction es as [|e es IH]; intros S Hd Hl; [reflexivity|].
  cbn [trun fold_left]. fold (trun to_d to_l es (tstep to_d to_l S e)).
  pose proof (tstep_done_stable to_d to_l S e Hd Hl) as E.
  rewrite IH; rewrite E; auto.
Qed.

Theorem timed_terminate_gen : forall to_d to_l K es S,
  WfS (ts_sys S) -> TInv (ts_sys S) -> tfair K es -> Phi (ts_sys S) < N.of_nat K ->
  t_done (s_d (ts_sys (trun to_d to_l es S))) = true /\ t_done (s_l (ts_sys (trun to_d to_l es S))) = true.
Proof.
  intros to_d to_l. induction K as [|K IH]; intros es S Hw Hi Hf Hphi; [lia|].
  cbn in Hf. destruct Hf as (blk & rest & -> & Ht & Hfl & Hf).
  rewrite trun_app.
  destruct (trun_work to_d to_l blk S Hw Hi) as (W1 & I1 & L1 & E1).
  destruct (N.eq_dec (Phi (ts_sys (trun to_d to_l blk S))) (Phi (ts_sys S))) as [E | E].
  - destruct (E1 E) as [Es Hb].
    destruct (timed_no_deadlock _ Hi (Hb false Hfl) (Hb true Ht)) as [Dd Dl].
    rewrite <- Es in Dd, Dl.
    rewrite (trun_done_stable to_d to_l rest _ Dd Dl). split; assumption.
  - apply (IH rest _ W1 I1 Hf). lia.
Qed.

End TimedLive.

(* TERMINATION under timeouts: for every well-formed V1 case, any timeouts and every fair timed
   schedule (ticks of the clock anywhere), both tasks finish *)
Theorem timed_terminate : forall c to_d to_l, wf_case c -> forall K es,
  tfair K es -> Phi (sys_init c) < N.of_nat K ->
  let sa := ts_sys (trun to_d to_l es (tinit c)) in
  t_done (s_d sa) = true /\ t_done (s_l sa) = true.
Proof.
  intros c to_d to_l Hc K es Hf Hphi. destruct Hc as [Hl Hw].
  apply (timed_terminate_gen (c_ds c) (c_ls c) Hw to_d to_l K es (tinit c)); auto.
  - exact (wfs_init c (conj Hl Hw)).
  - left. exists (minit (c_ds c)). exact (sim_init c (conj Hl Hw)).
Qed.

(* ------------------------------------------------------------------ 4. no timer fires early *)
Fixpoint polls_of (es : list tev) : list bool :=
  match es with
  | [] => []
  | EPoll who :: t => who :: polls_of t
  | ETick :: t => polls_of t
  end.
Fixpoint nticks (es : list tev) : N :=
  match es with
  | [] => 0
  | EPoll _ :: t => nticks t
  | ETick :: t => 1 + nticks t
  end.

Definition NoFire (to_d to_l : N) (S : tsys) : Prop :=
  (forall d, ts_ddl S = Some d -> to_d <= d) /\ (forall d, ts_ldl S = Some d -> to_l <= d).

Lemma no_fire_gen : forall to_d to_l es S, NoFire to_d to_l S ->
  ts_now S + nticks es < to_d -> ts_now S + nticks es < to_l ->
  ts_sys (trun to_d to_l es S) = polls (polls_of es) (ts_sys S).
Proof.
  intros to_d to_l. induction es as [|e es IH]; intros S [Hd Hl] Td Tl; [reflexivity|].
  cbn [trun fold_left]. fold (trun to_d to_l es (tstep to_d to_l S e)).
  destruct e as [who|]; cbn [polls_of nticks] in *.
  - rewrite polls_cons.
    assert (Es : ts_sys (tstep to_d to_l S (EPoll who)) = poll_side who (ts_sys S) /\
                 ts_now (tstep to_d to_l S (EPoll who)) = ts_now S /\
                 NoFire to_d to_l (tstep to_d to_l S (EPoll who))).
    { cbn [tstep]. destruct (in_neg (side_task who (ts_sys S))).
      - set (dl := match (if who then ts_ldl S else ts_ddl S) with
                   | Some d => d
                   | None => ts_now S + (if who then to_l else to_d)
                   end).
        assert (Hdl : ts_now S < dl /\ (if who then to_l else to_d) <= dl).
        { unfold dl. destruct who.
          - destruct (ts_ldl S) as [d|] eqn:E; [pose proof (Hl d eq_refl); lia | lia].
          - destruct (ts_ddl S) as [d|] eqn:E; [pose proof (Hd d eq_refl); lia | lia]. }
        assert (Ef : (dl <=? ts_now S) = false) by lia.
        rewrite Ef, andb_false_r.
        destruct who; cbn [ts_sys ts_now]; (split; [reflexivity|]); (split; [reflexivity|]);
          split; cbn [ts_ddl ts_ldl]; auto; intros d E; injection E as <-; exact (proj2 Hdl).
      - cbn [ts_sys ts_now]. split; [reflexivity|]. split; [reflexivity|]. split; assumption. }
    destruct Es as (E1 & E2 & E3). rewrite <- E1. apply IH; [exact E3 | rewrite E2; exact Td | rewrite E2; exact Tl].
  - cbn [tstep].
    rewrite (IH (mkT (ts_sys S) (ts_now S + 1) (ts_ddl S) (ts_ldl S)));
      cbn [ts_now ts_sys ts_ddl ts_ldl]; [reflexivity | split; assumption | lia | lia].
Qed.

(* as long as the clock has not reached the timeouts, the wrapper is invisible: the timed run is
   the plain run of the same polls, so every theorem about plain runs (agreement, transparency,
   termination) holds verbatim for the transports' `negotiate_protocol` *)
Theorem timed_no_fire : forall c to_d to_l es, nticks es < to_d -> nticks es < to_l ->
  ts_sys (trun to_d to_l es (tinit c)) = polls (polls_of es) (sys_init c).
Proof.
  intros c to_d to_l es Hd Hl.
  apply (no_fire_gen to_d to_l es (tinit c)); cbn [tinit ts_now]; [|lia|lia].
  split; intros d E; discriminate E.
Qed.

(* ------------------------------------------------------------------ the scheduler of the
   harness (script of polls and ticks, then alternation) is one particular timed schedule *)
Lemma run_tsys_trun : forall to_d to_l fuel sched next idle S S' st,
  run_tsys to_d to_l fuel sched next idle S = (S', st) ->
  exists es, S' = trun to_d to_l es S /\
    (st = 0 -> t_done (s_d (ts_sys S')) = true /\ t_done (s_l (ts_sys S')) = true).
Proof.
  intros to_d to_l. induction fuel as [|f IH]; intros sched next idle S S' st H.
  - cbn in H. injection H as <- <-. exists []. split; [reflexivity|]. intros E. discriminate E.
  - cbn [run_tsys] in H.
    destruct (t_done (s_d (ts_sys S)) && t_done (s_l (ts_sys S))) eqn:Ed.
    + injection H as <- <-. exists []. split; [reflexivity|]. intros _.
      apply andb_true_iff in Ed. exact Ed.
    + destruct (4 <=? idle).
      * injection H as <- <-. exists []. split; [reflexivity|]. intros E. discriminate E.
      * destruct sched as [|x t].
        -- destruct (IH _ _ _ _ _ _ H) as (es & -> & Hst).
           exists (EPoll next :: es). split; [reflexivity | exact Hst].
        -- destruct (IH _ _ _ _ _ _ H) as (es & -> & Hst).
           exists (ev_of x :: es). split; [reflexivity | exact Hst].
Qed.

(* what a run of the harness scheduler shows under ANY timeouts, as one statement: whoever
   reports success reports the first supported name with its exact index; if both do and the run
   completed, the streams are transparent *)
Theorem timed_run_correct : forall c to_d to_l fuel S st, wf_case c ->
  run_tsys to_d to_l fuel (c_sched c) false 0 (tinit c) = (S, st) ->
  let s := ts_sys S in
  (forall i, t_res (s_d s) = (0, i) ->
     exists p, first_common (c_ds c) (c_ls c) = Some p /\ first_at (c_ds c) (c_ls c) i p) /\
  (forall j, t_res (s_l s) = (0, j) ->
     exists p, first_common (c_ds c) (c_ls c) = Some p /\ lidx 0 (c_ls c) p = Some j) /\
  (st = 0 -> fst (t_res (s_d s)) = 0 -> fst (t_res (s_l s)) = 0 ->
     t_got (s_l s) = c_dpay c /\ t_got (s_d s) = c_lpay c /\
     t_end (s_d s) = 0 /\ t_end (s_l s) = 0 /\ p_buf (s_dl s) = [] /\ p_buf (s_ld s) = []).
Proof.
  intros c to_d to_l fuel S st Hc H s.
  destruct (run_tsys_trun _ _ _ _ _ _ _ _ _ H) as (es & E & Hd). subst S.
  split; [exact (timed_dialer_result c to_d to_l es Hc)|].
  split; [exact (timed_listener_result c to_d to_l es Hc)|].
  intros -> Fd Fl. destruct (Hd eq_refl) as [Dd Dl].
  destruct (timed_both_ok_plain c to_d to_l es Fd Fl) as (who & Ew).
  fold s in Dd, Dl, Ew. rewrite Ew in *.
  destruct (t_res (s_d (polls who (sys_init c)))) as [dc di] eqn:Ed. cbn [fst] in Fd. subst dc.
  destruct (dialer_ok_result c who Hc di Ed) as (p & Hp & _).
  exact (transparent c who Hc Dd Dl p Hp).
Qed.
