(* C03 — the theorems of Peer.v tied to the differential stream against the reference
   implementation (mode 9 of Glue.v) and closed into agreement:
   - what the trace oracle ok9 demands of the bytes each end put on the wire
     (Glue.legal_dialer_wire / Glue.legal_listener_wire, computed from the two lists of the case)
     IS a legal conversation in the sense of Peer.LegalD / Peer.LegalL, with the agreed
     "the dialer's first name that the listener supports"; hence a trace accepted by ok9 with the
     reference at one end satisfies the hypothesis of the Peer.v theorem for litep2p's other end;
   - conversely what litep2p's tasks put on the wire when they succeed is itself a legal
     conversation with the same agreed: a peer that is correct on legal conversations (litep2p's
     other half by Peer.v; the reference by the differential stream) settles on the same name. *)
From Coq Require Import List Arith NArith Bool Lia ZifyBool ZifyNat ZifyN.
From V.common Require Import Wire.
From V.C03 Require Import Model Msg Proofs MsgRef Chan SimD SimL Peer.
From V.C03 Require Glue.
Import ListNotations.
Open Scope N_scope.

Arguments N.add : simpl never.
Arguments N.of_nat : simpl never.

Lemma wire_of_FR : forall ms, Glue.wire_of ms = FR ms.
Proof. reflexivity. Qed.

Lemma supported_b_eq : forall ls p, Glue.supported_b ls p = supported ls p.
Proof. reflexivity. Qed.

Definition is_some (r : option name) : bool := match r with Some _ => true | None => false end.

Lemma dial_props_spec : forall ls ds ps acc, Glue.dial_props ls ds = (ps, acc) ->
  LegalD (supported ls) ps (agreed (supported ls) ds) /\
  acc = is_some (agreed (supported ls) ds) /\
  Glue.answers ls ps = resp (supported ls) ds /\ exists rest, ds = ps ++ rest.
Proof.
  intros ls. induction ds as [|p ds IH]; intros ps acc H; cbn [Glue.dial_props] in H.
  - injection H as <- <-. cbn. repeat split; [constructor | exists []; reflexivity].
  - rewrite supported_b_eq in H. cbn [agreed resp].
    destruct (supported ls p) eqn:Es.
    + injection H as <- <-. cbn [Glue.answers]. rewrite supported_b_eq, Es.
      split; [apply LD_acc; exact Es|]. split; [reflexivity|]. split; [reflexivity|].
      exists ds. reflexivity.
    + destruct (Glue.dial_props ls ds) as [ps' a'] eqn:E. injection H as <- <-.
      destruct (IH ps' a' eq_refl) as (H1 & H2 & H3 & (rest & H4)).
      cbn [Glue.answers]. rewrite supported_b_eq, Es.
      split; [apply LD_rej; assumption|]. split; [exact H2|]. split; [rewrite H3; reflexivity|].
      exists rest. cbn. rewrite <- H4. reflexivity.
Qed.

(* the wire bytes that ok9 demands are a legal dialer conversation and a legal listener
   conversation for the case's two lists, with the agreed of the property text *)
Theorem oracle_wire_legal : forall c, c_ds c <> [] ->
  let S := supported (c_ls c) in
  let r := agreed S (c_ds c) in
  r = first_common (c_ds c) (c_ls c) /\
  exists ps, LegalD S ps r /\ (exists rest, c_ds c = ps ++ rest) /\
    LegalL S (c_ds c) (resp S (c_ds c)) r /\
    Glue.legal_dialer_wire c = FR (MHeader :: map MProto ps) ++ opt_pay r (c_dpay c) /\
    Glue.legal_listener_wire c = FR (MHeader :: resp S (c_ds c)) ++ opt_pay r (c_lpay c).
Proof.
  intros c Hne S r. split.
  { unfold r, S, first_common. induction (c_ds c) as [|p t IH]; [reflexivity|].
    cbn [agreed find]. destruct (supported (c_ls c) p); [reflexivity|].
    destruct t as [|q t']; [reflexivity|]. apply IH. discriminate. }
  assert (Ed : Glue.legal_dialer_wire c =
               let '(ps, acc) := Glue.dial_props (c_ls c) (c_ds c) in
               Glue.wire_of (MHeader :: map MProto ps) ++ (if acc then c_dpay c else [])).
  { unfold Glue.legal_dialer_wire. destruct (c_ds c); [congruence | reflexivity]. }
  assert (El : Glue.legal_listener_wire c =
               let '(ps, acc) := Glue.dial_props (c_ls c) (c_ds c) in
               Glue.wire_of (MHeader :: Glue.answers (c_ls c) ps) ++ (if acc then c_lpay c else [])).
  { unfold Glue.legal_listener_wire. destruct (c_ds c); [congruence | reflexivity]. }
  rewrite Ed, El. clear Ed El.
  destruct (Glue.dial_props (c_ls c) (c_ds c)) as [ps acc] eqn:E.
  destruct (dial_props_spec _ _ _ _ E) as (H1 & H2 & H3 & H4).
  exists ps. split; [exact H1|]. split; [exact H4|]. split; [apply LegalL_resp|].
  rewrite !wire_of_FR, H3, H2. fold S. fold r. unfold opt_pay, is_some.
  destruct r; split; reflexivity.
Qed.

(* ---- litep2p's own wire is a legal conversation with the same agreed *)
Lemma first_supported_LegalD : forall ds S i p, first_supported ds S i p ->
  LegalD S (firstn (N.to_nat i + 1) ds) (Some p).
Proof.
  intros ds S i p (pre & rest & -> & -> & Hpre & Hs). rewrite Nat2N.id.
  rewrite firstn_app. replace (length pre + 1 - length pre)%nat with 1%nat by lia.
  rewrite firstn_all2 by lia. cbn [firstn].
  induction pre as [|x pre IH]; cbn [app].
  - apply LD_acc. exact Hs.
  - inversion Hpre as [|? ? Hx Hp']; subst. apply LD_rej; [exact Hx | exact (IH Hp')].
Qed.

Lemma accepted_LegalL : forall ls ps j n, accepted ls ps j n ->
  exists pre, ps = pre ++ [n] /\ LegalL (supported ls) ps (nas pre ++ [MProto n]) (Some n).
Proof.
  intros ls ps j n (_ & pre & -> & Hpre & Hs). exists pre. split; [reflexivity|].
  induction pre as [|x pre IH]; cbn [app nas map].
  - apply LL_ok. exact Hs.
  - inversion Hpre as [|? ? Hx Hp']; subst. apply LL_na; [exact Hx | exact (IH Hp')].
Qed.

(* the index the dialer theorem speaks of is the one the trace oracle computes *)
Lemma first_supported_find_idx : forall ls ds i p,
  first_supported ds (supported ls) i p <-> Glue.find_idx (Glue.supported_b ls) ds 0 = Some (i, p).
Proof.
  intros ls ds i p.
  assert (G : forall ds k, (exists pre rest, ds = pre ++ p :: rest /\ i = k + N.of_nat (length pre) /\
                               Forall (unsupS (supported ls)) pre /\ supported ls p = true) <->
                           Glue.find_idx (Glue.supported_b ls) ds k = Some (i, p)).
  { clear ds. induction ds as [|x ds IH]; intros k; cbn [Glue.find_idx].
    - split; [|discriminate]. intros (pre & rest & E & _). destruct pre; discriminate.
    - change (Glue.supported_b ls x) with (supported ls x). destruct (supported ls x) eqn:Ex.
      + split.
        * intros (pre & rest & E & Hi & Hp & Hs). destruct pre as [|y pre].
          -- cbn in E. injection E as <- _. cbn in Hi. f_equal. f_equal. lia.
          -- cbn in E. injection E as <- _. pose proof (Forall_inv Hp) as Hy.
             unfold unsupS in Hy. congruence.
        * intros H. injection H as <- <-. exists [], ds. cbn. repeat split; auto. lia.
      + rewrite <- IH. split.
        * intros (pre & rest & E & Hi & Hp & Hs). destruct pre as [|y pre].
          -- cbn in E. injection E as <- _. congruence.
          -- cbn in E. injection E as <- E. pose proof (Forall_inv_tail Hp) as Hp'.
             exists pre, rest. repeat split; auto. cbn [length] in Hi. lia.
        * intros (pre & rest & E & Hi & Hp & Hs). exists (x :: pre), rest. cbn [app length].
          rewrite E. split; [reflexivity|]. split; [lia|]. split; [constructor; [exact Ex | exact Hp] | exact Hs]. }
  unfold first_supported. rewrite <- (G ds 0). split.
  - intros (pre & rest & A & B & C & D). exists pre, rest. repeat split; auto.
  - intros (pre & rest & A & B & C & D). exists pre, rest. repeat split; auto.
Qed.

(* ---- the reference dialer's bytes, as ok9 pins them, against litep2p's listener task; and
   the reference listener's bytes against litep2p's dialer task: under every delivery order,
   chunking and Pending injection the litep2p task reports the name of the property text *)
Theorem reference_dialer_wire_vs_listener :
  forall c rsc wsc evs, c_ds c <> [] -> Forall wfn (c_ds c) ->
    let s := erun evs (einit (l_task (c_ls c) (c_lpay c)) rsc wsc (Glue.legal_dialer_wire c)) in
    (forall j, t_res (e_t s) = (0, j) ->
       exists n, first_common (c_ds c) (c_ls c) = Some n /\ lidx 0 (c_ls c) n = Some j /\
         t_read (e_t s) ++ p_buf (e_in s) ++ e_rem s = c_dpay c /\
         (t_done (e_t s) = true -> t_end (e_t s) = 0 /\ t_got (e_t s) = c_dpay c /\
            p_buf (e_in s) = [] /\ e_rem s = [])) /\
    (forall code j, t_res (e_t s) = (code, j) -> code <> 0 -> code <> 99 ->
       first_common (c_ds c) (c_ls c) = None).
Proof.
  intros c rsc wsc evs Hne Hwf s.
  destruct (oracle_wire_legal c Hne) as (Hr & ps & HD & (rest & Hds) & _ & Ew & _).
  assert (Hwfp : Forall wfn ps).
  { rewrite Hds in Hwf. apply Forall_app in Hwf. apply Hwf. }
  pose proof (listener_vs_any_legal_dialer (c_ls c) ps _ false (c_dpay c) (c_lpay c) rsc wsc evs
                Hwfp HD ltac:(discriminate)) as H.
  cbv beta iota zeta in H. rewrite <- Ew in H. fold s in H. destruct H as [H1 H2].
  split.
  - intros j Hres. destruct (H1 j Hres) as (n & (Hidx & _) & Hrn & Hread & Hdone).
    exists n. split; [rewrite <- Hr; exact Hrn|]. split; [exact Hidx|]. split; [exact Hread|].
    intros Hd. destruct (Hdone Hd) as (A & B & C & D & _). repeat split; assumption.
  - intros code j Hres H0 H99. rewrite <- Hr. exact (H2 code j Hres H0 H99).
Qed.

Theorem reference_listener_wire_vs_dialer :
  forall c rsc wsc evs, c_ds c <> [] -> Forall wfn (c_ds c) ->
    let s := erun evs (einit (d_task (c_ds c) (c_dpay c)) rsc wsc (Glue.legal_listener_wire c)) in
    (forall i, t_res (e_t s) = (0, i) ->
       exists p, first_common (c_ds c) (c_ls c) = Some p /\
         Glue.find_idx (Glue.supported_b (c_ls c)) (c_ds c) 0 = Some (i, p) /\
         t_read (e_t s) ++ p_buf (e_in s) ++ e_rem s = c_lpay c /\
         (t_done (e_t s) = true -> t_end (e_t s) = 0 /\ t_got (e_t s) = c_lpay c /\
            p_buf (e_in s) = [] /\ e_rem s = [])) /\
    (forall code i, t_res (e_t s) = (code, i) -> code <> 0 -> code <> 99 ->
       first_common (c_ds c) (c_ls c) = None).
Proof.
  intros c rsc wsc evs Hne Hwf s.
  destruct (oracle_wire_legal c Hne) as (Hr & _ & _ & _ & HL & _ & Ew).
  pose proof (dialer_vs_any_legal_listener (c_ds c) (supported (c_ls c)) _ _ (c_lpay c) (c_dpay c)
                rsc wsc evs Hwf HL) as H.
  cbv zeta in H. rewrite <- Ew in H. fold s in H. destruct H as [H1 H2].
  split.
  - intros i Hres. destruct (H1 i Hres) as (p & Hfs & Hrp & Hread & Hdone).
    exists p. split; [rewrite <- Hr; exact Hrp|].
    split; [apply first_supported_find_idx; exact Hfs|]. split; [exact Hread|].
    intros Hd. destruct (Hdone Hd) as (A & B & C & D & _). repeat split; assumption.
  - intros code i Hres H0 H99. rewrite <- Hr. exact (proj1 (H2 code i Hres H0 H99)).
Qed.
