(* C03 — the `Negotiated<R>` stream as an I/O object (src/multistream_select/negotiated.rs):
   poll_read / poll_write / poll_flush / poll_close in each of its states, in particular in
   `State::Expecting` (the optimistic V1Lazy dialer has settled on a protocol, header and proposal
   are still buffered, the listener's header and confirmation are still to be read) and after a
   failed expectation. Executable model, definitions only.

   - poll_read: in `Completed` a read of the carrier; otherwise `Negotiated::poll` (flush the
     buffered negotiation data, then read the outstanding messages) and, once that completed, the
     read of the carrier in the same call.
   - poll_write in `Expecting`: `LengthDelimitedReader::poll_write` first drains the buffered
     negotiation data (`poll_write_buffer`), then writes the application bytes to the carrier.
   - poll_flush in `Expecting`: drains the buffer, then flushes the carrier.
   - poll_close: poll_flush, then the carrier is closed; the stream stays in `Expecting` (the
     confirmation can still be read).
   - a failed expectation (`na`, another name, a second header, EOF, a framing error) drops the
     underlying stream (the state is left `Invalid`); every later operation reports an error
     (ErrorKind::Other) — before the repair of this tree it panicked. *)
From Coq Require Import List NArith Bool.
From V.common Require Import Wire.
From V.C03 Require Import Model.
Import ListNotations.
Open Scope N_scope.

Inductive nop := OpRead (k : N) | OpWrite (data : bytes) | OpFlush | OpClose.
Inductive ores := OPending | OData (bs : bytes) | ODone (n : N) | OErr (code : N).

(* the io::Error of an operation on a failed stream, as io_code sees it (ErrorKind::Other) *)
Definition NEG_GONE : N := C_FAILED.

(* Negotiated::poll; on failure the MessageReader (and with it the carrier end) is dropped *)
Definition neg_poll_drop (g : nego) (pin pout : pipe) : nego * pipe * pipe * pres :=
  let '(g1, pi1, po1, r) := neg_poll (neg_fuel pin) g pin pout in
  (g1, pi1, match r with PErr _ => pipe_close po1 | _ => po1 end, r).

Fixpoint op_read (fuel : nat) (k : N) (g : nego) (pin pout : pipe) : nego * pipe * pipe * ores :=
  match fuel with
  | O => (g, pin, pout, OPending)
  | S f =>
      match g with
      | NCompleted =>
          let '(pi1, r) := pipe_read pin k in
          (g, pi1, pout, match r with RPending => OPending | REof => OData [] | RData bs => OData bs end)
      | _ =>
          let '(g1, pi1, po1, r) := neg_poll_drop g pin pout in
          match r with
          | PPending => (g1, pi1, po1, OPending)
          | POk => op_read f k g1 pi1 po1
          | PErr c => (g1, pi1, po1, OErr (io_code c))
          end
      end
  end.

(* the flush half shared by poll_write / poll_flush / poll_close: None = Pending *)
Definition neg_drain (g : nego) (pout : pipe) : nego * pipe * option bool :=
  match g with
  | NCompleted => (g, pout, Some true)
  | NExpecting st wbuf p hdr =>
      let '(w1, po1, ok) := wr_drain (wr_fuel wbuf) wbuf pout in
      (NExpecting st w1 p hdr, po1, if ok then Some true else None)
  | NInvalid => (g, pout, Some false)
  end.

Definition op_poll (op : nop) (g : nego) (pin pout : pipe) : nego * pipe * pipe * ores :=
  match op with
  | OpRead k => op_read 2 k g pin pout
  | OpWrite data =>
      let '(g1, po1, r) := neg_drain g pout in
      match r with
      | None => (g1, pin, po1, OPending)
      | Some false => (g1, pin, po1, OErr NEG_GONE)
      | Some true =>
          let '(po2, w) := pipe_write po1 data in
          (g1, pin, po2, match w with None => OPending | Some n => ODone (N.of_nat n) end)
      end
  | OpFlush =>
      let '(g1, po1, r) := neg_drain g pout in
      (g1, pin, po1, match r with None => OPending | Some false => OErr NEG_GONE | Some true => ODone 0 end)
  | OpClose =>
      let '(g1, po1, r) := neg_drain g pout in
      match r with
      | None => (g1, pin, po1, OPending)
      | Some false => (g1, pin, po1, OErr NEG_GONE)
      | Some true => (g1, pin, pipe_close po1, ODone 0)
      end
  end.

(* an operation is polled until it is Ready; np counts the Pending results *)
Fixpoint run_op (fuel : nat) (op : nop) (g : nego) (pin pout : pipe) (np : N)
  : nego * pipe * pipe * N * ores :=
  match fuel with
  | O => (g, pin, pout, np, OPending)
  | S f =>
      let '(g1, pi1, po1, r) := op_poll op g pin pout in
      match r with
      | OPending => run_op f op g1 pi1 po1 (np + 1)
      | _ => (g1, pi1, po1, np, r)
      end
  end.

Definition enc_ores (r : ores) : list N :=
  match r with
  | OPending => [0]
  | OData bs => 1 :: len bs :: bs
  | ODone n => [2; n]
  | OErr c => [3; c]
  end.
Definition op_tag (op : nop) : N :=
  match op with OpRead _ => 0 | OpWrite _ => 1 | OpFlush => 2 | OpClose => 3 end.

Fixpoint run_ops (fuel : nat) (ops : list nop) (g : nego) (pin pout : pipe)
  : nego * pipe * pipe * list N :=
  match ops with
  | [] => (g, pin, pout, [])
  | op :: t =>
      let '(g1, pi1, po1, np, r) := run_op fuel op g pin pout 0 in
      let '(g2, pi2, po2, tr) := run_ops fuel t g1 pi1 po1 in
      (g2, pi2, po2, op_tag op :: np :: enc_ores r ++ tr)
  end.

Definition nego_tag (g : nego) : N :=
  match g with NCompleted => 0 | NExpecting _ _ _ _ => 1 | NInvalid => 2 end.

(* the dialer future polled until it is Ready *)
Fixpoint run_dial (fuel : nat) (d : dialer) (pin pout : pipe) (np : N)
  : dialer * pipe * pipe * N * nout :=
  match fuel with
  | O => (d, pin, pout, np, NPending)
  | S f =>
      let '(d1, pi1, po1, r) := d_poll (d_fuel d pin) d pin pout in
      match r with
      | NPending => run_dial f d1 pi1 po1 (np + 1)
      | _ => (d1, pi1, po1, np, r)
      end
  end.

(* a whole session: the dialer future (names, version) against a scripted, closed input; then the
   operations on the stream it returned.
   trace: 1 code idx npend  (tag npend result)*  state out_closed |total_out| total_out |in_left| in_left *)
Definition run_session (lazy : bool) (names : list name) (rs ws : list N) (input : bytes)
  (ops : list nop) : list N :=
  let fuel := (4 + length rs + length ws)%nat in
  let pin := mkPipe input true rs [] [] in
  let pout := mkPipe [] false [] ws [] in
  let '(d1, pi1, po1, np, r) := run_dial fuel (d_init names lazy) pin pout 0 in
  let dump (g : nego) (pi po : pipe) : list N :=
    [nego_tag g; b2n (p_closed po)] ++ (len (p_total po) :: p_total po) ++ (len (p_buf pi) :: p_buf pi) in
  let fail (c : N) := [1; c; 0; np] ++ dump NInvalid pi1 (pipe_close po1) in
  match r with
  | NPending => fail 99
  | NErr c => fail c
  | NDone i =>
      if rd_buffer_empty (d_rd d1) && match d_wbuf d1 with [] => true | _ => false end then
        let '(g2, pi2, po2, tr) := run_ops fuel ops NCompleted pi1 po1 in
        [1; 0; i; np] ++ tr ++ dump g2 pi2 po2
      else fail 90
  | NLazy i p st w =>
      let '(g2, pi2, po2, tr) := run_ops fuel ops (NExpecting st w p true) pi1 po1 in
      [1; 0; i; np] ++ tr ++ dump g2 pi2 po2
  end.
