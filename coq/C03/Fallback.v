(* C03 — the fallback-name -> main-protocol mapping of `ProtocolSet`
   (src/protocol/protocol_set.rs: `ProtocolSet::new`, `report_substream_open`,
   `protocol_codec`, `protocols_with_keep_alives`).

   Model. A configuration is the content of `protocols : HashMap<ProtocolName, ProtocolContext>`
   as a list of (main name, fallback names), GIVEN IN THE ITERATION ORDER OF THAT HASH MAP.
   `ProtocolSet::new` builds `fallback_names` by inserting (fallback -> main) for every entry in
   that order; a later insert with the same key overwrites the earlier one. The model keeps the
   insertion sequence and `tbl_get` returns the value of the LAST insert with the key. The
   iteration order of the hash map is unspecified (per-instance random hasher): it is not guessed
   here but is an input — the order of the configuration list. Every theorem quantifies over all
   lists, i.e. over all orders; `report_order_irrelevant` says the order does not matter for
   well-formed configurations.

   Degenerate configurations are modelled as the code behaves: a fallback name that is also a
   main name is remapped to the declaring main (the table is consulted first); a fallback name
   declared by several mains goes to the last declarer in iteration order.

   case (after the mode tag 5):  pool cfg reps
     pool = count-prefixed list of names; a name is a count-prefixed list of runs (count byte);
            only bytes < 128 (the harness builds `ProtocolName`s from `String`s)
     cfg  = count-prefixed list of entries: main_index, count-prefixed list of fallback indices;
            main names pairwise distinct (they are hash-map keys), else the case is invalid
     reps = count-prefixed list of pool indices: the negotiated names reported, in order
   trace:  1  rep*  k row*
     rep  = 0 (ProtocolNotSupported) | 1 main_index has_fallback fallback_index
     row  = name_index main_index keep_alive : the table of `protocols_with_keep_alives`, sorted
            by name index; main_index is the protocol whose codec `protocol_codec` returns for the
            name; the harness gives the entry at position j the codec Identity(j+1) and
            keep-alive Yes iff j is even
     indices in traces are canonical: the first pool index holding the name
   invalid case: trace 0 *)
From Coq Require Import List NArith Bool Lia Permutation.
From V.common Require Import Wire.
From V.C03 Require Import Model.
Import ListNotations.
Open Scope N_scope.

(* ------------------------------------------------------------------ model *)
Definition config := list (name * list name).

Definition mains (cfg : config) : list name := map fst cfg.
Definition fallbacks (cfg : config) : list name := flat_map snd cfg.
(* the names fed to multistream-select (keys of `keep_alives`) *)
Definition offered (cfg : config) : list name := mains cfg ++ fallbacks cfg.

Definition mem (n : name) (l : list name) : bool := existsb (name_eqb n) l.

(* the sequence of `insert(fallback, main)` calls that builds `fallback_names` *)
Definition inserts_of (e : name * list name) : list (name * name) :=
  map (fun f => (f, fst e)) (snd e).
Definition fb_inserts (cfg : config) : list (name * name) := flat_map inserts_of cfg.

(* value of the last insert with key k *)
Fixpoint tbl_get (t : list (name * name)) (k : name) : option name :=
  match t with
  | [] => None
  | (k', v) :: t' =>
      match tbl_get t' k with
      | Some m => Some m
      | None => if name_eqb k k' then Some v else None
      end
  end.
Definition fb_lookup (cfg : config) (k : name) : option name := tbl_get (fb_inserts cfg) k.

(* report_substream_open: Some (protocol, fallback) is the SubstreamOpened event sent to the
   channel of `protocol`; None is Err(ProtocolNotSupported) *)
Definition report (cfg : config) (negotiated : name) : option (name * option name) :=
  let '(p, fb) := match fb_lookup cfg negotiated with
                  | Some m => (m, Some negotiated)
                  | None => (negotiated, None)
                  end in
  if mem p (mains cfg) then Some (p, fb) else None.

(* protocol_codec: the entry whose codec is returned; None = the `expect` panics *)
Definition resolve (cfg : config) (n : name) : option name :=
  let p := match fb_lookup cfg n with Some m => m | None => n end in
  if mem p (mains cfg) then Some p else None.

(* ------------------------------------------------------------------ well-formedness *)
Definition wf_cfg (cfg : config) : Prop :=
  NoDup (mains cfg) /\
  (forall f, In f (fallbacks cfg) -> ~ In f (mains cfg)) /\
  (forall f m1 fs1 m2 fs2,
      In (m1, fs1) cfg -> In (m2, fs2) cfg -> In f fs1 -> In f fs2 -> m1 = m2).

Fixpoint nodupb (l : list name) : bool :=
  match l with [] => true | x :: t => negb (mem x t) && nodupb t end.

Definition wf_cfgb (cfg : config) : bool :=
  nodupb (mains cfg) &&
  forallb (fun f => negb (mem f (mains cfg))) (fallbacks cfg) &&
  forallb (fun e1 => forallb (fun e2 =>
      forallb (fun f => negb (mem f (snd e2)) || name_eqb (fst e1) (fst e2)) (snd e1)) cfg) cfg.

(* ------------------------------------------------------------------ the oracle, on names *)
(* what the property text demands, written without the table: the main protocol that declares
   the negotiated name as a fallback, else the name itself if it is a main protocol *)
Definition spec (cfg : config) (n : name) : option (name * option name) :=
  match find (fun e => mem n (snd e)) cfg with
  | Some e => Some (fst e, Some n)
  | None => if mem n (mains cfg) then Some (n, None) else None
  end.

Definition declares (cfg : config) (m n : name) : bool :=
  existsb (fun e => name_eqb (fst e) m && mem n (snd e)) cfg.

(* consistency, demanded of every configuration: a report with a fallback goes to a main that
   declares the negotiated name; one without is the name itself, a main protocol; an offered
   name is never unsupported *)
Definition allowed (cfg : config) (n : name) (r : option (name * option name)) : bool :=
  match r with
  | Some (m, Some f) => name_eqb f n && declares cfg m n
  | Some (m, None) => name_eqb m n && mem n (mains cfg)
  | None => negb (mem n (offered cfg))
  end.

Definition res_eqb (a b : option (name * option name)) : bool :=
  opt_eqb (fun x y => name_eqb (fst x) (fst y) && opt_eqb name_eqb (snd x) (snd y)) a b.

Definition ok_rep (cfg : config) (n : name) (r : option (name * option name)) : bool :=
  allowed cfg n r && (if wf_cfgb cfg then res_eqb r (spec cfg n) else true).

(* ------------------------------------------------------------------ proofs *)
Lemma neqb_refl : forall a : name, name_eqb a a = true.
Proof.
  unfold name_eqb, bytes_eqb. induction a as [|x a IH]; simpl; [reflexivity|].
  rewrite N.eqb_refl, IH. reflexivity.
Qed.

Lemma neqb_eq : forall a b : name, name_eqb a b = true -> a = b.
Proof.
  unfold name_eqb, bytes_eqb. induction a as [|x a IH]; intros [|y b]; simpl; intros H;
    try discriminate; [reflexivity|].
  apply andb_true_iff in H. destruct H as [H1 H2]. apply N.eqb_eq in H1. apply IH in H2.
  subst. reflexivity.
Qed.

Lemma neqb_neq : forall a b : name, a <> b -> name_eqb a b = false.
Proof.
  intros a b H. destruct (name_eqb a b) eqn:E; [|reflexivity].
  exfalso. apply H. apply neqb_eq. exact E.
Qed.

Lemma mem_In : forall n l, mem n l = true <-> In n l.
Proof.
  intros n l. unfold mem. rewrite existsb_exists. split.
  - intros [x [Hx He]]. apply neqb_eq in He. subst. exact Hx.
  - intros H. exists n. split; [exact H | apply neqb_refl].
Qed.

Lemma mem_nIn : forall n l, mem n l = false <-> ~ In n l.
Proof.
  intros n l. split.
  - intros H Hin. apply mem_In in Hin. rewrite Hin in H. discriminate.
  - intros H. destruct (mem n l) eqn:E; [|reflexivity]. exfalso. apply H, mem_In, E.
Qed.

Lemma In_mains : forall cfg m, In m (mains cfg) <-> exists fs, In (m, fs) cfg.
Proof.
  intros cfg m. unfold mains. rewrite in_map_iff. split.
  - intros [[m' fs] [He Hin]]. simpl in He. subst. exists fs. exact Hin.
  - intros [fs Hin]. exists (m, fs). split; [reflexivity | exact Hin].
Qed.

Lemma In_fallbacks : forall cfg f,
  In f (fallbacks cfg) <-> exists m fs, In (m, fs) cfg /\ In f fs.
Proof.
  intros cfg f. unfold fallbacks. rewrite in_flat_map. split.
  - intros [[m fs] [He Hf]]. exists m, fs. split; assumption.
  - intros [m [fs [He Hf]]]. exists (m, fs). split; assumption.
Qed.

Lemma In_inserts : forall cfg f m,
  In (f, m) (fb_inserts cfg) <-> exists fs, In (m, fs) cfg /\ In f fs.
Proof.
  intros cfg f m. unfold fb_inserts. rewrite in_flat_map. split.
  - intros [[m' fs] [He Hi]]. unfold inserts_of in Hi. simpl in Hi.
    apply in_map_iff in Hi. destruct Hi as [f' [Heq Hf]]. inversion Heq. subst.
    exists fs. split; assumption.
  - intros [fs [He Hf]]. exists (m, fs). split; [exact He|].
    unfold inserts_of. simpl. apply in_map_iff. exists f. split; [reflexivity | exact Hf].
Qed.

Lemma tbl_get_some : forall t k m, tbl_get t k = Some m -> In (k, m) t.
Proof.
  induction t as [|[k' v] t IH]; simpl; intros k m H; [discriminate|].
  destruct (tbl_get t k) as [m'|] eqn:E.
  - inversion H. subst. right. apply IH. exact E.
  - destruct (name_eqb k k') eqn:Ek; [|discriminate].
    inversion H. subst. apply neqb_eq in Ek. subst. left. reflexivity.
Qed.

Lemma tbl_get_none : forall t k, tbl_get t k = None -> forall m, ~ In (k, m) t.
Proof.
  induction t as [|[k' v] t IH]; simpl; intros k H m Hin; [exact Hin|].
  destruct (tbl_get t k) as [m'|] eqn:E; [discriminate|].
  destruct (name_eqb k k') eqn:Ek; [discriminate|].
  destruct Hin as [Heq | Hin].
  - inversion Heq. subst. rewrite neqb_refl in Ek. discriminate.
  - exact (IH k E m Hin).
Qed.

(* the table only ever points to installed main protocols that declare the key *)
Lemma lookup_declared : forall cfg n m,
  fb_lookup cfg n = Some m -> exists fs, In (m, fs) cfg /\ In n fs.
Proof.
  intros cfg n m H. unfold fb_lookup in H. apply tbl_get_some in H.
  apply In_inserts. exact H.
Qed.

Lemma lookup_none : forall cfg n, fb_lookup cfg n = None -> ~ In n (fallbacks cfg).
Proof.
  intros cfg n H Hin. apply In_fallbacks in Hin. destruct Hin as [m [fs [He Hf]]].
  unfold fb_lookup in H. apply (tbl_get_none _ _ H m). apply In_inserts.
  exists fs. split; assumption.
Qed.

Lemma lookup_some_of_fallback : forall cfg n,
  In n (fallbacks cfg) -> exists m, fb_lookup cfg n = Some m.
Proof.
  intros cfg n Hin. destruct (fb_lookup cfg n) as [m|] eqn:E.
  - exists m. reflexivity.
  - exfalso. exact (lookup_none _ _ E Hin).
Qed.

Lemma report_fallback_l : forall cfg m fs f,
  wf_cfg cfg -> In (m, fs) cfg -> In f fs -> report cfg f = Some (m, Some f).
Proof.
  intros cfg m fs f [_ [_ Huniq]] He Hf. unfold report.
  destruct (fb_lookup cfg f) as [m'|] eqn:E.
  - destruct (lookup_declared _ _ _ E) as [fs' [He' Hf']].
    assert (m' = m) by (eapply Huniq; eauto). subst.
    assert (Hm : mem m (mains cfg) = true) by (apply mem_In, In_mains; eauto).
    rewrite Hm. reflexivity.
  - exfalso. apply (lookup_none _ _ E). apply In_fallbacks. eauto.
Qed.

Lemma report_main_l : forall cfg m,
  wf_cfg cfg -> In m (mains cfg) -> report cfg m = Some (m, None).
Proof.
  intros cfg m [_ [Hdisj _]] Hm. unfold report.
  destruct (fb_lookup cfg m) as [m'|] eqn:E.
  - exfalso. destruct (lookup_declared _ _ _ E) as [fs [He Hf]].
    apply (Hdisj m); [apply In_fallbacks; eauto | exact Hm].
  - apply mem_In in Hm. rewrite Hm. reflexivity.
Qed.

Lemma report_unknown_l : forall cfg n,
  ~ In n (mains cfg) -> ~ In n (fallbacks cfg) -> report cfg n = None.
Proof.
  intros cfg n Hm Hf. unfold report.
  destruct (fb_lookup cfg n) as [m'|] eqn:E.
  - exfalso. destruct (lookup_declared _ _ _ E) as [fs [He Hf']].
    apply Hf. apply In_fallbacks. eauto.
  - apply mem_nIn in Hm. rewrite Hm. reflexivity.
Qed.

Lemma offered_supported_l : forall cfg n,
  In n (offered cfg) ->
  exists m fb, report cfg n = Some (m, fb) /\ In m (mains cfg).
Proof.
  intros cfg n Hin. unfold report.
  destruct (fb_lookup cfg n) as [m'|] eqn:E.
  - destruct (lookup_declared _ _ _ E) as [fs [He Hf]].
    assert (Hm : In m' (mains cfg)) by (apply In_mains; eauto).
    exists m', (Some n). split; [|exact Hm]. apply mem_In in Hm. rewrite Hm. reflexivity.
  - unfold offered in Hin. apply in_app_or in Hin. destruct Hin as [Hm | Hf].
    + exists n, None. split; [|exact Hm]. apply mem_In in Hm. rewrite Hm. reflexivity.
    + exfalso. exact (lookup_none _ _ E Hf).
Qed.

(* what a report can be, for ANY configuration (degenerate ones included) *)
Lemma report_shape_l : forall cfg n m fb,
  report cfg n = Some (m, fb) ->
  In m (mains cfg) /\
  match fb with
  | Some f => f = n /\ exists fs, In (m, fs) cfg /\ In n fs
  | None => m = n /\ ~ In n (fallbacks cfg)
  end.
Proof.
  intros cfg n m fb H. unfold report in H.
  destruct (fb_lookup cfg n) as [m'|] eqn:E.
  - destruct (mem m' (mains cfg)) eqn:Hm; [|discriminate]. inversion H. subst.
    split; [apply mem_In; exact Hm|]. split; [reflexivity|]. apply lookup_declared. exact E.
  - destruct (mem n (mains cfg)) eqn:Hm; [|discriminate]. inversion H. subst.
    split; [apply mem_In; exact Hm|]. split; [reflexivity|]. apply lookup_none. exact E.
Qed.

Lemma report_none_l : forall cfg n, report cfg n = None -> ~ In n (offered cfg).
Proof.
  intros cfg n H Hin. destruct (offered_supported_l _ _ Hin) as [m [fb [Hr _]]].
  rewrite Hr in H. discriminate.
Qed.

Lemma resolve_report : forall cfg n, resolve cfg n = option_map fst (report cfg n).
Proof.
  intros cfg n. unfold resolve, report.
  destruct (fb_lookup cfg n) as [m|]; [destruct (mem m (mains cfg)) | destruct (mem n (mains cfg))];
    reflexivity.
Qed.

Lemma declares_In : forall cfg m n,
  declares cfg m n = true <-> exists fs, In (m, fs) cfg /\ In n fs.
Proof.
  intros cfg m n. unfold declares. rewrite existsb_exists. split.
  - intros [[m' fs] [He H]]. simpl in H. apply andb_true_iff in H. destruct H as [H1 H2].
    apply neqb_eq in H1. subst. apply mem_In in H2. exists fs. split; assumption.
  - intros [fs [He Hf]]. exists (m, fs). split; [exact He|]. simpl.
    rewrite neqb_refl. simpl. apply mem_In. exact Hf.
Qed.

Lemma allowed_report : forall cfg n, allowed cfg n (report cfg n) = true.
Proof.
  intros cfg n. destruct (report cfg n) as [[m fb]|] eqn:E.
  - destruct (report_shape_l _ _ _ _ E) as [Hm Hs]. destruct fb as [f|]; simpl.
    + destruct Hs as [-> Hd]. rewrite neqb_refl. simpl. apply declares_In. exact Hd.
    + destruct Hs as [-> _]. rewrite neqb_refl. simpl. apply mem_In. exact Hm.
  - simpl. apply negb_true_iff. apply mem_nIn. apply report_none_l. exact E.
Qed.

Lemma nodupb_NoDup : forall l, nodupb l = true <-> NoDup l.
Proof.
  induction l as [|x l IH]; simpl.
  - split; [constructor | reflexivity].
  - rewrite andb_true_iff, negb_true_iff, mem_nIn, IH. split.
    + intros [H1 H2]. constructor; assumption.
    + intros H. inversion H. subst. split; assumption.
Qed.

Lemma wf_cfgb_iff : forall cfg, wf_cfgb cfg = true <-> wf_cfg cfg.
Proof.
  intros cfg. unfold wf_cfgb, wf_cfg. rewrite !andb_true_iff, nodupb_NoDup. split.
  - intros [[H1 H2] H3]. split; [exact H1|]. split.
    + intros f Hf. rewrite forallb_forall in H2. specialize (H2 f Hf).
      apply negb_true_iff, mem_nIn in H2. exact H2.
    + intros f m1 fs1 m2 fs2 He1 He2 Hf1 Hf2.
      rewrite forallb_forall in H3. specialize (H3 _ He1).
      rewrite forallb_forall in H3. specialize (H3 _ He2).
      rewrite forallb_forall in H3. specialize (H3 _ Hf1). simpl in H3.
      apply mem_In in Hf2. rewrite Hf2 in H3. simpl in H3. apply neqb_eq. exact H3.
  - intros [H1 [H2 H3]]. split; [split; [exact H1|]|].
    + apply forallb_forall. intros f Hf. apply negb_true_iff, mem_nIn. apply H2. exact Hf.
    + apply forallb_forall. intros [m1 fs1] He1.
      apply forallb_forall. intros [m2 fs2] He2.
      apply forallb_forall. intros f Hf1. simpl.
      destruct (mem f fs2) eqn:Hf2; simpl; [|reflexivity].
      apply mem_In in Hf2. rewrite (H3 f m1 fs1 m2 fs2 He1 He2 Hf1 Hf2). apply neqb_refl.
Qed.

Lemma spec_report : forall cfg n, wf_cfg cfg -> spec cfg n = report cfg n.
Proof.
  intros cfg n Hwf. unfold spec.
  destruct (find (fun e => mem n (snd e)) cfg) as [[m fs]|] eqn:E.
  - apply find_some in E. destruct E as [He Hf]. simpl in Hf. apply mem_In in Hf. simpl.
    symmetry. eapply report_fallback_l; eauto.
  - assert (Hnf : ~ In n (fallbacks cfg)).
    { intros Hin. apply In_fallbacks in Hin. destruct Hin as [m [fs [He Hf]]].
      pose proof (find_none _ _ E _ He) as Hx. simpl in Hx.
      apply mem_In in Hf. rewrite Hf in Hx. discriminate. }
    destruct (mem n (mains cfg)) eqn:Hm.
    + symmetry. apply report_main_l; [exact Hwf | apply mem_In; exact Hm].
    + symmetry. apply report_unknown_l; [apply mem_nIn; exact Hm | exact Hnf].
Qed.

Lemma opt_name_eqb_eq : forall a b : option name, opt_eqb name_eqb a b = true -> a = b.
Proof.
  intros [a|] [b|]; simpl; intros H; try discriminate; [|reflexivity].
  apply neqb_eq in H. subst. reflexivity.
Qed.

Lemma res_eqb_eq : forall a b, res_eqb a b = true -> a = b.
Proof.
  intros [[m1 f1]|] [[m2 f2]|]; unfold res_eqb; simpl; intros H; try discriminate; [|reflexivity].
  apply andb_true_iff in H. destruct H as [H1 H2]. apply neqb_eq in H1.
  apply opt_name_eqb_eq in H2. subst. reflexivity.
Qed.

Lemma res_eqb_refl : forall a, res_eqb a a = true.
Proof.
  intros [[m [f|]]|]; unfold res_eqb; simpl; rewrite ?neqb_refl; reflexivity.
Qed.

Lemma wf_cfg_perm : forall cfg cfg', Permutation cfg cfg' -> wf_cfg cfg -> wf_cfg cfg'.
Proof.
  intros cfg cfg' HP [H1 [H2 H3]].
  assert (HPs : Permutation cfg' cfg) by (apply Permutation_sym; exact HP).
  split; [|split].
  - unfold mains in *. eapply Permutation_NoDup; [apply Permutation_map; exact HP | exact H1].
  - intros f Hf Hm. apply In_fallbacks in Hf. destruct Hf as [m [fs [He Hf]]].
    apply In_mains in Hm. destruct Hm as [fs' He'].
    apply (H2 f).
    + apply In_fallbacks. exists m, fs. split; [eapply Permutation_in; eauto | exact Hf].
    + apply In_mains. exists fs'. eapply Permutation_in; eauto.
  - intros f m1 fs1 m2 fs2 He1 He2 Hf1 Hf2.
    apply (H3 f m1 fs1 m2 fs2); try assumption; eapply Permutation_in; eauto.
Qed.

Lemma report_order_irrelevant_l : forall cfg cfg' n,
  wf_cfg cfg -> Permutation cfg cfg' -> report cfg' n = report cfg n.
Proof.
  intros cfg cfg' n Hwf HP.
  pose proof (wf_cfg_perm _ _ HP Hwf) as Hwf'.
  assert (HPs : Permutation cfg' cfg) by (apply Permutation_sym; exact HP).
  destruct (mem n (fallbacks cfg)) eqn:Hf.
  - apply mem_In, In_fallbacks in Hf. destruct Hf as [m [fs [He Hf]]].
    rewrite (report_fallback_l cfg m fs n Hwf He Hf).
    apply (report_fallback_l cfg' m fs n Hwf'); [eapply Permutation_in; eauto | exact Hf].
  - apply mem_nIn in Hf. destruct (mem n (mains cfg)) eqn:Hm.
    + apply mem_In in Hm. rewrite (report_main_l cfg n Hwf Hm).
      apply report_main_l; [exact Hwf'|]. apply In_mains in Hm. destruct Hm as [fs He].
      apply In_mains. exists fs. eapply Permutation_in; eauto.
    + apply mem_nIn in Hm. rewrite (report_unknown_l cfg n Hm Hf).
      apply report_unknown_l.
      * intros Hm'. apply Hm. apply In_mains in Hm'. destruct Hm' as [fs He].
        apply In_mains. exists fs. eapply Permutation_in; eauto.
      * intros Hf'. apply Hf. apply In_fallbacks in Hf'. destruct Hf' as [m [fs [He Hx]]].
        apply In_fallbacks. exists m, fs. split; [eapply Permutation_in; eauto | exact Hx].
Qed.

(* ------------------------------------------------------------------ theorems *)

(* a substream negotiated under a fallback name is reported to the main protocol that declares
   it, together with the negotiated name *)
Theorem C03_fallback_reported_to_main : forall cfg m fs f,
  wf_cfg cfg -> In (m, fs) cfg -> In f fs -> report cfg f = Some (m, Some f).
Proof. exact report_fallback_l. Qed.

(* a substream negotiated under a main name is reported to that protocol, without fallback *)
Theorem C03_main_reported_as_main : forall cfg m,
  wf_cfg cfg -> In m (mains cfg) -> report cfg m = Some (m, None).
Proof. exact report_main_l. Qed.

(* anything else is ProtocolNotSupported (any configuration) *)
Theorem C03_unknown_not_supported : forall cfg n,
  ~ In n (mains cfg) -> ~ In n (fallbacks cfg) -> report cfg n = None.
Proof. exact report_unknown_l. Qed.

(* every name offered for negotiation is reported under an installed main protocol — for ANY
   configuration, degenerate ones included *)
Theorem C03_offered_always_supported : forall cfg n,
  In n (offered cfg) ->
  exists m fb, report cfg n = Some (m, fb) /\ In m (mains cfg).
Proof. exact offered_supported_l. Qed.

(* degenerate configurations: a report is still consistent with the declarations *)
Theorem C03_report_consistent : forall cfg n m fb,
  report cfg n = Some (m, fb) ->
  In m (mains cfg) /\
  match fb with
  | Some f => f = n /\ exists fs, In (m, fs) cfg /\ In n fs
  | None => m = n /\ ~ In n (fallbacks cfg)
  end.
Proof. exact report_shape_l. Qed.

(* for a well-formed configuration the hash-map iteration order (the order of the list) does
   not influence any report *)
Theorem C03_report_order_irrelevant : forall cfg cfg' n,
  wf_cfg cfg -> Permutation cfg cfg' -> report cfg' n = report cfg n.
Proof. exact report_order_irrelevant_l. Qed.

(* `protocol_codec` resolves a name to the same main protocol as `report_substream_open` *)
Theorem C03_codec_resolves_like_report : forall cfg n,
  resolve cfg n = option_map fst (report cfg n).
Proof. exact resolve_report. Qed.

(* the boolean well-formedness test used by the oracle is exact *)
Theorem C03_wf_cfgb_iff : forall cfg, wf_cfgb cfg = true <-> wf_cfg cfg.
Proof. exact wf_cfgb_iff. Qed.

(* the oracle accepts the model on every configuration ... *)
Theorem C03_ok_rep_accepts_model : forall cfg n, ok_rep cfg n (report cfg n) = true.
Proof.
  intros cfg n. unfold ok_rep. rewrite allowed_report. simpl.
  destruct (wf_cfgb cfg) eqn:W; [|reflexivity].
  apply wf_cfgb_iff in W. rewrite (spec_report cfg n W). apply res_eqb_refl.
Qed.

(* ... and on a well-formed configuration accepts nothing else *)
Theorem C03_ok_rep_exact : forall cfg n r,
  wf_cfg cfg -> ok_rep cfg n r = true -> r = report cfg n.
Proof.
  intros cfg n r W H. unfold ok_rep in H. apply andb_true_iff in H. destruct H as [_ H].
  apply wf_cfgb_iff in W. rewrite W in H. apply wf_cfgb_iff in W.
  apply res_eqb_eq in H. rewrite H. apply spec_report. exact W.
Qed.

(* non-vacuity: the test of protocol_set.rs, and the two degenerate behaviours *)
Definition ex_n1 : name := [47; 110; 49].          (* "/n1" *)
Definition ex_f1 : name := [47; 110; 49; 47; 102]. (* "/n1/f" *)
Definition ex_n2 : name := [47; 110; 50].          (* "/n2" *)
Example ex_wf : wf_cfgb [(ex_n1, [ex_f1]); (ex_n2, [])] = true.
Proof. vm_compute. reflexivity. Qed.
Example ex_fallback : report [(ex_n1, [ex_f1]); (ex_n2, [])] ex_f1 = Some (ex_n1, Some ex_f1).
Proof. vm_compute. reflexivity. Qed.
(* a fallback name equal to a main name is remapped *)
Example ex_main_remapped : report [(ex_n1, [ex_n2]); (ex_n2, [])] ex_n2 = Some (ex_n1, Some ex_n2).
Proof. vm_compute. reflexivity. Qed.
(* a shared fallback goes to the last declarer in iteration order *)
Example ex_shared : report [(ex_n1, [ex_f1]); (ex_n2, [ex_f1])] ex_f1 = Some (ex_n2, Some ex_f1)
                 /\ report [(ex_n2, [ex_f1]); (ex_n1, [ex_f1])] ex_f1 = Some (ex_n1, Some ex_f1).
Proof. vm_compute. split; reflexivity. Qed.

(* ------------------------------------------------------------------ wire level *)
Definition fb_p_run : parser bytes :=
  let* c := pN in let* b := pN in
  if 20000 <? c then pfail else pret (repeat b (N.to_nat c)).
Definition fb_p_name : parser name := let* rs := plist fb_p_run in pret (concat rs).
Definition fb_p_entry : parser (N * list N) :=
  let* m := pN in let* fs := plist pN in pret (m, fs).

Definition fb_nth (pool : list name) (i : N) : option name := nth_error pool (N.to_nat i).

Fixpoint omap {A B} (f : A -> option B) (l : list A) : option (list B) :=
  match l with
  | [] => Some []
  | x :: t => match f x, omap f t with
              | Some y, Some r => Some (y :: r)
              | _, _ => None
              end
  end.

Definition fb_res_entry (pool : list name) (e : N * list N) : option (name * list name) :=
  match fb_nth pool (fst e), omap (fb_nth pool) (snd e) with
  | Some m, Some fs => Some (m, fs)
  | _, _ => None
  end.

Record fcase := mkF { f_pool : list name; f_cfg : config; f_reps : list name }.

Definition ascii (n : name) : bool := forallb (fun b => b <? 128) n.

Definition fb_decode (l : list N) : option fcase :=
  match pall (let* pool := plist fb_p_name in
              let* es := plist fb_p_entry in
              let* rs := plist pN in pret (pool, es, rs)) l with
  | Some (pool, es, rs) =>
      if forallb ascii pool then
        match omap (fb_res_entry pool) es, omap (fb_nth pool) rs with
        | Some cfg, Some reps =>
            if nodupb (mains cfg) then Some (mkF pool cfg reps) else None
        | _, _ => None
        end
      else None
  | None => None
  end.

(* canonical index of a name: its first occurrence in the pool *)
Fixpoint canon_from (pool : list name) (n : name) (i : N) : N :=
  match pool with
  | [] => 0
  | x :: t => if name_eqb n x then i else canon_from t n (i + 1)
  end.
Definition canon (pool : list name) (n : name) : N := canon_from pool n 0.

Definition enc_rep (pool : list name) (r : option (name * option name)) : list N :=
  match r with
  | None => [0]
  | Some (m, Some f) => [1; canon pool m; 1; canon pool f]
  | Some (m, None) => [1; canon pool m; 0; 0]
  end.

(* keep-alive of the entry with main name m: Yes iff its position is even *)
Fixpoint ka_of (cfg : config) (m : name) (even : bool) : bool :=
  match cfg with
  | [] => false
  | e :: t => if name_eqb (fst e) m then even else ka_of t m (negb even)
  end.

Fixpoint offered_rows (pool : list name) (cfg : config) (rest : list name) (i : N) : list (list N) :=
  match rest with
  | [] => []
  | n :: t =>
      (if (canon pool n =? i) && mem n (offered cfg) then
         let m := match resolve cfg n with Some m => m | None => n end in
         [[i; canon pool m; b2n (ka_of cfg m true)]]
       else []) ++ offered_rows pool cfg t (i + 1)
  end.

Definition run_fallback (l : list N) : list N :=
  match fb_decode l with
  | None => [0]
  | Some c =>
      let rows := offered_rows (f_pool c) (f_cfg c) (f_pool c) 0 in
      1 :: flat_map (fun n => enc_rep (f_pool c) (report (f_cfg c) n)) (f_reps c)
        ++ N.of_nat (length rows) :: concat rows
  end.

(* ---- the oracle on traces *)
Definition wrep := option (N * option N).
Definition p_wrep : parser wrep :=
  let* t := pN in
  if t =? 0 then pret None
  else if t =? 1 then
    let* mi := pN in let* hf := pN in let* fi := pN in
    pret (Some (mi, if hf =? 0 then None else Some fi))
  else pfail.
Definition p_row : parser (N * N * N) :=
  let* ni := pN in let* mi := pN in let* ka := pN in pret (ni, mi, ka).

(* outer None: an index outside the pool *)
Definition dec_rep (pool : list name) (w : wrep) : option (option (name * option name)) :=
  match w with
  | None => Some None
  | Some (mi, ofi) =>
      match fb_nth pool mi with
      | None => None
      | Some m =>
          match ofi with
          | None => Some (Some (m, None))
          | Some fi => match fb_nth pool fi with
                       | Some f => Some (Some (m, Some f))
                       | None => None
                       end
          end
      end
  end.

Definition row_names (pool : list name) (row : N * N * N) : option (name * name) :=
  match fb_nth pool (fst (fst row)), fb_nth pool (snd (fst row)) with
  | Some n, Some m => Some (n, m)
  | _, _ => None
  end.

(* one row of the offered table: the name is offered, it resolves to a main that may serve it
   (the right one if the configuration is well-formed), the keep-alive is that main's *)
Definition ok_row (pool : list name) (cfg : config) (row : N * N * N) : bool :=
  match row_names pool row with
  | Some (n, m) =>
      mem n (offered cfg) &&
      (declares cfg m n || (name_eqb m n && mem n (mains cfg))) &&
      (snd row =? b2n (ka_of cfg m true)) &&
      (if wf_cfgb cfg then opt_eqb name_eqb (Some m) (option_map fst (spec cfg n)) else true)
  | None => false
  end.

(* the report of n and the offered table come from one table: they name the same main *)
Definition same_table (pool : list name) (rows : list (N * N * N)) (n m : name) : bool :=
  forallb (fun row => match row_names pool row with
                      | Some (x, y) => if name_eqb x n then name_eqb y m else true
                      | None => true
                      end) rows.

Fixpoint ok_reps (pool : list name) (cfg : config) (rows : list (N * N * N))
         (reps : list name) (ws : list wrep) : bool :=
  match reps, ws with
  | [], [] => true
  | n :: reps', w :: ws' =>
      match dec_rep pool w with
      | Some r =>
          ok_rep cfg n r &&
          match r with Some (m, _) => same_table pool rows n m | None => true end &&
          ok_reps pool cfg rows reps' ws'
      | None => false
      end
  | _, _ => false
  end.

Definition ok_fallback (case trace : list N) : bool :=
  match fb_decode case, trace with
  | None, [0] => true
  | Some c, 1 :: body =>
      match pall (let* ws := prep (length (f_reps c)) p_wrep in
                  let* rows := plist p_row in pret (ws, rows)) body with
      | Some (ws, rows) =>
          ok_reps (f_pool c) (f_cfg c) rows (f_reps c) ws &&
          forallb (ok_row (f_pool c) (f_cfg c)) rows &&
          (* every offered name has a row *)
          forallb (fun n => existsb (fun row => match row_names (f_pool c) row with
                                                | Some (x, _) => name_eqb x n
                                                | None => false
                                                end) rows) (offered (f_cfg c))
      | None => false
      end
  | _, _ => false
  end.

(* ------------------------------------------------------------------ wire-level proofs *)
(* The oracle accepts the model on EVERY input (unbounded): the trace parser reads back what the
   trace encoder wrote, canonical indices resolve back to the names they stand for, and the
   per-report checks, the row checks and the coverage check all hold for the model's trace. *)

(* ---- canonical indices resolve back *)
Lemma canon_from_first : forall (pre : list name) (n : name) (t : list name) k,
  ~ In n pre -> canon_from (pre ++ n :: t) n k = k + N.of_nat (length pre).
Proof.
  induction pre as [|x pre IH]; intros n t k H; cbn [app canon_from length].
  - rewrite neqb_refl. lia.
  - rewrite neqb_neq by (intros ->; apply H; left; reflexivity).
    rewrite IH by (intros Hin; apply H; right; exact Hin). lia.
Qed.

Lemma in_split_first : forall (n : name) (l : list name),
  In n l -> exists pre t, l = pre ++ n :: t /\ ~ In n pre.
Proof.
  induction l as [|x l IH]; intros H; [destruct H|].
  destruct (name_eqb n x) eqn:E.
  - apply neqb_eq in E. subst. exists [], l. split; [reflexivity | intros []].
  - destruct H as [->|H]; [rewrite neqb_refl in E; discriminate|].
    destruct (IH H) as [pre [t [-> Hn]]]. exists (x :: pre), t. split; [reflexivity|].
    intros [->|Hin]; [rewrite neqb_refl in E; discriminate | exact (Hn Hin)].
Qed.

Lemma nth_canon : forall pool n, In n pool -> fb_nth pool (canon pool n) = Some n.
Proof.
  intros pool n H. destruct (in_split_first _ _ H) as [pre [t [-> Hn]]].
  unfold fb_nth, canon. rewrite canon_from_first by exact Hn.
  rewrite N.add_0_l, Nat2N.id. rewrite nth_error_app2 by lia.
  replace (length pre - length pre)%nat with 0%nat by lia. reflexivity.
Qed.

Lemma fb_nth_In : forall pool i n, fb_nth pool i = Some n -> In n pool.
Proof. intros pool i n H. unfold fb_nth in H. eapply nth_error_In. exact H. Qed.

Lemma omap_In : forall {A B} (f : A -> option B) l r y,
  omap f l = Some r -> In y r -> exists x, In x l /\ f x = Some y.
Proof.
  intros A B f. induction l as [|a l IH]; simpl; intros r y H Hin.
  - inversion H. subst. destruct Hin.
  - destruct (f a) as [b|] eqn:Ea; [|discriminate].
    destruct (omap f l) as [r'|] eqn:Er; [|discriminate].
    inversion H. subst. destruct Hin as [->|Hin].
    + exists a. split; [left; reflexivity | exact Ea].
    + destruct (IH _ _ eq_refl Hin) as [x [Hx Hf]]. exists x. split; [right; exact Hx | exact Hf].
Qed.

(* every name of a decoded case lives in the pool *)
Definition cfg_in_pool (pool : list name) (cfg : config) : Prop :=
  forall m fs, In (m, fs) cfg -> In m pool /\ forall f, In f fs -> In f pool.

Lemma fb_decode_pool : forall l c, fb_decode l = Some c ->
  cfg_in_pool (f_pool c) (f_cfg c) /\ forall n, In n (f_reps c) -> In n (f_pool c).
Proof.
  intros l c H. unfold fb_decode in H.
  match type of H with context [pall ?p ?x] => destruct (pall p x) as [[[pool es] rs]|] end;
    [|discriminate].
  destruct (forallb ascii pool); [|discriminate].
  destruct (omap (fb_res_entry pool) es) as [cfg|] eqn:Ec; [|discriminate].
  destruct (omap (fb_nth pool) rs) as [reps|] eqn:Er; [|discriminate].
  destruct (nodupb (mains cfg)); [|discriminate].
  inversion H. subst. cbn [f_pool f_cfg f_reps]. split.
  - intros m fs Hin. destruct (omap_In _ _ _ _ Ec Hin) as [[mi fis] [_ He]].
    unfold fb_res_entry in He. cbn [fst snd] in He.
    destruct (fb_nth pool mi) as [m'|] eqn:Em; [|discriminate].
    destruct (omap (fb_nth pool) fis) as [fs'|] eqn:Ef; [|discriminate].
    inversion He. subst. split; [eapply fb_nth_In; exact Em|].
    intros f Hf. destruct (omap_In _ _ _ _ Ef Hf) as [fi [_ Hfi]]. eapply fb_nth_In. exact Hfi.
  - intros n Hin. destruct (omap_In _ _ _ _ Er Hin) as [i [_ Hi]]. eapply fb_nth_In. exact Hi.
Qed.

Lemma mains_in_pool : forall pool cfg m, cfg_in_pool pool cfg -> In m (mains cfg) -> In m pool.
Proof.
  intros pool cfg m H Hm. apply In_mains in Hm. destruct Hm as [fs He]. exact (proj1 (H _ _ He)).
Qed.

Lemma offered_in_pool : forall pool cfg n, cfg_in_pool pool cfg -> In n (offered cfg) -> In n pool.
Proof.
  intros pool cfg n H Hn. unfold offered in Hn. apply in_app_or in Hn. destruct Hn as [Hm|Hf].
  - eapply mains_in_pool; eauto.
  - apply In_fallbacks in Hf. destruct Hf as [m [fs [He Hf]]]. exact (proj2 (H _ _ He) _ Hf).
Qed.

(* ---- encode / parse round trip: report entries *)
Definition wrep_of (pool : list name) (r : option (name * option name)) : wrep :=
  match r with
  | None => None
  | Some (m, Some f) => Some (canon pool m, Some (canon pool f))
  | Some (m, None) => Some (canon pool m, None)
  end.

Lemma p_wrep_enc : forall pool r rest,
  p_wrep (enc_rep pool r ++ rest) = Some (wrep_of pool r, rest).
Proof. intros pool [[m [f|]]|] rest; reflexivity. Qed.

Lemma prep_wrep_enc : forall pool (g : name -> option (name * option name)) reps rest,
  prep (length reps) p_wrep (flat_map (fun n => enc_rep pool (g n)) reps ++ rest)
  = Some (map (fun n => wrep_of pool (g n)) reps, rest).
Proof.
  intros pool g. induction reps as [|r reps IH]; intros rest; [reflexivity|].
  cbn [length prep flat_map map]. unfold pbind at 1. rewrite <- app_assoc, p_wrep_enc.
  unfold pbind at 1. rewrite IH. reflexivity.
Qed.

Lemma dec_rep_report : forall pool cfg n,
  cfg_in_pool pool cfg -> In n pool ->
  dec_rep pool (wrep_of pool (report cfg n)) = Some (report cfg n).
Proof.
  intros pool cfg n Hc Hn. destruct (report cfg n) as [[m fb]|] eqn:E; [|reflexivity].
  destruct (report_shape_l _ _ _ _ E) as [Hm Hs].
  assert (Hmp : In m pool) by (eapply mains_in_pool; eauto).
  destruct fb as [f|]; cbn [wrep_of dec_rep].
  - destruct Hs as [-> _]. rewrite (nth_canon _ _ Hmp), (nth_canon _ _ Hn). reflexivity.
  - rewrite (nth_canon _ _ Hmp). reflexivity.
Qed.

(* ---- encode / parse round trip: table rows *)
Definition enc_row (r : N * N * N) : list N := [fst (fst r); snd (fst r); snd r].

Lemma p_row_enc : forall r rest, p_row (enc_row r ++ rest) = Some (r, rest).
Proof. intros [[a b] c] rest. reflexivity. Qed.

Lemma prep_fuel_rows : forall rows fuel rest,
  (length rows <= length fuel)%nat ->
  prep_fuel fuel (N.of_nat (length rows)) p_row (flat_map enc_row rows ++ rest) = Some (rows, rest).
Proof.
  induction rows as [|r rows IH]; intros fuel rest H.
  - destruct fuel; reflexivity.
  - destruct fuel as [|x fuel]; [simpl in H; lia|].
    cbn [length flat_map]. rewrite Nat2N.inj_succ. cbn [prep_fuel].
    destruct (N.eqb_spec (N.succ (N.of_nat (length rows))) 0) as [E|_]; [lia|].
    rewrite <- app_assoc, p_row_enc.
    replace (N.succ (N.of_nat (length rows)) - 1) with (N.of_nat (length rows)) by lia.
    rewrite IH; [reflexivity | simpl in H; lia].
Qed.

Lemma enc_rows_length : forall rows, (length rows <= length (flat_map enc_row rows))%nat.
Proof. induction rows as [|r rows IH]; simpl; lia. Qed.

Lemma parse_body : forall pool (g : name -> option (name * option name)) reps rows,
  pall (let* ws := prep (length reps) p_wrep in
        let* rows := plist p_row in pret (ws, rows))
       (flat_map (fun n => enc_rep pool (g n)) reps
          ++ N.of_nat (length rows) :: flat_map enc_row rows)
  = Some (map (fun n => wrep_of pool (g n)) reps, rows).
Proof.
  intros pool g reps rows. unfold pall. unfold pbind at 1. rewrite prep_wrep_enc.
  unfold pbind, plist, pret.
  assert (P := prep_fuel_rows rows (N.of_nat (length rows) :: flat_map enc_row rows) []).
  rewrite app_nil_r in P. rewrite P; [reflexivity|].
  pose proof (enc_rows_length rows). simpl. lia.
Qed.

(* ---- the rows of the model as triples *)
Definition row_main (cfg : config) (n : name) : name :=
  match resolve cfg n with Some m => m | None => n end.

Definition row_of (pool : list name) (cfg : config) (n : name) : N * N * N :=
  (canon pool n, canon pool (row_main cfg n), b2n (ka_of cfg (row_main cfg n) true)).

Fixpoint offered_rows3 (pool : list name) (cfg : config) (rest : list name) (i : N)
  : list (N * N * N) :=
  match rest with
  | [] => []
  | n :: t =>
      (if (canon pool n =? i) && mem n (offered cfg) then
         [(i, canon pool (row_main cfg n), b2n (ka_of cfg (row_main cfg n) true))]
       else []) ++ offered_rows3 pool cfg t (i + 1)
  end.

Lemma offered_rows_eq : forall pool cfg rest i,
  offered_rows pool cfg rest i = map enc_row (offered_rows3 pool cfg rest i).
Proof.
  intros pool cfg. induction rest as [|n t IH]; intros i; [reflexivity|].
  cbn [offered_rows offered_rows3]. rewrite map_app, IH.
  destruct ((canon pool n =? i) && mem n (offered cfg)); reflexivity.
Qed.

Lemma rows3_In : forall pool cfg rest i row,
  In row (offered_rows3 pool cfg rest i) ->
  exists n, In n rest /\ mem n (offered cfg) = true /\ row = row_of pool cfg n.
Proof.
  intros pool cfg. induction rest as [|n t IH]; intros i row H; [destruct H|].
  cbn [offered_rows3] in H. apply in_app_or in H. destruct H as [H|H].
  - destruct (canon pool n =? i) eqn:Ei; [|destruct H].
    destruct (mem n (offered cfg)) eqn:Em; [|destruct H].
    cbn [andb] in H. destruct H as [<-|[]]. apply N.eqb_eq in Ei. subst i.
    exists n. split; [left; reflexivity|]. split; [exact Em | reflexivity].
  - destruct (IH _ _ H) as [n' [Hin Hr]]. exists n'. split; [right; exact Hin | exact Hr].
Qed.

Lemma rows3_cover : forall pool cfg rest pre n,
  pool = pre ++ rest -> ~ In n pre -> In n rest -> mem n (offered cfg) = true ->
  In (row_of pool cfg n) (offered_rows3 pool cfg rest (N.of_nat (length pre))).
Proof.
  intros pool cfg. induction rest as [|x t IH]; intros pre n Hp Hpre Hin Hm; [destruct Hin|].
  cbn [offered_rows3]. apply in_or_app. destruct (name_eqb n x) eqn:E.
  - left. apply neqb_eq in E. subst x.
    assert (Hc : canon pool n = N.of_nat (length pre)).
    { unfold canon. rewrite Hp. rewrite canon_from_first by exact Hpre. lia. }
    unfold row_of. rewrite Hc, N.eqb_refl, Hm. left. reflexivity.
  - right. destruct Hin as [->|Hin]; [rewrite neqb_refl in E; discriminate|].
    replace (N.of_nat (length pre) + 1) with (N.of_nat (length (pre ++ [x])))
      by (rewrite app_length; simpl; lia).
    apply IH; [rewrite <- app_assoc; exact Hp | | exact Hin | exact Hm].
    intros Hx. apply in_app_or in Hx. destruct Hx as [Hx|[->|[]]]; [exact (Hpre Hx)|].
    rewrite neqb_refl in E. discriminate.
Qed.

(* ---- the checks of the oracle on the model's rows *)
Lemma offered_main : forall cfg n, In n (offered cfg) ->
  exists fb, report cfg n = Some (row_main cfg n, fb) /\ In (row_main cfg n) (mains cfg).
Proof.
  intros cfg n H. destruct (offered_supported_l _ _ H) as [m [fb [Hr Hm]]].
  unfold row_main. rewrite resolve_report, Hr. simpl. exists fb. split; [reflexivity | exact Hm].
Qed.

Lemma report_row_main : forall cfg n m fb, report cfg n = Some (m, fb) -> row_main cfg n = m.
Proof. intros cfg n m fb H. unfold row_main. rewrite resolve_report, H. reflexivity. Qed.

Lemma row_names_row_of : forall pool cfg n,
  cfg_in_pool pool cfg -> In n (offered cfg) ->
  row_names pool (row_of pool cfg n) = Some (n, row_main cfg n).
Proof.
  intros pool cfg n Hc Hn. destruct (offered_main _ _ Hn) as [fb [_ Hm]].
  unfold row_names, row_of. cbn [fst snd].
  rewrite (nth_canon pool n) by (eapply offered_in_pool; eauto).
  rewrite (nth_canon pool (row_main cfg n)) by (eapply mains_in_pool; eauto). reflexivity.
Qed.

Lemma ok_row_row_of : forall pool cfg n,
  cfg_in_pool pool cfg -> In n (offered cfg) -> ok_row pool cfg (row_of pool cfg n) = true.
Proof.
  intros pool cfg n Hc Hn. unfold ok_row. rewrite (row_names_row_of _ _ _ Hc Hn).
  destruct (offered_main _ _ Hn) as [fb [Hr Hm]].
  assert (Ho : mem n (offered cfg) = true) by (apply mem_In; exact Hn). rewrite Ho.
  assert (Hd : declares cfg (row_main cfg n) n
               || (name_eqb (row_main cfg n) n && mem n (mains cfg)) = true).
  { destruct (report_shape_l _ _ _ _ Hr) as [_ Hs]. destruct fb as [f|].
    - destruct Hs as [_ Hd]. apply declares_In in Hd. rewrite Hd. reflexivity.
    - destruct Hs as [He _]. rewrite He in *. rewrite neqb_refl.
      apply mem_In in Hm. rewrite Hm. apply orb_true_r. }
  rewrite Hd. unfold row_of at 1. cbn [snd andb]. rewrite N.eqb_refl. cbn [andb].
  destruct (wf_cfgb cfg) eqn:W; [|reflexivity].
  apply wf_cfgb_iff in W. rewrite (spec_report cfg n W), Hr. simpl. apply neqb_refl.
Qed.

Lemma same_table_rows : forall pool cfg rest i n m fb,
  cfg_in_pool pool cfg -> report cfg n = Some (m, fb) ->
  same_table pool (offered_rows3 pool cfg rest i) n m = true.
Proof.
  intros pool cfg rest i n m fb Hc Hr. unfold same_table. apply forallb_forall.
  intros row Hin. destruct (rows3_In _ _ _ _ _ Hin) as [n' [_ [Hm ->]]].
  apply mem_In in Hm. rewrite (row_names_row_of _ _ _ Hc Hm).
  destruct (name_eqb n' n) eqn:E; [|reflexivity].
  apply neqb_eq in E. subst n'. rewrite (report_row_main _ _ _ _ Hr). apply neqb_refl.
Qed.

Lemma ok_reps_model : forall pool cfg rest i reps,
  cfg_in_pool pool cfg -> (forall n, In n reps -> In n pool) ->
  ok_reps pool cfg (offered_rows3 pool cfg rest i) reps
          (map (fun n => wrep_of pool (report cfg n)) reps) = true.
Proof.
  intros pool cfg rest i reps Hc. induction reps as [|n reps IH]; intros Hr; [reflexivity|].
  cbn [map ok_reps]. rewrite (dec_rep_report _ _ _ Hc (Hr n (or_introl eq_refl))).
  rewrite C03_ok_rep_accepts_model. rewrite IH by (intros x Hx; apply Hr; right; exact Hx).
  destruct (report cfg n) as [[m fb]|] eqn:E; [|reflexivity].
  rewrite (same_table_rows _ _ _ _ _ _ _ Hc E). reflexivity.
Qed.

(* ---- the wire-level theorem *)
Theorem ok_fallback_accepts_model : forall case : list N,
  ok_fallback case (run_fallback case) = true.
Proof.
  intros case. unfold ok_fallback, run_fallback.
  destruct (fb_decode case) as [c|] eqn:D; [|reflexivity].
  destruct (fb_decode_pool _ _ D) as [Hc Hr].
  destruct c as [pool cfg reps]. cbn [f_pool f_cfg f_reps] in *.
  cbv zeta. rewrite offered_rows_eq, map_length, <- flat_map_concat_map.
  cbv beta iota. rewrite parse_body.
  rewrite (ok_reps_model _ _ _ _ _ Hc Hr). cbn [andb].
  apply andb_true_iff. split.
  - apply forallb_forall. intros row Hin.
    destruct (rows3_In _ _ _ _ _ Hin) as [n [_ [Hm ->]]].
    apply ok_row_row_of; [exact Hc | apply mem_In; exact Hm].
  - apply forallb_forall. intros n Hn. apply existsb_exists.
    exists (row_of pool cfg n). split.
    + apply (rows3_cover pool cfg pool [] n); [reflexivity | intros [] | | apply mem_In; exact Hn].
      eapply offered_in_pool; eauto.
    + rewrite (row_names_row_of _ _ _ Hc Hn). apply neqb_refl.
Qed.
