(* C03 — one poll of the byte-level DialerSelectFuture (Model.d_poll) is a finite run of dialer
   micro-steps of the message-level system (Msg.mstep_d), for every carrier state related by
   Dir.DirRel: any chunking, any Pending injection. *)
From Coq Require Import List Arith NArith Bool Lia ZifyBool ZifyNat ZifyN.
From V.gen Require Import Consts.
From V.common Require Import Wire.
From V.C03 Require Import Model Msg Proofs MsgRef MsgProofs MsgInv Chan Dir.
Import ListNotations.
Open Scope N_scope.

Arguments N.add : simpl never.
Arguments N.sub : simpl never.
Arguments N.eqb : simpl never.
Arguments N.ltb : simpl never.
Arguments N.leb : simpl never.
Arguments N.of_nat : simpl never.
Arguments N.min : simpl never.

Definition wfn (p : name) : Prop := wf_name p /\ len p + 1 <= MAX_FRAME.

(* ---- single message-level steps of the dialer, by phase *)
Lemma ms_d_header_nil : forall m, md_ph (sd m) = MDSendHeader -> md_rest (sd m) = [] ->
  mstep_d m = d_fail m.
Proof. intros m H1 H2. unfold mstep_d. rewrite H1, H2. reflexivity. Qed.

Lemma ms_d_header_cons : forall m p r, md_ph (sd m) = MDSendHeader -> md_rest (sd m) = p :: r ->
  mstep_d m = set_d m (mkD (MDSendProto p false) r (md_wbuf (sd m) ++ [MHeader])).
Proof. intros m p r H1 H2. unfold mstep_d. rewrite H1, H2. reflexivity. Qed.

Lemma ms_d_proto : forall m p hr, md_ph (sd m) = MDSendProto p hr -> starts_slash p = true ->
  mstep_d m = set_d m (mkD (MDFlush p hr) (md_rest (sd m)) (md_wbuf (sd m) ++ [MProto p])).
Proof. intros m p hr H1 H2. unfold mstep_d. rewrite H1, H2. reflexivity. Qed.

Lemma ms_d_flush_nil : forall m p hr, md_ph (sd m) = MDFlush p hr -> md_wbuf (sd m) = [] ->
  mstep_d m = set_d m (mkD (MDAwait p hr) (md_rest (sd m)) []).
Proof. intros m p hr H1 H2. unfold mstep_d. rewrite H1, H2. reflexivity. Qed.

Lemma ms_d_await_eof : forall m p hr, md_ph (sd m) = MDAwait p hr -> c_ld m = [] ->
  ld_closed m = true -> mstep_d m = d_fail m.
Proof. intros m p hr H1 H2 H3. unfold mstep_d. rewrite H1, H2, H3. reflexivity. Qed.

Lemma ms_d_await_blocked : forall m p hr, md_ph (sd m) = MDAwait p hr -> c_ld m = [] ->
  ld_closed m = false -> mstep_d m = m.
Proof. intros m p hr H1 H2 H3. unfold mstep_d. rewrite H1, H2, H3. reflexivity. Qed.

Definition pop_ld (m : msys) (c : list msg) : msys :=
  mkS (sd m) (sl m) (c_dl m) (dl_closed m) c (ld_closed m).

Lemma ms_d_await_msg : forall m p hr x c, md_ph (sd m) = MDAwait p hr -> c_ld m = x :: c ->
  mstep_d m =
  match d_react p hr x with
  | DRHeader => set_d (pop_ld m c) (mkD (MDAwait p true) (md_rest (sd m)) (md_wbuf (sd m)))
  | DRConfirm => set_d (pop_ld m c) (mkD (MDDone (Some p)) (md_rest (sd m)) (md_wbuf (sd m)))
  | DRNext => match md_rest (sd m) with
              | [] => d_fail (pop_ld m c)
              | p' :: r => set_d (pop_ld m c) (mkD (MDSendProto p' hr) r (md_wbuf (sd m)))
              end
  | DRInvalid => d_fail (pop_ld m c)
  end.
Proof. intros m p hr x c H1 H2. unfold mstep_d. rewrite H1, H2. reflexivity. Qed.

Section SimD.
Variables (ds ls : list name).
Hypothesis Hwf : Forall wfn ds.

Lemma wfd_ds : wfd ds.
Proof.
  unfold wfd. eapply Forall_impl; [|exact Hwf]. intros p [(H & _) _]. exact H.
Qed.

Lemma in_ds_wfn : forall p, In p ds -> wfn p.
Proof. intros p H. rewrite Forall_forall in Hwf. apply Hwf. exact H. Qed.

Lemma ok_header : okmsg MHeader.
Proof. split; [exact I|]. rewrite max_frame_val. cbn. unfold len. cbn. lia. Qed.
Lemma ok_na : okmsg MNa.
Proof. split; [exact I|]. rewrite max_frame_val. cbn. unfold len. cbn. lia. Qed.
Lemma ok_proto : forall p, In p ds -> okmsg (MProto p).
Proof.
  intros p H. destruct (in_ds_wfn p H) as [H1 H2]. split; [exact H1|].
  cbn [encode_msg]. rewrite len_app. unfold len at 2. cbn. exact H2.
Qed.

Lemma dmsg_ok : forall x, dmsg ds x -> okmsg x.
Proof. intros x [-> | (p & -> & H)]; [apply ok_header | apply ok_proto; exact H]. Qed.
Lemma lmsg_ok : forall x, lmsg ds x -> okmsg x.
Proof.
  intros x [-> | [-> | (p & -> & H)]]; [apply ok_header | apply ok_na | apply ok_proto; exact H].
Qed.

Lemma ok_ld : forall m, Reach ds ls m -> Forall okmsg (c_ld m ++ ml_wbuf (sl m)).
Proof.
  intros m Hr. destruct (NM_reach ds ls m Hr) as (_ & _ & H3 & H4 & _).
  apply Forall_app. split; (eapply Forall_impl; [|eassumption]); apply lmsg_ok.
Qed.
Lemma ok_dl : forall m, Reach ds ls m -> Forall okmsg (c_dl m ++ md_wbuf (sd m)).
Proof.
  intros m Hr. destruct (NM_reach ds ls m Hr) as (H1 & H2 & _).
  apply Forall_app. split; (eapply Forall_impl; [|eassumption]); apply dmsg_ok.
Qed.

(* position of the current proposal in the dialer's list *)
Definition Pos (i : N) (p : name) (rest : list name) (drest : list (N * name)) : Prop :=
  exists pre, ds = pre ++ p :: rest /\ i = N.of_nat (length pre) /\ drest = tag_from (i + 1) rest.

Lemma Pos_in : forall i p rest drest, Pos i p rest drest -> In p ds.
Proof. intros i p rest drest (pre & -> & _). apply in_or_app. right. left. reflexivity. Qed.

Lemma Pos_nth : forall i p rest drest, Pos i p rest drest -> nth_error ds (N.to_nat i) = Some p.
Proof.
  intros i p rest drest (pre & -> & -> & _). rewrite Nat2N.id.
  rewrite nth_error_app2 by lia. rewrite Nat.sub_diag. reflexivity.
Qed.

Lemma Pos_next : forall i p p' rest drest, Pos i p (p' :: rest) drest ->
  exists drest', drest = (i + 1, p') :: drest' /\ Pos (i + 1) p' rest drest'.
Proof.
  intros i p p' rest drest (pre & E & Hi & ->). cbn [tag_from].
  exists (tag_from (i + 1 + 1) rest). split; [reflexivity|].
  exists (pre ++ [p]). rewrite <- app_assoc. cbn. split; [exact E|]. split; [|reflexivity].
  rewrite app_length. cbn. lia.
Qed.

Definition DLoc (d : dialer) (md : mdial) : Prop :=
  d_lazy d = false /\
  match d_ph d with
  | DSendHeader => md_ph md = MDSendHeader /\ d_rest d = tag_from 0 ds /\ md_rest md = ds /\
                   d_wbuf d = [] /\ d_rd d = rd_init
  | DSendProto i p hr => md_ph md = MDSendProto p hr /\ Pos i p (md_rest md) (d_rest d) /\
                         len (d_wbuf d) <= 20 /\ d_rd d = rd_init
  | DFlush i p hr => md_ph md = MDFlush p hr /\ Pos i p (md_rest md) (d_rest d) /\ d_rd d = rd_init
  | DAwait i p hr => md_ph md = MDAwait p hr /\ Pos i p (md_rest md) (d_rest d) /\ d_wbuf d = []
  end.

(* the listener as the sender of the dialer's inbound direction *)
Definition SLinkL (sv : sview) (m : msys) : Prop :=
  match sv with
  | SvN _ => ld_closed m = false
  | SvP _ _ => exists q, ml_ph (sl m) = MLDone (Some q)
  | SvF => ld_closed m = true
  end.

Lemma SLinkL_step_d : forall sv m, SLinkL sv m -> SLinkL sv (mstep_d m).
Proof.
  intros sv m H. destruct (frame_d m) as (Hsl & Hcl & _).
  destruct sv; cbn in *; rewrite ?Hsl, ?Hcl; exact H.
Qed.

Definition mdk (k : nat) (m : msys) : msys := mrun ls (repeat true k) m.

Lemma mdk_S : forall k m, mdk (S k) m = mdk k (mstep_d m).
Proof. reflexivity. Qed.

(* The dialer's environment is abstract: `R` is any invariant of the message-level state that the
   dialer's own micro-steps preserve, under which the messages still to be read are well formed
   and a peer that has gone over to its payload has left the awaited answer in the channel.
   Instantiated with `Reach ds ls` (the peer is the model's own listener) at the end of the
   file, and with the invariant of an arbitrary legal peer in Peer.v. *)
Variable R : msys -> Prop.
Hypothesis R_step_d : forall m, R m -> R (mstep_d m).
Hypothesis R_ok_ld : forall m, R m -> Forall okmsg (c_ld m ++ ml_wbuf (sl m)).
Hypothesis R_guard_d : forall m q p hr, R m -> ml_ph (sl m) = MLDone (Some q) ->
  md_ph (sd m) = MDAwait p hr -> c_ld m <> [].

Lemma R_mdk : forall k m, R m -> R (mdk k m).
Proof.
  induction k as [|k IH]; intros m H; [exact H|]. rewrite mdk_S. apply IH. apply R_step_d. exact H.
Qed.

Lemma Reach_step_d : forall m, R m -> R (mstep_d m).
Proof. exact R_step_d. Qed.

Definition DPost (rvL : rview) (svL : sview) (m' : msys) (d' : dialer) (pin' pout' : pipe) (r : nout)
  : Prop :=
  R m' /\ SLinkL svL m' /\
  match r with
  | NPending =>
      DLoc d' (sd m') /\ dl_closed m' = false /\
      DirRel (SvN (d_wbuf d')) rvL pout' (c_dl m') (md_wbuf (sd m')) /\
      DirRel svL (RvN (d_rd d')) pin' (c_ld m') (ml_wbuf (sl m'))
  | NErr code =>
      0 < code < 90 /\ md_ph (sd m') = MDDone None /\ dl_closed m' = true /\
      DirRel SvF rvL (pipe_close pout') (c_dl m') (md_wbuf (sd m')) /\
      DirRel svL RvF pin' (c_ld m') (ml_wbuf (sl m'))
  | NDone i =>
      exists p, md_ph (sd m') = MDDone (Some p) /\
        (exists pre, ds = pre ++ p :: md_rest (sd m') /\ i = N.of_nat (length pre)) /\
        d_wbuf d' = [] /\ d_rd d' = rd_init /\ dl_closed m' = false /\
        DirRel (SvN []) rvL pout' (c_dl m') (md_wbuf (sd m')) /\
        DirRel svL (RvN rd_init) pin' (c_ld m') (ml_wbuf (sl m'))
  | NLazy _ _ _ _ => False
  end.

Lemma DPost_step : forall rvL svL m d' pin' pout' r k,
  DPost rvL svL (mdk k (mstep_d m)) d' pin' pout' r ->
  exists k', DPost rvL svL (mdk k' m) d' pin' pout' r.
Proof. intros. exists (S k). rewrite mdk_S. assumption. Qed.

Lemma mdk_0 : forall m, mdk 0 m = m.
Proof. reflexivity. Qed.

Lemma mdk_add : forall j k m, mdk (j + k) m = mdk k (mdk j m).
Proof. intros. unfold mdk. apply mrun_repeat_add. Qed.

(* the statement proved by induction on the fuel *)
Definition SimStmt (fuel : nat) : Prop :=
  forall d pin pout m rvL svL d' pin' pout' r,
  R m -> SLinkL svL m -> DLoc d (sd m) -> dl_closed m = false ->
  DirRel (SvN (d_wbuf d)) rvL pout (c_dl m) (md_wbuf (sd m)) ->
  DirRel svL (RvN (d_rd d)) pin (c_ld m) (ml_wbuf (sl m)) ->
  d_poll fuel d pin pout = (d', pin', pout', r) ->
  exists k, DPost rvL svL (mdk k m) d' pin' pout' r.

(* failing: the dialer's end is dropped *)
Lemma dpost_fail : forall rvL svL rv m1 d' pin' pout' code,
  R (d_fail m1) -> SLinkL svL m1 -> 0 < code < 90 ->
  DirRel (SvN []) rvL pout' (c_dl m1) (md_wbuf (sd m1)) ->
  DirRel svL rv pin' (c_ld m1) (ml_wbuf (sl m1)) ->
  DPost rvL svL (d_fail m1) d' pin' pout' (NErr code).
Proof.
  intros rvL svL rv m1 d' pin' pout' code HR HL Hc Hout Hin.
  split; [exact HR|]. split.
  - destruct svL; cbn in *; exact HL.
  - split; [exact Hc|]. cbn. split; [reflexivity|]. split; [reflexivity|]. split.
    + destruct (dir_to_payload _ _ _ _ Hout) as [Hw _]. rewrite Hw in Hout.
      apply dir_fail. exact Hout.
    + eapply dir_reader_gone. exact Hin.
Qed.

Lemma sim_fuel0 : SimStmt 0.
Proof.
  intros d pin pout m rvL svL d' pin' pout' r HR HL HD Hcl Hout Hin H.
  cbn in H. injection H as <- <- <- <-. exists 0%nat. rewrite mdk_0.
  split; [exact HR|]. split; [exact HL|]. split; [exact HD|]. split; [exact Hcl|]. split; assumption.
Qed.

Lemma sim_send_header : forall f, SimStmt f ->
  forall rest rd wb pin pout m rvL svL d' pin' pout' r,
  let d := mkDialer DSendHeader rest false rd wb in
  R m -> SLinkL svL m -> DLoc d (sd m) -> dl_closed m = false ->
  DirRel (SvN wb) rvL pout (c_dl m) (md_wbuf (sd m)) ->
  DirRel svL (RvN rd) pin (c_ld m) (ml_wbuf (sl m)) ->
  d_poll (S f) d pin pout = (d', pin', pout', r) ->
  exists k, DPost rvL svL (mdk k m) d' pin' pout' r.
Proof.
  intros f IH rest rd wb pin pout m rvL svL d' pin' pout' r d HR HL HD Hcl Hout Hin H.
  subst d. destruct HD as [_ HD]. cbn in HD. destruct HD as (Hph & Hrest & Hmr & -> & ->).
  cbn [d_poll d_ph d_wbuf d_rest d_lazy d_rd] in H.
  rewrite wr_ready_small in H by (rewrite max_frame_val; unfold len; cbn; lia).
  cbn [negb] in H.
  rewrite wr_send_ok in H by (rewrite max_frame_val; unfold len; cbn; lia).
  cbn [app] in H. change (frame MSG_HEADER) with (fr MHeader) in H.
  subst rest. rewrite <- Hmr in H. destruct (md_rest (sd m)) as [|p0 ds'] eqn:Emr.
  - cbn [tag_from] in H. injection H as <- <- <- <-.
    apply (DPost_step _ _ m _ _ _ _ 0%nat). rewrite mdk_0, (ms_d_header_nil m Hph Emr).
    apply (dpost_fail rvL svL (RvN rd_init)); auto.
    + rewrite <- (ms_d_header_nil m Hph Emr). apply Reach_step_d. exact HR.
    + unfold C_FAILED. lia.
  - cbn [tag_from] in H.
    pose proof (ms_d_header_cons m p0 ds' Hph Emr) as Hm1.
    set (m1 := set_d m (mkD (MDSendProto p0 false) ds' (md_wbuf (sd m) ++ [MHeader]))) in *.
    assert (HR1 : R m1) by (rewrite <- Hm1; apply Reach_step_d; exact HR).
    assert (HL1 : SLinkL svL m1) by (destruct svL; cbn in *; exact HL).
    assert (HD1 : DLoc (mkDialer (DSendProto 0 p0 false) (tag_from (0 + 1) ds') false rd_init (fr MHeader)) (sd m1)).
    { split; [reflexivity|]. cbn. split; [reflexivity|]. split.
      - exists []. cbn. repeat split; auto.
      - split; [|reflexivity]. change (len (fr MHeader)) with 20. lia. }
    assert (Hout1 : DirRel (SvN (fr MHeader)) rvL pout (c_dl m1) (md_wbuf (sd m1))).
    { cbn. change (fr MHeader) with ([] ++ fr MHeader). apply dir_send. exact Hout. }
    destruct (IH _ _ _ m1 rvL svL _ _ _ _ HR1 HL1 HD1 Hcl Hout1 Hin H) as (k & HP).
    exists (S k). rewrite mdk_S, Hm1. exact HP.
Qed.

Lemma sim_send_proto : forall f, SimStmt f ->
  forall i p hr rest rd wb pin pout m rvL svL d' pin' pout' r,
  let d := mkDialer (DSendProto i p hr) rest false rd wb in
  R m -> SLinkL svL m -> DLoc d (sd m) -> dl_closed m = false ->
  DirRel (SvN wb) rvL pout (c_dl m) (md_wbuf (sd m)) ->
  DirRel svL (RvN rd) pin (c_ld m) (ml_wbuf (sl m)) ->
  d_poll (S f) d pin pout = (d', pin', pout', r) ->
  exists k, DPost rvL svL (mdk k m) d' pin' pout' r.
Proof.
  intros f IH i p hr rest rd wb pin pout m rvL svL d' pin' pout' r d HR HL HD Hcl Hout Hin H.
  subst d. destruct HD as [_ HD]. cbn in HD. destruct HD as (Hph & Hpos & Hlen & ->).
  cbn [d_poll d_ph d_wbuf d_rest d_lazy d_rd] in H.
  rewrite wr_ready_small in H by (rewrite max_frame_val; lia).
  cbn [negb] in H.
  pose proof (Pos_in _ _ _ _ Hpos) as Hin_ds.
  destruct (in_ds_wfn p Hin_ds) as [(Hs & Hnl & Hne) Hfit].
  rewrite Hs in H. cbn [negb] in H.
  rewrite wr_send_ok in H
    by (cbn [encode_msg]; rewrite len_app; unfold len at 2; cbn; exact Hfit).
  change (frame (encode_msg (MProto p))) with (fr (MProto p)) in H.
  pose proof (ms_d_proto m p hr Hph Hs) as Hm1.
  set (m1 := set_d m (mkD (MDFlush p hr) (md_rest (sd m)) (md_wbuf (sd m) ++ [MProto p]))) in *.
  assert (HR1 : R m1) by (rewrite <- Hm1; apply Reach_step_d; exact HR).
  assert (HL1 : SLinkL svL m1) by (destruct svL; cbn in *; exact HL).
  assert (HD1 : DLoc (mkDialer (DFlush i p hr) rest false rd_init (wb ++ fr (MProto p))) (sd m1)).
  { split; [reflexivity|]. cbn. split; [reflexivity|]. split; [exact Hpos | reflexivity]. }
  assert (Hout1 : DirRel (SvN (wb ++ fr (MProto p))) rvL pout (c_dl m1) (md_wbuf (sd m1))).
  { cbn. apply dir_send. exact Hout. }
  assert (G : d_poll f (mkDialer (DFlush i p hr) rest false rd_init (wb ++ fr (MProto p))) pin pout
              = (d', pin', pout', r)).
  { destruct rest as [|x rest']; exact H. }
  destruct (IH _ _ _ m1 rvL svL _ _ _ _ HR1 HL1 HD1 Hcl Hout1 Hin G) as (k & HP).
  exists (S k). rewrite mdk_S, Hm1. exact HP.
Qed.

Lemma sim_flush : forall f, SimStmt f ->
  forall i p hr rest rd wb pin pout m rvL svL d' pin' pout' r,
  let d := mkDialer (DFlush i p hr) rest false rd wb in
  R m -> SLinkL svL m -> DLoc d (sd m) -> dl_closed m = false ->
  DirRel (SvN wb) rvL pout (c_dl m) (md_wbuf (sd m)) ->
  DirRel svL (RvN rd) pin (c_ld m) (ml_wbuf (sl m)) ->
  d_poll (S f) d pin pout = (d', pin', pout', r) ->
  exists k, DPost rvL svL (mdk k m) d' pin' pout' r.
Proof.
  intros f IH i p hr rest rd wb pin pout m rvL svL d' pin' pout' r d HR HL HD Hcl Hout Hin H.
  subst d. destruct HD as [_ HD]. cbn in HD. destruct HD as (Hph & Hpos & ->).
  cbn [d_poll d_ph d_wbuf d_rest d_lazy d_rd] in H.
  destruct (wr_drain (wr_fuel wb) wb pout) as [[w1 po1] ok] eqn:Ed.
  destruct (dir_drain _ _ _ _ _ _ _ _ _ Hout Ed) as (k & Hk & Hout1 & Hok).
  pose proof (d_moves ls k m p hr Hph Hk) as Hmk.
  set (mk := mkS (mkD (MDFlush p hr) (md_rest (sd m)) (skipn k (md_wbuf (sd m)))) (sl m)
                 (c_dl m ++ firstn k (md_wbuf (sd m))) (dl_closed m) (c_ld m) (ld_closed m)) in *.
  assert (HRk : R mk) by (rewrite <- Hmk; apply (R_mdk k); exact HR).
  assert (HLk : SLinkL svL mk) by (destruct svL; cbn in *; exact HL).
  destruct ok.
  - destruct (Hok eq_refl) as [-> Hkw].
    (* the buffer is drained: one more local step to Await *)
    assert (Hwk : md_wbuf (sd mk) = []).
    { cbn. rewrite Hkw. apply skipn_all. }
    pose proof (ms_d_flush_nil mk p hr eq_refl Hwk) as Hm1.
    set (m1 := set_d mk (mkD (MDAwait p hr) (md_rest (sd mk)) [])) in *.
    assert (HR1 : R m1) by (rewrite <- Hm1; apply Reach_step_d; exact HRk).
    assert (HL1 : SLinkL svL m1) by (destruct svL; cbn in *; exact HL).
    assert (HD1 : DLoc (mkDialer (DAwait i p hr) rest false rd_init []) (sd m1)).
    { split; [reflexivity|]. cbn. split; [reflexivity|]. split; [exact Hpos | reflexivity]. }
    assert (Hout2 : DirRel (SvN []) rvL po1 (c_dl m1) (md_wbuf (sd m1))).
    { cbn. cbn in Hwk. rewrite Hwk in Hout1. exact Hout1. }
    destruct (IH _ _ _ m1 rvL svL _ _ _ _ HR1 HL1 HD1 Hcl Hout2 Hin H) as (k1 & HP).
    exists (k + S k1)%nat. rewrite mdk_add.
    change (mdk k m) with (mrun ls (repeat true k) m). rewrite Hmk, mdk_S, Hm1. exact HP.
  - injection H as <- <- <- <-. exists k. unfold mdk. rewrite Hmk.
    split; [exact HRk|]. split; [exact HLk|]. split.
    + split; [reflexivity|]. cbn. split; [reflexivity|]. split; [exact Hpos | reflexivity].
    + split; [exact Hcl|]. split; [exact Hout1 | exact Hin].
Qed.

Lemma sim_await : forall f, SimStmt f ->
  forall i p hr rest rd wb pin pout m rvL svL d' pin' pout' r,
  let d := mkDialer (DAwait i p hr) rest false rd wb in
  R m -> SLinkL svL m -> DLoc d (sd m) -> dl_closed m = false ->
  DirRel (SvN wb) rvL pout (c_dl m) (md_wbuf (sd m)) ->
  DirRel svL (RvN rd) pin (c_ld m) (ml_wbuf (sl m)) ->
  d_poll (S f) d pin pout = (d', pin', pout', r) ->
  exists k, DPost rvL svL (mdk k m) d' pin' pout' r.
Proof.
  intros f IH i p hr rest rd wb pin pout m rvL svL d' pin' pout' r d HR HL HD Hcl Hout Hin H.
  subst d. destruct HD as [_ HD]. cbn in HD. destruct HD as (Hph & Hpos & ->).
  cbn [d_poll d_ph d_wbuf d_rest d_lazy d_rd] in H.
  destruct (msg_poll rd pin) as [[st1 pi1] mr] eqn:Em.
  assert (Hg : forall pw fin, svL = SvP pw fin -> c_ld m <> []).
  { intros pw fin ->. cbn in HL. destruct HL as [q Hq].
    exact (R_guard_d m q p hr HR Hq Hph). }
  pose proof (dir_recv _ _ _ _ _ _ _ _ (R_ok_ld m HR) Hg Hin Em) as Hrecv.
  destruct mr as [| |x|code].
  - (* nothing complete yet *)
    injection H as <- <- <- <-. exists 0%nat. rewrite mdk_0.
    split; [exact HR|]. split; [exact HL|]. split.
    + split; [reflexivity|]. cbn. split; [exact Hph|]. split; [exact Hpos | reflexivity].
    + split; [exact Hcl|]. split; [exact Hout | exact Hrecv].
  - (* EOF: the listener dropped its end *)
    destruct Hrecv as (Hc & Hw & -> & -> & Hin'). cbn in HL.
    injection H as <- <- <- <-.
    pose proof (ms_d_await_eof m p hr Hph Hc HL) as Hm1.
    apply (DPost_step _ _ m _ _ _ _ 0%nat). rewrite mdk_0, Hm1.
    apply (dpost_fail rvL SvF (RvN rd_init)); auto.
    + rewrite <- Hm1. apply Reach_step_d. exact HR.
    + unfold C_FAILED. lia.
  - (* a message *)
    destruct Hrecv as (c' & Hc & -> & Hin').
    pose proof (ms_d_await_msg m p hr x c' Hph Hc) as Hm1.
    assert (HLp : SLinkL svL (pop_ld m c')) by (destruct svL; cbn in *; exact HL).
    destruct (d_react p hr x) eqn:Er.
    + (* the header: keep waiting *)
      set (m1 := set_d (pop_ld m c') (mkD (MDAwait p true) (md_rest (sd m)) (md_wbuf (sd m)))) in *.
      assert (HR1 : R m1) by (rewrite <- Hm1; apply Reach_step_d; exact HR).
      assert (HL1 : SLinkL svL m1) by (destruct svL; cbn in *; exact HL).
      assert (HD1 : DLoc (mkDialer (DAwait i p true) rest false rd_init []) (sd m1)).
      { split; [reflexivity|]. cbn. split; [reflexivity|]. split; [exact Hpos | reflexivity]. }
      destruct (IH _ _ _ m1 rvL svL _ _ _ _ HR1 HL1 HD1 Hcl Hout Hin' H) as (k & HP).
      exists (S k). rewrite mdk_S, Hm1. exact HP.
    + (* confirmation *)
      injection H as <- <- <- <-.
      apply (DPost_step _ _ m _ _ _ _ 0%nat). rewrite mdk_0, Hm1.
      split; [rewrite <- Hm1; apply Reach_step_d; exact HR|].
      split; [destruct svL; cbn in *; exact HL|].
      exists p. cbn. split; [reflexivity|].
      split; [destruct Hpos as (pre & E1 & E2 & _); exists pre; split; assumption|].
      split; [reflexivity|]. split; [reflexivity|]. split; [exact Hcl|].
      split; [exact Hout | exact Hin'].
    + (* rejection: next name, or give up *)
      destruct (md_rest (sd m)) as [|p' mrest] eqn:Emr.
      * assert (rest = []) by (destruct Hpos as (pre & _ & _ & ->); reflexivity). subst rest.
        injection H as <- <- <- <-.
        apply (DPost_step _ _ m _ _ _ _ 0%nat). rewrite mdk_0, Hm1.
        apply (dpost_fail rvL svL (RvN rd_init)); auto.
        -- rewrite <- Hm1. apply Reach_step_d. exact HR.
        -- unfold C_FAILED. lia.
      * destruct (Pos_next _ _ _ _ _ Hpos) as (drest' & -> & Hpos').
        set (m1 := set_d (pop_ld m c') (mkD (MDSendProto p' hr) mrest (md_wbuf (sd m)))) in *.
        assert (HR1 : R m1) by (rewrite <- Hm1; apply Reach_step_d; exact HR).
        assert (HL1 : SLinkL svL m1) by (destruct svL; cbn in *; exact HL).
        assert (HD1 : DLoc (mkDialer (DSendProto (i + 1) p' hr) drest' false rd_init []) (sd m1)).
        { split; [reflexivity|]. cbn. split; [reflexivity|]. split; [exact Hpos'|].
          split; [unfold len; cbn; lia | reflexivity]. }
        destruct (IH _ _ _ m1 rvL svL _ _ _ _ HR1 HL1 HD1 Hcl Hout Hin' H) as (k & HP).
        exists (S k). rewrite mdk_S, Hm1. exact HP.
    + (* anything else is a protocol violation *)
      injection H as <- <- <- <-.
      apply (DPost_step _ _ m _ _ _ _ 0%nat). rewrite mdk_0, Hm1.
      apply (dpost_fail rvL svL (RvN rd_init)); auto.
      * rewrite <- Hm1. apply Reach_step_d. exact HR.
      * unfold C_INVMSG. lia.
  - destruct Hrecv.
Qed.

Theorem d_poll_sim : forall fuel, SimStmt fuel.
Proof.
  induction fuel as [|f IH]; [exact sim_fuel0|].
  intros d pin pout m rvL svL d' pin' pout' r HR HL HD Hcl Hout Hin H.
  destruct d as [ph rest lz rd wb].
  assert (lz = false) by (destruct HD as [E _]; exact E). subst lz.
  destruct ph as [|i p hr|i p hr|i p hr].
  - eapply sim_send_header; eauto.
  - eapply sim_send_proto; eauto.
  - eapply sim_flush; eauto.
  - eapply sim_await; eauto.
Qed.

End SimD.

(* ---- the instance used by the two-ended system: the peer is the model's own listener *)
Lemma d_poll_sim_reach : forall ds ls, Forall wfn ds -> forall fuel, SimStmt ds ls (Reach ds ls) fuel.
Proof.
  intros ds ls Hwf. apply d_poll_sim; [exact Hwf| | |].
  - intros m H. exact (Reach_run ds ls m [true] H).
  - intros m H. exact (ok_ld ds ls Hwf m H).
  - intros m q p hr HR Hq Hph. exact (await_has_message ds ls m q p hr (wfd_ds ds Hwf) HR Hq Hph).
Qed.
