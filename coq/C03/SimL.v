(* C03 — one poll of the byte-level ListenerSelectFuture (Model.l_poll) is a finite run of
   listener micro-steps of the message-level system (Msg.mstep_l). Mirror image of SimD.v. *)
From Coq Require Import List Arith NArith Bool Lia ZifyBool ZifyNat ZifyN.
From V.gen Require Import Consts.
From V.common Require Import Wire.
From V.C03 Require Import Model Msg Proofs MsgRef MsgProofs MsgInv Chan Dir SimD.
Import ListNotations.
Open Scope N_scope.

Arguments N.add : simpl never.
Arguments N.sub : simpl never.
Arguments N.eqb : simpl never.
Arguments N.ltb : simpl never.
Arguments N.leb : simpl never.
Arguments N.of_nat : simpl never.
Arguments N.min : simpl never.

(* ---- the listener's lookup: index of the first entry that is a valid name equal to p *)
Fixpoint lidx (k : N) (ls : list name) (p : name) : option N :=
  match ls with
  | [] => None
  | q :: t => if starts_slash q && name_eqb p q then Some k else lidx (k + 1) t p
  end.

Lemma l_find_tagged : forall ls k p, l_find (l_filter (tag_from k ls)) p = lidx k ls p.
Proof.
  induction ls as [|q t IH]; intros k p; [reflexivity|].
  cbn [tag_from l_filter filter snd lidx]. destruct (starts_slash q); cbn [andb].
  - cbn [l_find]. destruct (name_eqb p q); [reflexivity | apply IH].
  - apply IH.
Qed.

Lemma l_find_sup : forall ls k p,
  l_find (sup ls) p = match lidx k ls p with Some _ => Some p | None => None end.
Proof.
  unfold sup. induction ls as [|q t IH]; intros k p; [reflexivity|].
  cbn [map l_filter filter snd lidx]. destruct (starts_slash q); cbn [andb].
  - cbn [l_find]. destruct (name_eqb p q) eqn:E.
    + apply bytes_eqb_eq in E. subst q. reflexivity.
    + apply IH.
  - apply IH.
Qed.

(* ---- single message-level steps of the listener *)
Definition pop_dl (m : msys) (c : list msg) : msys :=
  mkS (sd m) (sl m) c (dl_closed m) (c_ld m) (ld_closed m).

Lemma ms_l_hdr_eof : forall ls m, ml_ph (sl m) = MLRecvHeader -> c_dl m = [] -> dl_closed m = true ->
  mstep_l ls m = l_fail m.
Proof. intros ls m H1 H2 H3. unfold mstep_l. rewrite H1, H2, H3. reflexivity. Qed.

Lemma ms_l_hdr_msg : forall ls m x c, ml_ph (sl m) = MLRecvHeader -> c_dl m = x :: c ->
  mstep_l ls m = match x with
                 | MHeader => set_l (pop_dl m c) (mkL MLSendHeader (ml_wbuf (sl m)))
                 | _ => l_fail (pop_dl m c)
                 end.
Proof. intros ls m x c H1 H2. unfold mstep_l. rewrite H1, H2. reflexivity. Qed.

Lemma ms_l_send_hdr : forall ls m, ml_ph (sl m) = MLSendHeader ->
  mstep_l ls m = set_l m (mkL (MLFlush None) (ml_wbuf (sl m) ++ [MHeader])).
Proof. intros ls m H1. unfold mstep_l. rewrite H1. reflexivity. Qed.

Lemma ms_l_msg_eof : forall ls m, ml_ph (sl m) = MLRecvMsg -> c_dl m = [] -> dl_closed m = true ->
  mstep_l ls m = l_fail m.
Proof. intros ls m H1 H2 H3. unfold mstep_l. rewrite H1, H2, H3. reflexivity. Qed.

Lemma ms_l_msg_msg : forall ls m x c, ml_ph (sl m) = MLRecvMsg -> c_dl m = x :: c ->
  mstep_l ls m =
  match x with
  | MLs => set_l (pop_dl m c) (mkL (MLSendMsg (MProtos (map snd (sup ls))) None) (ml_wbuf (sl m)))
  | MProto p =>
      match l_find (sup ls) p with
      | Some n => set_l (pop_dl m c) (mkL (MLSendMsg (MProto p) (Some n)) (ml_wbuf (sl m)))
      | None => set_l (pop_dl m c) (mkL (MLSendMsg MNa None) (ml_wbuf (sl m)))
      end
  | _ => l_fail (pop_dl m c)
  end.
Proof. intros ls m x c H1 H2. unfold mstep_l. rewrite H1, H2. reflexivity. Qed.

Lemma ms_l_send_msg : forall ls m x o, ml_ph (sl m) = MLSendMsg x o ->
  mstep_l ls m = set_l m (mkL (MLFlush o) (ml_wbuf (sl m) ++ [x])).
Proof. intros ls m x o H1. unfold mstep_l. rewrite H1. reflexivity. Qed.

Lemma ms_l_flush_nil : forall ls m o, ml_ph (sl m) = MLFlush o -> ml_wbuf (sl m) = [] ->
  mstep_l ls m = match o with
                 | Some n => set_l m (mkL (MLDone (Some n)) [])
                 | None => set_l m (mkL MLRecvMsg [])
                 end.
Proof. intros ls m o H1 H2. unfold mstep_l. rewrite H1, H2. reflexivity. Qed.

Section SimL.
Variables (ds ls : list name).
Hypothesis Hwf : Forall wfn ds.

Let wfd_ds := wfd_ds ds Hwf.

(* byte-level option index vs message-level option name *)
Definition OC (o : option N) (o' : option name) : Prop :=
  match o, o' with
  | None, None => True
  | Some j, Some n => lidx 0 ls n = Some j
  | _, _ => False
  end.

Definition LLoc (l : listener) (ml : mlis) : Prop :=
  l_protos l = l_filter (tag_from 0 ls) /\
  match l_ph l with
  | LRecvHeader => ml_ph ml = MLRecvHeader /\ l_wbuf l = []
  | LSendHeader => ml_ph ml = MLSendHeader /\ l_wbuf l = [] /\ l_rd l = rd_init
  | LRecvMsg => ml_ph ml = MLRecvMsg /\ l_wbuf l = []
  | LSendMsg x o => exists o', ml_ph ml = MLSendMsg x o' /\ OC o o' /\ l_wbuf l = [] /\ l_rd l = rd_init
  | LFlush o => exists o', ml_ph ml = MLFlush o' /\ OC o o' /\ l_rd l = rd_init
  end.

(* the dialer as the sender of the listener's inbound direction *)
Definition SLinkD (sv : sview) (m : msys) : Prop :=
  match sv with
  | SvN _ => dl_closed m = false
  | SvP _ _ => exists q, md_ph (sd m) = MDDone (Some q)
  | SvF => dl_closed m = true
  end.

Definition mlk (k : nat) (m : msys) : msys := mrun ls (repeat false k) m.

Lemma mlk_S : forall k m, mlk (S k) m = mlk k (mstep_l ls m).
Proof. reflexivity. Qed.
Lemma mlk_0 : forall m, mlk 0 m = m.
Proof. reflexivity. Qed.
Lemma mlk_add : forall j k m, mlk (j + k) m = mlk k (mlk j m).
Proof. intros. unfold mlk. apply mrun_repeat_add. Qed.

(* The listener's environment is abstract: `R` is any invariant of the message-level state that
   the listener's own micro-steps preserve, under which the messages still to be read are
   well-formed header / proposal messages, the message being sent is a legal answer, and a peer
   that has gone over to its payload is not read any further. Instantiated with `Reach ds ls`
   (the peer is the model's own dialer) at the end of the file, and with the invariant of an
   arbitrary legal peer in Peer.v. *)
Variable R : msys -> Prop.
Hypothesis R_step_l : forall m, R m -> R (mstep_l ls m).
Hypothesis R_ok_dl : forall m, R m -> Forall okmsg (c_dl m ++ md_wbuf (sd m)).
Hypothesis R_head_dl : forall m, R m -> Forall (dmsg ds) (c_dl m).
Hypothesis R_send_l : forall m, R m -> lph_ok ds (ml_ph (sl m)).
Hypothesis R_guard_l : forall m q, R m -> md_ph (sd m) = MDDone (Some q) ->
  (ml_ph (sl m) = MLRecvHeader \/ ml_ph (sl m) = MLRecvMsg) -> c_dl m <> [].

Lemma R_mlk : forall k m, R m -> R (mlk k m).
Proof.
  induction k as [|k IH]; intros m H; [exact H|]. rewrite mlk_S. apply IH. apply R_step_l. exact H.
Qed.

Lemma Reach_step_l : forall m, R m -> R (mstep_l ls m).
Proof. exact R_step_l. Qed.

Definition LPost (rvD : rview) (svD : sview) (m' : msys) (l' : listener) (pin' pout' : pipe) (r : nout)
  : Prop :=
  R m' /\ SLinkD svD m' /\
  match r with
  | NPending =>
      LLoc l' (sl m') /\ ld_closed m' = false /\
      DirRel (SvN (l_wbuf l')) rvD pout' (c_ld m') (ml_wbuf (sl m')) /\
      DirRel svD (RvN (l_rd l')) pin' (c_dl m') (md_wbuf (sd m'))
  | NErr code =>
      0 < code < 90 /\ ml_ph (sl m') = MLDone None /\ ld_closed m' = true /\
      DirRel SvF rvD (pipe_close pout') (c_ld m') (ml_wbuf (sl m')) /\
      DirRel svD RvF pin' (c_dl m') (md_wbuf (sd m'))
  | NDone j =>
      exists n, ml_ph (sl m') = MLDone (Some n) /\ lidx 0 ls n = Some j /\
        l_wbuf l' = [] /\ l_rd l' = rd_init /\ ld_closed m' = false /\
        DirRel (SvN []) rvD pout' (c_ld m') (ml_wbuf (sl m')) /\
        DirRel svD (RvN rd_init) pin' (c_dl m') (md_wbuf (sd m'))
  | NLazy _ _ _ _ => False
  end.

Lemma LPost_step : forall rvD svD m l' pin' pout' r k,
  LPost rvD svD (mlk k (mstep_l ls m)) l' pin' pout' r ->
  exists k', LPost rvD svD (mlk k' m) l' pin' pout' r.
Proof. intros. exists (S k). rewrite mlk_S. assumption. Qed.

Definition SimStmtL (fuel : nat) : Prop :=
  forall l pin pout m rvD svD l' pin' pout' r,
  R m -> SLinkD svD m -> LLoc l (sl m) -> ld_closed m = false ->
  DirRel (SvN (l_wbuf l)) rvD pout (c_ld m) (ml_wbuf (sl m)) ->
  DirRel svD (RvN (l_rd l)) pin (c_dl m) (md_wbuf (sd m)) ->
  l_poll fuel l pin pout = (l', pin', pout', r) ->
  exists k, LPost rvD svD (mlk k m) l' pin' pout' r.

Lemma lpost_fail : forall rvD svD rv m1 l' pin' pout' code,
  R (l_fail m1) -> SLinkD svD m1 -> 0 < code < 90 ->
  DirRel (SvN []) rvD pout' (c_ld m1) (ml_wbuf (sl m1)) ->
  DirRel svD rv pin' (c_dl m1) (md_wbuf (sd m1)) ->
  LPost rvD svD (l_fail m1) l' pin' pout' (NErr code).
Proof.
  intros rvD svD rv m1 l' pin' pout' code HR HL Hc Hout Hin.
  split; [exact HR|]. split.
  - destruct svD; cbn in *; exact HL.
  - split; [exact Hc|]. cbn. split; [reflexivity|]. split; [reflexivity|]. split.
    + destruct (dir_to_payload _ _ _ _ Hout) as [Hw _]. rewrite Hw in Hout.
      apply dir_fail. exact Hout.
    + eapply dir_reader_gone. exact Hin.
Qed.

Lemma simL_fuel0 : SimStmtL 0.
Proof.
  intros l pin pout m rvD svD l' pin' pout' r HR HL HD Hcl Hout Hin H.
  cbn in H. injection H as <- <- <- <-. exists 0%nat. rewrite mlk_0.
  split; [exact HR|]. split; [exact HL|]. split; [exact HD|]. split; [exact Hcl|]. split; assumption.
Qed.

(* a reading listener is never faced with a successfully finished dialer *)
Lemma read_guard : forall m svD, R m -> SLinkD svD m ->
  (ml_ph (sl m) = MLRecvHeader \/ ml_ph (sl m) = MLRecvMsg) ->
  forall pw fin, svD = SvP pw fin -> c_dl m <> [].
Proof.
  intros m svD HR HL Hph pw fin ->. cbn in HL. destruct HL as [q Hq].
  exact (R_guard_l m q HR Hq Hph).
Qed.

Lemma simL_recv_header : forall f, SimStmtL f ->
  forall protos na rd wb pin pout m rvD svD l' pin' pout' r,
  let l := mkListener LRecvHeader protos na rd wb in
  R m -> SLinkD svD m -> LLoc l (sl m) -> ld_closed m = false ->
  DirRel (SvN wb) rvD pout (c_ld m) (ml_wbuf (sl m)) ->
  DirRel svD (RvN rd) pin (c_dl m) (md_wbuf (sd m)) ->
  l_poll (S f) l pin pout = (l', pin', pout', r) ->
  exists k, LPost rvD svD (mlk k m) l' pin' pout' r.
Proof.
  intros f IH protos na rd wb pin pout m rvD svD l' pin' pout' r l HR HL HD Hcl Hout Hin H.
  subst l. destruct HD as [Hpr HD]. cbn in Hpr, HD. destruct HD as (Hph & ->).
  cbn [l_poll l_ph l_wbuf l_protos l_na l_rd] in H.
  destruct (msg_poll rd pin) as [[st1 pi1] mr] eqn:Em.
  pose proof (dir_recv _ _ _ _ _ _ _ _ (R_ok_dl m HR)
                (read_guard m svD HR HL (or_introl Hph)) Hin Em) as Hrecv.
  destruct mr as [| |x|code].
  - injection H as <- <- <- <-. exists 0%nat. rewrite mlk_0.
    split; [exact HR|]. split; [exact HL|]. split.
    + split; [exact Hpr|]. cbn. split; [exact Hph | reflexivity].
    + split; [exact Hcl|]. split; [exact Hout | exact Hrecv].
  - destruct Hrecv as (Hc & Hw & -> & -> & Hin'). cbn in HL.
    injection H as <- <- <- <-.
    pose proof (ms_l_hdr_eof ls m Hph Hc HL) as Hm1.
    apply (LPost_step _ _ m _ _ _ _ 0%nat). rewrite mlk_0, Hm1.
    apply (lpost_fail rvD SvF (RvN rd_init)); auto.
    + rewrite <- Hm1. apply Reach_step_l. exact HR.
    + unfold C_FAILED. lia.
  - destruct Hrecv as (c' & Hc & -> & Hin').
    pose proof (ms_l_hdr_msg ls m x c' Hph Hc) as Hm1.
    assert (HLp : SLinkD svD (pop_dl m c')) by (destruct svD; cbn in *; exact HL).
    destruct x as [|q| |qs|];
      try (injection H as <- <- <- <-;
           apply (LPost_step _ _ m _ _ _ _ 0%nat); rewrite mlk_0, Hm1;
           apply (lpost_fail rvD svD (RvN rd_init)); auto;
           [rewrite <- Hm1; apply Reach_step_l; exact HR | unfold C_INVMSG; lia]).
    set (m1 := set_l (pop_dl m c') (mkL MLSendHeader (ml_wbuf (sl m)))) in *.
    assert (HR1 : R m1) by (rewrite <- Hm1; apply Reach_step_l; exact HR).
    assert (HL1 : SLinkD svD m1) by (destruct svD; cbn in *; exact HL).
    assert (HD1 : LLoc (mkListener LSendHeader protos na rd_init []) (sl m1)).
    { split; [exact Hpr|]. cbn. repeat split; reflexivity. }
    destruct (IH _ _ _ m1 rvD svD _ _ _ _ HR1 HL1 HD1 Hcl Hout Hin' H) as (k & HP).
    exists (S k). rewrite mlk_S, Hm1. exact HP.
  - destruct Hrecv.
Qed.

Lemma simL_send_header : forall f, SimStmtL f ->
  forall protos na rd wb pin pout m rvD svD l' pin' pout' r,
  let l := mkListener LSendHeader protos na rd wb in
  R m -> SLinkD svD m -> LLoc l (sl m) -> ld_closed m = false ->
  DirRel (SvN wb) rvD pout (c_ld m) (ml_wbuf (sl m)) ->
  DirRel svD (RvN rd) pin (c_dl m) (md_wbuf (sd m)) ->
  l_poll (S f) l pin pout = (l', pin', pout', r) ->
  exists k, LPost rvD svD (mlk k m) l' pin' pout' r.
Proof.
  intros f IH protos na rd wb pin pout m rvD svD l' pin' pout' r l HR HL HD Hcl Hout Hin H.
  subst l. destruct HD as [Hpr HD]. cbn in Hpr, HD. destruct HD as (Hph & -> & ->).
  cbn [l_poll l_ph l_wbuf l_protos l_na l_rd] in H.
  rewrite wr_ready_small in H by (rewrite max_frame_val; unfold len; cbn; lia).
  cbn [negb] in H.
  rewrite wr_send_ok in H by (rewrite max_frame_val; unfold len; cbn; lia).
  cbn [app] in H. change (frame MSG_HEADER) with (fr MHeader) in H.
  pose proof (ms_l_send_hdr ls m Hph) as Hm1.
  set (m1 := set_l m (mkL (MLFlush None) (ml_wbuf (sl m) ++ [MHeader]))) in *.
  assert (HR1 : R m1) by (rewrite <- Hm1; apply Reach_step_l; exact HR).
  assert (HL1 : SLinkD svD m1) by (destruct svD; cbn in *; exact HL).
  assert (HD1 : LLoc (mkListener (LFlush None) protos na rd_init (fr MHeader)) (sl m1)).
  { split; [exact Hpr|]. cbn. exists None. repeat split; reflexivity. }
  assert (Hout1 : DirRel (SvN (fr MHeader)) rvD pout (c_ld m1) (ml_wbuf (sl m1))).
  { cbn. change (fr MHeader) with ([] ++ fr MHeader). apply dir_send. exact Hout. }
  destruct (IH _ _ _ m1 rvD svD _ _ _ _ HR1 HL1 HD1 Hcl Hout1 Hin H) as (k & HP).
  exists (S k). rewrite mlk_S, Hm1. exact HP.
Qed.

Lemma simL_recv_msg : forall f, SimStmtL f ->
  forall protos na rd wb pin pout m rvD svD l' pin' pout' r,
  let l := mkListener LRecvMsg protos na rd wb in
  R m -> SLinkD svD m -> LLoc l (sl m) -> ld_closed m = false ->
  DirRel (SvN wb) rvD pout (c_ld m) (ml_wbuf (sl m)) ->
  DirRel svD (RvN rd) pin (c_dl m) (md_wbuf (sd m)) ->
  l_poll (S f) l pin pout = (l', pin', pout', r) ->
  exists k, LPost rvD svD (mlk k m) l' pin' pout' r.
Proof.
  intros f IH protos na rd wb pin pout m rvD svD l' pin' pout' r l HR HL HD Hcl Hout Hin H.
  subst l. destruct HD as [Hpr HD]. cbn in Hpr, HD. destruct HD as (Hph & ->). subst protos.
  assert (Hpr : l_filter (tag_from 0 ls) = l_filter (tag_from 0 ls)) by reflexivity.
  cbn [l_poll l_ph l_wbuf l_protos l_na l_rd] in H.
  destruct (msg_poll rd pin) as [[st1 pi1] mr] eqn:Em.
  pose proof (dir_recv _ _ _ _ _ _ _ _ (R_ok_dl m HR)
                (read_guard m svD HR HL (or_intror Hph)) Hin Em) as Hrecv.
  destruct mr as [| |x|code].
  - injection H as <- <- <- <-. exists 0%nat. rewrite mlk_0.
    split; [exact HR|]. split; [exact HL|]. split.
    + split; [exact Hpr|]. cbn. split; [exact Hph | reflexivity].
    + split; [exact Hcl|]. split; [exact Hout | exact Hrecv].
  - destruct Hrecv as (Hc & Hw & -> & -> & Hin'). cbn in HL.
    injection H as <- <- <- <-.
    pose proof (ms_l_msg_eof ls m Hph Hc HL) as Hm1.
    apply (LPost_step _ _ m _ _ _ _ 0%nat). rewrite mlk_0, Hm1.
    apply (lpost_fail rvD SvF (RvN rd_init)); auto.
    + rewrite <- Hm1. apply Reach_step_l. exact HR.
    + unfold C_FAILED. lia.
  - destruct Hrecv as (c' & Hc & -> & Hin').
    pose proof (ms_l_msg_msg ls m x c' Hph Hc) as Hm1.
    assert (HLp : SLinkD svD (pop_dl m c')) by (destruct svD; cbn in *; exact HL).
    assert (Hdm : dmsg ds x).
    { pose proof (R_head_dl m HR) as H1. rewrite Hc in H1. inversion H1; assumption. }
    destruct x as [|q| |qs|].
    + (* a second header: violation *)
      injection H as <- <- <- <-.
      apply (LPost_step _ _ m _ _ _ _ 0%nat). rewrite mlk_0, Hm1.
      apply (lpost_fail rvD svD (RvN rd_init)); auto.
      * rewrite <- Hm1. apply Reach_step_l. exact HR.
      * unfold C_INVMSG. lia.
    + (* a proposal *)
      rewrite l_find_tagged in H. rewrite (l_find_sup ls 0 q) in Hm1.
      destruct (lidx 0 ls q) as [j|] eqn:Ej.
      * set (m1 := set_l (pop_dl m c') (mkL (MLSendMsg (MProto q) (Some q)) (ml_wbuf (sl m)))) in *.
        assert (HR1 : R m1) by (rewrite <- Hm1; apply Reach_step_l; exact HR).
        assert (HL1 : SLinkD svD m1) by (destruct svD; cbn in *; exact HL).
        assert (HD1 : LLoc (mkListener (LSendMsg (MProto q) (Some j)) (l_filter (tag_from 0 ls)) na rd_init []) (sl m1)).
        { split; [exact Hpr|]. cbn. exists (Some q). repeat split; auto. }
        destruct (IH _ _ _ m1 rvD svD _ _ _ _ HR1 HL1 HD1 Hcl Hout Hin' H) as (k & HP).
        exists (S k). rewrite mlk_S, Hm1. exact HP.
      * set (m1 := set_l (pop_dl m c') (mkL (MLSendMsg MNa None) (ml_wbuf (sl m)))) in *.
        assert (HR1 : R m1) by (rewrite <- Hm1; apply Reach_step_l; exact HR).
        assert (HL1 : SLinkD svD m1) by (destruct svD; cbn in *; exact HL).
        assert (HD1 : LLoc (mkListener (LSendMsg MNa None) (l_filter (tag_from 0 ls)) na rd_init []) (sl m1)).
        { split; [exact Hpr|]. cbn. exists None. repeat split; auto. }
        destruct (IH _ _ _ m1 rvD svD _ _ _ _ HR1 HL1 HD1 Hcl Hout Hin' H) as (k & HP).
        exists (S k). rewrite mlk_S, Hm1. exact HP.
    + exfalso. exact (dmsg_not_ls ds Hdm).
    + injection H as <- <- <- <-.
      apply (LPost_step _ _ m _ _ _ _ 0%nat). rewrite mlk_0, Hm1.
      apply (lpost_fail rvD svD (RvN rd_init)); auto.
      * rewrite <- Hm1. apply Reach_step_l. exact HR.
      * unfold C_INVMSG. lia.
    + injection H as <- <- <- <-.
      apply (LPost_step _ _ m _ _ _ _ 0%nat). rewrite mlk_0, Hm1.
      apply (lpost_fail rvD svD (RvN rd_init)); auto.
      * rewrite <- Hm1. apply Reach_step_l. exact HR.
      * unfold C_INVMSG. lia.
  - destruct Hrecv.
Qed.

Lemma simL_send_msg : forall f, SimStmtL f ->
  forall x o protos na rd wb pin pout m rvD svD l' pin' pout' r,
  let l := mkListener (LSendMsg x o) protos na rd wb in
  R m -> SLinkD svD m -> LLoc l (sl m) -> ld_closed m = false ->
  DirRel (SvN wb) rvD pout (c_ld m) (ml_wbuf (sl m)) ->
  DirRel svD (RvN rd) pin (c_dl m) (md_wbuf (sd m)) ->
  l_poll (S f) l pin pout = (l', pin', pout', r) ->
  exists k, LPost rvD svD (mlk k m) l' pin' pout' r.
Proof.
  intros f IH x o protos na rd wb pin pout m rvD svD l' pin' pout' r l HR HL HD Hcl Hout Hin H.
  subst l. destruct HD as [Hpr HD]. cbn in Hpr, HD. destruct HD as (o' & Hph & Hoc & -> & ->).
  cbn [l_poll l_ph l_wbuf l_protos l_na l_rd] in H.
  rewrite wr_ready_small in H by (rewrite max_frame_val; unfold len; cbn; lia).
  cbn [negb] in H.
  assert (Hokx : okmsg x).
  { pose proof (R_send_l m HR) as H7. rewrite Hph in H7.
    exact (lmsg_ok ds Hwf x H7). }
  destruct Hokx as [_ Hlen].
  rewrite wr_send_ok in H by exact Hlen.
  cbn [app] in H. change (frame (encode_msg x)) with (fr x) in H.
  pose proof (ms_l_send_msg ls m x o' Hph) as Hm1.
  set (m1 := set_l m (mkL (MLFlush o') (ml_wbuf (sl m) ++ [x]))) in *.
  assert (HR1 : R m1) by (rewrite <- Hm1; apply Reach_step_l; exact HR).
  assert (HL1 : SLinkD svD m1) by (destruct svD; cbn in *; exact HL).
  set (na' := match x with MNa => true | _ => false end) in *.
  assert (HD1 : LLoc (mkListener (LFlush o) protos na' rd_init (fr x)) (sl m1)).
  { split; [exact Hpr|]. cbn. exists o'. repeat split; auto. }
  assert (Hout1 : DirRel (SvN (fr x)) rvD pout (c_ld m1) (ml_wbuf (sl m1))).
  { cbn. change (fr x) with ([] ++ fr x). apply dir_send. exact Hout. }
  destruct (IH _ _ _ m1 rvD svD _ _ _ _ HR1 HL1 HD1 Hcl Hout1 Hin H) as (k & HP).
  exists (S k). rewrite mlk_S, Hm1. exact HP.
Qed.

Lemma simL_flush : forall f, SimStmtL f ->
  forall o protos na rd wb pin pout m rvD svD l' pin' pout' r,
  let l := mkListener (LFlush o) protos na rd wb in
  R m -> SLinkD svD m -> LLoc l (sl m) -> ld_closed m = false ->
  DirRel (SvN wb) rvD pout (c_ld m) (ml_wbuf (sl m)) ->
  DirRel svD (RvN rd) pin (c_dl m) (md_wbuf (sd m)) ->
  l_poll (S f) l pin pout = (l', pin', pout', r) ->
  exists k, LPost rvD svD (mlk k m) l' pin' pout' r.
Proof.
  intros f IH o protos na rd wb pin pout m rvD svD l' pin' pout' r l HR HL HD Hcl Hout Hin H.
  subst l. destruct HD as [Hpr HD]. cbn in Hpr, HD. destruct HD as (o' & Hph & Hoc & ->).
  cbn [l_poll l_ph l_wbuf l_protos l_na l_rd] in H.
  destruct (wr_drain (wr_fuel wb) wb pout) as [[w1 po1] ok] eqn:Ed.
  destruct (dir_drain _ _ _ _ _ _ _ _ _ Hout Ed) as (k & Hk & Hout1 & Hok).
  pose proof (l_moves ls k m o' Hph Hk) as Hmk.
  set (mk := mkS (sd m) (mkL (MLFlush o') (skipn k (ml_wbuf (sl m)))) (c_dl m) (dl_closed m)
                 (c_ld m ++ firstn k (ml_wbuf (sl m))) (ld_closed m)) in *.
  assert (HRk : R mk) by (rewrite <- Hmk; apply (R_mlk k); exact HR).
  assert (HLk : SLinkD svD mk) by (destruct svD; cbn in *; exact HL).
  destruct ok.
  - destruct (Hok eq_refl) as [-> Hkw].
    assert (Hwk : ml_wbuf (sl mk) = []).
    { cbn. rewrite Hkw. apply skipn_all. }
    pose proof (ms_l_flush_nil ls mk o' eq_refl Hwk) as Hm1.
    cbn in Hwk. rewrite Hwk in Hout1.
    destruct o as [j|]; destruct o' as [n|]; cbn in Hoc; try contradiction.
    + (* confirmed: done *)
      injection H as <- <- <- <-.
      exists (k + 1)%nat. rewrite mlk_add.
      change (mlk k m) with (mrun ls (repeat false k) m). rewrite Hmk.
      change (mlk 1 mk) with (mstep_l ls mk). rewrite Hm1.
      split; [rewrite <- Hm1; apply Reach_step_l; exact HRk|].
      split; [destruct svD; cbn in *; exact HL|].
      exists n. cbn. repeat split; auto.
    + (* rejected: wait for the next proposal *)
      set (m1 := set_l mk (mkL MLRecvMsg [])) in *.
      assert (HR1 : R m1) by (rewrite <- Hm1; apply Reach_step_l; exact HRk).
      assert (HL1 : SLinkD svD m1) by (destruct svD; cbn in *; exact HL).
      assert (HD1 : LLoc (mkListener LRecvMsg protos na rd_init []) (sl m1)).
      { split; [exact Hpr|]. cbn. split; reflexivity. }
      destruct (IH _ _ _ m1 rvD svD _ _ _ _ HR1 HL1 HD1 Hcl Hout1 Hin H) as (k1 & HP).
      exists (k + S k1)%nat. rewrite mlk_add.
      change (mlk k m) with (mrun ls (repeat false k) m). rewrite Hmk, mlk_S, Hm1. exact HP.
  - injection H as <- <- <- <-. exists k. unfold mlk. rewrite Hmk.
    split; [exact HRk|]. split; [exact HLk|]. split.
    + split; [exact Hpr|]. cbn. exists o'. repeat split; auto.
    + split; [exact Hcl|]. split; [exact Hout1 | exact Hin].
Qed.

Theorem l_poll_sim : forall fuel, SimStmtL fuel.
Proof.
  induction fuel as [|f IH]; [exact simL_fuel0|].
  intros l pin pout m rvD svD l' pin' pout' r HR HL HD Hcl Hout Hin H.
  destruct l as [ph protos na rd wb].
  destruct ph as [| | |x o|o].
  - eapply simL_recv_header; eauto.
  - eapply simL_send_header; eauto.
  - eapply simL_recv_msg; eauto.
  - eapply simL_send_msg; eauto.
  - eapply simL_flush; eauto.
Qed.

End SimL.

(* ---- the instance used by the two-ended system: the peer is the model's own dialer *)
Lemma l_poll_sim_reach : forall ds ls, Forall wfn ds -> forall fuel, SimStmtL ls (Reach ds ls) fuel.
Proof.
  intros ds ls Hwf. apply (l_poll_sim ds ls Hwf).
  - intros m H. exact (Reach_run ds ls m [false] H).
  - intros m H. exact (ok_dl ds ls Hwf m H).
  - intros m H. destruct (NM_reach ds ls m H) as (H1 & _). exact H1.
  - intros m H. destruct (NM_reach ds ls m H) as (_ & _ & _ & _ & _ & _ & H7). exact H7.
  - intros m q HR Hq Hph. destruct (done_dialer_no_read ds ls m q (wfd_ds ds Hwf) HR Hq) as [N1 N2].
    exfalso. destruct Hph; contradiction.
Qed.
