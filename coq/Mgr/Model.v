(* Mgr — executable model of litep2p's TransportManager bookkeeping
   (src/transport/manager/{mod,peer_state,limits}.rs), shared by C05 and C06.
   Definitions only. One model step = one event handled to completion by the manager's loop
   (`TransportManager::next`, `dial`, `dial_address`).

   Abstractions: peers and connection ids are numbers; one installed transport (TCP — the build
   configuration of the harness has neither `quic` nor `websocket`); the address book is reduced to
   "does the peer have at least one stored address" (scores/eviction are C10); multiaddresses are
   reduced to the peer they name. *)
From Coq Require Import List NArith Bool.
From V.C10 Require Model.
From V.Mgr Require Import DialShape.
Import ListNotations.
Open Scope N_scope.

Definition conn := N.
Definition peer := N.

Definition LOCAL : peer := 0.

Inductive sec := SecEst (c : conn) | SecDial (c : conn).

(* PeerState *)
Inductive pstate :=
| Connected (c : conn) (s : option sec)
| Opening (c : conn)
| Dialing (c : conn)
| Disconnected (d : option conn).

Record limits := mkLimits { max_in : option N; max_out : option N }.

Record mgr := mkMgr {
  peers : list (peer * pstate);          (* absent = PeerContext::default() = Disconnected None *)
  known : list peer;                     (* peers with a non-empty address store *)
  pending : list (conn * peer);          (* pending_connections *)
  ins : list conn;                       (* ConnectionLimits::incoming_connections *)
  outs : list conn;                      (* ConnectionLimits::outgoing_connections *)
  accepting : list (conn * (peer * bool)); (* pending_accept futures in creation order: (conn, (peer, is_listener)) *)
  next_conn : N
}.

Definition init : mgr := mkMgr [] [] [] [] [] [] 0.

(* ---- finite maps / sets as lists ---- *)
Fixpoint lookup {A} (k : N) (l : list (N * A)) : option A :=
  match l with
  | [] => None
  | (k', v) :: t => if k' =? k then Some v else lookup k t
  end.
Fixpoint remove_key {A} (k : N) (l : list (N * A)) : list (N * A) :=
  match l with
  | [] => []
  | (k', v) :: t => if k' =? k then remove_key k t else (k', v) :: remove_key k t
  end.
Fixpoint remove_first {A} (k : N) (l : list (N * A)) : list (N * A) :=
  match l with
  | [] => []
  | (k', v) :: t => if k' =? k then t else (k', v) :: remove_first k t
  end.
Definition insert_key {A} (k : N) (v : A) (l : list (N * A)) : list (N * A) :=
  (k, v) :: remove_key k l.
Definition mem (x : N) (l : list N) : bool := existsb (N.eqb x) l.
Definition set_add (x : N) (l : list N) : list N := if mem x l then l else x :: l.
Definition set_remove (x : N) (l : list N) : list N := filter (fun y => negb (y =? x)) l.
Definition card (l : list N) : N := N.of_nat (length l).

Definition state_of (m : mgr) (p : peer) : pstate :=
  match lookup p (peers m) with Some s => s | None => Disconnected None end.

Definition set_state (m : mgr) (p : peer) (s : pstate) : mgr :=
  mkMgr (insert_key p s (peers m)) (known m) (pending m) (ins m) (outs m) (accepting m) (next_conn m).
Definition set_known (m : mgr) (p : peer) : mgr :=
  mkMgr (peers m) (set_add p (known m)) (pending m) (ins m) (outs m) (accepting m) (next_conn m).
Definition set_pending (m : mgr) (l : list (conn * peer)) : mgr :=
  mkMgr (peers m) (known m) l (ins m) (outs m) (accepting m) (next_conn m).
Definition set_limits (m : mgr) (i o : list conn) : mgr :=
  mkMgr (peers m) (known m) (pending m) i o (accepting m) (next_conn m).
Definition set_accepting (m : mgr) (l : list (conn * (peer * bool))) : mgr :=
  mkMgr (peers m) (known m) (pending m) (ins m) (outs m) l (next_conn m).
Definition bump_conn (m : mgr) : mgr :=
  mkMgr (peers m) (known m) (pending m) (ins m) (outs m) (accepting m) (next_conn m + 1).

(* ---- PeerState transitions (peer_state.rs) ---- *)

Inductive dial_gate := GateConnected | GateInProgress | GateOk.

Definition can_dial (s : pstate) : dial_gate :=
  match s with
  | Connected _ _ => GateConnected
  | Dialing _ | Opening _ | Disconnected (Some _) => GateInProgress
  | Disconnected None => GateOk
  end.

Definition st_on_dial_failure (s : pstate) (c : conn) : pstate :=
  match s with
  | Dialing d => if d =? c then Disconnected None else s
  | Connected r (Some (SecDial d)) => if d =? c then Connected r None else s
  | Disconnected (Some d) => if d =? c then Disconnected None else s
  | _ => s
  end.

(* returns (new state, accepted) *)
Definition st_on_established (s : pstate) (c : conn) : pstate * bool :=
  match s with
  | Connected r (Some (SecDial d)) =>
      if d =? c then (Connected r (Some (SecEst c)), true) else (s, false)
  | Connected r None => (Connected r (Some (SecEst c)), true)
  | Connected _ (Some (SecEst _)) => (s, false)
  | Dialing d | Disconnected (Some d) =>
      if d =? c then (Connected c None, true) else (Connected c (Some (SecDial d)), true)
  | Disconnected None => (Connected c None, true)
  | Opening _ => (Connected c None, true)
  end.

(* returns (new state, report ConnectionClosed) *)
Definition st_on_closed (s : pstate) (c : conn) : pstate * bool :=
  match s with
  | Connected r sc =>
      if r =? c then
        match sc with
        | Some (SecEst s2) => (Connected s2 None, false)
        | Some (SecDial d) => (Disconnected (Some d), true)
        | None => (Disconnected None, true)
        end
      else
        match sc with
        | Some (SecEst s2) => if s2 =? c then (Connected r None, false) else (s, false)
        | _ => (s, false)
        end
  | _ => (s, false)
  end.

(* ---- limits.rs ---- *)
Definition limit_reached (mx : option N) (l : list conn) : bool :=
  match mx with Some m => m <=? card l | None => false end.
Definition limit_insert (mx : option N) (c : conn) (l : list conn) : list conn :=
  match mx with Some _ => set_add c l | None => l end.

(* ---- events and outputs ---- *)

Inductive ev :=
| CmdDialPeer (p : peer) (open_fails : bool)
| CmdDialAddr (p : peer) (dial_fails : bool)      (* a well-formed /ip4|dns/tcp/p2p address naming p *)
| CmdAddAddr (p : peer)                           (* add_known_address with a usable address *)
| TrDialFailure (c : conn) (p : peer)             (* the failed address names p *)
| TrOpened (c : conn) (negotiate_fails : bool)
| TrOpenFailure (c : conn) (pa : peer)            (* the failed address(es) name pa *)
| TrEstablished (p : peer) (c : conn) (listener : bool) (accept_fails : bool)
| TrPendingInbound (c : conn)
| AcceptDone (c : conn) (ok : bool)               (* the accept future of c resolves *)
| Closed (p : peer) (c : conn)                    (* TransportManagerEvent::ConnectionClosed *)
| AllocConn                                       (* a transport draws an id from the shared counter
                                                     (next_connection_id) for an inbound socket *)
| CmdDialShape (a : V.C10.Model.maddr).           (* dial_address with an arbitrary multiaddress *)

Inductive out :=
| CallOpen (c : conn) | CallDial (c : conn) | CallNegotiate (c : conn) | CallCancel (c : conn)
| CallAccept (c : conn) | CallReject (c : conn) | CallAcceptPending (c : conn) | CallRejectPending (c : conn)
| EvEstablished (p : peer) (c : conn) | EvClosed (p : peer) (c : conn)
| EvDialFailure (c : conn) (p : peer) | EvOpenFailure (c : conn)
| ProtoDialFailure (p : peer)
| Ret (code : N)
| Stuck (site : N).     (* a debug_assert!(false) / expect / panic site *)

Definition RET_OK : N := 0.
Definition RET_LIMIT : N := 1.
Definition RET_SELF : N := 2.
Definition RET_CONNECTED : N := 3.
Definition RET_NO_ADDRESS : N := 4.
Definition RET_TRANSPORT : N := 5.
Definition RET_ALLOC : N := 100.    (* RET_ALLOC + c: the id drawn by AllocConn *)

(* TransportManager::on_connection_closed: limits release + state transition *)
Definition do_closed (m : mgr) (p : peer) (c : conn) : mgr * bool :=
  let m1 := set_limits m (set_remove c (ins m)) (set_remove c (outs m)) in
  let '(s', rep) := st_on_closed (state_of m1 p) c in
  (set_state m1 p s', rep).

(* TransportManager::dial *)
Definition do_dial_peer (L : limits) (m : mgr) (p : peer) (open_fails : bool) : mgr * list out :=
  if limit_reached (max_out L) (outs m) then (m, [Ret RET_LIMIT])
  else if p =? LOCAL then (m, [Ret RET_SELF])
  else
    match can_dial (state_of m p) with
    | GateConnected => (m, [Ret RET_CONNECTED])
    | GateInProgress => (m, [Ret RET_OK])
    | GateOk =>
        if negb (mem p (known m)) then (m, [Ret RET_NO_ADDRESS])
        else
          let c := next_conn m in
          let m1 := set_state (bump_conn m) p (Opening c) in
          if open_fails then (m1, [CallOpen c; Ret RET_TRANSPORT])
          else (set_pending m1 (insert_key c p (pending m1)), [CallOpen c; Ret RET_OK])
    end.

(* TransportManager::dial_address for a well-formed address of p *)
Definition do_dial_addr (L : limits) (m : mgr) (p : peer) (dial_fails : bool) : mgr * list out :=
  if limit_reached (max_out L) (outs m) then (m, [Ret RET_LIMIT])
  else
    let c := next_conn m in
    let m0 := set_known (bump_conn m) p in
    match can_dial (state_of m0 p) with
    | GateConnected => (m0, [Ret RET_CONNECTED])
    | GateInProgress => (m0, [Ret RET_OK])
    | GateOk =>
        let m1 := set_state m0 p (Dialing c) in
        if dial_fails then
          (* the dial could not be started: the dial record is cleared again (`fix:` commit;
             before it the peer stayed in Dialing forever) *)
          (set_state m1 p (st_on_dial_failure (Dialing c) c), [CallDial c; Ret RET_TRANSPORT])
        else (set_pending m1 (insert_key c p (pending m1)), [CallDial c; Ret RET_OK])
    end.

(* the registered listen address of the harness node: /ip4/<private 1>/tcp/7000, stored with and
   without the local peer id *)
Definition LISTEN0 : V.C10.Model.maddr := [V.C10.Model.Ip4 V.C10.Model.Priv 1; V.C10.Model.Tcp 7000].
Definition LISTEN : list V.C10.Model.maddr := [LISTEN0; LISTEN0 ++ [V.C10.Model.P2p LOCAL]].

Definition do_dial_shape (L : limits) (m : mgr) (a : V.C10.Model.maddr) : mgr * list out :=
  if limit_reached (max_out L) (outs m) then (m, [Ret RET_LIMIT])
  else
    match dial_shape LISTEN a with
    | SvRefuse code => (m, [Ret code])
    | SvTcp p => do_dial_addr L m p false
    | SvWs _ => (m, [Ret RET_NOT_SUPPORTED])   (* the WebSocket transport is not installed in the harness:
                                                  refused before anything is recorded (`fix:` commit) *)
    end.

(* TransportEvent::DialFailure *)
Definition do_dial_failure (m : mgr) (c : conn) (pa : peer) : mgr * list out :=
  let m0 := set_known m pa in
  match lookup c (pending m0) with
  | None => (m0, [])
  | Some p =>
      let m1 := set_pending m0 (remove_key c (pending m0)) in
      let m2 := set_state m1 p (st_on_dial_failure (state_of m1 p) c) in
      (m2, [ProtoDialFailure pa; EvDialFailure c pa])
  end.

(* TransportEvent::ConnectionEstablished, after the pending entry was consumed *)
Definition do_established_checked (L : limits) (m1 : mgr) (p : peer) (c : conn) (listener accept_fails : bool)
  : mgr * list out :=
  if limit_reached (if listener then max_in L else max_out L) (if listener then ins m1 else outs m1)
  then
    (* the dial attempt (if c was one) has concluded: the dial record is cleared
       (repaired by the `fix:` commit for F-C05a; before it the state was left untouched) *)
    (if existsb (fun kp : N * pstate => fst kp =? p) (peers m1)
     then set_state m1 p (st_on_dial_failure (state_of m1 p) c) else m1, [CallReject c])
  else
    let prev := state_of m1 p in
    let '(s', accepted) := st_on_established prev c in
    if negb accepted then (m1, [CallReject c])
    else
      let m2 := set_state m1 p s' in
      let m3 := if listener then set_limits m2 (limit_insert (max_in L) c (ins m2)) (outs m2)
                else set_limits m2 (ins m2) (limit_insert (max_out L) c (outs m2)) in
      let '(m4, cancels) :=
        match prev with
        | Opening d => (set_pending m3 (remove_key d (pending m3)), [CallCancel d])
        | _ => (m3, [])
        end in
      if accept_fails then
        let '(m5, _) := do_closed m4 p c in (m5, cancels ++ [CallAccept c])
      else
        (set_accepting m4 (accepting m4 ++ [(c, (p, listener))]), cancels ++ [CallAccept c]).

Definition do_established (L : limits) (m : mgr) (p : peer) (c : conn) (listener accept_fails : bool)
  : mgr * list out :=
  let m0 := if listener then m else set_known m p in
  let m1 := set_pending m0 (remove_key c (pending m0)) in
  match lookup c (pending m0) with
  | Some dp =>
      if dp =? p then do_established_checked L m1 p c listener accept_fails
      else (m1, [Stuck 1])   (* debug_assert!(false): a debug build panics here; a release build would reject(c) *)
  | None => do_established_checked L m1 p c listener accept_fails
  end.

(* TransportEvent::ConnectionOpened *)
Definition do_opened (m : mgr) (c : conn) (negotiate_fails : bool) : mgr * list out :=
  match lookup c (pending m) with
  | None => (m, [Stuck 2])
  | Some p =>
      let m1 := set_known (set_pending m (remove_key c (pending m))) p in
      match state_of m1 p with
      | Opening d =>
          let m2 := set_state m1 p (Dialing c) in
          if negotiate_fails then
            (set_state m2 p (Disconnected None), [CallCancel d; CallNegotiate d])
          else
            (set_pending m2 (insert_key d p (pending m2)), [CallCancel d; CallNegotiate d])
      | _ => (m1, [])
      end
  end.

(* TransportEvent::OpenFailure (single transport: it is always the last one) *)
Definition do_open_failure (m0 : mgr) (c : conn) (pa : peer) : mgr * list out :=
  let m := set_known m0 pa in
  match lookup c (pending m) with
  | None => (m, [])
  | Some p =>
      match state_of m p with
      | Opening _ =>
          let m1 := set_state m p (Disconnected None) in
          (set_pending m1 (remove_key c (pending m1)), [ProtoDialFailure p; EvOpenFailure c])
      | _ => (m, [])
      end
  end.

Definition do_accept_done (m : mgr) (c : conn) (ok : bool) : mgr * list out :=
  match lookup c (accepting m) with
  | None => (m, [])
  | Some (p, _) =>
      let m1 := set_accepting m (remove_first c (accepting m)) in
      if ok then (m1, [EvEstablished p c])
      else let '(m2, _) := do_closed m1 p c in (m2, [])
  end.

Definition step (L : limits) (m : mgr) (e : ev) : mgr * list out :=
  match e with
  | CmdDialPeer p f => do_dial_peer L m p f
  | CmdDialAddr p f => do_dial_addr L m p f
  | CmdAddAddr p => (set_known m p, [])
  | TrDialFailure c pa => do_dial_failure m c pa
  | TrOpened c f => do_opened m c f
  | TrOpenFailure c pa => do_open_failure m c pa
  | TrEstablished p c l f => do_established L m p c l f
  | TrPendingInbound c =>
      if limit_reached (max_in L) (ins m) then (m, [CallRejectPending c]) else (m, [CallAcceptPending c])
  | AcceptDone c ok => do_accept_done m c ok
  | Closed p c =>
      let '(m1, rep) := do_closed m p c in (m1, if rep then [EvClosed p c] else [])
  | AllocConn => (bump_conn m, [Ret (RET_ALLOC + next_conn m)])
  | CmdDialShape a => do_dial_shape L m a
  end.

Fixpoint run (L : limits) (m : mgr) (es : list ev) : mgr * list (list out) :=
  match es with
  | [] => (m, [])
  | e :: t => let '(m1, o) := step L m e in let '(m2, os) := run L m1 t in (m2, o :: os)
  end.
