(* Mgr — executable model of litep2p's TransportManager bookkeeping
   (src/transport/manager/{mod,peer_state,limits,handle}.rs), shared by C05 and C06.
   Definitions only. One model step = one event handled to completion by the manager's loop
   (`TransportManager::next`, `dial`, `dial_address`), or one call on the user-facing
   `TransportManagerHandle` followed by the manager executing the command it queued.

   Abstractions: peers and connection ids are numbers; transports are numbers (0 = TCP,
   1 = WebSocket; QUIC is compiled out of the harness build) and the configuration says which of
   them are installed; the address book of a peer is the set of multiaddresses stored for it in the
   abstract grammar of C10 (scores / eviction are C10's business: which of the stored addresses
   `AddressStore::addresses(limit)` hands out when the free outbound capacity is smaller than
   the store is an input of the dial step, constrained by `choice_ok`); the addresses reported by
   a transport are the canonical address of the peer for that transport (`canon`). *)
From Coq Require Import List NArith Bool.
From V.C10 Require Model.
From V.Mgr Require Import DialShape.
Import ListNotations.
Open Scope N_scope.

Definition conn := N.
Definition peer := N.
Definition tr := N.

Definition LOCAL : peer := 0.
Definition TCP : tr := 0.
Definition WS : tr := 1.

Inductive sec := SecEst (c : conn) | SecDial (c : conn).

(* PeerState *)
Inductive pstate :=
| Connected (c : conn) (s : option sec)
| Opening (c : conn) (ts : list tr)        (* PeerState::Opening { connection_id, transports, .. } *)
| Dialing (c : conn)
| Disconnected (d : option conn).

(* the configuration of the manager: connection limits and the installed transports *)
Record limits := mkLimits { max_in : option N; max_out : option N; inst : list tr }.

Definition maddr := V.C10.Model.maddr.

Record mgr := mkMgr {
  peers : list (peer * pstate);          (* absent = PeerContext::default() = Disconnected None *)
  known : list (peer * list maddr);      (* PeerContext::addresses: the stored addresses (no scores) *)
  pending : list (conn * peer);          (* pending_connections *)
  ins : list conn;                       (* ConnectionLimits::incoming_connections *)
  outs : list conn;                      (* ConnectionLimits::outgoing_connections *)
  accepting : list (conn * (peer * bool)); (* pending_accept futures in creation order: (conn, (peer, is_listener)) *)
  oerrs : list (conn * N);               (* opening_errors: number of errors kept per connection id *)
  next_conn : N
}.

Definition init : mgr := mkMgr [] [] [] [] [] [] [] 0.

(* ---- finite maps / sets as lists ---- *)
Fixpoint lookup {A} (k : N) (l : list (N * A)) : option A :=
  match l with
  | [] => None
  | (k', v) :: t => if k' =? k then Some v else lookup k t
  end.
Fixpoint remove_key {A} (k : N) (l : list (N * A)) : list (N * A) :=
  match l with
  | [] => []
  | (k', v) :: t => if k' =? k then remove_key k t else (k', v) :: remove_key k t
  end.
Fixpoint remove_first {A} (k : N) (l : list (N * A)) : list (N * A) :=
  match l with
  | [] => []
  | (k', v) :: t => if k' =? k then t else (k', v) :: remove_first k t
  end.
Definition insert_key {A} (k : N) (v : A) (l : list (N * A)) : list (N * A) :=
  (k, v) :: remove_key k l.
Definition mem (x : N) (l : list N) : bool := existsb (N.eqb x) l.
Definition set_add (x : N) (l : list N) : list N := if mem x l then l else x :: l.
Definition set_remove (x : N) (l : list N) : list N := filter (fun y => negb (y =? x)) l.
Definition card (l : list N) : N := N.of_nat (length l).
Definition is_nil {A} (l : list A) : bool := match l with [] => true | _ => false end.
Definition subset (a b : list N) : bool := forallb (fun x => mem x b) a.
Fixpoint nodupb (l : list N) : bool :=
  match l with [] => true | x :: t => negb (mem x t) && nodupb t end.

Definition installed (L : limits) (t : tr) : bool := (t <? 2) && mem t (inst L).

Definition state_of (m : mgr) (p : peer) : pstate :=
  match lookup p (peers m) with Some s => s | None => Disconnected None end.

Definition set_state (m : mgr) (p : peer) (s : pstate) : mgr :=
  mkMgr (insert_key p s (peers m)) (known m) (pending m) (ins m) (outs m) (accepting m) (oerrs m) (next_conn m).
Definition set_known (m : mgr) (k : list (peer * list maddr)) : mgr :=
  mkMgr (peers m) k (pending m) (ins m) (outs m) (accepting m) (oerrs m) (next_conn m).
Definition set_pending (m : mgr) (l : list (conn * peer)) : mgr :=
  mkMgr (peers m) (known m) l (ins m) (outs m) (accepting m) (oerrs m) (next_conn m).
Definition set_limits (m : mgr) (i o : list conn) : mgr :=
  mkMgr (peers m) (known m) (pending m) i o (accepting m) (oerrs m) (next_conn m).
Definition set_accepting (m : mgr) (l : list (conn * (peer * bool))) : mgr :=
  mkMgr (peers m) (known m) (pending m) (ins m) (outs m) l (oerrs m) (next_conn m).
Definition set_oerrs (m : mgr) (l : list (conn * N)) : mgr :=
  mkMgr (peers m) (known m) (pending m) (ins m) (outs m) (accepting m) l (next_conn m).
Definition bump_conn (m : mgr) : mgr :=
  mkMgr (peers m) (known m) (pending m) (ins m) (outs m) (accepting m) (oerrs m) (next_conn m + 1).

(* ---- the address book ---- *)
Definition addrs_of (m : mgr) (p : peer) : list maddr :=
  match lookup p (known m) with Some l => l | None => [] end.

(* AddressStore::insert as far as membership goes (the store is below its capacity) *)
Definition add_addr (m : mgr) (p : peer) (a : maddr) : mgr :=
  if existsb (V.C10.Model.maddr_eqb a) (addrs_of m p) then m
  else set_known m (insert_key p (addrs_of m p ++ [a]) (known m)).

(* TransportManager::supported_transports_addresses (feature websocket on, quic off): the
   transport an address is handed to by dial(peer) *)
Definition is_wsc (c : V.C10.Model.comp) : bool :=
  match c with V.C10.Model.Ws | V.C10.Model.Wss => true | _ => false end.
Definition kind_of (a : maddr) : tr := if existsb is_wsc a then WS else TCP.

Definition kinds_of (l : list maddr) : list tr :=
  (if existsb (fun a => kind_of a =? TCP) l then [TCP] else []) ++
  (if existsb (fun a => kind_of a =? WS) l then [WS] else []).

(* the address of peer p the harness' scripted transport t reports / the harness adds *)
Definition canon (p : peer) (t : tr) : maddr :=
  if t =? TCP
  then [V.C10.Model.Ip4 V.C10.Model.Priv (100 + p); V.C10.Model.Tcp (1000 + p); V.C10.Model.P2p p]
  else [V.C10.Model.Ip4 V.C10.Model.Priv (100 + p); V.C10.Model.Tcp (1000 + p); V.C10.Model.Ws; V.C10.Model.P2p p].

(* ---- PeerState transitions (peer_state.rs) ---- *)

Inductive dial_gate := GateConnected | GateInProgress | GateOk.

Definition can_dial (s : pstate) : dial_gate :=
  match s with
  | Connected _ _ => GateConnected
  | Dialing _ | Opening _ _ | Disconnected (Some _) => GateInProgress
  | Disconnected None => GateOk
  end.

Definition st_on_dial_failure (s : pstate) (c : conn) : pstate :=
  match s with
  | Dialing d => if d =? c then Disconnected None else s
  | Connected r (Some (SecDial d)) => if d =? c then Connected r None else s
  | Disconnected (Some d) => if d =? c then Disconnected None else s
  | _ => s
  end.

(* returns (new state, accepted) *)
Definition st_on_established (s : pstate) (c : conn) : pstate * bool :=
  match s with
  | Connected r (Some (SecDial d)) =>
      if d =? c then (Connected r (Some (SecEst c)), true) else (s, false)
  | Connected r None => (Connected r (Some (SecEst c)), true)
  | Connected _ (Some (SecEst _)) => (s, false)
  | Dialing d | Disconnected (Some d) =>
      if d =? c then (Connected c None, true) else (Connected c (Some (SecDial d)), true)
  | Disconnected None => (Connected c None, true)
  | Opening _ _ => (Connected c None, true)
  end.

(* returns (new state, report ConnectionClosed) *)
Definition st_on_closed (s : pstate) (c : conn) : pstate * bool :=
  match s with
  | Connected r sc =>
      if r =? c then
        match sc with
        | Some (SecEst s2) => (Connected s2 None, false)
        | Some (SecDial d) => (Disconnected (Some d), true)
        | None => (Disconnected None, true)
        end
      else
        match sc with
        | Some (SecEst s2) => if s2 =? c then (Connected r None, false) else (s, false)
        | _ => (s, false)
        end
  | _ => (s, false)
  end.

(* PeerState::on_open_failure: the set without the failed transport *)
Definition remove_tr (t : tr) (ts : list tr) : list tr := filter (fun y => negb (y =? t)) ts.

(* ---- limits.rs ---- *)
Definition limit_reached (mx : option N) (l : list conn) : bool :=
  match mx with Some m => m <=? card l | None => false end.
Definition limit_insert (mx : option N) (c : conn) (l : list conn) : list conn :=
  match mx with Some _ => set_add c l | None => l end.
(* ConnectionLimits::on_dial_address: the free outbound capacity (None = unlimited) *)
Definition free_cap (L : limits) (m : mgr) : option N :=
  match max_out L with Some mx => Some (mx - card (outs m)) | None => None end.

(* ---- events and outputs ---- *)

Inductive ev :=
| CmdDialPeer (p : peer) (ts : list tr) (fl : list tr)
      (* TransportManager::dial(p). ts: the transports spanned by the addresses the store handed
         out, in the order `open` is called on them (the implementation's choice, see choice_ok);
         fl: the transports whose `open` call fails *)
| CmdDialAddr (p : peer) (t : tr) (dial_fails : bool)   (* dial_address(canon p t) *)
| CmdAddAddr (p : peer) (t : tr)                  (* add_known_address(p, [canon p t]) *)
| TrDialFailure (c : conn) (t : tr) (p : peer)    (* from transport t; the failed address is canon p t *)
| TrOpened (c : conn) (t : tr) (negotiate_fails : bool)
| TrOpenFailure (c : conn) (t : tr) (pa : peer)   (* from transport t; the failed address is canon pa t *)
| TrEstablished (p : peer) (c : conn) (t : tr) (listener : bool) (accept_fails : bool)
| TrPendingInbound (c : conn) (t : tr)
| AcceptDone (c : conn) (ok : bool)               (* the accept future of c resolves *)
| Closed (p : peer) (c : conn)                    (* TransportManagerEvent::ConnectionClosed *)
| AllocConn                                       (* a transport draws an id from the shared counter
                                                     (next_connection_id) for an inbound socket *)
| CmdDialShape (a : maddr)                        (* dial_address with an arbitrary multiaddress *)
| HDialPeer (p : peer) (ts : list tr) (fl : list tr) (clog : bool)
      (* TransportManagerHandle::dial(p), then the manager executes the queued command;
         clog: the command channel is full *)
| HDialAddr (a : maddr) (clog : bool).            (* TransportManagerHandle::dial_address(a), likewise *)

Inductive out :=
| CallOpen (c : conn) (t : tr) | CallDial (c : conn) (t : tr) | CallNegotiate (c : conn) (t : tr)
| CallCancel (c : conn) (t : tr)
| CallAccept (c : conn) (t : tr) | CallReject (c : conn) (t : tr)
| CallAcceptPending (c : conn) (t : tr) | CallRejectPending (c : conn) (t : tr)
| EvEstablished (p : peer) (c : conn) | EvClosed (p : peer) (c : conn)
| EvDialFailure (c : conn) (p : peer)
| EvOpenFailure (c : conn) (n : N)      (* n: number of errors reported (all transports) *)
| ProtoDialFailure (p : peer)
| Ret (code : N)
| Logged (code : N)     (* result of a command executed by the manager loop: only written to the log *)
| Stuck (site : N).     (* a debug_assert!(false) / expect / panic site *)

Definition RET_OK : N := 0.
Definition RET_LIMIT : N := 1.
Definition RET_SELF : N := 2.
Definition RET_CONNECTED : N := 3.
Definition RET_NO_ADDRESS : N := 4.
Definition RET_TRANSPORT : N := 5.
Definition RET_CLOGGED : N := 8.    (* ImmediateDialError::ChannelClogged *)
Definition RET_ALLOC : N := 100.    (* RET_ALLOC + c: the id drawn by AllocConn *)

(* TransportManager::on_connection_closed: limits release + state transition *)
Definition do_closed (m : mgr) (p : peer) (c : conn) : mgr * bool :=
  let m1 := set_limits m (set_remove c (ins m)) (set_remove c (outs m)) in
  let '(s', rep) := st_on_closed (state_of m1 p) c in
  (set_state m1 p s', rep).

(* What `AddressStore::addresses(available_capacity)` may hand out, seen through the transports
   its result spans: a non-empty duplicate-free set of kinds the peer has an address for; no more
   transports than addresses taken; and every kind when the capacity covers the whole store. *)
Definition choice_ok (L : limits) (m : mgr) (p : peer) (ts : list tr) : bool :=
  let l := addrs_of m p in
  let ks := kinds_of l in
  negb (is_nil ts) && nodupb ts && subset ts ks &&
  match free_cap L m with
  | None => subset ks ts
  | Some k => (N.of_nat (length ts) <=? k) &&
              (if N.of_nat (length l) <=? k then subset ks ts else true)
  end.

(* the loop `for (transport, addresses) in transports { ... open(connection_id, addresses)?; }`:
   the calls made and whether all of them succeeded; a transport that is not installed is skipped *)
Fixpoint open_calls (L : limits) (c : conn) (ts fl : list tr) : list out * bool :=
  match ts with
  | [] => ([], true)
  | t :: r =>
      if installed L t then
        if mem t fl then ([CallOpen c t], false)
        else let '(os, ok) := open_calls L c r fl in (CallOpen c t :: os, ok)
      else open_calls L c r fl
  end.

(* TransportManager::dial *)
Definition do_dial_peer (L : limits) (m : mgr) (p : peer) (ts fl : list tr) : mgr * list out :=
  if limit_reached (max_out L) (outs m) then (m, [Ret RET_LIMIT])
  else if p =? LOCAL then (m, [Ret RET_SELF])
  else
    match can_dial (state_of m p) with
    | GateConnected => (m, [Ret RET_CONNECTED])
    | GateInProgress => (m, [Ret RET_OK])
    | GateOk =>
        if is_nil (addrs_of m p) then (m, [Ret RET_NO_ADDRESS])
        else
          let c := next_conn m in
          let m1 := set_state (bump_conn m) p (Opening c ts) in
          let '(calls, ok) := open_calls L c ts fl in
          if ok then (set_pending m1 (insert_key c p (pending m1)), calls ++ [Ret RET_OK])
          else (m1, calls ++ [Ret RET_TRANSPORT])
    end.

(* TransportManager::dial_address for a well-formed address a of peer p routed to transport t
   (after the limit, shape and listen-address checks) *)
Definition do_dial_addr (L : limits) (m : mgr) (p : peer) (t : tr) (a : maddr) (dial_fails : bool)
  : mgr * list out :=
  if negb (installed L t) then (m, [Ret RET_NOT_SUPPORTED])   (* refused before anything is recorded (`fix:` commit) *)
  else
    let c := next_conn m in
    let m0 := add_addr (bump_conn m) p a in
    match can_dial (state_of m0 p) with
    | GateConnected => (m0, [Ret RET_CONNECTED])
    | GateInProgress => (m0, [Ret RET_OK])
    | GateOk =>
        let m1 := set_state m0 p (Dialing c) in
        if dial_fails then
          (* the dial could not be started: the dial record is cleared again (`fix:` commit;
             before it the peer stayed in Dialing forever) *)
          (set_state m1 p (st_on_dial_failure (Dialing c) c), [CallDial c t; Ret RET_TRANSPORT])
        else (set_pending m1 (insert_key c p (pending m1)), [CallDial c t; Ret RET_OK])
    end.

(* the registered listen address of the harness node: /ip4/<private 1>/tcp/7000, stored with and
   without the local peer id *)
Definition LISTEN0 : maddr := [V.C10.Model.Ip4 V.C10.Model.Priv 1; V.C10.Model.Tcp 7000].
Definition LISTEN : list maddr := [LISTEN0; LISTEN0 ++ [V.C10.Model.P2p LOCAL]].

Definition do_dial_shape (L : limits) (m : mgr) (a : maddr) (dial_fails : bool) : mgr * list out :=
  if limit_reached (max_out L) (outs m) then (m, [Ret RET_LIMIT])
  else
    match dial_shape LISTEN a with
    | SvRefuse code => (m, [Ret code])
    | SvTcp p => do_dial_addr L m p TCP a dial_fails
    | SvWs p => do_dial_addr L m p WS a dial_fails
    end.

(* TransportEvent::DialFailure from transport t *)
Definition do_dial_failure (m : mgr) (c : conn) (t : tr) (pa : peer) : mgr * list out :=
  let m0 := add_addr m pa (canon pa t) in
  match lookup c (pending m0) with
  | None => (m0, [])
  | Some p =>
      let m1 := set_pending m0 (remove_key c (pending m0)) in
      let m2 := set_state m1 p (st_on_dial_failure (state_of m1 p) c) in
      (m2, [ProtoDialFailure pa; EvDialFailure c pa])
  end.

(* accept(c) on the transport that delivered the connection; a failing accept rolls the state back *)
Definition est_finish (m4 : mgr) (p : peer) (c : conn) (t : tr) (listener accept_fails : bool)
           (cancels : list out) : mgr * list out :=
  if accept_fails then
    let '(m5, _) := do_closed m4 p c in (m5, cancels ++ [CallAccept c t])
  else
    (set_accepting m4 (accepting m4 ++ [(c, (p, listener))]), cancels ++ [CallAccept c t]).

(* TransportEvent::ConnectionEstablished, after the pending entry was consumed *)
Definition do_established_checked (L : limits) (m1 : mgr) (p : peer) (c : conn) (t : tr)
           (listener accept_fails : bool) : mgr * list out :=
  if limit_reached (if listener then max_in L else max_out L) (if listener then ins m1 else outs m1)
  then
    (* the dial attempt (if c was one) has concluded: the dial record is cleared
       (repaired by the `fix:` commit for F-C05a; before it the state was left untouched) *)
    (if existsb (fun kp : N * pstate => fst kp =? p) (peers m1)
     then set_state m1 p (st_on_dial_failure (state_of m1 p) c) else m1, [CallReject c t])
  else
    let prev := state_of m1 p in
    let '(s', accepted) := st_on_established prev c in
    if negb accepted then (m1, [CallReject c t])
    else
      let m2 := set_state m1 p s' in
      let m3 := if listener then set_limits m2 (limit_insert (max_in L) c (ins m2)) (outs m2)
                else set_limits m2 (ins m2) (limit_insert (max_out L) c (outs m2)) in
      match prev with
      | Opening d ts =>
          (* an established connection supersedes the opening attempt: cancel on every transport
             of the set, drop the pending entry *)
          if negb (forallb (installed L) ts)
          then (m1, [Stuck 4])    (* cancel on a transport that does not exist: expect("transport to exist")
                                     panics out of the manager loop; the run ends, the state after it is not meaningful *)
          else est_finish (set_pending m3 (remove_key d (pending m3))) p c t listener accept_fails
                          (map (CallCancel d) ts)
      | _ => est_finish m3 p c t listener accept_fails []
      end.

Definition do_established (L : limits) (m : mgr) (p : peer) (c : conn) (t : tr) (listener accept_fails : bool)
  : mgr * list out :=
  let me := set_oerrs m (remove_key c (oerrs m)) in
  let m0 := if listener then me else add_addr me p (canon p t) in
  let m1 := set_pending m0 (remove_key c (pending m0)) in
  match lookup c (pending m0) with
  | Some dp =>
      if dp =? p then do_established_checked L m1 p c t listener accept_fails
      else (m1, [Stuck 1])   (* debug_assert!(false): a debug build panics here; a release build would reject(c) *)
  | None => do_established_checked L m1 p c t listener accept_fails
  end.

(* TransportEvent::ConnectionOpened from transport t *)
Definition do_opened (L : limits) (m0 : mgr) (c : conn) (t : tr) (negotiate_fails : bool) : mgr * list out :=
  let m := set_oerrs m0 (remove_key c (oerrs m0)) in
  match lookup c (pending m) with
  | None => (m, [Stuck 2])
  | Some p =>
      let m1 := add_addr (set_pending m (remove_key c (pending m))) p (canon p t) in
      match state_of m1 p with
      | Opening d ts =>
          let m2 := set_state m1 p (Dialing c) in
          if negb (forallb (installed L) ts) then (m2, [Stuck 3])  (* expect("transport to exist") *)
          else if negotiate_fails then
            (set_state m2 p (Disconnected None), map (CallCancel d) ts ++ [CallNegotiate d t])
          else
            (set_pending m2 (insert_key d p (pending m2)), map (CallCancel d) ts ++ [CallNegotiate d t])
      | _ => (m1, [])
      end
  end.

Definition errs_of (m : mgr) (c : conn) : N := match lookup c (oerrs m) with Some n => n | None => 0 end.

(* TransportEvent::OpenFailure from transport t (one failed address): only the failure of the
   last transport of the set is reported, with the errors kept for the earlier ones *)
Definition do_open_failure (m0 : mgr) (c : conn) (t : tr) (pa : peer) : mgr * list out :=
  let m := add_addr m0 pa (canon pa t) in
  match lookup c (pending m) with
  | None => (m, [])
  | Some p =>
      match state_of m p with
      | Opening d ts =>
          if mem t ts then
            match remove_tr t ts with
            | [] =>
                let m1 := set_state m p (Disconnected None) in
                (set_oerrs (set_pending m1 (remove_key c (pending m1))) (remove_key c (oerrs m1)),
                 [ProtoDialFailure p; EvOpenFailure c (errs_of m c + 1)])
            | ts' =>
                (set_oerrs (set_state m p (Opening d ts')) (insert_key c (errs_of m c + 1) (oerrs m)), [])
            end
          else (m, [])
      | _ => (m, [])
      end
  end.

Definition do_accept_done (m : mgr) (c : conn) (ok : bool) : mgr * list out :=
  match lookup c (accepting m) with
  | None => (m, [])
  | Some (p, _) =>
      let m1 := set_accepting m (remove_first c (accepting m)) in
      if ok then (m1, [EvEstablished p c])
      else let '(m2, _) := do_closed m1 p c in (m2, [])
  end.

(* ---- the user-facing handle (handle.rs) ---- *)

Inductive hres := HErr (code : N) | HInProgress | HQueue.

(* the synchronous gate of TransportManagerHandle::dial *)
Definition handle_gate (m : mgr) (p : peer) : hres :=
  if p =? LOCAL then HErr RET_SELF
  else
    match can_dial (state_of m p) with
    | GateConnected => HErr RET_CONNECTED
    | GateInProgress => HInProgress
    | GateOk => if is_nil (addrs_of m p) then HErr RET_NO_ADDRESS else HQueue
    end.

(* the result of a command executed by the manager loop is only logged *)
Definition demote (o : out) : out := match o with Ret r => Logged r | _ => o end.

Definition do_hdial_peer (L : limits) (m : mgr) (p : peer) (ts fl : list tr) (clog : bool) : mgr * list out :=
  match handle_gate m p with
  | HErr code => (m, [Ret code])
  | HInProgress => (m, [Ret RET_OK])
  | HQueue =>
      if clog then (m, [Ret RET_CLOGGED])
      else let '(m1, os) := do_dial_peer L m p ts fl in (m1, Ret RET_OK :: map demote os)
  end.

Definition is_p2p (c : V.C10.Model.comp) : bool := match c with V.C10.Model.P2p _ => true | _ => false end.

Definition do_hdial_addr (L : limits) (m : mgr) (a : maddr) (clog : bool) : mgr * list out :=
  if negb (existsb is_p2p a) then (m, [Ret RET_PEER_ID_MISSING])
  else if clog then (m, [Ret RET_CLOGGED])
  else let '(m1, os) := do_dial_shape L m a false in (m1, Ret RET_OK :: map demote os).

Definition step (L : limits) (m : mgr) (e : ev) : mgr * list out :=
  match e with
  | CmdDialPeer p ts fl => do_dial_peer L m p ts fl
  | CmdDialAddr p t f => do_dial_shape L m (canon p t) f
  | CmdAddAddr p t =>
      (* add_known_address keeps an address only if its transport is installed (supported_transport) *)
      (if installed L (kind_of (canon p t)) then add_addr m p (canon p t) else m, [])
  | TrDialFailure c t pa => if installed L t then do_dial_failure m c t pa else (m, [])
  | TrOpened c t f => if installed L t then do_opened L m c t f else (m, [])
  | TrOpenFailure c t pa => if installed L t then do_open_failure m c t pa else (m, [])
  | TrEstablished p c t l f => if installed L t then do_established L m p c t l f else (m, [])
  | TrPendingInbound c t =>
      if installed L t then
        if limit_reached (max_in L) (ins m) then (m, [CallRejectPending c t]) else (m, [CallAcceptPending c t])
      else (m, [])
  | AcceptDone c ok => do_accept_done m c ok
  | Closed p c =>
      let '(m1, rep) := do_closed m p c in (m1, if rep then [EvClosed p c] else [])
  | AllocConn => (bump_conn m, [Ret (RET_ALLOC + next_conn m)])
  | CmdDialShape a => do_dial_shape L m a false
  | HDialPeer p ts fl clog => do_hdial_peer L m p ts fl clog
  | HDialAddr a clog => do_hdial_addr L m a clog
  end.

Fixpoint run (L : limits) (m : mgr) (es : list ev) : mgr * list (list out) :=
  match es with
  | [] => (m, [])
  | e :: t => let '(m1, o) := step L m e in let '(m2, os) := run L m1 t in (m2, o :: os)
  end.
