(* Mgr — C05: the multiaddress check of TransportManager::dial_address on the abstract
   multiaddress grammar of C10 (coq/C10/Model.v). Follows the code after the `fix:` commit that
   refuses components after the peer id. Build configuration of the harness: `websocket`
   compiled in, `quic` compiled out. *)
From Coq Require Import List NArith Bool.
From V.C10 Require Import Model.
Import ListNotations.
Open Scope N_scope.

Inductive shape_verdict :=
| SvRefuse (code : N)      (* returned before any state is touched *)
| SvTcp (p : N)            (* dialled through the TCP transport for peer p *)
| SvWs (p : N).            (* routed to the WebSocket transport for peer p *)

Definition RET_PEER_ID_MISSING : N := 6.
Definition RET_NOT_SUPPORTED : N := 7.
Definition RET_SELF' : N := 2.

Definition is_host (h : comp) : bool :=
  match h with Ip4 _ _ | Ip6 _ _ | Dns _ | Dns4 _ | Dns6 _ => true | _ => false end.

(* listen: the registered listen addresses as the manager stores them (with and without the
   local /p2p suffix) *)
Definition dial_shape (listen : list maddr) (a : maddr) : shape_verdict :=
  match last a (Other 0) with
  | P2p q =>
      (* the node's own listen address, literally or - since fix F-C10a - under another peer id *)
      if existsb (maddr_eqb a) listen || existsb (maddr_eqb (strip_p2p a)) listen then SvRefuse RET_SELF'
      else
        match a with
        | h :: rest =>
            if is_host h then
              match rest with
              | [Tcp _; P2p _] => SvTcp q
              | [Tcp _; Ws; P2p _] | [Tcp _; Wss; P2p _] => SvWs q
              | _ => SvRefuse RET_NOT_SUPPORTED
              end
            else SvRefuse RET_NOT_SUPPORTED
        | [] => SvRefuse RET_NOT_SUPPORTED
        end
  | _ => SvRefuse RET_PEER_ID_MISSING
  end.
