(* Mgr/LimitsProofs — facts about the ConnectionLimits object (Limits.v) and the proof that the
   inline bookkeeping of the manager model is the effect of the calls `lim_ops`. *)
From Coq Require Import List Arith NArith Bool Lia.
From Coq Require Import ZifyBool ZifyNat ZifyN.
From V.Mgr Require Import DialShape Model Caps Limits.
Import ListNotations.
Open Scope N_scope.

Arguments N.add : simpl never.
Arguments N.sub : simpl never.
Arguments N.eqb : simpl never.
Arguments N.leb : simpl never.
Arguments N.of_nat : simpl never.

(* ---------- the configuration builder ---------- *)
Lemma cfg_build_nil : cfg_build [] = (None, None).
Proof. reflexivity. Qed.

Lemma cfg_build_snoc ks k : cfg_build (ks ++ [k]) = cfg_apply (cfg_build ks) k.
Proof. unfold cfg_build. now rewrite fold_left_app. Qed.

(* the value a side ends up with: the argument of the last call for that side, None without one *)
Fixpoint last_set (side : bool) (ks : list cfg_call) (acc : option N) : option N :=
  match ks with
  | [] => acc
  | SetIn v :: t => last_set side t (if side then v else acc)
  | SetOut v :: t => last_set side t (if side then acc else v)
  end.

Lemma cfg_fold ks : forall c,
  fold_left cfg_apply ks c = (last_set true ks (fst c), last_set false ks (snd c)).
Proof.
  induction ks as [|k t IH]; intros [a b]; cbn [fold_left last_set fst snd]; [reflexivity|].
  destruct k as [v|v]; cbn [cfg_apply fst snd]; apply IH.
Qed.

Theorem cfg_build_last ks :
  cfg_build ks = (last_set true ks None, last_set false ks None).
Proof. unfold cfg_build. now rewrite cfg_fold. Qed.

(* ---------- the object alone ---------- *)
Record LimInv (l : lim) : Prop := {
  li_in_nodup : NoDup (lin l);
  li_out_nodup : NoDup (lout l);
  li_in : forall mx, lmax_in l = Some mx -> card (lin l) <= mx;
  li_out : forall mx, lmax_out l = Some mx -> card (lout l) <= mx;
  li_in_none : lmax_in l = None -> lin l = [];
  li_out_none : lmax_out l = None -> lout l = []
}.

Lemma lim_inv_new c : LimInv (lim_new c).
Proof.
  split; cbn [lim_new lin lout lmax_in lmax_out]; try constructor; try reflexivity;
    intros; unfold card; cbn [length]; lia.
Qed.

(* the three checks do not change anything although they take `&mut self` *)
Lemma lim_checks_pure l o :
  match o with LDial | LIncoming | LCan _ => fst (lim_step l o) = l | _ => True end.
Proof.
  destruct o as [| |[|]|c [|]|c]; cbn [lim_step]; try exact I; try reflexivity.
  destruct (lmax_out l) as [mx|]; [destruct (mx <=? card (lout l))|]; reflexivity.
Qed.

Lemma lim_step_max l o :
  lmax_in (fst (lim_step l o)) = lmax_in l /\ lmax_out (fst (lim_step l o)) = lmax_out l.
Proof.
  destruct l as [mi mo i u].
  destruct o as [| |[|]|c [|]|c]; cbn [lim_step fst lmax_in lmax_out lout]; try (split; reflexivity).
  destruct mo as [mx|]; [destruct (mx <=? card u)|]; split; reflexivity.
Qed.

Lemma card_set_add_new x l : mem x l = false -> card (set_add x l) = card l + 1.
Proof. intros H. unfold set_add. rewrite H. unfold card. cbn [length]. lia. Qed.

Lemma card_set_add_old x l : mem x l = true -> set_add x l = l.
Proof. intros H. unfold set_add. now rewrite H. Qed.

Lemma limit_insert_bound mx k c l :
  mx = Some k -> limit_reached mx l = false -> card (limit_insert mx c l) <= k.
Proof.
  intros -> H. cbn [limit_reached limit_insert] in *.
  pose proof (set_add_card c l). lia.
Qed.

Lemma limit_insert_none c l : limit_insert None c l = l.
Proof. reflexivity. Qed.

(* one guarded accept keeps the invariant *)
Lemma lim_inv_accept l c lst :
  LimInv l -> snd (lim_step l (LCan lst)) = LOk -> LimInv (fst (lim_step l (LAccept c lst))).
Proof.
  intros [N1 N2 B1 B2 E1 E2] OK. destruct lst; cbn [lim_step fst snd] in *.
  - destruct (limit_reached (lmax_in l) (lin l)) eqn:R; [discriminate|].
    split; cbn [lin lout lmax_in lmax_out]; auto.
    + now apply limit_insert_nodup.
    + intros mx Hm. now apply (limit_insert_bound _ mx).
    + intros Hn. rewrite Hn. cbn [limit_insert]. auto.
  - destruct (limit_reached (lmax_out l) (lout l)) eqn:R; [discriminate|].
    split; cbn [lin lout lmax_in lmax_out]; auto.
    + now apply limit_insert_nodup.
    + intros mx Hm. now apply (limit_insert_bound _ mx).
    + intros Hn. rewrite Hn. cbn [limit_insert]. auto.
Qed.

Lemma set_remove_nil c l : l = [] -> set_remove c l = [].
Proof. now intros ->. Qed.

Lemma lim_inv_other l o :
  LimInv l -> match o with LAccept _ _ => False | _ => True end -> LimInv (fst (lim_step l o)).
Proof.
  intros I H. destruct o as [| |b|c b|c]; try contradiction.
  - pose proof (lim_checks_pure l LDial) as P. cbn beta iota in P. now rewrite P.
  - pose proof (lim_checks_pure l LIncoming) as P. cbn beta iota in P. now rewrite P.
  - pose proof (lim_checks_pure l (LCan b)) as P. cbn beta iota in P. now rewrite P.
  - destruct I as [N1 N2 B1 B2 E1 E2]. cbn [lim_step fst].
    split; cbn [lin lout lmax_in lmax_out].
    + now apply set_remove_nodup.
    + now apply set_remove_nodup.
    + intros mx Hm. pose proof (set_remove_card c (lin l)). specialize (B1 mx Hm). lia.
    + intros mx Hm. pose proof (set_remove_card c (lout l)). specialize (B2 mx Hm). lia.
    + intros Hn. apply set_remove_nil. auto.
    + intros Hn. apply set_remove_nil. auto.
Qed.

(* For every sequence of calls that follows the discipline — from any state, in any order, with
   closes of unknown ids, repeated accepts of the same id, checks whose result is ignored — the sets
   stay duplicate-free and within the configured maxima, and an unlimited side is never counted. *)
Theorem lim_inv_guarded ops : forall l, LimInv l -> guarded l ops = true -> LimInv (lim_run l ops).
Proof.
  induction ops as [ops IH] using (well_founded_induction (Wf_nat.well_founded_ltof _ (@length lop))).
  intros l I G. destruct ops as [|o t]; [exact I|].
  destruct o as [| |lst|c b|c]; cbn [guarded lim_run] in *.
  - apply IH; [unfold ltof; cbn [length]; lia| now apply lim_inv_other | exact G].
  - apply IH; [unfold ltof; cbn [length]; lia| now apply lim_inv_other | exact G].
  - destruct t as [|o2 t2].
    + cbn [lim_run]. now apply lim_inv_other.
    + pose proof (lim_checks_pure l (LCan lst)) as P. cbn beta iota in P. rewrite P.
      destruct o2 as [| |lst2|c2 lst2|c2].
      * apply IH; [unfold ltof; cbn [length]; lia | exact I | exact G].
      * apply IH; [unfold ltof; cbn [length]; lia | exact I | exact G].
      * apply IH; [unfold ltof; cbn [length]; lia | exact I | exact G].
      * apply andb_true_iff in G. destruct G as [G G3]. apply andb_true_iff in G. destruct G as [G1 G2].
        apply eqb_prop in G1. subst lst2. cbn [lim_run].
        apply IH; [unfold ltof; cbn [length]; lia | | exact G3].
        apply lim_inv_accept; [exact I|]. destruct (snd (lim_step l (LCan lst))); try discriminate. reflexivity.
      * apply IH; [unfold ltof; cbn [length]; lia | exact I | exact G].
  - discriminate.
  - apply IH; [unfold ltof; cbn [length]; lia| now apply lim_inv_other | exact G].
Qed.

(* on_dial_address: Ok(k) promises at least one free slot and reports exactly the free capacity;
   it fails exactly when the outgoing set has reached the maximum *)
Theorem lim_dial_cap l :
  match snd (lim_step l LDial) with
  | LCap (Some k) => exists mx, lmax_out l = Some mx /\ 1 <= k /\ k + card (lout l) = mx
  | LCap None => lmax_out l = None
  | LErrOut => limit_reached (lmax_out l) (lout l) = true
  | _ => False
  end.
Proof.
  cbn [lim_step]. destruct (lmax_out l) as [mx|] eqn:E; cbn [limit_reached].
  - destruct (mx <=? card (lout l)) eqn:R; cbn [snd]; [reflexivity|].
    exists mx. repeat split; lia.
  - reflexivity.
Qed.

Theorem lim_closed_exact l c d :
  let l' := fst (lim_step l (LClosed c)) in
  (In d (lin l') <-> In d (lin l) /\ d <> c) /\ (In d (lout l') <-> In d (lout l) /\ d <> c).
Proof. cbn [lim_step fst lin lout]. split; apply set_remove_in. Qed.

(* accept_established_connection itself checks nothing: without the preceding check the set grows
   beyond the maximum (the manager never does this: mgr_guarded below) *)
Lemma lim_unguarded_exceeds :
  let l := lim_run (lim_new (Some 1, None)) [LAccept 1 true; LAccept 2 true] in
  card (lin l) = 2 /\ lmax_in l = Some 1.
Proof. vm_compute. split; reflexivity. Qed.

(* ---------- the object inside the manager ---------- *)
Definition lims (m : mgr) : list conn * list conn := (ins m, outs m).

Lemma lims_add_addr m p a : lims (add_addr m p a) = lims m.
Proof. unfold lims. now rewrite add_addr_ins, add_addr_outs. Qed.

Lemma lims_dial_peer L m p ts fl : lims (fst (do_dial_peer L m p ts fl)) = lims m.
Proof.
  unfold do_dial_peer.
  destruct (limit_reached _ _); [reflexivity|]. destruct (p =? LOCAL); [reflexivity|].
  destruct (can_dial _); try reflexivity. destruct (is_nil _); [reflexivity|].
  destruct (open_calls _ _ _ _) as [calls ok]. destruct ok; reflexivity.
Qed.

Lemma lims_dial_addr L m p t a f : lims (fst (do_dial_addr L m p t a f)) = lims m.
Proof.
  unfold do_dial_addr. destruct (negb _); [reflexivity|].
  destruct (can_dial _); cbn [fst]; try apply (lims_add_addr (bump_conn m)).
  destruct f; cbn [fst]; unfold lims; cbn [ins outs set_state set_pending];
    change (ins (add_addr (bump_conn m) p a), outs (add_addr (bump_conn m) p a)) with (lims (add_addr (bump_conn m) p a));
    apply (lims_add_addr (bump_conn m)).
Qed.

Lemma lims_dial_shape L m a f : lims (fst (do_dial_shape L m a f)) = lims m.
Proof.
  unfold do_dial_shape. destruct (limit_reached _ _); [reflexivity|].
  destruct (dial_shape _ _); [reflexivity| |]; apply lims_dial_addr.
Qed.

Lemma lims_dial_failure m c t pa : lims (fst (do_dial_failure m c t pa)) = lims m.
Proof.
  unfold do_dial_failure. destruct (lookup _ _); cbn [fst].
  - unfold lims. cbn [ins outs set_state set_pending].
    change (lims (add_addr m pa (canon pa t)) = lims m). apply lims_add_addr.
  - apply lims_add_addr.
Qed.

Lemma lims_opened L m c t f : lims (fst (do_opened L m c t f)) = lims m.
Proof.
  unfold do_opened. destruct (lookup _ _) as [p|]; [|reflexivity].
  set (m1 := add_addr _ _ _).
  assert (E : lims m1 = lims m) by (unfold m1; now rewrite lims_add_addr).
  destruct (state_of m1 p); try exact E.
  destruct (negb _); [exact E|]. destruct f; exact E.
Qed.

Lemma lims_open_failure m c t pa : lims (fst (do_open_failure m c t pa)) = lims m.
Proof.
  unfold do_open_failure. set (m1 := add_addr _ _ _).
  assert (E : lims m1 = lims m) by (unfold m1; now rewrite lims_add_addr).
  destruct (lookup _ _) as [p|]; [|exact E].
  destruct (state_of m1 p); try exact E. destruct (mem t ts); [|exact E].
  destruct (remove_tr t ts); exact E.
Qed.

Lemma lims_hdial_peer L m p ts fl clog : lims (fst (do_hdial_peer L m p ts fl clog)) = lims m.
Proof.
  unfold do_hdial_peer. destruct (handle_gate m p); try reflexivity. destruct clog; [reflexivity|].
  pose proof (lims_dial_peer L m p ts fl) as K. destruct (do_dial_peer L m p ts fl). exact K.
Qed.

Lemma lims_hdial_addr L m a clog : lims (fst (do_hdial_addr L m a clog)) = lims m.
Proof.
  unfold do_hdial_addr. destruct (negb _); [reflexivity|]. destruct clog; [reflexivity|].
  pose proof (lims_dial_shape L m a false) as K. destruct (do_dial_shape L m a false). exact K.
Qed.

Lemma lim_of_eq L m m' : lims m' = lims m -> lim_of L m' = lim_of L m.
Proof. unfold lims, lim_of. intros H. injection H as -> ->. reflexivity. Qed.

Lemma lims_closed m p c :
  lims (fst (do_closed m p c)) = (set_remove c (ins m), set_remove c (outs m)).
Proof. unfold do_closed. destruct (st_on_closed _ _). reflexivity. Qed.

Lemma lim_dial_pure L m : fst (lim_step (lim_of L m) LDial) = lim_of L m.
Proof. exact (lim_checks_pure (lim_of L m) LDial). Qed.

(* est_ops against do_established_checked *)
Lemma est_refines L m1 p c t (lst f : bool) :
  lim_run (lim_of L m1) (est_ops L m1 p c lst f) = lim_of L (fst (do_established_checked L m1 p c t lst f)).
Proof.
  unfold est_ops, do_established_checked.
  assert (P : forall k, lim_run (lim_of L m1) (LCan lst :: k) = lim_run (lim_of L m1) k).
  { intros k. cbn [lim_run]. pose proof (lim_checks_pure (lim_of L m1) (LCan lst)) as Q. cbn beta iota in Q. now rewrite Q. }
  destruct (limit_reached _ _) eqn:R.
  - rewrite P. cbn [lim_run fst]. destruct (existsb _ _); reflexivity.
  - destruct (st_on_established (state_of m1 p) c) as [s' acc] eqn:ES. cbn [snd].
    destruct acc; cbn [negb]; [|rewrite P; reflexivity].
    set (m3 := if lst then _ else _).
    assert (E3 : lim_of L m3 = fst (lim_step (lim_of L m1) (LAccept c lst))).
    { unfold m3. destruct lst; reflexivity. }
    assert (FIN : forall m4 cancels, lims m4 = lims m3 ->
              lim_run (lim_of L m1) ([LCan lst; LAccept c lst] ++ (if f then [LClosed c] else [])) =
              lim_of L (fst (est_finish m4 p c t lst f cancels))).
    { intros m4 cancels E4. rewrite <- app_comm_cons. rewrite P. cbn [app lim_run]. rewrite <- E3.
      unfold est_finish. destruct f.
      - pose proof (lims_closed m4 p c) as K. destruct (do_closed m4 p c) as [m5 rep]. cbn [fst] in *.
        cbn [lim_run lim_step fst]. unfold lim_of. unfold lims in K, E4. injection K as -> ->.
        injection E4 as -> ->. reflexivity.
      - cbn [lim_run fst]. symmetry. apply lim_of_eq. exact E4. }
    destruct (state_of m1 p) as [r sc|d ts|d|d] eqn:SP; try (apply FIN; reflexivity).
    destruct (negb (forallb (installed L) ts)); [rewrite P; reflexivity|].
    apply FIN. reflexivity.
Qed.

(* The inline bookkeeping of the manager model is exactly the effect of the calls lim_ops. *)
Theorem lim_refines L m e :
  lim_run (lim_of L m) (lim_ops L m e) = lim_of L (fst (step L m e)).
Proof.
  destruct e as [p ts fl|p t f|p t|c t pa|c t f|c t pa|p c t lst f|c t|c ok|p c| |a|p ts fl clog|a clog];
    cbn [step lim_ops].
  - cbn [lim_run]. rewrite lim_dial_pure. symmetry. apply lim_of_eq, lims_dial_peer.
  - cbn [lim_run]. rewrite lim_dial_pure. symmetry. apply lim_of_eq, lims_dial_shape.
  - cbn [lim_run]. destruct (installed L _); cbn [fst]; [|reflexivity]. symmetry. apply lim_of_eq, lims_add_addr.
  - cbn [lim_run]. destruct (installed L t); cbn [fst]; [|reflexivity]. symmetry. apply lim_of_eq, lims_dial_failure.
  - cbn [lim_run]. destruct (installed L t); cbn [fst]; [|reflexivity]. symmetry. apply lim_of_eq, lims_opened.
  - cbn [lim_run]. destruct (installed L t); cbn [fst]; [|reflexivity]. symmetry. apply lim_of_eq, lims_open_failure.
  - destruct (installed L t); [|reflexivity]. unfold do_established.
    set (me := set_oerrs m _). set (m0 := if lst then me else _). set (m1 := set_pending m0 _).
    assert (E1 : lim_of L m1 = lim_of L m).
    { apply lim_of_eq. unfold m1, m0, me. destruct lst; unfold lims; cbn [ins outs set_pending set_oerrs]; [reflexivity|].
      now rewrite add_addr_ins, add_addr_outs. }
    destruct (lookup c (pending m0)) as [dp|].
    + destruct (dp =? p); [rewrite <- E1; apply est_refines | cbn [lim_run fst]; now rewrite E1].
    + rewrite <- E1. apply est_refines.
  - destruct (installed L t); [|reflexivity]. cbn [lim_run].
    pose proof (lim_checks_pure (lim_of L m) LIncoming) as Q. cbn beta iota in Q. rewrite Q.
    destruct (limit_reached _ _); reflexivity.
  - unfold do_accept_done. destruct (lookup c (accepting m)) as [[q b]|]; [|reflexivity].
    destruct ok; [reflexivity|].
    pose proof (lims_closed (set_accepting m (remove_first c (accepting m))) q c) as K.
    destruct (do_closed _ q c) as [m2 rep]. cbn [fst] in *. cbn [lim_run lim_step fst].
    unfold lim_of. unfold lims in K. cbn [ins outs set_accepting] in K. injection K as -> ->. reflexivity.
  - pose proof (lims_closed m p c) as K. destruct (do_closed m p c) as [m1 rep]. cbn [fst] in *.
    cbn [lim_run lim_step fst]. unfold lim_of. unfold lims in K. injection K as -> ->. reflexivity.
  - reflexivity.
  - cbn [lim_run]. rewrite lim_dial_pure. symmetry. apply lim_of_eq, lims_dial_shape.
  - unfold do_hdial_peer. destruct (handle_gate m p); try reflexivity. destruct clog; [reflexivity|].
    cbn [lim_run]. rewrite lim_dial_pure.
    pose proof (lims_dial_peer L m p ts fl) as K. destruct (do_dial_peer L m p ts fl). cbn [fst] in *.
    symmetry. now apply lim_of_eq.
  - unfold do_hdial_addr. destruct (negb _); [reflexivity|]. destruct clog; [reflexivity|].
    cbn [lim_run]. rewrite lim_dial_pure.
    pose proof (lims_dial_shape L m a false) as K. destruct (do_dial_shape L m a false). cbn [fst] in *.
    symmetry. now apply lim_of_eq.
Qed.

(* the manager follows the calling discipline: it accepts only right after a successful check *)
Lemma est_guarded L m1 p c (lst f : bool) : guarded (lim_of L m1) (est_ops L m1 p c lst f) = true.
Proof.
  unfold est_ops.
  destruct (limit_reached _ _) eqn:R; [reflexivity|].
  assert (G : guarded (lim_of L m1) ([LCan lst; LAccept c lst] ++ (if f then [LClosed c] else [])) = true).
  { cbn [app guarded]. rewrite eqb_reflx. cbn [andb].
    replace (snd (lim_step (lim_of L m1) (LCan lst))) with LOk.
    - destruct f; reflexivity.
    - destruct lst; cbn [lim_step snd lim_of lmax_in lmax_out lin lout]; now rewrite R. }
  destruct (negb (snd _)); [reflexivity|].
  destruct (state_of m1 p); try exact G. destruct (negb _); [reflexivity | exact G].
Qed.

Theorem mgr_guarded L m e : guarded (lim_of L m) (lim_ops L m e) = true.
Proof.
  destruct e as [p ts fl|p t f|p t|c t pa|c t f|c t pa|p c t lst f|c t|c ok|p c| |a|p ts fl clog|a clog];
    cbn [lim_ops]; try reflexivity.
  - destruct (installed L t); [|reflexivity].
    set (me := set_oerrs m _). set (m0 := if lst then me else _). set (m1 := set_pending m0 _).
    assert (E1 : lim_of L m1 = lim_of L m).
    { apply lim_of_eq. unfold m1, m0, me. destruct lst; unfold lims; cbn [ins outs set_pending set_oerrs]; [reflexivity|].
      now rewrite add_addr_ins, add_addr_outs. }
    rewrite <- E1. destruct (lookup c (pending m0)) as [dp|]; [destruct (dp =? p)|]; try reflexivity; apply est_guarded.
  - destruct (installed L t); reflexivity.
  - destruct (lookup c (accepting m)); [destruct ok|]; reflexivity.
  - destruct (handle_gate m p); try reflexivity. destruct clog; reflexivity.
  - destruct (negb _); [reflexivity|]. destruct clog; reflexivity.
Qed.

(* the answer of the object decides the manager's answer: a dial request is refused with
   ConnectionLimit exactly when on_dial_address fails, a pending inbound socket is rejected exactly
   when on_incoming fails *)
Theorem lim_dial_decides L m p ts fl :
  (snd (lim_step (lim_of L m) LDial) = LErrOut <-> snd (do_dial_peer L m p ts fl) = [Ret RET_LIMIT]) /\
  (snd (lim_step (lim_of L m) LDial) = LErrOut -> fst (do_dial_peer L m p ts fl) = m).
Proof.
  unfold do_dial_peer. cbn [lim_step lim_of lmax_out lout limit_reached].
  destruct (max_out L) as [mx|]; cbn [limit_reached].
  - destruct (mx <=? card (outs m)); cbn [snd fst].
    + repeat split; reflexivity.
    + split; [split; intros H; [discriminate|]|discriminate].
      exfalso. destruct (p =? LOCAL); [discriminate|].
      destruct (can_dial _); try discriminate. destruct (is_nil _); [discriminate|].
      destruct (open_calls _ _ _ _) as [calls ok]. destruct ok; cbn [snd] in H.
      * assert (In (Ret RET_OK) [Ret RET_LIMIT]) as [K|[]] by (rewrite <- H; apply in_or_app; right; now left). discriminate.
      * assert (In (Ret RET_TRANSPORT) [Ret RET_LIMIT]) as [K|[]] by (rewrite <- H; apply in_or_app; right; now left). discriminate.
  - cbn [snd]. split; [split; intros H; [discriminate|]|discriminate].
    exfalso. destruct (p =? LOCAL); [discriminate|].
    destruct (can_dial _); try discriminate. destruct (is_nil _); [discriminate|].
    destruct (open_calls _ _ _ _) as [calls ok]. destruct ok; cbn [snd] in H.
    * assert (In (Ret RET_OK) [Ret RET_LIMIT]) as [K|[]] by (rewrite <- H; apply in_or_app; right; now left). discriminate.
    * assert (In (Ret RET_TRANSPORT) [Ret RET_LIMIT]) as [K|[]] by (rewrite <- H; apply in_or_app; right; now left). discriminate.
Qed.

Theorem lim_incoming_decides L m c t :
  installed L t = true ->
  step L m (TrPendingInbound c t) =
    (m, [if match snd (lim_step (lim_of L m) LIncoming) with LOk => true | _ => false end
         then CallAcceptPending c t else CallRejectPending c t]).
Proof.
  intros H. cbn [step]. rewrite H. cbn [lim_step lim_of lmax_in lin snd].
  destruct (limit_reached _ _); reflexivity.
Qed.
