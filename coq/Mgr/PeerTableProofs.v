(* Mgr/PeerTableProofs — the transition table of PeerState, the two connection slots, and the
   refinement to the address-free state machine of Model.v. *)
From Coq Require Import List Arith NArith Bool Lia.
From Coq Require Import ZifyBool ZifyNat ZifyN.
From V.Mgr Require Import DialShape Model PeerTable.
Import ListNotations.
Open Scope N_scope.

Arguments N.eqb : simpl never.

Ltac sdes s :=
  let r := fresh "r" in let s2 := fresh "s2" in let d := fresh "d" in
  let a := fresh "a" in let c0 := fresh "c0" in let ts := fresh "ts" in
  destruct s as [r [[s2|d]|]|a c0 ts|d|[d|]].

(* ---------- erasing the addresses commutes with every transition ---------- *)
Lemma erase_can_dial s : r_can_dial s = can_dial (erase s).
Proof. sdes s; reflexivity. Qed.

Lemma erase_dial_failure s c :
  erase (fst (r_on_dial_failure s c)) = st_on_dial_failure (erase s) c.
Proof.
  sdes s; cbn [r_on_dial_failure erase st_on_dial_failure option_map erase_sec fst]; try reflexivity;
    destruct (fst d =? c); reflexivity.
Qed.

Lemma erase_established s n :
  (erase (fst (r_on_established s n)), snd (r_on_established s n)) = st_on_established (erase s) (fst n).
Proof.
  sdes s; cbn [r_on_established erase st_on_established option_map erase_sec fst snd]; try reflexivity;
    destruct (fst d =? fst n); reflexivity.
Qed.

Lemma erase_closed s c :
  (erase (fst (r_on_closed s c)), snd (r_on_closed s c)) = st_on_closed (erase s) c.
Proof.
  sdes s; cbn [r_on_closed erase st_on_closed option_map erase_sec fst snd]; try reflexivity.
  - destruct (fst r =? c); [reflexivity|]. destruct (fst s2 =? c); reflexivity.
  - destruct (fst r =? c); reflexivity.
  - destruct (fst r =? c); reflexivity.
Qed.

Lemma erase_open_failure a c ts t :
  erase (fst (r_on_open_failure (ROpening a c ts) t)) =
  match remove_tr t ts with [] => Disconnected None | ts' => Opening c ts' end.
Proof. cbn [r_on_open_failure]. destruct (remove_tr t ts); reflexivity. Qed.

Lemma erase_opened a c ts r : erase (fst (r_on_opened (ROpening a c ts) r)) = Dialing (fst r).
Proof. reflexivity. Qed.

Lemma erase_dial_single s r :
  erase (fst (r_dial_single s r)) = match can_dial (erase s) with GateOk => Dialing (fst r) | _ => erase s end.
Proof. sdes s; reflexivity. Qed.

Lemma erase_dial_addresses s c a ts :
  erase (fst (r_dial_addresses s c a ts)) = match can_dial (erase s) with GateOk => Opening c ts | _ => erase s end.
Proof. sdes s; reflexivity. Qed.

(* ---------- the table ---------- *)
Theorem table_correct s o :
  (shape_of (fst (pstep s o)), snd (pstep s o)) = table (shape_of s) (classify s o).
Proof.
  destruct o as [|r|c a ts|c|n|c|t|r]; cbn [pstep classify].
  - sdes s; reflexivity.
  - sdes s; reflexivity.
  - sdes s; reflexivity.
  - sdes s; cbn [r_on_dial_failure dial_matches dial_of fst snd shape_of table]; try reflexivity;
      destruct (fst d =? c); reflexivity.
  - sdes s; cbn [r_on_established dial_matches dial_of fst snd shape_of table]; try reflexivity;
      destruct (fst d =? fst n); reflexivity.
  - sdes s; cbn [r_on_closed slots fst snd shape_of table]; try reflexivity.
    + destruct (fst r =? c); [reflexivity|]. destruct (fst s2 =? c); reflexivity.
    + destruct (fst r =? c); reflexivity.
    + destruct (fst r =? c); reflexivity.
  - sdes s; cbn [r_on_open_failure fst snd shape_of table]; try reflexivity.
    destruct (remove_tr t ts); reflexivity.
  - sdes s; reflexivity.
Qed.

(* ---------- the slots ---------- *)
Theorem slots_le_two s : (length (slots s) <= 2)%nat.
Proof. sdes s; cbn [slots length]; lia. Qed.

Theorem slots_established s n :
  slots (fst (r_on_established s n)) = if snd (r_on_established s n) then slots s ++ [n] else slots s.
Proof.
  sdes s; cbn [r_on_established slots fst snd app]; try reflexivity;
    destruct (fst d =? fst n); reflexivity.
Qed.

Theorem slots_closed s c : slots (fst (r_on_closed s c)) = remove_first_rec c (slots s).
Proof.
  sdes s; cbn [r_on_closed slots fst remove_first_rec]; try reflexivity.
  - destruct (fst r =? c); [reflexivity|]. destruct (fst s2 =? c); reflexivity.
  - destruct (fst r =? c); reflexivity.
  - destruct (fst r =? c); reflexivity.
Qed.

(* no other method touches the slots *)
Theorem slots_other s o :
  match o with PEstablished _ | PClosed _ => True | _ => slots (fst (pstep s o)) = slots s end.
Proof.
  destruct o as [|r|c a ts|c|n|c|t|r]; cbn [pstep]; try exact I.
  - reflexivity.
  - sdes s; reflexivity.
  - sdes s; reflexivity.
  - sdes s; cbn [r_on_dial_failure fst slots]; try reflexivity; destruct (fst d =? c); reflexivity.
  - sdes s; cbn [r_on_open_failure fst slots]; try reflexivity. destruct (remove_tr t ts); reflexivity.
  - sdes s; reflexivity.
Qed.

(* a connection is refused exactly when both slots are taken, or one is taken and the other is
   reserved for a dial in flight with a different id *)
Theorem established_refused_iff s n :
  snd (r_on_established s n) = false <->
  (length (slots s) = 2%nat \/
   (length (slots s) = 1%nat /\ exists d, dial_of s = Some d /\ fst d <> fst n)).
Proof.
  sdes s; cbn [r_on_established slots dial_of length snd].
  - split; [intros _; now left | reflexivity].
  - destruct (fst d =? fst n) eqn:E; cbn [snd]; split; intros H; try discriminate; try reflexivity.
    + destruct H as [H|[_ [d' [H1 H2]]]]; [discriminate|]. injection H1 as <-. lia.
    + right. split; [reflexivity|]. exists d. split; [reflexivity|lia].
  - split; [discriminate|]. intros [H|[_ [d' [H1 _]]]]; discriminate.
  - split; [discriminate|]. intros [H|[H _]]; discriminate.
  - destruct (fst d =? fst n); cbn [snd]; (split; [discriminate|]); intros [H|[H _]]; discriminate.
  - destruct (fst d =? fst n); cbn [snd]; (split; [discriminate|]); intros [H|[H _]]; discriminate.
  - split; [discriminate|]. intros [H|[H _]]; discriminate.
Qed.

(* ConnectionClosed is to be reported exactly when the last recorded connection goes *)
Theorem closed_reports_iff s c :
  snd (r_on_closed s c) = true <-> exists r, slots s = [r] /\ fst r = c.
Proof.
  sdes s; cbn [r_on_closed slots snd].
  - destruct (fst r =? c); cbn [snd]; [|destruct (fst s2 =? c); cbn [snd]];
      (split; [discriminate|]); intros [x [H _]]; discriminate.
  - destruct (fst r =? c) eqn:E; cbn [snd]; split; intros H; try discriminate; try reflexivity.
    + exists r. split; [reflexivity|lia].
    + destruct H as [x [H1 H2]]. injection H1 as <-. lia.
  - destruct (fst r =? c) eqn:E; cbn [snd]; split; intros H; try discriminate; try reflexivity.
    + exists r. split; [reflexivity|lia].
    + destruct H as [x [H1 H2]]. injection H1 as <-. lia.
  - split; [discriminate|]. intros [x [H _]]; discriminate.
  - split; [discriminate|]. intros [x [H _]]; discriminate.
  - split; [discriminate|]. intros [x [H _]]; discriminate.
  - split; [discriminate|]. intros [x [H _]]; discriminate.
Qed.

(* every record the machine is handed by the manager names the peer *)
Lemma rec_new_names_peer p a c : snd (snd (rec_new p a c)) = Some p /\ fst (rec_new p a c) = c.
Proof. split; reflexivity. Qed.

(* ids of the slots stay distinct as long as established connections carry ids that are not in a
   slot already (the manager's environment: env_ok) *)
Definition slot_ids (s : rstate) : list conn := map fst (slots s).

Definition pop_fresh (s : rstate) (o : pop) : Prop :=
  match o with PEstablished n => ~ In (fst n) (slot_ids s) | _ => True end.

Lemma remove_first_rec_ids c l x : In x (map fst (remove_first_rec c l)) -> In x (map fst l).
Proof.
  induction l as [|r t IH]; cbn [remove_first_rec map]; [tauto|].
  destruct (fst r =? c); cbn [map]; [now right|]. intros [H|H]; [now left | right; auto].
Qed.

Lemma remove_first_rec_nodup c l : NoDup (map fst l) -> NoDup (map fst (remove_first_rec c l)).
Proof.
  induction l as [|r t IH]; cbn [remove_first_rec map]; intros H; [constructor|].
  inversion H as [|? ? H1 H2]; subst. destruct (fst r =? c); [exact H2|].
  cbn [map]. constructor; [|auto]. intros K. apply H1. eapply remove_first_rec_ids; eauto.
Qed.

Lemma NoDup_app_snoc {A} (l : list A) x : NoDup l -> ~ In x l -> NoDup (l ++ [x]).
Proof.
  induction l as [|y t IH]; cbn [app]; intros N H.
  - constructor; [intros []|constructor].
  - inversion N as [|? ? N1 N2]; subst. constructor.
    + intros K. apply in_app_or in K. destruct K as [K|[K|[]]]; [now apply N1|]. subst. apply H. now left.
    + apply IH; [exact N2|]. intros K. apply H. now right.
Qed.

Theorem slot_ids_nodup_step s o :
  NoDup (slot_ids s) -> pop_fresh s o -> NoDup (slot_ids (fst (pstep s o))).
Proof.
  intros N F. unfold slot_ids in *.
  destruct o as [|r|c a ts|c|n|c|t|r];
    try (pose proof (slots_other s PCanDial) as K; cbn beta iota in K; rewrite K; exact N).
  - pose proof (slots_other s (PDialSingle r)) as K; cbn beta iota in K; rewrite K; exact N.
  - pose proof (slots_other s (PDialAddrs c a ts)) as K; cbn beta iota in K; rewrite K; exact N.
  - pose proof (slots_other s (PDialFailure c)) as K; cbn beta iota in K; rewrite K; exact N.
  - cbn [pstep]. destruct (r_on_established s n) as [s' b] eqn:E. cbn [fst].
    pose proof (slots_established s n) as K. rewrite E in K. cbn [fst snd] in K. rewrite K.
    destruct b; [|exact N]. rewrite map_app. cbn [map].
    apply NoDup_app_snoc; [exact N | exact F].
  - cbn [pstep]. destruct (r_on_closed s c) as [s' b] eqn:E. cbn [fst].
    pose proof (slots_closed s c) as K. rewrite E in K. cbn [fst] in K. rewrite K.
    now apply remove_first_rec_nodup.
  - pose proof (slots_other s (POpenFailure t)) as K; cbn beta iota in K; rewrite K; exact N.
  - pose proof (slots_other s (POpened r)) as K; cbn beta iota in K; rewrite K; exact N.
Qed.

(* what happens to the remembered dial when a connection is established: consumed when the ids
   match (the dial succeeded), kept otherwise — also when the connection is refused *)
Theorem dial_of_established s n :
  dial_of (fst (r_on_established s n)) =
  match dial_of s with
  | Some d => if fst d =? fst n then None else Some d
  | None => None
  end.
Proof.
  sdes s; cbn [r_on_established dial_of fst]; try reflexivity;
    destruct (fst d =? fst n) eqn:E; cbn [dial_of fst]; reflexivity.
Qed.

(* a dial failure clears exactly the matching remembered dial and nothing else *)
Theorem dial_of_dial_failure s c :
  dial_of (fst (r_on_dial_failure s c)) =
  match dial_of s with
  | Some d => if fst d =? c then None else Some d
  | None => None
  end /\ snd (r_on_dial_failure s c) = dial_matches s c.
Proof.
  sdes s; cbn [r_on_dial_failure dial_of dial_matches fst snd]; try (split; reflexivity);
    destruct (fst d =? c) eqn:E; cbn [dial_of fst snd]; split; reflexivity.
Qed.
