(* Mgr/Limits — the `ConnectionLimits` object of src/transport/manager/limits.rs as a component of
   its own: the configuration builder, the five methods, and the sequence of calls the manager
   makes on it for every event (`lim_ops`). Definitions only; proofs in LimitsProofs.v.

   The shared manager model (Model.v) carries the two counted sets inline (`ins`, `outs`) and uses
   `limit_reached` / `limit_insert` / `set_remove` on them; this file states the object's API
   separately so that (1) the object can be driven and diffed in isolation, with call sequences no
   manager would make, (2) the calls the real manager makes on the object — which method, which
   arguments, which result, in which order — can be compared with `lim_log`, and (3) the inline
   bookkeeping of Model.v is proved to be exactly the effect of those calls (LimitsProofs.v). *)
From Coq Require Import List NArith Bool.
From V.Mgr Require Import DialShape Model.
Import ListNotations.
Open Scope N_scope.

(* ---- ConnectionLimitsConfig: `default()` then any number of builder calls ---- *)
Inductive cfg_call := SetIn (v : option N) | SetOut (v : option N).
Definition cfg := (option N * option N)%type.
Definition cfg_default : cfg := (None, None).
Definition cfg_apply (c : cfg) (k : cfg_call) : cfg :=
  match k with SetIn v => (v, snd c) | SetOut v => (fst c, v) end.
Definition cfg_build (ks : list cfg_call) : cfg := fold_left cfg_apply ks cfg_default.

(* ---- ConnectionLimits ---- *)
Record lim := mkLim {
  lmax_in : option N; lmax_out : option N;
  lin : list conn;       (* incoming_connections *)
  lout : list conn       (* outgoing_connections *)
}.
Definition lim_new (c : cfg) : lim := mkLim (fst c) (snd c) [] [].

Inductive lop :=
| LDial                              (* on_dial_address *)
| LIncoming                          (* on_incoming *)
| LCan (lst : bool)                  (* can_accept_connection(is_listener) *)
| LAccept (c : conn) (lst : bool)    (* accept_established_connection(id, is_listener) *)
| LClosed (c : conn).                (* on_connection_closed(id) *)

Inductive lres :=
| LOk                                (* Ok(()) / unit *)
| LCap (k : option N)                (* on_dial_address: Ok(k); None = usize::MAX (no limit) *)
| LErrIn                             (* MaxIncomingConnectionsExceeded *)
| LErrOut.                           (* MaxOutgoingConnectionsExceeded *)

Definition lim_step (l : lim) (o : lop) : lim * lres :=
  match o with
  | LDial =>
      match lmax_out l with
      | Some mx => if mx <=? card (lout l) then (l, LErrOut) else (l, LCap (Some (mx - card (lout l))))
      | None => (l, LCap None)
      end
  | LIncoming => (l, if limit_reached (lmax_in l) (lin l) then LErrIn else LOk)
  | LCan true => (l, if limit_reached (lmax_in l) (lin l) then LErrIn else LOk)
  | LCan false => (l, if limit_reached (lmax_out l) (lout l) then LErrOut else LOk)
  | LAccept c true => (mkLim (lmax_in l) (lmax_out l) (limit_insert (lmax_in l) c (lin l)) (lout l), LOk)
  | LAccept c false => (mkLim (lmax_in l) (lmax_out l) (lin l) (limit_insert (lmax_out l) c (lout l)), LOk)
  | LClosed c => (mkLim (lmax_in l) (lmax_out l) (set_remove c (lin l)) (set_remove c (lout l)), LOk)
  end.

Fixpoint lim_run (l : lim) (ops : list lop) : lim :=
  match ops with [] => l | o :: t => lim_run (fst (lim_step l o)) t end.

(* the calls together with their results *)
Fixpoint lim_log (l : lim) (ops : list lop) : list (lop * lres) :=
  match ops with [] => [] | o :: t => (o, snd (lim_step l o)) :: lim_log (fst (lim_step l o)) t end.

(* The calling discipline the doc comment of `accept_established_connection` asks for ("should be
   called after can_accept_connection"): an accept is the immediate successor of a successful check
   for the same direction. *)
Fixpoint guarded (l : lim) (ops : list lop) : bool :=
  match ops with
  | [] => true
  | LAccept _ _ :: _ => false
  | LCan lst :: t =>
      match t with
      | LAccept c lst' :: t' =>
          Bool.eqb lst lst' &&
          (match snd (lim_step l (LCan lst)) with LOk => true | _ => false end) &&
          guarded (fst (lim_step l (LAccept c lst'))) t'
      | _ => guarded l t
      end
  | o :: t => guarded (fst (lim_step l o)) t
  end.

(* ---- the object inside the manager ---- *)
Definition lim_of (L : limits) (m : mgr) : lim := mkLim (max_in L) (max_out L) (ins m) (outs m).

(* the calls `on_connection_established` + the accept arm of `next()` make, once the pending entry
   was consumed (mirrors Model.do_established_checked) *)
Definition est_ops (L : limits) (m1 : mgr) (p : peer) (c : conn) (listener accept_fails : bool) : list lop :=
  if limit_reached (if listener then max_in L else max_out L) (if listener then ins m1 else outs m1)
  then [LCan listener]
  else
    let prev := state_of m1 p in
    if negb (snd (st_on_established prev c)) then [LCan listener]
    else
      match prev with
      | Opening _ ts =>
          if negb (forallb (installed L) ts) then [LCan listener]     (* Stuck 4: the run ends *)
          else [LCan listener; LAccept c listener] ++ (if accept_fails then [LClosed c] else [])
      | _ => [LCan listener; LAccept c listener] ++ (if accept_fails then [LClosed c] else [])
      end.

(* every call the manager makes on its ConnectionLimits while handling e in state m *)
Definition lim_ops (L : limits) (m : mgr) (e : ev) : list lop :=
  match e with
  | CmdDialPeer _ _ _ | CmdDialAddr _ _ _ | CmdDialShape _ => [LDial]
  | HDialPeer p _ _ clog =>
      match handle_gate m p with HQueue => if clog then [] else [LDial] | _ => [] end
  | HDialAddr a clog => if negb (existsb is_p2p a) then [] else if clog then [] else [LDial]
  | TrPendingInbound _ t => if installed L t then [LIncoming] else []
  | TrEstablished p c t lst f =>
      if installed L t then
        let me := set_oerrs m (remove_key c (oerrs m)) in
        let m0 := if lst then me else add_addr me p (canon p t) in
        let m1 := set_pending m0 (remove_key c (pending m0)) in
        match lookup c (pending m0) with
        | Some dp => if dp =? p then est_ops L m1 p c lst f else []     (* Stuck 1 before any call *)
        | None => est_ops L m1 p c lst f
        end
      else []
  | AcceptDone c ok =>
      match lookup c (accepting m) with
      | Some _ => if ok then [] else [LClosed c]
      | None => []
      end
  | Closed _ c => [LClosed c]
  | _ => []
  end.
