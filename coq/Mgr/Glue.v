(* Mgr — wire format, model runner, and the trace oracles for C05 and C06. Definitions only. *)
From Coq Require Import List NArith Bool.
From V.common Require Import Wire.
From V.C10 Require Glue.
From V.Mgr Require Import DialShape Model.
Import ListNotations.
Open Scope N_scope.

Definition p_ev : parser ev :=
  let* tag := pN in
  match tag with
  | 0 => let* p := pN in let* f := pBool in pret (CmdDialPeer p f)
  | 1 => let* p := pN in let* f := pBool in pret (CmdDialAddr p f)
  | 2 => let* p := pN in pret (CmdAddAddr p)
  | 3 => let* c := pN in let* p := pN in pret (TrDialFailure c p)
  | 4 => let* c := pN in let* f := pBool in pret (TrOpened c f)
  | 5 => let* c := pN in let* p := pN in pret (TrOpenFailure c p)
  | 6 => let* p := pN in let* c := pN in let* l := pBool in let* f := pBool in pret (TrEstablished p c l f)
  | 7 => let* c := pN in pret (TrPendingInbound c)
  | 8 => let* c := pN in let* ok := pBool in pret (AcceptDone c ok)
  | 9 => let* p := pN in let* c := pN in pret (Closed p c)
  | 10 => pret AllocConn
  | 11 => let* a := V.C10.Glue.p_maddr in pret (CmdDialShape a)
  | _ => pfail
  end.

Definition decode_case (l : list N) : option (limits * list ev) :=
  pall (let* mi := pN in let* mo := pN in let* es := plist p_ev in
        pret (mkLimits (dec_opt mi) (dec_opt mo), es)) l.

(* ---- outputs: grouped by channel (calls, protocol notifications, manager events, return code,
        stuck), each group in emission order ---- *)
Definition enc_call (o : out) : list N :=
  match o with
  | CallOpen c => [1; c] | CallDial c => [2; c] | CallNegotiate c => [3; c] | CallCancel c => [4; c]
  | CallAccept c => [5; c] | CallReject c => [6; c] | CallAcceptPending c => [7; c]
  | CallRejectPending c => [8; c]
  | _ => []
  end.
Definition is_call (o : out) : bool :=
  match o with
  | CallOpen _ | CallDial _ | CallNegotiate _ | CallCancel _ | CallAccept _ | CallReject _
  | CallAcceptPending _ | CallRejectPending _ => true
  | _ => false
  end.
Definition is_proto (o : out) : bool := match o with ProtoDialFailure _ => true | _ => false end.
Definition is_mev (o : out) : bool :=
  match o with EvEstablished _ _ | EvClosed _ _ | EvDialFailure _ _ | EvOpenFailure _ => true | _ => false end.
Definition enc_proto (o : out) : list N := match o with ProtoDialFailure p => [p] | _ => [] end.
Definition enc_mev (o : out) : list N :=
  match o with
  | EvEstablished p c => [1; p; c] | EvClosed p c => [2; p; c]
  | EvDialFailure c p => [3; c; p] | EvOpenFailure c => [4; c; 0]
  | _ => []
  end.
Definition ret_of (os : list out) : N :=
  fold_right (fun o acc => match o with Ret r => r + 1 | _ => acc end) 0 os.
Definition stuck_of (os : list out) : N :=
  fold_right (fun o acc => match o with Stuck s => s | _ => acc end) 0 os.

Definition enc_outs (os : list out) : list N :=
  enc_list enc_call (filter is_call os) ++ enc_list enc_proto (filter is_proto os) ++
  enc_list enc_mev (filter is_mev os) ++ [ret_of os; if stuck_of os =? 0 then 0 else 1].

Definition enc_pstate (s : pstate) : list N :=
  match s with
  | Disconnected None => [0; 0; 0]
  | Disconnected (Some c) => [1; c; 0]
  | Dialing c => [2; c; 0]
  | Opening c => [3; c; 0]
  | Connected c None => [4; c; 0]
  | Connected c (Some (SecEst d)) => [5; c; d]
  | Connected c (Some (SecDial d)) => [6; c; d]
  end.
Definition is_default (s : pstate) : bool := match s with Disconnected None => true | _ => false end.

Definition dump (m : mgr) : list N :=
  enc_list (fun kp : N * pstate => fst kp :: enc_pstate (snd kp))
           (sort_by fst (filter (fun kp => negb (is_default (snd kp)))
                                (fold_right (fun kp acc => if existsb (fun q : N * pstate => fst q =? fst kp) acc then acc else acc ++ [kp])
                                            [] (rev (peers m))))) ++
  enc_list (fun k => [k]) (sort_by (fun k => k) (known m)) ++
  enc_list (fun cp : N * N => [fst cp; snd cp]) (sort_by fst (pending m)) ++
  enc_list (fun k => [k]) (sort_by (fun k => k) (ins m)) ++
  enc_list (fun k => [k]) (sort_by (fun k => k) (outs m)).

Fixpoint run_trace (L : limits) (m : mgr) (es : list ev) : list N :=
  match es with
  | [] => []
  | e :: t =>
      let '(m1, os) := step L m e in
      enc_outs os ++ dump m1 ++
      (* a Stuck site is a panic in a debug build: the run ends there *)
      (if stuck_of os =? 0 then run_trace L m1 t else [])
  end.

Definition run_case (l : list N) : list N :=
  match decode_case l with
  | Some (L, es) => 1 :: run_trace L init es
  | None => [0]
  end.

(* ---- trace decoding for the oracles ---- *)
Record obs := mkObs {
  o_calls : list (N * N); o_protos : list N; o_mevs : list (N * (N * N)); o_ret : N; o_stuck : N;
  o_states : list (N * (N * (N * N))); o_known : list N; o_pending : list (N * N);
  o_ins : list N; o_outs : list N
}.
Definition p_obs : parser obs :=
  let* calls := plist (let* t := pN in let* c := pN in pret (t, c)) in
  let* protos := plist pN in
  let* mevs := plist (let* t := pN in let* a := pN in let* b := pN in pret (t, (a, b))) in
  let* r := pN in let* st := pN in
  let* states := plist (let* p := pN in let* t := pN in let* a := pN in let* b := pN in pret (p, (t, (a, b)))) in
  let* kn := plist pN in
  let* pend := plist (let* c := pN in let* p := pN in pret (c, p)) in
  let* i := plist pN in let* o := plist pN in
  pret (mkObs calls protos mevs r st states kn pend i o).

Fixpoint p_trace (n : nat) : parser (list obs) :=
  match n with
  | O => pret []
  | S k => fun l => match l with
                    | [] => Some ([], [])     (* the run ended early at a Stuck site *)
                    | _ => (let* o := p_obs in let* t := p_trace k in pret (o :: t)) l
                    end
  end.

Definition has_call (t c : N) (o : obs) : bool :=
  existsb (fun x : N * N => (fst x =? t) && (snd x =? c)) (o_calls o).
Definition state_tag (o : obs) (p : N) : N :=
  match lookup p (o_states o) with Some (t, _) => t | None => 0 end.

(* the established connections recorded for p: [primary; secondary] *)
Definition est_view (o : obs) (p : N) : list N :=
  match lookup p (o_states o) with
  | Some (4, (a, _)) | Some (6, (a, _)) => [a]
  | Some (5, (a, b)) => [a; b]
  | _ => []
  end.

(* ================= C06 oracle =================
   ghost ledger of established connections, computed from the events of the case and the calls the
   implementation made: a connection is established from the moment the manager calls accept(c)
   for it (successfully) until Closed / a failed accept future. *)
Definition live_t := list (N * (N * bool)).   (* conn -> (peer, listener) *)

Definition count_peer (p : N) (l : live_t) : N :=
  N.of_nat (length (filter (fun x : N * (N * bool) => fst (snd x) =? p) l)).
Definition count_dir (d : bool) (l : live_t) : N :=
  N.of_nat (length (filter (fun x : N * (N * bool) => Bool.eqb (snd (snd x)) d) l)).

Definition live_step (e : ev) (o : obs) (l : live_t) : live_t :=
  match e with
  | TrEstablished p c lst f =>
      if has_call 5 c o && negb f then insert_key c (p, lst) l else l
  | AcceptDone c ok => if ok then l else remove_key c l
  | Closed p c => remove_key c l
  | _ => l
  end.

Definition under (mx : option N) (n : N) : bool := match mx with Some m => n <=? m | None => true end.
Definition strictly_under (mx : option N) (n : N) : bool := match mx with Some m => n <? m | None => true end.

Definition c06_step_ok (L : limits) (prev : option obs) (e : ev) (o : obs) (l l' : live_t) : bool :=
  (* caps after the step *)
  forallb (fun x : N * (N * bool) => count_peer (fst (snd x)) l' <=? 2) l' &&
  under (max_in L) (count_dir true l') && under (max_out L) (count_dir false l') &&
  (* the counted sets never exceed the maxima either *)
  under (max_in L) (N.of_nat (length (o_ins o))) && under (max_out L) (N.of_nat (length (o_outs o))) &&
  match e with
  | TrEstablished p c lst f =>
      (* capacity really is available: a peer without connection is accepted below the limit *)
      if (count_peer p l =? 0) && strictly_under (if lst then max_in L else max_out L) (count_dir lst l)
         && (match prev with Some po => state_tag po p =? 0 | None => true end)
         && negb (existsb (fun x : N * (N * bool) => fst x =? c) l)
         (* not a connection id the manager dialled for a different peer (the transport must not do that) *)
         && (match prev with
             | Some po => match lookup c (o_pending po) with Some q => q =? p | None => true end
             | None => true end)
      then has_call 5 c o
      else true
  | _ => true
  end &&
  (* a rejected surplus connection leaves the established ones untouched *)
  match e with
  | TrEstablished p c lst f =>
      if has_call 6 c o then
        match prev with
        | Some po => nlist_eqb (est_view po p) (est_view o p) || negb (existsb (fun x : N * (N * bool) => fst (snd x) =? p) l)
        | None => true
        end
      else true
  | _ => true
  end.

(* C06 is judged on histories in which connection ids are what the code guarantees them to be:
   unique. The ids of inbound connections were drawn from the shared counter (AllocConn) and are
   used once; the id of an outbound connection is one the manager dialled for that very peer.
   After the first event that breaks this, nothing more is judged. *)
Definition c06_feasible (prev : option obs) (e : ev) (alloc : list N) (l : live_t) (accs : list N) : bool :=
  match e with
  | TrEstablished p c lst _ =>
      negb (existsb (fun x : N * (N * bool) => fst x =? c) l) &&
      if lst then mem c alloc
      else match prev with
           | Some po => match lookup c (o_pending po) with Some q => q =? p | None => false end
           | None => false
           end
  | Closed p c => match lookup c l with Some (q, _) => q =? p | None => true end
  | AcceptDone c _ => mem c accs            (* only an existing accept future can resolve *)
  | _ => true
  end.

Fixpoint c06_ok (L : limits) (prev : option obs) (es : list ev) (tr : list obs) (l : live_t)
         (alloc accs : list N) : bool :=
  match es, tr with
  | _, [] => true
  | e :: es', o :: tr' =>
      if c06_feasible prev e alloc l accs then
        let l' := live_step e o l in
        let alloc' := match e with
                      | AllocConn => if 101 <=? o_ret o then (o_ret o - 101) :: alloc else alloc
                      | TrEstablished _ c true _ => filter (fun y => negb (y =? c)) alloc
                      | _ => alloc end in
        let accs' := match e with
                     | TrEstablished _ c _ f => if has_call 5 c o && negb f then c :: accs else accs
                     | AcceptDone c _ => filter (fun y => negb (y =? c)) accs
                     | _ => accs end in
        c06_step_ok L prev e o l l' && c06_ok L (Some o) es' tr' l' alloc' accs'
      else true
  | [], _ :: _ => false
  end.

(* ================= C05 oracle =================
   attempts: a dial request accepted by the manager = a step returning Ok in which open(c)/dial(c)
   was called. terminal outputs naming c: ConnectionEstablished(_, c) / DialFailure(c) / OpenFailure(c).
   owed: what the transport still has to answer (open -> Opened|OpenFailure unless cancelled;
   negotiate/dial -> Established|DialFailure; accept -> AcceptDone). *)
Record led := mkLed {
  attempts : list (N * N);     (* conn -> peer dialled *)
  terminals : list N;          (* conns named by a terminal output, with multiplicity *)
  owed_open : list N; owed_neg : list N; owed_acc : list N;
  superseded : list N;         (* attempts cancelled because another connection to the peer won *)
  reported : list N;           (* peers for which a ConnectionEstablished was emitted *)
  limit_rejected : list N;     (* outbound attempts rejected by the connection limit when established *)
  allocated : list N           (* ids drawn by transports for inbound sockets, not yet used by an established connection *)
}.
Definition led0 := mkLed [] [] [] [] [] [] [] [] [].

Definition calls_of (t : N) (o : obs) : list N :=
  map snd (filter (fun x : N * N => fst x =? t) (o_calls o)).
Definition removes (xs : list N) (l : list N) : list N := filter (fun y => negb (mem y xs)) l.

Definition led_step (e : ev) (o : obs) (g : led) : led :=
  let ret_ok := o_ret o =? 1 in
  let fails := match e with CmdDialPeer _ f | CmdDialAddr _ f | TrOpened _ f => f
                          | TrEstablished _ _ _ f => f | _ => false end in
  let shape_peer := match e with
                    | CmdDialShape a => match dial_shape LISTEN a with SvTcp p | SvWs p => Some p | _ => None end
                    | _ => None end in
  let new_att := match e with
                 | CmdDialPeer p _ | CmdDialAddr p _ =>
                     if ret_ok then map (fun c => (c, p)) (calls_of 1 o ++ calls_of 2 o) else []
                 | CmdDialShape _ =>
                     match shape_peer with
                     | Some p => if ret_ok then map (fun c => (c, p)) (calls_of 2 o) else []
                     | None => [] end
                 | _ => [] end in
  let terms := map (fun x : N * (N * N) =>
                      match x with (1, (_, c)) => c | (3, (c, _)) => c | (4, (c, _)) => c | (_, (_, c)) => c end)
                   (filter (fun x : N * (N * N) => negb (fst x =? 2)) (o_mevs o)) in
  let answered_open := match e with TrOpened c _ | TrOpenFailure c _ => [c] | _ => [] end in
  let answered_neg := match e with TrDialFailure c _ => [c] | TrEstablished _ c false _ => [c] | _ => [] end in
  let answered_acc := match e with AcceptDone c _ => [c] | _ => [] end in
  let cancelled := calls_of 4 o in
  mkLed (new_att ++ attempts g) (terms ++ terminals g)
        ((if fails then [] else calls_of 1 o) ++ removes (answered_open ++ cancelled) (owed_open g))
        ((if fails then [] else calls_of 2 o ++ calls_of 3 o) ++ removes answered_neg (owed_neg g))
        ((if fails then [] else calls_of 5 o) ++ removes answered_acc (owed_acc g))
        (match e with TrEstablished _ _ _ _ => cancelled | _ => [] end ++ superseded g)
        (map (fun x : N * (N * N) => fst (snd x)) (filter (fun x : N * (N * N) => fst x =? 1) (o_mevs o)) ++ reported g)
        (match e with
         | TrEstablished _ c false _ => if has_call 6 c o then [c] else []
         | _ => [] end ++ limit_rejected g)
        (match e with
         | AllocConn => if 101 <=? o_ret o then [o_ret o - 101] else []
         | _ => [] end ++
         match e with
         | TrEstablished _ c true _ => removes [c] (allocated g)
         | _ => allocated g end).

Definition count_n (x : N) (l : list N) : nat := length (filter (N.eqb x) l).

(* feasible = only events the transport contract allows, all transport calls succeed *)
Definition ev_feasible (e : ev) (g : led) (l : live_t) : bool :=
  match e with
  | CmdDialPeer _ f | CmdDialAddr _ f => negb f
  | CmdAddAddr _ => true
  | TrDialFailure c p => mem c (owed_neg g) && (match lookup c (attempts g) with Some q => q =? p | None => false end)
  | TrOpened c f => negb f && mem c (owed_open g)
  | TrOpenFailure c p => mem c (owed_open g) && (match lookup c (attempts g) with Some q => q =? p | None => false end)
  | TrEstablished p c lst f =>
      negb f &&
      if lst then mem c (allocated g)
      else mem c (owed_neg g) && (match lookup c (attempts g) with Some q => q =? p | None => false end)
  | TrPendingInbound _ => true
  | AcceptDone c ok => ok && mem c (owed_acc g)
  | Closed p c => (match lookup c l with Some (q, _) => q =? p | None => false end) && negb (mem c (owed_acc g))
  | AllocConn => true
  | CmdDialShape _ => true
  end.

Definition quiescent (g : led) : bool :=
  match owed_open g, owed_neg g, owed_acc g with [], [], [] => true | _, _, _ => false end.

(* what must hold at a quiescent point: every attempt concluded, nobody is wedged *)
Definition c05_quiescent_ok (o : obs) (g : led) : bool :=
  forallb (fun a : N * N =>
             let c := fst a in
             (Nat.eqb (count_n c (terminals g)) 1) ||
             (mem c (superseded g) && mem (snd a) (reported g))) (attempts g) &&
  forallb (fun s : N * (N * (N * N)) =>
             let t := fst (snd s) in (t =? 0) || (t =? 4) || (t =? 5)) (o_states o).

Definition c05_step_ok (L : limits) (prev : option obs) (e : ev) (o : obs) (g' : led) : bool :=
  (* never two terminal outputs for one attempt *)
  forallb (fun c => Nat.leb (count_n c (terminals g')) 1) (terminals g') &&
  (* no panic / debug assertion on a feasible history *)
  (o_stuck o =? 0) &&
  (* a malformed / unsupported address is refused with an error: nothing is called, no peer state changes *)
  match e, prev with
  | CmdDialShape a, Some po =>
      match dial_shape LISTEN a with
      | SvTcp _ => true
      | v => (match o_calls o with [] => true | _ => false end) &&
             (match v with SvRefuse _ => negb (o_ret o =? 1) | _ => true end) &&
             list_eqb (fun x y : N * (N * (N * N)) =>
                         (fst x =? fst y) && (fst (snd x) =? fst (snd y)) &&
                         (fst (snd (snd x)) =? fst (snd (snd y))) && (snd (snd (snd x)) =? snd (snd (snd y))))
                      (o_states po) (o_states o) &&
             list_eqb (fun x y : N * N => (fst x =? fst y) && (snd x =? snd y)) (o_pending po) (o_pending o)
      end
  | _, _ => true
  end &&
  (* a dial of a disconnected, known peer below the limit is really attempted *)
  match e, prev with
  | CmdDialPeer p false, Some po =>
      if (state_tag po p =? 0) && mem p (o_known po) && negb (p =? LOCAL) &&
         strictly_under (max_out L) (N.of_nat (length (o_outs po)))
      then (match calls_of 1 o with [_] => true | _ => false end) && (o_ret o =? 1)
      else true
  | _, _ => true
  end.

Fixpoint c05_ok (L : limits) (prev : option obs) (es : list ev) (tr : list obs)
         (g : led) (l : live_t) (feas : bool) : bool :=
  match es, tr with
  | _, [] => true
  | e :: es', o :: tr' =>
      let feas' := feas && ev_feasible e g l in
      let g' := led_step e o g in
      let l' := live_step e o l in
      (if feas' then c05_step_ok L prev e o g' && (if quiescent g' then c05_quiescent_ok o g' else true)
       else true) &&
      c05_ok L (Some o) es' tr' g' l' feas'
  | [], _ :: _ => false
  end.

Definition decode_trace (n : nat) (trace : list N) : option (list obs) :=
  match trace with
  | 1 :: body => pall (p_trace n) body
  | _ => None
  end.

Definition prop_ok_C06 (case trace : list N) : bool :=
  match decode_case case with
  | Some (L, es) =>
      match decode_trace (length es) trace with
      | Some tr => c06_ok L None es tr [] [] []
      | None => false
      end
  | None => match trace with [0] => true | _ => false end
  end.

Definition prop_ok_C05 (case trace : list N) : bool :=
  match decode_case case with
  | Some (L, es) =>
      match decode_trace (length es) trace with
      | Some tr => c05_ok L None es tr led0 [] true
      | None => false
      end
  | None => match trace with [0] => true | _ => false end
  end.

(* Known-finding class 1 (C05): the only failing attempts are outbound connections that were
   rejected by the connection limit at establishment time — they end without any report. *)
Fixpoint c05_known_scan (L : limits) (prev : option obs) (es : list ev) (tr : list obs)
         (g : led) (l : live_t) (feas : bool) : bool :=
  match es, tr with
  | _, [] => true
  | e :: es', o :: tr' =>
      let feas' := feas && ev_feasible e g l in
      let g' := led_step e o g in
      let l' := live_step e o l in
      (if feas' then
         c05_step_ok L prev e o g' &&
         (if quiescent g' then
            c05_quiescent_ok o (mkLed (filter (fun a : N * N => negb (mem (fst a) (limit_rejected g'))) (attempts g'))
                                      (terminals g') [] [] [] (superseded g') (reported g') [] [])
          else true)
       else true) &&
      c05_known_scan L (Some o) es' tr' g' l' feas'
  | [], _ :: _ => false
  end.

Definition known_class_C05 (case trace : list N) : N :=
  match decode_case case with
  | Some (L, es) =>
      match decode_trace (length es) trace with
      | Some tr => if c05_known_scan L None es tr led0 [] true then 1 else 0
      | None => 0
      end
  | None => 0
  end.
