(* Mgr — wire format, model runner, and the trace oracles for C05 and C06. Definitions only. *)
From Coq Require Import List NArith Bool.
From V.common Require Import Wire.
From V.C10 Require Glue.
From V.Mgr Require Import DialShape Model.
Import ListNotations.
Open Scope N_scope.

(* transports on the wire: 0 = TCP, 1 = WebSocket *)
Definition p_tr : parser tr := let* t := pN in if t <? 2 then pret t else pfail.
Definition p_trs : parser (list tr) := V.C10.Glue.plistb 3 p_tr.

Definition p_ev : parser ev :=
  let* tag := pN in
  match tag with
  | 0 => let* p := pN in let* ts := p_trs in let* fl := p_trs in pret (CmdDialPeer p ts fl)
  | 1 => let* p := pN in let* t := p_tr in let* f := pBool in pret (CmdDialAddr p t f)
  | 2 => let* p := pN in let* t := p_tr in pret (CmdAddAddr p t)
  | 3 => let* c := pN in let* t := p_tr in let* p := pN in pret (TrDialFailure c t p)
  | 4 => let* c := pN in let* t := p_tr in let* f := pBool in pret (TrOpened c t f)
  | 5 => let* c := pN in let* t := p_tr in let* p := pN in pret (TrOpenFailure c t p)
  | 6 => let* p := pN in let* c := pN in let* t := p_tr in let* l := pBool in let* f := pBool in
         pret (TrEstablished p c t l f)
  | 7 => let* c := pN in let* t := p_tr in pret (TrPendingInbound c t)
  | 8 => let* c := pN in let* ok := pBool in pret (AcceptDone c ok)
  | 9 => let* p := pN in let* c := pN in pret (Closed p c)
  | 10 => pret AllocConn
  | 11 => let* a := V.C10.Glue.p_maddr in pret (CmdDialShape a)
  | 12 => let* p := pN in let* ts := p_trs in let* fl := p_trs in pret (HDialPeer p ts fl false)
  | 13 => let* a := V.C10.Glue.p_maddr in pret (HDialAddr a false)
  | _ => pfail
  end.

(* installed transports as a bitmask: 1 = TCP, 2 = WebSocket *)
Definition inst_of_mask (k : N) : list tr :=
  (if N.testbit k 0 then [TCP] else []) ++ (if N.testbit k 1 then [WS] else []).

Definition decode_case (l : list N) : option (limits * list ev) :=
  pall (let* mi := pN in let* mo := pN in let* k := pN in let* es := plist p_ev in
        if k <? 4 then pret (mkLimits (dec_opt mi) (dec_opt mo) (inst_of_mask k), es) else pfail) l.

(* ---- outputs: grouped by channel (calls, protocol notifications, manager events, return code,
        stuck). Calls: what each transport saw, in its order (transport 0 first, then 1): the
        relative order of calls on different transports is not observable ---- *)
Definition enc_call (o : out) : list N :=
  match o with
  | CallOpen c t => [1; c; t] | CallDial c t => [2; c; t] | CallNegotiate c t => [3; c; t]
  | CallCancel c t => [4; c; t]
  | CallAccept c t => [5; c; t] | CallReject c t => [6; c; t] | CallAcceptPending c t => [7; c; t]
  | CallRejectPending c t => [8; c; t]
  | _ => []
  end.
Definition call_tr (o : out) : option tr :=
  match o with
  | CallOpen _ t | CallDial _ t | CallNegotiate _ t | CallCancel _ t | CallAccept _ t | CallReject _ t
  | CallAcceptPending _ t | CallRejectPending _ t => Some t
  | _ => None
  end.
Definition is_call_on (t : tr) (o : out) : bool :=
  match call_tr o with Some u => u =? t | None => false end.
Definition is_proto (o : out) : bool := match o with ProtoDialFailure _ => true | _ => false end.
Definition is_mev (o : out) : bool :=
  match o with EvEstablished _ _ | EvClosed _ _ | EvDialFailure _ _ | EvOpenFailure _ _ => true | _ => false end.
Definition enc_proto (o : out) : list N := match o with ProtoDialFailure p => [p] | _ => [] end.
Definition enc_mev (o : out) : list N :=
  match o with
  | EvEstablished p c => [1; p; c] | EvClosed p c => [2; p; c]
  | EvDialFailure c p => [3; c; p] | EvOpenFailure c n => [4; c; n]
  | _ => []
  end.
Definition ret_of (os : list out) : N :=
  fold_right (fun o acc => match o with Ret r => r + 1 | _ => acc end) 0 os.
Definition stuck_of (os : list out) : N :=
  fold_right (fun o acc => match o with Stuck s => s | _ => acc end) 0 os.

Definition enc_outs (os : list out) : list N :=
  enc_list enc_call (filter (is_call_on TCP) os ++ filter (is_call_on WS) os) ++
  enc_list enc_proto (filter is_proto os) ++
  enc_list enc_mev (filter is_mev os) ++ [ret_of os; if stuck_of os =? 0 then 0 else 1].

Definition tr_mask (ts : list tr) : N :=
  (if mem TCP ts then 1 else 0) + (if mem WS ts then 2 else 0).

Definition enc_pstate (s : pstate) : list N :=
  match s with
  | Disconnected None => [0; 0; 0]
  | Disconnected (Some c) => [1; c; 0]
  | Dialing c => [2; c; 0]
  | Opening c ts => [3; c; tr_mask ts]
  | Connected c None => [4; c; 0]
  | Connected c (Some (SecEst d)) => [5; c; d]
  | Connected c (Some (SecDial d)) => [6; c; d]
  end.
Definition is_default (s : pstate) : bool := match s with Disconnected None => true | _ => false end.

Definition count_kind (t : tr) (l : list maddr) : N :=
  N.of_nat (length (filter (fun a => kind_of a =? t) l)).

Definition dump (m : mgr) : list N :=
  enc_list (fun kp : N * pstate => fst kp :: enc_pstate (snd kp))
           (sort_by fst (filter (fun kp => negb (is_default (snd kp)))
                                (fold_right (fun kp acc => if existsb (fun q : N * pstate => fst q =? fst kp) acc then acc else acc ++ [kp])
                                            [] (rev (peers m))))) ++
  (* the address book: per peer the number of stored addresses routed to TCP / to WebSocket *)
  enc_list (fun kl : N * list maddr => [fst kl; count_kind TCP (snd kl); count_kind WS (snd kl)])
           (sort_by fst (filter (fun kl : N * list maddr => negb (is_nil (snd kl))) (known m))) ++
  enc_list (fun cp : N * N => [fst cp; snd cp]) (sort_by fst (pending m)) ++
  enc_list (fun k => [k]) (sort_by (fun k => k) (ins m)) ++
  enc_list (fun k => [k]) (sort_by (fun k => k) (outs m)) ++
  enc_list (fun cn : N * N => [fst cn; snd cn]) (sort_by fst (oerrs m)).

Fixpoint run_trace (L : limits) (m : mgr) (es : list ev) : list N :=
  match es with
  | [] => []
  | e :: t =>
      let '(m1, os) := step L m e in
      enc_outs os ++ dump m1 ++
      (* a Stuck site is a panic in a debug build: the run ends there *)
      (if stuck_of os =? 0 then run_trace L m1 t else [])
  end.

Definition run_case (l : list N) : list N :=
  match decode_case l with
  | Some (L, es) => 1 :: run_trace L init es
  | None => [0]
  end.

(* ---- trace decoding for the oracles ---- *)
Record obs := mkObs {
  o_calls : list (N * (N * N));          (* (kind, (conn, transport)) *)
  o_protos : list N; o_mevs : list (N * (N * N)); o_ret : N; o_stuck : N;
  o_states : list (N * (N * (N * N)));
  o_known : list (N * (N * N));          (* peer -> (#tcp addresses, #ws addresses) *)
  o_pending : list (N * N);
  o_ins : list N; o_outs : list N;
  o_oerrs : list (N * N)
}.
Definition obs0 : obs := mkObs [] [] [] 0 0 [] [] [] [] [] [].

Definition p_obs : parser obs :=
  let* calls := plist (let* k := pN in let* c := pN in let* t := pN in pret (k, (c, t))) in
  let* protos := plist pN in
  let* mevs := plist (let* t := pN in let* a := pN in let* b := pN in pret (t, (a, b))) in
  let* r := pN in let* st := pN in
  let* states := plist (let* p := pN in let* t := pN in let* a := pN in let* b := pN in pret (p, (t, (a, b)))) in
  let* kn := plist (let* p := pN in let* a := pN in let* b := pN in pret (p, (a, b))) in
  let* pend := plist (let* c := pN in let* p := pN in pret (c, p)) in
  let* i := plist pN in let* o := plist pN in
  let* oe := plist (let* c := pN in let* n := pN in pret (c, n)) in
  pret (mkObs calls protos mevs r st states kn pend i o oe).

Fixpoint p_trace (n : nat) : parser (list obs) :=
  match n with
  | O => pret []
  | S k => fun l => match l with
                    | [] => Some ([], [])     (* the run ended early at a Stuck site *)
                    | _ => (let* o := p_obs in let* t := p_trace k in pret (o :: t)) l
                    end
  end.

Definition has_call (k c : N) (o : obs) : bool :=
  existsb (fun x : N * (N * N) => (fst x =? k) && (fst (snd x) =? c)) (o_calls o).
Definition state_tag (o : obs) (p : N) : N :=
  match lookup p (o_states o) with Some (t, _) => t | None => 0 end.

(* the established connections recorded for p: [primary; secondary] *)
Definition est_view (o : obs) (p : N) : list N :=
  match lookup p (o_states o) with
  | Some (4, (a, _)) | Some (6, (a, _)) => [a]
  | Some (5, (a, b)) => [a; b]
  | _ => []
  end.

(* events of a transport that is not installed cannot happen *)
Definition ev_live (L : limits) (e : ev) : bool :=
  match e with
  | TrDialFailure _ t _ | TrOpened _ t _ | TrOpenFailure _ t _ | TrEstablished _ _ t _ _
  | TrPendingInbound _ t => installed L t
  | _ => true
  end.

(* ================= C06 oracle =================
   ghost ledger of established connections, computed from the events of the case and the calls the
   implementation made: a connection is established from the moment the manager calls accept(c)
   for it (successfully) until Closed / a failed accept future. *)
Definition live_t := list (N * (N * bool)).   (* conn -> (peer, listener) *)

Definition count_peer (p : N) (l : live_t) : N :=
  N.of_nat (length (filter (fun x : N * (N * bool) => fst (snd x) =? p) l)).
Definition count_dir (d : bool) (l : live_t) : N :=
  N.of_nat (length (filter (fun x : N * (N * bool) => Bool.eqb (snd (snd x)) d) l)).

Definition live_step (e : ev) (o : obs) (l : live_t) : live_t :=
  match e with
  | TrEstablished p c _ lst f =>
      if has_call 5 c o && negb f then insert_key c (p, lst) l else l
  | AcceptDone c ok => if ok then l else remove_key c l
  | Closed p c => remove_key c l
  | _ => l
  end.

Definition under (mx : option N) (n : N) : bool := match mx with Some m => n <=? m | None => true end.
Definition strictly_under (mx : option N) (n : N) : bool := match mx with Some m => n <? m | None => true end.

Definition c06_step_ok (L : limits) (prev : option obs) (e : ev) (o : obs) (l l' : live_t) : bool :=
  (* caps after the step *)
  forallb (fun x : N * (N * bool) => count_peer (fst (snd x)) l' <=? 2) l' &&
  under (max_in L) (count_dir true l') && under (max_out L) (count_dir false l') &&
  (* the counted sets never exceed the maxima either *)
  under (max_in L) (N.of_nat (length (o_ins o))) && under (max_out L) (N.of_nat (length (o_outs o))) &&
  (* no leaked capacity (C06_counted_are_live on the implementation's own dump): every counted id
     is an established connection of the ledger, of the right direction *)
  forallb (fun c => match lookup c l' with Some (_, lst) => lst | None => false end) (o_ins o) &&
  forallb (fun c => match lookup c l' with Some (_, lst) => negb lst | None => false end) (o_outs o) &&
  match e with
  | TrEstablished p c t lst f =>
      (* capacity really is available: a peer without connection is accepted below the limit *)
      if (count_peer p l =? 0) && strictly_under (if lst then max_in L else max_out L) (count_dir lst l)
         && (match prev with Some po => state_tag po p =? 0 | None => true end)
         && negb (existsb (fun x : N * (N * bool) => fst x =? c) l)
         (* not a connection id the manager dialled for a different peer (the transport must not do that) *)
         && (match prev with
             | Some po => match lookup c (o_pending po) with Some q => q =? p | None => true end
             | None => true end)
      then has_call 5 c o
      else true
  | _ => true
  end &&
  (* a rejected surplus connection leaves the established ones untouched *)
  match e with
  | TrEstablished p c t lst f =>
      if has_call 6 c o then
        match prev with
        | Some po => nlist_eqb (est_view po p) (est_view o p) || negb (existsb (fun x : N * (N * bool) => fst (snd x) =? p) l)
        | None => true
        end
      else true
  | _ => true
  end.

(* C06 is judged on histories in which connection ids are what the code guarantees them to be:
   unique. The ids of inbound connections were drawn from the shared counter (AllocConn) and are
   used once; the id of an outbound connection is one the manager dialled for that very peer.
   After the first event that breaks this, nothing more is judged. *)
Definition c06_feasible (L : limits) (prev : option obs) (e : ev) (alloc : list N) (l : live_t) (accs : list N) : bool :=
  ev_live L e &&
  match e with
  | TrEstablished p c _ lst _ =>
      negb (existsb (fun x : N * (N * bool) => fst x =? c) l) &&
      if lst then mem c alloc
      else match prev with
           | Some po => match lookup c (o_pending po) with Some q => q =? p | None => false end
           | None => false
           end
  | Closed p c => match lookup c l with Some (q, _) => q =? p | None => true end
  | AcceptDone c _ => mem c accs            (* only an existing accept future can resolve *)
  | _ => true
  end.

Fixpoint c06_ok (L : limits) (prev : option obs) (es : list ev) (tr : list obs) (l : live_t)
         (alloc accs : list N) : bool :=
  match es, tr with
  | _, [] => true
  | e :: es', o :: tr' =>
      if c06_feasible L prev e alloc l accs then
        let l' := live_step e o l in
        let alloc' := match e with
                      | AllocConn => if 101 <=? o_ret o then (o_ret o - 101) :: alloc else alloc
                      | TrEstablished _ c _ true _ => filter (fun y => negb (y =? c)) alloc
                      | _ => alloc end in
        let accs' := match e with
                     | TrEstablished _ c _ _ f => if has_call 5 c o && negb f then c :: accs else accs
                     | AcceptDone c _ => filter (fun y => negb (y =? c)) accs
                     | _ => accs end in
        c06_step_ok L prev e o l l' && c06_ok L (Some o) es' tr' l' alloc' accs'
      else true
  | [], _ :: _ => false
  end.

(* ================= C05 oracle =================
   attempts: a dial request accepted by the manager = a step returning Ok in which open(c)/dial(c)
   was called (on one or several transports). terminal outputs naming c:
   ConnectionEstablished(_, c) / DialFailure(c) / OpenFailure(c).
   owed: what the transports still have to answer (open on transport t -> Opened|OpenFailure from t
   unless cancelled on t; negotiate/dial -> Established|DialFailure; accept -> AcceptDone). *)
Record led := mkLed {
  attempts : list (N * N);     (* conn -> peer dialled *)
  terminals : list N;          (* conns named by a terminal output, with multiplicity *)
  owed_open : list (N * N);    (* (conn, transport) *)
  owed_neg : list N; owed_acc : list N;
  superseded : list N;         (* attempts cancelled because another connection to the peer won *)
  reported : list N;           (* peers for which a ConnectionEstablished was emitted *)
  limit_rejected : list N;     (* outbound attempts rejected by the connection limit when established *)
  allocated : list N;          (* ids drawn by transports for inbound sockets, not yet used by an established connection *)
  silent_known : list N;       (* requests the handle accepted (Ok) and the manager then refused for the
                                  connection limit / an address check: known finding class 2 *)
  silent_bad : list N;         (* requests the handle accepted that led to nothing for no such reason *)
  fail_log : list N;           (* connection ids of the OpenFailure events so far (one failed address each) *)
  acc_failed : list N;         (* connections the transport could not start: accept() returned Err, or the
                                  accept future resolved to Err (the protocols never saw them) *)
  accf_peers : list N          (* the peers of those connections *)
}.
Definition led0 := mkLed [] [] [] [] [] [] [] [] [] [] [] [] [] [].

Definition calls_of (k : N) (o : obs) : list N :=
  map (fun x : N * (N * N) => fst (snd x)) (filter (fun x : N * (N * N) => fst x =? k) (o_calls o)).
Definition call_pairs (k : N) (o : obs) : list (N * N) :=
  map snd (filter (fun x : N * (N * N) => fst x =? k) (o_calls o)).
Definition removes (xs : list N) (l : list N) : list N := filter (fun y => negb (mem y xs)) l.
Definition pair_eqb (a b : N * N) : bool := (fst a =? fst b) && (snd a =? snd b).
Definition mem_pair (x : N * N) (l : list (N * N)) : bool := existsb (pair_eqb x) l.
Definition removes_pairs (xs l : list (N * N)) : list (N * N) := filter (fun y => negb (mem_pair y xs)) l.
Fixpoint dedup (l : list N) : list N :=
  match l with [] => [] | x :: t => if mem x t then dedup t else x :: dedup t end.

Definition pobs (prev : option obs) : obs := match prev with Some o => o | None => obs0 end.

(* the peer a dial request names *)
Definition shape_target (L : limits) (a : maddr) : option N :=
  match dial_shape LISTEN a with
  | SvTcp p => if installed L TCP then Some p else None
  | SvWs p => if installed L WS then Some p else None
  | SvRefuse _ => None
  end.
Definition dial_target (L : limits) (e : ev) : option N :=
  match e with
  | CmdDialPeer p _ _ | HDialPeer p _ _ _ => Some p
  | CmdDialAddr p t _ => shape_target L (canon p t)
  | CmdDialShape a | HDialAddr a _ => shape_target L a
  | _ => None
  end.
Definition is_handle_ev (e : ev) : bool := match e with HDialPeer _ _ _ _ | HDialAddr _ _ => true | _ => false end.

Definition led_step (L : limits) (prev : option obs) (e : ev) (o : obs) (g : led) (l : live_t) : led :=
  let po := pobs prev in
  let ret_ok := o_ret o =? 1 in
  let fails := match e with
               | CmdDialPeer _ _ fl | HDialPeer _ _ fl _ => negb (is_nil fl)
               | CmdDialAddr _ _ f | TrOpened _ _ f | TrEstablished _ _ _ _ f => f
               | _ => false end in
  let new_att := match dial_target L e with
                 | Some p => if ret_ok then map (fun c => (c, p)) (dedup (calls_of 1 o ++ calls_of 2 o)) else []
                 | None => [] end in
  let terms := map (fun x : N * (N * N) =>
                      match x with (1, (_, c)) => c | (3, (c, _)) => c | (4, (c, _)) => c | (_, (_, c)) => c end)
                   (filter (fun x : N * (N * N) => negb (fst x =? 2)) (o_mevs o)) in
  let answered_open := match e with TrOpened c t _ | TrOpenFailure c t _ => [(c, t)] | _ => [] end in
  let answered_neg := match e with TrDialFailure c _ _ => [c] | TrEstablished _ c _ false _ => [c] | _ => [] end in
  let answered_acc := match e with AcceptDone c _ => [c] | _ => [] end in
  let cancelled := call_pairs 4 o in
  (* a request the handle accepted with Ok: an attempt is started now, or one is in progress /
     the peer is connected already; otherwise nothing will ever be reported for it *)
  let silent := if is_handle_ev e && ret_ok && is_nil (calls_of 1 o ++ calls_of 2 o) then
                  match dial_target L e with
                  | Some p => if state_tag po p =? 0 then [p] else []
                  | None => [0]
                  end
                else [] in
  let excused := negb (strictly_under (max_out L) (N.of_nat (length (o_outs po)))) ||
                 match e, dial_target L e with HDialAddr _ _, None => true | _, _ => false end in
  mkLed (new_att ++ attempts g) (terms ++ terminals g)
        ((if fails then [] else call_pairs 1 o) ++ removes_pairs (answered_open ++ cancelled) (owed_open g))
        ((if fails then [] else calls_of 2 o ++ calls_of 3 o) ++ removes answered_neg (owed_neg g))
        ((if fails then [] else calls_of 5 o) ++ removes answered_acc (owed_acc g))
        (match e with TrEstablished _ _ _ _ _ => dedup (map fst cancelled) | _ => [] end ++ superseded g)
        (map (fun x : N * (N * N) => fst (snd x)) (filter (fun x : N * (N * N) => fst x =? 1) (o_mevs o)) ++ reported g)
        (match e with
         | TrEstablished _ c _ false _ => if has_call 6 c o then [c] else []
         | _ => [] end ++ limit_rejected g)
        (match e with
         | AllocConn => if 101 <=? o_ret o then [o_ret o - 101] else []
         | _ => [] end ++
         match e with
         | TrEstablished _ c _ true _ => removes [c] (allocated g)
         | _ => allocated g end)
        ((if excused then silent else []) ++ silent_known g)
        ((if excused then [] else silent) ++ silent_bad g)
        (match e with TrOpenFailure c _ _ => [c] | _ => [] end ++ fail_log g)
        (match e with
         | TrEstablished _ c _ _ true => if has_call 5 c o then [c] else []
         | AcceptDone c false => if mem c (owed_acc g) then [c] else []
         | _ => [] end ++ acc_failed g)
        (match e with
         | TrEstablished p c _ _ true => if has_call 5 c o then [p] else []
         | AcceptDone c false =>
             if mem c (owed_acc g) then match lookup c l with Some (p, _) => [p] | None => [] end else []
         | _ => [] end ++ accf_peers g).

Definition count_n (x : N) (l : list N) : nat := length (filter (N.eqb x) l).

(* feasible = only events the transport contract allows, the open / dial / negotiate calls succeed.
   A transport that cannot START a connection the manager accepted (accept() returns Err, or the
   accept future resolves to Err because a protocol could not be told) is an ordinary event: the
   attempt it ends is excused from the never-silence clause (acc_failed), everything else — and in
   particular "the peer is not wedged" — is judged across it. *)
Definition ev_feasible (L : limits) (e : ev) (g : led) (l : live_t) : bool :=
  ev_live L e &&
  match e with
  | CmdDialPeer _ _ fl | HDialPeer _ _ fl _ => is_nil fl
  | CmdDialAddr _ _ f => negb f
  | CmdAddAddr _ _ => true
  | TrDialFailure c _ p => mem c (owed_neg g) && (match lookup c (attempts g) with Some q => q =? p | None => false end)
  | TrOpened c t f => negb f && mem_pair (c, t) (owed_open g)
  | TrOpenFailure c t p => mem_pair (c, t) (owed_open g) && (match lookup c (attempts g) with Some q => q =? p | None => false end)
  | TrEstablished p c _ lst f =>
      if lst then mem c (allocated g)
      else mem c (owed_neg g) && (match lookup c (attempts g) with Some q => q =? p | None => false end)
  | TrPendingInbound _ _ => true
  | AcceptDone c ok => mem c (owed_acc g)
  | Closed p c => (match lookup c l with Some (q, _) => q =? p | None => false end) && negb (mem c (owed_acc g))
  | AllocConn => true
  | CmdDialShape _ => true
  | HDialAddr _ _ => true
  end.

Definition quiescent (g : led) : bool :=
  match owed_open g, owed_neg g, owed_acc g with [], [], [] => true | _, _, _ => false end.

(* what must hold at a quiescent point: every attempt concluded, nobody is wedged *)
Definition c05_quiescent_ok (o : obs) (g : led) : bool :=
  forallb (fun a : N * N =>
             let c := fst a in
             (Nat.eqb (count_n c (terminals g)) 1) ||
             (mem c (superseded g) && mem (snd a) (reported g)) ||
             (* the connection of this attempt, or the connection that superseded it, was accepted by
                the manager and could then not be started by the transport *)
             (Nat.eqb (count_n c (terminals g)) 0 && mem c (acc_failed g)) ||
             (mem c (superseded g) && mem (snd a) (accf_peers g))) (attempts g) &&
  forallb (fun s : N * (N * (N * N)) =>
             let t := fst (snd s) in (t =? 0) || (t =? 4) || (t =? 5)) (o_states o).

(* the transports a dial(peer) may span, judged on the implementation's own observations:
   po = before the step (address book, counted outbound connections), mask = the transport set of
   the Opening state it created *)
Definition mask_list (k : N) : list tr := inst_of_mask k.
Definition choice_ok_obs (L : limits) (po : obs) (p : N) (mask : N) : bool :=
  let '(nt, nw) := match lookup p (o_known po) with Some x => x | None => (0, 0) end in
  let ks := (if 0 <? nt then [TCP] else []) ++ (if 0 <? nw then [WS] else []) in
  let ts := mask_list mask in
  negb (is_nil ts) && (mask <? 4) && subset ts ks &&
  match max_out L with
  | None => subset ks ts
  | Some mx =>
      let k := mx - N.of_nat (length (o_outs po)) in
      (N.of_nat (length ts) <=? k) && (if nt + nw <=? k then subset ks ts else true)
  end.

(* ---- wedging judged from ground truth: the ledger recomputed from the events, never the
   implementation's own peer state ----
   in flight: an accepted attempt for p that a transport still owes an answer for;
   idle: the recomputed ledger holds NO live connection of p (every connection that was established
   either failed its accept or was closed) and no dial is in flight. *)
Definition in_flight (g : led) (p : N) : bool :=
  existsb (fun a : N * N =>
             (snd a =? p) &&
             (existsb (fun y : N * N => fst y =? fst a) (owed_open g) || mem (fst a) (owed_neg g)))
          (attempts g).
Definition idle (g : led) (l : live_t) (p : N) : bool := (count_peer p l =? 0) && negb (in_flight g p).

(* after every step: a peer that is idle by ground truth is recorded as plainly disconnected (the
   dump lists the non-default states only), and every connection the implementation records as
   established for a peer is a live connection of that peer in the recomputed ledger *)
Definition c05_wedge_ok (o : obs) (g' : led) (l' : live_t) : bool :=
  forallb (fun s : N * (N * (N * N)) => negb (idle g' l' (fst s))) (o_states o) &&
  forallb (fun s : N * (N * (N * N)) =>
             forallb (fun c => match lookup c l' with Some (q, _) => q =? fst s | None => false end)
                     (est_view o (fst s))) (o_states o).

Definition same_states (po o : obs) : bool :=
  list_eqb (fun x y : N * (N * (N * N)) =>
              (fst x =? fst y) && (fst (snd x) =? fst (snd y)) &&
              (fst (snd (snd x)) =? fst (snd (snd y))) && (snd (snd (snd x)) =? snd (snd (snd y))))
           (o_states po) (o_states o) &&
  list_eqb (fun x y : N * N => (fst x =? fst y) && (snd x =? snd y)) (o_pending po) (o_pending o).

Definition c05_step_ok (L : limits) (prev : option obs) (e : ev) (o : obs) (g : led) (l : live_t)
           (g' : led) (l' : live_t) : bool :=
  let po := pobs prev in
  (* dialable: the implementation says so, or the ground truth says so *)
  let free := fun p => (state_tag po p =? 0) || idle g l p in
  c05_wedge_ok o g' l' &&
  (* never two terminal outputs for one attempt *)
  forallb (fun c => Nat.leb (count_n c (terminals g')) 1) (terminals g') &&
  (* no panic / debug assertion on a feasible history *)
  (o_stuck o =? 0) &&
  (* a failure is reported only for an attempt that has really ended: nothing is owed for it any more
     (with several transports: not before the last of them has failed) *)
  forallb (fun x : N * (N * N) =>
             if (fst x =? 3) || (fst x =? 4)
             then negb (existsb (fun y : N * N => fst y =? fst (snd x)) (owed_open g')) &&
                  negb (mem (fst (snd x)) (owed_neg g'))
             else true) (o_mevs o) &&
  (* an OpenFailure report names every address that failed for the attempt: all transports' errors,
     not only those of the last one *)
  forallb (fun x : N * (N * N) =>
             if fst x =? 4 then snd (snd x) =? N.of_nat (count_n (fst (snd x)) (fail_log g')) else true) (o_mevs o) &&
  (* a request accepted by the handle is not dropped *)
  is_nil (silent_known g') && is_nil (silent_bad g') &&
  (* a malformed / unsupported address is refused with an error: nothing is called, no peer state changes *)
  match e with
  | CmdDialShape a | HDialAddr a _ =>
      match shape_target L a with
      | Some _ => true
      | None => is_nil (o_calls o) && same_states po o &&
                match e, dial_shape LISTEN a with
                | CmdDialShape _, _ => negb (o_ret o =? 1)
                | _, _ => true
                end
      end
  | _ => true
  end &&
  (* a dial of a disconnected, known peer below the limit is really attempted: open is called on a
     non-empty set of transports which is one the address book allows, and the peer waits for
     exactly the transports that were asked *)
  match e with
  | CmdDialPeer p _ [] | HDialPeer p _ [] _ =>
      let known := match lookup p (o_known po) with Some (a, b) => 0 <? a + b | None => false end in
      if free p && known && negb (p =? LOCAL) &&
         strictly_under (max_out L) (N.of_nat (length (o_outs po)))
      then (o_ret o =? 1) &&
           match lookup p (o_states o) with
           | Some (3, (c, mask)) =>
               choice_ok_obs L po p mask &&
               (tr_mask (map snd (filter (fun y : N * N => fst y =? c) (call_pairs 1 o))) =? mask) &&
               nlist_eqb (dedup (calls_of 1 o)) [c]
           | _ => false
           end
      else true
  | _ => true
  end &&
  (* likewise a dial by address of a disconnected peer below the limit *)
  match e with
  | CmdDialAddr _ _ false | CmdDialShape _ | HDialAddr _ _ =>
      match dial_target L e with
      | Some p =>
          if free p && strictly_under (max_out L) (N.of_nat (length (o_outs po)))
          then (o_ret o =? 1) && (match calls_of 2 o with [_] => true | _ => false end)
          else true
      | None => true
      end
  | _ => true
  end.

Fixpoint c05_ok (ex1 ex2 : bool) (L : limits) (prev : option obs) (es : list ev) (tr : list obs)
         (g : led) (l : live_t) (feas : bool) : bool :=
  match es, tr with
  | _, [] => true
  | e :: es', o :: tr' =>
      let feas' := feas && ev_feasible L e g l in
      let g0 := led_step L prev e o g l in
      (* ex2: requests of known finding class 2 are not judged *)
      let g' := if ex2 then mkLed (attempts g0) (terminals g0) (owed_open g0) (owed_neg g0) (owed_acc g0)
                                  (superseded g0) (reported g0) (limit_rejected g0) (allocated g0) [] (silent_bad g0)
                                  (fail_log g0) (acc_failed g0) (accf_peers g0)
                else g0 in
      let l' := live_step e o l in
      (if feas' then
         c05_step_ok L prev e o g l g' l' &&
         (if quiescent g' then
            (* ex1: attempts of known finding class 1 are not judged *)
            c05_quiescent_ok o (if ex1
                                then mkLed (filter (fun a : N * N => negb (mem (fst a) (limit_rejected g'))) (attempts g'))
                                           (terminals g') [] [] [] (superseded g') (reported g') [] [] [] [] []
                                           (acc_failed g') (accf_peers g')
                                else g')
          else true)
       else true) &&
      c05_ok ex1 ex2 L (Some o) es' tr' g' l' feas'
  | [], _ :: _ => false
  end.

Definition decode_trace (n : nat) (trace : list N) : option (list obs) :=
  match trace with
  | 1 :: body => pall (p_trace n) body
  | _ => None
  end.

Definition prop_ok_C06 (case trace : list N) : bool :=
  match decode_case case with
  | Some (L, es) =>
      match decode_trace (length es) trace with
      | Some tr => c06_ok L None es tr [] [] []
      | None => false
      end
  | None => match trace with [0] => true | _ => false end
  end.

Definition prop_ok_C05 (case trace : list N) : bool :=
  match decode_case case with
  | Some (L, es) =>
      match decode_trace (length es) trace with
      | Some tr => c05_ok false false L None es tr led0 [] true
      | None => false
      end
  | None => match trace with [0] => true | _ => false end
  end.

(* Known-finding class 1 (C05): the only failing attempts are outbound connections that were
   rejected by the connection limit at establishment time — they end without any report.
   Known-finding class 2 (C05): the only failing requests are requests TransportManagerHandle
   accepted with Ok(()) which the manager then refused because of the outbound connection limit or
   (dial_address) an address check — the refusal is only logged. A trace that needs both
   exclusions is reported as class 2. *)
Definition known_class_C05 (case trace : list N) : N :=
  match decode_case case with
  | Some (L, es) =>
      match decode_trace (length es) trace with
      | Some tr =>
          if c05_ok true false L None es tr led0 [] true then 1
          else if c05_ok true true L None es tr led0 [] true then 2
          else 0
      | None => 0
      end
  | None => 0
  end.
