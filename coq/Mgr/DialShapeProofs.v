(* Mgr — C05: what TransportManager::dial_address accepts, related to what the transports' own
   parsers (C10 model) make of the same address. *)
From Coq Require Import List NArith Bool Lia.
From Coq Require Import ZifyBool ZifyN.
From V.C10 Require Import Model.
From V.Mgr Require Import DialShape.
Import ListNotations.
Open Scope N_scope.

(* The address is dialled through TCP for peer q only if it is exactly host/tcp/p2p(q), and then
   the TCP transport's own parser resolves it to the same peer: the peer whose state the manager
   updates is the peer the transport will authenticate. *)
Lemma dial_shape_tcp_sound listen a q :
  dial_shape listen a = SvTcp q ->
  exists h port ho, a = [h; Tcp port; P2p q] /\ is_host h = true /\
                    parse TTcp a = Some (ho, port, Some q).
Proof.
  unfold dial_shape. destruct (last a (Other 0)) eqn:El; try discriminate.
  destruct (existsb (maddr_eqb a) listen || existsb (maddr_eqb (strip_p2p a)) listen); [discriminate|].
  destruct a as [|h rest]; [discriminate|].
  destruct (is_host h) eqn:Eh; [|discriminate].
  destruct rest as [|x1 rest]; [discriminate|]. destruct x1; try discriminate.
  destruct rest as [|x2 rest]; [discriminate|].
  destruct x2; try discriminate; destruct rest as [|x3 rest]; try discriminate;
    try (destruct x3; try discriminate; destruct rest; discriminate).
  intros [= <-]. cbn [last] in El. injection El as <-.
  destruct h; cbn [is_host] in Eh; try discriminate;
    (eexists; eexists; eexists; split; [reflexivity|split; [reflexivity|reflexivity]]).
Qed.

Lemma dial_shape_ws_sound listen a q :
  dial_shape listen a = SvWs q ->
  exists h port w ho, a = [h; Tcp port; w; P2p q] /\ is_host h = true /\ (w = Ws \/ w = Wss) /\
                      parse TWs a = Some (ho, port, Some q).
Proof.
  unfold dial_shape. destruct (last a (Other 0)) eqn:El; try discriminate.
  destruct (existsb (maddr_eqb a) listen || existsb (maddr_eqb (strip_p2p a)) listen); [discriminate|].
  destruct a as [|h rest]; [discriminate|].
  destruct (is_host h) eqn:Eh; [|discriminate].
  destruct rest as [|x1 rest]; [discriminate|]. destruct x1; try discriminate.
  destruct rest as [|x2 rest]; [discriminate|].
  destruct x2; try discriminate; destruct rest as [|x3 rest]; try discriminate;
    destruct x3; try discriminate; destruct rest; try discriminate;
    intros [= <-]; cbn [last] in El; injection El as <-;
    destruct h; cbn [is_host] in Eh; try discriminate;
    (do 4 eexists; split; [reflexivity|split; [reflexivity|split; [auto|reflexivity]]]).
Qed.

(* every other address is refused with an error class, before any state is touched *)
Lemma dial_shape_refusals listen a code :
  dial_shape listen a = SvRefuse code ->
  code = RET_PEER_ID_MISSING \/ code = RET_SELF' \/ code = RET_NOT_SUPPORTED.
Proof.
  unfold dial_shape.
  repeat match goal with
         | |- context [match ?x with _ => _ end] => destruct x; try discriminate
         | |- context [if ?b then _ else _] => destruct b; try discriminate
         end; intros [= <-]; auto.
Qed.

(* an address without trailing /p2p is refused as PeerIdMissing, a registered listen address as
   TriedToDialSelf *)
Lemma dial_shape_no_peer listen a :
  (forall q, last a (Other 0) <> P2p q) -> dial_shape listen a = SvRefuse RET_PEER_ID_MISSING.
Proof.
  intros H. unfold dial_shape. destruct (last a (Other 0)); try reflexivity. exfalso. eapply H. reflexivity.
Qed.

Lemma dial_shape_self listen a q :
  last a (Other 0) = P2p q -> existsb (maddr_eqb a) listen = true -> dial_shape listen a = SvRefuse RET_SELF'.
Proof. intros H1 H2. unfold dial_shape. now rewrite H1, H2. Qed.

(* ... and so is a registered listen address under another peer id (fix F-C10a) *)
Lemma dial_shape_self_other_id listen a q :
  last a (Other 0) = P2p q -> existsb (maddr_eqb (strip_p2p a)) listen = true ->
  dial_shape listen a = SvRefuse RET_SELF'.
Proof. intros H1 H2. unfold dial_shape. rewrite H1, H2, orb_true_r. reflexivity. Qed.

(* The check as it was before the `fix:` commit: only the first three components were looked at. *)
Definition dial_shape_unfixed (listen : list maddr) (a : maddr) : shape_verdict :=
  match last a (Other 0) with
  | P2p q =>
      if existsb (maddr_eqb a) listen then SvRefuse RET_SELF'
      else
        match a with
        | h :: Tcp _ :: P2p _ :: _ => if is_host h then SvTcp q else SvRefuse RET_NOT_SUPPORTED
        | h :: Tcp _ :: Ws :: _ | h :: Tcp _ :: Wss :: _ =>
            if is_host h then SvWs q else SvRefuse RET_NOT_SUPPORTED
        | _ => SvRefuse RET_NOT_SUPPORTED
        end
  | _ => SvRefuse RET_PEER_ID_MISSING
  end.

(* ... and why that was wrong: it accepted an address for peer 2 that the TCP transport dials as
   peer 1 (the finding behind the fix; reproduced on the real code with two nodes) *)
Lemma dial_shape_unfixed_refuted :
  exists a q q', dial_shape_unfixed [] a = SvTcp q /\
                 (exists ho port, parse TTcp a = Some (ho, port, Some q')) /\ q <> q'.
Proof.
  exists [Ip4 Glob 1; Tcp 30333; P2p 1; P2p 2], 2, 1. split; [reflexivity|]. split.
  - do 2 eexists. reflexivity.
  - discriminate.
Qed.
