(* Mgr — C05: the dial ledger as an inductive invariant over every feasible event history.

   Ghost state (computed from the events and from the calls the manager makes, never from its
   private maps): what the transport still owes an answer for, which attempts exist, which were
   named by a terminal output, which were superseded / rejected by the limit. The transport
   contract (`feas`) says which events may happen given those obligations. *)
From Coq Require Import List Arith NArith Bool Lia.
From Coq Require Import ZifyBool ZifyNat ZifyN.
From V.Mgr Require Import DialShape Model Caps Ledger.
Import ListNotations.
Open Scope N_scope.

Arguments N.add : simpl never.
Arguments N.eqb : simpl never.
Arguments N.leb : simpl never.
Arguments N.of_nat : simpl never.

Record ghost := mkG {
  g_open : list conn;            (* open(c) called, not answered, not cancelled *)
  g_neg : list conn;             (* dial(c) / negotiate(c) called, not answered *)
  g_att : list (conn * peer);    (* accepted dial attempts: id -> dialled peer *)
  g_done : list conn;            (* ids named by a terminal output so far *)
  g_super : list conn;           (* attempts cancelled because an inbound connection won *)
  g_limrej : list conn;          (* outbound connections rejected by the connection limit *)
  g_inb : list conn;             (* ids drawn for inbound sockets, not used yet *)
  g_rep : list peer              (* peers for which ConnectionEstablished was reported *)
}.

Definition g0 : ghost := mkG [] [] [] [] [] [] [] [].

Definition out_open (o : out) : list conn := match o with CallOpen c => [c] | _ => [] end.
Definition out_dialneg (o : out) : list conn :=
  match o with CallDial c | CallNegotiate c => [c] | _ => [] end.
Definition out_cancel (o : out) : list conn := match o with CallCancel c => [c] | _ => [] end.
Definition out_reject (o : out) : list conn := match o with CallReject c => [c] | _ => [] end.
Definition out_term (o : out) : list conn :=
  match o with EvEstablished _ c | EvDialFailure c _ | EvOpenFailure c => [c] | _ => [] end.
Definition out_rep (o : out) : list peer := match o with EvEstablished p _ => [p] | _ => [] end.
Definition ret_ok (os : list out) : bool := existsb (fun o => match o with Ret r => r =? RET_OK | _ => false end) os.

Definition removes (xs l : list N) : list N := filter (fun y => negb (mem y xs)) l.

Definition alloc_of (os : list out) : list conn :=
  flat_map (fun o => match o with Ret r => if RET_ALLOC <=? r then [r - RET_ALLOC] else [] | _ => [] end) os.

Definition gstep (e : ev) (os : list out) (g : ghost) : ghost :=
  let opens := flat_map out_open os in
  let dialnegs := flat_map out_dialneg os in
  let cancels := flat_map out_cancel os in
  let rejects := flat_map out_reject os in
  let terms := flat_map out_term os in
  let reps := flat_map out_rep os in
  let answered_open := match e with TrOpened c _ | TrOpenFailure c _ => [c] | _ => [] end in
  let answered_neg := match e with TrDialFailure c _ | TrEstablished _ c false _ => [c] | _ => [] end in
  let new_att := match e with
                 | CmdDialPeer p _ | CmdDialAddr p _ =>
                     if ret_ok os then map (fun c => (c, p)) (opens ++ dialnegs) else []
                 | CmdDialShape a =>
                     (* the peer dialled is the one named by the address *)
                     match dial_shape LISTEN a with
                     | SvTcp p => if ret_ok os then map (fun c => (c, p)) (opens ++ dialnegs) else []
                     | _ => []
                     end
                 | _ => [] end in
  mkG (opens ++ removes (answered_open ++ cancels) (g_open g))
      (dialnegs ++ removes answered_neg (g_neg g))
      (new_att ++ g_att g)
      (terms ++ g_done g)
      (match e with TrEstablished _ _ _ _ => cancels | _ => [] end ++ g_super g)
      (match e with TrEstablished _ c false _ => if mem c rejects then [c] else [] | _ => [] end ++ g_limrej g)
      (match e with AllocConn => alloc_of os | _ => [] end ++
       match e with TrEstablished _ c true _ => removes [c] (g_inb g) | _ => g_inb g end)
      (reps ++ g_rep g).

(* The transport contract and the "protocols are alive" assumption: which events can happen. *)
Definition feas (m : mgr) (g : ghost) (e : ev) : Prop :=
  match e with
  | CmdDialPeer _ f | CmdDialAddr _ f => f = false              (* open()/dial() succeed *)
  | CmdAddAddr _ => True
  | TrDialFailure c pa => In c (g_neg g) /\ lookup c (g_att g) = Some pa
  | TrOpened c f => f = false /\ In c (g_open g)                (* negotiate() succeeds *)
  | TrOpenFailure c pa => In c (g_open g) /\ lookup c (g_att g) = Some pa
  | TrEstablished p c lst f =>
      f = false /\                                              (* accept() succeeds *)
      if lst then In c (g_inb g) else In c (g_neg g) /\ lookup c (g_att g) = Some p
  | TrPendingInbound _ => True
  | AcceptDone c ok => ok = true /\ In c (keys (accepting m))    (* protocols are alive *)
  | Closed _ _ => True
  | AllocConn => True
  | CmdDialShape _ => True      (* any multiaddress may be handed to the dial API *)
  end.

Definition owed (g : ghost) (c : conn) : Prop := In c (g_open g) \/ In c (g_neg g).

Record LInv (m : mgr) (g : ghost) : Prop := {
  (* every pending attempt is owed by the transport, belongs to the peer that dialled it and is
     that peer's dial record; it is in the opening phase exactly when the peer is Opening *)
  li_pending : forall c p, lookup c (pending m) = Some p ->
      owed g c /\ lookup c (g_att g) = Some p /\ dial_record (state_of m p) = Some c /\
      (In c (g_open g) <-> state_of m p = Opening c);
  (* everything owed is pending *)
  li_owed : forall c, owed g c -> exists p, lookup c (pending m) = Some p;
  (* a dial record is always a pending attempt of that peer: nobody waits for nothing *)
  li_record : forall p c, dial_record (state_of m p) = Some c -> lookup c (pending m) = Some p;
  li_open_neg : forall c, In c (g_open g) -> ~ In c (g_neg g);
  (* ids are fresh *)
  li_fresh : forall c, (owed g c \/ In c (keys (g_att g)) \/ In c (g_inb g) \/ In c (g_done g) \/
                        In c (keys (accepting m)) \/ In c (g_super g)) -> c < next_conn m;
  li_inb : forall c, In c (g_inb g) ->
      ~ In c (keys (g_att g)) /\ ~ In c (g_done g) /\ ~ In c (keys (accepting m));
  (* a terminal output closes an attempt for good *)
  li_done : forall c, In c (g_done g) -> ~ owed g c /\ ~ In c (keys (accepting m));
  li_done_nodup : NoDup (g_done g);
  li_acc_nodup : NoDup (keys (accepting m));
  li_acc_sep : forall c, In c (keys (accepting m)) -> ~ owed g c;
  (* every attempt is accounted for *)
  li_accounted : forall c p, lookup c (g_att g) = Some p ->
      owed g c \/ In c (g_done g) \/ In c (g_super g) \/ In c (g_limrej g) \/ In c (keys (accepting m));
  (* a superseded attempt is answered by a connection with the same peer *)
  li_super : forall c p, In c (g_super g) -> lookup c (g_att g) = Some p ->
      In p (g_rep g) \/ exists c' b, lookup c' (accepting m) = Some (p, b)
}.

(* ---------- helpers ---------- *)
Lemma removes_nil l : removes [] l = l.
Proof.
  unfold removes. induction l as [|h t IH]; [reflexivity|].
  cbn [filter]. unfold mem at 1. cbn [existsb negb]. f_equal. exact IH.
Qed.

Lemma in_removes x xs l : In x (removes xs l) <-> In x l /\ ~ In x xs.
Proof.
  unfold removes. rewrite filter_In. split.
  - intros [H1 H2]. split; [assumption|]. intros Hin. apply mem_in in Hin. rewrite Hin in H2. discriminate.
  - intros [H1 H2]. split; [assumption|]. destruct (mem x xs) eqn:E; [|reflexivity].
    apply mem_in in E. contradiction.
Qed.

Lemma keys_insert_key {A} k (v : A) l x : In x (keys (insert_key k v l)) <-> x = k \/ (In x (keys l) /\ x <> k).
Proof.
  unfold insert_key. cbn [keys map fst In]. split.
  - intros [H|H]; [left; now symmetry|]. right. now apply keys_remove_key.
  - intros [->|[H Hne]]; [now left|]. right.
    apply keys_in_lookup in H. destruct H as [v0 Hv].
    apply (lookup_in_keys x _ v0). rewrite lookup_remove_key.
    assert (x =? k = false) as -> by lia. exact Hv.
Qed.

Lemma keys_remove_key_iff {A} k (l : list (N * A)) x : In x (keys (remove_key k l)) <-> In x (keys l) /\ x <> k.
Proof.
  split; [apply keys_remove_key|]. intros [H Hne].
  apply keys_in_lookup in H. destruct H as [v0 Hv].
  apply (lookup_in_keys x _ v0). rewrite lookup_remove_key.
  assert (x =? k = false) as -> by lia. exact Hv.
Qed.

Lemma dial_record_on_failure s c :
  dial_record s = Some c -> s <> Opening c -> dial_record (st_on_dial_failure s c) = None.
Proof.
  destruct s as [r [[e|e]|]|d|d|[d|]]; cbn [dial_record]; try discriminate; intros [= ->] Hne;
    cbn [st_on_dial_failure]; try (assert (c =? c = true) as -> by lia); cbn [dial_record]; try reflexivity.
  congruence.
Qed.

Lemma dial_record_on_failure_other s c d :
  dial_record s = Some d -> d <> c -> st_on_dial_failure s c = s.
Proof.
  destruct s as [r [[e|e]|]|o|o|[o|]]; cbn [dial_record]; try discriminate; intros [= ->] Hne;
    cbn [st_on_dial_failure]; try (assert (d =? c = false) as -> by lia); reflexivity.
Qed.

Lemma dial_record_on_failure_none s c : dial_record s = None -> st_on_dial_failure s c = s.
Proof.
  destruct s as [r [[e|e]|]|o|o|[o|]]; cbn [dial_record]; try discriminate; reflexivity.
Qed.

Lemma opening_record s c : s = Opening c -> dial_record s = Some c.
Proof. now intros ->. Qed.

(* changing only fields the invariant does not read (address book, limits) or bumping the counter *)
Lemma linv_frame m m' g :
  pending m' = pending m -> peers m' = peers m -> accepting m' = accepting m ->
  next_conn m <= next_conn m' -> LInv m g -> LInv m' g.
Proof.
  intros Hp Hs Ha Hn [P O R ON F INB D DN AN AS AC SU].
  assert (Hst : forall q, state_of m' q = state_of m q) by (intros q; now apply state_of_peers).
  split; rewrite ?Hp, ?Ha; try assumption.
  - intros c p Hl. rewrite Hst. auto.
  - intros p c Hd. rewrite Hst in Hd. auto.
  - intros c Hc. specialize (F c Hc). lia.
Qed.

(* a step that emits nothing the ghost reads leaves it unchanged *)
Definition quiet (os : list out) : Prop :=
  flat_map out_open os = [] /\ flat_map out_dialneg os = [] /\ flat_map out_cancel os = [] /\
  flat_map out_reject os = [] /\ flat_map out_term os = [] /\ flat_map out_rep os = [] /\ alloc_of os = [].

Lemma gstep_quiet_cmd e os g :
  quiet os ->
  match e with CmdDialPeer _ _ | CmdDialAddr _ _ | CmdAddAddr _ | TrPendingInbound _ | Closed _ _
             | CmdDialShape _ => True | _ => False end ->
  gstep e os g = g.
Proof.
  intros (H1 & H2 & H3 & H4 & H5 & H6 & H7) He. unfold gstep. rewrite H1, H2, H3, H5, H6.
  destruct g as [go gn ga gd gs gl gi gr].
  destruct e; try contradiction; cbn [app g_open g_neg g_att g_done g_super g_limrej g_inb g_rep];
    rewrite ?removes_nil; try (destruct (dial_shape LISTEN a)); try (destruct (ret_ok os)); reflexivity.
Qed.

Lemma ret_ok_1 c : ret_ok [CallOpen c; Ret RET_OK] = true. Proof. reflexivity. Qed.
Lemma ret_ok_2 c : ret_ok [CallDial c; Ret RET_OK] = true. Proof. reflexivity. Qed.

Lemma can_dial_ok s : can_dial s = GateOk -> s = Disconnected None.
Proof. destruct s as [r sc|d|d|[d|]]; cbn [can_dial]; try discriminate; reflexivity. Qed.

(* registering a fresh attempt c for a peer p without dial record: the common part of
   dial(peer) and dial_address *)
Lemma linv_new_attempt m g p c (st : pstate) (inopen : bool) go' gn' :
  LInv m g -> c = next_conn m -> dial_record (state_of m p) = None ->
  dial_record st = Some c -> (inopen = true <-> st = Opening c) ->
  go' = (if inopen then c :: g_open g else g_open g) ->
  gn' = (if inopen then g_neg g else c :: g_neg g) ->
  forall m', pending m' = insert_key c p (pending m) ->
  (forall q, state_of m' q = if q =? p then st else state_of m q) ->
  accepting m' = accepting m -> next_conn m' = c + 1 ->
  LInv m' (mkG go' gn' ((c, p) :: g_att g) (g_done g) (g_super g) (g_limrej g) (g_inb g) (g_rep g)).
Proof.
  intros [P O R ON F INB D DN AN AS AC SU] Hc Hnone Hst Hio -> -> m' Hp Hs Ha Hn.
  assert (Hfresh : forall x, (owed g x \/ In x (keys (g_att g)) \/ In x (g_inb g) \/ In x (g_done g) \/
                              In x (keys (accepting m)) \/ In x (g_super g)) -> x <> c).
  { intros x Hx. specialize (F x Hx). lia. }
  assert (Hpend_ne : forall x q, lookup x (pending m) = Some q -> x <> c /\ q <> p).
  { intros x q Hl. destruct (P _ _ Hl) as (Ho & _ & Hd & _). split.
    - apply Hfresh. now left.
    - intros ->. congruence. }
  assert (Howed' : forall x, owed (mkG (if inopen then c :: g_open g else g_open g)
                                     (if inopen then g_neg g else c :: g_neg g)
                                     ((c, p) :: g_att g) (g_done g) (g_super g) (g_limrej g) (g_inb g) (g_rep g)) x
                             <-> x = c \/ owed g x).
  { intros x. unfold owed. cbn [g_open g_neg]. destruct inopen; cbn [In]; intuition. }
  split; cbn [g_att g_done g_super g_limrej g_inb g_rep]; rewrite ?Hp, ?Ha, ?Hn.
  - intros x q Hl. rewrite lookup_insert_key in Hl. rewrite Howed', Hs. cbn [lookup g_open].
    destruct (x =? c) eqn:E.
    + injection Hl as <-. assert (x = c) by lia. subst x.
      assert (c =? c = true) as -> by lia. assert (p =? p = true) as -> by lia.
      repeat split; auto.
      * intros Hin. destruct inopen; cbn [In] in *; [now apply Hio | ].
        exfalso. apply (Hfresh c); [left; now left | reflexivity].
      * intros Hop. destruct inopen; [now left|]. destruct Hio as [_ Hio2]. specialize (Hio2 Hop). discriminate.
    + destruct (Hpend_ne _ _ Hl) as [Hne1 Hne2].
      assert (c =? x = false) as -> by lia. assert (q =? p = false) as -> by lia.
      destruct (P _ _ Hl) as (Ho & Hat & Hd & Hiff). repeat split; auto.
      * intros Hin. apply Hiff. destruct inopen; [|assumption]. destruct Hin as [Hin|Hin]; [lia | assumption].
      * intros Hop. apply Hiff in Hop. destruct inopen; [now right | assumption].
  - intros x Hx. apply Howed' in Hx. rewrite lookup_insert_key. destruct (x =? c) eqn:E; [eauto|].
    destruct Hx as [->|Hx]; [lia|]. auto.
  - intros q x Hd. rewrite Hs in Hd. rewrite lookup_insert_key. destruct (q =? p) eqn:E.
    + assert (q = p) by lia. subst q. rewrite Hst in Hd. injection Hd as <-.
      assert (c =? c = true) as -> by lia. reflexivity.
    + specialize (R _ _ Hd). destruct (Hpend_ne _ _ R) as [Hne _].
      assert (x =? c = false) as -> by lia. exact R.
  - cbn [g_open g_neg]. intros x Hin. destruct inopen; cbn [In] in *.
    + destruct Hin as [Heq|Hin]; [|auto]. subst x. intros Hn2. apply (Hfresh c); [left; now right | reflexivity].
    + intros [Heq|Hn2]; [|now apply (ON x)]. subst x. apply (Hfresh c); [left; now left | reflexivity].
  - intros x Hx. rewrite Howed' in Hx. cbn [keys map fst In] in Hx.
    assert (x = c \/ x < next_conn m) as [->|Hlt]; [|lia|lia].
    destruct Hx as [[->|Hx]|[[<-|Hx]|Hx]]; auto; right; apply F; intuition.
  - intros x Hx. destruct (INB _ Hx) as (H1 & H2 & H3). repeat split; auto.
    cbn [keys map fst In]. intros [<-|H]; [|contradiction]. apply (Hfresh c); [right; right; now left | reflexivity].
  - intros x Hx. destruct (D _ Hx) as (H1 & H2). split; [|assumption]. rewrite Howed'.
    intros [->|H]; [|contradiction]. apply (Hfresh c); [do 3 right; now left | reflexivity].
  - assumption.
  - assumption.
  - intros x Hx. rewrite Howed'. intros [->|H]; [|exact (AS _ Hx H)].
    apply (Hfresh c); [do 4 right; now left | reflexivity].
  - intros x q Hl. cbn [lookup] in Hl. rewrite Howed'. destruct (c =? x) eqn:E.
    + left. left. lia.
    + destruct (AC _ _ Hl) as [H|H]; [left; now right | right; exact H].
  - intros x q Hx Hl. cbn [lookup] in Hl. destruct (c =? x) eqn:E.
    + exfalso. apply (Hfresh x); [do 5 right; exact Hx | lia].
    + eauto.
Qed.

Lemma quiet_ret r : r < RET_ALLOC -> quiet [Ret r].
Proof.
  intros H. unfold quiet, alloc_of. cbn [flat_map app out_open out_dialneg out_cancel out_reject out_term out_rep].
  assert (RET_ALLOC <=? r = false) as -> by lia. repeat split.
Qed.

Lemma quiet_nil : quiet [].
Proof. unfold quiet, alloc_of. cbn. repeat split. Qed.

Lemma linv_dial_peer L m g p :
  LInv m g ->
  LInv (fst (do_dial_peer L m p false)) (gstep (CmdDialPeer p false) (snd (do_dial_peer L m p false)) g).
Proof.
  intros I. unfold do_dial_peer.
  destruct (limit_reached (max_out L) (outs m)).
  { cbn [fst snd]. rewrite gstep_quiet_cmd; [exact I | apply quiet_ret; reflexivity | exact Logic.I]. }
  destruct (p =? LOCAL).
  { cbn [fst snd]. rewrite gstep_quiet_cmd; [exact I | apply quiet_ret; reflexivity | exact Logic.I]. }
  destruct (can_dial (state_of m p)) eqn:Eg;
    try (cbn [fst snd]; rewrite gstep_quiet_cmd; [exact I | apply quiet_ret; reflexivity | exact Logic.I]).
  destruct (negb (mem p (known m))).
  { cbn [fst snd]. rewrite gstep_quiet_cmd; [exact I | apply quiet_ret; reflexivity | exact Logic.I]. }
  cbn [fst snd]. apply can_dial_ok in Eg.
  unfold gstep. rewrite ret_ok_1.
  cbn [flat_map app out_open out_dialneg out_cancel out_reject out_term out_rep map]. rewrite !removes_nil.
  eapply (linv_new_attempt m g p (next_conn m) (Opening (next_conn m)) true); try reflexivity; try exact I.
  - now rewrite Eg.
  - split; reflexivity.
  - intros q. rewrite so_pending, state_of_set_state, so_bump. reflexivity.
Qed.

Lemma linv_dial_addr L m g p :
  LInv m g ->
  LInv (fst (do_dial_addr L m p false)) (gstep (CmdDialAddr p false) (snd (do_dial_addr L m p false)) g).
Proof.
  intros I. unfold do_dial_addr.
  destruct (limit_reached (max_out L) (outs m)).
  { cbn [fst snd]. rewrite gstep_quiet_cmd; [exact I | apply quiet_ret; reflexivity | exact Logic.I]. }
  assert (I0 : LInv (set_known (bump_conn m) p) g).
  { eapply linv_frame; [| | | |exact I]; try reflexivity. cbn [set_known bump_conn next_conn]. lia. }
  rewrite so_known, so_bump.
  destruct (can_dial (state_of m p)) eqn:Eg;
    try (cbn [fst snd]; rewrite gstep_quiet_cmd; [exact I0 | apply quiet_ret; reflexivity | exact Logic.I]).
  cbn [fst snd]. apply can_dial_ok in Eg.
  unfold gstep. rewrite ret_ok_2.
  cbn [flat_map app out_open out_dialneg out_cancel out_reject out_term out_rep map]. rewrite !removes_nil.
  eapply (linv_new_attempt m g p (next_conn m) (Dialing (next_conn m)) false); try reflexivity; try exact I.
  - now rewrite Eg.
  - split; discriminate.
  - intros q. rewrite so_pending, state_of_set_state, so_known, so_bump. reflexivity.
Qed.

Lemma removes_notin x l : ~ In x l -> removes [x] l = l.
Proof.
  intros H. unfold removes. induction l as [|h t IH]; [reflexivity|].
  cbn [filter]. assert (mem h [x] = false) as ->.
  { unfold mem. cbn [existsb]. destruct (h =? x) eqn:E; [|reflexivity]. exfalso. apply H. left. lia. }
  cbn [negb]. f_equal. apply IH. intros Hin. apply H. now right.
Qed.

Lemma in_removes1 x c l : In x (removes [c] l) <-> In x l /\ x <> c.
Proof.
  rewrite in_removes. cbn [In]. intuition lia.
Qed.

(* an attempt c of peer p concludes without connection: its pending entry, its obligations and
   the peer's dial record disappear; it is either named by a terminal output or recorded as
   rejected by the limit *)
Lemma linv_conclude m g c p st' (d : bool) m' :
  LInv m g -> lookup c (pending m) = Some p ->
  pending m' = remove_key c (pending m) ->
  (forall q, state_of m' q = if q =? p then st' else state_of m q) -> dial_record st' = None ->
  accepting m' = accepting m -> next_conn m' = next_conn m ->
  LInv m' (mkG (removes [c] (g_open g)) (removes [c] (g_neg g)) (g_att g)
               (if d then c :: g_done g else g_done g) (g_super g)
               (if d then g_limrej g else c :: g_limrej g) (g_inb g) (g_rep g)).
Proof.
  intros [P O R ON F INB D DN AN AS AC SU] Hl Hp Hs Hst Ha Hn.
  destruct (P _ _ Hl) as (Hoc & Hatc & Hdc & Hiffc).
  assert (Howed' : forall x, owed (mkG (removes [c] (g_open g)) (removes [c] (g_neg g)) (g_att g)
               (if d then c :: g_done g else g_done g) (g_super g)
               (if d then g_limrej g else c :: g_limrej g) (g_inb g) (g_rep g)) x <-> owed g x /\ x <> c).
  { intros x. unfold owed. cbn [g_open g_neg]. rewrite !in_removes1. tauto. }
  assert (Hother : forall x q, x <> c -> lookup x (pending m) = Some q -> q <> p).
  { intros x q Hne Hx ->. destruct (P _ _ Hx) as (_ & _ & Hdx & _). congruence. }
  split; cbn [g_att g_done g_super g_limrej g_inb g_rep]; rewrite ?Hp, ?Ha, ?Hn.
  - intros x q Hx. rewrite lookup_remove_key in Hx. destruct (x =? c) eqn:E; [discriminate|].
    assert (Hne : x <> c) by lia. destruct (P _ _ Hx) as (Ho & Hat & Hd & Hiff).
    rewrite Howed', Hs. assert (q =? p = false) as -> by (pose proof (Hother _ _ Hne Hx); lia).
    repeat split; auto.
    + cbn [g_open]. rewrite in_removes1. intros [Hin _]. now apply Hiff.
    + intros Hop. cbn [g_open]. rewrite in_removes1. split; [now apply Hiff | assumption].
  - intros x Hx. apply Howed' in Hx. destruct Hx as [Hx Hne]. destruct (O _ Hx) as [q Hq].
    exists q. rewrite lookup_remove_key. assert (x =? c = false) as -> by lia. exact Hq.
  - intros q x Hd. rewrite Hs in Hd. destruct (q =? p) eqn:E; [congruence|].
    specialize (R _ _ Hd). rewrite lookup_remove_key. destruct (x =? c) eqn:E2; [|exact R].
    assert (x = c) by lia. subst x. rewrite Hl in R. injection R as ->. lia.
  - cbn [g_open g_neg]. intros x Hx. rewrite in_removes1 in *. intros [Hn2 _]. destruct Hx as [Hx _].
    exact (ON _ Hx Hn2).
  - intros x Hx. rewrite Howed' in Hx.
    assert (Hc : c < next_conn m) by (apply F; now left).
    assert (Hx' : x = c \/ (owed g x \/ In x (keys (g_att g)) \/ In x (g_inb g) \/ In x (g_done g) \/
                             In x (keys (accepting m)) \/ In x (g_super g))).
    { destruct d; cbn [In] in Hx; intuition. }
    destruct Hx' as [->|Hx']; [exact Hc | now apply F].
  - intros x Hx. destruct (INB _ Hx) as (H1 & H2 & H3). repeat split; auto.
    destruct d; [|assumption]. intros [<-|H]; [|contradiction].
    apply H1. eapply lookup_in_keys. exact Hatc.
  - intros x Hx. rewrite Howed'.
    assert (Hx' : x = c \/ In x (g_done g)) by (destruct d; [destruct Hx; auto | auto]).
    destruct Hx' as [->|Hx'].
    + split; [tauto|]. intros Hin. exact (AS _ Hin Hoc).
    + destruct (D _ Hx') as [H1 H2]. split; [tauto | assumption].
  - destruct d; [|assumption]. constructor; [|assumption]. intros Hin. destruct (D _ Hin) as [H1 _]. contradiction.
  - assumption.
  - intros x Hx. rewrite Howed'. intros [H _]. exact (AS _ Hx H).
  - intros x q Hx. rewrite Howed'. destruct (x =? c) eqn:E.
    + assert (x = c) by lia. subst x. destruct d; [right; left; now left | do 3 right; left; now left].
    + destruct (AC _ _ Hx) as [H|[H|[H|[H|H]]]].
      * left. split; [assumption | lia].
      * right. left. destruct d; [now right | assumption].
      * do 2 right. now left.
      * do 3 right. left. destruct d; [assumption | now right].
      * do 4 right. assumption.
  - assumption.
Qed.

Lemma owed_neg_facts m g c pa :
  LInv m g -> In c (g_neg g) -> lookup c (g_att g) = Some pa ->
  lookup c (pending m) = Some pa /\ dial_record (state_of m pa) = Some c /\ state_of m pa <> Opening c.
Proof.
  intros [P O R ON F INB D DN AN AS AC SU] Hin Hat.
  destruct (O c (or_intror Hin)) as [p Hp]. destruct (P _ _ Hp) as (_ & Hat' & Hd & Hiff).
  assert (p = pa) by congruence. subst p. repeat split; auto.
  intros Hop. apply Hiff in Hop. exact (ON _ Hop Hin).
Qed.

Lemma owed_open_facts m g c :
  LInv m g -> In c (g_open g) ->
  exists p, lookup c (pending m) = Some p /\ lookup c (g_att g) = Some p /\ state_of m p = Opening c.
Proof.
  intros [P O R ON F INB D DN AN AS AC SU] Hin.
  destruct (O c (or_introl Hin)) as [p Hp]. destruct (P _ _ Hp) as (_ & Hat' & Hd & Hiff).
  exists p. repeat split; auto. now apply Hiff.
Qed.

Lemma linv_dial_failure m g c pa :
  LInv m g -> In c (g_neg g) -> lookup c (g_att g) = Some pa ->
  LInv (fst (do_dial_failure m c pa)) (gstep (TrDialFailure c pa) (snd (do_dial_failure m c pa)) g).
Proof.
  intros I Hin Hat. destruct (owed_neg_facts _ _ _ _ I Hin Hat) as (Hp & Hd & Hno).
  unfold do_dial_failure. cbn [set_known pending]. rewrite Hp. cbn [fst snd].
  unfold gstep. cbn [flat_map app out_open out_dialneg out_cancel out_reject out_term out_rep].
  assert (Hnotopen : ~ In c (g_open g)).
  { destruct I as [_ _ _ ON _ _ _ _ _ _ _ _]. intros H. exact (ON _ H Hin). }
  rewrite removes_nil. rewrite <- (removes_notin c (g_open g) Hnotopen) at 1.
  apply (linv_conclude m g c pa (st_on_dial_failure (state_of m pa) c) true); auto.
  - intros q. rewrite state_of_set_state, so_pending, so_known. reflexivity.
  - now apply dial_record_on_failure.
Qed.

Lemma linv_open_failure m g c pa :
  LInv m g -> In c (g_open g) -> lookup c (g_att g) = Some pa ->
  LInv (fst (do_open_failure m c pa)) (gstep (TrOpenFailure c pa) (snd (do_open_failure m c pa)) g).
Proof.
  intros I Hin Hat. destruct (owed_open_facts _ _ _ I Hin) as (p & Hp & Hat' & Hop).
  assert (p = pa) by congruence. subst p.
  unfold do_open_failure. cbn [set_known pending]. rewrite Hp, so_known, Hop. cbn [fst snd].
  unfold gstep. cbn [flat_map app out_open out_dialneg out_cancel out_reject out_term out_rep].
  assert (Hnotneg : ~ In c (g_neg g)).
  { destruct I as [_ _ _ ON _ _ _ _ _ _ _ _]. intros H. exact (ON _ Hin H). }
  rewrite removes_nil. rewrite <- (removes_notin c (g_neg g) Hnotneg) at 1.
  apply (linv_conclude m g c pa (Disconnected None) true); auto.
  intros q. rewrite so_pending, state_of_set_state, so_known. reflexivity.
Qed.

Lemma st_on_closed_record s c : dial_record (fst (st_on_closed s c)) = dial_record s.
Proof.
  destruct s as [r [[e|e]|]|o|o|[o|]]; cbn [st_on_closed]; try reflexivity;
    destruct (r =? c); cbn [fst dial_record]; try reflexivity; destruct (e =? c); reflexivity.
Qed.

Lemma st_on_closed_opening s c x : fst (st_on_closed s c) = Opening x <-> s = Opening x.
Proof.
  destruct s as [r [[e|e]|]|o|o|[o|]]; cbn [st_on_closed]; try tauto;
    destruct (r =? c); cbn [fst]; try (split; discriminate); destruct (e =? c); split; discriminate.
Qed.

(* a transition of one peer's state that keeps its dial record and its Opening-ness *)
Lemma linv_same_record m g p st' m' :
  LInv m g ->
  (forall q, state_of m' q = if q =? p then st' else state_of m q) ->
  dial_record st' = dial_record (state_of m p) ->
  (forall x, st' = Opening x <-> state_of m p = Opening x) ->
  pending m' = pending m -> accepting m' = accepting m -> next_conn m' = next_conn m ->
  LInv m' g.
Proof.
  intros [P O R ON F INB D DN AN AS AC SU] Hs Hd Hop Hp Ha Hn.
  split; rewrite ?Hp, ?Ha, ?Hn; try assumption.
  - intros c q Hl. destruct (P _ _ Hl) as (H1 & H2 & H3 & H4). rewrite Hs.
    destruct (q =? p) eqn:E; [|auto]. assert (q = p) by lia. subst q.
    repeat split; auto; try congruence.
    + intros Hin. apply Hop. now apply H4.
    + intros Hx. apply H4. now apply Hop.
  - intros q c Hx. rewrite Hs in Hx. destruct (q =? p) eqn:E; [|auto].
    assert (q = p) by lia. subst q. apply R. congruence.
Qed.

Lemma linv_closed m g p c :
  LInv m g -> LInv (fst (do_closed m p c)) g.
Proof.
  intros I. unfold do_closed.
  destruct (st_on_closed (state_of (set_limits m (set_remove c (ins m)) (set_remove c (outs m))) p) c) as [s' rep] eqn:E.
  cbn [fst]. rewrite so_limits in E.
  apply (linv_same_record m g p s'); auto.
  - intros q. rewrite state_of_set_state, so_limits. reflexivity.
  - replace s' with (fst (st_on_closed (state_of m p) c)) by now rewrite E. apply st_on_closed_record.
  - intros x. replace s' with (fst (st_on_closed (state_of m p) c)) by now rewrite E. apply st_on_closed_opening.
Qed.

Lemma linv_opened m g c :
  LInv m g -> In c (g_open g) ->
  LInv (fst (do_opened m c false)) (gstep (TrOpened c false) (snd (do_opened m c false)) g).
Proof.
  intros I Hin. destruct (owed_open_facts _ _ _ I Hin) as (p & Hp & Hat & Hop).
  unfold do_opened. rewrite Hp. rewrite so_known, so_pending, Hop. cbn [fst snd].
  unfold gstep. cbn [flat_map app out_open out_dialneg out_cancel out_reject out_term out_rep].
  rewrite removes_nil.
  destruct I as [P O R ON F INB D DN AN AS AC SU].
  set (m' := set_pending _ _).
  assert (Hpend : forall x, lookup x (pending m') = lookup x (pending m)).
  { intros x. subst m'. cbn [set_pending set_state set_known pending]. rewrite lookup_insert_key, lookup_remove_key.
    destruct (x =? c) eqn:E; [|reflexivity]. assert (x = c) by lia. subst x. now rewrite Hp. }
  assert (Hst : forall q, state_of m' q = if q =? p then Dialing c else state_of m q).
  { intros q. subst m'. rewrite so_pending, state_of_set_state, so_known, so_pending. reflexivity. }
  assert (Hacc : accepting m' = accepting m) by reflexivity.
  assert (Hnc : next_conn m' = next_conn m) by reflexivity.
  assert (Hgo : forall x, In x (removes [c; c] (g_open g)) <-> In x (g_open g) /\ x <> c).
  { intros x. rewrite in_removes. cbn [In]. intuition lia. }
  assert (Howed' : forall x, owed (mkG (removes [c; c] (g_open g)) (c :: g_neg g) (g_att g) (g_done g)
                                       (g_super g) (g_limrej g) (g_inb g) (g_rep g)) x <-> owed g x).
  { intros x. unfold owed. cbn [g_open g_neg In]. rewrite Hgo. split.
    - intros [[H _]|[<-|H]]; [now left | now left | now right].
    - intros [H|H]; [|right; now right]. destruct (N.eq_dec x c) as [->|Hne]; [right; now left | left; auto]. }
  assert (Hother : forall x q, x <> c -> lookup x (pending m) = Some q -> q <> p).
  { intros x q Hne Hx ->. destruct (P _ _ Hx) as (_ & _ & Hdx & _). rewrite Hop in Hdx. cbn in Hdx. congruence. }
  split; cbn [g_att g_done g_super g_limrej g_inb g_rep]; rewrite ?Hacc, ?Hnc; try assumption.
  - intros x q Hx. rewrite Hpend in Hx. rewrite Howed', Hst. destruct (P _ _ Hx) as (H1 & H2 & H3 & H4).
    destruct (N.eq_dec x c) as [->|Hne].
    + assert (q = p) by congruence. subst q. assert (p =? p = true) as -> by lia.
      repeat split; auto.
      * cbn [g_open]. rewrite Hgo. intros [_ Hc]. congruence.
      * discriminate.
    + assert (q =? p = false) as -> by (pose proof (Hother _ _ Hne Hx); lia).
      repeat split; auto.
      * cbn [g_open]. rewrite Hgo. intros [Hi _]. now apply H4.
      * intros Hx2. cbn [g_open]. rewrite Hgo. split; [now apply H4 | assumption].
  - intros x Hx. rewrite Howed' in Hx. rewrite Hpend. auto.
  - intros q x Hd. rewrite Hst in Hd. rewrite Hpend. destruct (q =? p) eqn:E.
    + assert (q = p) by lia. subst q. cbn in Hd. injection Hd as <-. exact Hp.
    + auto.
  - cbn [g_open g_neg]. intros x Hx. rewrite Hgo in Hx. destruct Hx as [Hx Hne]. cbn [In].
    intros [->|Hn2]; [congruence | exact (ON _ Hx Hn2)].
  - intros x Hx. rewrite Howed' in Hx. now apply F.
  - intros x Hx. rewrite Howed'. exact (D _ Hx).
  - intros x Hx. rewrite Howed'. exact (AS _ Hx).
  - intros x q Hx. rewrite Howed'. exact (AC _ _ Hx).
Qed.

Lemma keys_app_in {A} (l1 l2 : list (N * A)) x : In x (keys (l1 ++ l2)) <-> In x (keys l1) \/ In x (keys l2).
Proof. rewrite keys_app. apply in_app_iff. Qed.

Lemma nodup_keys_snoc {A} (l : list (N * A)) c v : NoDup (keys l) -> ~ In c (keys l) -> NoDup (keys (l ++ [(c, v)])).
Proof.
  intros Hn Hc. rewrite keys_app. cbn [keys map fst].
  apply (Permutation.Permutation_NoDup (l := c :: keys l)).
  - apply Permutation.Permutation_cons_append.
  - constructor; assumption.
Qed.

Lemma lookup_snoc_some {A} (l : list (N * A)) c v x y : lookup x l = Some y -> lookup x (l ++ [(c, v)]) = Some y.
Proof. intros H. rewrite lookup_app_last, H. reflexivity. Qed.

(* an outbound attempt c of peer p concludes with an accepted connection: it moves from the
   transport's obligations into the accept futures *)
Lemma linv_conclude_acc m g c p st' (b : bool) m' :
  LInv m g -> lookup c (pending m) = Some p ->
  pending m' = remove_key c (pending m) ->
  (forall q, state_of m' q = if q =? p then st' else state_of m q) -> dial_record st' = None ->
  accepting m' = accepting m ++ [(c, (p, b))] -> next_conn m' = next_conn m ->
  LInv m' (mkG (removes [c] (g_open g)) (removes [c] (g_neg g)) (g_att g) (g_done g) (g_super g)
               (g_limrej g) (g_inb g) (g_rep g)).
Proof.
  intros [P O R ON F INB D DN AN AS AC SU] Hl Hp Hs Hst Ha Hn.
  destruct (P _ _ Hl) as (Hoc & Hatc & Hdc & Hiffc).
  assert (Howed' : forall x, owed (mkG (removes [c] (g_open g)) (removes [c] (g_neg g)) (g_att g)
               (g_done g) (g_super g) (g_limrej g) (g_inb g) (g_rep g)) x <-> owed g x /\ x <> c).
  { intros x. unfold owed. cbn [g_open g_neg]. rewrite !in_removes1. tauto. }
  assert (Hother : forall x q, x <> c -> lookup x (pending m) = Some q -> q <> p).
  { intros x q Hne Hx ->. destruct (P _ _ Hx) as (_ & _ & Hdx & _). congruence. }
  assert (Hcacc : ~ In c (keys (accepting m))) by (intros Hin; exact (AS _ Hin Hoc)).
  assert (Hkacc : forall x, In x (keys (accepting m')) <-> In x (keys (accepting m)) \/ x = c).
  { intros x. rewrite Ha, keys_app_in. cbn [keys map fst In]. intuition. }
  split; cbn [g_att g_done g_super g_limrej g_inb g_rep]; rewrite ?Hp, ?Hn.
  - intros x q Hx. rewrite lookup_remove_key in Hx. destruct (x =? c) eqn:E; [discriminate|].
    assert (Hne : x <> c) by lia. destruct (P _ _ Hx) as (Ho & Hat & Hd & Hiff).
    rewrite Howed', Hs. assert (q =? p = false) as -> by (pose proof (Hother _ _ Hne Hx); lia).
    repeat split; auto.
    + cbn [g_open]. rewrite in_removes1. intros [Hin _]. now apply Hiff.
    + intros Hop. cbn [g_open]. rewrite in_removes1. split; [now apply Hiff | assumption].
  - intros x Hx. apply Howed' in Hx. destruct Hx as [Hx Hne]. destruct (O _ Hx) as [q Hq].
    exists q. rewrite lookup_remove_key. assert (x =? c = false) as -> by lia. exact Hq.
  - intros q x Hd. rewrite Hs in Hd. destruct (q =? p) eqn:E; [congruence|].
    specialize (R _ _ Hd). rewrite lookup_remove_key. destruct (x =? c) eqn:E2; [|exact R].
    assert (x = c) by lia. subst x. rewrite Hl in R. injection R as ->. lia.
  - cbn [g_open g_neg]. intros x Hx. rewrite in_removes1 in *. intros [Hn2 _]. destruct Hx as [Hx _].
    exact (ON _ Hx Hn2).
  - intros x Hx. rewrite Howed', Hkacc in Hx.
    assert (Hc : c < next_conn m) by (apply F; now left).
    assert (Hx' : x = c \/ (owed g x \/ In x (keys (g_att g)) \/ In x (g_inb g) \/ In x (g_done g) \/
                             In x (keys (accepting m)) \/ In x (g_super g))) by intuition.
    destruct Hx' as [->|Hx']; [exact Hc | now apply F].
  - intros x Hx. destruct (INB _ Hx) as (H1 & H2 & H3). rewrite Hkacc. repeat split; auto.
    intros [H| ->]; [contradiction|]. apply H1. eapply lookup_in_keys. exact Hatc.
  - intros x Hx. rewrite Howed', Hkacc. destruct (D _ Hx) as [H1 H2]. split; [tauto|].
    intros [H| ->]; contradiction.
  - assumption.
  - rewrite Ha. now apply nodup_keys_snoc.
  - intros x Hx. rewrite Howed'. rewrite Hkacc in Hx. intros [H Hne]. destruct Hx as [Hx| ->]; [|congruence].
    exact (AS _ Hx H).
  - intros x q Hx. rewrite Howed', Hkacc. destruct (x =? c) eqn:E.
    + do 4 right. right. lia.
    + destruct (AC _ _ Hx) as [H|[H|[H|[H|H]]]]; auto.
      * left. split; [assumption | lia].
      * do 4 right. now left.
  - intros x q Hx Hat. destruct (SU _ _ Hx Hat) as [H|(c' & b' & H)]; [now left|].
    right. exists c', b'. rewrite Ha. now apply lookup_snoc_some.
Qed.

Lemma established_own_record s c :
  dial_record s = Some c -> s <> Opening c ->
  snd (st_on_established s c) = true /\ dial_record (fst (st_on_established s c)) = None /\
  (forall d, s <> Opening d).
Proof.
  destruct s as [r [[e|e]|]|o|o|[o|]]; cbn [dial_record]; try discriminate; intros [= ->] Hne;
    cbn [st_on_established]; try (assert (c =? c = true) as -> by lia); cbn [fst snd dial_record];
    try (repeat split; discriminate). congruence.
Qed.

Lemma nondefault_exists m p : state_of m p <> Disconnected None ->
  existsb (fun kp : N * pstate => fst kp =? p) (peers m) = true.
Proof.
  unfold state_of. induction (peers m) as [|[k v] t IH]; cbn [lookup existsb fst]; [congruence|].
  destruct (k =? p); [reflexivity|]. cbn [orb]. exact IH.
Qed.

Lemma mem_single c : mem c [c] = true.
Proof. unfold mem. cbn [existsb]. assert (c =? c = true) as -> by lia. reflexivity. Qed.

Lemma linv_established_dialer L m g p c :
  LInv m g -> In c (g_neg g) -> lookup c (g_att g) = Some p ->
  LInv (fst (do_established L m p c false false))
       (gstep (TrEstablished p c false false) (snd (do_established L m p c false false)) g).
Proof.
  intros I Hin Hat. destruct (owed_neg_facts _ _ _ _ I Hin Hat) as (Hp & Hd & Hno).
  assert (Hnotopen : ~ In c (g_open g)).
  { destruct I as [_ _ _ ON _ _ _ _ _ _ _ _]. intros H. exact (ON _ H Hin). }
  unfold do_established. cbn [set_known pending]. rewrite Hp.
  assert (p =? p = true) as -> by lia.
  unfold do_established_checked. rewrite so_pending, so_known.
  cbn [set_pending set_known outs ins].
  destruct (limit_reached (max_out L) (outs m)).
  - (* rejected by the limit: the attempt ends without report (known finding), the record is cleared *)
    rewrite nondefault_exists.
    2:{ rewrite so_pending, so_known. intros E. rewrite E in Hd. discriminate. }
    cbn [fst snd]. unfold gstep.
    cbn [flat_map app out_open out_dialneg out_cancel out_reject out_term out_rep]. rewrite mem_single.
    rewrite removes_nil. rewrite <- (removes_notin c (g_open g) Hnotopen) at 1.
    apply (linv_conclude m g c p (st_on_dial_failure (state_of m p) c) false); auto.
    + intros q. rewrite state_of_set_state, so_pending, so_known. reflexivity.
    + now apply dial_record_on_failure.
  - destruct (established_own_record _ _ Hd Hno) as (Hacc & Hrec & Hnop).
    destruct (st_on_established (state_of m p) c) as [s' acc] eqn:Est. cbn [fst snd] in Hacc, Hrec. subst acc.
    cbn [negb].
    assert (Hprev : forall (A : Type) (x : mgr -> conn -> A) (y : A),
               match state_of m p with Opening d => x m d | _ => y end = y).
    { intros A x y. destruct (state_of m p); try reflexivity. exfalso. eapply Hnop. reflexivity. }
    destruct (state_of m p) as [r sc|o|o|o] eqn:Es; try (exfalso; eapply Hnop; reflexivity);
      cbn [fst snd app]; unfold gstep;
      cbn [flat_map app out_open out_dialneg out_cancel out_reject out_term out_rep mem existsb];
      rewrite removes_nil; rewrite <- (removes_notin c (g_open g) Hnotopen) at 1;
      (apply (linv_conclude_acc m g c p s' false); auto;
       [ intros q; rewrite so_accepting, so_limits, state_of_set_state, so_pending, so_known; reflexivity ]).
Qed.

Definition with_inb (g : ghost) (i : list conn) : ghost :=
  mkG (g_open g) (g_neg g) (g_att g) (g_done g) (g_super g) (g_limrej g) i (g_rep g).

Lemma inb_facts m g c : LInv m g -> In c (g_inb g) ->
  ~ owed g c /\ lookup c (pending m) = None /\ ~ In c (keys (accepting m)) /\ ~ In c (g_done g) /\
  ~ In c (keys (g_att g)) /\ c < next_conn m.
Proof.
  intros [P O R ON F INB D DN AN AS AC SU] Hin. destruct (INB _ Hin) as (H1 & H2 & H3).
  assert (Hno : ~ owed g c).
  { intros Ho. destruct (O _ Ho) as [q Hq]. destruct (P _ _ Hq) as (_ & Hat & _). apply H1.
    eapply lookup_in_keys. exact Hat. }
  assert (Hpn : lookup c (pending m) = None).
  { destruct (lookup c (pending m)) as [q|] eqn:E; [|reflexivity].
    exfalso. destruct (P _ _ E) as (Ho & _). contradiction. }
  assert (Hlt : c < next_conn m) by (apply F; intuition).
  repeat split; assumption.
Qed.

(* dropping an unused inbound id (the connection was rejected) *)
Lemma linv_inb_drop m g c m' :
  LInv m g -> pending m' = pending m -> (forall q, state_of m' q = state_of m q) ->
  accepting m' = accepting m -> next_conn m' = next_conn m ->
  LInv m' (with_inb g (removes [c] (g_inb g))).
Proof.
  intros [P O R ON F INB D DN AN AS AC SU] Hp Hs Ha Hn. unfold with_inb.
  split; cbn [g_open g_neg g_att g_done g_super g_limrej g_inb g_rep]; rewrite ?Hp, ?Ha, ?Hn; try assumption.
  - intros x q Hx. rewrite Hs. exact (P _ _ Hx).
  - intros q x Hx. rewrite Hs in Hx. auto.
  - intros x Hx. apply F. unfold owed in *. cbn [g_open g_neg] in Hx. rewrite in_removes1 in Hx. intuition.
  - intros x Hx. rewrite in_removes1 in Hx. destruct Hx as [Hx _]. auto.
Qed.

(* accepting an inbound connection c for p whose peer state keeps its dial record *)
Lemma linv_inb_accept m g c p m' :
  LInv m g -> In c (g_inb g) ->
  pending m' = pending m -> (forall q, state_of m' q = state_of m q) ->
  accepting m' = accepting m ++ [(c, (p, true))] -> next_conn m' = next_conn m ->
  LInv m' (with_inb g (removes [c] (g_inb g))).
Proof.
  intros I Hin Hp Hs Ha Hn. destruct (inb_facts _ _ _ I Hin) as (Hno & Hpc & Hac & Hdc & Hatc & Hlt).
  destruct I as [P O R ON F INB D DN AN AS AC SU]. unfold with_inb.
  assert (Hkacc : forall x, In x (keys (accepting m')) <-> In x (keys (accepting m)) \/ x = c).
  { intros x. rewrite Ha, keys_app_in. cbn [keys map fst In]. intuition. }
  split; cbn [g_open g_neg g_att g_done g_super g_limrej g_inb g_rep]; rewrite ?Hp, ?Hn; try assumption.
  - intros x q Hx. rewrite Hs. exact (P _ _ Hx).
  - intros q x Hx. rewrite Hs in Hx. auto.
  - intros x Hx. unfold owed in Hx. cbn [g_open g_neg] in Hx. rewrite in_removes1, Hkacc in Hx.
    assert (Hx' : x = c \/ (owed g x \/ In x (keys (g_att g)) \/ In x (g_inb g) \/ In x (g_done g) \/
                             In x (keys (accepting m)) \/ In x (g_super g))) by (unfold owed; intuition).
    destruct Hx' as [->|Hx']; [exact Hlt | now apply F].
  - intros x Hx. rewrite in_removes1 in Hx. destruct Hx as [Hx Hne]. destruct (INB _ Hx) as (H1 & H2 & H3).
    rewrite Hkacc. repeat split; auto. intros [H|H]; contradiction.
  - intros x Hx. destruct (D _ Hx) as [H1 H2]. split; [exact H1|]. rewrite Hkacc.
    intros [H| ->]; contradiction.
  - rewrite Ha. now apply nodup_keys_snoc.
  - intros x Hx. rewrite Hkacc in Hx. destruct Hx as [Hx| ->]; [exact (AS _ Hx) | exact Hno].
  - intros x q Hx. rewrite Hkacc. destruct (AC _ _ Hx) as [H|[H|[H|[H|H]]]]; auto. do 4 right. now left.
  - intros x q Hx Hat. destruct (SU _ _ Hx Hat) as [H|(c' & b' & H)]; [now left|].
    right. exists c', b'. rewrite Ha. now apply lookup_snoc_some.
Qed.

(* an opening attempt d of peer p is superseded: an accept future for a connection with p exists *)
Lemma linv_conclude_super m g d p st' m' :
  LInv m g -> lookup d (pending m) = Some p ->
  (exists c' b, lookup c' (accepting m) = Some (p, b)) ->
  pending m' = remove_key d (pending m) ->
  (forall q, state_of m' q = if q =? p then st' else state_of m q) -> dial_record st' = None ->
  accepting m' = accepting m -> next_conn m' = next_conn m ->
  LInv m' (mkG (removes [d] (g_open g)) (removes [d] (g_neg g)) (g_att g) (g_done g) (d :: g_super g)
               (g_limrej g) (g_inb g) (g_rep g)).
Proof.
  intros [P O R ON F INB D DN AN AS AC SU] Hl Hwit Hp Hs Hst Ha Hn.
  destruct (P _ _ Hl) as (Hoc & Hatc & Hdc & Hiffc).
  assert (Howed' : forall x, owed (mkG (removes [d] (g_open g)) (removes [d] (g_neg g)) (g_att g)
               (g_done g) (d :: g_super g) (g_limrej g) (g_inb g) (g_rep g)) x <-> owed g x /\ x <> d).
  { intros x. unfold owed. cbn [g_open g_neg]. rewrite !in_removes1. tauto. }
  assert (Hother : forall x q, x <> d -> lookup x (pending m) = Some q -> q <> p).
  { intros x q Hne Hx ->. destruct (P _ _ Hx) as (_ & _ & Hdx & _). congruence. }
  split; cbn [g_att g_done g_super g_limrej g_inb g_rep]; rewrite ?Hp, ?Ha, ?Hn.
  - intros x q Hx. rewrite lookup_remove_key in Hx. destruct (x =? d) eqn:E; [discriminate|].
    assert (Hne : x <> d) by lia. destruct (P _ _ Hx) as (Ho & Hat & Hd & Hiff).
    rewrite Howed', Hs. assert (q =? p = false) as -> by (pose proof (Hother _ _ Hne Hx); lia).
    repeat split; auto.
    + cbn [g_open]. rewrite in_removes1. intros [Hin _]. now apply Hiff.
    + intros Hop. cbn [g_open]. rewrite in_removes1. split; [now apply Hiff | assumption].
  - intros x Hx. apply Howed' in Hx. destruct Hx as [Hx Hne]. destruct (O _ Hx) as [q Hq].
    exists q. rewrite lookup_remove_key. assert (x =? d = false) as -> by lia. exact Hq.
  - intros q x Hd. rewrite Hs in Hd. destruct (q =? p) eqn:E; [congruence|].
    specialize (R _ _ Hd). rewrite lookup_remove_key. destruct (x =? d) eqn:E2; [|exact R].
    assert (x = d) by lia. subst x. rewrite Hl in R. injection R as ->. lia.
  - cbn [g_open g_neg]. intros x Hx. rewrite in_removes1 in *. intros [Hn2 _]. destruct Hx as [Hx _].
    exact (ON _ Hx Hn2).
  - intros x Hx. rewrite Howed' in Hx. cbn [In] in Hx.
    assert (Hc : d < next_conn m) by (apply F; now left).
    assert (Hx' : x = d \/ (owed g x \/ In x (keys (g_att g)) \/ In x (g_inb g) \/ In x (g_done g) \/
                             In x (keys (accepting m)) \/ In x (g_super g))) by intuition.
    destruct Hx' as [->|Hx']; [exact Hc | now apply F].
  - exact INB.
  - intros x Hx. rewrite Howed'. destruct (D _ Hx) as [H1 H2]. split; [tauto | assumption].
  - assumption.
  - assumption.
  - intros x Hx. rewrite Howed'. intros [H _]. exact (AS _ Hx H).
  - intros x q Hx. rewrite Howed'. cbn [In]. destruct (x =? d) eqn:E.
    + do 2 right. left. left. lia.
    + destruct (AC _ _ Hx) as [H|[H|[H|[H|H]]]]; auto.
      left. split; [assumption | lia].
  - intros x q Hx Hat. cbn [In] in Hx. destruct Hx as [<-|Hx]; [|eauto].
    right. assert (q = p) by congruence. subst q. exact Hwit.
Qed.

Lemma no_record_is_inb m g c p : LInv m g -> In c (g_inb g) -> st_on_dial_failure (state_of m p) c = state_of m p.
Proof.
  intros I Hin. destruct (inb_facts _ _ _ I Hin) as (_ & _ & _ & _ & Hatc & _).
  destruct I as [P O R ON F INB D DN AN AS AC SU].
  destruct (dial_record (state_of m p)) as [d|] eqn:Ed.
  - apply (dial_record_on_failure_other _ _ d Ed). intros ->.
    specialize (R _ _ Ed). destruct (P _ _ R) as (_ & Hat & _). apply Hatc. eapply lookup_in_keys. exact Hat.
  - now apply dial_record_on_failure_none.
Qed.

Lemma linv_established_listener L m g p c :
  LInv m g -> In c (g_inb g) ->
  LInv (fst (do_established L m p c true false))
       (gstep (TrEstablished p c true false) (snd (do_established L m p c true false)) g).
Proof.
  intros I Hin. destruct (inb_facts _ _ _ I Hin) as (Hno & Hpc & Hac & Hdc & Hatc & Hlt).
  pose proof (no_record_is_inb m g c p I Hin) as Hsame.
  unfold do_established. rewrite Hpc, (remove_key_notin c (pending m) Hpc).
  unfold do_established_checked. cbn [set_pending ins outs]. rewrite so_pending.
  destruct (limit_reached (max_in L) (ins m)).
  { (* rejected by the inbound limit: nothing changes but the id is used up *)
    rewrite Hsame.
    destruct (existsb _ _); cbn [fst snd]; unfold gstep;
      cbn [flat_map app out_open out_dialneg out_cancel out_reject out_term out_rep]; rewrite !removes_nil;
      apply (linv_inb_drop m g c); auto; intros q.
    rewrite state_of_set_state, so_pending. destruct (q =? p) eqn:E; [|reflexivity].
    assert (q = p) by lia. now subst q. }
  destruct (state_of m p) as [r [[e|e]|]|d|d|[d|]] eqn:Es; cbn [st_on_established negb].
  - (* already two connections: rejected *)
    cbn [fst snd]. unfold gstep. cbn [flat_map app out_open out_dialneg out_cancel out_reject out_term out_rep].
    rewrite !removes_nil. apply (linv_inb_drop m g c); auto.
  - (* connected with an own dial in flight: the record is another id, rejected *)
    assert (e =? c = false) as ->.
    { destruct (e =? c) eqn:E; [|reflexivity]. exfalso. assert (e = c) by lia. subst e.
      destruct I as [P O R ON F INB D DN AN AS AC SU].
      assert (Hr : dial_record (state_of m p) = Some c) by (rewrite Es; reflexivity).
      specialize (R _ _ Hr). congruence. }
    cbn [negb fst snd]. unfold gstep. cbn [flat_map app out_open out_dialneg out_cancel out_reject out_term out_rep].
    rewrite !removes_nil. apply (linv_inb_drop m g c); auto.
  - (* connected, room for a secondary *)
    cbn [fst snd app]. unfold gstep. cbn [flat_map app out_open out_dialneg out_cancel out_reject out_term out_rep].
    rewrite !removes_nil.
    apply (linv_inb_accept (set_state m p (Connected r (Some (SecEst c)))) g c p); auto.
    + apply (linv_same_record m g p (Connected r (Some (SecEst c)))); auto.
      * intros q. now rewrite state_of_set_state.
      * now rewrite Es.
      * intros x. rewrite Es. split; discriminate.
  - (* Opening d: the inbound connection wins, the open is cancelled *)
    cbn [fst snd app]. unfold gstep. cbn [flat_map app out_open out_dialneg out_cancel out_reject out_term out_rep].
    rewrite !removes_nil.
    assert (Hrec : dial_record (state_of m p) = Some d) by (rewrite Es; reflexivity).
    assert (Hpd : lookup d (pending m) = Some p) by (destruct I as [_ _ R _ _ _ _ _ _ _ _ _]; auto).
    assert (Hdo : In d (g_open g)).
    { destruct I as [P _ _ _ _ _ _ _ _ _ _ _]. destruct (P _ _ Hpd) as (_ & _ & _ & Hiff). now apply Hiff. }
    assert (Hdn : ~ In d (g_neg g)) by (destruct I as [_ _ _ ON _ _ _ _ _ _ _ _]; now apply ON).
    rewrite <- (removes_notin d (g_neg g) Hdn).
    set (ma := set_accepting m (accepting m ++ [(c, (p, true))])).
    assert (Ia : LInv ma (with_inb g (removes [c] (g_inb g)))).
    { apply (linv_inb_accept m g c p); auto. }
    apply (linv_conclude_super ma (with_inb g (removes [c] (g_inb g))) d p (Connected c None)); auto.
    + exists c, true. cbn [ma set_accepting accepting]. rewrite lookup_app_last.
      destruct (lookup c (accepting m)) as [v|] eqn:El.
      * exfalso. apply Hac. eapply lookup_in_keys. exact El.
      * assert (c =? c = true) as -> by lia. reflexivity.
    + intros q. rewrite so_accepting, so_pending, so_limits, state_of_set_state, so_pending. reflexivity.
  - (* Dialing d: the inbound connection becomes primary, the dial record is kept *)
    assert (d =? c = false) as ->.
    { destruct (d =? c) eqn:E; [|reflexivity]. exfalso. assert (d = c) by lia. subst d.
      destruct I as [P O R ON F INB D DN AN AS AC SU].
      assert (Hr : dial_record (state_of m p) = Some c) by (rewrite Es; reflexivity).
      specialize (R _ _ Hr). congruence. }
    cbn [fst snd app]. unfold gstep. cbn [flat_map app out_open out_dialneg out_cancel out_reject out_term out_rep].
    rewrite !removes_nil.
    apply (linv_inb_accept (set_state m p (Connected c (Some (SecDial d)))) g c p); auto.
    + apply (linv_same_record m g p (Connected c (Some (SecDial d)))); auto.
      * intros q. now rewrite state_of_set_state.
      * now rewrite Es.
      * intros x. rewrite Es. split; discriminate.
  - (* Disconnected with a dial record *)
    assert (d =? c = false) as ->.
    { destruct (d =? c) eqn:E; [|reflexivity]. exfalso. assert (d = c) by lia. subst d.
      destruct I as [P O R ON F INB D DN AN AS AC SU].
      assert (Hr : dial_record (state_of m p) = Some c) by (rewrite Es; reflexivity).
      specialize (R _ _ Hr). congruence. }
    cbn [fst snd app]. unfold gstep. cbn [flat_map app out_open out_dialneg out_cancel out_reject out_term out_rep].
    rewrite !removes_nil.
    apply (linv_inb_accept (set_state m p (Connected c (Some (SecDial d)))) g c p); auto.
    + apply (linv_same_record m g p (Connected c (Some (SecDial d)))); auto.
      * intros q. now rewrite state_of_set_state.
      * now rewrite Es.
      * intros x. rewrite Es. split; discriminate.
  - (* fully disconnected *)
    cbn [fst snd app]. unfold gstep. cbn [flat_map app out_open out_dialneg out_cancel out_reject out_term out_rep].
    rewrite !removes_nil.
    apply (linv_inb_accept (set_state m p (Connected c None)) g c p); auto.
    + apply (linv_same_record m g p (Connected c None)); auto.
      * intros q. now rewrite state_of_set_state.
      * now rewrite Es.
      * intros x. rewrite Es. split; discriminate.
Qed.

Lemma linv_accept_done m g c :
  LInv m g -> In c (keys (accepting m)) ->
  LInv (fst (do_accept_done m c true)) (gstep (AcceptDone c true) (snd (do_accept_done m c true)) g).
Proof.
  intros [P O R ON F INB D DN AN AS AC SU] Hin.
  destruct (keys_in_lookup _ _ Hin) as [[p b] Hl].
  unfold do_accept_done. rewrite Hl. cbn [fst snd].
  unfold gstep. cbn [flat_map app out_open out_dialneg out_cancel out_reject out_term out_rep].
  rewrite !removes_nil.
  assert (Hlk : forall x, lookup x (remove_first c (accepting m)) = if x =? c then None else lookup x (accepting m)).
  { intros x. now apply lookup_remove_first. }
  assert (Hk : forall x, In x (keys (remove_first c (accepting m))) <-> In x (keys (accepting m)) /\ x <> c).
  { intros x. split.
    - intros Hx. apply keys_in_lookup in Hx. destruct Hx as [v Hv]. rewrite Hlk in Hv.
      destruct (x =? c) eqn:E; [discriminate|]. split; [eapply lookup_in_keys; exact Hv | lia].
    - intros [Hx Hne]. apply keys_in_lookup in Hx. destruct Hx as [v Hv].
      apply (lookup_in_keys x _ v). rewrite Hlk. assert (x =? c = false) as -> by lia. exact Hv. }
  split; cbn [set_accepting pending accepting next_conn g_open g_neg g_att g_done g_super g_limrej g_inb g_rep];
    try assumption.
  - intros x Hx. rewrite Hk in Hx. cbn [In] in Hx.
    assert (Hx' : owed g x \/ In x (keys (g_att g)) \/ In x (g_inb g) \/ In x (g_done g) \/
                  In x (keys (accepting m)) \/ In x (g_super g)).
    { destruct Hx as [H|[H|[H|[[<-|H]|[[H _]|H]]]]]; auto 10. }
    now apply F.
  - intros x Hx. destruct (INB _ Hx) as (H1 & H2 & H3). rewrite Hk. repeat split; auto.
    + cbn [In]. intros [<-|H]; contradiction.
    + intros [H _]. contradiction.
  - intros x Hx. rewrite Hk. cbn [In] in Hx. destruct Hx as [<-|Hx].
    + split; [exact (AS _ Hin)|]. intros [_ Hne]. congruence.
    + destruct (D _ Hx) as [H1 H2]. split; [assumption|]. intros [H _]. contradiction.
  - constructor; [|assumption]. intros Hd. destruct (D _ Hd) as [_ H2]. contradiction.
  - now apply nodup_remove_first.
  - intros x Hx. rewrite Hk in Hx. destruct Hx as [Hx _]. exact (AS _ Hx).
  - intros x q Hx. rewrite Hk. cbn [In]. destruct (AC _ _ Hx) as [H|[H|[H|[H|H]]]]; auto.
    destruct (N.eq_dec x c) as [->|Hne]; [right; left; now left | do 4 right; auto].
  - intros x q Hx Hat. cbn [In]. destruct (SU _ _ Hx Hat) as [H|(c' & b' & H)]; [left; now right|].
    destruct (N.eq_dec c' c) as [->|Hne].
    + left. left. congruence.
    + right. exists c', b'. rewrite Hlk. assert (c' =? c = false) as -> by lia. exact H.
Qed.

Lemma alloc_of_ret n : alloc_of [Ret (RET_ALLOC + n)] = [n].
Proof.
  unfold alloc_of. cbn [flat_map app]. assert (RET_ALLOC <=? RET_ALLOC + n = true) as -> by lia.
  cbn [app]. f_equal. lia.
Qed.

Lemma linv_alloc m g :
  LInv m g -> LInv (bump_conn m) (gstep AllocConn [Ret (RET_ALLOC + next_conn m)] g).
Proof.
  intros [P O R ON F INB D DN AN AS AC SU].
  unfold gstep. rewrite alloc_of_ret.
  cbn [flat_map app out_open out_dialneg out_cancel out_reject out_term out_rep]. rewrite !removes_nil.
  assert (Hfresh : forall x, (owed g x \/ In x (keys (g_att g)) \/ In x (g_inb g) \/ In x (g_done g) \/
                              In x (keys (accepting m)) \/ In x (g_super g)) -> x <> next_conn m).
  { intros x Hx. specialize (F x Hx). lia. }
  split; cbn [bump_conn pending accepting next_conn g_open g_neg g_att g_done g_super g_limrej g_inb g_rep];
    try assumption.
  - intros x Hx. cbn [In] in Hx.
    assert (Hx' : x = next_conn m \/ (owed g x \/ In x (keys (g_att g)) \/ In x (g_inb g) \/ In x (g_done g) \/
                  In x (keys (accepting m)) \/ In x (g_super g))).
    { destruct Hx as [H|[H|[[<-|H]|H]]]; auto 10. }
    destruct Hx' as [->|Hx']; [lia|]. specialize (F _ Hx'). lia.
  - intros x Hx. cbn [In] in Hx. destruct Hx as [<-|Hx]; [|auto].
    repeat split; intros H; apply (Hfresh (next_conn m)); auto 10.
Qed.


Lemma gstep_shape_tcp a p os g :
  dial_shape LISTEN a = SvTcp p -> gstep (CmdDialShape a) os g = gstep (CmdDialAddr p false) os g.
Proof. intros H. unfold gstep. now rewrite H. Qed.

Lemma linv_dial_shape L m g a :
  LInv m g ->
  LInv (fst (do_dial_shape L m a)) (gstep (CmdDialShape a) (snd (do_dial_shape L m a)) g).
Proof.
  intros I. unfold do_dial_shape.
  destruct (limit_reached (max_out L) (outs m)).
  { cbn [fst snd]. rewrite gstep_quiet_cmd; [exact I | apply quiet_ret; reflexivity | exact Logic.I]. }
  destruct (dial_shape LISTEN a) as [code|p|p] eqn:Es.
  - cbn [fst snd].
    assert (Hcode : code < RET_ALLOC).
    { unfold dial_shape in Es.
      repeat match type of Es with
             | context [match ?x with _ => _ end] => destruct x; try discriminate
             | context [if ?b then _ else _] => destruct b; try discriminate
             end; injection Es as <-; reflexivity. }
    rewrite gstep_quiet_cmd; [exact I | now apply quiet_ret | exact Logic.I].
  - rewrite (gstep_shape_tcp a p _ g Es). now apply linv_dial_addr.
  - cbn [fst snd]. rewrite gstep_quiet_cmd; [exact I | apply quiet_ret; reflexivity | exact Logic.I].
Qed.

Lemma linv_init : LInv init g0.
Proof.
  split; cbn; try (intros; discriminate); try (intros; tauto); try constructor.
  - intros c [H|H]; destruct H.
  - intros c H. unfold owed in H. cbn in H. intuition.
Qed.

Theorem linv_step L m g e :
  LInv m g -> feas m g e -> LInv (fst (step L m e)) (gstep e (snd (step L m e)) g).
Proof.
  intros I He. destruct e as [p f|p f|p|c pa|c f|c pa|p c lst f|c|c ok|p c| |a]; cbn [step feas] in *.
  - subst f. now apply linv_dial_peer.
  - subst f. now apply linv_dial_addr.
  - cbn [fst snd]. rewrite gstep_quiet_cmd; [|apply quiet_nil|exact Logic.I].
    eapply linv_frame; [| | | |exact I]; reflexivity.
  - destruct He as [H1 H2]. now apply linv_dial_failure.
  - destruct He as [-> H]. now apply linv_opened.
  - destruct He as [H1 H2]. now apply linv_open_failure.
  - destruct He as [-> H]. destruct lst.
    + now apply linv_established_listener.
    + destruct H as [H1 H2]. now apply linv_established_dialer.
  - destruct (limit_reached (max_in L) (ins m)); cbn [fst snd];
      (rewrite gstep_quiet_cmd; [exact I| |exact Logic.I]);
      unfold quiet, alloc_of; cbn; repeat split.
  - destruct He as [-> H]. now apply linv_accept_done.
  - pose proof (linv_closed m g p c I) as K. destruct (do_closed m p c) as [m1 rep]. cbn [fst snd] in *.
    rewrite gstep_quiet_cmd; [exact K| |exact Logic.I].
    destruct rep; unfold quiet, alloc_of; cbn; repeat split.
  - cbn [fst snd]. now apply linv_alloc.
  - now apply linv_dial_shape.
Qed.

(* ---------- histories ---------- *)
Fixpoint lrun (L : limits) (m : mgr) (g : ghost) (es : list ev) : mgr * ghost :=
  match es with
  | [] => (m, g)
  | e :: t => lrun L (fst (step L m e)) (gstep e (snd (step L m e)) g) t
  end.

(* a history the transport contract allows *)
Fixpoint feasible (L : limits) (m : mgr) (g : ghost) (es : list ev) : Prop :=
  match es with
  | [] => True
  | e :: t => feas m g e /\ feasible L (fst (step L m e)) (gstep e (snd (step L m e)) g) t
  end.

Theorem linv_run L es : forall m g,
  LInv m g -> feasible L m g es -> LInv (fst (lrun L m g es)) (snd (lrun L m g es)).
Proof.
  induction es as [|e t IH]; intros m g I Hf; cbn [lrun fst snd]; [exact I|].
  destruct Hf as [H1 H2]. apply IH; [now apply linv_step | exact H2].
Qed.

(* all terminal outputs of a run, most recent first *)
Fixpoint terminals (L : limits) (m : mgr) (es : list ev) : list conn :=
  match es with
  | [] => []
  | e :: t => terminals L (fst (step L m e)) t ++ flat_map out_term (snd (step L m e))
  end.

Lemma done_is_terminals L es : forall m g,
  g_done (snd (lrun L m g es)) = terminals L m es ++ g_done g.
Proof.
  induction es as [|e t IH]; intros m g; cbn [lrun terminals snd]; [reflexivity|].
  rewrite IH. unfold gstep. cbn [g_done]. now rewrite app_assoc.
Qed.

(* T1 — never two terminal outputs (connection reported / failure reported) naming the same
   connection id, on any feasible history *)
Theorem at_most_one_outcome L es :
  feasible L init g0 es -> NoDup (terminals L init es).
Proof.
  intros Hf. pose proof (linv_run L es init g0 linv_init Hf) as I.
  destruct I as [_ _ _ _ _ _ _ DN _ _ _ _]. rewrite done_is_terminals in DN.
  cbn [g0 g_done] in DN. now rewrite app_nil_r in DN.
Qed.

Definition quiescent (m : mgr) (g : ghost) : Prop :=
  g_open g = [] /\ g_neg g = [] /\ accepting m = [].

(* T2 — never silence: once the transport owes nothing and no accept future is pending, every
   accepted dial attempt has been named by a terminal output, or was superseded by a reported
   connection with the same peer, or belongs to the recorded finding (rejected by the limit) *)
Theorem no_silence L es :
  feasible L init g0 es ->
  let '(m, g) := lrun L init g0 es in
  quiescent m g ->
  forall c p, lookup c (g_att g) = Some p ->
    In c (g_done g) \/ (In c (g_super g) /\ In p (g_rep g)) \/ In c (g_limrej g).
Proof.
  intros Hf. pose proof (linv_run L es init g0 linv_init Hf) as I.
  destruct (lrun L init g0 es) as [m g]. cbn [fst snd] in I.
  intros (Ho & Hn & Ha) c p Hat.
  destruct I as [P O R ON F INB D DN AN AS AC SU].
  destruct (AC _ _ Hat) as [H|[H|[H|[H|H]]]].
  - exfalso. unfold owed in H. rewrite Ho, Hn in H. destruct H as [[]|[]].
  - now left.
  - right. left. split; [assumption|]. destruct (SU _ _ H Hat) as [Hr|(c' & b & Hl)]; [assumption|].
    rewrite Ha in Hl. discriminate.
  - right. now right.
  - rewrite Ha in H. destruct H.
Qed.

(* T3 — no wedged peer: at quiescence every peer is connected without dial record or fully
   disconnected, hence (settled_can_dial, redial_attempted) can be dialled again and the dial is
   really attempted *)
Theorem no_wedge L es :
  feasible L init g0 es ->
  let '(m, g) := lrun L init g0 es in
  quiescent m g -> forall p, settled (state_of m p).
Proof.
  intros Hf. pose proof (linv_run L es init g0 linv_init Hf) as I.
  destruct (lrun L init g0 es) as [m g]. cbn [fst snd] in I.
  intros (Ho & Hn & Ha) p. unfold settled.
  destruct (dial_record (state_of m p)) as [c|] eqn:E; [|reflexivity].
  exfalso. destruct I as [P O R ON F INB D DN AN AS AC SU].
  specialize (R _ _ E). destruct (P _ _ R) as (H & _). unfold owed in H. rewrite Ho, Hn in H.
  destruct H as [[]|[]].
Qed.

(* every pending attempt is owed an answer by the transport: nobody waits for nothing, at any
   point of any feasible history (the invariant behind T3) *)
Theorem pending_is_owed L es :
  feasible L init g0 es ->
  let '(m, g) := lrun L init g0 es in
  forall p c, dial_record (state_of m p) = Some c -> owed g c.
Proof.
  intros Hf. pose proof (linv_run L es init g0 linv_init Hf) as I.
  destruct (lrun L init g0 es) as [m g]. cbn [fst snd] in I.
  intros p c E. destruct I as [P O R ON F INB D DN AN AS AC SU].
  specialize (R _ _ E). now destruct (P _ _ R).
Qed.
