(* Mgr — C05: the dial ledger as an inductive invariant over every feasible event history.

   Ghost state (computed from the events and from the calls the manager makes, never from its
   private maps): what the transports still owe an answer for — in the opening phase per
   (connection id, transport) —, which attempts exist, which were named by a terminal output,
   which were superseded / rejected by the limit. The transport contract (`feas`) says which
   events may happen given those obligations. *)
From Coq Require Import List Arith NArith Bool Lia.
From Coq Require Import ZifyBool ZifyNat ZifyN.
From V.Mgr Require Import DialShape Model Caps Ledger.
Import ListNotations.
Open Scope N_scope.

Arguments N.add : simpl never.
Arguments N.eqb : simpl never.
Arguments N.leb : simpl never.
Arguments N.ltb : simpl never.
Arguments N.of_nat : simpl never.

Record ghost := mkG {
  g_open : list (conn * tr);     (* open(c) called on transport t, not answered by t, not cancelled on t *)
  g_neg : list conn;             (* dial(c) / negotiate(c) called, not answered *)
  g_att : list (conn * peer);    (* accepted dial attempts: id -> dialled peer *)
  g_done : list conn;            (* ids named by a terminal output so far *)
  g_super : list conn;           (* attempts cancelled because an inbound connection won *)
  g_limrej : list conn;          (* outbound connections rejected by the connection limit *)
  g_inb : list conn;             (* ids drawn for inbound sockets, not used yet *)
  g_rep : list peer              (* peers for which ConnectionEstablished was reported *)
}.

Definition g0 : ghost := mkG [] [] [] [] [] [] [] [].

Definition out_open (o : out) : list (conn * tr) := match o with CallOpen c t => [(c, t)] | _ => [] end.
Definition out_dialneg (o : out) : list conn :=
  match o with CallDial c _ | CallNegotiate c _ => [c] | _ => [] end.
Definition out_cancel (o : out) : list (conn * tr) := match o with CallCancel c t => [(c, t)] | _ => [] end.
Definition out_reject (o : out) : list conn := match o with CallReject c _ => [c] | _ => [] end.
Definition out_term (o : out) : list conn :=
  match o with EvEstablished _ c | EvDialFailure c _ | EvOpenFailure c _ => [c] | _ => [] end.
Definition out_rep (o : out) : list peer := match o with EvEstablished p _ => [p] | _ => [] end.
Definition ret_ok (os : list out) : bool := existsb (fun o => match o with Ret r => r =? RET_OK | _ => false end) os.

Definition removes (xs l : list N) : list N := filter (fun y => negb (mem y xs)) l.
Definition pair_eqb (a b : N * N) : bool := (fst a =? fst b) && (snd a =? snd b).
Definition mem_p (x : N * N) (l : list (N * N)) : bool := existsb (pair_eqb x) l.
Definition removes_p (xs l : list (N * N)) : list (N * N) := filter (fun y => negb (mem_p y xs)) l.

Definition alloc_of (os : list out) : list conn :=
  flat_map (fun o => match o with Ret r => if RET_ALLOC <=? r then [r - RET_ALLOC] else [] | _ => [] end) os.

(* a dial step starts at most one attempt: its id is the id of the first open / dial call *)
Definition first1 {A} (l : list A) : list A := match l with x :: _ => [x] | [] => [] end.

(* the peer a dial request names *)
Definition ev_target (e : ev) : option peer :=
  match e with
  | CmdDialPeer p _ _ | HDialPeer p _ _ _ | CmdDialAddr p _ _ => Some p
  | CmdDialShape a | HDialAddr a _ =>
      match dial_shape LISTEN a with SvTcp p | SvWs p => Some p | SvRefuse _ => None end
  | _ => None
  end.

Definition gstep (e : ev) (os : list out) (g : ghost) : ghost :=
  let opens := flat_map out_open os in
  let dialnegs := flat_map out_dialneg os in
  let cancels := flat_map out_cancel os in
  let rejects := flat_map out_reject os in
  let terms := flat_map out_term os in
  let reps := flat_map out_rep os in
  let answered_open := match e with TrOpened c t _ | TrOpenFailure c t _ => [(c, t)] | _ => [] end in
  let answered_neg := match e with TrDialFailure c _ _ | TrEstablished _ c _ false _ => [c] | _ => [] end in
  let new_att := match ev_target e with
                 | Some p => if ret_ok os then map (fun c => (c, p)) (first1 (map fst opens ++ dialnegs)) else []
                 | None => [] end in
  mkG (opens ++ removes_p (answered_open ++ cancels) (g_open g))
      (dialnegs ++ removes answered_neg (g_neg g))
      (new_att ++ g_att g)
      (terms ++ g_done g)
      (match e with TrEstablished _ _ _ _ _ => first1 (map fst cancels) | _ => [] end ++ g_super g)
      (match e with TrEstablished _ c _ false _ => if mem c rejects then [c] else [] | _ => [] end ++ g_limrej g)
      (match e with AllocConn => alloc_of os | _ => [] end ++
       match e with TrEstablished _ c _ true _ => removes [c] (g_inb g) | _ => g_inb g end)
      (reps ++ g_rep g).

(* dial(p) gets as far as selecting addresses *)
Definition selects (L : limits) (m : mgr) (p : peer) : bool :=
  negb (limit_reached (max_out L) (outs m)) && negb (p =? LOCAL) &&
  match can_dial (state_of m p) with GateOk => negb (is_nil (addrs_of m p)) | _ => false end.

(* The transport contract and the "protocols are alive" assumption: which events can happen.
   Transport events come from installed transports; open()/dial()/negotiate()/accept() succeed;
   the transports a dial spans are a choice the address book allows (choice_ok). *)
Definition feas (L : limits) (m : mgr) (g : ghost) (e : ev) : Prop :=
  match e with
  | CmdDialPeer p ts fl | HDialPeer p ts fl _ =>
      fl = [] /\ (selects L m p = true -> choice_ok L m p ts = true)
  | CmdDialAddr _ _ f => f = false                              (* dial() succeeds *)
  | CmdAddAddr _ _ => True
  | TrDialFailure c t pa => installed L t = true /\ In c (g_neg g) /\ lookup c (g_att g) = Some pa
  | TrOpened c t f => f = false /\ installed L t = true /\ In (c, t) (g_open g)   (* negotiate() succeeds *)
  | TrOpenFailure c t pa => installed L t = true /\ In (c, t) (g_open g) /\ lookup c (g_att g) = Some pa
  | TrEstablished p c t lst f =>
      f = false /\ installed L t = true /\                        (* accept() succeeds *)
      if lst then In c (g_inb g) else In c (g_neg g) /\ lookup c (g_att g) = Some p
  | TrPendingInbound _ _ => True
  | AcceptDone c ok => ok = true /\ In c (keys (accepting m))    (* protocols are alive *)
  | Closed _ _ => True
  | AllocConn => True
  | CmdDialShape _ => True      (* any multiaddress may be handed to the dial API *)
  | HDialAddr _ _ => True
  end.

Definition owed (g : ghost) (c : conn) : Prop := (exists t, In (c, t) (g_open g)) \/ In c (g_neg g).

(* the transports a peer in the opening phase still waits for *)
Definition opening_on (s : pstate) (t : tr) : Prop :=
  match s with Opening _ ts => In t ts | _ => False end.

Record LInv (L : limits) (m : mgr) (g : ghost) : Prop := {
  (* every pending attempt is owed by the transports, belongs to the peer that dialled it and is
     that peer's dial record; the transports that still owe an open answer for it are exactly the
     transport set of the peer's Opening state *)
  li_pending : forall c p, lookup c (pending m) = Some p ->
      owed g c /\ lookup c (g_att g) = Some p /\ dial_record (state_of m p) = Some c /\
      (forall t, In (c, t) (g_open g) <-> opening_on (state_of m p) t);
  (* everything owed is pending *)
  li_owed : forall c, owed g c -> exists p, lookup c (pending m) = Some p;
  (* a dial record is always a pending attempt of that peer: nobody waits for nothing *)
  li_record : forall p c, dial_record (state_of m p) = Some c -> lookup c (pending m) = Some p;
  li_open_neg : forall c t, In (c, t) (g_open g) -> ~ In c (g_neg g);
  (* ids are fresh *)
  li_fresh : forall c, (owed g c \/ In c (keys (g_att g)) \/ In c (g_inb g) \/ In c (g_done g) \/
                        In c (keys (accepting m)) \/ In c (g_super g)) -> c < next_conn m;
  li_inb : forall c, In c (g_inb g) ->
      ~ In c (keys (g_att g)) /\ ~ In c (g_done g) /\ ~ In c (keys (accepting m));
  (* a terminal output closes an attempt for good *)
  li_done : forall c, In c (g_done g) -> ~ owed g c /\ ~ In c (keys (accepting m));
  li_done_nodup : NoDup (g_done g);
  li_acc_nodup : NoDup (keys (accepting m));
  li_acc_sep : forall c, In c (keys (accepting m)) -> ~ owed g c;
  (* every attempt is accounted for *)
  li_accounted : forall c p, lookup c (g_att g) = Some p ->
      owed g c \/ In c (g_done g) \/ In c (g_super g) \/ In c (g_limrej g) \/ In c (keys (accepting m));
  (* a superseded attempt is answered by a connection with the same peer *)
  li_super : forall c p, In c (g_super g) -> lookup c (g_att g) = Some p ->
      In p (g_rep g) \/ exists c' b, lookup c' (accepting m) = Some (p, b);
  (* a peer in the opening phase waits for at least one transport, and only for installed ones *)
  li_opening_ne : forall p c ts, state_of m p = Opening c ts -> ts <> [];
  li_open_inst : forall c t, In (c, t) (g_open g) -> installed L t = true;
  (* the address book only holds addresses of installed transports *)
  li_kinds : KInv L m
}.

(* ---------- helpers ---------- *)
Lemma removes_nil l : removes [] l = l.
Proof.
  unfold removes. induction l as [|h t IH]; [reflexivity|].
  cbn [filter]. unfold mem at 1. cbn [existsb negb]. f_equal. exact IH.
Qed.

Lemma in_removes x xs l : In x (removes xs l) <-> In x l /\ ~ In x xs.
Proof.
  unfold removes. rewrite filter_In. split.
  - intros [H1 H2]. split; [assumption|]. intros Hin. apply mem_in in Hin. rewrite Hin in H2. discriminate.
  - intros [H1 H2]. split; [assumption|]. destruct (mem x xs) eqn:E; [|reflexivity].
    apply mem_in in E. contradiction.
Qed.

Lemma mem_p_in x l : mem_p x l = true <-> In x l.
Proof.
  unfold mem_p. rewrite existsb_exists. split.
  - intros (y & Hy & E). unfold pair_eqb in E. destruct x as [a b], y as [a' b']. cbn [fst snd] in E.
    assert (a = a') by lia. assert (b = b') by lia. now subst.
  - intros H. exists x. split; [assumption|]. unfold pair_eqb. lia.
Qed.

Lemma removes_p_nil l : removes_p [] l = l.
Proof.
  unfold removes_p. induction l as [|h t IH]; [reflexivity|].
  cbn [filter]. unfold mem_p at 1. cbn [existsb negb]. f_equal. exact IH.
Qed.

Lemma in_removes_p x xs l : In x (removes_p xs l) <-> In x l /\ ~ In x xs.
Proof.
  unfold removes_p. rewrite filter_In. split.
  - intros [H1 H2]. split; [assumption|]. intros Hin. apply mem_p_in in Hin. rewrite Hin in H2. discriminate.
  - intros [H1 H2]. split; [assumption|]. destruct (mem_p x xs) eqn:E; [|reflexivity].
    apply mem_p_in in E. contradiction.
Qed.

Lemma keys_insert_key {A} k (v : A) l x : In x (keys (insert_key k v l)) <-> x = k \/ (In x (keys l) /\ x <> k).
Proof.
  unfold insert_key. cbn [keys map fst In]. split.
  - intros [H|H]; [left; now symmetry|]. right. now apply keys_remove_key.
  - intros [->|[H Hne]]; [now left|]. right.
    apply keys_in_lookup in H. destruct H as [v0 Hv].
    apply (lookup_in_keys x _ v0). rewrite lookup_remove_key.
    assert (x =? k = false) as -> by lia. exact Hv.
Qed.

Lemma keys_remove_key_iff {A} k (l : list (N * A)) x : In x (keys (remove_key k l)) <-> In x (keys l) /\ x <> k.
Proof.
  split; [apply keys_remove_key|]. intros [H Hne].
  apply keys_in_lookup in H. destruct H as [v0 Hv].
  apply (lookup_in_keys x _ v0). rewrite lookup_remove_key.
  assert (x =? k = false) as -> by lia. exact Hv.
Qed.

Lemma dial_record_on_failure s c :
  dial_record s = Some c -> (forall ts, s <> Opening c ts) -> dial_record (st_on_dial_failure s c) = None.
Proof.
  destruct s as [r [[e|e]|]|d ts|d|[d|]]; cbn [dial_record]; try discriminate; intros [= ->] Hne;
    cbn [st_on_dial_failure]; try (assert (c =? c = true) as -> by lia); cbn [dial_record]; try reflexivity.
  exfalso. eapply Hne. reflexivity.
Qed.

Lemma dial_record_on_failure_other s c d :
  dial_record s = Some d -> d <> c -> st_on_dial_failure s c = s.
Proof.
  destruct s as [r [[e|e]|]|o ts|o|[o|]]; cbn [dial_record]; try discriminate; intros [= ->] Hne;
    cbn [st_on_dial_failure]; try (assert (d =? c = false) as -> by lia); reflexivity.
Qed.

Lemma dial_record_on_failure_none s c : dial_record s = None -> st_on_dial_failure s c = s.
Proof.
  destruct s as [r [[e|e]|]|o ts|o|[o|]]; cbn [dial_record]; try discriminate; reflexivity.
Qed.

Lemma not_opening_on s : (forall d ts, s <> Opening d ts) -> forall t, ~ opening_on s t.
Proof. intros H t. destruct s; cbn [opening_on]; try tauto. exfalso. eapply H. reflexivity. Qed.

(* changing only fields the invariant does not read (limits, opening errors) or bumping the counter *)
Lemma linv_frame L m m' g :
  pending m' = pending m -> peers m' = peers m -> accepting m' = accepting m ->
  next_conn m <= next_conn m' -> KInv L m' -> LInv L m g -> LInv L m' g.
Proof.
  intros Hp Hs Ha Hn HK [P O R ON F INB D DN AN AS AC SU NE OI KI].
  assert (Hst : forall q, state_of m' q = state_of m q) by (intros q; now apply state_of_peers).
  split; rewrite ?Hp, ?Ha; try assumption.
  - intros c p Hl. rewrite Hst. auto.
  - intros p c Hd. rewrite Hst in Hd. auto.
  - intros c Hc. specialize (F c Hc). lia.
  - intros p c ts Hs'. rewrite Hst in Hs'. eauto.
Qed.

Lemma linv_add_addr L m g p a :
  installed L (kind_of a) = true -> LInv L m g -> LInv L (add_addr m p a) g.
Proof.
  intros Hi I. eapply linv_frame; [| | | | |exact I].
  - apply add_addr_pending.
  - apply add_addr_peers.
  - apply add_addr_accepting.
  - rewrite add_addr_next_conn. lia.
  - apply kinv_add_addr; [apply (li_kinds _ _ _ I) | exact Hi].
Qed.

(* a step that emits nothing the ghost reads leaves it unchanged *)
Definition quiet (os : list out) : Prop :=
  flat_map out_open os = [] /\ flat_map out_dialneg os = [] /\ flat_map out_cancel os = [] /\
  flat_map out_reject os = [] /\ flat_map out_term os = [] /\ flat_map out_rep os = [] /\ alloc_of os = [].

Lemma gstep_quiet_cmd e os g :
  quiet os ->
  match e with CmdDialPeer _ _ _ | CmdDialAddr _ _ _ | CmdAddAddr _ _ | TrPendingInbound _ _ | Closed _ _
             | CmdDialShape _ | HDialPeer _ _ _ _ | HDialAddr _ _ => True | _ => False end ->
  gstep e os g = g.
Proof.
  intros (H1 & H2 & H3 & H4 & H5 & H6 & H7) He. unfold gstep. rewrite H1, H2, H3, H5, H6.
  destruct g as [go gn ga gd gs gl gi gr].
  destruct e; try contradiction; cbn [app map first1 g_open g_neg g_att g_done g_super g_limrej g_inb g_rep];
    rewrite ?removes_nil, ?removes_p_nil; try (destruct (ev_target _)); try (destruct (ret_ok os)); reflexivity.
Qed.

Lemma can_dial_ok s : can_dial s = GateOk -> s = Disconnected None.
Proof. destruct s as [r sc|d ts|d|[d|]]; cbn [can_dial]; try discriminate; reflexivity. Qed.

Lemma quiet_ret r : r < RET_ALLOC -> quiet [Ret r].
Proof.
  intros H. unfold quiet, alloc_of. cbn [flat_map app out_open out_dialneg out_cancel out_reject out_term out_rep].
  assert (RET_ALLOC <=? r = false) as -> by lia. repeat split.
Qed.

Lemma quiet_nil : quiet [].
Proof. unfold quiet, alloc_of. cbn. repeat split. Qed.

(* registering a fresh attempt c for a peer p without dial record: the common part of
   dial(peer) and dial_address. `opens`: the open obligations created (empty for dial_address) *)
Lemma linv_new_attempt L m g p c (st : pstate) (opens : list (conn * tr)) gn' :
  LInv L m g -> c = next_conn m -> dial_record (state_of m p) = None ->
  dial_record st = Some c ->
  (forall x, In x opens -> fst x = c /\ installed L (snd x) = true) ->
  (forall t, In (c, t) opens <-> opening_on st t) ->
  (forall d ts, st = Opening d ts -> ts <> []) ->
  gn' = (if is_nil opens then c :: g_neg g else g_neg g) ->
  forall m', pending m' = insert_key c p (pending m) ->
  (forall q, state_of m' q = if q =? p then st else state_of m q) ->
  accepting m' = accepting m -> next_conn m' = c + 1 -> KInv L m' ->
  LInv L m' (mkG (opens ++ g_open g) gn' ((c, p) :: g_att g) (g_done g) (g_super g) (g_limrej g) (g_inb g) (g_rep g)).
Proof.
  intros [P O R ON F INB D DN AN AS AC SU NE OI KI] Hc Hnone Hst Hops Hio Hne -> m' Hp Hs Ha Hn HK.
  assert (Hfresh : forall x, (owed g x \/ In x (keys (g_att g)) \/ In x (g_inb g) \/ In x (g_done g) \/
                              In x (keys (accepting m)) \/ In x (g_super g)) -> x <> c).
  { intros x Hx. specialize (F x Hx). lia. }
  assert (Hpend_ne : forall x q, lookup x (pending m) = Some q -> x <> c /\ q <> p).
  { intros x q Hl. destruct (P _ _ Hl) as (Ho & _ & Hd & _). split.
    - apply Hfresh. now left.
    - intros ->. congruence. }
  match goal with |- LInv _ _ ?x => set (g' := x) end.
  assert (Hopen_c : forall t, In (c, t) (g_open g') <-> In (c, t) opens).
  { intros t. cbn [g' g_open]. rewrite in_app_iff. split; [|now left].
    intros [H|H]; [exact H|]. exfalso. apply (Hfresh c); [left; left; eauto | reflexivity]. }
  assert (Hopen_o : forall x t, x <> c -> (In (x, t) (g_open g') <-> In (x, t) (g_open g))).
  { intros x t Hx. cbn [g' g_open]. rewrite in_app_iff. split; [|now right].
    intros [H|H]; [|exact H]. destruct (Hops _ H) as [E _]. cbn [fst] in E. congruence. }
  assert (Hnonempty : is_nil opens = false \/ (opens = [] /\ is_nil opens = true)).
  { destruct opens; [right; split; reflexivity | now left]. }
  assert (Howed' : forall x, owed g' x <-> x = c \/ owed g x).
  { intros x. unfold owed. destruct (N.eq_dec x c) as [->|Hx].
    - split; [now left|]. intros _.
      destruct Hnonempty as [Hn1|[Hn1 Hn2]].
      + destruct opens as [|[a b] r]; [discriminate|]. left. exists b.
        destruct (Hops (a, b) (or_introl eq_refl)) as [E _]. cbn [fst] in E. subst a.
        apply Hopen_c. now left.
      + right. cbn [g' g_neg]. rewrite Hn2. now left.
    - split.
      + intros [[t Ht]|Hn2].
        * right. left. exists t. now apply (Hopen_o x t Hx).
        * right. right. cbn [g' g_neg] in Hn2. destruct (is_nil opens); [|exact Hn2].
          destruct Hn2 as [E|Hn2]; [congruence | exact Hn2].
      + intros [E|[[t Ht]|Hn2]]; [congruence | |].
        * left. exists t. now apply (Hopen_o x t Hx).
        * right. cbn [g' g_neg]. destruct (is_nil opens); [now right | exact Hn2]. }
  split; rewrite ?Hp, ?Ha, ?Hn;
    change (g_att g') with ((c, p) :: g_att g); change (g_done g') with (g_done g);
    change (g_super g') with (g_super g); change (g_limrej g') with (g_limrej g);
    change (g_inb g') with (g_inb g); change (g_rep g') with (g_rep g).
  - intros x q Hl. rewrite lookup_insert_key in Hl. rewrite Howed', Hs. cbn [lookup].
    destruct (x =? c) eqn:E.
    + injection Hl as <-. assert (x = c) by lia. subst x.
      assert (c =? c = true) as -> by lia. assert (p =? p = true) as -> by lia.
      repeat split; auto.
      * intros Hin. apply Hio. now apply Hopen_c.
      * intros Hop. apply Hopen_c. now apply Hio.
    + destruct (Hpend_ne _ _ Hl) as [Hne1 Hne2].
      assert (c =? x = false) as -> by lia. assert (q =? p = false) as -> by lia.
      destruct (P _ _ Hl) as (Ho & Hat & Hd & Hiff). repeat split; auto.
      * intros Hin. apply Hiff. now apply (Hopen_o x t Hne1).
      * intros Hop. apply (Hopen_o x t Hne1). now apply Hiff.
  - intros x Hx. apply Howed' in Hx. rewrite lookup_insert_key. destruct (x =? c) eqn:E; [eauto|].
    destruct Hx as [->|Hx]; [lia|]. auto.
  - intros q x Hd. rewrite Hs in Hd. rewrite lookup_insert_key. destruct (q =? p) eqn:E.
    + assert (q = p) by lia. subst q. rewrite Hst in Hd. injection Hd as <-.
      assert (c =? c = true) as -> by lia. reflexivity.
    + specialize (R _ _ Hd). destruct (Hpend_ne _ _ R) as [Hne1 _].
      assert (x =? c = false) as -> by lia. exact R.
  - intros x t Hin. destruct (N.eq_dec x c) as [->|Hx].
    + cbn [g' g_neg]. apply Hopen_c in Hin.
      destruct Hnonempty as [Hn1|[Hn1 Hn2]]; [|rewrite Hn1 in Hin; destruct Hin].
      rewrite Hn1. intros Hn2. apply (Hfresh c); [left; now right | reflexivity].
    + apply (Hopen_o x t Hx) in Hin. cbn [g' g_neg]. destruct (is_nil opens); [|now apply (ON x t)].
      intros [E|Hn2]; [congruence | now apply (ON x t)].
  - intros x Hx. rewrite Howed' in Hx. cbn [keys map fst In] in Hx.
    assert (x = c \/ x < next_conn m) as [->|Hlt]; [|lia|lia].
    destruct Hx as [[->|Hx]|[[<-|Hx]|Hx]]; auto; right; apply F; intuition.
  - intros x Hx. destruct (INB _ Hx) as (H1 & H2 & H3). repeat split; auto.
    cbn [keys map fst In]. intros [<-|H]; [|contradiction]. apply (Hfresh c); [right; right; now left | reflexivity].
  - intros x Hx. destruct (D _ Hx) as (H1 & H2). split; [|assumption]. rewrite Howed'.
    intros [->|H]; [|contradiction]. apply (Hfresh c); [do 3 right; now left | reflexivity].
  - assumption.
  - assumption.
  - intros x Hx. rewrite Howed'. intros [->|H]; [|exact (AS _ Hx H)].
    apply (Hfresh c); [do 4 right; now left | reflexivity].
  - intros x q Hl. cbn [lookup] in Hl. rewrite Howed'. destruct (c =? x) eqn:E.
    + left. left. lia.
    + destruct (AC _ _ Hl) as [H|H]; [left; now right | right; exact H].
  - intros x q Hx Hl. cbn [lookup] in Hl. destruct (c =? x) eqn:E.
    + exfalso. apply (Hfresh x); [do 5 right; exact Hx | lia].
    + eauto.
  - intros q d ts Hq. rewrite Hs in Hq. destruct (q =? p); [eapply Hne; exact Hq | eapply NE; exact Hq].
  - intros x t Hin. cbn [g' g_open] in Hin. apply in_app_iff in Hin. destruct Hin as [Hin|Hin]; [|eauto].
    destruct (Hops _ Hin) as [_ Hi]. exact Hi.
  - exact HK.
Qed.

(* ---------- what the ghost reads from a list of open / cancel calls ---------- *)
Lemma fm_open_opens c ts : flat_map out_open (map (CallOpen c) ts) = map (pair c) ts.
Proof. induction ts as [|t r IH]; cbn [map flat_map out_open app]; [reflexivity | now rewrite IH]. Qed.
Lemma fm_dialneg_opens c ts : flat_map out_dialneg (map (CallOpen c) ts) = [].
Proof. induction ts as [|t r IH]; cbn [map flat_map out_dialneg app]; [reflexivity | exact IH]. Qed.
Lemma fm_cancel_opens c ts : flat_map out_cancel (map (CallOpen c) ts) = [].
Proof. induction ts as [|t r IH]; cbn [map flat_map out_cancel app]; [reflexivity | exact IH]. Qed.
Lemma fm_reject_opens c ts : flat_map out_reject (map (CallOpen c) ts) = [].
Proof. induction ts as [|t r IH]; cbn [map flat_map out_reject app]; [reflexivity | exact IH]. Qed.
Lemma fm_term_opens c ts : flat_map out_term (map (CallOpen c) ts) = [].
Proof. induction ts as [|t r IH]; cbn [map flat_map out_term app]; [reflexivity | exact IH]. Qed.
Lemma fm_rep_opens c ts : flat_map out_rep (map (CallOpen c) ts) = [].
Proof. induction ts as [|t r IH]; cbn [map flat_map out_rep app]; [reflexivity | exact IH]. Qed.

Lemma fm_open_cancels c ts : flat_map out_open (map (CallCancel c) ts) = [].
Proof. induction ts as [|t r IH]; cbn [map flat_map out_open app]; [reflexivity | exact IH]. Qed.
Lemma fm_dialneg_cancels c ts : flat_map out_dialneg (map (CallCancel c) ts) = [].
Proof. induction ts as [|t r IH]; cbn [map flat_map out_dialneg app]; [reflexivity | exact IH]. Qed.
Lemma fm_cancel_cancels c ts : flat_map out_cancel (map (CallCancel c) ts) = map (pair c) ts.
Proof. induction ts as [|t r IH]; cbn [map flat_map out_cancel app]; [reflexivity | now rewrite IH]. Qed.
Lemma fm_reject_cancels c ts : flat_map out_reject (map (CallCancel c) ts) = [].
Proof. induction ts as [|t r IH]; cbn [map flat_map out_reject app]; [reflexivity | exact IH]. Qed.
Lemma fm_term_cancels c ts : flat_map out_term (map (CallCancel c) ts) = [].
Proof. induction ts as [|t r IH]; cbn [map flat_map out_term app]; [reflexivity | exact IH]. Qed.
Lemma fm_rep_cancels c ts : flat_map out_rep (map (CallCancel c) ts) = [].
Proof. induction ts as [|t r IH]; cbn [map flat_map out_rep app]; [reflexivity | exact IH]. Qed.

Lemma ret_ok_opens c ts : ret_ok (map (CallOpen c) ts ++ [Ret RET_OK]) = true.
Proof.
  unfold ret_ok. rewrite existsb_app. cbn [existsb]. assert (RET_OK =? RET_OK = true) as -> by reflexivity.
  cbn [orb]. now rewrite orb_true_r.
Qed.

Lemma map_fst_pairs (c : conn) (ts : list tr) : map fst (map (pair c) ts) = map (fun _ => c) ts.
Proof. rewrite map_map. reflexivity. Qed.

Lemma in_map_pair (c x : conn) (t : tr) ts : In (x, t) (map (pair c) ts) <-> x = c /\ In t ts.
Proof.
  rewrite in_map_iff. split.
  - intros (y & E & Hy). injection E as <- <-. auto.
  - intros [-> H]. exists t. auto.
Qed.

Lemma selects_ok L m p :
  limit_reached (max_out L) (outs m) = false -> (p =? LOCAL) = false ->
  can_dial (state_of m p) = GateOk -> is_nil (addrs_of m p) = false -> selects L m p = true.
Proof. intros H1 H2 H3 H4. unfold selects. now rewrite H1, H2, H3, H4. Qed.

Lemma linv_dial_peer L m g p ts :
  LInv L m g -> (selects L m p = true -> choice_ok L m p ts = true) ->
  LInv L (fst (do_dial_peer L m p ts [])) (gstep (CmdDialPeer p ts []) (snd (do_dial_peer L m p ts [])) g).
Proof.
  intros I Hsel. unfold do_dial_peer.
  destruct (limit_reached (max_out L) (outs m)) eqn:El.
  { cbn [fst snd]. rewrite gstep_quiet_cmd; [exact I | apply quiet_ret; reflexivity | exact Logic.I]. }
  destruct (p =? LOCAL) eqn:Ep.
  { cbn [fst snd]. rewrite gstep_quiet_cmd; [exact I | apply quiet_ret; reflexivity | exact Logic.I]. }
  destruct (can_dial (state_of m p)) eqn:Eg;
    try (cbn [fst snd]; rewrite gstep_quiet_cmd; [exact I | apply quiet_ret; reflexivity | exact Logic.I]).
  destruct (is_nil (addrs_of m p)) eqn:En.
  { cbn [fst snd]. rewrite gstep_quiet_cmd; [exact I | apply quiet_ret; reflexivity | exact Logic.I]. }
  specialize (Hsel (selects_ok _ _ _ El Ep Eg En)).
  pose proof (li_kinds _ _ _ I) as K.
  destruct (choice_ok_facts _ _ _ _ Hsel) as [Hne _].
  pose proof (choice_installed _ _ _ _ K Hsel) as Hinst.
  rewrite (open_calls_all L (next_conn m) ts Hinst). cbn [fst snd]. apply can_dial_ok in Eg.
  unfold gstep. cbn [ev_target]. rewrite ret_ok_opens.
  rewrite !flat_map_app, ?fm_open_opens, ?fm_dialneg_opens, ?fm_cancel_opens, ?fm_reject_opens, ?fm_term_opens, ?fm_rep_opens.
  cbn [flat_map app out_open out_dialneg out_cancel out_reject out_term out_rep]. rewrite !app_nil_r.
  rewrite removes_nil, removes_p_nil, map_fst_pairs.
  match goal with |- LInv _ _ (mkG _ _ (?x ++ _) _ _ _ _ _) =>
    assert (Hfirst : x = [(next_conn m, p)]) by (destruct ts; [congruence | reflexivity]); rewrite Hfirst end.
  cbn [app].
  eapply (linv_new_attempt L m g p (next_conn m) (Opening (next_conn m) ts) (map (pair (next_conn m)) ts));
    try reflexivity; try exact I.
  - now rewrite Eg.
  - intros [x t] Hin. apply in_map_pair in Hin. destruct Hin as [-> Ht]. split; [reflexivity | now apply Hinst].
  - intros t. rewrite in_map_pair. cbn [opening_on]. tauto.
  - intros d ts' [= _ <-]. exact Hne.
  - destruct ts; [congruence | reflexivity].
  - intros q. rewrite so_pending, state_of_set_state, so_bump. reflexivity.
  - eapply kinv_frame; [|exact K]. reflexivity.
Qed.

Lemma linv_dial_addr L m g p t a :
  LInv L m g -> kind_of a = t ->
  LInv L (fst (do_dial_addr L m p t a false)) (gstep (CmdDialAddr p t false) (snd (do_dial_addr L m p t a false)) g).
Proof.
  intros I Hk. unfold do_dial_addr.
  destruct (installed L t) eqn:Ei; cbn [negb].
  2:{ cbn [fst snd]. rewrite gstep_quiet_cmd; [exact I | apply quiet_ret; reflexivity | exact Logic.I]. }
  assert (Ib : LInv L (bump_conn m) g).
  { eapply linv_frame; [| | | | |exact I]; try reflexivity.
    - cbn [bump_conn next_conn]. lia.
    - eapply kinv_frame; [|exact (li_kinds _ _ _ I)]. reflexivity. }
  assert (I0 : LInv L (add_addr (bump_conn m) p a) g) by (apply linv_add_addr; [now rewrite Hk | exact Ib]).
  rewrite so_add_addr, so_bump.
  destruct (can_dial (state_of m p)) eqn:Eg;
    try (cbn [fst snd]; rewrite gstep_quiet_cmd; [exact I0 | apply quiet_ret; reflexivity | exact Logic.I]).
  cbn [fst snd]. apply can_dial_ok in Eg.
  unfold gstep. cbn [ev_target ret_ok existsb].
  assert (RET_OK =? RET_OK = true) as -> by reflexivity. cbn [orb].
  cbn [flat_map app out_open out_dialneg out_cancel out_reject out_term out_rep map first1 fst].
  rewrite !removes_nil, removes_p_nil.
  eapply (linv_new_attempt L m g p (next_conn m) (Dialing (next_conn m)) []); try reflexivity; try exact I.
  - now rewrite Eg.
  - intros x [].
  - intros d ts. discriminate.
  - cbn [set_pending pending set_state]. rewrite ?add_addr_pending; reflexivity.
  - intros q. rewrite so_pending, state_of_set_state, so_add_addr, so_bump. reflexivity.
  - cbn [set_pending set_state accepting]. rewrite ?add_addr_accepting; reflexivity.
  - cbn [set_pending set_state next_conn]. rewrite ?add_addr_next_conn; reflexivity.
  - eapply kinv_frame; [|exact (li_kinds _ _ _ I0)]. reflexivity.
Qed.

Lemma removes_notin x l : ~ In x l -> removes [x] l = l.
Proof.
  intros H. unfold removes. induction l as [|h t IH]; [reflexivity|].
  cbn [filter]. assert (mem h [x] = false) as ->.
  { unfold mem. cbn [existsb]. destruct (h =? x) eqn:E; [|reflexivity]. exfalso. apply H. left. lia. }
  cbn [negb]. f_equal. apply IH. intros Hin. apply H. now right.
Qed.

Lemma in_removes1 x c l : In x (removes [c] l) <-> In x l /\ x <> c.
Proof.
  rewrite in_removes. cbn [In]. intuition lia.
Qed.

(* an attempt c of peer p concludes without connection: its pending entry, its obligations and
   the peer's dial record disappear; it is either named by a terminal output or recorded as
   rejected by the limit. go' / gn': the obligations without those of c *)
Lemma linv_conclude L m g c p st' (d : bool) m' go' gn' :
  LInv L m g -> lookup c (pending m) = Some p ->
  (forall x, In x go' <-> In x (g_open g) /\ fst x <> c) ->
  (forall x, In x gn' <-> In x (g_neg g) /\ x <> c) ->
  pending m' = remove_key c (pending m) ->
  (forall q, state_of m' q = if q =? p then st' else state_of m q) -> dial_record st' = None ->
  accepting m' = accepting m -> next_conn m' = next_conn m -> KInv L m' ->
  LInv L m' (mkG go' gn' (g_att g)
               (if d then c :: g_done g else g_done g) (g_super g)
               (if d then g_limrej g else c :: g_limrej g) (g_inb g) (g_rep g)).
Proof.
  intros [P O R ON F INB D DN AN AS AC SU NE OI KI] Hl Hgo Hgn Hp Hs Hst Ha Hn HK.
  destruct (P _ _ Hl) as (Hoc & Hatc & Hdc & Hiffc).
  match goal with |- LInv _ _ ?x => set (g' := x) end.
  assert (Howed' : forall x, owed g' x <-> owed g x /\ x <> c).
  { intros x. unfold owed. cbn [g' g_open g_neg]. rewrite Hgn. split.
    - intros [[t Ht]|[H1 H2]].
      + apply Hgo in Ht. destruct Ht as [Ht Hne]. cbn [fst] in Hne. split; [left; eauto | exact Hne].
      + split; [now right | exact H2].
    - intros [[[t Ht]|H1] H2].
      + left. exists t. apply Hgo. cbn [fst]. auto.
      + right. auto. }
  assert (Hother : forall x q, x <> c -> lookup x (pending m) = Some q -> q <> p).
  { intros x q Hne Hx ->. destruct (P _ _ Hx) as (_ & _ & Hdx & _). congruence. }
  split; rewrite ?Hp, ?Ha, ?Hn;
    change (g_att g') with (g_att g); change (g_super g') with (g_super g);
    change (g_inb g') with (g_inb g); change (g_rep g') with (g_rep g);
    change (g_done g') with (if d then c :: g_done g else g_done g);
    change (g_limrej g') with (if d then g_limrej g else c :: g_limrej g).
  - intros x q Hx. rewrite lookup_remove_key in Hx. destruct (x =? c) eqn:E; [discriminate|].
    assert (Hne : x <> c) by lia. destruct (P _ _ Hx) as (Ho & Hat & Hd & Hiff).
    rewrite Howed', Hs. assert (q =? p = false) as -> by (pose proof (Hother _ _ Hne Hx); lia).
    repeat split; auto.
    + cbn [g' g_open]. rewrite Hgo. intros [Hin _]. now apply Hiff.
    + intros Hop. cbn [g' g_open]. rewrite Hgo. cbn [fst]. split; [now apply Hiff | assumption].
  - intros x Hx. apply Howed' in Hx. destruct Hx as [Hx Hne]. destruct (O _ Hx) as [q Hq].
    exists q. rewrite lookup_remove_key. assert (x =? c = false) as -> by lia. exact Hq.
  - intros q x Hd. rewrite Hs in Hd. destruct (q =? p) eqn:E; [congruence|].
    specialize (R _ _ Hd). rewrite lookup_remove_key. destruct (x =? c) eqn:E2; [|exact R].
    assert (x = c) by lia. subst x. rewrite Hl in R. injection R as ->. lia.
  - cbn [g' g_open g_neg]. intros x t Hx. rewrite Hgo in Hx. rewrite Hgn. intros [Hn2 _]. destruct Hx as [Hx _].
    exact (ON _ _ Hx Hn2).
  - intros x Hx. rewrite Howed' in Hx.
    assert (Hc : c < next_conn m) by (apply F; now left).
    assert (Hx' : x = c \/ (owed g x \/ In x (keys (g_att g)) \/ In x (g_inb g) \/ In x (g_done g) \/
                             In x (keys (accepting m)) \/ In x (g_super g))).
    { destruct d; cbn [In] in Hx; intuition. }
    destruct Hx' as [->|Hx']; [exact Hc | now apply F].
  - intros x Hx. destruct (INB _ Hx) as (H1 & H2 & H3). repeat split; auto.
    destruct d; [|assumption]. intros [<-|H]; [|contradiction].
    apply H1. eapply lookup_in_keys. exact Hatc.
  - intros x Hx. rewrite Howed'.
    assert (Hx' : x = c \/ In x (g_done g)) by (destruct d; [destruct Hx; auto | auto]).
    destruct Hx' as [->|Hx'].
    + split; [tauto|]. intros Hin. exact (AS _ Hin Hoc).
    + destruct (D _ Hx') as [H1 H2]. split; [tauto | assumption].
  - destruct d; [|assumption]. constructor; [|assumption]. intros Hin. destruct (D _ Hin) as [H1 _]. contradiction.
  - assumption.
  - intros x Hx. rewrite Howed'. intros [H _]. exact (AS _ Hx H).
  - intros x q Hx. rewrite Howed'. destruct (x =? c) eqn:E.
    + assert (x = c) by lia. subst x. destruct d; [right; left; now left | do 3 right; left; now left].
    + destruct (AC _ _ Hx) as [H|[H|[H|[H|H]]]].
      * left. split; [assumption | lia].
      * right. left. destruct d; [now right | assumption].
      * do 2 right. now left.
      * do 3 right. left. destruct d; [assumption | now right].
      * do 4 right. assumption.
  - assumption.
  - intros q x ts Hq. rewrite Hs in Hq. destruct (q =? p); [rewrite Hq in Hst; discriminate | eapply NE; exact Hq].
  - intros x t Hin. cbn [g' g_open] in Hin. apply Hgo in Hin. destruct Hin as [Hin _]. eauto.
  - exact HK.
Qed.

Lemma owed_neg_facts L m g c pa :
  LInv L m g -> In c (g_neg g) -> lookup c (g_att g) = Some pa ->
  lookup c (pending m) = Some pa /\ dial_record (state_of m pa) = Some c /\
  (forall ts, state_of m pa <> Opening c ts) /\ (forall t, ~ In (c, t) (g_open g)).
Proof.
  intros [P O R ON F INB D DN AN AS AC SU NE OI KI] Hin Hat.
  destruct (O c (or_intror Hin)) as [p Hp]. destruct (P _ _ Hp) as (_ & Hat' & Hd & Hiff).
  assert (p = pa) by congruence. subst p. repeat split; auto.
  - intros ts Hop. pose proof (NE _ _ _ Hop) as Hne. destruct ts as [|t r]; [congruence|].
    assert (Hin2 : In (c, t) (g_open g)) by (apply Hiff; rewrite Hop; now left).
    exact (ON _ _ Hin2 Hin).
  - intros t Ht. exact (ON _ _ Ht Hin).
Qed.

Lemma owed_open_facts L m g c t :
  LInv L m g -> In (c, t) (g_open g) ->
  exists p ts, lookup c (pending m) = Some p /\ lookup c (g_att g) = Some p /\
               state_of m p = Opening c ts /\ In t ts /\ ~ In c (g_neg g) /\
               (forall u, In (c, u) (g_open g) <-> In u ts) /\
               (forall u, In u ts -> installed L u = true).
Proof.
  intros [P O R ON F INB D DN AN AS AC SU NE OI KI] Hin.
  destruct (O c (or_introl (ex_intro _ t Hin))) as [p Hp]. destruct (P _ _ Hp) as (_ & Hat' & Hd & Hiff).
  pose proof (proj1 (Hiff t) Hin) as Hop.
  destruct (state_of m p) as [r sc|d ts|d|d] eqn:Es; cbn [opening_on] in Hop; try contradiction.
  cbn [dial_record] in Hd. injection Hd as ->.
  exists p, ts. repeat split; auto.
  - exact (ON _ _ Hin).
  - intros Hu. now apply Hiff.
  - intros Hu. apply Hiff. exact Hu.
  - intros u Hu. apply (OI c u). apply Hiff. exact Hu.
Qed.

Lemma forallb_installed L ts : (forall u, In u ts -> installed L u = true) -> forallb (installed L) ts = true.
Proof. intros H. apply forallb_forall. exact H. Qed.

Lemma linv_dial_failure L m g c t pa :
  LInv L m g -> installed L t = true -> In c (g_neg g) -> lookup c (g_att g) = Some pa ->
  LInv L (fst (do_dial_failure m c t pa)) (gstep (TrDialFailure c t pa) (snd (do_dial_failure m c t pa)) g).
Proof.
  intros I Hi Hin Hat. destruct (owed_neg_facts _ _ _ _ _ I Hin Hat) as (Hp & Hd & Hno & Hnopen).
  unfold do_dial_failure. rewrite add_addr_pending, Hp. cbn [fst snd].
  unfold gstep. cbn [ev_target flat_map app out_open out_dialneg out_cancel out_reject out_term out_rep].
  apply (linv_conclude L m g c pa (st_on_dial_failure (state_of m pa) c) true);
    [exact I | exact Hp | | | | | | | | ].
  - intros x. rewrite in_removes_p. cbn [In]. split; [|tauto]. intros [H _]. split; [exact H|].
    intros E. destruct x as [a b]. cbn [fst] in E. subst a. exact (Hnopen _ H).
  - intros x. apply in_removes1.
  - cbn [set_state set_pending pending]. rewrite ?add_addr_pending; reflexivity.
  - intros q. rewrite state_of_set_state, !so_pending, !so_add_addr. reflexivity.
  - now apply dial_record_on_failure.
  - cbn [set_state set_pending accepting]. rewrite ?add_addr_accepting; reflexivity.
  - cbn [set_state set_pending next_conn]. rewrite ?add_addr_next_conn; reflexivity.
  - eapply kinv_frame; [reflexivity|]. apply kinv_add_addr; [exact (li_kinds _ _ _ I) | now apply installed_kind_canon].
Qed.

Lemma in_remove_tr t u ts : In u (remove_tr t ts) <-> In u ts /\ u <> t.
Proof. unfold remove_tr. rewrite filter_In. split; intros [H1 H2]; split; try assumption; lia. Qed.

(* one transport of several reports failure: the attempt stays owed on the others *)
Lemma linv_open_shrink L m g c t p ts ts' m' go' :
  LInv L m g -> lookup c (pending m) = Some p -> state_of m p = Opening c ts ->
  (forall u, In u ts' <-> In u ts /\ u <> t) -> ts' <> [] ->
  (forall x, In x go' <-> In x (g_open g) /\ x <> (c, t)) ->
  pending m' = pending m ->
  (forall q, state_of m' q = if q =? p then Opening c ts' else state_of m q) ->
  accepting m' = accepting m -> next_conn m' = next_conn m -> KInv L m' ->
  LInv L m' (mkG go' (g_neg g) (g_att g) (g_done g) (g_super g) (g_limrej g) (g_inb g) (g_rep g)).
Proof.
  intros [P O R ON F INB D DN AN AS AC SU NE OI KI] Hl Hop Hts Hne Hgo Hp Hs Ha Hn HK.
  destruct (P _ _ Hl) as (Hoc & Hatc & Hdc & Hiffc). rewrite Hop in Hiffc. cbn [opening_on] in Hiffc.
  match goal with |- LInv _ _ ?x => set (g' := x) end.
  assert (Howed' : forall x, owed g' x <-> owed g x).
  { intros x. unfold owed. cbn [g' g_open g_neg]. split.
    - intros [[u Hu]|H]; [|now right]. apply Hgo in Hu. left. exists u. tauto.
    - intros [[u Hu]|H]; [|now right]. destruct (N.eq_dec x c) as [->|Hx].
      + destruct ts' as [|v r]; [congruence|]. left. exists v.
        assert (Hv : In v ts /\ v <> t) by (apply Hts; now left).
        apply Hgo. split; [apply Hiffc; tauto|]. intros [= E]. tauto.
      + left. exists u. apply Hgo. split; [exact Hu|]. intros [= E _]. contradiction. }
  assert (Hother : forall x q, x <> c -> lookup x (pending m) = Some q -> q <> p).
  { intros x q Hx Hq ->. destruct (P _ _ Hq) as (_ & _ & Hdx & _). rewrite Hop in Hdx. cbn in Hdx. congruence. }
  split; rewrite ?Hp, ?Ha, ?Hn;
    change (g_att g') with (g_att g); change (g_super g') with (g_super g);
    change (g_inb g') with (g_inb g); change (g_rep g') with (g_rep g);
    change (g_done g') with (g_done g); change (g_limrej g') with (g_limrej g);
    change (g_neg g') with (g_neg g); try assumption.
  - intros x q Hx. rewrite Howed', Hs. destruct (P _ _ Hx) as (H1 & H2 & H3 & H4).
    destruct (N.eq_dec x c) as [->|Hxc].
    + assert (q = p) by congruence. subst q. assert (p =? p = true) as -> by lia.
      repeat split; auto. 
      * cbn [g' g_open opening_on]. rewrite Hgo, Hts. intros [Hin Hne2]. split; [now apply Hiffc|].
        intros ->. now apply Hne2.
      * cbn [g' g_open opening_on]. rewrite Hgo, Hts. intros [Hin Hne2]. split; [now apply Hiffc|].
        intros [= E]. contradiction.
    + assert (q =? p = false) as -> by (pose proof (Hother _ _ Hxc Hx); lia).
      repeat split; auto.
      * cbn [g' g_open]. rewrite Hgo. intros [Hin _]. now apply H4.
      * intros Hq. cbn [g' g_open]. rewrite Hgo. split; [now apply H4|]. intros [= E _]. contradiction.
  - intros x Hx. rewrite Howed' in Hx. auto.
  - intros q x Hd. rewrite Hs in Hd. destruct (q =? p) eqn:E; [|auto].
    assert (q = p) by lia. subst q. cbn in Hd. injection Hd as <-. exact Hl.
  - intros x u Hx. cbn [g' g_open] in Hx. apply Hgo in Hx. destruct Hx as [Hx _]. exact (ON _ _ Hx).
  - intros x Hx. rewrite Howed' in Hx. now apply F.
  - intros x Hx. rewrite Howed'. exact (D _ Hx).
  - intros x Hx. rewrite Howed'. exact (AS _ Hx).
  - intros x q Hx. rewrite Howed'. exact (AC _ _ Hx).
  - intros q x us Hq. rewrite Hs in Hq. destruct (q =? p); [|eapply NE; exact Hq].
    injection Hq as _ <-. exact Hne.
  - intros x u Hx. cbn [g' g_open] in Hx. apply Hgo in Hx. destruct Hx as [Hx _]. eauto.
Qed.

Lemma linv_open_failure L m g c t pa :
  LInv L m g -> installed L t = true -> In (c, t) (g_open g) -> lookup c (g_att g) = Some pa ->
  LInv L (fst (do_open_failure m c t pa)) (gstep (TrOpenFailure c t pa) (snd (do_open_failure m c t pa)) g).
Proof.
  intros I Hi Hin Hat.
  destruct (owed_open_facts _ _ _ _ _ I Hin) as (p & ts & Hp & Hat' & Hop & Hts & Hnn & Hall & _).
  assert (p = pa) by congruence. subst p.
  assert (K0 : KInv L (add_addr m pa (canon pa t))).
  { apply kinv_add_addr; [exact (li_kinds _ _ _ I) | now apply installed_kind_canon]. }
  unfold do_open_failure. rewrite add_addr_pending, Hp, so_add_addr, Hop.
  assert (mem t ts = true) as -> by now apply mem_in.
  destruct (remove_tr t ts) as [|v r] eqn:Er.
  - (* the last transport: the failure is reported *)
    cbn [fst snd]. unfold gstep.
    cbn [ev_target flat_map app out_open out_dialneg out_cancel out_reject out_term out_rep].
    rewrite removes_nil.
    apply (linv_conclude L m g c pa (Disconnected None) true);
      [exact I | exact Hp | | | | | reflexivity | | | ].
    + intros x. rewrite in_removes_p. cbn [In]. split.
      * intros [H Hne]. split; [exact H|]. intros E. destruct x as [a u]. cbn [fst] in E. subst a.
        assert (Hu : In u ts) by now apply Hall.
        destruct (N.eq_dec u t) as [->|Hut]; [tauto|].
        assert (Hx : In u (remove_tr t ts)) by (apply in_remove_tr; auto). rewrite Er in Hx. destruct Hx.
      * intros [H Hne]. split; [exact H|]. intros [E|[]]. subst x. now apply Hne.
    + intros x. split; [|tauto]. intros H. split; [exact H|]. intros ->. contradiction.
    + cbn [set_oerrs set_pending set_state pending]. rewrite ?add_addr_pending; reflexivity.
    + intros q. rewrite so_oerrs, so_pending, state_of_set_state, so_add_addr. reflexivity.
    + cbn [set_oerrs set_pending set_state accepting]. rewrite ?add_addr_accepting; reflexivity.
    + cbn [set_oerrs set_pending set_state next_conn]. rewrite ?add_addr_next_conn; reflexivity.
    + eapply kinv_frame; [|exact K0]. reflexivity.
  - (* another transport is still trying: nothing is reported *)
    cbn [fst snd]. unfold gstep.
    cbn [ev_target flat_map app out_open out_dialneg out_cancel out_reject out_term out_rep].
    rewrite removes_nil.
    apply (linv_open_shrink L m g c t pa ts (v :: r));
      [exact I | exact Hp | exact Hop | | | | | | | | ].
    + intros u. rewrite <- Er. apply in_remove_tr.
    + discriminate.
    + intros x. rewrite in_removes_p. cbn [In]. split.
      * intros [H Hne]. split; [exact H|]. intros ->. apply Hne. now left.
      * intros [H Hne]. split; [exact H|]. intros [E|[]]. now subst x.
    + cbn [set_oerrs set_state pending]. rewrite ?add_addr_pending; reflexivity.
    + intros q. rewrite so_oerrs, state_of_set_state, so_add_addr. reflexivity.
    + cbn [set_oerrs set_state accepting]. rewrite ?add_addr_accepting; reflexivity.
    + cbn [set_oerrs set_state next_conn]. rewrite ?add_addr_next_conn; reflexivity.
    + eapply kinv_frame; [|exact K0]. reflexivity.
Qed.

Lemma st_on_closed_record s c : dial_record (fst (st_on_closed s c)) = dial_record s.
Proof.
  destruct s as [r [[e|e]|]|o ts|o|[o|]]; cbn [st_on_closed]; try reflexivity;
    destruct (r =? c); cbn [fst dial_record]; try reflexivity; destruct (e =? c); reflexivity.
Qed.

Lemma st_on_closed_opening s c x ts : fst (st_on_closed s c) = Opening x ts <-> s = Opening x ts.
Proof.
  destruct s as [r [[e|e]|]|o us|o|[o|]]; cbn [st_on_closed]; try tauto;
    destruct (r =? c); cbn [fst]; try (split; discriminate); destruct (e =? c); split; discriminate.
Qed.

(* a transition of one peer's state that keeps its dial record and its Opening-ness *)
Lemma linv_same_record L m g p st' m' :
  LInv L m g ->
  (forall q, state_of m' q = if q =? p then st' else state_of m q) ->
  dial_record st' = dial_record (state_of m p) ->
  (forall x ts, st' = Opening x ts <-> state_of m p = Opening x ts) ->
  pending m' = pending m -> accepting m' = accepting m -> next_conn m' = next_conn m -> KInv L m' ->
  LInv L m' g.
Proof.
  intros [P O R ON F INB D DN AN AS AC SU NE OI KI] Hs Hd Hop Hp Ha Hn HK.
  assert (Hon : forall t, opening_on st' t <-> opening_on (state_of m p) t).
  { intros t. destruct st' as [r sc|x ts|x|x] eqn:Est.
    - cbn [opening_on]. split; [tauto|]. destruct (state_of m p) as [r' sc'|x' ts'|x'|x'] eqn:Es; cbn [opening_on]; try tauto.
      intros _. assert (E : Connected r sc = Opening x' ts') by (apply Hop; reflexivity). discriminate.
    - assert (E : state_of m p = Opening x ts) by (apply Hop; reflexivity). rewrite E. tauto.
    - cbn [opening_on]. split; [tauto|]. destruct (state_of m p) as [r' sc'|x' ts'|x'|x'] eqn:Es; cbn [opening_on]; try tauto.
      intros _. assert (E : Dialing x = Opening x' ts') by (apply Hop; reflexivity). discriminate.
    - cbn [opening_on]. split; [tauto|]. destruct (state_of m p) as [r' sc'|x' ts'|x'|x'] eqn:Es; cbn [opening_on]; try tauto.
      intros _. assert (E : Disconnected x = Opening x' ts') by (apply Hop; reflexivity). discriminate. }
  split; rewrite ?Hp, ?Ha, ?Hn; try assumption.
  - intros c q Hl. destruct (P _ _ Hl) as (H1 & H2 & H3 & H4). rewrite Hs.
    destruct (q =? p) eqn:E; [|auto]. assert (q = p) by lia. subst q.
    repeat split; auto; try congruence.
    + intros Hin. apply Hon. now apply H4.
    + intros Hx. apply H4. now apply Hon.
  - intros q c Hx. rewrite Hs in Hx. destruct (q =? p) eqn:E; [|auto].
    assert (q = p) by lia. subst q. apply R. congruence.
  - intros q c ts Hq. rewrite Hs in Hq. destruct (q =? p) eqn:E; [|eapply NE; exact Hq].
    apply Hop in Hq. eapply NE. exact Hq.
Qed.

Lemma linv_closed L m g p c :
  LInv L m g -> LInv L (fst (do_closed m p c)) g.
Proof.
  intros I. unfold do_closed.
  destruct (st_on_closed (state_of (set_limits m (set_remove c (ins m)) (set_remove c (outs m))) p) c) as [s' rep] eqn:E.
  cbn [fst]. rewrite so_limits in E.
  apply (linv_same_record L m g p s'); auto.
  - intros q. rewrite state_of_set_state, so_limits. reflexivity.
  - replace s' with (fst (st_on_closed (state_of m p) c)) by now rewrite E. apply st_on_closed_record.
  - intros x ts. replace s' with (fst (st_on_closed (state_of m p) c)) by now rewrite E. apply st_on_closed_opening.
  - eapply kinv_frame; [|exact (li_kinds _ _ _ I)]. reflexivity.
Qed.

(* ConnectionOpened from transport t for attempt c: the open phase ends on every transport, the
   winner negotiates *)
Lemma linv_opened L m g c t :
  LInv L m g -> installed L t = true -> In (c, t) (g_open g) ->
  LInv L (fst (do_opened L m c t false)) (gstep (TrOpened c t false) (snd (do_opened L m c t false)) g).
Proof.
  intros I Hi Hin.
  destruct (owed_open_facts _ _ _ _ _ I Hin) as (p & ts & Hp & Hat & Hop & Hts & Hnn & Hall & Hinst).
  unfold do_opened. cbn [set_oerrs pending]. rewrite Hp. rewrite so_add_addr, so_pending, so_oerrs, Hop.
  rewrite (forallb_installed _ _ Hinst). cbn [negb fst snd].
  unfold gstep. cbn [ev_target].
  rewrite !flat_map_app, ?fm_open_cancels, ?fm_dialneg_cancels, ?fm_cancel_cancels, ?fm_reject_cancels,
    ?fm_term_cancels, ?fm_rep_cancels.
  cbn [flat_map app out_open out_dialneg out_cancel out_reject out_term out_rep]. rewrite !app_nil_r.
  rewrite removes_nil.
  pose proof (li_kinds _ _ _ I) as K.
  destruct I as [P O R ON F INB D DN AN AS AC SU NE OI KI].
  match goal with |- LInv _ ?x _ => set (m' := x) end.
  match goal with |- LInv _ _ ?x => set (g' := x) end.
  assert (Hpend : forall x, lookup x (pending m') = lookup x (pending m)).
  { intros x. subst m'. cbn [set_pending set_state pending]. rewrite lookup_insert_key, add_addr_pending.
    cbn [set_pending set_oerrs pending]. rewrite lookup_remove_key.
    destruct (x =? c) eqn:E; [|reflexivity]. assert (x = c) by lia. subst x. now rewrite Hp. }
  assert (Hst : forall q, state_of m' q = if q =? p then Dialing c else state_of m q).
  { intros q. subst m'. rewrite so_pending, state_of_set_state, so_add_addr, so_pending, so_oerrs. reflexivity. }
  assert (Hacc : accepting m' = accepting m).
  { subst m'. cbn [set_pending set_state accepting]. rewrite add_addr_accepting. reflexivity. }
  assert (Hnc : next_conn m' = next_conn m).
  { subst m'. cbn [set_pending set_state next_conn]. rewrite add_addr_next_conn. reflexivity. }
  assert (Hgo : forall x, In x (g_open g') <-> In x (g_open g) /\ fst x <> c).
  { intros x. cbn [g' g_open]. rewrite in_removes_p. cbn [In]. split.
    - intros [H Hne]. split; [exact H|]. intros E. destruct x as [a u]. cbn [fst] in E. subst a.
      apply Hne. right. apply in_map_pair. split; [reflexivity | now apply Hall].
    - intros [H Hne]. split; [exact H|]. intros [E|E]; [subst x; now apply Hne|].
      destruct x as [a u]. apply in_map_pair in E. destruct E as [-> _]. now apply Hne. }
  assert (Hgn : forall x, In x (g_neg g') <-> x = c \/ In x (g_neg g)).
  { intros x. cbn [g' g_neg In]. intuition. }
  assert (Howed' : forall x, owed g' x <-> owed g x).
  { intros x. unfold owed. rewrite Hgn. split.
    - intros [[u Hu]|[->|H]].
      + apply Hgo in Hu. left. exists u. tauto.
      + left. eauto.
      + now right.
    - intros [[u Hu]|H]; [|right; now right]. destruct (N.eq_dec x c) as [->|Hne]; [right; now left|].
      left. exists u. apply Hgo. auto. }
  assert (Hother : forall x q, x <> c -> lookup x (pending m) = Some q -> q <> p).
  { intros x q Hne Hx ->. destruct (P _ _ Hx) as (_ & _ & Hdx & _). rewrite Hop in Hdx. cbn in Hdx. congruence. }
  split; rewrite ?Hacc, ?Hnc;
    change (g_att g') with (g_att g); change (g_super g') with (g_super g);
    change (g_inb g') with (g_inb g); change (g_rep g') with (g_rep g);
    change (g_done g') with (g_done g); change (g_limrej g') with (g_limrej g); try assumption.
  - intros x q Hx. rewrite Hpend in Hx. rewrite Howed', Hst. destruct (P _ _ Hx) as (H1 & H2 & H3 & H4).
    destruct (N.eq_dec x c) as [->|Hne].
    + assert (q = p) by congruence. subst q. assert (p =? p = true) as -> by lia.
      repeat split; auto.
      * rewrite Hgo. cbn [fst]. intros [_ Hc]. congruence.
      * cbn [opening_on]. tauto.
    + assert (q =? p = false) as -> by (pose proof (Hother _ _ Hne Hx); lia).
      repeat split; auto.
      * rewrite Hgo. intros [Hi2 _]. now apply H4.
      * intros Hx2. rewrite Hgo. cbn [fst]. split; [now apply H4 | assumption].
  - intros x Hx. rewrite Howed' in Hx. rewrite Hpend. auto.
  - intros q x Hd. rewrite Hst in Hd. rewrite Hpend. destruct (q =? p) eqn:E.
    + assert (q = p) by lia. subst q. cbn in Hd. injection Hd as <-. exact Hp.
    + auto.
  - intros x u Hx. rewrite Hgo in Hx. destruct Hx as [Hx Hne]. cbn [fst] in Hne. rewrite Hgn.
    intros [->|Hn2]; [congruence | exact (ON _ _ Hx Hn2)].
  - intros x Hx. rewrite Howed' in Hx. now apply F.
  - intros x Hx. rewrite Howed'. exact (D _ Hx).
  - intros x Hx. rewrite Howed'. exact (AS _ Hx).
  - intros x q Hx. rewrite Howed'. exact (AC _ _ Hx).
  - intros q x us Hq. rewrite Hst in Hq. destruct (q =? p); [discriminate | eapply NE; exact Hq].
  - intros x u Hx. apply Hgo in Hx. destruct Hx as [Hx _]. eauto.
  - subst m'. eapply kinv_frame; [reflexivity|]. apply kinv_add_addr; [|now apply installed_kind_canon].
    eapply kinv_frame; [|exact K]. reflexivity.
Qed.

Lemma keys_app_in {A} (l1 l2 : list (N * A)) x : In x (keys (l1 ++ l2)) <-> In x (keys l1) \/ In x (keys l2).
Proof. rewrite keys_app. apply in_app_iff. Qed.

Lemma nodup_keys_snoc {A} (l : list (N * A)) c v : NoDup (keys l) -> ~ In c (keys l) -> NoDup (keys (l ++ [(c, v)])).
Proof.
  intros Hn Hc. rewrite keys_app. cbn [keys map fst].
  apply (Permutation.Permutation_NoDup (l := c :: keys l)).
  - apply Permutation.Permutation_cons_append.
  - constructor; assumption.
Qed.

Lemma lookup_snoc_some {A} (l : list (N * A)) c v x y : lookup x l = Some y -> lookup x (l ++ [(c, v)]) = Some y.
Proof. intros H. rewrite lookup_app_last, H. reflexivity. Qed.

(* an outbound attempt c of peer p concludes with an accepted connection: it moves from the
   transport's obligations into the accept futures *)
Lemma linv_conclude_acc L m g c p st' (b : bool) m' go' gn' :
  LInv L m g -> lookup c (pending m) = Some p ->
  (forall x, In x go' <-> In x (g_open g) /\ fst x <> c) ->
  (forall x, In x gn' <-> In x (g_neg g) /\ x <> c) ->
  pending m' = remove_key c (pending m) ->
  (forall q, state_of m' q = if q =? p then st' else state_of m q) -> dial_record st' = None ->
  accepting m' = accepting m ++ [(c, (p, b))] -> next_conn m' = next_conn m -> KInv L m' ->
  LInv L m' (mkG go' gn' (g_att g) (g_done g) (g_super g) (g_limrej g) (g_inb g) (g_rep g)).
Proof.
  intros [P O R ON F INB D DN AN AS AC SU NE OI KI] Hl Hgo Hgn Hp Hs Hst Ha Hn HK.
  destruct (P _ _ Hl) as (Hoc & Hatc & Hdc & Hiffc).
  match goal with |- LInv _ _ ?x => set (g' := x) end.
  assert (Howed' : forall x, owed g' x <-> owed g x /\ x <> c).
  { intros x. unfold owed. cbn [g' g_open g_neg]. rewrite Hgn. split.
    - intros [[t Ht]|[H1 H2]].
      + apply Hgo in Ht. destruct Ht as [Ht Hne]. cbn [fst] in Hne. split; [left; eauto | exact Hne].
      + split; [now right | exact H2].
    - intros [[[t Ht]|H1] H2].
      + left. exists t. apply Hgo. cbn [fst]. auto.
      + right. auto. }
  assert (Hother : forall x q, x <> c -> lookup x (pending m) = Some q -> q <> p).
  { intros x q Hne Hx ->. destruct (P _ _ Hx) as (_ & _ & Hdx & _). congruence. }
  assert (Hcacc : ~ In c (keys (accepting m))) by (intros Hin; exact (AS _ Hin Hoc)).
  assert (Hkacc : forall x, In x (keys (accepting m')) <-> In x (keys (accepting m)) \/ x = c).
  { intros x. rewrite Ha, keys_app_in. cbn [keys map fst In]. intuition. }
  split; rewrite ?Hp, ?Hn;
    change (g_att g') with (g_att g); change (g_super g') with (g_super g);
    change (g_inb g') with (g_inb g); change (g_rep g') with (g_rep g);
    change (g_done g') with (g_done g); change (g_limrej g') with (g_limrej g).
  - intros x q Hx. rewrite lookup_remove_key in Hx. destruct (x =? c) eqn:E; [discriminate|].
    assert (Hne : x <> c) by lia. destruct (P _ _ Hx) as (Ho & Hat & Hd & Hiff).
    rewrite Howed', Hs. assert (q =? p = false) as -> by (pose proof (Hother _ _ Hne Hx); lia).
    repeat split; auto.
    + cbn [g' g_open]. rewrite Hgo. intros [Hin _]. now apply Hiff.
    + intros Hop. cbn [g' g_open]. rewrite Hgo. cbn [fst]. split; [now apply Hiff | assumption].
  - intros x Hx. apply Howed' in Hx. destruct Hx as [Hx Hne]. destruct (O _ Hx) as [q Hq].
    exists q. rewrite lookup_remove_key. assert (x =? c = false) as -> by lia. exact Hq.
  - intros q x Hd. rewrite Hs in Hd. destruct (q =? p) eqn:E; [congruence|].
    specialize (R _ _ Hd). rewrite lookup_remove_key. destruct (x =? c) eqn:E2; [|exact R].
    assert (x = c) by lia. subst x. rewrite Hl in R. injection R as ->. lia.
  - cbn [g' g_open g_neg]. intros x t Hx. rewrite Hgo in Hx. rewrite Hgn. intros [Hn2 _]. destruct Hx as [Hx _].
    exact (ON _ _ Hx Hn2).
  - intros x Hx. rewrite Howed', Hkacc in Hx.
    assert (Hc : c < next_conn m) by (apply F; now left).
    assert (Hx' : x = c \/ (owed g x \/ In x (keys (g_att g)) \/ In x (g_inb g) \/ In x (g_done g) \/
                             In x (keys (accepting m)) \/ In x (g_super g))) by intuition.
    destruct Hx' as [->|Hx']; [exact Hc | now apply F].
  - intros x Hx. destruct (INB _ Hx) as (H1 & H2 & H3). rewrite Hkacc. repeat split; auto.
    intros [H| ->]; [contradiction|]. apply H1. eapply lookup_in_keys. exact Hatc.
  - intros x Hx. rewrite Howed', Hkacc. destruct (D _ Hx) as [H1 H2]. split; [tauto|].
    intros [H| ->]; contradiction.
  - assumption.
  - rewrite Ha. now apply nodup_keys_snoc.
  - intros x Hx. rewrite Howed'. rewrite Hkacc in Hx. intros [H Hne]. destruct Hx as [Hx| ->]; [|congruence].
    exact (AS _ Hx H).
  - intros x q Hx. rewrite Howed', Hkacc. destruct (x =? c) eqn:E.
    + do 4 right. right. lia.
    + destruct (AC _ _ Hx) as [H|[H|[H|[H|H]]]]; auto.
      * left. split; [assumption | lia].
      * do 4 right. now left.
  - intros x q Hx Hat. destruct (SU _ _ Hx Hat) as [H|(c' & b' & H)]; [now left|].
    right. exists c', b'. rewrite Ha. now apply lookup_snoc_some.
  - intros q x ts Hq. rewrite Hs in Hq. destruct (q =? p); [rewrite Hq in Hst; discriminate | eapply NE; exact Hq].
  - intros x t Hin. cbn [g' g_open] in Hin. apply Hgo in Hin. destruct Hin as [Hin _]. eauto.
  - exact HK.
Qed.

Lemma established_own_record s c :
  dial_record s = Some c -> (forall ts, s <> Opening c ts) ->
  snd (st_on_established s c) = true /\ dial_record (fst (st_on_established s c)) = None /\
  (forall d ts, s <> Opening d ts).
Proof.
  destruct s as [r [[e|e]|]|o us|o|[o|]]; cbn [dial_record]; try discriminate; intros [= ->] Hne;
    cbn [st_on_established]; try (assert (c =? c = true) as -> by lia); cbn [fst snd dial_record];
    try (repeat split; discriminate). exfalso. eapply Hne. reflexivity.
Qed.

Lemma nondefault_exists m p : state_of m p <> Disconnected None ->
  existsb (fun kp : N * pstate => fst kp =? p) (peers m) = true.
Proof.
  unfold state_of. induction (peers m) as [|[k v] t IH]; cbn [lookup existsb fst]; [congruence|].
  destruct (k =? p); [reflexivity|]. cbn [orb]. exact IH.
Qed.

Lemma mem_single c : mem c [c] = true.
Proof. unfold mem. cbn [existsb]. assert (c =? c = true) as -> by lia. reflexivity. Qed.

Lemma linv_established_dialer L m g p c t :
  LInv L m g -> installed L t = true -> In c (g_neg g) -> lookup c (g_att g) = Some p ->
  LInv L (fst (do_established L m p c t false false))
       (gstep (TrEstablished p c t false false) (snd (do_established L m p c t false false)) g).
Proof.
  intros I Hi Hin Hat. destruct (owed_neg_facts _ _ _ _ _ I Hin Hat) as (Hp & Hd & Hno & Hnopen).
  assert (Hgo : forall x, In x (g_open g) <-> In x (g_open g) /\ fst x <> c).
  { intros x. split; [|tauto]. intros H. split; [exact H|]. intros E. destruct x as [a u]. cbn [fst] in E.
    subst a. exact (Hnopen _ H). }
  set (m0 := add_addr (set_oerrs m (remove_key c (oerrs m))) p (canon p t)).
  assert (K0 : KInv L m0).
  { apply kinv_add_addr; [|now apply installed_kind_canon]. eapply kinv_frame; [|exact (li_kinds _ _ _ I)]. reflexivity. }
  assert (Hp0 : pending m0 = pending m) by (subst m0; now rewrite add_addr_pending).
  assert (Hs0 : forall q, state_of m0 q = state_of m q) by (intros q; subst m0; now rewrite so_add_addr, so_oerrs).
  assert (Ha0 : accepting m0 = accepting m) by (subst m0; now rewrite add_addr_accepting).
  assert (Hn0 : next_conn m0 = next_conn m) by (subst m0; now rewrite add_addr_next_conn).
  assert (Ho0 : outs m0 = outs m) by (subst m0; now rewrite add_addr_outs).
  unfold do_established. fold m0. rewrite Hp0, Hp.
  assert (p =? p = true) as -> by lia.
  unfold do_established_checked. rewrite so_pending, Hs0.
  cbn [set_pending outs ins]. rewrite Ho0.
  destruct (limit_reached (max_out L) (outs m)).
  - (* rejected by the limit: the attempt ends without report (known finding), the record is cleared *)
    rewrite nondefault_exists.
    2:{ rewrite so_pending, Hs0. intros E. rewrite E in Hd. discriminate. }
    cbn [fst snd]. unfold gstep.
    cbn [ev_target flat_map app out_open out_dialneg out_cancel out_reject out_term out_rep map first1]. rewrite mem_single.
    rewrite removes_p_nil.
    apply (linv_conclude L m g c p (st_on_dial_failure (state_of m p) c) false);
      [exact I | exact Hp | exact Hgo | intros x; apply in_removes1 | | | | | | ].
    + cbn [set_state set_pending pending]. reflexivity.
    + intros q. rewrite state_of_set_state, !so_pending, !Hs0. reflexivity.
    + now apply dial_record_on_failure.
    + cbn [set_state set_pending accepting]. exact Ha0.
    + cbn [set_state set_pending next_conn]. exact Hn0.
    + eapply kinv_frame; [|exact K0]. reflexivity.
  - destruct (established_own_record _ _ Hd Hno) as (Hacc & Hrec & Hnop).
    destruct (st_on_established (state_of m p) c) as [s' acc] eqn:Est. cbn [fst snd] in Hacc, Hrec. subst acc.
    cbn [negb].
    destruct (state_of m p) as [r sc|o us|o|o] eqn:Es; try (exfalso; eapply Hnop; reflexivity);
      unfold est_finish; cbn [fst snd app]; unfold gstep;
      cbn [ev_target flat_map app out_open out_dialneg out_cancel out_reject out_term out_rep mem existsb map first1];
      rewrite removes_p_nil;
      (apply (linv_conclude_acc L m g c p s' false);
       [exact I | exact Hp | exact Hgo | intros x; apply in_removes1
        | reflexivity
        | intros q; rewrite so_accepting, so_limits, state_of_set_state, so_pending, Hs0; reflexivity
        | exact Hrec
        | cbn [set_accepting set_limits set_state set_pending accepting]; now rewrite Ha0
        | cbn [set_accepting set_limits set_state set_pending next_conn]; exact Hn0
        | eapply kinv_frame; [|exact K0]; reflexivity ]).
Qed.

Definition with_inb (g : ghost) (i : list conn) : ghost :=
  mkG (g_open g) (g_neg g) (g_att g) (g_done g) (g_super g) (g_limrej g) i (g_rep g).

Lemma inb_facts L m g c : LInv L m g -> In c (g_inb g) ->
  ~ owed g c /\ lookup c (pending m) = None /\ ~ In c (keys (accepting m)) /\ ~ In c (g_done g) /\
  ~ In c (keys (g_att g)) /\ c < next_conn m.
Proof.
  intros [P O R ON F INB D DN AN AS AC SU NE OI KI] Hin. destruct (INB _ Hin) as (H1 & H2 & H3).
  assert (Hno : ~ owed g c).
  { intros Ho. destruct (O _ Ho) as [q Hq]. destruct (P _ _ Hq) as (_ & Hat & _). apply H1.
    eapply lookup_in_keys. exact Hat. }
  assert (Hpn : lookup c (pending m) = None).
  { destruct (lookup c (pending m)) as [q|] eqn:E; [|reflexivity].
    exfalso. destruct (P _ _ E) as (Ho & _). contradiction. }
  assert (Hlt : c < next_conn m) by (apply F; intuition).
  repeat split; assumption.
Qed.

(* dropping an unused inbound id (the connection was rejected) *)
Lemma linv_inb_drop L m g c m' :
  LInv L m g -> pending m' = pending m -> (forall q, state_of m' q = state_of m q) ->
  accepting m' = accepting m -> next_conn m' = next_conn m -> KInv L m' ->
  LInv L m' (with_inb g (removes [c] (g_inb g))).
Proof.
  intros [P O R ON F INB D DN AN AS AC SU NE OI KI] Hp Hs Ha Hn HK. unfold with_inb.
  split; cbn [g_open g_neg g_att g_done g_super g_limrej g_inb g_rep]; rewrite ?Hp, ?Ha, ?Hn; try assumption.
  - intros x q Hx. rewrite Hs. exact (P _ _ Hx).
  - intros q x Hx. rewrite Hs in Hx. auto.
  - intros x Hx. apply F. unfold owed in *. cbn [g_open g_neg] in Hx. rewrite in_removes1 in Hx. intuition.
  - intros x Hx. rewrite in_removes1 in Hx. destruct Hx as [Hx _]. auto.
  - intros q x ts Hq. rewrite Hs in Hq. eapply NE. exact Hq.
Qed.

(* accepting an inbound connection c for p whose peer state keeps its dial record *)
Lemma linv_inb_accept L m g c p m' :
  LInv L m g -> In c (g_inb g) ->
  pending m' = pending m -> (forall q, state_of m' q = state_of m q) ->
  accepting m' = accepting m ++ [(c, (p, true))] -> next_conn m' = next_conn m -> KInv L m' ->
  LInv L m' (with_inb g (removes [c] (g_inb g))).
Proof.
  intros I Hin Hp Hs Ha Hn HK. destruct (inb_facts _ _ _ _ I Hin) as (Hno & Hpc & Hac & Hdc & Hatc & Hlt).
  destruct I as [P O R ON F INB D DN AN AS AC SU NE OI KI]. unfold with_inb.
  assert (Hkacc : forall x, In x (keys (accepting m')) <-> In x (keys (accepting m)) \/ x = c).
  { intros x. rewrite Ha, keys_app_in. cbn [keys map fst In]. intuition. }
  split; cbn [g_open g_neg g_att g_done g_super g_limrej g_inb g_rep]; rewrite ?Hp, ?Hn; try assumption.
  - intros x q Hx. rewrite Hs. exact (P _ _ Hx).
  - intros q x Hx. rewrite Hs in Hx. auto.
  - intros x Hx. unfold owed in Hx. cbn [g_open g_neg] in Hx. rewrite in_removes1, Hkacc in Hx.
    assert (Hx' : x = c \/ (owed g x \/ In x (keys (g_att g)) \/ In x (g_inb g) \/ In x (g_done g) \/
                             In x (keys (accepting m)) \/ In x (g_super g))) by (unfold owed; intuition).
    destruct Hx' as [->|Hx']; [exact Hlt | now apply F].
  - intros x Hx. rewrite in_removes1 in Hx. destruct Hx as [Hx Hne]. destruct (INB _ Hx) as (H1 & H2 & H3).
    rewrite Hkacc. repeat split; auto. intros [H|H]; contradiction.
  - intros x Hx. destruct (D _ Hx) as [H1 H2]. split; [exact H1|]. rewrite Hkacc.
    intros [H| ->]; contradiction.
  - rewrite Ha. now apply nodup_keys_snoc.
  - intros x Hx. rewrite Hkacc in Hx. destruct Hx as [Hx| ->]; [exact (AS _ Hx) | exact Hno].
  - intros x q Hx. rewrite Hkacc. destruct (AC _ _ Hx) as [H|[H|[H|[H|H]]]]; auto. do 4 right. now left.
  - intros x q Hx Hat. destruct (SU _ _ Hx Hat) as [H|(c' & b' & H)]; [now left|].
    right. exists c', b'. rewrite Ha. now apply lookup_snoc_some.
  - intros q x ts Hq. rewrite Hs in Hq. eapply NE. exact Hq.
Qed.

(* an opening attempt d of peer p is superseded: an accept future for a connection with p exists *)
Lemma linv_conclude_super L m g d p st' m' go' :
  LInv L m g -> lookup d (pending m) = Some p ->
  (exists c' b, lookup c' (accepting m) = Some (p, b)) ->
  (forall x, In x go' <-> In x (g_open g) /\ fst x <> d) ->
  ~ In d (g_neg g) ->
  pending m' = remove_key d (pending m) ->
  (forall q, state_of m' q = if q =? p then st' else state_of m q) -> dial_record st' = None ->
  accepting m' = accepting m -> next_conn m' = next_conn m -> KInv L m' ->
  LInv L m' (mkG go' (g_neg g) (g_att g) (g_done g) (d :: g_super g)
               (g_limrej g) (g_inb g) (g_rep g)).
Proof.
  intros [P O R ON F INB D DN AN AS AC SU NE OI KI] Hl Hwit Hgo Hdn Hp Hs Hst Ha Hn HK.
  destruct (P _ _ Hl) as (Hoc & Hatc & Hdc & Hiffc).
  match goal with |- LInv _ _ ?x => set (g' := x) end.
  assert (Howed' : forall x, owed g' x <-> owed g x /\ x <> d).
  { intros x. unfold owed. cbn [g' g_open g_neg]. split.
    - intros [[t Ht]|H1].
      + apply Hgo in Ht. destruct Ht as [Ht Hne]. cbn [fst] in Hne. split; [left; eauto | exact Hne].
      + split; [now right|]. intros ->. contradiction.
    - intros [[[t Ht]|H1] H2].
      + left. exists t. apply Hgo. cbn [fst]. auto.
      + right. auto. }
  assert (Hother : forall x q, x <> d -> lookup x (pending m) = Some q -> q <> p).
  { intros x q Hne Hx ->. destruct (P _ _ Hx) as (_ & _ & Hdx & _). congruence. }
  split; rewrite ?Hp, ?Ha, ?Hn;
    change (g_att g') with (g_att g); change (g_super g') with (d :: g_super g);
    change (g_inb g') with (g_inb g); change (g_rep g') with (g_rep g);
    change (g_done g') with (g_done g); change (g_limrej g') with (g_limrej g);
    change (g_neg g') with (g_neg g).
  - intros x q Hx. rewrite lookup_remove_key in Hx. destruct (x =? d) eqn:E; [discriminate|].
    assert (Hne : x <> d) by lia. destruct (P _ _ Hx) as (Ho & Hat & Hd & Hiff).
    rewrite Howed', Hs. assert (q =? p = false) as -> by (pose proof (Hother _ _ Hne Hx); lia).
    repeat split; auto.
    + cbn [g' g_open]. rewrite Hgo. intros [Hin _]. now apply Hiff.
    + intros Hop. cbn [g' g_open]. rewrite Hgo. cbn [fst]. split; [now apply Hiff | assumption].
  - intros x Hx. apply Howed' in Hx. destruct Hx as [Hx Hne]. destruct (O _ Hx) as [q Hq].
    exists q. rewrite lookup_remove_key. assert (x =? d = false) as -> by lia. exact Hq.
  - intros q x Hd. rewrite Hs in Hd. destruct (q =? p) eqn:E; [congruence|].
    specialize (R _ _ Hd). rewrite lookup_remove_key. destruct (x =? d) eqn:E2; [|exact R].
    assert (x = d) by lia. subst x. rewrite Hl in R. injection R as ->. lia.
  - cbn [g' g_open]. intros x t Hx. rewrite Hgo in Hx. destruct Hx as [Hx _]. exact (ON _ _ Hx).
  - intros x Hx. rewrite Howed' in Hx. cbn [In] in Hx.
    assert (Hc : d < next_conn m) by (apply F; now left).
    assert (Hx' : x = d \/ (owed g x \/ In x (keys (g_att g)) \/ In x (g_inb g) \/ In x (g_done g) \/
                             In x (keys (accepting m)) \/ In x (g_super g))) by intuition.
    destruct Hx' as [->|Hx']; [exact Hc | now apply F].
  - exact INB.
  - intros x Hx. rewrite Howed'. destruct (D _ Hx) as [H1 H2]. split; [tauto | assumption].
  - assumption.
  - assumption.
  - intros x Hx. rewrite Howed'. intros [H _]. exact (AS _ Hx H).
  - intros x q Hx. rewrite Howed'. cbn [In]. destruct (x =? d) eqn:E.
    + do 2 right. left. left. lia.
    + destruct (AC _ _ Hx) as [H|[H|[H|[H|H]]]]; auto.
      left. split; [assumption | lia].
  - intros x q Hx Hat. cbn [In] in Hx. destruct Hx as [<-|Hx]; [|eauto].
    right. assert (q = p) by congruence. subst q. exact Hwit.
  - intros q x ts Hq. rewrite Hs in Hq. destruct (q =? p); [rewrite Hq in Hst; discriminate | eapply NE; exact Hq].
  - intros x t Hin. cbn [g' g_open] in Hin. apply Hgo in Hin. destruct Hin as [Hin _]. eauto.
  - exact HK.
Qed.

Lemma no_record_is_inb L m g c p : LInv L m g -> In c (g_inb g) -> st_on_dial_failure (state_of m p) c = state_of m p.
Proof.
  intros I Hin. destruct (inb_facts _ _ _ _ I Hin) as (_ & _ & _ & _ & Hatc & _).
  destruct I as [P O R ON F INB D DN AN AS AC SU NE OI KI].
  destruct (dial_record (state_of m p)) as [d|] eqn:Ed.
  - apply (dial_record_on_failure_other _ _ d Ed). intros ->.
    specialize (R _ _ Ed). destruct (P _ _ R) as (_ & Hat & _). apply Hatc. eapply lookup_in_keys. exact Hat.
  - now apply dial_record_on_failure_none.
Qed.

Lemma first1_pairs (d : conn) (ts : list tr) : ts <> [] -> first1 (map fst (map (pair d) ts)) = [d].
Proof. destruct ts; [congruence | reflexivity]. Qed.

Lemma linv_established_listener L m g p c t :
  LInv L m g -> installed L t = true -> In c (g_inb g) ->
  LInv L (fst (do_established L m p c t true false))
       (gstep (TrEstablished p c t true false) (snd (do_established L m p c t true false)) g).
Proof.
  intros I Hi Hin. destruct (inb_facts _ _ _ _ I Hin) as (Hno & Hpc & Hac & Hdc & Hatc & Hlt).
  pose proof (no_record_is_inb L m g c p I Hin) as Hsame.
  pose proof (li_kinds _ _ _ I) as K.
  unfold do_established. cbn [set_oerrs pending]. rewrite Hpc, (remove_key_notin c (pending m) Hpc).
  set (mm := set_pending (set_oerrs m (remove_key c (oerrs m))) (pending m)).
  assert (Hpm : pending mm = pending m) by reflexivity.
  assert (Hsm : forall q, state_of mm q = state_of m q) by reflexivity.
  assert (Ham : accepting mm = accepting m) by reflexivity.
  assert (Hnm : next_conn mm = next_conn m) by reflexivity.
  assert (Km : KInv L mm) by (eapply kinv_frame; [|exact K]; reflexivity).
  unfold do_established_checked. change (ins mm) with (ins m). rewrite Hsm.
  destruct (limit_reached (max_in L) (ins m)).
  { (* rejected by the inbound limit: nothing changes but the id is used up *)
    rewrite Hsame.
    destruct (existsb _ _); cbn [fst snd]; unfold gstep;
      cbn [ev_target flat_map app out_open out_dialneg out_cancel out_reject out_term out_rep map first1];
      rewrite !removes_nil, removes_p_nil;
      apply (linv_inb_drop L m g c); auto; try (eapply kinv_frame; [|exact K]; reflexivity); intros q.
    rewrite state_of_set_state, Hsm. destruct (q =? p) eqn:E; [|reflexivity].
    assert (q = p) by lia. now subst q. }
  destruct (state_of m p) as [r [[e|e]|]|d ts|d|[d|]] eqn:Es; cbn [st_on_established negb].
  - (* already two connections: rejected *)
    cbn [fst snd]. unfold gstep.
    cbn [ev_target flat_map app out_open out_dialneg out_cancel out_reject out_term out_rep map first1].
    rewrite !removes_nil, removes_p_nil. apply (linv_inb_drop L m g c); auto.
  - (* connected with an own dial in flight: the record is another id, rejected *)
    assert (e =? c = false) as ->.
    { destruct (e =? c) eqn:E; [|reflexivity]. exfalso. assert (e = c) by lia. subst e.
      destruct I as [P O R ON F INB D DN AN AS AC SU NE OI KI].
      assert (Hr : dial_record (state_of m p) = Some c) by (rewrite Es; reflexivity).
      specialize (R _ _ Hr). congruence. }
    cbn [negb fst snd]. unfold gstep.
    cbn [ev_target flat_map app out_open out_dialneg out_cancel out_reject out_term out_rep map first1].
    rewrite !removes_nil, removes_p_nil. apply (linv_inb_drop L m g c); auto.
  - (* connected, room for a secondary *)
    unfold est_finish. cbn [fst snd app]. unfold gstep.
    cbn [ev_target flat_map app out_open out_dialneg out_cancel out_reject out_term out_rep map first1].
    rewrite !removes_nil, removes_p_nil.
    apply (linv_inb_accept L (set_state m p (Connected r (Some (SecEst c)))) g c p); auto.
    + apply (linv_same_record L m g p (Connected r (Some (SecEst c)))); auto.
      * intros q. now rewrite state_of_set_state.
      * now rewrite Es.
      * intros x us. rewrite Es. split; discriminate.
  - (* Opening d ts: the inbound connection wins, the open is cancelled on every transport *)
    assert (Hrec : dial_record (state_of m p) = Some d) by (rewrite Es; reflexivity).
    assert (Hpd : lookup d (pending m) = Some p) by (apply (li_record _ _ _ I); exact Hrec).
    assert (Hne : ts <> []) by (eapply (li_opening_ne _ _ _ I); exact Es).
    assert (Hall : forall u, In (d, u) (g_open g) <-> In u ts).
    { intros u. destruct (li_pending _ _ _ I _ _ Hpd) as (_ & _ & _ & Hiff). rewrite Hiff, Es. cbn [opening_on]. tauto. }
    assert (Hinst : forall u, In u ts -> installed L u = true).
    { intros u Hu. apply (li_open_inst _ _ _ I d u). now apply Hall. }
    assert (Hdn : ~ In d (g_neg g)).
    { destruct ts as [|u r]; [congruence|]. apply (li_open_neg _ _ _ I d u). apply Hall. now left. }
    rewrite (forallb_installed _ _ Hinst). cbn [negb].
    unfold est_finish. cbn [fst snd]. unfold gstep. cbn [ev_target].
    rewrite !flat_map_app, ?fm_open_cancels, ?fm_dialneg_cancels, ?fm_cancel_cancels, ?fm_reject_cancels,
      ?fm_term_cancels, ?fm_rep_cancels.
    cbn [flat_map app out_open out_dialneg out_cancel out_reject out_term out_rep]. rewrite !app_nil_r.
    rewrite (first1_pairs d ts Hne). rewrite !removes_nil. cbn [app].
    set (ma := set_accepting m (accepting m ++ [(c, (p, true))])).
    assert (Ia : LInv L ma (with_inb g (removes [c] (g_inb g)))).
    { apply (linv_inb_accept L m g c p); auto. }
    apply (linv_conclude_super L ma (with_inb g (removes [c] (g_inb g))) d p (Connected c None));
      [exact Ia | exact Hpd | | | exact Hdn | reflexivity | | reflexivity | reflexivity | reflexivity | ].
    + exists c, true. cbn [ma set_accepting accepting]. rewrite lookup_app_last.
      destruct (lookup c (accepting m)) as [v|] eqn:El.
      * exfalso. apply Hac. eapply lookup_in_keys. exact El.
      * assert (c =? c = true) as -> by lia. reflexivity.
    + intros x. cbn [with_inb g_open]. rewrite in_removes_p. split.
      * intros [H Hn2]. split; [exact H|]. intros E. destruct x as [a u]. cbn [fst] in E. subst a.
        apply Hn2. apply in_map_pair. split; [reflexivity | now apply Hall].
      * intros [H Hn2]. split; [exact H|]. intros E. destruct x as [a u]. apply in_map_pair in E.
        destruct E as [-> _]. now apply Hn2.
    + intros q. rewrite so_accepting, so_pending, so_limits, state_of_set_state, Hsm. reflexivity.
    + eapply kinv_frame; [|exact K]; reflexivity.
  - (* Dialing d: the inbound connection becomes primary, the dial record is kept *)
    assert (d =? c = false) as ->.
    { destruct (d =? c) eqn:E; [|reflexivity]. exfalso. assert (d = c) by lia. subst d.
      destruct I as [P O R ON F INB D DN AN AS AC SU NE OI KI].
      assert (Hr : dial_record (state_of m p) = Some c) by (rewrite Es; reflexivity).
      specialize (R _ _ Hr). congruence. }
    unfold est_finish. cbn [fst snd app]. unfold gstep.
    cbn [ev_target flat_map app out_open out_dialneg out_cancel out_reject out_term out_rep map first1].
    rewrite !removes_nil, removes_p_nil.
    apply (linv_inb_accept L (set_state m p (Connected c (Some (SecDial d)))) g c p); auto.
    + apply (linv_same_record L m g p (Connected c (Some (SecDial d)))); auto.
      * intros q. now rewrite state_of_set_state.
      * now rewrite Es.
      * intros x us. rewrite Es. split; discriminate.
  - (* Disconnected with a dial record *)
    assert (d =? c = false) as ->.
    { destruct (d =? c) eqn:E; [|reflexivity]. exfalso. assert (d = c) by lia. subst d.
      destruct I as [P O R ON F INB D DN AN AS AC SU NE OI KI].
      assert (Hr : dial_record (state_of m p) = Some c) by (rewrite Es; reflexivity).
      specialize (R _ _ Hr). congruence. }
    unfold est_finish. cbn [fst snd app]. unfold gstep.
    cbn [ev_target flat_map app out_open out_dialneg out_cancel out_reject out_term out_rep map first1].
    rewrite !removes_nil, removes_p_nil.
    apply (linv_inb_accept L (set_state m p (Connected c (Some (SecDial d)))) g c p); auto.
    + apply (linv_same_record L m g p (Connected c (Some (SecDial d)))); auto.
      * intros q. now rewrite state_of_set_state.
      * now rewrite Es.
      * intros x us. rewrite Es. split; discriminate.
  - (* fully disconnected *)
    unfold est_finish. cbn [fst snd app]. unfold gstep.
    cbn [ev_target flat_map app out_open out_dialneg out_cancel out_reject out_term out_rep map first1].
    rewrite !removes_nil, removes_p_nil.
    apply (linv_inb_accept L (set_state m p (Connected c None)) g c p); auto.
    + apply (linv_same_record L m g p (Connected c None)); auto.
      * intros q. now rewrite state_of_set_state.
      * now rewrite Es.
      * intros x us. rewrite Es. split; discriminate.
Qed.

Lemma linv_accept_done L m g c :
  LInv L m g -> In c (keys (accepting m)) ->
  LInv L (fst (do_accept_done m c true)) (gstep (AcceptDone c true) (snd (do_accept_done m c true)) g).
Proof.
  intros [P O R ON F INB D DN AN AS AC SU NE OI KI] Hin.
  destruct (keys_in_lookup _ _ Hin) as [[p b] Hl].
  unfold do_accept_done. rewrite Hl. cbn [fst snd].
  unfold gstep. cbn [ev_target flat_map app out_open out_dialneg out_cancel out_reject out_term out_rep].
  rewrite !removes_nil, removes_p_nil.
  assert (Hlk : forall x, lookup x (remove_first c (accepting m)) = if x =? c then None else lookup x (accepting m)).
  { intros x. now apply lookup_remove_first. }
  assert (Hk : forall x, In x (keys (remove_first c (accepting m))) <-> In x (keys (accepting m)) /\ x <> c).
  { intros x. split.
    - intros Hx. apply keys_in_lookup in Hx. destruct Hx as [v Hv]. rewrite Hlk in Hv.
      destruct (x =? c) eqn:E; [discriminate|]. split; [eapply lookup_in_keys; exact Hv | lia].
    - intros [Hx Hne]. apply keys_in_lookup in Hx. destruct Hx as [v Hv].
      apply (lookup_in_keys x _ v). rewrite Hlk. assert (x =? c = false) as -> by lia. exact Hv. }
  split; cbn [set_accepting pending accepting next_conn g_open g_neg g_att g_done g_super g_limrej g_inb g_rep];
    try assumption.
  - intros x Hx. rewrite Hk in Hx. cbn [In] in Hx.
    assert (Hx' : owed g x \/ In x (keys (g_att g)) \/ In x (g_inb g) \/ In x (g_done g) \/
                  In x (keys (accepting m)) \/ In x (g_super g)).
    { destruct Hx as [H|[H|[H|[[<-|H]|[[H _]|H]]]]]; auto 10. }
    now apply F.
  - intros x Hx. destruct (INB _ Hx) as (H1 & H2 & H3). rewrite Hk. repeat split; auto.
    + cbn [In]. intros [<-|H]; contradiction.
    + intros [H _]. contradiction.
  - intros x Hx. rewrite Hk. cbn [In] in Hx. destruct Hx as [<-|Hx].
    + split; [exact (AS _ Hin)|]. intros [_ Hne]. congruence.
    + destruct (D _ Hx) as [H1 H2]. split; [assumption|]. intros [H _]. contradiction.
  - constructor; [|assumption]. intros Hd. destruct (D _ Hd) as [_ H2]. contradiction.
  - now apply nodup_remove_first.
  - intros x Hx. rewrite Hk in Hx. destruct Hx as [Hx _]. exact (AS _ Hx).
  - intros x q Hx. rewrite Hk. cbn [In]. destruct (AC _ _ Hx) as [H|[H|[H|[H|H]]]]; auto.
    destruct (N.eq_dec x c) as [->|Hne]; [right; left; now left | do 4 right; auto].
  - intros x q Hx Hat. cbn [In]. destruct (SU _ _ Hx Hat) as [H|(c' & b' & H)]; [left; now right|].
    destruct (N.eq_dec c' c) as [->|Hne].
    + left. left. congruence.
    + right. exists c', b'. rewrite Hlk. assert (c' =? c = false) as -> by lia. exact H.
Qed.

Lemma alloc_of_ret n : alloc_of [Ret (RET_ALLOC + n)] = [n].
Proof.
  unfold alloc_of. cbn [flat_map app]. assert (RET_ALLOC <=? RET_ALLOC + n = true) as -> by lia.
  cbn [app]. f_equal. lia.
Qed.

Lemma linv_alloc L m g :
  LInv L m g -> LInv L (bump_conn m) (gstep AllocConn [Ret (RET_ALLOC + next_conn m)] g).
Proof.
  intros [P O R ON F INB D DN AN AS AC SU NE OI KI].
  unfold gstep. rewrite alloc_of_ret.
  cbn [ev_target flat_map app out_open out_dialneg out_cancel out_reject out_term out_rep]. rewrite !removes_nil, removes_p_nil.
  assert (Hfresh : forall x, (owed g x \/ In x (keys (g_att g)) \/ In x (g_inb g) \/ In x (g_done g) \/
                              In x (keys (accepting m)) \/ In x (g_super g)) -> x <> next_conn m).
  { intros x Hx. specialize (F x Hx). lia. }
  split; cbn [bump_conn pending accepting next_conn g_open g_neg g_att g_done g_super g_limrej g_inb g_rep];
    try assumption.
  - intros x Hx. cbn [In] in Hx.
    assert (Hx' : x = next_conn m \/ (owed g x \/ In x (keys (g_att g)) \/ In x (g_inb g) \/ In x (g_done g) \/
                  In x (keys (accepting m)) \/ In x (g_super g))).
    { destruct Hx as [H|[H|[[<-|H]|H]]]; auto 10. }
    destruct Hx' as [->|Hx']; [lia|]. specialize (F _ Hx'). lia.
  - intros x Hx. cbn [In] in Hx. destruct Hx as [<-|Hx]; [|auto].
    repeat split; intros H; apply (Hfresh (next_conn m)); auto 10.
Qed.

Lemma gstep_shape_addr a p t os g :
  ev_target (CmdDialShape a) = Some p -> gstep (CmdDialShape a) os g = gstep (CmdDialAddr p t false) os g.
Proof. intros H. unfold gstep. now rewrite H. Qed.

Lemma linv_dial_shape L m g a :
  LInv L m g ->
  LInv L (fst (do_dial_shape L m a false)) (gstep (CmdDialShape a) (snd (do_dial_shape L m a false)) g).
Proof.
  intros I. unfold do_dial_shape.
  destruct (limit_reached (max_out L) (outs m)).
  { cbn [fst snd]. rewrite gstep_quiet_cmd; [exact I | apply quiet_ret; reflexivity | exact Logic.I]. }
  destruct (dial_shape LISTEN a) as [code|p|p] eqn:Es.
  - cbn [fst snd].
    assert (Hcode : code < RET_ALLOC).
    { destruct (DialShapeProofs.dial_shape_refusals _ _ _ Es) as [->|[->| ->]]; reflexivity. }
    rewrite gstep_quiet_cmd; [exact I | now apply quiet_ret | exact Logic.I].
  - rewrite (gstep_shape_addr a p TCP); [|cbn [ev_target]; now rewrite Es].
    apply linv_dial_addr; [exact I | now apply (kind_of_tcp_shape a p)].
  - rewrite (gstep_shape_addr a p WS); [|cbn [ev_target]; now rewrite Es].
    apply linv_dial_addr; [exact I | now apply (kind_of_ws_shape a p)].
Qed.

Lemma linv_dial_addr_event L m g p t :
  LInv L m g ->
  LInv L (fst (do_dial_shape L m (canon p t) false))
       (gstep (CmdDialAddr p t false) (snd (do_dial_shape L m (canon p t) false)) g).
Proof.
  intros I. pose proof (linv_dial_shape L m g (canon p t) I) as H.
  rewrite (gstep_shape_addr (canon p t) p t) in H; [exact H|].
  cbn [ev_target]. rewrite dial_shape_canon. destruct (t =? TCP); reflexivity.
Qed.

(* what the ghost reads is not changed by demoting the manager's result to a log line *)
Lemma fm_demote {A} (f : out -> list A) os :
  (forall o, f (demote o) = f o) -> flat_map f (map demote os) = flat_map f os.
Proof. intros H. induction os as [|o r IH]; cbn [map flat_map]; [reflexivity|]. now rewrite H, IH. Qed.

Lemma gstep_handle e e' os g :
  ev_target e = ev_target e' ->
  match e with HDialPeer _ _ _ _ | HDialAddr _ _ => True | _ => False end ->
  match e' with CmdDialPeer _ _ _ | CmdDialShape _ => True | _ => False end ->
  (ret_ok os = true \/ (flat_map out_open os = [] /\ flat_map out_dialneg os = [])) ->
  gstep e (Ret RET_OK :: map demote os) g = gstep e' os g.
Proof.
  intros Ht He He' Hr. unfold gstep. rewrite Ht.
  cbn [flat_map app out_open out_dialneg out_cancel out_reject out_term out_rep].
  rewrite !fm_demote by (intros o; destruct o; reflexivity).
  assert (Hret : ret_ok (Ret RET_OK :: map demote os) = true) by reflexivity.
  rewrite Hret.
  destruct Hr as [Hr | [H1 H2]].
  - rewrite Hr. destruct (ev_target e'); destruct e; try contradiction; destruct e'; try contradiction; reflexivity.
  - rewrite H1, H2. cbn [map app first1].
    destruct (ev_target e'); [destruct (ret_ok os)|];
      destruct e; try contradiction; destruct e'; try contradiction; reflexivity.
Qed.

Lemma dial_peer_outputs L m p ts :
  (selects L m p = true -> choice_ok L m p ts = true) -> KInv L m ->
  let os := snd (do_dial_peer L m p ts []) in
  ret_ok os = true \/ (flat_map out_open os = [] /\ flat_map out_dialneg os = []).
Proof.
  intros Hsel K. unfold do_dial_peer.
  destruct (limit_reached _ _) eqn:El; [right; split; reflexivity|].
  destruct (p =? LOCAL) eqn:Ep; [right; split; reflexivity|].
  destruct (can_dial (state_of m p)) eqn:Eg; try (right; split; reflexivity).
  destruct (is_nil (addrs_of m p)) eqn:En; [right; split; reflexivity|].
  specialize (Hsel (selects_ok _ _ _ El Ep Eg En)).
  rewrite (open_calls_all L (next_conn m) ts (choice_installed _ _ _ _ K Hsel)). cbn [snd].
  left. apply ret_ok_opens.
Qed.

Lemma dial_shape_outputs L m a :
  let os := snd (do_dial_shape L m a false) in
  ret_ok os = true \/ (flat_map out_open os = [] /\ flat_map out_dialneg os = []).
Proof.
  unfold do_dial_shape. destruct (limit_reached _ _); [right; split; reflexivity|].
  assert (Hd : forall p t, let os := snd (do_dial_addr L m p t a false) in
             ret_ok os = true \/ (flat_map out_open os = [] /\ flat_map out_dialneg os = [])).
  { intros p t. unfold do_dial_addr. destruct (negb _); [right; split; reflexivity|].
    destruct (can_dial _); cbn [snd]; [right; split; reflexivity | right; split; reflexivity | left; reflexivity]. }
  destruct (dial_shape LISTEN a); [right; split; reflexivity | apply Hd | apply Hd].
Qed.

Lemma linv_hdial_peer L m g p ts clog :
  LInv L m g -> (selects L m p = true -> choice_ok L m p ts = true) ->
  LInv L (fst (do_hdial_peer L m p ts [] clog))
       (gstep (HDialPeer p ts [] clog) (snd (do_hdial_peer L m p ts [] clog)) g).
Proof.
  intros I Hsel. unfold do_hdial_peer.
  destruct (handle_gate m p) as [code| |] eqn:Eg.
  - cbn [fst snd]. rewrite gstep_quiet_cmd; [exact I| |exact Logic.I]. apply quiet_ret.
    unfold handle_gate in Eg. destruct (p =? LOCAL); [injection Eg as <-; reflexivity|].
    destruct (can_dial _); try discriminate; [injection Eg as <-; reflexivity|].
    destruct (is_nil _); [injection Eg as <-; reflexivity | discriminate].
  - cbn [fst snd]. rewrite gstep_quiet_cmd; [exact I | apply quiet_ret; reflexivity | exact Logic.I].
  - destruct clog.
    + cbn [fst snd]. rewrite gstep_quiet_cmd; [exact I | apply quiet_ret; reflexivity | exact Logic.I].
    + pose proof (linv_dial_peer L m g p ts I Hsel) as H.
      pose proof (dial_peer_outputs L m p ts Hsel (li_kinds _ _ _ I)) as Ho.
      destruct (do_dial_peer L m p ts []) as [m1 os]. cbn [fst snd] in *.
      rewrite (gstep_handle (HDialPeer p ts [] false) (CmdDialPeer p ts []) os g); auto.
Qed.

Lemma linv_hdial_addr L m g a clog :
  LInv L m g ->
  LInv L (fst (do_hdial_addr L m a clog)) (gstep (HDialAddr a clog) (snd (do_hdial_addr L m a clog)) g).
Proof.
  intros I. unfold do_hdial_addr.
  destruct (negb (existsb is_p2p a)).
  { cbn [fst snd]. rewrite gstep_quiet_cmd; [exact I | apply quiet_ret; reflexivity | exact Logic.I]. }
  destruct clog.
  { cbn [fst snd]. rewrite gstep_quiet_cmd; [exact I | apply quiet_ret; reflexivity | exact Logic.I]. }
  pose proof (linv_dial_shape L m g a I) as H.
  pose proof (dial_shape_outputs L m a) as Ho.
  destruct (do_dial_shape L m a false) as [m1 os]. cbn [fst snd] in *.
  rewrite (gstep_handle (HDialAddr a false) (CmdDialShape a) os g); auto.
Qed.

Lemma linv_init L : LInv L init g0.
Proof.
  split; cbn; try (intros; discriminate); try (intros; tauto); try constructor.
  - intros c [[t H]|H]; destruct H.
  - intros c H. unfold owed in H. cbn in H. destruct H as [[[t []]|[]]|H]; intuition.
  - intros p a H. destruct H.
Qed.

Theorem linv_step L m g e :
  LInv L m g -> feas L m g e -> LInv L (fst (step L m e)) (gstep e (snd (step L m e)) g).
Proof.
  intros I He.
  destruct e as [p ts fl|p t f|p t|c t pa|c t f|c t pa|p c t lst f|c t|c ok|p c| |a|p ts fl clog|a clog];
    cbn [step feas] in *.
  - destruct He as [-> Hsel]. now apply linv_dial_peer.
  - subst f. now apply linv_dial_addr_event.
  - cbn [fst snd]. rewrite gstep_quiet_cmd; [|apply quiet_nil|exact Logic.I].
    destruct (installed L (kind_of (canon p t))) eqn:E; [now apply linv_add_addr | exact I].
  - destruct He as (Hi & H1 & H2). rewrite Hi. now apply linv_dial_failure.
  - destruct He as (-> & Hi & H). rewrite Hi. now apply linv_opened.
  - destruct He as (Hi & H1 & H2). rewrite Hi. now apply linv_open_failure.
  - destruct He as (-> & Hi & H). rewrite Hi. destruct lst.
    + now apply linv_established_listener.
    + destruct H as [H1 H2]. now apply linv_established_dialer.
  - destruct (installed L t).
    + destruct (limit_reached (max_in L) (ins m)); cbn [fst snd];
        (rewrite gstep_quiet_cmd; [exact I| |exact Logic.I]);
        unfold quiet, alloc_of; cbn; repeat split.
    + cbn [fst snd]. rewrite gstep_quiet_cmd; [exact I | apply quiet_nil | exact Logic.I].
  - destruct He as [-> H]. now apply linv_accept_done.
  - pose proof (linv_closed L m g p c I) as K. destruct (do_closed m p c) as [m1 rep]. cbn [fst snd] in *.
    rewrite gstep_quiet_cmd; [exact K| |exact Logic.I].
    destruct rep; unfold quiet, alloc_of; cbn; repeat split.
  - cbn [fst snd]. now apply linv_alloc.
  - now apply linv_dial_shape.
  - destruct He as [-> Hsel]. now apply linv_hdial_peer.
  - now apply linv_hdial_addr.
Qed.

(* ---------- histories ---------- *)
Fixpoint lrun (L : limits) (m : mgr) (g : ghost) (es : list ev) : mgr * ghost :=
  match es with
  | [] => (m, g)
  | e :: t => lrun L (fst (step L m e)) (gstep e (snd (step L m e)) g) t
  end.

(* a history the transport contract allows *)
Fixpoint feasible (L : limits) (m : mgr) (g : ghost) (es : list ev) : Prop :=
  match es with
  | [] => True
  | e :: t => feas L m g e /\ feasible L (fst (step L m e)) (gstep e (snd (step L m e)) g) t
  end.

Theorem linv_run L es : forall m g,
  LInv L m g -> feasible L m g es -> LInv L (fst (lrun L m g es)) (snd (lrun L m g es)).
Proof.
  induction es as [|e t IH]; intros m g I Hf; cbn [lrun fst snd]; [exact I|].
  destruct Hf as [H1 H2]. apply IH; [now apply linv_step | exact H2].
Qed.

(* all terminal outputs of a run, most recent first *)
Fixpoint terminals (L : limits) (m : mgr) (es : list ev) : list conn :=
  match es with
  | [] => []
  | e :: t => terminals L (fst (step L m e)) t ++ flat_map out_term (snd (step L m e))
  end.

Lemma done_is_terminals L es : forall m g,
  g_done (snd (lrun L m g es)) = terminals L m es ++ g_done g.
Proof.
  induction es as [|e t IH]; intros m g; cbn [lrun terminals snd]; [reflexivity|].
  rewrite IH. unfold gstep. cbn [g_done]. now rewrite app_assoc.
Qed.

(* T1 — never two terminal outputs (connection reported / failure reported) naming the same
   connection id, on any feasible history *)
Theorem at_most_one_outcome L es :
  feasible L init g0 es -> NoDup (terminals L init es).
Proof.
  intros Hf. pose proof (linv_run L es init g0 (linv_init L) Hf) as I.
  pose proof (li_done_nodup _ _ _ I) as DN. rewrite done_is_terminals in DN.
  cbn [g0 g_done] in DN. now rewrite app_nil_r in DN.
Qed.

Definition quiescent (m : mgr) (g : ghost) : Prop :=
  g_open g = [] /\ g_neg g = [] /\ accepting m = [].

Lemma quiescent_not_owed m g c : quiescent m g -> ~ owed g c.
Proof. intros (Ho & Hn & _) [[t H]|H]; [rewrite Ho in H | rewrite Hn in H]; destruct H. Qed.

(* T2 — never silence: once the transports owe nothing and no accept future is pending, every
   accepted dial attempt has been named by a terminal output, or was superseded by a reported
   connection with the same peer, or belongs to the recorded finding (rejected by the limit) *)
Theorem no_silence L es :
  feasible L init g0 es ->
  let '(m, g) := lrun L init g0 es in
  quiescent m g ->
  forall c p, lookup c (g_att g) = Some p ->
    In c (g_done g) \/ (In c (g_super g) /\ In p (g_rep g)) \/ In c (g_limrej g).
Proof.
  intros Hf. pose proof (linv_run L es init g0 (linv_init L) Hf) as I.
  destruct (lrun L init g0 es) as [m g]. cbn [fst snd] in I.
  intros Hq c p Hat. pose proof Hq as (Ho & Hn & Ha).
  destruct (li_accounted _ _ _ I _ _ Hat) as [H|[H|[H|[H|H]]]].
  - exfalso. exact (quiescent_not_owed _ _ _ Hq H).
  - now left.
  - right. left. split; [assumption|]. destruct (li_super _ _ _ I _ _ H Hat) as [Hr|(c' & b & Hl)]; [assumption|].
    rewrite Ha in Hl. discriminate.
  - right. now right.
  - rewrite Ha in H. destruct H.
Qed.

(* T3 — no wedged peer: at quiescence every peer is connected without dial record or fully
   disconnected, hence (settled_can_dial, redial_attempted) can be dialled again and the dial is
   really attempted *)
Theorem no_wedge L es :
  feasible L init g0 es ->
  let '(m, g) := lrun L init g0 es in
  quiescent m g -> forall p, settled (state_of m p).
Proof.
  intros Hf. pose proof (linv_run L es init g0 (linv_init L) Hf) as I.
  destruct (lrun L init g0 es) as [m g]. cbn [fst snd] in I.
  intros Hq p. unfold settled.
  destruct (dial_record (state_of m p)) as [c|] eqn:E; [|reflexivity].
  exfalso. pose proof (li_record _ _ _ I _ _ E) as R. destruct (li_pending _ _ _ I _ _ R) as (H & _).
  exact (quiescent_not_owed _ _ _ Hq H).
Qed.

(* every pending attempt is owed an answer by a transport: nobody waits for nothing, at any
   point of any feasible history (the invariant behind T3) *)
Theorem pending_is_owed L es :
  feasible L init g0 es ->
  let '(m, g) := lrun L init g0 es in
  forall p c, dial_record (state_of m p) = Some c -> owed g c.
Proof.
  intros Hf. pose proof (linv_run L es init g0 (linv_init L) Hf) as I.
  destruct (lrun L init g0 es) as [m g]. cbn [fst snd] in I.
  intros p c E. pose proof (li_record _ _ _ I _ _ E) as R. now destruct (li_pending _ _ _ I _ _ R).
Qed.

(* ---------- several transports ---------- *)

(* a peer in the opening phase waits for a non-empty set of installed transports, and each of
   them owes an answer: no transport of the set was skipped by dial() *)
Theorem opening_transports_owed L m g p c ts :
  LInv L m g -> state_of m p = Opening c ts ->
  ts <> [] /\ forall u, In u ts -> installed L u = true /\ In (c, u) (g_open g).
Proof.
  intros I Hs. split; [eapply (li_opening_ne _ _ _ I); exact Hs|].
  assert (Hr : dial_record (state_of m p) = Some c) by (rewrite Hs; reflexivity).
  pose proof (li_record _ _ _ I _ _ Hr) as R. destruct (li_pending _ _ _ I _ _ R) as (_ & _ & _ & Hiff).
  intros u Hu. assert (Hin : In (c, u) (g_open g)) by (apply Hiff; rewrite Hs; exact Hu).
  split; [exact (li_open_inst _ _ _ I _ _ Hin) | exact Hin].
Qed.

(* what one OpenFailure does: the failure of a transport that is not the last one produces no
   output and keeps the attempt owed on the remaining transports; the failure of the last one is
   reported (with the errors kept so far) and ends the attempt *)
Theorem open_failure_step L m g c t pa :
  LInv L m g -> feas L m g (TrOpenFailure c t pa) ->
  exists ts, state_of m pa = Opening c ts /\ In t ts /\
    let '(m', os) := step L m (TrOpenFailure c t pa) in
    let g' := gstep (TrOpenFailure c t pa) os g in
    match remove_tr t ts with
    | [] => os = [ProtoDialFailure pa; EvOpenFailure c (errs_of m c + 1)] /\
            state_of m' pa = Disconnected None /\ ~ owed g' c /\ In c (g_done g')
    | ts' => os = [] /\ state_of m' pa = Opening c ts' /\
             (forall u, In (c, u) (g_open g') <-> In u ts') /\ errs_of m' c = errs_of m c + 1
    end.
Proof.
  intros I (Hi & Hin & Hat).
  destruct (owed_open_facts _ _ _ _ _ I Hin) as (p & ts & Hp & Hat' & Hop & Hts & Hnn & Hall & _).
  assert (p = pa) by congruence. subst p.
  exists ts. split; [exact Hop|]. split; [exact Hts|].
  cbn [step]. rewrite Hi. unfold do_open_failure. rewrite add_addr_pending, Hp, so_add_addr, Hop.
  assert (mem t ts = true) as -> by now apply mem_in.
  destruct (remove_tr t ts) as [|v r] eqn:Er.
  - cbn [fst snd]. unfold errs_of at 1. rewrite add_addr_oerrs. fold (errs_of m c). split; [reflexivity|].
    split; [rewrite so_oerrs, so_pending, state_of_set_state; assert (pa =? pa = true) as -> by lia; reflexivity|].
    unfold gstep. cbn [ev_target flat_map app out_open out_dialneg out_cancel out_reject out_term out_rep g_done].
    split; [|now left].
    unfold owed. cbn [g_open g_neg]. rewrite removes_nil. intros [[u Hu]|Hn2]; [|contradiction].
    apply in_removes_p in Hu. destruct Hu as [Hu Hne]. cbn [In] in Hne.
    assert (Hut : u <> t) by (intros ->; tauto).
    assert (Hx : In u (remove_tr t ts)) by (apply in_remove_tr; split; [now apply Hall | exact Hut]).
    rewrite Er in Hx. destruct Hx.
  - cbn [fst snd]. split; [reflexivity|].
    split; [rewrite so_oerrs, state_of_set_state; assert (pa =? pa = true) as -> by lia; reflexivity|].
    split.
    + intros u. unfold gstep.
      cbn [ev_target flat_map app out_open out_dialneg out_cancel out_reject out_term out_rep g_open].
      rewrite in_removes_p, <- Er, in_remove_tr, Hall. cbn [In]. split.
      * intros [H1 H2]. split; [exact H1|]. intros ->. tauto.
      * intros [H1 H2]. split; [exact H1|]. intros [[= E]|[]]. congruence.
    + unfold errs_of. cbn [set_oerrs oerrs]. rewrite lookup_insert_key.
      assert (c =? c = true) as -> by lia. rewrite add_addr_oerrs. reflexivity.
Qed.

(* ConnectionOpened: cancel(c) is called on every transport still in the set, negotiate on the
   winner only; afterwards nothing of the opening phase is owed for c, so no further open-phase
   event for c can arrive *)
Theorem opened_step L m g c t :
  LInv L m g -> feas L m g (TrOpened c t false) ->
  exists p ts, lookup c (pending m) = Some p /\ state_of m p = Opening c ts /\ In t ts /\
    let '(m', os) := step L m (TrOpened c t false) in
    let g' := gstep (TrOpened c t false) os g in
    os = map (CallCancel c) ts ++ [CallNegotiate c t] /\
    state_of m' p = Dialing c /\ lookup c (pending m') = Some p /\
    (forall u, ~ In (c, u) (g_open g')) /\ In c (g_neg g') /\
    (forall u f, ~ feas L m' g' (TrOpened c u f)) /\
    (forall u pa, ~ feas L m' g' (TrOpenFailure c u pa)).
Proof.
  intros I (_ & Hi & Hin).
  destruct (owed_open_facts _ _ _ _ _ I Hin) as (p & ts & Hp & Hat & Hop & Hts & Hnn & Hall & Hinst).
  exists p, ts. repeat (split; [assumption|]).
  cbn [step]. rewrite Hi. unfold do_opened. cbn [set_oerrs pending]. rewrite Hp.
  rewrite so_add_addr, so_pending, so_oerrs, Hop, (forallb_installed _ _ Hinst). cbn [negb fst snd].
  assert (Hno : forall u, ~ In (c, u) (g_open (gstep (TrOpened c t false) (map (CallCancel c) ts ++ [CallNegotiate c t]) g))).
  { intros u. unfold gstep. cbn [ev_target g_open].
    rewrite !flat_map_app, fm_open_cancels, fm_cancel_cancels.
    cbn [flat_map app out_open out_cancel]. rewrite app_nil_r, in_removes_p. intros [Hu Hne].
    apply Hne. right. apply in_map_pair. split; [reflexivity | now apply Hall]. }
  split; [reflexivity|].
  split; [rewrite so_pending, state_of_set_state; assert (p =? p = true) as -> by lia; reflexivity|].
  split; [cbn [set_pending pending]; rewrite lookup_insert_key; assert (c =? c = true) as -> by lia; reflexivity|].
  split; [exact Hno|].
  split.
  { unfold gstep. cbn [g_neg]. rewrite !flat_map_app, fm_dialneg_cancels. cbn [flat_map app out_dialneg]. now left. }
  split.
  - intros u f (_ & _ & Hu). exact (Hno u Hu).
  - intros u pa (_ & Hu & _). exact (Hno u Hu).
Qed.

(* an inbound connection established while the peer is being opened cancels the attempt on every
   transport of the set and leaves nothing owed for it *)
Theorem inbound_supersedes_step L m g p c t d ts :
  LInv L m g -> feas L m g (TrEstablished p c t true false) ->
  state_of m p = Opening d ts -> limit_reached (max_in L) (ins m) = false ->
  let '(m', os) := step L m (TrEstablished p c t true false) in
  let g' := gstep (TrEstablished p c t true false) os g in
  os = map (CallCancel d) ts ++ [CallAccept c t] /\
  state_of m' p = Connected c None /\ lookup d (pending m') = None /\
  (forall u, ~ In (d, u) (g_open g')) /\ ~ owed g' d /\ In d (g_super g').
Proof.
  intros I (_ & Hi & Hin) Es Hlim.
  destruct (inb_facts _ _ _ _ I Hin) as (Hno & Hpc & Hac & Hdc & Hatc & Hlt).
  destruct (opening_transports_owed _ _ _ _ _ _ I Es) as [Hne Hown].
  assert (Hinst : forall u, In u ts -> installed L u = true) by (intros u Hu; now destruct (Hown u Hu)).
  assert (Hdn : ~ In d (g_neg g)).
  { destruct ts as [|u r]; [congruence|]. apply (li_open_neg _ _ _ I d u). apply Hown. now left. }
  cbn [step]. rewrite Hi. unfold do_established. cbn [set_oerrs pending].
  rewrite Hpc, (remove_key_notin c (pending m) Hpc).
  unfold do_established_checked. cbn [set_pending set_oerrs ins]. rewrite Hlim.
  rewrite so_pending, so_oerrs, Es. cbn [st_on_established negb].
  rewrite (forallb_installed _ _ Hinst). cbn [negb]. unfold est_finish. cbn [fst snd].
  assert (Hgo : forall u, ~ In (d, u) (g_open (gstep (TrEstablished p c t true false)
                                                  (map (CallCancel d) ts ++ [CallAccept c t]) g))).
  { intros u. unfold gstep. cbn [ev_target g_open].
    rewrite !flat_map_app, fm_open_cancels, fm_cancel_cancels.
    cbn [flat_map app out_open out_cancel]. rewrite app_nil_r, in_removes_p. intros [Hu Hn2].
    apply Hn2. apply in_map_pair. split; [reflexivity|].
    assert (Hr : dial_record (state_of m p) = Some d) by (rewrite Es; reflexivity).
    pose proof (li_record _ _ _ I _ _ Hr) as R. destruct (li_pending _ _ _ I _ _ R) as (_ & _ & _ & Hiff).
    apply Hiff in Hu. rewrite Es in Hu. exact Hu. }
  split; [reflexivity|].
  split; [rewrite so_accepting, so_pending, so_limits, state_of_set_state; assert (p =? p = true) as -> by lia; reflexivity|].
  split; [cbn [set_accepting set_pending set_limits set_state pending]; rewrite lookup_remove_key;
          assert (d =? d = true) as -> by lia; reflexivity|].
  split; [exact Hgo|].
  split.
  - intros [[u Hu]|Hn2]; [exact (Hgo u Hu)|].
    unfold gstep in Hn2. cbn [g_neg] in Hn2.
    rewrite !flat_map_app, fm_dialneg_cancels in Hn2. cbn [flat_map app out_dialneg] in Hn2.
    rewrite removes_nil in Hn2. contradiction.
  - unfold gstep. cbn [g_super]. rewrite !flat_map_app, fm_cancel_cancels. cbn [flat_map app out_cancel].
    rewrite app_nil_r, (first1_pairs d ts Hne). now left.
Qed.

(* no panic on a feasible history: a debug assertion / expect is never reached by an event the
   transport contract allows *)
Theorem no_stuck_feasible L m g e s :
  LInv L m g -> feas L m g e -> ~ In (Stuck s) (snd (step L m e)).
Proof.
  intros I He Hs. destruct (stuck_only_on_inconsistent_ids L m e s Hs) as
    [(c & t & f & -> & Hp)|[(p & c & t & l & f & q & -> & Hp & Hne)|(p & c & ts & t & Hop & Ht & Hi)]].
  - destruct He as (_ & _ & Hin). destruct (owed_open_facts _ _ _ _ _ I Hin) as (p & ts & Hp' & _). congruence.
  - destruct He as (_ & _ & H). destruct l.
    + destruct (inb_facts _ _ _ _ I H) as (_ & Hpc & _). congruence.
    + destruct H as [H1 H2]. destruct (owed_neg_facts _ _ _ _ _ I H1 H2) as (Hp' & _). congruence.
  - destruct (opening_transports_owed _ _ _ _ _ _ I Hop) as [_ H]. destruct (H t Ht) as [Hi' _]. congruence.
Qed.

(* why the invariant "only installed kinds are stored" matters: had the store an address of a
   transport that is not installed, dial() would put the transport into the Opening set without
   calling open() on anything; Ok is returned, nothing is owed, the peer waits for ever *)
Theorem uninstalled_transport_refuted :
  exists L m p ts,
    ~ KInv L m /\ choice_ok L m p ts = true /\
    let '(m', os) := do_dial_peer L m p ts [] in
    os = [Ret RET_OK] /\ state_of m' p = Opening (next_conn m) ts /\
    lookup (next_conn m) (pending m') = Some p /\
    (forall g, g_open (gstep (CmdDialPeer p ts []) os g) = g_open g /\
               g_neg (gstep (CmdDialPeer p ts []) os g) = g_neg g).
Proof.
  exists (mkLimits None None [TCP]), (set_known init [(1, [canon 1 WS])]), 1, [WS].
  split.
  - intros K. specialize (K 1 (canon 1 WS) (or_introl eq_refl)). discriminate.
  - split; [reflexivity|]. cbn. repeat split.
    + apply removes_p_nil.
    + apply removes_nil.
Qed.

(* ---------- the user-facing handle ---------- *)

(* the handle's synchronous gate and the manager's own checks, on the same state: the only way
   the manager refuses a command the handle queued is the connection limit *)
Theorem handle_gate_agrees L m p ts fl :
  match handle_gate m p with
  | HQueue =>
      (limit_reached (max_out L) (outs m) = true /\ do_dial_peer L m p ts fl = (m, [Ret RET_LIMIT])) \/
      (limit_reached (max_out L) (outs m) = false /\ selects L m p = true /\
       snd (do_dial_peer L m p ts fl) =
         fst (open_calls L (next_conn m) ts fl) ++
         [Ret (if snd (open_calls L (next_conn m) ts fl) then RET_OK else RET_TRANSPORT)])
  | HInProgress =>
      do_dial_peer L m p ts fl = (m, [Ret RET_OK]) \/ do_dial_peer L m p ts fl = (m, [Ret RET_LIMIT])
  | HErr code =>
      do_dial_peer L m p ts fl = (m, [Ret code]) \/ do_dial_peer L m p ts fl = (m, [Ret RET_LIMIT])
  end.
Proof.
  unfold handle_gate, do_dial_peer, selects.
  destruct (limit_reached (max_out L) (outs m)) eqn:El.
  - destruct (p =? LOCAL); [now right|]. destruct (can_dial _); try (now right).
    destruct (is_nil _); [now right | left; auto].
  - destruct (p =? LOCAL); [now left|]. destruct (can_dial _); try (now left).
    destruct (is_nil _); [now left|]. right. split; [reflexivity|]. split; [reflexivity|].
    destruct (open_calls L (next_conn m) ts fl) as [calls ok]. destruct ok; reflexivity.
Qed.

(* what an Ok from TransportManagerHandle::dial means, and that an error changes nothing *)
Theorem handle_gate_sound L m g p ts clog :
  LInv L m g -> feas L m g (HDialPeer p ts [] clog) ->
  let '(m', os) := step L m (HDialPeer p ts [] clog) in
  let g' := gstep (HDialPeer p ts [] clog) os g in
  (In (Ret RET_OK) os ->
     (* an attempt for p is in progress: an outcome for it is still owed *)
     (exists c, dial_record (state_of m p) = Some c /\ owed g c /\ m' = m /\ os = [Ret RET_OK]) \/
     (* or the manager executes dial(p) in the same state and really attempts it *)
     (limit_reached (max_out L) (outs m) = false /\ ts <> [] /\
      os = Ret RET_OK :: map (CallOpen (next_conn m)) ts ++ [Logged RET_OK] /\
      state_of m' p = Opening (next_conn m) ts /\
      (forall u, In u ts -> In (next_conn m, u) (g_open g')) /\
      lookup (next_conn m) (g_att g') = Some p) \/
     (* or the manager refuses it for the connection limit: the error is only logged, nothing is
        attempted and nothing will ever be reported for this request (known finding class 2) *)
     (limit_reached (max_out L) (outs m) = true /\ m' = m /\ os = [Ret RET_OK; Logged RET_LIMIT] /\ g' = g)) /\
  (forall code, code <> RET_OK -> In (Ret code) os -> m' = m /\ os = [Ret code]).
Proof.
  intros I (_ & Hsel). cbn [step]. unfold do_hdial_peer.
  pose proof (handle_gate_agrees L m p ts []) as Hag.
  destruct (handle_gate m p) as [code| |] eqn:Eg.
  - cbn [fst snd]. split.
    + intros [[= E]|[]]. exfalso. unfold handle_gate in Eg. destruct (p =? LOCAL); [injection Eg as <-; discriminate|].
      destruct (can_dial _); try discriminate; [injection Eg as <-; discriminate|].
      destruct (is_nil _); [injection Eg as <-; discriminate | discriminate].
    + intros c Hc [[= E]|[]]. subst c. auto.
  - split.
    + intros _. left. unfold handle_gate in Eg. destruct (p =? LOCAL); [discriminate|].
      destruct (state_of m p) as [r sc|d us|d|[d|]] eqn:Es; cbn [can_dial] in Eg; try discriminate;
        try (destruct (is_nil _); discriminate).
      * exists d. assert (Hr : dial_record (state_of m p) = Some d) by (rewrite Es; reflexivity).
        rewrite <- Es. split; [exact Hr|]. split; [|auto].
        destruct (li_pending _ _ _ I _ _ (li_record _ _ _ I _ _ Hr)) as (H & _). exact H.
      * exists d. assert (Hr : dial_record (state_of m p) = Some d) by (rewrite Es; reflexivity).
        rewrite <- Es. split; [exact Hr|]. split; [|auto].
        destruct (li_pending _ _ _ I _ _ (li_record _ _ _ I _ _ Hr)) as (H & _). exact H.
      * exists d. assert (Hr : dial_record (state_of m p) = Some d) by (rewrite Es; reflexivity).
        rewrite <- Es. split; [exact Hr|]. split; [|auto].
        destruct (li_pending _ _ _ I _ _ (li_record _ _ _ I _ _ Hr)) as (H & _). exact H.
    + intros c Hc [[= E]|[]]. congruence.
  - destruct clog.
    { cbn [fst snd]. split; [intros [[= E]|[]]|]. intros c Hc [[= E]|[]]. subst c. auto. }
    destruct Hag as [[Hl Hd]|(Hl & Hs & Hd)].
    + rewrite Hd. cbn [map demote]. split.
      * intros _. right. right. repeat split; auto.
        rewrite gstep_quiet_cmd; [reflexivity| |exact Logic.I]. unfold quiet, alloc_of. cbn. repeat split.
      * intros c Hc [[= E]|[[= E]|[]]]. congruence.
    + specialize (Hsel Hs). pose proof (li_kinds _ _ _ I) as K.
      destruct (choice_ok_facts _ _ _ _ Hsel) as [Hne _].
      pose proof (choice_installed _ _ _ _ K Hsel) as Hinst.
      assert (Hp : (p =? LOCAL) = false).
      { unfold handle_gate in Eg. destruct (p =? LOCAL); [discriminate | reflexivity]. }
      assert (Hst : state_of m p = Disconnected None).
      { unfold handle_gate in Eg. rewrite Hp in Eg. apply can_dial_ok. destruct (can_dial _); try discriminate. reflexivity. }
      pose proof (redial_attempted L m p ts Hst ltac:(lia) Hl K Hsel) as Hre.
      destruct (do_dial_peer L m p ts []) as [m1 os] eqn:Ed. destruct Hre as (_ & Hos & Hs1 & Hp1 & Hn1).
      subst os. split.
      * intros _. right. left. split; [exact Hl|]. split; [exact Hne|].
        split; [rewrite map_app, map_map; cbn [map demote]; f_equal; f_equal; apply map_ext; reflexivity|].
        split; [exact Hs1|].
        assert (Hg : gstep (HDialPeer p ts [] false) (Ret RET_OK :: map demote (map (CallOpen (next_conn m)) ts ++ [Ret RET_OK])) g
                     = gstep (CmdDialPeer p ts []) (map (CallOpen (next_conn m)) ts ++ [Ret RET_OK]) g).
        { apply gstep_handle; try exact Logic.I; [reflexivity|]. left. apply ret_ok_opens. }
        rewrite Hg. unfold gstep. cbn [ev_target g_open g_att]. rewrite ret_ok_opens.
        rewrite !flat_map_app, fm_open_opens, fm_dialneg_opens. cbn [flat_map app out_open out_dialneg].
        rewrite !app_nil_r, map_fst_pairs. split.
        -- intros u Hu. rewrite in_app_iff. left. apply in_map_pair. auto.
        -- destruct ts as [|u r]; [congruence|]. cbn [map first1 app lookup].
           assert (next_conn m =? next_conn m = true) as -> by lia. reflexivity.
      * intros c Hc [[= E]|Hin]; [congruence|]. exfalso.
        apply in_map_iff in Hin. destruct Hin as (o & Ho & Hin). destruct o; cbn [demote] in Ho; discriminate.
Qed.

(* TransportManagerHandle::dial_address only looks for a /p2p component; everything else is decided
   by the manager when it executes the command, and its verdict is only logged *)
Theorem handle_dial_address L m a :
  (existsb is_p2p a = false -> step L m (HDialAddr a false) = (m, [Ret RET_PEER_ID_MISSING])) /\
  (existsb is_p2p a = true ->
   step L m (HDialAddr a false) =
     (fst (do_dial_shape L m a false), Ret RET_OK :: map demote (snd (do_dial_shape L m a false)))).
Proof.
  cbn [step]. unfold do_hdial_addr. split; intros ->; cbn [negb]; [reflexivity|].
  destruct (do_dial_shape L m a false). reflexivity.
Qed.

(* ---------- the same, over every feasible history ---------- *)
Definition Reach (L : limits) (m : mgr) (g : ghost) : Prop :=
  exists es, feasible L init g0 es /\ lrun L init g0 es = (m, g).

Lemma reach_linv L m g : Reach L m g -> LInv L m g.
Proof.
  intros (es & Hf & E). pose proof (linv_run L es init g0 (linv_init L) Hf) as I. now rewrite E in I.
Qed.

Theorem open_failure_only_when_last L m g :
  Reach L m g ->
  (* what an OpenFailure allowed by the contract does *)
  (forall c t pa, feas L m g (TrOpenFailure c t pa) ->
     exists ts, state_of m pa = Opening c ts /\ In t ts /\
       let '(m', os) := step L m (TrOpenFailure c t pa) in
       let g' := gstep (TrOpenFailure c t pa) os g in
       match remove_tr t ts with
       | [] => os = [ProtoDialFailure pa; EvOpenFailure c (errs_of m c + 1)] /\
               state_of m' pa = Disconnected None /\ ~ owed g' c /\ In c (g_done g')
       | ts' => os = [] /\ state_of m' pa = Opening c ts' /\
                (forall u, In (c, u) (g_open g') <-> In u ts') /\ errs_of m' c = errs_of m c + 1
       end) /\
  (* and no other step reports an open failure *)
  (forall e c n, In (EvOpenFailure c n) (snd (step L m e)) ->
     exists t pa p d ts, e = TrOpenFailure c t pa /\ installed L t = true /\ lookup c (pending m) = Some p /\
        state_of m p = Opening d ts /\ In t ts /\ remove_tr t ts = [] /\ n = errs_of m c + 1).
Proof.
  intros R. split.
  - intros c t pa. apply open_failure_step. now apply reach_linv.
  - intros e c n. apply open_failure_only_by_last.
Qed.

Theorem opened_cancels_rest L m g c t :
  Reach L m g -> feas L m g (TrOpened c t false) ->
  exists p ts, lookup c (pending m) = Some p /\ state_of m p = Opening c ts /\ In t ts /\
    let '(m', os) := step L m (TrOpened c t false) in
    let g' := gstep (TrOpened c t false) os g in
    os = map (CallCancel c) ts ++ [CallNegotiate c t] /\
    state_of m' p = Dialing c /\ lookup c (pending m') = Some p /\
    (forall u, ~ In (c, u) (g_open g')) /\ In c (g_neg g') /\
    (forall u f, ~ feas L m' g' (TrOpened c u f)) /\
    (forall u pa, ~ feas L m' g' (TrOpenFailure c u pa)).
Proof. intros R. apply opened_step. now apply reach_linv. Qed.

Theorem inbound_supersedes_all L m g p c t d ts :
  Reach L m g -> feas L m g (TrEstablished p c t true false) ->
  state_of m p = Opening d ts -> limit_reached (max_in L) (ins m) = false ->
  let '(m', os) := step L m (TrEstablished p c t true false) in
  let g' := gstep (TrEstablished p c t true false) os g in
  os = map (CallCancel d) ts ++ [CallAccept c t] /\
  state_of m' p = Connected c None /\ lookup d (pending m') = None /\
  (forall u, ~ In (d, u) (g_open g')) /\ ~ owed g' d /\ In d (g_super g').
Proof. intros R. apply inbound_supersedes_step. now apply reach_linv. Qed.

Theorem opening_set_owed L m g p c ts :
  Reach L m g -> state_of m p = Opening c ts ->
  ts <> [] /\ forall u, In u ts -> installed L u = true /\ In (c, u) (g_open g).
Proof. intros R. apply opening_transports_owed. now apply reach_linv. Qed.

Theorem no_stuck L m g e s :
  Reach L m g -> feas L m g e -> ~ In (Stuck s) (snd (step L m e)).
Proof. intros R. apply no_stuck_feasible. now apply reach_linv. Qed.

Theorem handle_ok_sound L m g p ts clog :
  Reach L m g -> feas L m g (HDialPeer p ts [] clog) ->
  let '(m', os) := step L m (HDialPeer p ts [] clog) in
  let g' := gstep (HDialPeer p ts [] clog) os g in
  (In (Ret RET_OK) os ->
     (exists c, dial_record (state_of m p) = Some c /\ owed g c /\ m' = m /\ os = [Ret RET_OK]) \/
     (limit_reached (max_out L) (outs m) = false /\ ts <> [] /\
      os = Ret RET_OK :: map (CallOpen (next_conn m)) ts ++ [Logged RET_OK] /\
      state_of m' p = Opening (next_conn m) ts /\
      (forall u, In u ts -> In (next_conn m, u) (g_open g')) /\
      lookup (next_conn m) (g_att g') = Some p) \/
     (limit_reached (max_out L) (outs m) = true /\ m' = m /\ os = [Ret RET_OK; Logged RET_LIMIT] /\ g' = g)) /\
  (forall code, code <> RET_OK -> In (Ret code) os -> m' = m /\ os = [Ret code]).
Proof. intros R. apply handle_gate_sound. now apply reach_linv. Qed.

(* the address book holds installed kinds only — on every history, feasible or not *)
Theorem kinds_installed L es : KInv L (fst (run L init es)).
Proof. apply kinv_run, kinv_init. Qed.

Lemma refused_address_unchanged L m a f :
  (forall p, dial_shape LISTEN a = SvTcp p -> installed L TCP = false) ->
  (forall p, dial_shape LISTEN a = SvWs p -> installed L WS = false) ->
  exists code, do_dial_shape L m a f = (m, [Ret code]).
Proof.
  intros H1 H2. unfold do_dial_shape. destruct (limit_reached _ _); [eexists; reflexivity|].
  destruct (dial_shape LISTEN a) as [code|p|p]; [eexists; reflexivity | |].
  - unfold do_dial_addr. rewrite (H1 p eq_refl). eexists; reflexivity.
  - unfold do_dial_addr. rewrite (H2 p eq_refl). eexists; reflexivity.
Qed.
