(* Mgr/PeerTable — `PeerState` of src/transport/manager/peer_state.rs with everything it stores:
   the `ConnectionRecord`s (connection id + address with the peer id ensured), the address set and
   the transport set of `Opening`; and all eight methods of its API. Definitions only.

   The manager model (Model.v) keeps the same state machine with the addresses erased
   (`pstate`, `st_on_*`); PeerTableProofs.v shows that erasing commutes with every transition, so
   the facts proved there about `pstate` are facts about this machine. *)
From Coq Require Import List NArith Bool.
From V.Mgr Require Import DialShape Model.
Import ListNotations.
Open Scope N_scope.

(* an address as far as ConnectionRecord cares: what precedes a trailing /p2p component, and the
   peer that component names (None: there is none) *)
Definition addr := (N * option peer)%type.

(* ConnectionRecord::ensure_peer_id: a missing or different trailing peer id is replaced *)
Definition ensure_peer_id (p : peer) (a : addr) : addr := (fst a, Some p).

Definition rrec := (conn * addr)%type.         (* ConnectionRecord { connection_id, address } *)
(* ConnectionRecord::new / from_endpoint *)
Definition rec_new (p : peer) (a : addr) (c : conn) : rrec := (c, ensure_peer_id p a).

Inductive rsec := RSecEst (r : rrec) | RSecDial (r : rrec).

Inductive rstate :=
| RConnected (r : rrec) (s : option rsec)
| ROpening (addrs : list addr) (c : conn) (ts : list tr)
| RDialing (r : rrec)
| RDisconnected (d : option rrec).

Definition erase_sec (s : rsec) : sec :=
  match s with RSecEst r => SecEst (fst r) | RSecDial r => SecDial (fst r) end.
Definition erase (s : rstate) : pstate :=
  match s with
  | RConnected r sc => Connected (fst r) (option_map erase_sec sc)
  | ROpening _ c ts => Opening c ts
  | RDialing r => Dialing (fst r)
  | RDisconnected d => Disconnected (option_map fst d)
  end.

(* ---- the API ---- *)
Definition r_can_dial (s : rstate) : dial_gate :=
  match s with
  | RConnected _ _ => GateConnected
  | RDialing _ | ROpening _ _ _ | RDisconnected (Some _) => GateInProgress
  | RDisconnected None => GateOk
  end.

Definition r_dial_single (s : rstate) (r : rrec) : rstate * dial_gate :=
  match r_can_dial s with GateOk => (RDialing r, GateOk) | g => (s, g) end.

Definition r_dial_addresses (s : rstate) (c : conn) (addrs : list addr) (ts : list tr) : rstate * dial_gate :=
  match r_can_dial s with GateOk => (ROpening addrs c ts, GateOk) | g => (s, g) end.

Definition r_on_dial_failure (s : rstate) (c : conn) : rstate * bool :=
  match s with
  | RDialing d => if fst d =? c then (RDisconnected None, true) else (s, false)
  | RConnected r (Some (RSecDial d)) => if fst d =? c then (RConnected r None, true) else (s, false)
  | RDisconnected (Some d) => if fst d =? c then (RDisconnected None, true) else (s, false)
  | _ => (s, false)
  end.

Definition r_on_established (s : rstate) (n : rrec) : rstate * bool :=
  match s with
  | RConnected r (Some (RSecDial d)) =>
      if fst d =? fst n then (RConnected r (Some (RSecEst n)), true) else (s, false)
  | RConnected r None => (RConnected r (Some (RSecEst n)), true)
  | RConnected _ (Some (RSecEst _)) => (s, false)
  | RDialing d | RDisconnected (Some d) =>
      if fst d =? fst n then (RConnected n None, true) else (RConnected n (Some (RSecDial d)), true)
  | RDisconnected None => (RConnected n None, true)
  | ROpening _ _ _ => (RConnected n None, true)
  end.

Definition r_on_closed (s : rstate) (c : conn) : rstate * bool :=
  match s with
  | RConnected r sc =>
      if fst r =? c then
        match sc with
        | Some (RSecEst s2) => (RConnected s2 None, false)
        | Some (RSecDial d) => (RDisconnected (Some d), true)
        | None => (RDisconnected None, true)
        end
      else
        match sc with
        | Some (RSecEst s2) => if fst s2 =? c then (RConnected r None, false) else (s, false)
        | _ => (s, false)
        end
  | _ => (s, false)
  end.

Definition r_on_open_failure (s : rstate) (t : tr) : rstate * bool :=
  match s with
  | ROpening addrs c ts =>
      match remove_tr t ts with
      | [] => (RDisconnected None, true)
      | ts' => (ROpening addrs c ts', false)
      end
  | _ => (s, false)
  end.

Definition r_on_opened (s : rstate) (r : rrec) : rstate * bool :=
  match s with
  | ROpening _ _ _ => (RDialing r, true)
  | _ => (s, false)
  end.

Inductive pop :=
| PCanDial
| PDialSingle (r : rrec)
| PDialAddrs (c : conn) (addrs : list addr) (ts : list tr)
| PDialFailure (c : conn)
| PEstablished (r : rrec)
| PClosed (c : conn)
| POpenFailure (t : tr)
| POpened (r : rrec).

(* result on the wire: StateDialResult as 0 AlreadyConnected / 1 DialingInProgress / 2 Ok;
   bool as 0 / 1 *)
Definition gate_code (g : dial_gate) : N :=
  match g with GateConnected => 0 | GateInProgress => 1 | GateOk => 2 end.
Definition bcode (b : bool) : N := if b then 1 else 0.

Definition pstep (s : rstate) (o : pop) : rstate * N :=
  match o with
  | PCanDial => (s, gate_code (r_can_dial s))
  | PDialSingle r => let '(s', g) := r_dial_single s r in (s', gate_code g)
  | PDialAddrs c a ts => let '(s', g) := r_dial_addresses s c a ts in (s', gate_code g)
  | PDialFailure c => let '(s', b) := r_on_dial_failure s c in (s', bcode b)
  | PEstablished r => let '(s', b) := r_on_established s r in (s', bcode b)
  | PClosed c => let '(s', b) := r_on_closed s c in (s', bcode b)
  | POpenFailure t => let '(s', b) := r_on_open_failure s t in (s', bcode b)
  | POpened r => let '(s', b) := r_on_opened s r in (s', bcode b)
  end.

Fixpoint prun (s : rstate) (ops : list pop) : rstate :=
  match ops with [] => s | o :: t => prun (fst (pstep s o)) t end.

(* ---- what the property is about: the connection slots ---- *)
(* the established connections a state records, primary first *)
Definition slots (s : rstate) : list rrec :=
  match s with
  | RConnected r (Some (RSecEst s2)) => [r; s2]
  | RConnected r _ => [r]
  | _ => []
  end.

(* the dial in flight a state remembers *)
Definition dial_of (s : rstate) : option rrec :=
  match s with
  | RConnected _ (Some (RSecDial d)) => Some d
  | RDialing d => Some d
  | RDisconnected d => d
  | _ => None
  end.

Fixpoint remove_first_rec (c : conn) (l : list rrec) : list rrec :=
  match l with [] => [] | r :: t => if fst r =? c then t else r :: remove_first_rec c t end.

(* the seven shapes of a state and the classes of an event relative to a state: the finite table *)
Inductive shape := ShIdle | ShDiscDial | ShDialing | ShOpening | ShConn | ShConnDial | ShConnSec.
Definition shape_of (s : rstate) : shape :=
  match s with
  | RDisconnected None => ShIdle
  | RDisconnected (Some _) => ShDiscDial
  | RDialing _ => ShDialing
  | ROpening _ _ _ => ShOpening
  | RConnected _ None => ShConn
  | RConnected _ (Some (RSecDial _)) => ShConnDial
  | RConnected _ (Some (RSecEst _)) => ShConnSec
  end.

Inductive eclass :=
| KCanDial | KDialSingle | KDialAddrs
| KDialFailure (matches : bool)       (* the id is the one of the remembered dial *)
| KEstablished (matches : bool)       (* likewise *)
| KClosed (which : N)                 (* 0: neither slot, 1: the primary, 2: the secondary (and not the primary) *)
| KOpenFailure (last : bool)          (* no transport is left afterwards *)
| KOpened.

Definition dial_matches (s : rstate) (c : conn) : bool :=
  match dial_of s with Some d => fst d =? c | None => false end.

Definition classify (s : rstate) (o : pop) : eclass :=
  match o with
  | PCanDial => KCanDial
  | PDialSingle _ => KDialSingle
  | PDialAddrs _ _ _ => KDialAddrs
  | PDialFailure c => KDialFailure (dial_matches s c)
  | PEstablished r => KEstablished (dial_matches s (fst r))
  | PClosed c =>
      KClosed (match slots s with
               | r :: t => if fst r =? c then 1
                           else match t with s2 :: _ => if fst s2 =? c then 2 else 0 | [] => 0 end
               | [] => 0
               end)
  | POpenFailure t => KOpenFailure (match s with ROpening _ _ ts => is_nil (remove_tr t ts) | _ => false end)
  | POpened _ => KOpened
  end.

(* the transition table: shape x event class -> (next shape, result code) *)
Definition table (sh : shape) (k : eclass) : shape * N :=
  match k, sh with
  | KCanDial, (ShConn | ShConnDial | ShConnSec) => (sh, 0)
  | KCanDial, (ShDiscDial | ShDialing | ShOpening) => (sh, 1)
  | KCanDial, ShIdle => (sh, 2)
  | KDialSingle, ShIdle => (ShDialing, 2)
  | KDialAddrs, ShIdle => (ShOpening, 2)
  | (KDialSingle | KDialAddrs), (ShConn | ShConnDial | ShConnSec) => (sh, 0)
  | (KDialSingle | KDialAddrs), _ => (sh, 1)
  | KDialFailure true, (ShDialing | ShDiscDial) => (ShIdle, 1)
  | KDialFailure true, ShConnDial => (ShConn, 1)
  | KDialFailure _, _ => (sh, 0)
  | KEstablished _, (ShIdle | ShOpening) => (ShConn, 1)
  | KEstablished true, (ShDialing | ShDiscDial) => (ShConn, 1)
  | KEstablished false, (ShDialing | ShDiscDial) => (ShConnDial, 1)
  | KEstablished _, ShConn => (ShConnSec, 1)
  | KEstablished true, ShConnDial => (ShConnSec, 1)
  | KEstablished false, ShConnDial => (ShConnDial, 0)      (* the free slot is reserved for the dial *)
  | KEstablished _, ShConnSec => (ShConnSec, 0)            (* a third connection *)
  | KClosed 1, ShConn => (ShIdle, 1)
  | KClosed 1, ShConnDial => (ShDiscDial, 1)
  | KClosed 1, ShConnSec => (ShConn, 0)
  | KClosed 2, ShConnSec => (ShConn, 0)
  | KClosed _, _ => (sh, 0)
  | KOpenFailure true, ShOpening => (ShIdle, 1)
  | KOpenFailure _, _ => (sh, 0)
  | KOpened, ShOpening => (ShDialing, 1)
  | KOpened, _ => (sh, 0)
  end.
