(* Mgr — C06: the connection-cap invariant, proved inductive for every event the manager can
   handle. The ghost ledger `live` records the connections the manager accepted (called accept()
   for, successfully) and that have not been closed / rolled back since. *)
From Coq Require Import List Arith NArith Bool Lia Permutation.
From Coq Require Import ZifyBool ZifyNat ZifyN.
From V.Mgr Require Import Model.
Import ListNotations.
Open Scope N_scope.

Arguments N.add : simpl never.
Arguments N.eqb : simpl never.
Arguments N.leb : simpl never.
Arguments N.of_nat : simpl never.

Definition live_t := list (conn * (peer * bool)).

Definition is_accept (c : conn) (o : out) : bool :=
  match o with CallAccept d _ => d =? c | _ => false end.

(* ghost step: how the ledger of established connections evolves *)
Definition live_step (e : ev) (os : list out) (l : live_t) : live_t :=
  match e with
  | TrEstablished p c _ lst f => if existsb (is_accept c) os && negb f then (c, (p, lst)) :: l else l
  | AcceptDone c ok => if ok then l else remove_key c l
  | Closed p c => remove_key c l
  | _ => l
  end.

Definition recorded (s : pstate) (c : conn) : Prop :=
  match s with
  | Connected r sc => r = c \/ sc = Some (SecEst c)
  | _ => False
  end.

Definition keys {A} (l : list (N * A)) : list N := map fst l.

(* What the environment (transports, connection tasks) guarantees: connection ids are unique —
   an established connection never reuses the id of a live one; a close notice names the peer the
   connection belongs to and comes after the accept future completed. *)
Definition env_ok (m : mgr) (l : live_t) (e : ev) : Prop :=
  match e with
  | TrEstablished p c _ lst f => lookup c l = None
  | Closed p c => (forall q b, lookup c l = Some (q, b) -> q = p) /\ ~ In c (keys (accepting m))
  | AcceptDone c ok => In c (keys (accepting m))      (* only an existing accept future resolves *)
  | _ => True
  end.

Record CapInv (L : limits) (m : mgr) (l : live_t) : Prop := {
  ci_recorded : forall c p b, lookup c l = Some (p, b) -> recorded (state_of m p) c;
  ci_nodup : NoDup (keys l);
  ci_ins : forall c, In c (ins m) -> exists p, lookup c l = Some (p, true);
  ci_outs : forall c, In c (outs m) -> exists p, lookup c l = Some (p, false);
  ci_ins_nodup : NoDup (ins m);
  ci_outs_nodup : NoDup (outs m);
  ci_in_limit : forall mx, max_in L = Some mx -> card (ins m) <= mx;
  ci_out_limit : forall mx, max_out L = Some mx -> card (outs m) <= mx;
  ci_in_counted : forall mx c p, max_in L = Some mx -> lookup c l = Some (p, true) -> In c (ins m);
  ci_out_counted : forall mx c p, max_out L = Some mx -> lookup c l = Some (p, false) -> In c (outs m);
  ci_acc_live : forall c p b, lookup c (accepting m) = Some (p, b) -> lookup c l = Some (p, b);
  ci_acc_nodup : NoDup (keys (accepting m))
}.

(* ---------- generic list-map facts ---------- *)
Section Maps.
Context {A : Type}.
Implicit Types (l : list (N * A)).

Lemma lookup_remove_key k k' l :
  lookup k' (remove_key k l) = if k' =? k then None else lookup k' l.
Proof.
  induction l as [|[k0 v] t IH]; cbn [remove_key lookup].
  - now destruct (k' =? k).
  - destruct (k0 =? k) eqn:E.
    + rewrite IH. destruct (k' =? k) eqn:E2; [reflexivity|].
      destruct (k0 =? k') eqn:E3; [lia | reflexivity].
    + cbn [lookup]. destruct (k0 =? k') eqn:E3.
      * destruct (k' =? k) eqn:E2; [lia | reflexivity].
      * exact IH.
Qed.

Lemma lookup_insert_key k k' v l :
  lookup k' (insert_key k v l) = if k' =? k then Some v else lookup k' l.
Proof.
  unfold insert_key. cbn [lookup]. destruct (k =? k') eqn:E.
  - assert (k' =? k = true) as -> by lia. reflexivity.
  - assert (k' =? k = false) as -> by lia. rewrite lookup_remove_key.
    assert (k' =? k = false) as -> by lia. reflexivity.
Qed.

Lemma lookup_in_keys k l v : lookup k l = Some v -> In k (keys l).
Proof.
  induction l as [|[k0 v0] t IH]; cbn [lookup keys map fst]; [discriminate|].
  destruct (k0 =? k) eqn:E; [intros _; left; lia | intros H; right; exact (IH H)].
Qed.

Lemma lookup_none_keys k l : lookup k l = None -> ~ In k (keys l).
Proof.
  induction l as [|[k0 v0] t IH]; cbn [lookup keys map fst]; [intros _ []|].
  destruct (k0 =? k) eqn:E; [discriminate|]. intros H [H1|H1]; [lia | exact (IH H H1)].
Qed.

Lemma keys_in_lookup k l : In k (keys l) -> exists v, lookup k l = Some v.
Proof.
  induction l as [|[k0 v0] t IH]; cbn [lookup keys map fst]; [intros []|].
  destruct (k0 =? k) eqn:E; [intros _; eexists; reflexivity|].
  intros [H|H]; [lia | exact (IH H)].
Qed.

Lemma keys_remove_key k x l : In x (keys (remove_key k l)) -> In x (keys l) /\ x <> k.
Proof.
  induction l as [|[k0 v0] t IH]; cbn [remove_key keys map fst]; [intros []|].
  destruct (k0 =? k) eqn:E.
  - intros H. destruct (IH H). split; [right|]; assumption.
  - cbn [keys map fst In]. intros [H|H]; [split; [now left | lia]|].
    destruct (IH H). split; [right|]; assumption.
Qed.

Lemma nodup_remove_key k l : NoDup (keys l) -> NoDup (keys (remove_key k l)).
Proof.
  induction l as [|[k0 v0] t IH]; cbn [remove_key keys map fst]; [auto|].
  intros H; inversion H as [|? ? Hn Hd]; subst.
  destruct (k0 =? k); [apply IH; assumption|].
  cbn [keys map fst]. constructor; [|apply IH; assumption].
  intros Hin. apply keys_remove_key in Hin. now destruct Hin.
Qed.

Lemma lookup_remove_first k k' l :
  NoDup (keys l) -> lookup k' (remove_first k l) = if k' =? k then None else lookup k' l.
Proof.
  induction l as [|[k0 v] t IH]; cbn [remove_first lookup keys map fst]; intros Hnd.
  - now destruct (k' =? k).
  - inversion Hnd as [|? ? Hn Hd]; subst. destruct (k0 =? k) eqn:E.
    + destruct (k' =? k) eqn:E2.
      * assert (k0 = k') by lia. subst k0.
        destruct (lookup k' t) eqn:El; [|reflexivity].
        exfalso. apply Hn. eapply lookup_in_keys. eassumption.
      * assert (k0 =? k' = false) as -> by lia. reflexivity.
    + cbn [lookup]. destruct (k0 =? k') eqn:E3.
      * destruct (k' =? k) eqn:E2; [lia | reflexivity].
      * apply IH. assumption.
Qed.

Lemma keys_remove_first k x l : In x (keys (remove_first k l)) -> In x (keys l).
Proof.
  induction l as [|[k0 v0] t IH]; cbn [remove_first keys map fst]; [intros []|].
  destruct (k0 =? k); [intros H; now right|].
  cbn [keys map fst In]. intros [H|H]; [now left | right; exact (IH H)].
Qed.

Lemma nodup_remove_first k l : NoDup (keys l) -> NoDup (keys (remove_first k l)).
Proof.
  induction l as [|[k0 v0] t IH]; cbn [remove_first keys map fst]; [auto|].
  intros H; inversion H as [|? ? Hn Hd]; subst.
  destruct (k0 =? k); [assumption|].
  cbn [keys map fst]. constructor; [|apply IH; assumption].
  intros Hin. apply Hn. eapply keys_remove_first. eassumption.
Qed.

Lemma lookup_app_last k k' v l :
  lookup k' (l ++ [(k, v)]) = match lookup k' l with Some x => Some x | None => if k =? k' then Some v else None end.
Proof.
  induction l as [|[k0 v0] t IH]; cbn [app lookup]; [reflexivity|].
  destruct (k0 =? k'); [reflexivity | exact IH].
Qed.
End Maps.

(* ---------- sets ---------- *)
Lemma mem_in x l : mem x l = true <-> In x l.
Proof.
  unfold mem. rewrite existsb_exists. split.
  - intros (y & Hy & E). assert (x = y) by lia. now subst.
  - intros H. exists x. split; [assumption | lia].
Qed.

Lemma set_add_in x y l : In y (set_add x l) <-> y = x \/ In y l.
Proof.
  unfold set_add. destruct (mem x l) eqn:E.
  - apply mem_in in E. split; [now right | intros [->|H]; assumption].
  - cbn [In]. split; intros [H|H]; auto.
Qed.

Lemma set_add_nodup x l : NoDup l -> NoDup (set_add x l).
Proof.
  intros H. unfold set_add. destruct (mem x l) eqn:E; [assumption|].
  constructor; [|assumption]. intros Hin. apply mem_in in Hin. congruence.
Qed.

Lemma set_add_card x l : card (set_add x l) <= card l + 1.
Proof. unfold set_add, card. destruct (mem x l); cbn [length]; lia. Qed.

Lemma set_remove_in x y l : In y (set_remove x l) <-> In y l /\ y <> x.
Proof.
  unfold set_remove. rewrite filter_In. split; intros [H1 H2]; split; try assumption; lia.
Qed.

Lemma set_remove_nodup x l : NoDup l -> NoDup (set_remove x l).
Proof. intros H. unfold set_remove. now apply NoDup_filter. Qed.

Lemma set_remove_card x l : card (set_remove x l) <= card l.
Proof.
  unfold set_remove, card. induction l as [|h t IH]; cbn [filter length]; [lia|].
  destruct (negb (h =? x)); cbn [length]; lia.
Qed.

(* ---------- state_of / set_state ---------- *)
Lemma state_of_set_state m p s q :
  state_of (set_state m p s) q = if q =? p then s else state_of m q.
Proof.
  unfold state_of, set_state. cbn [peers]. rewrite lookup_insert_key.
  destruct (q =? p); reflexivity.
Qed.

Lemma state_of_peers m1 m2 q : peers m1 = peers m2 -> state_of m1 q = state_of m2 q.
Proof. unfold state_of. now intros ->. Qed.

(* the address book is a separate field: adding an address changes nothing else *)
Lemma add_addr_peers m p a : peers (add_addr m p a) = peers m.
Proof. unfold add_addr. destruct (existsb _ _); reflexivity. Qed.
Lemma add_addr_pending m p a : pending (add_addr m p a) = pending m.
Proof. unfold add_addr. destruct (existsb _ _); reflexivity. Qed.
Lemma add_addr_ins m p a : ins (add_addr m p a) = ins m.
Proof. unfold add_addr. destruct (existsb _ _); reflexivity. Qed.
Lemma add_addr_outs m p a : outs (add_addr m p a) = outs m.
Proof. unfold add_addr. destruct (existsb _ _); reflexivity. Qed.
Lemma add_addr_accepting m p a : accepting (add_addr m p a) = accepting m.
Proof. unfold add_addr. destruct (existsb _ _); reflexivity. Qed.
Lemma add_addr_oerrs m p a : oerrs (add_addr m p a) = oerrs m.
Proof. unfold add_addr. destruct (existsb _ _); reflexivity. Qed.
Lemma add_addr_next_conn m p a : next_conn (add_addr m p a) = next_conn m.
Proof. unfold add_addr. destruct (existsb _ _); reflexivity. Qed.
Lemma so_add_addr m p a q : state_of (add_addr m p a) q = state_of m q.
Proof. apply state_of_peers, add_addr_peers. Qed.

(* ---------- PeerState transitions keep / drop recorded connections ---------- *)
Lemma recorded_on_dial_failure s c d : recorded s c -> recorded (st_on_dial_failure s d) c.
Proof.
  destruct s as [r [[e|e]|] | o | e | [e|]]; cbn [st_on_dial_failure recorded]; try tauto.
  destruct (e =? d); cbn [recorded]; [|tauto]. intros [H|H]; [now left | discriminate].
Qed.

Lemma recorded_on_established_old s c d :
  recorded s c -> recorded (fst (st_on_established s d)) c.
Proof.
  destruct s as [r [[e|e]|] | o | e | [e|]]; cbn [st_on_established recorded fst]; try tauto.
  - destruct (e =? d); cbn [fst recorded]; [|tauto]. intros [H|H]; [now left | discriminate].
  - intros [H|H]; [now left | discriminate].
Qed.

Lemma recorded_on_established_new s d :
  snd (st_on_established s d) = true -> recorded (fst (st_on_established s d)) d.
Proof.
  destruct s as [r [[e|e]|] | o | e | [e|]]; cbn [st_on_established recorded fst snd]; try discriminate;
    try (intros _; now right); try (intros _; now left).
  - destruct (e =? d); cbn [fst snd recorded]; [intros _; now right | discriminate].
  - destruct (e =? d); cbn [fst snd recorded]; intros _; now left.
  - destruct (e =? d); cbn [fst snd recorded]; intros _; now left.
Qed.

Lemma recorded_on_closed s c d : recorded s c -> c <> d -> recorded (fst (st_on_closed s d)) c.
Proof.
  destruct s as [r [[e|e]|] | o | e | [e|]]; cbn [st_on_closed recorded fst]; try tauto.
  - destruct (r =? d) eqn:E1; cbn [fst recorded].
    + intros [H|H] Hne; [lia | injection H as ->; now left].
    + destruct (e =? d) eqn:E2; cbn [fst recorded]; intros [H|H] Hne; try (now left).
      * injection H as ->. lia.
      * now right.
  - destruct (r =? d) eqn:E1; cbn [fst recorded]; intros [H|H] Hne; try discriminate; try lia; now left.
  - destruct (r =? d) eqn:E1; cbn [fst recorded]; intros [H|H] Hne; try discriminate; try lia; now left.
Qed.

Lemma not_recorded_fresh s : can_dial s = GateOk -> forall c, ~ recorded s c.
Proof. destruct s as [r sc| | |[e|]]; cbn [can_dial recorded]; try discriminate; tauto. Qed.

Lemma not_recorded_opening d ts c : ~ recorded (Opening d ts) c.
Proof. cbn. tauto. Qed.

(* ---------- the cap invariant is preserved ---------- *)
Section Preservation.
Variable L : limits.

Lemma cap_init : CapInv L init [].
Proof.
  split; cbn; try (intros; discriminate); try (intros; tauto); try constructor;
    try (intros; unfold card; cbn; lia).
Qed.

(* a tactic-free helper: changing only fields that the invariant does not read *)
Lemma cap_same_core m m' l :
  peers m' = peers m -> ins m' = ins m -> outs m' = outs m -> accepting m' = accepting m ->
  CapInv L m l -> CapInv L m' l.
Proof.
  intros Hp Hi Ho Ha [H1 H2 H3 H4 H5 H6 H7 H8 H9 H10 H11 H12].
  split; rewrite ?Hi, ?Ho, ?Ha; try assumption.
  intros c p b Hl. rewrite (state_of_peers m' m p Hp). eauto.
Qed.

(* changing the state of one peer to a state that still records the live connections *)
Lemma cap_set_state m l p s :
  CapInv L m l ->
  (forall c b, lookup c l = Some (p, b) -> recorded s c) ->
  CapInv L (set_state m p s) l.
Proof.
  intros [H1 H2 H3 H4 H5 H6 H7 H8 H9 H10 H11 H12] Hs.
  split; cbn [set_state ins outs accepting]; try assumption.
  intros c q b Hl. rewrite state_of_set_state. destruct (q =? p) eqn:E.
  - assert (q = p) by lia. subst q. eauto.
  - eauto.
Qed.

Lemma cap_add_addr m l p a : CapInv L m l -> CapInv L (add_addr m p a) l.
Proof.
  intros I. eapply cap_same_core; [| | | |exact I];
    [apply add_addr_peers|apply add_addr_ins|apply add_addr_outs|apply add_addr_accepting].
Qed.

Lemma cap_dial_peer m l p ts fl : CapInv L m l -> CapInv L (fst (do_dial_peer L m p ts fl)) l.
Proof.
  intros I. unfold do_dial_peer.
  destruct (limit_reached (max_out L) (outs m)); [exact I|].
  destruct (p =? LOCAL); [exact I|].
  destruct (can_dial (state_of m p)) eqn:Eg; try exact I.
  destruct (is_nil (addrs_of m p)); [exact I|].
  assert (I1 : CapInv L (set_state (bump_conn m) p (Opening (next_conn m) ts)) l).
  { apply cap_set_state.
    - eapply cap_same_core; [| | | |exact I]; reflexivity.
    - intros c b Hl. exfalso. destruct I as [H1 _ _ _ _ _ _ _ _ _ _ _].
      exact (not_recorded_fresh _ Eg c (H1 _ _ _ Hl)). }
  destruct (open_calls L (next_conn m) ts fl) as [calls ok]. destruct ok; cbn [fst]; [|exact I1].
  eapply cap_same_core; [| | | |exact I1]; reflexivity.
Qed.

Lemma cap_dial_addr m l p t a f : CapInv L m l -> CapInv L (fst (do_dial_addr L m p t a f)) l.
Proof.
  intros I. unfold do_dial_addr.
  destruct (negb (installed L t)); [exact I|].
  assert (I0 : CapInv L (add_addr (bump_conn m) p a) l).
  { apply cap_add_addr. eapply cap_same_core; [| | | |exact I]; reflexivity. }
  destruct (can_dial (state_of (add_addr (bump_conn m) p a) p)) eqn:Eg; try exact I0.
  assert (I1 : CapInv L (set_state (add_addr (bump_conn m) p a) p (Dialing (next_conn m))) l).
  { apply cap_set_state; [exact I0|].
    intros c b Hl. exfalso. destruct I0 as [H1 _ _ _ _ _ _ _ _ _ _ _].
    exact (not_recorded_fresh _ Eg c (H1 _ _ _ Hl)). }
  destruct f; cbn [fst].
  - apply cap_set_state; [exact I1|]. intros c b Hl. exfalso. destruct I0 as [H1 _ _ _ _ _ _ _ _ _ _ _].
    exact (not_recorded_fresh _ Eg c (H1 _ _ _ Hl)).
  - eapply cap_same_core; [| | | |exact I1]; reflexivity.
Qed.

Lemma cap_dial_shape m l a f : CapInv L m l -> CapInv L (fst (do_dial_shape L m a f)) l.
Proof.
  intros I. unfold do_dial_shape.
  destruct (limit_reached (max_out L) (outs m)); [exact I|].
  destruct (DialShape.dial_shape LISTEN a); [exact I | now apply cap_dial_addr | now apply cap_dial_addr].
Qed.

Lemma cap_dial_failure m l c t pa : CapInv L m l -> CapInv L (fst (do_dial_failure m c t pa)) l.
Proof.
  intros I. unfold do_dial_failure.
  assert (I0 : CapInv L (add_addr m pa (canon pa t)) l) by now apply cap_add_addr.
  destruct (lookup c (pending (add_addr m pa (canon pa t)))) as [p|]; [|exact I0].
  cbn [fst]. apply cap_set_state.
  - eapply cap_same_core; [| | | |exact I0]; reflexivity.
  - intros d b Hl. apply recorded_on_dial_failure.
    destruct I0 as [H1 _ _ _ _ _ _ _ _ _ _ _].
    exact (H1 _ _ _ Hl).
Qed.

Lemma cap_opened m l c t f : CapInv L m l -> CapInv L (fst (do_opened L m c t f)) l.
Proof.
  intros I. unfold do_opened.
  set (me := set_oerrs m (remove_key c (oerrs m))).
  assert (Ie : CapInv L me l) by (eapply cap_same_core; [| | | |exact I]; reflexivity).
  destruct (lookup c (pending me)) as [p|]; [|exact Ie].
  set (m1 := add_addr (set_pending me (remove_key c (pending me))) p (canon p t)).
  assert (I1 : CapInv L m1 l).
  { apply cap_add_addr. eapply cap_same_core; [| | | |exact Ie]; reflexivity. }
  destruct (state_of m1 p) as [r sc|d ts|d|d] eqn:Es; try exact I1.
  assert (Hnone : forall c0 b, lookup c0 l = Some (p, b) -> False).
  { intros c0 b Hl. destruct I1 as [H1 _ _ _ _ _ _ _ _ _ _ _].
    specialize (H1 _ _ _ Hl). rewrite Es in H1. exact H1. }
  assert (I2 : CapInv L (set_state m1 p (Dialing c)) l).
  { apply cap_set_state; [exact I1|]. intros c0 b Hl. exfalso. eauto. }
  destruct (negb (forallb (installed L) ts)); [exact I2|].
  destruct f; cbn [fst].
  - apply cap_set_state; [exact I2|]. intros c0 b Hl. exfalso. eauto.
  - eapply cap_same_core; [| | | |exact I2]; reflexivity.
Qed.

Lemma cap_open_failure m l c t pa : CapInv L m l -> CapInv L (fst (do_open_failure m c t pa)) l.
Proof.
  intros I. unfold do_open_failure.
  set (m0 := add_addr m pa (canon pa t)).
  assert (I0 : CapInv L m0 l) by now apply cap_add_addr.
  destruct (lookup c (pending m0)) as [p|]; [|exact I0].
  destruct (state_of m0 p) as [r sc|d ts|d|d] eqn:Es; try exact I0.
  destruct (mem t ts); [|exact I0].
  assert (Hnone : forall c0 b, lookup c0 l = Some (p, b) -> False).
  { intros c0 b Hl. destruct I0 as [H1 _ _ _ _ _ _ _ _ _ _ _].
    specialize (H1 _ _ _ Hl). rewrite Es in H1. exact H1. }
  destruct (remove_tr t ts) as [|x r]; cbn [fst].
  - apply (cap_same_core (set_state m0 p (Disconnected None)));
      [reflexivity|reflexivity|reflexivity|reflexivity|].
    apply cap_set_state; [exact I0|]. intros c0 b Hl. exfalso. eauto.
  - apply (cap_same_core (set_state m0 p (Opening d (x :: r))));
      [reflexivity|reflexivity|reflexivity|reflexivity|].
    apply cap_set_state; [exact I0|]. intros c0 b Hl. exfalso. eauto.
Qed.

(* do_closed removes c from the limits, the peer state and (ghost) the ledger *)
Lemma cap_closed m l p c :
  CapInv L m l ->
  (forall q b, lookup c l = Some (q, b) -> q = p) ->
  ~ In c (keys (accepting m)) ->
  CapInv L (fst (do_closed m p c)) (remove_key c l).
Proof.
  intros [H1 H2 H3 H4 H5 H6 H7 H8 H9 H10 H11 H12] Hp Hacc. unfold do_closed.
  set (m1 := set_limits m (set_remove c (ins m)) (set_remove c (outs m))).
  destruct (st_on_closed (state_of m1 p) c) as [s' rep] eqn:Ec. cbn [fst].
  split; cbn [set_state set_limits ins outs accepting m1].
  - intros d q b Hl. rewrite lookup_remove_key in Hl.
    destruct (d =? c) eqn:E; [discriminate|].
    rewrite state_of_set_state. destruct (q =? p) eqn:E2.
    + assert (q = p) by lia. subst q.
      replace s' with (fst (st_on_closed (state_of m1 p) c)) by now rewrite Ec.
      apply recorded_on_closed; [|lia].
      rewrite (state_of_peers m1 m p eq_refl). eauto.
    + rewrite (state_of_peers m1 m q eq_refl). eauto.
  - now apply nodup_remove_key.
  - intros d Hd. apply set_remove_in in Hd. destruct Hd as [Hd Hne].
    destruct (H3 _ Hd) as [q Hq]. exists q. rewrite lookup_remove_key.
    assert (d =? c = false) as -> by lia. exact Hq.
  - intros d Hd. apply set_remove_in in Hd. destruct Hd as [Hd Hne].
    destruct (H4 _ Hd) as [q Hq]. exists q. rewrite lookup_remove_key.
    assert (d =? c = false) as -> by lia. exact Hq.
  - now apply set_remove_nodup.
  - now apply set_remove_nodup.
  - intros mx Hm. pose proof (set_remove_card c (ins m)). specialize (H7 _ Hm). lia.
  - intros mx Hm. pose proof (set_remove_card c (outs m)). specialize (H8 _ Hm). lia.
  - intros mx d q Hm Hl. rewrite lookup_remove_key in Hl.
    destruct (d =? c) eqn:E; [discriminate|]. apply set_remove_in. split; [eauto | lia].
  - intros mx d q Hm Hl. rewrite lookup_remove_key in Hl.
    destruct (d =? c) eqn:E; [discriminate|]. apply set_remove_in. split; [eauto | lia].
  - intros d q b Hl. rewrite lookup_remove_key.
    destruct (d =? c) eqn:E.
    + exfalso. apply Hacc. assert (d = c) by lia. subst d. eapply lookup_in_keys. eassumption.
    + eauto.
  - assumption.
Qed.

Lemma remove_key_notin {A} k (l : list (N * A)) : lookup k l = None -> remove_key k l = l.
Proof.
  induction l as [|[k0 v] t IH]; cbn [lookup remove_key]; [reflexivity|].
  destruct (k0 =? k); [discriminate|]. intros H. f_equal. exact (IH H).
Qed.

Lemma limit_insert_in mx c d l : In d (limit_insert mx c l) -> d = c \/ In d l.
Proof. destruct mx; cbn [limit_insert]; [apply set_add_in | now right]. Qed.

Lemma limit_insert_nodup mx c l : NoDup l -> NoDup (limit_insert mx c l).
Proof. destruct mx; cbn [limit_insert]; [apply set_add_nodup | auto]. Qed.

Lemma keys_app {A} (l1 l2 : list (N * A)) : keys (l1 ++ l2) = keys l1 ++ keys l2.
Proof. unfold keys. apply map_app. Qed.

(* the state right after the manager decided to accept connection c of p *)
Lemma cap_accept_core m1 l p c (lst : bool) :
  CapInv L m1 l -> lookup c l = None ->
  limit_reached (if lst then max_in L else max_out L) (if lst then ins m1 else outs m1) = false ->
  snd (st_on_established (state_of m1 p) c) = true ->
  forall pend',
  let m2 := set_state m1 p (fst (st_on_established (state_of m1 p) c)) in
  let m3 := if lst then set_limits m2 (limit_insert (max_in L) c (ins m2)) (outs m2)
            else set_limits m2 (ins m2) (limit_insert (max_out L) c (outs m2)) in
  CapInv L (set_pending m3 pend') ((c, (p, lst)) :: l).
Proof.
  intros [H1 H2 H3 H4 H5 H6 H7 H8 H9 H10 H11 H12] Hc Hlim Hacc pend' m2 m3.
  assert (Hck : ~ In c (keys l)) by (now apply lookup_none_keys).
  assert (Hlk : forall d, d <> c -> lookup d ((c, (p, lst)) :: l) = lookup d l).
  { intros d Hd. cbn [lookup]. assert (c =? d = false) as -> by lia. reflexivity. }
  assert (Hlc : lookup c ((c, (p, lst)) :: l) = Some (p, lst)).
  { cbn [lookup]. assert (c =? c = true) as -> by lia. reflexivity. }
  assert (Hins : ins (set_pending m3 pend') = if lst then limit_insert (max_in L) c (ins m1) else ins m1).
  { subst m3 m2. destruct lst; reflexivity. }
  assert (Houts : outs (set_pending m3 pend') = if lst then outs m1 else limit_insert (max_out L) c (outs m1)).
  { subst m3 m2. destruct lst; reflexivity. }
  assert (Hacc' : accepting (set_pending m3 pend') = accepting m1).
  { subst m3 m2. destruct lst; reflexivity. }
  assert (Hst : forall q, state_of (set_pending m3 pend') q =
                         if q =? p then fst (st_on_established (state_of m1 p) c) else state_of m1 q).
  { intros q. subst m3 m2. destruct lst; unfold state_of; cbn [set_pending set_limits set_state peers];
      rewrite lookup_insert_key; destruct (q =? p); reflexivity. }
  assert (Holdin : forall d, In d (keys l) -> d <> c) by (intros d Hd ->; contradiction).
  split; rewrite ?Hins, ?Houts, ?Hacc'.
  - intros d q b Hl. rewrite Hst. destruct (d =? c) eqn:E.
    + assert (d = c) by lia. subst d. rewrite Hlc in Hl. injection Hl as <- <-.
      assert (p =? p = true) as -> by lia. now apply recorded_on_established_new.
    + rewrite Hlk in Hl by lia. destruct (q =? p) eqn:E2.
      * assert (q = p) by lia. subst q. apply recorded_on_established_old. eauto.
      * eauto.
  - cbn [keys map fst]. constructor; assumption.
  - intros d Hd. assert (Hd' : (lst = true /\ d = c) \/ In d (ins m1)).
    { destruct lst; [|now right]. apply limit_insert_in in Hd. destruct Hd; [left; auto | now right]. }
    destruct Hd' as [[-> ->]|Hd'].
    + exists p. exact Hlc.
    + destruct (H3 _ Hd') as [q Hq]. exists q. rewrite Hlk; [exact Hq|].
      apply Holdin. eapply lookup_in_keys. exact Hq.
  - intros d Hd. assert (Hd' : (lst = false /\ d = c) \/ In d (outs m1)).
    { destruct lst; [now right|]. apply limit_insert_in in Hd. destruct Hd; [left; auto | now right]. }
    destruct Hd' as [[-> ->]|Hd'].
    + exists p. exact Hlc.
    + destruct (H4 _ Hd') as [q Hq]. exists q. rewrite Hlk; [exact Hq|].
      apply Holdin. eapply lookup_in_keys. exact Hq.
  - destruct lst; [now apply limit_insert_nodup | assumption].
  - destruct lst; [assumption | now apply limit_insert_nodup].
  - intros mx Hm. destruct lst; [|eauto]. rewrite Hm in *. cbn [limit_insert limit_reached] in *.
    pose proof (set_add_card c (ins m1)). lia.
  - intros mx Hm. destruct lst; [eauto|]. rewrite Hm in *. cbn [limit_insert limit_reached] in *.
    pose proof (set_add_card c (outs m1)). lia.
  - intros mx d q Hm Hl. destruct (d =? c) eqn:E.
    + assert (d = c) by lia. subst d. rewrite Hlc in Hl. injection Hl as <- ->.
      rewrite Hm. cbn [limit_insert]. apply set_add_in. now left.
    + rewrite Hlk in Hl by lia. destruct lst; [|eauto].
      rewrite Hm. cbn [limit_insert]. apply set_add_in. right. eauto.
  - intros mx d q Hm Hl. destruct (d =? c) eqn:E.
    + assert (d = c) by lia. subst d. rewrite Hlc in Hl. injection Hl as <- ->.
      rewrite Hm. cbn [limit_insert]. apply set_add_in. now left.
    + rewrite Hlk in Hl by lia. destruct lst; [eauto|].
      rewrite Hm. cbn [limit_insert]. apply set_add_in. right. eauto.
  - intros d q b Hl. rewrite Hlk; [eauto|]. intros ->. specialize (H11 _ _ _ Hl). congruence.
  - assumption.
Qed.

Lemma cap_established_checked m1 l p c t (lst f : bool) :
  CapInv L m1 l -> lookup c l = None ->
  CapInv L (fst (do_established_checked L m1 p c t lst f))
         (if existsb (is_accept c) (snd (do_established_checked L m1 p c t lst f)) && negb f
          then (c, (p, lst)) :: l else l).
Proof.
  intros I Hc. unfold do_established_checked.
  destruct (limit_reached (if lst then max_in L else max_out L) (if lst then ins m1 else outs m1)) eqn:Elim.
  { cbn [fst snd existsb is_accept andb].
    destruct (existsb (fun kp : N * pstate => fst kp =? p) (peers m1)); [|exact I].
    apply cap_set_state; [exact I|]. intros d b Hl. apply recorded_on_dial_failure.
    destruct I as [H1 _ _ _ _ _ _ _ _ _ _ _]. eauto. }
  destruct (st_on_established (state_of m1 p) c) as [s' accepted] eqn:Est.
  destruct accepted; cbn [negb].
  2:{ cbn [fst snd existsb is_accept andb]. exact I. }
  set (m2 := set_state m1 p s').
  set (m3 := if lst then set_limits m2 (limit_insert (max_in L) c (ins m2)) (outs m2)
             else set_limits m2 (ins m2) (limit_insert (max_out L) c (outs m2))).
  assert (Hcore : forall pend', CapInv L (set_pending m3 pend') ((c, (p, lst)) :: l)).
  { intros pend'. pose proof (cap_accept_core m1 l p c lst I Hc Elim) as Hk.
    rewrite Est in Hk. cbn [fst snd] in Hk. exact (Hk eq_refl pend'). }
  assert (Hm3 : m3 = set_pending m3 (pending m3)) by (destruct m3; reflexivity).
  assert (Hck : ~ In c (keys (accepting m1))).
  { intros Hin. apply keys_in_lookup in Hin. destruct Hin as [[q b] Hq].
    destruct I as [_ _ _ _ _ _ _ _ _ _ H11 _]. specialize (H11 _ _ _ Hq). congruence. }
  assert (Hacc3 : forall pend', accepting (set_pending m3 pend') = accepting m1).
  { intros pend'. subst m3 m2. destruct lst; reflexivity. }
  assert (Hfinish : forall m4 cancels,
            (exists pend', m4 = set_pending m3 pend') ->
            CapInv L (fst (est_finish m4 p c t lst f cancels))
                   (if existsb (is_accept c) (snd (est_finish m4 p c t lst f cancels)) && negb f
                    then (c, (p, lst)) :: l else l)).
  { intros m4 cancels [pend' ->]. unfold est_finish. pose proof (Hcore pend') as J. destruct f.
    - destruct (do_closed (set_pending m3 pend') p c) as [m5 rep] eqn:Ecl. cbn [fst snd negb].
      rewrite andb_false_r.
      assert (Hrm : remove_key c ((c, (p, lst)) :: l) = l).
      { cbn [remove_key]. assert (c =? c = true) as -> by lia. now apply remove_key_notin. }
      assert (K : CapInv L (fst (do_closed (set_pending m3 pend') p c)) (remove_key c ((c, (p, lst)) :: l))).
      { apply cap_closed; [exact J| |].
        - intros q b. cbn [lookup]. assert (c =? c = true) as -> by lia. congruence.
        - rewrite Hacc3. exact Hck. }
      rewrite Hrm, Ecl in K. exact K.
    - cbn [fst snd negb]. rewrite andb_true_r.
      assert (existsb (is_accept c) (cancels ++ [CallAccept c t]) = true) as ->.
      { rewrite existsb_app. cbn [existsb is_accept]. assert (c =? c = true) as -> by lia.
        now rewrite orb_true_r. }
      destruct J as [H1 H2 H3 H4 H5 H6 H7 H8 H9 H10 H11 H12].
      split; cbn [set_accepting ins outs accepting]; try assumption.
      + intros d q b Hl. rewrite lookup_app_last in Hl.
        destruct (lookup d (accepting (set_pending m3 pend'))) as [x|] eqn:El.
        * injection Hl as ->. eauto.
        * destruct (c =? d) eqn:E; [|discriminate]. injection Hl as <- <-.
          assert (d = c) by lia. subst d. cbn [lookup]. assert (c =? c = true) as -> by lia. reflexivity.
      + rewrite keys_app. cbn [keys map fst]. rewrite Hacc3 in *.
        apply (Permutation_NoDup (l := c :: keys (accepting m1))).
        * apply Permutation_cons_append.
        * constructor; assumption. }
  destruct (state_of m1 p) as [r sc|d ts|d|d] eqn:Es; cbv iota beta;
    try (apply Hfinish; exists (pending m3); exact Hm3).
  destruct (negb (forallb (installed L) ts)).
  - cbn [fst snd existsb is_accept andb]. exact I.
  - apply Hfinish. eexists. reflexivity.
Qed.

Lemma cap_accept_done m l c ok :
  CapInv L m l -> In c (keys (accepting m)) ->
  CapInv L (fst (do_accept_done m c ok)) (if ok then l else remove_key c l).
Proof.
  intros I Hin. unfold do_accept_done.
  destruct (lookup c (accepting m)) as [[p b]|] eqn:Ea.
  2:{ exfalso. exact (lookup_none_keys _ _ Ea Hin). }
  pose proof I as [H1 H2 H3 H4 H5 H6 H7 H8 H9 H10 H11 H12].
  set (m1 := set_accepting m (remove_first c (accepting m))).
  assert (Hacc1 : forall d q b', lookup d (accepting m1) = Some (q, b') -> lookup d l = Some (q, b')).
  { intros d q b' Hl. cbn [m1 set_accepting accepting] in Hl.
    rewrite lookup_remove_first in Hl by assumption.
    destruct (d =? c); [discriminate | eauto]. }
  assert (I1 : CapInv L m1 l).
  { split; cbn [m1 set_accepting ins outs accepting]; try assumption.
    now apply nodup_remove_first. }
  destruct ok; cbn [fst]; [exact I1|].
  destruct (do_closed m1 p c) as [m2 rep] eqn:Ec. cbn [fst].
  replace m2 with (fst (do_closed m1 p c)) by now rewrite Ec.
  apply cap_closed; [exact I1| |].
  - intros q b' Hl. specialize (H11 _ _ _ Ea). congruence.
  - cbn [m1 set_accepting accepting]. intros Hin'.
    apply keys_in_lookup in Hin'. destruct Hin' as [v Hv].
    rewrite lookup_remove_first in Hv by assumption.
    assert (c =? c = true) as E by lia. rewrite E in Hv. discriminate.
Qed.

Lemma cap_established m l p c t (lst f : bool) :
  CapInv L m l -> lookup c l = None ->
  CapInv L (fst (do_established L m p c t lst f))
         (if existsb (is_accept c) (snd (do_established L m p c t lst f)) && negb f
          then (c, (p, lst)) :: l else l).
Proof.
  intros I Hc. unfold do_established.
  set (me := set_oerrs m (remove_key c (oerrs m))).
  set (m0 := if lst then me else add_addr me p (canon p t)).
  set (m1 := set_pending m0 (remove_key c (pending m0))).
  assert (Ie : CapInv L me l) by (eapply cap_same_core; [| | | |exact I]; reflexivity).
  assert (I0 : CapInv L m0 l) by (subst m0; destruct lst; [exact Ie | now apply cap_add_addr]).
  assert (I1 : CapInv L m1 l) by (subst m1; eapply cap_same_core; [| | | |exact I0]; reflexivity).
  destruct (lookup c (pending m0)) as [dp|].
  - destruct (dp =? p).
    + now apply cap_established_checked.
    + cbn [fst snd existsb is_accept andb orb]. exact I1.
  - now apply cap_established_checked.
Qed.

Lemma cap_hdial_peer m l p ts fl clog : CapInv L m l -> CapInv L (fst (do_hdial_peer L m p ts fl clog)) l.
Proof.
  intros I. unfold do_hdial_peer. destruct (handle_gate m p); try exact I.
  destruct clog; [exact I|].
  pose proof (cap_dial_peer m l p ts fl I) as K. destruct (do_dial_peer L m p ts fl) as [m1 os]. exact K.
Qed.

Lemma cap_hdial_addr m l a clog : CapInv L m l -> CapInv L (fst (do_hdial_addr L m a clog)) l.
Proof.
  intros I. unfold do_hdial_addr. destruct (negb (existsb is_p2p a)); [exact I|].
  destruct clog; [exact I|].
  pose proof (cap_dial_shape m l a false I) as K. destruct (do_dial_shape L m a false) as [m1 os]. exact K.
Qed.

Theorem cap_step m l e :
  CapInv L m l -> env_ok m l e ->
  CapInv L (fst (step L m e)) (live_step e (snd (step L m e)) l).
Proof.
  intros I He.
  destruct e as [p ts fl|p t f|p t|c t pa|c t f|c t pa|p c t lst f|c t|c ok|p c| |a|p ts fl clog|a clog];
    cbn [step live_step env_ok] in *.
  - now apply cap_dial_peer.
  - now apply cap_dial_shape.
  - cbn [fst]. destruct (installed L _); [now apply cap_add_addr | exact I].
  - destruct (installed L t); [now apply cap_dial_failure | exact I].
  - destruct (installed L t); [now apply cap_opened | exact I].
  - destruct (installed L t); [now apply cap_open_failure | exact I].
  - destruct (installed L t); [now apply cap_established | exact I].
  - destruct (installed L t); [|exact I]. destruct (limit_reached (max_in L) (ins m)); exact I.
  - pose proof (cap_accept_done m l c ok I He) as K. destruct ok; exact K.
  - destruct He as [He1 He2]. pose proof (cap_closed m l p c I He1 He2) as K.
    destruct (do_closed m p c) as [m1 rep]. exact K.
  - cbn [fst]. eapply cap_same_core; [| | | |exact I]; reflexivity.
  - now apply cap_dial_shape.
  - now apply cap_hdial_peer.
  - now apply cap_hdial_addr.
Qed.

(* runs with the ghost ledger *)
Fixpoint grun (m : mgr) (l : live_t) (es : list ev) : mgr * live_t :=
  match es with
  | [] => (m, l)
  | e :: t => grun (fst (step L m e)) (live_step e (snd (step L m e)) l) t
  end.

Fixpoint env_trace (m : mgr) (l : live_t) (es : list ev) : Prop :=
  match es with
  | [] => True
  | e :: t => env_ok m l e /\ env_trace (fst (step L m e)) (live_step e (snd (step L m e)) l) t
  end.

Theorem cap_run es : forall m l,
  CapInv L m l -> env_trace m l es -> CapInv L (fst (grun m l es)) (snd (grun m l es)).
Proof.
  induction es as [|e t IH]; intros m l I He; cbn [grun fst snd]; [exact I|].
  destruct He as [He1 He2]. apply IH; [now apply cap_step | exact He2].
Qed.

(* ---------- consequences ---------- *)
Definition of_peer (p : peer) (l : live_t) : live_t := filter (fun x => fst (snd x) =? p) l.
Definition of_dir (d : bool) (l : live_t) : live_t := filter (fun x => Bool.eqb (snd (snd x)) d) l.

Lemma keys_filter_incl {A} (f : N * A -> bool) (l : list (N * A)) x : In x (keys (filter f l)) -> In x (keys l).
Proof.
  unfold keys. rewrite !in_map_iff. intros (y & Hy & Hin). exists y. split; [assumption|].
  apply filter_In in Hin. tauto.
Qed.

Lemma nodup_keys_filter {A} (f : N * A -> bool) (l : list (N * A)) : NoDup (keys l) -> NoDup (keys (filter f l)).
Proof.
  induction l as [|[k v] t IH]; cbn [filter keys map fst]; [auto|].
  intros H; inversion H as [|? ? Hn Hd]; subst.
  destruct (f (k, v)); [|apply IH; assumption].
  cbn [keys map fst]. constructor; [|apply IH; assumption].
  intros Hin. apply Hn. eapply keys_filter_incl. eassumption.
Qed.

Lemma in_lookup_nodup {A} k (v : A) l : NoDup (keys l) -> In (k, v) l -> lookup k l = Some v.
Proof.
  induction l as [|[k0 v0] t IH]; cbn [In lookup keys map fst]; [intros _ []|].
  intros H; inversion H as [|? ? Hn Hd]; subst. intros [E|Hin].
  - injection E as -> ->. assert (k =? k = true) as -> by lia. reflexivity.
  - destruct (k0 =? k) eqn:E.
    + exfalso. apply Hn. assert (k0 = k) by lia. subst k0.
      unfold keys. apply in_map_iff. exists (k, v). split; [reflexivity | assumption].
    + apply IH; assumption.
Qed.

(* at most two established connections per peer *)
Theorem two_per_peer m l p : CapInv L m l -> (length (of_peer p l) <= 2)%nat.
Proof.
  intros [H1 H2 _ _ _ _ _ _ _ _ _ _].
  assert (Hk : forall c, In c (keys (of_peer p l)) -> recorded (state_of m p) c).
  { intros c Hc. unfold keys in Hc. apply in_map_iff in Hc. destruct Hc as ([c0 [q b]] & E & Hin).
    cbn [fst] in E. subst c0. unfold of_peer in Hin. apply filter_In in Hin. destruct Hin as [Hin Hq].
    cbn [fst snd] in Hq. assert (q = p) by lia. subst q.
    apply (H1 c p b). now apply in_lookup_nodup. }
  assert (Hnd : NoDup (keys (of_peer p l))) by (now apply nodup_keys_filter).
  replace (length (of_peer p l)) with (length (keys (of_peer p l))) by apply map_length.
  destruct (state_of m p) as [r sc|d|d|d];
    try (destruct (keys (of_peer p l)) as [|x t]; [cbn; lia | exfalso; apply (Hk x); now left]).
  (* Connected r sc: every key is r or the secondary *)
  set (s2 := match sc with Some (SecEst s) => s | _ => r end).
  assert (Hin : incl (keys (of_peer p l)) [r; s2]).
  { intros c Hc. specialize (Hk c Hc). cbn [recorded] in Hk. destruct Hk as [->| ->]; [now left|].
    right; now left. }
  pose proof (NoDup_incl_length Hnd Hin). cbn [length] in *. unfold conn, peer in *. lia.
Qed.

(* the configured maxima bound the established connections themselves *)
Theorem limits_hold m l :
  CapInv L m l ->
  (forall mx, max_in L = Some mx -> N.of_nat (length (of_dir true l)) <= mx) /\
  (forall mx, max_out L = Some mx -> N.of_nat (length (of_dir false l)) <= mx).
Proof.
  intros [H1 H2 H3 H4 H5 H6 H7 H8 H9 H10 H11 H12].
  assert (Hgen : forall d (S : list conn) mx,
            (forall c p, lookup c l = Some (p, d) -> In c S) -> card S <= mx ->
            N.of_nat (length (of_dir d l)) <= mx).
  { intros d S mx Hsub Hcard.
    assert (Hnd : NoDup (keys (of_dir d l))) by (now apply nodup_keys_filter).
    assert (Hin : incl (keys (of_dir d l)) S).
    { intros c Hc. unfold keys in Hc. apply in_map_iff in Hc. destruct Hc as ([c0 [q b]] & E & Hin).
      cbn [fst] in E. subst c0. unfold of_dir in Hin. apply filter_In in Hin. destruct Hin as [Hin Hb].
      cbn [snd] in Hb. apply Bool.eqb_prop in Hb. subst b.
      apply (Hsub c q). now apply in_lookup_nodup. }
    pose proof (NoDup_incl_length Hnd Hin) as Hlen. unfold keys in Hlen. rewrite map_length in Hlen.
    unfold card, conn, peer in *. lia. }
  split; intros mx Hm.
  - apply (Hgen true (ins m) mx); [intros c p; eauto | eauto].
  - apply (Hgen false (outs m) mx); [intros c p; eauto | eauto].
Qed.

(* every counted slot belongs to an established connection: no leaked capacity *)
Theorem counted_are_live m l c :
  CapInv L m l -> (In c (ins m) \/ In c (outs m)) -> In c (keys l).
Proof.
  intros [H1 H2 H3 H4 _ _ _ _ _ _ _ _] [Hc|Hc].
  - destruct (H3 _ Hc) as [p Hp]. eapply lookup_in_keys. exact Hp.
  - destruct (H4 _ Hc) as [p Hp]. eapply lookup_in_keys. exact Hp.
Qed.

End Preservation.

(* ---------- direct facts about single handlers ---------- *)

(* a closed connection leaves both counted sets, nothing else changes in them *)
Theorem release_exact m p c d :
  let m' := fst (do_closed m p c) in
  (In d (ins m') <-> In d (ins m) /\ d <> c) /\ (In d (outs m') <-> In d (outs m) /\ d <> c).
Proof.
  unfold do_closed.
  destruct (st_on_closed (state_of (set_limits m (set_remove c (ins m)) (set_remove c (outs m))) p) c) as [s' rep].
  cbn [fst set_state set_limits ins outs]. split; apply set_remove_in.
Qed.

(* at the limit a dial is refused and nothing changes *)
Theorem dial_gate L m p ts fl a f :
  limit_reached (max_out L) (outs m) = true ->
  do_dial_peer L m p ts fl = (m, [Ret RET_LIMIT]) /\ do_dial_shape L m a f = (m, [Ret RET_LIMIT]).
Proof. intros H. unfold do_dial_peer, do_dial_shape. rewrite H. split; reflexivity. Qed.

(* below the limit a connection from a peer without any connection or dial is accepted *)
Theorem below_limit_accepts L m p c t (lst f : bool) :
  limit_reached (if lst then max_in L else max_out L) (if lst then ins m else outs m) = false ->
  state_of m p = Disconnected None ->
  (forall q, lookup c (pending m) = Some q -> q = p) ->
  In (CallAccept c t) (snd (do_established L m p c t lst f)).
Proof.
  intros Hlim Hst Hpend. unfold do_established.
  set (me := set_oerrs m (remove_key c (oerrs m))).
  set (m0 := if lst then me else add_addr me p (canon p t)).
  assert (Hp0 : pending m0 = pending m) by (subst m0 me; destruct lst; [reflexivity | now rewrite add_addr_pending]).
  assert (Hins : forall pd, ins (set_pending m0 pd) = ins m)
    by (intros; subst m0 me; destruct lst; cbn [set_pending ins]; [reflexivity | now rewrite add_addr_ins]).
  assert (Houts : forall pd, outs (set_pending m0 pd) = outs m)
    by (intros; subst m0 me; destruct lst; cbn [set_pending outs]; [reflexivity | now rewrite add_addr_outs]).
  assert (Hs0 : forall pd, state_of (set_pending m0 pd) p = Disconnected None).
  { intros pd. rewrite <- Hst. apply state_of_peers. subst m0 me. destruct lst; cbn [set_pending peers];
      [reflexivity | now rewrite add_addr_peers]. }
  assert (Hchk : forall pd, In (CallAccept c t) (snd (do_established_checked L (set_pending m0 pd) p c t lst f))).
  { intros pd. unfold do_established_checked. rewrite Hins, Houts, Hlim, Hs0.
    cbn [st_on_established negb]. unfold est_finish. destruct f.
    - destruct (do_closed _ p c) as [m5 r]. cbn [snd app]. now left.
    - cbn [snd app]. now left. }
  rewrite Hp0. destruct (lookup c (pending m)) as [dp|] eqn:El.
  - rewrite (Hpend dp eq_refl). assert (p =? p = true) as -> by lia. apply Hchk.
  - apply Hchk.
Qed.

(* a rejected surplus connection leaves every established connection record untouched *)
Theorem reject_preserves L m p c t (lst f : bool) q d :
  In (CallReject c t) (snd (do_established L m p c t lst f)) ->
  recorded (state_of m q) d -> recorded (state_of (fst (do_established L m p c t lst f)) q) d.
Proof.
  unfold do_established.
  set (me := set_oerrs m (remove_key c (oerrs m))).
  set (m0 := if lst then me else add_addr me p (canon p t)).
  set (m1 := set_pending m0 (remove_key c (pending m0))).
  assert (Hs : forall x, state_of m1 x = state_of m x).
  { intros x. apply state_of_peers. subst m1 m0 me. destruct lst; cbn [set_pending peers];
      [reflexivity | now rewrite add_addr_peers]. }
  assert (Hchk : In (CallReject c t) (snd (do_established_checked L m1 p c t lst f)) ->
                 recorded (state_of m q) d ->
                 recorded (state_of (fst (do_established_checked L m1 p c t lst f)) q) d).
  { unfold do_established_checked.
    destruct (limit_reached _ _).
    - cbn [fst snd]. intros _ Hr.
      destruct (existsb (fun kp : N * pstate => fst kp =? p) (peers m1)); [|now rewrite Hs].
      rewrite state_of_set_state. destruct (q =? p) eqn:E; [|now rewrite Hs].
      assert (q = p) by lia. subst q. apply recorded_on_dial_failure. now rewrite Hs.
    - destruct (st_on_established (state_of m1 p) c) as [s' acc]. destruct acc; cbn [negb].
      + (* accepted: the outputs contain no reject *)
        intros Hin. exfalso.
        assert (Hfin : forall m4 cancels, (forall o, In o cancels -> exists x y, o = CallCancel x y) ->
                  ~ In (CallReject c t) (snd (est_finish m4 p c t lst f cancels))).
        { intros m4 cancels Hcan. unfold est_finish. destruct f.
          - destruct (do_closed m4 p c). cbn [snd]. rewrite in_app_iff. cbn [In].
            intros [H|[H|[]]]; [|discriminate]. destruct (Hcan _ H) as (x & y & Hx). discriminate.
          - cbn [snd]. rewrite in_app_iff. cbn [In].
            intros [H|[H|[]]]; [|discriminate]. destruct (Hcan _ H) as (x & y & Hx). discriminate. }
        destruct (state_of m1 p) as [r sc|o ts|o|o]; cbv beta iota zeta in Hin;
          try (eapply Hfin; [|exact Hin]; intros o0 []).
        destruct (negb (forallb (installed L) ts)).
        * cbn [snd In] in Hin. destruct Hin as [Hin|[]]. discriminate.
        * eapply Hfin; [|exact Hin]. intros o0 Ho. apply in_map_iff in Ho. destruct Ho as (y & <- & _). eauto.
      + cbn [fst snd]. intros _ Hr. now rewrite Hs. }
  destruct (lookup c (pending m0)) as [dp|].
  - destruct (dp =? p); [exact Hchk|]. cbn [fst snd In]. intros [H|[]]. discriminate.
  - exact Hchk.
Qed.
