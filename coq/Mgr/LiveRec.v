(* Mgr — C05, accept failures: every connection a peer state records as established is a LIVE
   connection of that peer — the converse of Caps.ci_recorded — for EVERY event history the
   environment can produce (Caps.env_ok: connection ids are unique, a close notice names the owner),
   and in particular for histories in which the transport fails to START a connection the manager
   accepted: accept() returns Err (TrEstablished .. accept_fails = true) or the accept future
   resolves to Err (AcceptDone c false). The ledger `live` is the ghost ledger of Caps.v, computed
   from the events and the accept calls only.

   Consequence (no_dead_connection): a peer for which the ledger holds no live connection is not
   recorded as Connected, so dial / dial_address never answer AlreadyConnected for it and the
   handle gate lets the request through: a roll-back that leaves a connection that never started
   in the peer state (the peer would be wedged for ever) is excluded. *)
From Coq Require Import List Arith NArith Bool Lia.
From Coq Require Import ZifyBool ZifyNat ZifyN.
From V.Mgr Require Import DialShape Model Caps.
Import ListNotations.
Open Scope N_scope.

Arguments N.add : simpl never.
Arguments N.eqb : simpl never.
Arguments N.leb : simpl never.
Arguments N.of_nat : simpl never.

(* primary and secondary connection are different connections *)
Definition wf (s : pstate) : Prop :=
  match s with Connected r (Some (SecEst s2)) => r <> s2 | _ => True end.

Record RecInv (m : mgr) (l : live_t) : Prop := {
  ri_live : forall p c, recorded (state_of m p) c -> exists b, lookup c l = Some (p, b);
  ri_wf : forall p, wf (state_of m p)
}.

(* a state without established connections *)
Definition plain_state (s : pstate) : Prop := match s with Connected _ _ => False | _ => True end.

Lemma plain_not_recorded s c : plain_state s -> ~ recorded s c.
Proof. destruct s; cbn; tauto. Qed.
Lemma plain_wf s : plain_state s -> wf s.
Proof. destruct s; cbn; tauto. Qed.

(* ---------- PeerState transitions never invent an established connection ---------- *)
Lemma recorded_dial_failure_inv s c d : recorded (st_on_dial_failure s d) c -> recorded s c.
Proof.
  destruct s as [r [[e|e]|] | o | e | [e|]]; cbn [st_on_dial_failure recorded]; try tauto.
  - destruct (e =? d); cbn [recorded]; [|tauto]. intros [H|H]; [now left | discriminate].
  - destruct (e =? d); cbn [recorded]; tauto.
  - destruct (e =? d); cbn [recorded]; tauto.
Qed.

Lemma wf_dial_failure s d : wf s -> wf (st_on_dial_failure s d).
Proof.
  destruct s as [r [[e|e]|] | o | e | [e|]]; cbn [st_on_dial_failure wf]; try tauto.
  - destruct (e =? d); cbn [wf]; tauto.
  - destruct (e =? d); cbn [wf]; tauto.
  - destruct (e =? d); cbn [wf]; tauto.
Qed.

Lemma recorded_established_inv s c d :
  recorded (fst (st_on_established s d)) c -> c = d \/ recorded s c.
Proof.
  destruct s as [r [[e|e]|] | o ts | e | [e|]]; cbn [st_on_established recorded fst];
    try destruct (e =? d); cbn [fst recorded];
    intros [H|H]; try discriminate; try (injection H as H); subst; auto.
Qed.

Lemma wf_established s d :
  wf s -> ~ recorded s d -> wf (fst (st_on_established s d)).
Proof.
  destruct s as [r [[e|e]|] | o ts | e | [e|]]; cbn [st_on_established recorded wf fst];
    try destruct (e =? d); cbn [fst wf]; try tauto;
    intros _ H Hr; apply H; now left.
Qed.

Lemma recorded_closed_inv s c d :
  wf s -> recorded (fst (st_on_closed s d)) c -> recorded s c /\ c <> d.
Proof.
  destruct s as [r [[e|e]|] | o | e | [e|]]; cbn [st_on_closed recorded wf fst]; try tauto.
  - intros Hw. destruct (r =? d) eqn:E1; cbn [fst recorded].
    + intros [H|H]; [|discriminate]. subst c. split; [now right | lia].
    + destruct (e =? d) eqn:E2; cbn [fst recorded].
      * intros [H|H]; [|discriminate]. subst c. split; [now left | lia].
      * intros [H|H]; [subst c; split; [now left | lia]|].
        injection H as ->. split; [now right | lia].
  - intros _. destruct (r =? d) eqn:E1; cbn [fst recorded]; [tauto|].
    intros [H|H]; [|discriminate]. subst c. split; [now left | lia].
  - intros _. destruct (r =? d) eqn:E1; cbn [fst recorded]; [tauto|].
    intros [H|H]; [|discriminate]. subst c. split; [now left | lia].
Qed.

Lemma wf_closed s d : wf s -> wf (fst (st_on_closed s d)).
Proof.
  destruct s as [r [[e|e]|] | o | e | [e|]]; cbn [st_on_closed wf fst]; try tauto.
  - destruct (r =? d); cbn [fst wf]; [tauto|]. destruct (e =? d); cbn [fst wf]; tauto.
  - destruct (r =? d); cbn [fst wf]; tauto.
  - destruct (r =? d); cbn [fst wf]; tauto.
Qed.

(* ---------- the invariant is preserved ---------- *)
Lemma rec_init : RecInv init [].
Proof. split; cbn; tauto. Qed.

Lemma rec_same_peers m m' l : peers m' = peers m -> RecInv m l -> RecInv m' l.
Proof.
  intros Hp [H1 H2]. split.
  - intros p c. rewrite (state_of_peers m' m p Hp). apply H1.
  - intros p. rewrite (state_of_peers m' m p Hp). apply H2.
Qed.

(* the state of one peer changes to a state that records nothing new *)
Lemma rec_set_state m l p s :
  RecInv m l -> (forall c, recorded s c -> recorded (state_of m p) c) -> wf s ->
  RecInv (set_state m p s) l.
Proof.
  intros [H1 H2] Hs Hw. split.
  - intros q c. rewrite state_of_set_state. destruct (q =? p) eqn:E.
    + assert (q = p) by lia. subst q. intros H. apply H1. now apply Hs.
    + apply H1.
  - intros q. rewrite state_of_set_state. destruct (q =? p); [exact Hw | apply H2].
Qed.

Lemma rec_set_plain m l p s : RecInv m l -> plain_state s -> RecInv (set_state m p s) l.
Proof.
  intros I Hs. apply rec_set_state; [exact I| |now apply plain_wf].
  intros c H. exfalso. exact (plain_not_recorded _ _ Hs H).
Qed.

Lemma rec_add_addr m l p a : RecInv m l -> RecInv (add_addr m p a) l.
Proof. apply rec_same_peers, add_addr_peers. Qed.

Section Preservation.
Variable L : limits.

Lemma rec_dial_peer m l p ts fl : RecInv m l -> RecInv (fst (do_dial_peer L m p ts fl)) l.
Proof.
  intros I. unfold do_dial_peer.
  destruct (limit_reached (max_out L) (outs m)); [exact I|].
  destruct (p =? LOCAL); [exact I|].
  destruct (can_dial (state_of m p)); try exact I.
  destruct (is_nil (addrs_of m p)); [exact I|].
  assert (I1 : RecInv (set_state (bump_conn m) p (Opening (next_conn m) ts)) l).
  { apply rec_set_plain; [|exact Logic.I]. eapply rec_same_peers; [|exact I]. reflexivity. }
  destruct (open_calls L (next_conn m) ts fl) as [calls ok]. destruct ok; cbn [fst]; [|exact I1].
  eapply rec_same_peers; [|exact I1]. reflexivity.
Qed.

Lemma rec_dial_addr m l p t a f : RecInv m l -> RecInv (fst (do_dial_addr L m p t a f)) l.
Proof.
  intros I. unfold do_dial_addr.
  destruct (negb (installed L t)); [exact I|].
  assert (I0 : RecInv (add_addr (bump_conn m) p a) l).
  { apply rec_add_addr. eapply rec_same_peers; [|exact I]. reflexivity. }
  destruct (can_dial (state_of (add_addr (bump_conn m) p a) p)); try exact I0.
  assert (I1 : RecInv (set_state (add_addr (bump_conn m) p a) p (Dialing (next_conn m))) l).
  { apply rec_set_plain; [exact I0 | exact Logic.I]. }
  destruct f; cbn [fst].
  - apply rec_set_plain; [exact I1|]. cbn [st_on_dial_failure].
    destruct (next_conn m =? next_conn m); exact Logic.I.
  - eapply rec_same_peers; [|exact I1]. reflexivity.
Qed.

Lemma rec_dial_shape m l a f : RecInv m l -> RecInv (fst (do_dial_shape L m a f)) l.
Proof.
  intros I. unfold do_dial_shape.
  destruct (limit_reached (max_out L) (outs m)); [exact I|].
  destruct (DialShape.dial_shape LISTEN a); [exact I | now apply rec_dial_addr | now apply rec_dial_addr].
Qed.

Lemma rec_dial_failure m l c t pa : RecInv m l -> RecInv (fst (do_dial_failure m c t pa)) l.
Proof.
  intros I. unfold do_dial_failure.
  assert (I0 : RecInv (add_addr m pa (canon pa t)) l) by now apply rec_add_addr.
  destruct (lookup c (pending (add_addr m pa (canon pa t)))) as [p|]; [|exact I0].
  cbn [fst].
  assert (I1 : RecInv (set_pending (add_addr m pa (canon pa t))
                                   (remove_key c (pending (add_addr m pa (canon pa t))))) l)
    by (eapply rec_same_peers; [|exact I0]; reflexivity).
  apply rec_set_state; [exact I1| |].
  - intros d. apply recorded_dial_failure_inv.
  - apply wf_dial_failure. apply (ri_wf _ _ I1).
Qed.

Lemma rec_opened m l c t f : RecInv m l -> RecInv (fst (do_opened L m c t f)) l.
Proof.
  intros I. unfold do_opened.
  set (me := set_oerrs m (remove_key c (oerrs m))).
  assert (Ie : RecInv me l) by (eapply rec_same_peers; [|exact I]; reflexivity).
  destruct (lookup c (pending me)) as [p|]; [|exact Ie].
  set (m1 := add_addr (set_pending me (remove_key c (pending me))) p (canon p t)).
  assert (I1 : RecInv m1 l).
  { apply rec_add_addr. eapply rec_same_peers; [|exact Ie]. reflexivity. }
  destruct (state_of m1 p) as [r sc|d ts|d|d]; try exact I1.
  assert (I2 : RecInv (set_state m1 p (Dialing c)) l) by (apply rec_set_plain; [exact I1 | exact Logic.I]).
  destruct (negb (forallb (installed L) ts)); [exact I2|].
  destruct f; cbn [fst].
  - apply rec_set_plain; [exact I2 | exact Logic.I].
  - eapply rec_same_peers; [|exact I2]. reflexivity.
Qed.

Lemma rec_open_failure m l c t pa : RecInv m l -> RecInv (fst (do_open_failure m c t pa)) l.
Proof.
  intros I. unfold do_open_failure.
  set (m0 := add_addr m pa (canon pa t)).
  assert (I0 : RecInv m0 l) by now apply rec_add_addr.
  destruct (lookup c (pending m0)) as [p|]; [|exact I0].
  destruct (state_of m0 p) as [r sc|d ts|d|d]; try exact I0.
  destruct (mem t ts); [|exact I0].
  destruct (remove_tr t ts) as [|x r]; cbn [fst].
  - apply (rec_same_peers (set_state m0 p (Disconnected None))); [reflexivity|].
    apply rec_set_plain; [exact I0 | exact Logic.I].
  - apply (rec_same_peers (set_state m0 p (Opening d (x :: r)))); [reflexivity|].
    apply rec_set_plain; [exact I0 | exact Logic.I].
Qed.

(* do_closed removes c from the peer state and (ghost) from the ledger: nothing that is still
   recorded has lost its ledger entry. The connection belongs to p or is not live at all. *)
Lemma rec_closed m l p c :
  RecInv m l ->
  (forall q b, lookup c l = Some (q, b) -> q = p) ->
  RecInv (fst (do_closed m p c)) (remove_key c l).
Proof.
  intros [H1 H2] Hp. unfold do_closed.
  set (m1 := set_limits m (set_remove c (ins m)) (set_remove c (outs m))).
  destruct (st_on_closed (state_of m1 p) c) as [s' rep] eqn:Ec. cbn [fst].
  assert (Hs' : s' = fst (st_on_closed (state_of m p) c)).
  { rewrite (state_of_peers m1 m p eq_refl) in Ec. now rewrite Ec. }
  split.
  - intros q d. rewrite state_of_set_state. destruct (q =? p) eqn:E.
    + assert (q = p) by lia. subst q. rewrite Hs'. intros Hr.
      destruct (recorded_closed_inv _ _ _ (H2 p) Hr) as [Hr0 Hne].
      destruct (H1 _ _ Hr0) as [b Hb]. exists b. rewrite lookup_remove_key.
      assert (d =? c = false) as -> by lia. exact Hb.
    + rewrite (state_of_peers m1 m q eq_refl). intros Hr.
      destruct (H1 _ _ Hr) as [b Hb]. exists b. rewrite lookup_remove_key.
      destruct (d =? c) eqn:E2; [|exact Hb].
      exfalso. assert (d = c) by lia. subst d. specialize (Hp _ _ Hb). lia.
  - intros q. rewrite state_of_set_state. destruct (q =? p) eqn:E.
    + rewrite Hs'. apply wf_closed, H2.
    + rewrite (state_of_peers m1 m q eq_refl). apply H2.
Qed.

Lemma rec_established_checked m1 l p c t (lst f : bool) :
  RecInv m1 l -> lookup c l = None ->
  RecInv (fst (do_established_checked L m1 p c t lst f))
         (if existsb (is_accept c) (snd (do_established_checked L m1 p c t lst f)) && negb f
          then (c, (p, lst)) :: l else l).
Proof.
  intros I Hc. unfold do_established_checked.
  destruct (limit_reached (if lst then max_in L else max_out L) (if lst then ins m1 else outs m1)).
  { cbn [fst snd existsb is_accept andb].
    destruct (existsb (fun kp : N * pstate => fst kp =? p) (peers m1)); [|exact I].
    apply rec_set_state; [exact I| |].
    - intros d. apply recorded_dial_failure_inv.
    - apply wf_dial_failure, (ri_wf _ _ I). }
  destruct (st_on_established (state_of m1 p) c) as [s' accepted] eqn:Est.
  destruct accepted; cbn [negb].
  2:{ cbn [fst snd existsb is_accept andb]. exact I. }
  assert (Hs' : s' = fst (st_on_established (state_of m1 p) c)) by now rewrite Est.
  assert (Hnr : ~ recorded (state_of m1 p) c).
  { intros Hr. destruct (ri_live _ _ I _ _ Hr) as [b Hb]. congruence. }
  set (m2 := set_state m1 p s').
  set (m3 := if lst then set_limits m2 (limit_insert (max_in L) c (ins m2)) (outs m2)
             else set_limits m2 (ins m2) (limit_insert (max_out L) c (outs m2))).
  assert (Hst : forall pend' q, state_of (set_pending m3 pend') q = if q =? p then s' else state_of m1 q).
  { intros pend' q. subst m3 m2. destruct lst; unfold state_of; cbn [set_pending set_limits set_state peers];
      rewrite lookup_insert_key; destruct (q =? p); reflexivity. }
  assert (Hlk : forall d, d <> c -> lookup d ((c, (p, lst)) :: l) = lookup d l).
  { intros d Hd. cbn [lookup]. assert (c =? d = false) as -> by lia. reflexivity. }
  assert (Hlc : lookup c ((c, (p, lst)) :: l) = Some (p, lst)).
  { cbn [lookup]. assert (c =? c = true) as -> by lia. reflexivity. }
  (* the state right after on_connection_established, against the ledger with c *)
  assert (Hcore : forall pend', RecInv (set_pending m3 pend') ((c, (p, lst)) :: l)).
  { intros pend'. destruct I as [H1 H2]. split.
    - intros q d. rewrite Hst. destruct (q =? p) eqn:E.
      + assert (q = p) by lia. subst q. rewrite Hs'. intros Hr.
        destruct (recorded_established_inv _ _ _ Hr) as [->|Hr0]; [exists lst; exact Hlc|].
        destruct (H1 _ _ Hr0) as [b Hb]. exists b. rewrite Hlk; [exact Hb|]. intros ->. congruence.
      + intros Hr. destruct (H1 _ _ Hr) as [b Hb]. exists b. rewrite Hlk; [exact Hb|]. intros ->. congruence.
    - intros q. rewrite Hst. destruct (q =? p) eqn:E; [|apply H2].
      rewrite Hs'. apply wf_established; [apply H2 | exact Hnr]. }
  assert (Hm3 : m3 = set_pending m3 (pending m3)) by (destruct m3; reflexivity).
  assert (Hfinish : forall m4 cancels,
            (exists pend', m4 = set_pending m3 pend') ->
            RecInv (fst (est_finish m4 p c t lst f cancels))
                   (if existsb (is_accept c) (snd (est_finish m4 p c t lst f cancels)) && negb f
                    then (c, (p, lst)) :: l else l)).
  { intros m4 cancels [pend' ->]. unfold est_finish. pose proof (Hcore pend') as J. destruct f.
    - destruct (do_closed (set_pending m3 pend') p c) as [m5 rep] eqn:Ecl. cbn [fst snd negb].
      rewrite andb_false_r.
      assert (Hrm : remove_key c ((c, (p, lst)) :: l) = l).
      { cbn [remove_key]. assert (c =? c = true) as -> by lia. now apply remove_key_notin. }
      assert (K : RecInv (fst (do_closed (set_pending m3 pend') p c)) (remove_key c ((c, (p, lst)) :: l))).
      { apply rec_closed; [exact J|].
        intros q b. cbn [lookup]. assert (c =? c = true) as -> by lia. congruence. }
      rewrite Hrm, Ecl in K. exact K.
    - cbn [fst snd negb]. rewrite andb_true_r.
      assert (existsb (is_accept c) (cancels ++ [CallAccept c t]) = true) as ->.
      { rewrite existsb_app. cbn [existsb is_accept]. assert (c =? c = true) as -> by lia.
        now rewrite orb_true_r. }
      eapply rec_same_peers; [|exact J]. reflexivity. }
  destruct (state_of m1 p) as [r sc|d ts|d|d] eqn:Es; cbv iota beta;
    try (apply Hfinish; exists (pending m3); exact Hm3).
  destruct (negb (forallb (installed L) ts)).
  - cbn [fst snd existsb is_accept andb]. exact I.
  - apply Hfinish. eexists. reflexivity.
Qed.

Lemma rec_established m l p c t (lst f : bool) :
  RecInv m l -> lookup c l = None ->
  RecInv (fst (do_established L m p c t lst f))
         (if existsb (is_accept c) (snd (do_established L m p c t lst f)) && negb f
          then (c, (p, lst)) :: l else l).
Proof.
  intros I Hc. unfold do_established.
  set (me := set_oerrs m (remove_key c (oerrs m))).
  set (m0 := if lst then me else add_addr me p (canon p t)).
  set (m1 := set_pending m0 (remove_key c (pending m0))).
  assert (Ie : RecInv me l) by (eapply rec_same_peers; [|exact I]; reflexivity).
  assert (I0 : RecInv m0 l) by (subst m0; destruct lst; [exact Ie | now apply rec_add_addr]).
  assert (I1 : RecInv m1 l) by (subst m1; eapply rec_same_peers; [|exact I0]; reflexivity).
  destruct (lookup c (pending m0)) as [dp|].
  - destruct (dp =? p).
    + now apply rec_established_checked.
    + cbn [fst snd existsb is_accept andb orb]. exact I1.
  - now apply rec_established_checked.
Qed.

(* the accept future of c resolves; on Err the connection is rolled back. The peer the manager
   rolls back is the owner of c in the ledger (Caps.ci_acc_live) *)
Lemma rec_accept_done m l c ok :
  CapInv L m l -> RecInv m l -> In c (keys (accepting m)) ->
  RecInv (fst (do_accept_done m c ok)) (if ok then l else remove_key c l).
Proof.
  intros C I Hin. unfold do_accept_done.
  destruct (lookup c (accepting m)) as [[p b]|] eqn:Ea.
  2:{ exfalso. exact (lookup_none_keys _ _ Ea Hin). }
  set (m1 := set_accepting m (remove_first c (accepting m))).
  assert (I1 : RecInv m1 l) by (eapply rec_same_peers; [|exact I]; reflexivity).
  destruct ok; cbn [fst]; [exact I1|].
  destruct (do_closed m1 p c) as [m2 rep] eqn:Ec. cbn [fst].
  replace m2 with (fst (do_closed m1 p c)) by now rewrite Ec.
  apply rec_closed; [exact I1|].
  intros q b' Hl. pose proof (ci_acc_live _ _ _ C _ _ _ Ea). congruence.
Qed.

End Preservation.

(* ---------- one step, whole histories ---------- *)
Section Steps.
Variable L : limits.

Lemma rec_hdial_peer m l p ts fl clog : RecInv m l -> RecInv (fst (do_hdial_peer L m p ts fl clog)) l.
Proof.
  intros I. unfold do_hdial_peer. destruct (handle_gate m p); try exact I.
  destruct clog; [exact I|].
  pose proof (rec_dial_peer L m l p ts fl I) as K. destruct (do_dial_peer L m p ts fl) as [m1 os]. exact K.
Qed.

Lemma rec_hdial_addr m l a clog : RecInv m l -> RecInv (fst (do_hdial_addr L m a clog)) l.
Proof.
  intros I. unfold do_hdial_addr. destruct (negb (existsb is_p2p a)); [exact I|].
  destruct clog; [exact I|].
  pose proof (rec_dial_shape L m l a false I) as K. destruct (do_dial_shape L m a false) as [m1 os]. exact K.
Qed.

Theorem rec_step m l e :
  CapInv L m l -> RecInv m l -> env_ok m l e ->
  RecInv (fst (step L m e)) (live_step e (snd (step L m e)) l).
Proof.
  intros C I He.
  destruct e as [p ts fl|p t f|p t|c t pa|c t f|c t pa|p c t lst f|c t|c ok|p c| |a|p ts fl clog|a clog];
    cbn [step live_step env_ok] in *.
  - now apply rec_dial_peer.
  - now apply rec_dial_shape.
  - cbn [fst]. destruct (installed L _); [now apply rec_add_addr | exact I].
  - destruct (installed L t); [now apply rec_dial_failure | exact I].
  - destruct (installed L t); [now apply rec_opened | exact I].
  - destruct (installed L t); [now apply rec_open_failure | exact I].
  - destruct (installed L t); [now apply rec_established | exact I].
  - destruct (installed L t); [|exact I]. destruct (limit_reached (max_in L) (ins m)); exact I.
  - pose proof (rec_accept_done L m l c ok C I He) as K. destruct ok; exact K.
  - destruct He as [He1 He2]. pose proof (rec_closed m l p c I He1) as K.
    destruct (do_closed m p c) as [m1 rep]. exact K.
  - cbn [fst]. eapply rec_same_peers; [|exact I]. reflexivity.
  - now apply rec_dial_shape.
  - now apply rec_hdial_peer.
  - now apply rec_hdial_addr.
Qed.

Theorem rec_run es : forall m l,
  CapInv L m l -> RecInv m l -> env_trace L m l es ->
  RecInv (fst (grun L m l es)) (snd (grun L m l es)).
Proof.
  induction es as [|e t IH]; intros m l C I He; cbn [grun fst snd]; [exact I|].
  destruct He as [He1 He2]. apply IH; [now apply cap_step | now apply rec_step | exact He2].
Qed.

(* a peer without a live connection in the ledger is not recorded as connected: after ANY history
   of the environment — accept failures of either kind included — dial(p) / dial_address do not
   answer AlreadyConnected and the handle gate does not refuse the request *)
Theorem no_dead_connection es p :
  env_trace L init [] es ->
  let '(m, l) := grun L init [] es in
  of_peer p l = [] -> can_dial (state_of m p) <> GateConnected.
Proof.
  intros He. pose proof (rec_run es init [] (cap_init L) rec_init He) as I.
  pose proof (cap_run L es init [] (cap_init L) He) as C.
  destruct (grun L init [] es) as [m l]. cbn [fst snd] in I, C.
  intros Hnone Hg. destruct (state_of m p) as [r sc|d ts|d|[d|]] eqn:Es; cbn [can_dial] in Hg; try discriminate.
  assert (Hr : recorded (state_of m p) r) by (rewrite Es; now left).
  destruct (ri_live _ _ I _ _ Hr) as [b Hb].
  assert (Hin : In (r, (p, b)) (of_peer p l)).
  { unfold of_peer. apply filter_In. split; [|cbn [snd fst]; lia].
    clear -Hb. induction l as [|[k v] t IH]; cbn [lookup] in Hb; [discriminate|].
    destruct (k =? r) eqn:E; [injection Hb as ->; left; f_equal; lia | right; exact (IH Hb)]. }
  rewrite Hnone in Hin. destruct Hin.
Qed.

(* the two roll-backs, each as one step from any state the invariants allow: after the transport
   failed to start the connection the peer state does not record it *)
Theorem accept_failure_not_recorded m l p c t lst :
  CapInv L m l -> RecInv m l -> lookup c l = None ->
  ~ recorded (state_of (fst (step L m (TrEstablished p c t lst true))) p) c.
Proof.
  intros C I Hc Hr.
  assert (He : env_ok m l (TrEstablished p c t lst true)) by exact Hc.
  pose proof (rec_step m l _ C I He) as K. cbn [live_step] in K. rewrite andb_false_r in K.
  destruct (ri_live _ _ K _ _ Hr) as [b Hb]. congruence.
Qed.

Theorem accept_future_failure_not_recorded m l c p b :
  CapInv L m l -> RecInv m l -> lookup c (accepting m) = Some (p, b) ->
  ~ recorded (state_of (fst (step L m (AcceptDone c false))) p) c.
Proof.
  intros C I Ha Hr.
  assert (He : env_ok m l (AcceptDone c false)) by (cbn [env_ok]; eapply lookup_in_keys; exact Ha).
  pose proof (rec_step m l _ C I He) as K. cbn [live_step] in K.
  destruct (ri_live _ _ K _ _ Hr) as [b' Hb]. rewrite lookup_remove_key in Hb.
  assert (c =? c = true) as E by lia. rewrite E in Hb. discriminate.
Qed.

End Steps.
