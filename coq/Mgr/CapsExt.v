(* Mgr/CapsExt — C06, second layer over Caps.v: the complete accept / reject decision of an
   established connection, "rejected = nothing reserved", "the gates refuse exactly when the
   direction is full", and "a close frees the slot". New lemmas only; Caps.v is unchanged. *)
From Coq Require Import List Arith NArith Bool Lia.
From Coq Require Import ZifyBool ZifyNat ZifyN.
From V.Mgr Require Import DialShape Model Caps.
Import ListNotations.
Open Scope N_scope.

Arguments N.add : simpl never.
Arguments N.sub : simpl never.
Arguments N.eqb : simpl never.
Arguments N.leb : simpl never.
Arguments N.of_nat : simpl never.

(* ---------- the per-peer rule on the address-free state ---------- *)
Theorem st_refused_iff s c :
  snd (st_on_established s c) = false <->
  (exists r d, s = Connected r (Some (SecEst d))) \/
  (exists r d, s = Connected r (Some (SecDial d)) /\ d <> c).
Proof.
  destruct s as [r [[s2|d]|]|d ts|d|[d|]]; cbn [st_on_established snd].
  - split; [intros _; left; eauto | reflexivity].
  - destruct (d =? c) eqn:E; cbn [snd]; split; intros H; try discriminate; try reflexivity.
    + destruct H as [(r' & d' & H)|(r' & d' & H & K)]; [discriminate|]. injection H as -> ->. lia.
    + right. exists r, d. split; [reflexivity|lia].
  - split; [discriminate|]. intros [(r' & d' & H)|(r' & d' & H & _)]; discriminate.
  - split; [discriminate|]. intros [(r' & d' & H)|(r' & d' & H & _)]; discriminate.
  - destruct (d =? c); cbn [snd]; (split; [discriminate|]);
      intros [(r' & d' & H)|(r' & d' & H & _)]; discriminate.
  - destruct (d =? c); cbn [snd]; (split; [discriminate|]);
      intros [(r' & d' & H)|(r' & d' & H & _)]; discriminate.
  - split; [discriminate|]. intros [(r' & d' & H)|(r' & d' & H & _)]; discriminate.
Qed.

(* a peer the node is not connected to passes the per-peer rule, whatever dial is in flight *)
Lemma st_accepts_unconnected s c : can_dial s <> GateConnected -> snd (st_on_established s c) = true.
Proof.
  destruct s as [r sc|d ts|d|[d|]]; cbn [can_dial st_on_established snd]; try reflexivity.
  - intros H. now contradiction H.
  - intros _. destruct (d =? c); reflexivity.
  - intros _. destruct (d =? c); reflexivity.
Qed.

(* ---------- the outputs of on_connection_established, completely ---------- *)
Definition dir_full (L : limits) (m : mgr) (lst : bool) : bool :=
  limit_reached (if lst then max_in L else max_out L) (if lst then ins m else outs m).

Lemma est_finish_outs m4 p c t lst f cancels :
  snd (est_finish m4 p c t lst f cancels) = cancels ++ [CallAccept c t].
Proof. unfold est_finish. destruct f; [destruct (do_closed m4 p c)|]; reflexivity. Qed.

Lemma checked_outs L m1 p c t (lst f : bool) :
  snd (do_established_checked L m1 p c t lst f) =
  if dir_full L m1 lst then [CallReject c t]
  else if negb (snd (st_on_established (state_of m1 p) c)) then [CallReject c t]
  else match state_of m1 p with
       | Opening d ts => if negb (forallb (installed L) ts) then [Stuck 4]
                         else map (CallCancel d) ts ++ [CallAccept c t]
       | _ => [CallAccept c t]
       end.
Proof.
  unfold do_established_checked, dir_full. destruct (limit_reached _ _); [reflexivity|].
  destruct (st_on_established (state_of m1 p) c) as [s' acc]. cbn [snd]. destruct acc; cbn [negb]; [|reflexivity].
  destruct (state_of m1 p) as [r sc|d ts|d|d]; try apply est_finish_outs.
  destruct (negb _); [reflexivity | apply est_finish_outs].
Qed.

Section Est.
Variables (L : limits) (m : mgr) (p : peer) (c : conn) (t : tr) (lst f : bool).

Let me_ := set_oerrs m (remove_key c (oerrs m)).
Let m0_ := if lst then me_ else add_addr me_ p (canon p t).
Let m1_ := set_pending m0_ (remove_key c (pending m0_)).

Lemma est_m1_state q : state_of m1_ q = state_of m q.
Proof.
  apply state_of_peers. unfold m1_, m0_, me_. destruct lst; cbn [set_pending peers];
    [reflexivity | now rewrite add_addr_peers].
Qed.
Lemma est_m1_ins : ins m1_ = ins m.
Proof. unfold m1_, m0_, me_. destruct lst; cbn [set_pending ins]; [reflexivity | now rewrite add_addr_ins]. Qed.
Lemma est_m1_outs : outs m1_ = outs m.
Proof. unfold m1_, m0_, me_. destruct lst; cbn [set_pending outs]; [reflexivity | now rewrite add_addr_outs]. Qed.
Lemma est_m0_pending : pending m0_ = pending m.
Proof. unfold m0_, me_. destruct lst; [reflexivity | now rewrite add_addr_pending]. Qed.
Lemma est_full : dir_full L m1_ lst = dir_full L m lst.
Proof. unfold dir_full. now rewrite est_m1_ins, est_m1_outs. Qed.

Hypothesis Hpend : forall q, lookup c (pending m) = Some q -> q = p.

Lemma est_is_checked :
  do_established L m p c t lst f = do_established_checked L m1_ p c t lst f.
Proof.
  unfold do_established. fold me_. fold m0_. fold m1_. rewrite est_m0_pending.
  destruct (lookup c (pending m)) as [dp|] eqn:E; [|reflexivity].
  rewrite (Hpend dp eq_refl). assert (p =? p = true) as -> by lia. reflexivity.
Qed.

Lemma est_outs :
  snd (do_established L m p c t lst f) =
  if dir_full L m lst then [CallReject c t]
  else if negb (snd (st_on_established (state_of m p) c)) then [CallReject c t]
  else match state_of m p with
       | Opening d ts => if negb (forallb (installed L) ts) then [Stuck 4]
                         else map (CallCancel d) ts ++ [CallAccept c t]
       | _ => [CallAccept c t]
       end.
Proof. rewrite est_is_checked, checked_outs, est_full, est_m1_state. reflexivity. Qed.

Lemma not_in_cancels (o : out) d ts : In o (map (CallCancel d) ts) -> exists y, o = CallCancel d y.
Proof. intros H. apply in_map_iff in H. destruct H as (y & <- & _). eauto. Qed.

Hypothesis Hopen : forall d ts, state_of m p = Opening d ts -> forallb (installed L) ts = true.

(* The complete decision: accepted exactly when the direction is below its maximum AND the per-peer
   rule admits the connection; rejected exactly otherwise; always one of the two. *)
Theorem established_decision :
  let os := snd (do_established L m p c t lst f) in
  let ok := snd (st_on_established (state_of m p) c) in
  (In (CallAccept c t) os <-> dir_full L m lst = false /\ ok = true) /\
  (In (CallReject c t) os <-> dir_full L m lst = true \/ ok = false).
Proof.
  cbv zeta. rewrite est_outs.
  destruct (dir_full L m lst).
  - split; split.
    + intros [H|[]]; discriminate.
    + intros [H _]; discriminate.
    + intros _. now left.
    + intros _. now left.
  - destruct (snd (st_on_established (state_of m p) c)) eqn:A; cbn [negb].
    + assert (K : forall os', (os' = [CallAccept c t] \/ exists d ts, os' = map (CallCancel d) ts ++ [CallAccept c t]) ->
                  (In (CallAccept c t) os' <-> false = false /\ true = true) /\
                  (In (CallReject c t) os' <-> false = true \/ true = false)).
      { intros os' [->|(d & ts & ->)]; split; split; try (intros [H|H]; discriminate); try tauto.
        - intros _. now left.
        - intros [H|[]]. discriminate.
        - intros _. apply in_or_app. right. now left.
        - intros H. apply in_app_or in H. destruct H as [H|[H|[]]]; [|discriminate].
          apply not_in_cancels in H. destruct H as [y H]. discriminate. }
      destruct (state_of m p) as [r sc|d ts|d|d] eqn:S; try (apply K; now left).
      rewrite (Hopen d ts eq_refl). cbn [negb]. apply K. right. eauto.
    + split; split.
      * intros [H|[]]; discriminate.
      * intros [_ H]; discriminate.
      * intros _. now right.
      * intros _. now left.
Qed.

(* every established connection is answered, by exactly one of accept / reject *)
Theorem established_answered_once :
  let os := snd (do_established L m p c t lst f) in
  (In (CallAccept c t) os \/ In (CallReject c t) os) /\ ~ (In (CallAccept c t) os /\ In (CallReject c t) os).
Proof.
  pose proof established_decision as [A B]. cbv zeta in *.
  destruct (dir_full L m lst); destruct (snd (st_on_established (state_of m p) c)).
  - split; [right; apply B; now left|]. intros [H _]. apply A in H. destruct H; discriminate.
  - split; [right; apply B; now left|]. intros [H _]. apply A in H. destruct H; discriminate.
  - split; [left; apply A; split; reflexivity|]. intros [_ H]. apply B in H. destruct H; discriminate.
  - split; [right; apply B; now right|]. intros [H _]. apply A in H. destruct H; discriminate.
Qed.

(* a rejected connection reserves nothing: both counted sets are exactly what they were *)
Theorem reject_reserves_nothing :
  In (CallReject c t) (snd (do_established L m p c t lst f)) ->
  ins (fst (do_established L m p c t lst f)) = ins m /\ outs (fst (do_established L m p c t lst f)) = outs m.
Proof.
  intros H. pose proof established_decision as [_ D]. cbv zeta in D. apply D in H. clear D.
  rewrite est_is_checked. unfold do_established_checked. fold (dir_full L m1_ lst). rewrite est_full.
  destruct (dir_full L m lst).
  - cbn [fst]. destruct (existsb _ _); cbn [set_state ins outs]; now rewrite est_m1_ins, est_m1_outs.
  - destruct H as [H|H]; [discriminate|]. rewrite est_m1_state.
    destruct (st_on_established (state_of m p) c) as [s' acc]. cbn [snd] in H. subst acc.
    cbn [negb fst]. now rewrite est_m1_ins, est_m1_outs.
Qed.

(* below the maximum of its direction, a connection of a peer the node is not connected to is
   accepted whatever the peer's dial state is (idle, dialing, opening, a remembered dial) *)
Theorem not_connected_accepted :
  dir_full L m lst = false -> can_dial (state_of m p) <> GateConnected ->
  In (CallAccept c t) (snd (do_established L m p c t lst f)).
Proof.
  intros F G. pose proof established_decision as [D _]. cbv zeta in D. apply D.
  split; [exact F | now apply st_accepts_unconnected].
Qed.

End Est.

(* ---------- the gates refuse exactly when the direction is full ---------- *)
Section Full.
Variable L : limits.

Lemma of_dir_keys_in d l c : In c (keys (of_dir d l)) -> exists q, In (c, (q, d)) l.
Proof.
  intros Hc. unfold keys in Hc. apply in_map_iff in Hc. destruct Hc as ([c0 [q b]] & E & Hin).
  cbn [fst] in E. subst c0. unfold of_dir in Hin. apply filter_In in Hin. destruct Hin as [Hin Hb].
  cbn [snd] in Hb. apply Bool.eqb_prop in Hb. subst b. eauto.
Qed.

Lemma lookup_in {A} k (v : A) l : lookup k l = Some v -> In (k, v) l.
Proof.
  induction l as [|[k0 v0] t IH]; cbn [lookup]; [discriminate|].
  destruct (k0 =? k) eqn:E; intros H.
  - injection H as ->. assert (k0 = k) by lia. subst. now left.
  - right. auto.
Qed.

Lemma in_of_dir d l c q : In (c, (q, d)) l -> In c (keys (of_dir d l)).
Proof.
  intros H. unfold keys. apply in_map_iff. exists (c, (q, d)). split; [reflexivity|].
  unfold of_dir. apply filter_In. split; [exact H|]. cbn [snd]. apply eqb_reflx.
Qed.

(* the counted set of a limited direction has exactly as many members as there are established
   connections of that direction *)
Lemma counted_eq_live m l :
  CapInv L m l ->
  (forall mx, max_in L = Some mx -> card (ins m) = N.of_nat (length (of_dir true l))) /\
  (forall mx, max_out L = Some mx -> card (outs m) = N.of_nat (length (of_dir false l))).
Proof.
  intros [H1 H2 H3 H4 H5 H6 H7 H8 H9 H10 H11 H12].
  assert (G : forall d (S : list conn), NoDup S ->
            (forall c, In c S -> exists q, lookup c l = Some (q, d)) ->
            (forall c q, lookup c l = Some (q, d) -> In c S) ->
            card S = N.of_nat (length (of_dir d l))).
  { intros d S ND A B.
    assert (NK : NoDup (keys (of_dir d l))) by now apply nodup_keys_filter.
    assert (I1 : incl S (keys (of_dir d l))).
    { intros c Hc. destruct (A c Hc) as [q Hq]. eapply in_of_dir. eapply lookup_in. exact Hq. }
    assert (I2 : incl (keys (of_dir d l)) S).
    { intros c Hc. destruct (of_dir_keys_in d l c Hc) as [q Hq]. apply (B c q). now apply in_lookup_nodup. }
    pose proof (NoDup_incl_length ND I1) as L1. pose proof (NoDup_incl_length NK I2) as L2.
    assert (EL : length (keys (of_dir d l)) = length (of_dir d l)) by apply map_length.
    unfold card, conn in *. lia. }
  split; intros mx Hm.
  - apply G; [exact H5 | exact H3 | intros c q; apply (H9 mx c q Hm)].
  - apply G; [exact H6 | exact H4 | intros c q; apply (H10 mx c q Hm)].
Qed.

(* a gate (pending inbound socket, established connection of either direction, dial request)
   reports "limit reached" exactly when the number of established connections of that direction
   equals the configured maximum — never earlier, and the count is never larger *)
Theorem full_iff m l lst :
  CapInv L m l ->
  (dir_full L m lst = true <->
   exists mx, (if lst then max_in L else max_out L) = Some mx /\ N.of_nat (length (of_dir lst l)) = mx).
Proof.
  intros I. pose proof (counted_eq_live m l I) as [E1 E2]. pose proof (limits_hold L m l I) as [B1 B2].
  unfold dir_full. destruct lst.
  - destruct (max_in L) as [mx|] eqn:M; cbn [limit_reached].
    + rewrite (E1 mx eq_refl). specialize (B1 mx eq_refl). split.
      * intros H. exists mx. split; [reflexivity|lia].
      * intros (mx' & H & K). injection H as <-. lia.
    + split; [discriminate|]. intros (mx' & H & _). discriminate.
  - destruct (max_out L) as [mx|] eqn:M; cbn [limit_reached].
    + rewrite (E2 mx eq_refl). specialize (B2 mx eq_refl). split.
      * intros H. exists mx. split; [reflexivity|lia].
      * intros (mx' & H & K). injection H as <-. lia.
    + split; [discriminate|]. intros (mx' & H & _). discriminate.
Qed.

(* ---------- a close frees the slot ---------- *)
Lemma card_set_remove_in c S : NoDup S -> In c S -> card (set_remove c S) + 1 = card S.
Proof.
  unfold card, set_remove. induction S as [|x t IH]; intros ND H; [destruct H|].
  inversion ND as [|? ? N1 N2]; subst. cbn [filter].
  destruct (x =? c) eqn:E; cbn [negb].
  - assert (x = c) by lia. subst x.
    assert (F : filter (fun y => negb (y =? c)) t = t).
    { clear -N1. induction t as [|y u IHu]; [reflexivity|]. cbn [filter].
      destruct (y =? c) eqn:E; cbn [negb].
      - exfalso. apply N1. left. lia.
      - f_equal. apply IHu. intros K. apply N1. now right. }
    rewrite F. cbn [length]. lia.
  - destruct H as [H|H]; [lia|]. cbn [length]. specialize (IH N2 H). lia.
Qed.

(* when a counted connection closes its direction is below the maximum afterwards: the next pending
   inbound socket / dial / established connection of a new peer is not refused for the limit *)
Theorem closed_frees_slot m l p c q lst :
  CapInv L m l -> lookup c l = Some (q, lst) ->
  dir_full L (fst (do_closed m p c)) lst = false.
Proof.
  intros I Hl. destruct I as [H1 H2 H3 H4 H5 H6 H7 H8 H9 H10 H11 H12].
  unfold do_closed. destruct (st_on_closed _ _) as [s' rep]. cbn [fst].
  unfold dir_full. cbn [set_state set_limits ins outs]. destruct lst.
  - destruct (max_in L) as [mx|] eqn:M; cbn [limit_reached]; [|reflexivity].
    pose proof (card_set_remove_in c (ins m) H5 (H9 mx c q eq_refl Hl)). specialize (H7 mx eq_refl). lia.
  - destruct (max_out L) as [mx|] eqn:M; cbn [limit_reached]; [|reflexivity].
    pose proof (card_set_remove_in c (outs m) H6 (H10 mx c q eq_refl Hl)). specialize (H8 mx eq_refl). lia.
Qed.

(* a close of something that is not counted changes neither set *)
Lemma set_remove_notin c S : ~ In c S -> set_remove c S = S.
Proof.
  unfold set_remove. induction S as [|x t IH]; intros H; [reflexivity|]. cbn [filter].
  destruct (x =? c) eqn:E; cbn [negb].
  - exfalso. apply H. left. lia.
  - f_equal. apply IH. intros K. apply H. now right.
Qed.

Theorem uncounted_close_keeps m l p c :
  CapInv L m l -> lookup c l = None ->
  ins (fst (do_closed m p c)) = ins m /\ outs (fst (do_closed m p c)) = outs m.
Proof.
  intros I Hl. destruct I as [H1 H2 H3 H4 _ _ _ _ _ _ _ _].
  unfold do_closed. destruct (st_on_closed _ _) as [s' rep]. cbn [fst set_state set_limits ins outs].
  split; apply set_remove_notin; intros K.
  - destruct (H3 c K) as [x Hx]. congruence.
  - destruct (H4 c K) as [x Hx]. congruence.
Qed.

End Full.
