(* Mgr/CapsLedger — C06 on top of C05's ledger invariant (LedgerInv.v): the two side conditions of
   the accept / reject decision (CapsExt.established_decision) hold in every state the manager can
   reach when the transports keep their contract, so the decision theorem holds there without
   hypotheses about the state. New lemmas only. *)
From Coq Require Import List Arith NArith Bool Lia.
From V.Mgr Require Import DialShape Model Caps Ledger LedgerInv CapsExt.
Import ListNotations.
Open Scope N_scope.

Lemma hpend_of_linv L m g p c t lst f :
  LInv L m g -> feas L m g (TrEstablished p c t lst f) ->
  forall q, lookup c (pending m) = Some q -> q = p.
Proof.
  intros I F q Hq. destruct (li_pending L m g I c q Hq) as (_ & Ha & _ & _).
  cbn [feas] in F. destruct F as (_ & _ & F). destruct lst.
  - exfalso. destruct (li_inb L m g I c F) as (N & _ & _). apply N. eapply lookup_in_keys. exact Ha.
  - destruct F as [_ F]. congruence.
Qed.

Lemma hopen_of_linv L m g p d ts :
  LInv L m g -> state_of m p = Opening d ts -> forallb (installed L) ts = true.
Proof.
  intros I S. apply forallb_forall. intros t Ht.
  assert (R : dial_record (state_of m p) = Some d) by (rewrite S; reflexivity).
  pose proof (li_record L m g I p d R) as Hp.
  destruct (li_pending L m g I d p Hp) as (_ & _ & _ & Ho).
  apply (li_open_inst L m g I d t). apply Ho. rewrite S. exact Ht.
Qed.

(* In every state satisfying the ledger invariant and for every established connection the
   transports may deliver there: accept exactly when the direction is below its maximum and the
   per-peer rule admits the connection, reject exactly otherwise, and a reject reserves nothing. *)
Theorem decision_under_contract L m g p c t (lst f : bool) :
  LInv L m g -> feas L m g (TrEstablished p c t lst f) ->
  let os := snd (do_established L m p c t lst f) in
  let ok := snd (st_on_established (state_of m p) c) in
  (In (CallAccept c t) os <-> dir_full L m lst = false /\ ok = true) /\
  (In (CallReject c t) os <-> dir_full L m lst = true \/ ok = false) /\
  (In (CallReject c t) os ->
   ins (fst (do_established L m p c t lst f)) = ins m /\ outs (fst (do_established L m p c t lst f)) = outs m).
Proof.
  intros I F.
  pose proof (hpend_of_linv L m g p c t lst f I F) as HP.
  assert (HO : forall d ts, state_of m p = Opening d ts -> forallb (installed L) ts = true)
    by (intros d ts; apply (hopen_of_linv L m g p d ts I)).
  pose proof (established_decision L m p c t lst f HP HO) as [A B]. cbv zeta in *.
  split; [exact A|]. split; [exact B|].
  exact (reject_reserves_nothing L m p c t lst f HP HO).
Qed.

Theorem answered_once_reachable L m g p c t (lst f : bool) :
  Reach L m g -> feas L m g (TrEstablished p c t lst f) ->
  let os := snd (do_established L m p c t lst f) in
  (In (CallAccept c t) os \/ In (CallReject c t) os) /\ ~ (In (CallAccept c t) os /\ In (CallReject c t) os).
Proof.
  intros R F. pose proof (reach_linv L m g R) as I.
  apply established_answered_once.
  - exact (hpend_of_linv L m g p c t lst f I F).
  - intros d ts. apply (hopen_of_linv L m g p d ts I).
Qed.

Theorem decision_reachable L m g p c t (lst f : bool) :
  Reach L m g -> feas L m g (TrEstablished p c t lst f) ->
  let os := snd (do_established L m p c t lst f) in
  let ok := snd (st_on_established (state_of m p) c) in
  (In (CallAccept c t) os <-> dir_full L m lst = false /\ ok = true) /\
  (In (CallReject c t) os <-> dir_full L m lst = true \/ ok = false) /\
  (In (CallReject c t) os ->
   ins (fst (do_established L m p c t lst f)) = ins m /\ outs (fst (do_established L m p c t lst f)) = outs m).
Proof. intros R. apply decision_under_contract. now apply reach_linv. Qed.
