(* Mgr — where the calls of the manager model come from: which connection ids they name, which
   event produces which call, and how the shared id counter moves. Used by the composition with
   the TCP transport model (coq/C05/TcpCompose.v). *)
From Coq Require Import List Arith NArith Bool Lia.
From Coq Require Import ZifyBool ZifyNat ZifyN.
From V.Mgr Require Import DialShape Model Caps Ledger LedgerInv.
Import ListNotations.
Open Scope N_scope.

Arguments N.add : simpl never.
Arguments N.eqb : simpl never.
Arguments N.leb : simpl never.
Arguments N.ltb : simpl never.
Arguments N.of_nat : simpl never.

(* provenance of one output of the step that handles e in state m *)
Definition prov (m : mgr) (e : ev) (o : out) : Prop :=
  match o with
  | CallOpen x _ | CallDial x _ => x = next_conn m     (* a fresh id, drawn from the counter in this step *)
  | CallCancel d t => exists p ts, state_of m p = Opening d ts /\ In t ts
  | CallNegotiate x t =>
      exists c f p ts, e = TrOpened c t f /\ lookup c (pending m) = Some p /\ state_of m p = Opening x ts
  | CallAcceptPending x t | CallRejectPending x t => e = TrPendingInbound x t
  | CallAccept x t | CallReject x t => exists p l f, e = TrEstablished p x t l f
  | _ => True
  end.

Lemma prov_demote m e e' os :
  (forall o, In o os -> match o with CallOpen _ _ | CallDial _ _ | Ret _ | Logged _ => True | _ => False end) ->
  Forall (prov m e) os -> Forall (prov m e') (map demote os).
Proof.
  intros Hk H. induction H as [|o r Ho Hr IH]; cbn [map]; constructor.
  - specialize (Hk o (or_introl eq_refl)). destruct o; cbn [demote prov] in *; try contradiction; auto.
  - apply IH. intros o' Ho'. apply Hk. now right.
Qed.

Lemma open_calls_prov L m e ts fl : Forall (prov m e) (fst (open_calls L (next_conn m) ts fl)).
Proof.
  induction ts as [|t r IH]; cbn [open_calls fst]; [constructor|].
  destruct (installed L t); [|exact IH]. destruct (mem t fl); cbn [fst]; [repeat constructor|].
  destruct (open_calls L (next_conn m) r fl) as [os ok]. cbn [fst] in *. constructor; [reflexivity | exact IH].
Qed.

Lemma open_calls_kinds L c ts fl o :
  In o (fst (open_calls L c ts fl)) -> match o with CallOpen _ _ => True | _ => False end.
Proof.
  induction ts as [|t r IH]; cbn [open_calls fst]; [intros []|].
  destruct (installed L t); [|exact IH]. destruct (mem t fl); cbn [fst In]; [intros [<-|[]]; exact I|].
  destruct (open_calls L c r fl) as [os ok]. cbn [fst In] in *. intros [<-|H]; [exact I | exact (IH H)].
Qed.

Ltac prov_list := repeat first [apply Forall_nil | apply Forall_cons; [cbn [prov]; try exact Logic.I; try reflexivity|]].

Lemma dial_peer_prov L m e p ts fl : Forall (prov m e) (snd (do_dial_peer L m p ts fl)).
Proof.
  unfold do_dial_peer. destruct (limit_reached _ _); [prov_list|]. destruct (p =? LOCAL); [prov_list|].
  destruct (can_dial _); try prov_list. destruct (is_nil _); [prov_list|].
  pose proof (open_calls_prov L m e ts fl) as H.
  destruct (open_calls L (next_conn m) ts fl) as [calls ok]. cbn [fst] in H.
  destruct ok; cbn [snd]; apply Forall_app; split; try exact H; prov_list.
Qed.

Lemma dial_peer_kinds L m p ts fl o :
  In o (snd (do_dial_peer L m p ts fl)) ->
  match o with CallOpen _ _ | CallDial _ _ | Ret _ | Logged _ => True | _ => False end.
Proof.
  unfold do_dial_peer. destruct (limit_reached _ _); [intros [<-|[]]; exact I|]. destruct (p =? LOCAL); [intros [<-|[]]; exact I|].
  destruct (can_dial _); try (intros [<-|[]]; exact I). destruct (is_nil _); [intros [<-|[]]; exact I|].
  pose proof (open_calls_kinds L (next_conn m) ts fl o) as H.
  destruct (open_calls L (next_conn m) ts fl) as [calls ok]. cbn [fst] in H.
  destruct ok; cbn [snd]; rewrite in_app_iff; cbn [In]; intros [Hin|[<-|[]]]; try exact I;
    specialize (H Hin); destruct o; try contradiction; exact I.
Qed.

Lemma dial_addr_prov L m e p t a f : Forall (prov m e) (snd (do_dial_addr L m p t a f)).
Proof.
  unfold do_dial_addr. destruct (negb _); [prov_list|].
  destruct (can_dial _); try prov_list. destruct f; prov_list.
Qed.

Lemma dial_shape_prov L m e a f : Forall (prov m e) (snd (do_dial_shape L m a f)).
Proof.
  unfold do_dial_shape. destruct (limit_reached _ _); [prov_list|].
  destruct (dial_shape LISTEN a); [prov_list | apply dial_addr_prov | apply dial_addr_prov].
Qed.

Lemma dial_shape_kinds L m a f o :
  In o (snd (do_dial_shape L m a f)) ->
  match o with CallOpen _ _ | CallDial _ _ | Ret _ | Logged _ => True | _ => False end.
Proof.
  assert (Hd : forall p t, In o (snd (do_dial_addr L m p t a f)) ->
               match o with CallOpen _ _ | CallDial _ _ | Ret _ | Logged _ => True | _ => False end).
  { intros p t. unfold do_dial_addr. destruct (negb _); [intros [<-|[]]; exact I|].
    destruct (can_dial _); try (intros [<-|[]]; exact I). destruct f; intros [<-|[<-|[]]]; exact I. }
  unfold do_dial_shape. destruct (limit_reached _ _); [intros [<-|[]]; exact I|].
  destruct (dial_shape LISTEN a); [intros [<-|[]]; exact I | apply Hd | apply Hd].
Qed.

Lemma cancels_prov m e p d ts : state_of m p = Opening d ts -> Forall (prov m e) (map (CallCancel d) ts).
Proof.
  intros Hs. apply Forall_forall. intros o Ho. apply in_map_iff in Ho. destruct Ho as (t & <- & Ht).
  cbn [prov]. eauto.
Qed.

Lemma est_finish_prov m e m4 p c t lst f cancels :
  e = TrEstablished p c t lst f -> Forall (prov m e) cancels ->
  Forall (prov m e) (snd (est_finish m4 p c t lst f cancels)).
Proof.
  intros He Hc. unfold est_finish. destruct f.
  - destruct (do_closed m4 p c). cbn [snd]. apply Forall_app. split; [exact Hc|].
    constructor; [cbn [prov]; eauto | constructor].
  - cbn [snd]. apply Forall_app. split; [exact Hc|]. constructor; [cbn [prov]; eauto | constructor].
Qed.

(* every call names what its event / the peer state says *)
Theorem step_prov L m e : Forall (prov m e) (snd (step L m e)).
Proof.
  destruct e as [p ts fl|p t f|p t|c t pa|c t f|c t pa|p c t lst f|c t|c ok|p c| |a|p ts fl clog|a clog];
    cbn [step].
  - apply dial_peer_prov.
  - apply dial_shape_prov.
  - constructor.
  - destruct (installed L t); [|constructor]. unfold do_dial_failure. destruct (lookup c _); cbn [snd]; prov_list.
  - destruct (installed L t); [|constructor]. unfold do_opened. cbn [set_oerrs pending].
    destruct (lookup c (pending m)) as [p|] eqn:El; [|cbn [snd]; prov_list].
    rewrite so_add_addr, so_pending, so_oerrs.
    destruct (state_of m p) as [r sc|d ts|d|d] eqn:Es; try (cbn [snd]; constructor).
    destruct (negb (forallb (installed L) ts)); [cbn [snd]; prov_list|].
    destruct f; cbn [snd]; (apply Forall_app; split; [now apply (cancels_prov m _ p)|]);
      (constructor; [cbn [prov]; exists c; eauto 10 | constructor]).
  - destruct (installed L t); [|constructor]. unfold do_open_failure.
    destruct (lookup c _); [|constructor]. destruct (state_of _ _); try constructor.
    destruct (mem t _); [|constructor]. destruct (remove_tr t _); cbn [snd]; prov_list.
  - destruct (installed L t); [|constructor]. unfold do_established.
    set (me := set_oerrs m (remove_key c (oerrs m))).
    set (m0 := if lst then me else add_addr me p (canon p t)).
    assert (Hst : forall pd q, state_of (set_pending m0 pd) q = state_of m q).
    { intros pd q. rewrite so_pending. subst m0 me. destruct lst; [reflexivity | now rewrite so_add_addr]. }
    assert (Hchk : forall pd, Forall (prov m (TrEstablished p c t lst f))
                                (snd (do_established_checked L (set_pending m0 pd) p c t lst f))).
    { intros pd. unfold do_established_checked.
      destruct (limit_reached _ _); [cbn [snd]; constructor; [cbn [prov]; eauto | constructor]|].
      rewrite Hst. destruct (st_on_established (state_of m p) c) as [s' acc]. destruct acc; cbn [negb].
      2:{ cbn [snd]. constructor; [cbn [prov]; eauto | constructor]. }
      destruct (state_of m p) as [r sc|d ts|d|d] eqn:Es; cbv beta iota zeta;
        try (apply est_finish_prov; [reflexivity | constructor]).
      destruct (negb (forallb (installed L) ts)); [cbn [snd]; prov_list|].
      apply est_finish_prov; [reflexivity | now apply (cancels_prov m _ p)]. }
    destruct (lookup c (pending m0)) as [dp|]; [destruct (dp =? p)|]; try apply Hchk. cbn [snd]. prov_list.
  - destruct (installed L t); [|constructor]. destruct (limit_reached _ _); cbn [snd]; prov_list.
  - unfold do_accept_done. destruct (lookup c _) as [[q b]|]; [|constructor].
    destruct ok; cbn [snd]; [prov_list|]. destruct (do_closed _ q c). constructor.
  - destruct (do_closed m p c) as [m1 rep]. destruct rep; cbn [snd]; prov_list.
  - cbn [snd]. prov_list.
  - apply dial_shape_prov.
  - unfold do_hdial_peer. destruct (handle_gate m p); try (cbn [snd]; prov_list).
    destruct clog; [cbn [snd]; prov_list|].
    pose proof (dial_peer_prov L m (CmdDialPeer p ts fl) p ts fl) as H.
    pose proof (dial_peer_kinds L m p ts fl) as K.
    destruct (do_dial_peer L m p ts fl) as [m1 os]. cbn [snd] in *.
    constructor; [exact Logic.I|]. eapply prov_demote; [exact K | exact H].
  - unfold do_hdial_addr. destruct (negb _); [cbn [snd]; prov_list|]. destruct clog; [cbn [snd]; prov_list|].
    pose proof (dial_shape_prov L m (CmdDialShape a) a false) as H.
    pose proof (dial_shape_kinds L m a false) as K.
    destruct (do_dial_shape L m a false) as [m1 os]. cbn [snd] in *.
    constructor; [exact Logic.I|]. eapply prov_demote; [exact K | exact H].
Qed.

(* ---------- the id counter ---------- *)
Lemma do_closed_next_conn m p c : next_conn (fst (do_closed m p c)) = next_conn m.
Proof. unfold do_closed. destruct (st_on_closed _ _). reflexivity. Qed.

Definition new_id (o : out) : bool := match o with CallOpen _ _ | CallDial _ _ => true | _ => false end.

Lemma existsb_new_id_demote os : existsb new_id (map demote os) = existsb new_id os.
Proof. induction os as [|o r IH]; cbn [map existsb]; [reflexivity|]. rewrite IH. destruct o; reflexivity. Qed.

Lemma existsb_new_id_cancels d ts : existsb new_id (map (CallCancel d) ts) = false.
Proof. induction ts as [|t r IH]; cbn [map existsb new_id orb]; [reflexivity | exact IH]. Qed.

Lemma dial_peer_counter L m p ts fl :
  let r := do_dial_peer L m p ts fl in
  next_conn (fst r) = next_conn m + (if existsb new_id (snd r) then 1 else 0) \/
  (next_conn (fst r) = next_conn m + 1 /\ existsb new_id (snd r) = false).
Proof.
  cbn zeta. unfold do_dial_peer.
  destruct (limit_reached _ _); [left; cbn; lia|]. destruct (p =? LOCAL); [left; cbn; lia|].
  destruct (can_dial _); try (left; cbn; lia). destruct (is_nil _); [left; cbn; lia|].
  destruct (open_calls L (next_conn m) ts fl) as [calls ok].
  destruct (existsb new_id (snd (if ok then (set_pending (set_state (bump_conn m) p (Opening (next_conn m) ts))
              (insert_key (next_conn m) p (pending (set_state (bump_conn m) p (Opening (next_conn m) ts)))), calls ++ [Ret RET_OK])
            else (set_state (bump_conn m) p (Opening (next_conn m) ts), calls ++ [Ret RET_TRANSPORT])))) eqn:E;
    destruct ok; cbn [fst snd set_pending set_state bump_conn next_conn] in *; auto.
Qed.

Lemma dial_shape_counter L m a f :
  let r := do_dial_shape L m a f in
  next_conn (fst r) = next_conn m \/ next_conn (fst r) = next_conn m + 1.
Proof.
  cbn zeta. unfold do_dial_shape. destruct (limit_reached _ _); [now left|].
  assert (Hd : forall p t, next_conn (fst (do_dial_addr L m p t a f)) = next_conn m \/
                           next_conn (fst (do_dial_addr L m p t a f)) = next_conn m + 1).
  { intros p t. unfold do_dial_addr. destruct (negb _); [now left|]. right.
    destruct (can_dial _); cbn [fst]; try (rewrite add_addr_next_conn; reflexivity).
    destruct f; cbn [fst set_state set_pending next_conn]; rewrite add_addr_next_conn; reflexivity. }
  destruct (dial_shape LISTEN a); [now left | apply Hd | apply Hd].
Qed.

Lemma dial_shape_newid L m a f :
  existsb new_id (snd (do_dial_shape L m a f)) = true ->
  next_conn (fst (do_dial_shape L m a f)) = next_conn m + 1.
Proof.
  unfold do_dial_shape. destruct (limit_reached _ _); [discriminate|].
  assert (Hd : forall p t, existsb new_id (snd (do_dial_addr L m p t a f)) = true ->
                           next_conn (fst (do_dial_addr L m p t a f)) = next_conn m + 1).
  { intros p t. unfold do_dial_addr. destruct (negb _); [discriminate|].
    destruct (can_dial _); cbn [fst snd]; try discriminate.
    intros _. destruct f; cbn [fst set_state set_pending next_conn]; rewrite add_addr_next_conn; reflexivity. }
  destruct (dial_shape LISTEN a); [discriminate | apply Hd | apply Hd].
Qed.

(* events that never draw an id *)
Definition no_draw (e : ev) : bool :=
  match e with
  | TrDialFailure _ _ _ | TrOpened _ _ _ | TrOpenFailure _ _ _ | TrEstablished _ _ _ _ _
  | TrPendingInbound _ _ | AcceptDone _ _ | Closed _ _ | CmdAddAddr _ _ => true
  | _ => false
  end.

Lemma est_finish_next_conn m4 p c t lst f cancels :
  next_conn (fst (est_finish m4 p c t lst f cancels)) = next_conn m4.
Proof.
  unfold est_finish. destruct f; [|reflexivity].
  pose proof (do_closed_next_conn m4 p c) as H. destruct (do_closed m4 p c). exact H.
Qed.

Ltac ctr_fin :=
  cbn [fst snd existsb new_id orb set_oerrs set_state set_pending set_accepting set_limits next_conn];
  rewrite ?add_addr_next_conn, ?existsb_app, ?existsb_new_id_cancels;
  cbn [fst snd existsb new_id orb set_oerrs set_state set_pending set_accepting set_limits next_conn];
  split; reflexivity.

(* the counter moves by at most one per step; it moves when a fresh id is used; transport events
   never move it *)
Theorem step_counter L m e :
  let m' := fst (step L m e) in let os := snd (step L m e) in
  (next_conn m' = next_conn m \/ next_conn m' = next_conn m + 1) /\
  (existsb new_id os = true -> next_conn m' = next_conn m + 1) /\
  (no_draw e = true -> next_conn m' = next_conn m /\ existsb new_id os = false) /\
  (e = AllocConn -> next_conn m' = next_conn m + 1 /\ os = [Ret (RET_ALLOC + next_conn m)]).
Proof.
  cbn zeta.
  destruct e as [p ts fl|p t f|p t|c t pa|c t f|c t pa|p c t lst f|c t|c ok|p c| |a|p ts fl clog|a clog];
    cbn [step no_draw].
  - pose proof (dial_peer_counter L m p ts fl) as H. cbn zeta in H.
    split; [|split; [|split; [discriminate | discriminate]]].
    + destruct H as [H|[H _]]; [destruct (existsb new_id _); [right|left]; lia | now right].
    + intros E. destruct H as [H|[H _]]; [rewrite E in H; lia | exact H].
  - split; [apply dial_shape_counter|]. split; [apply dial_shape_newid|]. split; discriminate.
  - cbn [fst snd existsb]. split; [left|split; [discriminate|split; [intros _; split; [|reflexivity]|discriminate]]];
      destruct (installed L _); try reflexivity; apply add_addr_next_conn.
  - assert (H : next_conn (fst (if installed L t then do_dial_failure m c t pa else (m, []))) = next_conn m /\
                existsb new_id (snd (if installed L t then do_dial_failure m c t pa else (m, []))) = false).
    { destruct (installed L t); [|split; reflexivity]. unfold do_dial_failure.
      destruct (lookup c _); ctr_fin. }
    destruct H as [H1 H2]. rewrite H1, H2. repeat split; auto; discriminate.
  - assert (H : next_conn (fst (if installed L t then do_opened L m c t f else (m, []))) = next_conn m /\
                existsb new_id (snd (if installed L t then do_opened L m c t f else (m, []))) = false).
    { destruct (installed L t); [|split; reflexivity]. unfold do_opened. cbn [set_oerrs pending].
      destruct (lookup c (pending m)) as [p|]; [|split; reflexivity].
      rewrite so_add_addr, so_pending, so_oerrs.
      destruct (state_of m p) as [r sc|d ts|d|d]; try ctr_fin.
      destruct (negb _); [ctr_fin|]. destruct f; ctr_fin. }
    destruct H as [H1 H2]. rewrite H1, H2. repeat split; auto; discriminate.
  - assert (H : next_conn (fst (if installed L t then do_open_failure m c t pa else (m, []))) = next_conn m /\
                existsb new_id (snd (if installed L t then do_open_failure m c t pa else (m, []))) = false).
    { destruct (installed L t); [|split; reflexivity]. unfold do_open_failure.
      rewrite add_addr_pending. destruct (lookup c (pending m)) as [p|]; [|ctr_fin].
      rewrite so_add_addr. destruct (state_of m p); try ctr_fin.
      destruct (mem t _); [|ctr_fin]. destruct (remove_tr t _); ctr_fin. }
    destruct H as [H1 H2]. rewrite H1, H2. repeat split; auto; discriminate.
  - assert (H : next_conn (fst (if installed L t then do_established L m p c t lst f else (m, []))) = next_conn m /\
                existsb new_id (snd (if installed L t then do_established L m p c t lst f else (m, []))) = false).
    { destruct (installed L t); [|split; reflexivity]. unfold do_established.
      set (me := set_oerrs m (remove_key c (oerrs m))).
      set (m0 := if lst then me else add_addr me p (canon p t)).
      assert (Hn0 : next_conn m0 = next_conn m).
      { subst m0 me. destruct lst; [reflexivity | now rewrite add_addr_next_conn]. }
      assert (Hchk : forall pd, next_conn (fst (do_established_checked L (set_pending m0 pd) p c t lst f)) = next_conn m /\
                                existsb new_id (snd (do_established_checked L (set_pending m0 pd) p c t lst f)) = false).
      { intros pd. unfold do_established_checked.
        destruct (limit_reached _ _).
        { cbn [fst snd existsb new_id orb]. destruct (existsb _ _); cbn [set_state set_pending next_conn]; auto. }
        destruct (st_on_established _ c) as [s' acc]. destruct acc; cbn [negb];
          [|cbn [fst snd existsb new_id orb set_pending next_conn]; auto].
        assert (Hfin : forall m4 cancels, next_conn m4 = next_conn m -> existsb new_id cancels = false ->
                  next_conn (fst (est_finish m4 p c t lst f cancels)) = next_conn m /\
                  existsb new_id (snd (est_finish m4 p c t lst f cancels)) = false).
        { intros m4 cancels H4 Hc. split; [now rewrite est_finish_next_conn|].
          unfold est_finish. destruct f; [destruct (do_closed m4 p c)|]; cbn [snd];
            rewrite existsb_app, Hc; reflexivity. }
        destruct (state_of _ p) as [r sc|d ts|d|d]; cbv beta iota zeta;
          try (apply Hfin; [destruct lst; cbn [set_limits set_state set_pending next_conn]; exact Hn0 | reflexivity]).
        destruct (negb _); [cbn [fst snd existsb new_id orb set_pending next_conn]; auto|].
        apply Hfin; [destruct lst; cbn [set_pending set_limits set_state next_conn]; exact Hn0 | apply existsb_new_id_cancels]. }
      destruct (lookup c (pending m0)) as [dp|]; [destruct (dp =? p)|]; try apply Hchk.
      cbn [fst snd existsb new_id orb set_pending next_conn]. auto. }
    destruct H as [H1 H2]. rewrite H1, H2. repeat split; auto; discriminate.
  - assert (H : next_conn (fst (if installed L t then (if limit_reached (max_in L) (ins m) then (m, [CallRejectPending c t]) else (m, [CallAcceptPending c t])) else (m, []))) = next_conn m /\
                existsb new_id (snd (if installed L t then (if limit_reached (max_in L) (ins m) then (m, [CallRejectPending c t]) else (m, [CallAcceptPending c t])) else (m, []))) = false).
    { destruct (installed L t); [destruct (limit_reached _ _)|]; split; reflexivity. }
    destruct H as [H1 H2]. rewrite H1, H2. repeat split; auto; discriminate.
  - assert (H : next_conn (fst (do_accept_done m c ok)) = next_conn m /\ existsb new_id (snd (do_accept_done m c ok)) = false).
    { unfold do_accept_done. destruct (lookup c _) as [[q b]|]; [|split; reflexivity].
      destruct ok; [split; reflexivity|].
      pose proof (do_closed_next_conn (set_accepting m (remove_first c (accepting m))) q c) as K.
      destruct (do_closed _ q c). cbn [fst snd] in *. split; [exact K | reflexivity]. }
    destruct H as [H1 H2]. rewrite H1, H2. repeat split; auto; discriminate.
  - pose proof (do_closed_next_conn m p c) as K. destruct (do_closed m p c) as [m1 rep]. cbn [fst snd] in *.
    assert (H2 : existsb new_id (if rep then [EvClosed p c] else []) = false) by (destruct rep; reflexivity).
    rewrite K, H2. repeat split; auto; discriminate.
  - cbn [fst snd bump_conn next_conn existsb new_id orb]. repeat split; auto; try discriminate.
  - split; [apply dial_shape_counter|]. split; [apply dial_shape_newid|]. split; discriminate.
  - unfold do_hdial_peer. destruct (handle_gate m p); try (cbn; repeat split; auto; discriminate).
    destruct clog; [cbn; repeat split; auto; discriminate|].
    pose proof (dial_peer_counter L m p ts fl) as H. cbn zeta in H.
    destruct (do_dial_peer L m p ts fl) as [m1 os]. cbn [fst snd existsb new_id orb] in *.
    rewrite existsb_new_id_demote.
    split; [|split; [|split; discriminate]].
    + destruct H as [H|[H _]]; [destruct (existsb new_id os); [right|left]; lia | now right].
    + intros E. destruct H as [H|[H _]]; [rewrite E in H; lia | exact H].
  - unfold do_hdial_addr. destruct (negb _); [cbn; repeat split; auto; discriminate|].
    destruct clog; [cbn; repeat split; auto; discriminate|].
    pose proof (dial_shape_counter L m a false) as H1. pose proof (dial_shape_newid L m a false) as H2. cbn zeta in H1.
    destruct (do_dial_shape L m a false) as [m1 os]. cbn [fst snd existsb new_id orb] in *.
    rewrite existsb_new_id_demote. split; [exact H1|]. split; [exact H2|]. split; discriminate.
Qed.

(* ---------- at most one fresh id per transport and step; at most one negotiate ---------- *)
Definition newids (t0 : tr) (os : list out) : list conn :=
  flat_map (fun o => match o with CallOpen x t | CallDial x t => if t =? t0 then [x] else [] | _ => [] end) os.
Definition negs (t0 : tr) (os : list out) : list conn :=
  flat_map (fun o => match o with CallNegotiate x t => if t =? t0 then [x] else [] | _ => [] end) os.

Lemma newids_app t0 a b : newids t0 (a ++ b) = newids t0 a ++ newids t0 b.
Proof. unfold newids. apply flat_map_app. Qed.
Lemma negs_app t0 a b : negs t0 (a ++ b) = negs t0 a ++ negs t0 b.
Proof. unfold negs. apply flat_map_app. Qed.

Lemma newids_demote t0 os : newids t0 (map demote os) = newids t0 os.
Proof. unfold newids. apply fm_demote. intros o. destruct o; reflexivity. Qed.
Lemma negs_demote t0 os : negs t0 (map demote os) = negs t0 os.
Proof. unfold negs. apply fm_demote. intros o. destruct o; reflexivity. Qed.

Lemma newids_cancels t0 d ts : newids t0 (map (CallCancel d) ts) = [].
Proof. induction ts as [|t r IH]; cbn [map newids flat_map app]; [reflexivity | exact IH]. Qed.
Lemma negs_cancels t0 d ts : negs t0 (map (CallCancel d) ts) = [].
Proof. induction ts as [|t r IH]; cbn [map negs flat_map app]; [reflexivity | exact IH]. Qed.

Lemma newids_opens t0 c ts : nodupb ts = true -> (length (newids t0 (map (CallOpen c) ts)) <= 1)%nat.
Proof.
  induction ts as [|t r IH]; cbn [map newids flat_map nodupb]; [intros; cbn; lia|].
  intros H. apply andb_prop in H. destruct H as [Hn Hr]. specialize (IH Hr).
  fold (newids t0 (map (CallOpen c) r)). destruct (t =? t0) eqn:E; cbn [app length]; [|exact IH].
  assert (t = t0) by lia. subst t.
  assert (newids t0 (map (CallOpen c) r) = []) as ->; [|cbn; lia].
  clear IH Hr. induction r as [|x r IH]; [reflexivity|]. cbn [map newids flat_map].
  fold (newids t0 (map (CallOpen c) r)). cbn [mem existsb negb] in Hn.
  destruct (x =? t0) eqn:Ex.
  - exfalso. assert (t0 =? x = true) by lia. rewrite H in Hn. discriminate.
  - cbn [app]. apply IH. destruct (t0 =? x); [discriminate | exact Hn].
Qed.

Lemma negs_open_calls t0 L c ts fl : negs t0 (fst (open_calls L c ts fl)) = [].
Proof.
  induction ts as [|t r IH]; cbn [open_calls fst]; [reflexivity|].
  destruct (installed L t); [|exact IH]. destruct (mem t fl); cbn [fst]; [reflexivity|].
  destruct (open_calls L c r fl) as [os ok]. cbn [fst negs flat_map app] in *. exact IH.
Qed.

Lemma negs_dial_peer t0 L m p ts fl : negs t0 (snd (do_dial_peer L m p ts fl)) = [].
Proof.
  unfold do_dial_peer. destruct (limit_reached _ _); [reflexivity|]. destruct (p =? LOCAL); [reflexivity|].
  destruct (can_dial _); try reflexivity. destruct (is_nil _); [reflexivity|].
  pose proof (negs_open_calls t0 L (next_conn m) ts fl) as H.
  destruct (open_calls L (next_conn m) ts fl) as [calls ok]. cbn [fst] in H.
  destruct ok; cbn [snd]; rewrite negs_app, H; reflexivity.
Qed.

Lemma negs_dial_shape t0 L m a f : negs t0 (snd (do_dial_shape L m a f)) = [].
Proof.
  unfold do_dial_shape. destruct (limit_reached _ _); [reflexivity|].
  assert (Hd : forall p t, negs t0 (snd (do_dial_addr L m p t a f)) = []).
  { intros p t. unfold do_dial_addr. destruct (negb _); [reflexivity|].
    destruct (can_dial _); try reflexivity. destruct f; reflexivity. }
  destruct (dial_shape LISTEN a); [reflexivity | apply Hd | apply Hd].
Qed.

Lemma newids_dial_shape t0 L m a f : (length (newids t0 (snd (do_dial_shape L m a f))) <= 1)%nat.
Proof.
  unfold do_dial_shape. destruct (limit_reached _ _); [cbn; lia|].
  assert (Hd : forall p t, (length (newids t0 (snd (do_dial_addr L m p t a f))) <= 1)%nat).
  { intros p t. unfold do_dial_addr. destruct (negb _); [cbn; lia|].
    destruct (can_dial _); try (cbn; lia). destruct f; cbn [snd newids flat_map]; destruct (t =? t0); cbn; lia. }
  destruct (dial_shape LISTEN a); [cbn; lia | apply Hd | apply Hd].
Qed.

Lemma newids_dial_peer t0 L m p ts :
  (selects L m p = true -> choice_ok L m p ts = true) -> KInv L m ->
  (length (newids t0 (snd (do_dial_peer L m p ts []))) <= 1)%nat.
Proof.
  intros Hsel K. unfold do_dial_peer.
  destruct (limit_reached _ _) eqn:El; [cbn; lia|]. destruct (p =? LOCAL) eqn:Ep; [cbn; lia|].
  destruct (can_dial (state_of m p)) eqn:Eg; try (cbn; lia). destruct (is_nil (addrs_of m p)) eqn:En; [cbn; lia|].
  specialize (Hsel (selects_ok _ _ _ El Ep Eg En)).
  rewrite (open_calls_all L (next_conn m) ts (choice_installed _ _ _ _ K Hsel)). cbn [snd].
  rewrite newids_app. cbn [newids flat_map app]. rewrite app_nil_r. apply newids_opens.
  unfold choice_ok in Hsel. repeat (apply andb_prop in Hsel; destruct Hsel as [Hsel ?]). assumption.
Qed.

(* under the contract, a step uses at most one fresh id per transport and makes at most one
   negotiate call *)
Theorem step_once L m g e t0 :
  LInv L m g -> feas L m g e ->
  (length (newids t0 (snd (step L m e))) <= 1)%nat /\ (length (negs t0 (snd (step L m e))) <= 1)%nat.
Proof.
  intros I He. pose proof (li_kinds _ _ _ I) as K.
  destruct e as [p ts fl|p t f|p t|c t pa|c t f|c t pa|p c t lst f|c t|c ok|p c| |a|p ts fl clog|a clog];
    cbn [step feas] in *.
  - destruct He as [-> Hsel]. split; [now apply newids_dial_peer | rewrite negs_dial_peer; cbn; lia].
  - split; [apply newids_dial_shape | rewrite negs_dial_shape; cbn; lia].
  - cbn. lia.
  - destruct (installed L t); [|cbn; lia]. unfold do_dial_failure. destruct (lookup c (pending _)); cbn; lia.
  - destruct (installed L t); [|cbn; lia]. unfold do_opened.
    destruct (lookup c (pending _)); [|cbn; lia]. destruct (state_of _ _) as [r sc|d ts|d|d]; try (cbn; lia).
    destruct (negb _); [cbn; lia|].
    destruct f; cbn [snd]; rewrite newids_app, negs_app, newids_cancels, negs_cancels;
      cbn [newids negs flat_map app]; destruct (t =? t0); cbn; lia.
  - destruct (installed L t); [|cbn; lia]. unfold do_open_failure.
    destruct (lookup c (pending _)); [|cbn; lia]. destruct (state_of _ _); try (cbn; lia).
    destruct (mem t _); [|cbn; lia]. destruct (remove_tr t _); cbn; lia.
  - destruct (installed L t); [|cbn; lia]. unfold do_established.
    set (m0 := if lst then _ else _).
    assert (Hchk : forall pd, (length (newids t0 (snd (do_established_checked L (set_pending m0 pd) p c t lst f))) <= 1)%nat /\
                              (length (negs t0 (snd (do_established_checked L (set_pending m0 pd) p c t lst f))) <= 1)%nat).
    { intros pd. unfold do_established_checked. destruct (limit_reached _ _); [cbn; lia|].
      destruct (st_on_established _ c) as [s' acc]. destruct acc; cbn [negb]; [|cbn; lia].
      assert (Hfin : forall m4 cancels, newids t0 cancels = [] -> negs t0 cancels = [] ->
                (length (newids t0 (snd (est_finish m4 p c t lst f cancels))) <= 1)%nat /\
                (length (negs t0 (snd (est_finish m4 p c t lst f cancels))) <= 1)%nat).
      { intros m4 cancels H1 H2. unfold est_finish. destruct f; [destruct (do_closed m4 p c)|]; cbn [snd];
          rewrite newids_app, negs_app, H1, H2; cbn; lia. }
      destruct (state_of _ p) as [r sc|d ts|d|d]; cbv beta iota zeta; try (apply Hfin; reflexivity).
      destruct (negb _); [cbn; lia|]. apply Hfin; [apply newids_cancels | apply negs_cancels]. }
    destruct (lookup c (pending m0)) as [dp|]; [destruct (dp =? p)|]; try apply Hchk. cbn; lia.
  - destruct (installed L t); [destruct (limit_reached _ _)|]; cbn; lia.
  - unfold do_accept_done. destruct (lookup c _) as [[q b]|]; [|cbn; lia].
    destruct ok; [cbn; lia|]. destruct (do_closed _ q c). cbn; lia.
  - destruct (do_closed m p c) as [m1 rep]. destruct rep; cbn; lia.
  - cbn; lia.
  - split; [apply newids_dial_shape | rewrite negs_dial_shape; cbn; lia].
  - destruct He as [-> Hsel]. unfold do_hdial_peer. destruct (handle_gate m p); try (cbn; lia).
    destruct clog; [cbn; lia|].
    pose proof (newids_dial_peer t0 L m p ts Hsel K) as H1. pose proof (negs_dial_peer t0 L m p ts []) as H2.
    destruct (do_dial_peer L m p ts []) as [m1 os]. cbn [snd] in *.
    change (Ret RET_OK :: map demote os) with ([Ret RET_OK] ++ map demote os).
    rewrite newids_app, negs_app, newids_demote, negs_demote, H2. cbn [newids negs flat_map app length]. lia.
  - unfold do_hdial_addr. destruct (negb _); [cbn; lia|]. destruct clog; [cbn; lia|].
    pose proof (newids_dial_shape t0 L m a false) as H1. pose proof (negs_dial_shape t0 L m a false) as H2.
    destruct (do_dial_shape L m a false) as [m1 os]. cbn [snd] in *.
    change (Ret RET_OK :: map demote os) with ([Ret RET_OK] ++ map demote os).
    rewrite newids_app, negs_app, newids_demote, negs_demote, H2. cbn [newids negs flat_map app length]. lia.
Qed.
