(* Mgr — C05: facts about the dial bookkeeping of the manager model. *)
From Coq Require Import List Arith NArith Bool Lia.
From Coq Require Import ZifyBool ZifyNat ZifyN.
From V.Mgr Require Import Model Caps.
Import ListNotations.
Open Scope N_scope.

Arguments N.add : simpl never.
Arguments N.eqb : simpl never.
Arguments N.leb : simpl never.
Arguments N.of_nat : simpl never.

Lemma so_pending m x q : state_of (set_pending m x) q = state_of m q. Proof. reflexivity. Qed.
Lemma so_known m x q : state_of (set_known m x) q = state_of m q. Proof. reflexivity. Qed.
Lemma so_bump m q : state_of (bump_conn m) q = state_of m q. Proof. reflexivity. Qed.
Lemma so_limits m a b q : state_of (set_limits m a b) q = state_of m q. Proof. reflexivity. Qed.
Lemma so_accepting m a q : state_of (set_accepting m a) q = state_of m q. Proof. reflexivity. Qed.

(* the dial record (an outbound attempt the peer state is waiting for), if any *)
Definition dial_record (s : pstate) : option conn :=
  match s with
  | Connected _ (Some (SecDial d)) => Some d
  | Opening d | Dialing d | Disconnected (Some d) => Some d
  | _ => None
  end.

(* a peer is wedged when it waits for an attempt nobody owes an answer for; not wedged means
   connected without dial record, or fully disconnected *)
Definition settled (s : pstate) : Prop := dial_record s = None.

Lemma settled_can_dial s : settled s -> can_dial s = GateOk \/ can_dial s = GateConnected.
Proof.
  destruct s as [r [[e|e]|]|d|d|[d|]]; cbn [settled dial_record can_dial]; try discriminate; auto.
Qed.

(* a dial of a settled, disconnected peer with a known address, below the limit, is attempted:
   a fresh connection id is opened on the transport, recorded as pending, and Ok is returned *)
Lemma redial_attempted L m p :
  state_of m p = Disconnected None -> mem p (known m) = true -> p <> LOCAL ->
  limit_reached (max_out L) (outs m) = false ->
  let '(m', os) := do_dial_peer L m p false in
  os = [CallOpen (next_conn m); Ret RET_OK] /\
  state_of m' p = Opening (next_conn m) /\
  lookup (next_conn m) (pending m') = Some p /\
  next_conn m' = next_conn m + 1.
Proof.
  intros Hs Hk Hp Hl. unfold do_dial_peer. rewrite Hl.
  assert (p =? LOCAL = false) as -> by lia. rewrite Hs. cbn [can_dial]. rewrite Hk. cbn [negb].
  repeat split.
  - rewrite so_pending, state_of_set_state. assert (p =? p = true) as -> by lia. reflexivity.
  - cbn [set_pending pending]. rewrite lookup_insert_key.
    assert (next_conn m =? next_conn m = true) as -> by lia. reflexivity.
Qed.

(* the same through dial_address *)
Lemma redial_addr_attempted L m p :
  state_of m p = Disconnected None ->
  limit_reached (max_out L) (outs m) = false ->
  let '(m', os) := do_dial_addr L m p false in
  os = [CallDial (next_conn m); Ret RET_OK] /\
  state_of m' p = Dialing (next_conn m) /\
  lookup (next_conn m) (pending m') = Some p.
Proof.
  intros Hs Hl. unfold do_dial_addr. rewrite Hl.
  rewrite so_known, so_bump, Hs. cbn [can_dial].
  repeat split.
  - rewrite so_pending, state_of_set_state. assert (p =? p = true) as -> by lia. reflexivity.
  - cbn [set_pending pending]. rewrite lookup_insert_key.
    assert (next_conn m =? next_conn m = true) as -> by lia. reflexivity.
Qed.

(* a dial request for a peer that is connected or already being dialled changes nothing but
   (for dial_address) the id counter and the address book *)
Lemma dial_peer_refused_unchanged L m p f :
  can_dial (state_of m p) <> GateOk -> fst (do_dial_peer L m p f) = m.
Proof.
  intros H. unfold do_dial_peer.
  destruct (limit_reached (max_out L) (outs m)); [reflexivity|].
  destruct (p =? LOCAL); [reflexivity|].
  destruct (can_dial (state_of m p)); try reflexivity. congruence.
Qed.

(* a failure report for attempt c removes c from the pending attempts: it cannot be reported twice *)
Lemma dial_failure_consumes m c pa :
  In (EvDialFailure c pa) (snd (do_dial_failure m c pa)) ->
  lookup c (pending (fst (do_dial_failure m c pa))) = None /\
  lookup c (pending m) <> None.
Proof.
  unfold do_dial_failure. cbn [set_known pending].
  destruct (lookup c (pending m)) as [p|] eqn:El; cbn [fst snd In]; [|tauto].
  intros _. split; [|discriminate]. cbn [set_state set_pending pending].
  rewrite lookup_remove_key. assert (c =? c = true) as -> by lia. reflexivity.
Qed.

Lemma open_failure_consumes m c pa :
  In (EvOpenFailure c) (snd (do_open_failure m c pa)) ->
  lookup c (pending (fst (do_open_failure m c pa))) = None /\
  lookup c (pending m) <> None.
Proof.
  unfold do_open_failure. cbn [set_known pending].
  destruct (lookup c (pending m)) as [p|] eqn:El; cbn [fst snd In]; [|tauto].
  destruct (state_of (set_known m pa) p); cbn [fst snd In]; try (intros [H|H]; [discriminate|tauto]); try tauto.
  intros _. split; [|discriminate]. cbn [set_state set_pending pending].
  rewrite lookup_remove_key. assert (c =? c = true) as -> by lia. reflexivity.
Qed.

(* a failed dial clears exactly the matching dial record and reports once *)
Lemma dial_failure_clears m c p :
  lookup c (pending m) = Some p -> dial_record (state_of m p) = Some c ->
  state_of m p <> Opening c ->
  let '(m', os) := do_dial_failure m c p in
  os = [ProtoDialFailure p; EvDialFailure c p] /\ settled (state_of m' p).
Proof.
  intros Hl Hd Hno. unfold do_dial_failure. cbn [set_known pending]. rewrite Hl.
  split; [reflexivity|]. rewrite state_of_set_state. assert (p =? p = true) as -> by lia.
  rewrite so_pending, so_known.
  destruct (state_of m p) as [r [[e|e]|]|d|d|[d|]]; cbn [dial_record] in Hd; try discriminate;
    injection Hd as ->; cbn [st_on_dial_failure]; try (assert (c =? c = true) as -> by lia);
    cbn [settled dial_record]; try reflexivity. congruence.
Qed.

(* after the repair of F-C05a: an outbound connection rejected by the limit leaves no dial record *)
Lemma limit_reject_settles L m1 p c f :
  limit_reached (max_out L) (outs m1) = true ->
  dial_record (state_of m1 p) = Some c -> state_of m1 p <> Opening c ->
  existsb (fun kp : N * pstate => fst kp =? p) (peers m1) = true ->
  settled (state_of (fst (do_established_checked L m1 p c false f)) p) /\
  snd (do_established_checked L m1 p c false f) = [CallReject c].
Proof.
  intros Hl Hd Hno Hex. unfold do_established_checked. rewrite Hl, Hex. cbn [fst snd].
  split; [|reflexivity]. rewrite state_of_set_state. assert (p =? p = true) as -> by lia.
  destruct (state_of m1 p) as [r [[e|e]|]|d|d|[d|]]; cbn [dial_record] in Hd; try discriminate;
    injection Hd as ->; cbn [st_on_dial_failure]; try (assert (c =? c = true) as -> by lia);
    cbn [settled dial_record]; try reflexivity. congruence.
Qed.

(* no handler reaches a debug assertion when connection ids are consistent: Stuck is only
   produced by an opened connection nobody dialled or an established connection whose pending
   entry names another peer *)
Lemma stuck_only_on_inconsistent_ids L m e s :
  In (Stuck s) (snd (step L m e)) ->
  (exists c f, e = TrOpened c f /\ lookup c (pending m) = None) \/
  (exists p c l f q, e = TrEstablished p c l f /\ lookup c (pending m) = Some q /\ q <> p).
Proof.
  destruct e as [p f|p f|p|c pa|c f|c pa|p c lst f|c|c ok|p c| |a]; cbn [step].
  - unfold do_dial_peer. repeat match goal with |- context [if ?b then _ else _] => destruct b end;
      try (destruct (can_dial (state_of m p))); cbn [snd In];
      repeat match goal with |- context [if ?b then _ else _] => destruct b end; cbn [snd In];
      intuition discriminate.
  - unfold do_dial_addr. repeat match goal with |- context [if ?b then _ else _] => destruct b end;
      try (destruct (can_dial (state_of _ p))); cbn [snd In];
      repeat match goal with |- context [if ?b then _ else _] => destruct b end; cbn [snd In];
      intuition discriminate.
  - cbn [snd In]. tauto.
  - unfold do_dial_failure. destruct (lookup c _); cbn [snd In]; intuition discriminate.
  - unfold do_opened. destruct (lookup c (pending m)) eqn:El.
    + destruct (state_of _ p); try destruct f; cbn [snd In]; intuition discriminate.
    + intros _. left. eauto.
  - unfold do_open_failure. destruct (lookup c _); [destruct (state_of _ p)|]; cbn [snd In]; intuition discriminate.
  - unfold do_established.
    assert (Hchk : forall m1, In (Stuck s) (snd (do_established_checked L m1 p c lst f)) -> False).
    { intros m1. unfold do_established_checked.
      destruct (limit_reached _ _); [cbn [snd In]; intuition discriminate|].
      destruct (st_on_established (state_of m1 p) c) as [s' acc]. destruct acc; cbn [negb].
      2:{ cbn [snd In]. intuition discriminate. }
      intros Hin.
      destruct (state_of m1 p) as [r sc|o|o|o]; cbv beta iota zeta in Hin; destruct f;
        try match type of Hin with context [do_closed ?a ?b ?c0] => destruct (do_closed a b c0) end;
        cbn [snd app In] in Hin; intuition discriminate. }
    assert (Hp : pending (if lst then m else set_known m p) = pending m) by (destruct lst; reflexivity).
    rewrite Hp. destruct (lookup c (pending m)) as [dp|] eqn:El.
    + destruct (dp =? p) eqn:E.
      * intros H. exfalso. eapply Hchk. exact H.
      * intros _. right. exists p, c, lst, f, dp. split; [reflexivity|]. split; [exact El | lia].
    + intros H. exfalso. eapply Hchk. exact H.
  - destruct (limit_reached _ _); cbn [snd In]; intuition discriminate.
  - unfold do_accept_done. destruct (lookup c _) as [[q b]|]; [destruct ok|]; cbn [snd In]; try tauto;
      try (intuition discriminate).
    match goal with |- context [do_closed ?a ?b0 ?c0] => destruct (do_closed a b0 c0) end.
    cbn [snd In]. tauto.
  - destruct (do_closed m p c) as [m1 rep]. destruct rep; cbn [snd In]; intuition discriminate.
  - cbn [snd In]. intuition discriminate.
  - unfold do_dial_shape. destruct (limit_reached _ _); [cbn [snd In]; intuition discriminate|].
    destruct (DialShape.dial_shape LISTEN a) as [code|p|p].
    + cbn [snd In]. intuition discriminate.
    + unfold do_dial_addr. repeat match goal with |- context [if ?b then _ else _] => destruct b end;
        try (destruct (can_dial (state_of _ p))); cbn [snd In]; intuition discriminate.
    + cbn [snd In]. intuition discriminate.
Qed.
