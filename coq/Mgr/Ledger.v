(* Mgr — C05: facts about the dial bookkeeping of the manager model. *)
From Coq Require Import List Arith NArith Bool Lia.
From Coq Require Import ZifyBool ZifyNat ZifyN.
From V.C10 Require Model.
From V.Mgr Require Import DialShape DialShapeProofs Model Caps.
Import ListNotations.
Open Scope N_scope.

Arguments N.add : simpl never.
Arguments N.eqb : simpl never.
Arguments N.leb : simpl never.
Arguments N.ltb : simpl never.
Arguments N.of_nat : simpl never.

Lemma so_pending m x q : state_of (set_pending m x) q = state_of m q. Proof. reflexivity. Qed.
Lemma so_known m x q : state_of (set_known m x) q = state_of m q. Proof. reflexivity. Qed.
Lemma so_bump m q : state_of (bump_conn m) q = state_of m q. Proof. reflexivity. Qed.
Lemma so_limits m a b q : state_of (set_limits m a b) q = state_of m q. Proof. reflexivity. Qed.
Lemma so_accepting m a q : state_of (set_accepting m a) q = state_of m q. Proof. reflexivity. Qed.
Lemma so_oerrs m a q : state_of (set_oerrs m a) q = state_of m q. Proof. reflexivity. Qed.

(* the dial record (an outbound attempt the peer state is waiting for), if any *)
Definition dial_record (s : pstate) : option conn :=
  match s with
  | Connected _ (Some (SecDial d)) => Some d
  | Opening d _ | Dialing d | Disconnected (Some d) => Some d
  | _ => None
  end.

(* a peer is wedged when it waits for an attempt nobody owes an answer for; not wedged means
   connected without dial record, or fully disconnected *)
Definition settled (s : pstate) : Prop := dial_record s = None.

Lemma settled_can_dial s : settled s -> can_dial s = GateOk \/ can_dial s = GateConnected.
Proof.
  destruct s as [r [[e|e]|]|d ts|d|[d|]]; cbn [settled dial_record can_dial]; try discriminate; auto.
Qed.

(* ---------- the address book only holds addresses of installed transports ---------- *)

(* every path that stores an address checks that its transport is installed
   (add_known_address: supported_transport; dial_address: the shape check and the installed check)
   or stores an address reported by an installed transport *)
Definition KInv (L : limits) (m : mgr) : Prop :=
  forall p a, In a (addrs_of m p) -> installed L (kind_of a) = true.

Lemma addrs_of_set_known_other m k q : addrs_of (set_known m k) q = match lookup q k with Some l => l | None => [] end.
Proof. reflexivity. Qed.

Lemma in_add_addr m p a q x :
  In x (addrs_of (add_addr m p a) q) -> In x (addrs_of m q) \/ (q = p /\ x = a).
Proof.
  unfold add_addr. destruct (existsb _ _); [now left|].
  unfold addrs_of at 1. cbn [set_known known]. rewrite lookup_insert_key.
  destruct (q =? p) eqn:E.
  - assert (q = p) by lia. subst q. rewrite in_app_iff. cbn [In]. intros [H|[H|[]]]; [now left | right; auto].
  - intros H. left. exact H.
Qed.

Lemma add_addr_in m p a : In a (addrs_of (add_addr m p a) p) \/
                          existsb (V.C10.Model.maddr_eqb a) (addrs_of m p) = true.
Proof.
  unfold add_addr. destruct (existsb _ _) eqn:E; [now right|]. left.
  unfold addrs_of at 1. cbn [set_known known]. rewrite lookup_insert_key.
  assert (p =? p = true) as -> by lia. rewrite in_app_iff. right. now left.
Qed.

Lemma add_addr_mono m p a q x : In x (addrs_of m q) -> In x (addrs_of (add_addr m p a) q).
Proof.
  unfold add_addr. destruct (existsb _ _); [auto|].
  unfold addrs_of at 2. cbn [set_known known]. rewrite lookup_insert_key.
  destruct (q =? p) eqn:E; [|auto]. assert (q = p) by lia. subst q. intros H. rewrite in_app_iff. now left.
Qed.

Lemma kinv_add_addr L m p a : KInv L m -> installed L (kind_of a) = true -> KInv L (add_addr m p a).
Proof.
  intros K Ha q x Hx. apply in_add_addr in Hx. destruct Hx as [Hx|[_ ->]]; [exact (K _ _ Hx) | exact Ha].
Qed.

Lemma kinv_frame L m m' : known m' = known m -> KInv L m -> KInv L m'.
Proof. intros H K p a. unfold addrs_of. rewrite H. apply K. Qed.

Lemma kind_of_canon p t : kind_of (canon p t) = if t =? TCP then TCP else WS.
Proof. unfold canon. destruct (t =? TCP); reflexivity. Qed.

Lemma installed_lt L t : installed L t = true -> t = TCP \/ t = WS.
Proof. unfold installed, TCP, WS. intros H. apply andb_prop in H. destruct H as [H _]. lia. Qed.

Lemma installed_kind_canon L p t : installed L t = true -> installed L (kind_of (canon p t)) = true.
Proof.
  intros H. rewrite kind_of_canon. destruct (installed_lt _ _ H) as [-> | ->]; exact H.
Qed.

(* the canonical addresses are well-formed dial addresses of their transport *)
Lemma dial_shape_canon p t :
  dial_shape LISTEN (canon p t) = if t =? TCP then SvTcp p else SvWs p.
Proof.
  unfold canon, dial_shape, LISTEN, LISTEN0.
  destruct (t =? TCP);
    cbn [last app existsb V.C10.Model.maddr_eqb V.C10.Model.comp_eqb V.C10.Model.ipclass_eqb andb orb
         V.C10.Model.strip_p2p V.C10.Model.is_p2p].
  - assert (100 + p =? 1 = false) as -> by lia. cbn [andb orb is_host]. reflexivity.
  - assert (100 + p =? 1 = false) as -> by lia. cbn [andb orb is_host]. reflexivity.
Qed.

Lemma kind_of_tcp_shape a q : dial_shape LISTEN a = SvTcp q -> kind_of a = TCP.
Proof.
  intros H. destruct (DialShapeProofs.dial_shape_tcp_sound _ _ _ H) as (h & port & ho & -> & Hh & _).
  unfold kind_of. cbn [existsb is_wsc orb]. destruct h; cbn [is_host] in Hh; try discriminate; reflexivity.
Qed.

Lemma kind_of_ws_shape a q : dial_shape LISTEN a = SvWs q -> kind_of a = WS.
Proof.
  intros H. destruct (DialShapeProofs.dial_shape_ws_sound _ _ _ H) as (h & port & w & ho & -> & Hh & Hw & _).
  unfold kind_of. cbn [existsb]. destruct Hw as [-> | ->]; cbn [is_wsc orb];
    destruct h; cbn [is_host] in Hh; try discriminate; reflexivity.
Qed.

Lemma kinv_dial_addr L m p t a f :
  KInv L m -> kind_of a = t -> KInv L (fst (do_dial_addr L m p t a f)).
Proof.
  intros K Hk. unfold do_dial_addr. destruct (installed L t) eqn:Ei; cbn [negb]; [|exact K].
  assert (K0 : KInv L (add_addr (bump_conn m) p a)).
  { apply kinv_add_addr; [eapply kinv_frame; [|exact K]; reflexivity | now rewrite Hk]. }
  destruct (can_dial _); try exact K0. destruct f; cbn [fst]; (eapply kinv_frame; [|exact K0]); reflexivity.
Qed.

Lemma kinv_dial_shape L m a f : KInv L m -> KInv L (fst (do_dial_shape L m a f)).
Proof.
  intros K. unfold do_dial_shape. destruct (limit_reached _ _); [exact K|].
  destruct (dial_shape LISTEN a) as [code|q|q] eqn:Es; [exact K| |].
  - apply kinv_dial_addr; [exact K | now apply (kind_of_tcp_shape a q)].
  - apply kinv_dial_addr; [exact K | now apply (kind_of_ws_shape a q)].
Qed.

Lemma kinv_dial_peer L m p ts fl : KInv L m -> KInv L (fst (do_dial_peer L m p ts fl)).
Proof.
  intros K. unfold do_dial_peer. destruct (limit_reached _ _); [exact K|]. destruct (p =? LOCAL); [exact K|].
  destruct (can_dial _); try exact K. destruct (is_nil _); [exact K|].
  destruct (open_calls L (next_conn m) ts fl) as [calls ok]. destruct ok; cbn [fst];
    (eapply kinv_frame; [|exact K]); reflexivity.
Qed.

Lemma do_closed_known m p c : known (fst (do_closed m p c)) = known m.
Proof. unfold do_closed. destruct (st_on_closed _ _). reflexivity. Qed.

Lemma kinv_established_checked L m1 p c t lst f :
  KInv L m1 -> KInv L (fst (do_established_checked L m1 p c t lst f)).
Proof.
  intros K. unfold do_established_checked. destruct (limit_reached _ _).
  { cbn [fst]. destruct (existsb _ _); [eapply kinv_frame; [|exact K]; reflexivity | exact K]. }
  destruct (st_on_established (state_of m1 p) c) as [s' acc]. destruct acc; cbn [negb]; [|exact K].
  assert (Hfin : forall m4 cancels, known m4 = known m1 -> KInv L (fst (est_finish m4 p c t lst f cancels))).
  { intros m4 cancels H4. unfold est_finish. destruct f.
    - pose proof (do_closed_known m4 p c) as Hk. destruct (do_closed m4 p c) as [m5 r]. cbn [fst] in *.
      eapply kinv_frame; [|exact K]. congruence.
    - cbn [fst]. eapply kinv_frame; [|exact K]. exact H4. }
  destruct (state_of m1 p) as [r sc|d ts|d|d]; cbv beta iota zeta;
    try (apply Hfin; destruct lst; reflexivity).
  destruct (negb (forallb (installed L) ts)); [exact K|]. apply Hfin. destruct lst; reflexivity.
Qed.

(* the address book only holds installed kinds, on every history whatsoever *)
Theorem kinv_step L m e : KInv L m -> KInv L (fst (step L m e)).
Proof.
  intros K.
  destruct e as [p ts fl|p t f|p t|c t pa|c t f|c t pa|p c t lst f|c t|c ok|p c| |a|p ts fl clog|a clog];
    cbn [step].
  - now apply kinv_dial_peer.
  - now apply kinv_dial_shape.
  - cbn [fst]. destruct (installed L (kind_of (canon p t))) eqn:E; [|exact K]. now apply kinv_add_addr.
  - destruct (installed L t) eqn:Ei; [|exact K]. unfold do_dial_failure.
    assert (K0 : KInv L (add_addr m pa (canon pa t))) by (apply kinv_add_addr; [exact K | now apply installed_kind_canon]).
    destruct (lookup c _); [|exact K0]. cbn [fst]. eapply kinv_frame; [|exact K0]. reflexivity.
  - destruct (installed L t) eqn:Ei; [|exact K]. unfold do_opened.
    destruct (lookup c (pending (set_oerrs m (remove_key c (oerrs m))))) as [p|].
    2:{ cbn [fst]. eapply kinv_frame; [|exact K]. reflexivity. }
    set (m1 := add_addr _ p (canon p t)).
    assert (K1 : KInv L m1).
    { apply kinv_add_addr; [eapply kinv_frame; [|exact K]; reflexivity | now apply installed_kind_canon]. }
    destruct (state_of m1 p) as [r sc|d ts|d|d]; try exact K1.
    destruct (negb (forallb (installed L) ts)); [eapply kinv_frame; [|exact K1]; reflexivity|].
    destruct f; cbn [fst]; (eapply kinv_frame; [|exact K1]); reflexivity.
  - destruct (installed L t) eqn:Ei; [|exact K]. unfold do_open_failure.
    set (m0 := add_addr m pa (canon pa t)).
    assert (K0 : KInv L m0) by (apply kinv_add_addr; [exact K | now apply installed_kind_canon]).
    destruct (lookup c (pending m0)) as [p|]; [|exact K0].
    destruct (state_of m0 p) as [r sc|d ts|d|d]; try exact K0.
    destruct (mem t ts); [|exact K0].
    destruct (remove_tr t ts); cbn [fst]; (eapply kinv_frame; [|exact K0]); reflexivity.
  - destruct (installed L t) eqn:Ei; [|exact K]. unfold do_established.
    set (me := set_oerrs m (remove_key c (oerrs m))).
    set (m0 := if lst then me else add_addr me p (canon p t)).
    assert (K0 : KInv L m0).
    { subst m0. destruct lst; [eapply kinv_frame; [|exact K]; reflexivity|].
      apply kinv_add_addr; [eapply kinv_frame; [|exact K]; reflexivity | now apply installed_kind_canon]. }
    assert (K1 : KInv L (set_pending m0 (remove_key c (pending m0)))) by (eapply kinv_frame; [|exact K0]; reflexivity).
    destruct (lookup c (pending m0)) as [dp|]; [destruct (dp =? p)|]; try exact K1;
      now apply kinv_established_checked.
  - destruct (installed L t); [|exact K]. destruct (limit_reached _ _); exact K.
  - unfold do_accept_done. destruct (lookup c (accepting m)) as [[p b]|]; [|exact K].
    destruct ok; cbn [fst]; [eapply kinv_frame; [|exact K]; reflexivity|].
    pose proof (do_closed_known (set_accepting m (remove_first c (accepting m))) p c) as Hk.
    destruct (do_closed _ p c) as [m2 r]. cbn [fst] in *. eapply kinv_frame; [|exact K]. exact Hk.
  - pose proof (do_closed_known m p c) as Hk. destruct (do_closed m p c) as [m1 rep]. cbn [fst] in *.
    eapply kinv_frame; [|exact K]. exact Hk.
  - cbn [fst]. eapply kinv_frame; [|exact K]. reflexivity.
  - now apply kinv_dial_shape.
  - unfold do_hdial_peer. destruct (handle_gate m p); try exact K. destruct clog; [exact K|].
    pose proof (kinv_dial_peer L m p ts fl K) as K1. destruct (do_dial_peer L m p ts fl). exact K1.
  - unfold do_hdial_addr. destruct (negb _); [exact K|]. destruct clog; [exact K|].
    pose proof (kinv_dial_shape L m a false K) as K1. destruct (do_dial_shape L m a false). exact K1.
Qed.

Lemma kinv_init L : KInv L init.
Proof. intros p a H. destruct H. Qed.

Theorem kinv_run L es : forall m, KInv L m -> KInv L (fst (run L m es)).
Proof.
  induction es as [|e t IH]; intros m K; cbn [run fst]; [exact K|].
  pose proof (kinv_step L m e K) as K1. destruct (step L m e) as [m1 o]. cbn [fst] in K1.
  specialize (IH m1 K1). destruct (run L m1 t) as [m2 os]. exact IH.
Qed.

(* ---------- what a valid choice of transports is ---------- *)
Lemma subset_in a b x : subset a b = true -> In x a -> In x b.
Proof.
  unfold subset. rewrite forallb_forall. intros H Hx. apply mem_in. now apply H.
Qed.

Lemma in_kinds_of l t : In t (kinds_of l) -> exists a, In a l /\ kind_of a = t.
Proof.
  unfold kinds_of. rewrite in_app_iff. intros [H|H].
  - destruct (existsb (fun a => kind_of a =? TCP) l) eqn:E; [|destruct H].
    destruct H as [<-|[]]. apply existsb_exists in E. destruct E as (a & Ha & E). exists a. split; [assumption | lia].
  - destruct (existsb (fun a => kind_of a =? WS) l) eqn:E; [|destruct H].
    destruct H as [<-|[]]. apply existsb_exists in E. destruct E as (a & Ha & E). exists a. split; [assumption | lia].
Qed.

Lemma choice_ok_facts L m p ts :
  choice_ok L m p ts = true ->
  ts <> [] /\ (forall t, In t ts -> exists a, In a (addrs_of m p) /\ kind_of a = t).
Proof.
  unfold choice_ok. intros H. repeat (apply andb_prop in H; destruct H as [H ?]).
  split.
  - destruct ts; [discriminate | discriminate].
  - intros t Ht. apply in_kinds_of. eapply subset_in; eassumption.
Qed.

Lemma choice_installed L m p ts :
  KInv L m -> choice_ok L m p ts = true -> forall t, In t ts -> installed L t = true.
Proof.
  intros K H t Ht. destruct (choice_ok_facts _ _ _ _ H) as [_ Hk].
  destruct (Hk _ Ht) as (a & Ha & <-). exact (K _ _ Ha).
Qed.

(* with every transport of the set installed and no failing call, open is called on each of them *)
Lemma open_calls_all L c ts :
  (forall t, In t ts -> installed L t = true) -> open_calls L c ts [] = (map (CallOpen c) ts, true).
Proof.
  induction ts as [|t r IH]; intros H; cbn [open_calls map]; [reflexivity|].
  rewrite (H t (or_introl eq_refl)). cbn [mem existsb].
  rewrite IH by (intros x Hx; apply H; now right). reflexivity.
Qed.

(* a dial of a settled, disconnected peer with a known address, below the limit, is attempted:
   a fresh connection id is opened on every transport the chosen addresses span, recorded as
   pending, and Ok is returned *)
Lemma redial_attempted L m p ts :
  state_of m p = Disconnected None -> p <> LOCAL ->
  limit_reached (max_out L) (outs m) = false ->
  KInv L m -> choice_ok L m p ts = true ->
  let '(m', os) := do_dial_peer L m p ts [] in
  ts <> [] /\
  os = map (CallOpen (next_conn m)) ts ++ [Ret RET_OK] /\
  state_of m' p = Opening (next_conn m) ts /\
  lookup (next_conn m) (pending m') = Some p /\
  next_conn m' = next_conn m + 1.
Proof.
  intros Hs Hp Hl K Hc. unfold do_dial_peer. rewrite Hl.
  assert (p =? LOCAL = false) as -> by lia. rewrite Hs. cbn [can_dial].
  destruct (choice_ok_facts _ _ _ _ Hc) as [Hne Hk].
  assert (is_nil (addrs_of m p) = false) as ->.
  { destruct ts as [|t r]; [congruence|]. destruct (Hk t (or_introl eq_refl)) as (a & Ha & _).
    destruct (addrs_of m p); [destruct Ha | reflexivity]. }
  rewrite (open_calls_all L (next_conn m) ts (choice_installed L m p ts K Hc)).
  repeat split; auto.
  - rewrite so_pending, state_of_set_state. assert (p =? p = true) as -> by lia. reflexivity.
  - cbn [set_pending pending]. rewrite lookup_insert_key.
    assert (next_conn m =? next_conn m = true) as -> by lia. reflexivity.
Qed.

(* the same through dial_address *)
Lemma redial_addr_attempted L m p t a :
  state_of m p = Disconnected None -> installed L t = true ->
  let '(m', os) := do_dial_addr L m p t a false in
  os = [CallDial (next_conn m) t; Ret RET_OK] /\
  state_of m' p = Dialing (next_conn m) /\
  lookup (next_conn m) (pending m') = Some p.
Proof.
  intros Hs Hi. unfold do_dial_addr. rewrite Hi. cbn [negb].
  rewrite so_add_addr, so_bump, Hs. cbn [can_dial].
  repeat split.
  - rewrite so_pending, state_of_set_state. assert (p =? p = true) as -> by lia. reflexivity.
  - cbn [set_pending pending]. rewrite lookup_insert_key.
    assert (next_conn m =? next_conn m = true) as -> by lia. reflexivity.
Qed.

(* ... and as the manager's event: dial_address with the canonical address of p for an installed
   transport, below the limit *)
Lemma redial_addr_event L m p t :
  state_of m p = Disconnected None -> installed L t = true ->
  limit_reached (max_out L) (outs m) = false ->
  let '(m', os) := step L m (CmdDialAddr p t false) in
  os = [CallDial (next_conn m) t; Ret RET_OK] /\
  state_of m' p = Dialing (next_conn m) /\
  lookup (next_conn m) (pending m') = Some p.
Proof.
  intros Hs Hi Hl. cbn [step]. unfold do_dial_shape. rewrite Hl, dial_shape_canon.
  destruct (installed_lt _ _ Hi) as [-> | ->]; cbn [N.eqb Pos.eqb TCP WS];
    [apply (redial_addr_attempted L m p TCP) | apply (redial_addr_attempted L m p WS)]; assumption.
Qed.

(* a dial request for a peer that is connected or already being dialled changes nothing but
   (for dial_address) the id counter and the address book *)
Lemma dial_peer_refused_unchanged L m p ts fl :
  can_dial (state_of m p) <> GateOk -> fst (do_dial_peer L m p ts fl) = m.
Proof.
  intros H. unfold do_dial_peer.
  destruct (limit_reached (max_out L) (outs m)); [reflexivity|].
  destruct (p =? LOCAL); [reflexivity|].
  destruct (can_dial (state_of m p)); try reflexivity. congruence.
Qed.

(* a failure report for attempt c removes c from the pending attempts: it cannot be reported twice *)
Lemma dial_failure_consumes m c t pa :
  In (EvDialFailure c pa) (snd (do_dial_failure m c t pa)) ->
  lookup c (pending (fst (do_dial_failure m c t pa))) = None /\
  lookup c (pending m) <> None.
Proof.
  unfold do_dial_failure. rewrite add_addr_pending.
  destruct (lookup c (pending m)) as [p|] eqn:El; cbn [fst snd In]; [|tauto].
  intros _. split; [|discriminate]. cbn [set_state set_pending pending].
  rewrite lookup_remove_key. assert (c =? c = true) as -> by lia. reflexivity.
Qed.

Lemma open_failure_consumes m c t pa n :
  In (EvOpenFailure c n) (snd (do_open_failure m c t pa)) ->
  lookup c (pending (fst (do_open_failure m c t pa))) = None /\
  lookup c (pending m) <> None.
Proof.
  unfold do_open_failure. rewrite add_addr_pending.
  destruct (lookup c (pending m)) as [p|] eqn:El; cbn [fst snd In]; [|tauto].
  destruct (state_of (add_addr m pa (canon pa t)) p) as [r sc|d ts|d|d]; cbn [fst snd In]; try tauto.
  destruct (mem t ts); cbn [fst snd In]; [|tauto].
  destruct (remove_tr t ts); cbn [fst snd In]; [|tauto].
  intros _. split; [|discriminate]. cbn [set_state set_pending set_oerrs pending].
  rewrite lookup_remove_key. assert (c =? c = true) as -> by lia. reflexivity.
Qed.

(* a failed dial clears exactly the matching dial record and reports once *)
Lemma dial_failure_clears m c t p :
  lookup c (pending m) = Some p -> dial_record (state_of m p) = Some c ->
  (forall ts, state_of m p <> Opening c ts) ->
  let '(m', os) := do_dial_failure m c t p in
  os = [ProtoDialFailure p; EvDialFailure c p] /\ settled (state_of m' p).
Proof.
  intros Hl Hd Hno. unfold do_dial_failure. rewrite add_addr_pending, Hl.
  split; [reflexivity|]. rewrite state_of_set_state. assert (p =? p = true) as -> by lia.
  rewrite so_pending, so_add_addr.
  destruct (state_of m p) as [r [[e|e]|]|d ts|d|[d|]]; cbn [dial_record] in Hd; try discriminate;
    injection Hd as ->; cbn [st_on_dial_failure]; try (assert (c =? c = true) as -> by lia);
    cbn [settled dial_record]; try reflexivity. exfalso. eapply Hno. reflexivity.
Qed.

(* after the repair of F-C05a: an outbound connection rejected by the limit leaves no dial record *)
Lemma limit_reject_settles L m1 p c t f :
  limit_reached (max_out L) (outs m1) = true ->
  dial_record (state_of m1 p) = Some c -> (forall ts, state_of m1 p <> Opening c ts) ->
  existsb (fun kp : N * pstate => fst kp =? p) (peers m1) = true ->
  settled (state_of (fst (do_established_checked L m1 p c t false f)) p) /\
  snd (do_established_checked L m1 p c t false f) = [CallReject c t].
Proof.
  intros Hl Hd Hno Hex. unfold do_established_checked. rewrite Hl, Hex. cbn [fst snd].
  split; [|reflexivity]. rewrite state_of_set_state. assert (p =? p = true) as -> by lia.
  destruct (state_of m1 p) as [r [[e|e]|]|d ts|d|[d|]]; cbn [dial_record] in Hd; try discriminate;
    injection Hd as ->; cbn [st_on_dial_failure]; try (assert (c =? c = true) as -> by lia);
    cbn [settled dial_record]; try reflexivity. exfalso. eapply Hno. reflexivity.
Qed.

(* ---------- the rare outputs: panics and OpenFailure reports ---------- *)

(* every output except a panic site and an OpenFailure report *)
Definition plain (o : out) : Prop := match o with Stuck _ | EvOpenFailure _ _ => False | _ => True end.

Lemma plain_in o os : Forall plain os -> In o os -> plain o.
Proof. intros H Hin. rewrite Forall_forall in H. now apply H. Qed.

Lemma plain_demote os : Forall plain os -> Forall plain (map demote os).
Proof.
  intros H. induction H as [|o r Ho Hr IH]; cbn [map]; constructor; [|exact IH].
  destruct o; cbn [demote plain] in *; tauto.
Qed.

Lemma plain_cancels d ts : Forall plain (map (CallCancel d) ts).
Proof. induction ts as [|t r IH]; cbn [map]; constructor; [exact Logic.I | exact IH]. Qed.

Lemma open_calls_plain L c ts fl : Forall plain (fst (open_calls L c ts fl)).
Proof.
  induction ts as [|t r IH]; cbn [open_calls fst]; [constructor|].
  destruct (installed L t); [|exact IH]. destruct (mem t fl); cbn [fst]; [repeat constructor|].
  destruct (open_calls L c r fl) as [os ok]. cbn [fst] in *. constructor; [exact Logic.I | exact IH].
Qed.

Ltac plain_list := repeat first [apply Forall_nil | apply Forall_cons; [exact Logic.I|]].

Lemma dial_peer_plain L m p ts fl : Forall plain (snd (do_dial_peer L m p ts fl)).
Proof.
  unfold do_dial_peer. destruct (limit_reached _ _); [plain_list|].
  destruct (p =? LOCAL); [plain_list|].
  destruct (can_dial _); try plain_list.
  destruct (is_nil _); [plain_list|].
  pose proof (open_calls_plain L (next_conn m) ts fl) as H.
  destruct (open_calls L (next_conn m) ts fl) as [calls ok]. cbn [fst] in H.
  destruct ok; cbn [snd]; apply Forall_app; split; try exact H; plain_list.
Qed.

Lemma dial_addr_plain L m p t a f : Forall plain (snd (do_dial_addr L m p t a f)).
Proof.
  unfold do_dial_addr. destruct (negb _); [plain_list|].
  destruct (can_dial _); try plain_list. destruct f; plain_list.
Qed.

Lemma dial_shape_plain L m a f : Forall plain (snd (do_dial_shape L m a f)).
Proof.
  unfold do_dial_shape. destruct (limit_reached _ _); [plain_list|].
  destruct (dial_shape LISTEN a); [plain_list | apply dial_addr_plain | apply dial_addr_plain].
Qed.

Lemma est_finish_plain m4 p c t lst f cancels :
  Forall plain cancels -> Forall plain (snd (est_finish m4 p c t lst f cancels)).
Proof.
  intros Hc. unfold est_finish. destruct f.
  - destruct (do_closed m4 p c). cbn [snd]. apply Forall_app. split; [exact Hc | plain_list].
  - cbn [snd]. apply Forall_app. split; [exact Hc | plain_list].
Qed.

Lemma forallb_installed_false L ts :
  forallb (installed L) ts = false -> exists x, In x ts /\ installed L x = false.
Proof.
  induction ts as [|x r IH]; [discriminate|]. cbn [forallb].
  destruct (installed L x) eqn:E.
  - cbn [andb]. intros Ef. destruct (IH Ef) as (y & Hy & Hi). exists y. split; [now right | assumption].
  - intros _. exists x. split; [now left | assumption].
Qed.

(* where a panic site or an OpenFailure report can come from *)
Lemma special_outputs L m e o :
  In o (snd (step L m e)) -> ~ plain o ->
  (exists c t f, e = TrOpened c t f /\ lookup c (pending m) = None /\ o = Stuck 2) \/
  (exists p c t l f q, e = TrEstablished p c t l f /\ lookup c (pending m) = Some q /\ q <> p /\ o = Stuck 1) \/
  (exists p c ts t s, state_of m p = Opening c ts /\ In t ts /\ installed L t = false /\ o = Stuck s) \/
  (exists c t pa p d ts, e = TrOpenFailure c t pa /\ installed L t = true /\ lookup c (pending m) = Some p /\
      state_of m p = Opening d ts /\ In t ts /\ remove_tr t ts = [] /\ o = EvOpenFailure c (errs_of m c + 1)).
Proof.
  assert (Hpl : forall os, Forall plain os -> In o os -> ~ plain o -> False).
  { intros os H Hin Hn. apply Hn. exact (plain_in _ _ H Hin). }
  destruct e as [p ts fl|p t f|p t|c t pa|c t f|c t pa|p c t lst f|c t|c ok|p c| |a|p ts fl clog|a clog];
    cbn [step]; intros Hin Hn.
  - exfalso. exact (Hpl _ (dial_peer_plain _ _ _ _ _) Hin Hn).
  - exfalso. exact (Hpl _ (dial_shape_plain _ _ _ _) Hin Hn).
  - destruct Hin.
  - exfalso. destruct (installed L t); [|destruct Hin]. unfold do_dial_failure in Hin.
    destruct (lookup c _); cbn [snd] in Hin; eapply Hpl; try exact Hin; try exact Hn; plain_list.
  - destruct (installed L t); [|destruct Hin]. unfold do_opened in Hin.
    cbn [set_oerrs pending] in Hin. destruct (lookup c (pending m)) as [p|] eqn:El.
    + rewrite so_add_addr, so_pending, so_oerrs in Hin.
      destruct (state_of m p) as [r sc|d ts|d|d] eqn:Es; try (destruct Hin).
      destruct (forallb (installed L) ts) eqn:Ef; cbn [negb] in Hin.
      * exfalso. destruct f; cbn [snd] in Hin; eapply Hpl; try exact Hin; try exact Hn;
          (apply Forall_app; split; [apply plain_cancels | plain_list]).
      * cbn [snd In] in Hin. destruct Hin as [<-|[]]. right. right. left.
        destruct (forallb_installed_false _ _ Ef) as (x & Hx & Hi). exists p, d, ts, x, 3. auto.
    + cbn [snd In] in Hin. destruct Hin as [<-|[]]. left. exists c, t, f. auto.
  - destruct (installed L t) eqn:Ei; [|destruct Hin]. unfold do_open_failure in Hin.
    rewrite add_addr_pending in Hin.
    destruct (lookup c (pending m)) as [p|] eqn:El; [|destruct Hin].
    rewrite so_add_addr in Hin.
    destruct (state_of m p) as [r sc|d ts|d|d] eqn:Es; try (destruct Hin).
    destruct (mem t ts) eqn:Em; [|destruct Hin].
    destruct (remove_tr t ts) eqn:Er; [|destruct Hin].
    cbn [snd In] in Hin. destruct Hin as [<-|[<-|[]]]; [exfalso; apply Hn; exact Logic.I|].
    right. right. right. exists c, t, pa, p, d, ts. repeat split; auto.
    + now apply mem_in.
    + unfold errs_of. now rewrite add_addr_oerrs.
  - destruct (installed L t); [|destruct Hin]. unfold do_established in Hin.
    set (me := set_oerrs m (remove_key c (oerrs m))) in *.
    set (m0 := if lst then me else add_addr me p (canon p t)) in *.
    assert (Hp : pending m0 = pending m) by (subst m0 me; destruct lst; [reflexivity | now rewrite add_addr_pending]).
    assert (Hst : forall pd q, state_of (set_pending m0 pd) q = state_of m q).
    { intros pd q. rewrite so_pending. subst m0 me. destruct lst; [reflexivity | now rewrite so_add_addr]. }
    assert (Hchk : forall pd, In o (snd (do_established_checked L (set_pending m0 pd) p c t lst f)) ->
              exists d ts x, state_of m p = Opening d ts /\ In x ts /\ installed L x = false /\ o = Stuck 4).
    { intros pd. unfold do_established_checked.
      destruct (limit_reached _ _); [intros H; exfalso; eapply Hpl; try exact H; try exact Hn; plain_list|].
      rewrite Hst.
      destruct (st_on_established (state_of m p) c) as [s' acc]. destruct acc; cbn [negb].
      2:{ intros H; exfalso; eapply Hpl; try exact H; try exact Hn; plain_list. }
      destruct (state_of m p) as [r sc|d ts|d|d] eqn:Es; cbv beta iota zeta;
        try (intros H; exfalso; eapply Hpl; try exact H; try exact Hn; apply est_finish_plain; constructor).
      destruct (forallb (installed L) ts) eqn:Ef; cbn [negb].
      - intros H. exfalso. eapply Hpl; try exact H; try exact Hn. apply est_finish_plain, plain_cancels.
      - cbn [snd In]. intros [<-|[]].
        destruct (forallb_installed_false _ _ Ef) as (x & Hx & Hi). exists d, ts, x. auto. }
    rewrite Hp in Hin. destruct (lookup c (pending m)) as [dp|] eqn:El.
    + destruct (dp =? p) eqn:E.
      * right. right. left. destruct (Hchk _ Hin) as (d & ts & x & H1 & H2 & H3 & H4). exists p, d, ts, x, 4. auto.
      * cbn [snd In] in Hin. destruct Hin as [<-|[]]. right. left. exists p, c, t, lst, f, dp.
        repeat split; auto. lia.
    + right. right. left. destruct (Hchk _ Hin) as (d & ts & x & H1 & H2 & H3 & H4). exists p, d, ts, x, 4. auto.
  - exfalso. destruct (installed L t); [|destruct Hin].
    destruct (limit_reached _ _); cbn [snd] in Hin; eapply Hpl; try exact Hin; try exact Hn; plain_list.
  - exfalso. unfold do_accept_done in Hin. destruct (lookup c _) as [[q b]|]; [|destruct Hin].
    destruct ok; cbn [snd] in Hin; [eapply Hpl; try exact Hin; try exact Hn; plain_list|].
    destruct (do_closed _ q c). destruct Hin.
  - exfalso. destruct (do_closed m p c) as [m1 rep]. destruct rep; cbn [snd] in Hin; [|destruct Hin].
    eapply Hpl; try exact Hin; try exact Hn; plain_list.
  - exfalso. cbn [snd] in Hin. eapply Hpl; try exact Hin; try exact Hn; plain_list.
  - exfalso. exact (Hpl _ (dial_shape_plain _ _ _ _) Hin Hn).
  - exfalso. unfold do_hdial_peer in Hin. destruct (handle_gate m p);
      try solve [cbn [snd] in Hin; eapply Hpl; try exact Hin; try exact Hn; plain_list].
    destruct clog; [cbn [snd] in Hin; eapply Hpl; try exact Hin; try exact Hn; plain_list|].
    pose proof (dial_peer_plain L m p ts fl) as H. destruct (do_dial_peer L m p ts fl) as [m1 os].
    cbn [snd] in *. eapply Hpl; try exact Hin; try exact Hn. constructor; [exact Logic.I | now apply plain_demote].
  - exfalso. unfold do_hdial_addr in Hin. destruct (negb _);
      [cbn [snd] in Hin; eapply Hpl; try exact Hin; try exact Hn; plain_list|].
    destruct clog; [cbn [snd] in Hin; eapply Hpl; try exact Hin; try exact Hn; plain_list|].
    pose proof (dial_shape_plain L m a false) as H. destruct (do_dial_shape L m a false) as [m1 os].
    cbn [snd] in *. eapply Hpl; try exact Hin; try exact Hn. constructor; [exact Logic.I | now apply plain_demote].
Qed.

(* no handler reaches a debug assertion / expect when connection ids are consistent and the
   transports a peer is being opened on exist: Stuck is only produced by an opened connection
   nobody dialled, an established connection whose pending entry names another peer, or a
   cancel on a transport that is not installed *)
Lemma stuck_only_on_inconsistent_ids L m e s :
  In (Stuck s) (snd (step L m e)) ->
  (exists c t f, e = TrOpened c t f /\ lookup c (pending m) = None) \/
  (exists p c t l f q, e = TrEstablished p c t l f /\ lookup c (pending m) = Some q /\ q <> p) \/
  (exists p c ts t, state_of m p = Opening c ts /\ In t ts /\ installed L t = false).
Proof.
  intros H. destruct (special_outputs L m e (Stuck s) H (fun x => x)) as
    [(c & t & f & H1 & H2 & _)|[(p & c & t & l & f & q & H1 & H2 & H3 & _)|[(p & c & ts & t & s' & H1 & H2 & H3 & _)|
     (c & t & pa & p & d & ts & _ & _ & _ & _ & _ & _ & Ho)]]].
  - left. exists c, t, f. auto.
  - right. left. exists p, c, t, l, f, q. auto.
  - right. right. exists p, c, ts, t. auto.
  - discriminate.
Qed.

(* an OpenFailure report (and the DialFailure fan-out to the protocols that goes with it) is
   produced only by the OpenFailure event of the last transport the peer was still waiting for *)
Lemma open_failure_only_by_last L m e c n :
  In (EvOpenFailure c n) (snd (step L m e)) ->
  exists t pa p d ts, e = TrOpenFailure c t pa /\ installed L t = true /\ lookup c (pending m) = Some p /\
     state_of m p = Opening d ts /\ In t ts /\ remove_tr t ts = [] /\ n = errs_of m c + 1.
Proof.
  intros H. destruct (special_outputs L m e (EvOpenFailure c n) H (fun x => x)) as
    [(c0 & t & f & _ & _ & Ho)|[(p & c0 & t & l & f & q & _ & _ & _ & Ho)|[(p & c0 & ts & t & s' & _ & _ & _ & Ho)|
     (c0 & t & pa & p & d & ts & H1 & H2 & H3 & H4 & H5 & H6 & Ho)]]]; try discriminate.
  injection Ho as <- ->. exists t, pa, p, d, ts. auto 10.
Qed.
