From Coq Require Import ExtrOcamlBasic.
From V.C18 Require Import Glue.
Extraction Language OCaml.
Extraction "c18_model.ml" run_case prop_ok known_class.
