(* C18, round 3 — lemmas about coq/C18/Addr.v: round trip of the binary multiaddress, appending to
   raw address bytes, AddressRecord::new. *)
From Coq Require Import List Arith NArith Bool Lia.
From Coq Require Import ZifyBool ZifyNat ZifyN.
From V.common Require Import Wire Varint Protobuf.
From V.C18 Require Import Model Proofs KeyProofs Addr.
From V.C19 Require Import Formats.
Import ListNotations.
Open Scope N_scope.

(* ================================================================== lemmas *)
Local Arguments N.add : simpl never.
Local Arguments N.mul : simpl never.
Local Arguments N.sub : simpl never.
Local Arguments N.eqb : simpl never.
Local Arguments N.ltb : simpl never.
Local Arguments N.leb : simpl never.
Local Arguments N.pow : simpl never.
Local Arguments N.of_nat : simpl never.
Local Arguments N.to_nat : simpl never.

Lemma proto_kind_in_In t id k : proto_kind_in t id = Some k -> In id (map fst t).
Proof.
  induction t as [|[i k'] t IH]; cbn [proto_kind_in map fst]; [discriminate|].
  destruct (N.eqb_spec i id) as [->|]; [left; reflexivity|]. intros H. right. exact (IH H).
Qed.

Lemma proto_ids_small : Forall (fun i => i < 2 ^ 32) (map fst proto_table).
Proof. rewrite Protobuf.two32. repeat constructor. Qed.

Lemma proto_kind_small id k : proto_kind id = Some k -> id < 2 ^ 32.
Proof.
  intros H. apply proto_kind_in_In in H. pose proof proto_ids_small as F.
  rewrite Forall_forall in F. exact (F _ H).
Qed.

Lemma take_n_app' (x r : bytes) n : blen x = n -> take_n n (x ++ r) = Some (x, r).
Proof. intros <-. apply take_n_app. Qed.

Lemma comp_parse_enc c rest : comp_ok c = true ->
  comp_parse (enc_comp c ++ rest) = Some (fst c, snd c, rest).
Proof.
  destruct c as [id d]. unfold comp_ok, enc_comp, comp_parse. cbn [fst snd].
  intros H. apply andb_prop in H as [B H].
  destruct (proto_kind id) as [k|] eqn:K; [|discriminate].
  pose proof (proto_kind_small _ _ K) as S.
  rewrite <- app_assoc, (decode_u32_encode id _ S), K.
  destruct k as [n| | | | |].
  - apply N.eqb_eq in H. rewrite (take_n_app' d rest n H). reflexivity.
  - destruct d; [reflexivity|discriminate].
  - apply andb_prop in H as [D L]. rewrite <- app_assoc, decode_u64_encode by lia.
    rewrite take_n_app, D. reflexivity.
  - apply andb_prop in H as [D L]. rewrite <- app_assoc, decode_u64_encode by lia.
    rewrite take_n_app, D. reflexivity.
  - apply andb_prop in H as [D L]. rewrite <- app_assoc, decode_u64_encode by lia.
    rewrite take_n_app, D. reflexivity.
  - apply andb_prop in H as [D L]. rewrite <- app_assoc, decode_u64_encode by lia.
    rewrite take_n_app, D. reflexivity.
Qed.

Lemma enc_comp_nonempty c : enc_comp c <> [].
Proof.
  destruct c as [id d]. unfold enc_comp. pose proof (wf_nonempty _ (proj1 (encode_spec id))).
  destruct (encode id); [congruence|discriminate].
Qed.

Lemma maddr_parse_f_enc : forall cs fuel,
  forallb comp_ok cs = true -> (length (enc_maddr cs) < fuel)%nat ->
  maddr_parse_f fuel (enc_maddr cs) = Ok cs.
Proof.
  induction cs as [|c cs IH]; intros fuel F L.
  - destruct fuel; [cbn in L; lia|]. reflexivity.
  - cbn [forallb] in F. apply andb_prop in F as [C F].
    destruct fuel as [|f]; [lia|].
    unfold enc_maddr in *. cbn [flat_map] in *. fold (enc_maddr cs) in *.
    pose proof (enc_comp_nonempty c) as NE.
    assert (L1 : (1 <= length (enc_comp c))%nat) by (destruct (enc_comp c); [congruence|cbn; lia]).
    assert (L2 : (length (enc_maddr cs) < f)%nat) by (rewrite app_length in L; lia).
    destruct (enc_comp c ++ enc_maddr cs) as [|x t] eqn:E.
    { destruct (enc_comp c); [congruence|discriminate]. }
    cbn [maddr_parse_f]. rewrite <- E, (comp_parse_enc c _ C).
    rewrite (IH f F L2). destruct c; reflexivity.
Qed.

Lemma enc_comp_bytes c : comp_ok c = true -> bytes_ok (enc_comp c) = true.
Proof.
  destruct c as [id d]. unfold comp_ok, enc_comp. intros H. apply andb_prop in H as [B _].
  destruct (proto_kind id) as [[n| | | | |]|]; rewrite ?bytes_ok_app, ?encode_bytes, ?B; reflexivity.
Qed.

Lemma enc_maddr_bytes cs : forallb comp_ok cs = true -> bytes_ok (enc_maddr cs) = true.
Proof.
  induction cs as [|c cs IH]; [reflexivity|]. cbn [forallb]. intros H. apply andb_prop in H as [C F].
  unfold enc_maddr. cbn [flat_map]. rewrite bytes_ok_app, (enc_comp_bytes _ C). exact (IH F).
Qed.

(* the round trip of the binary multiaddress *)
Lemma maddr_parse_enc cs : forallb comp_ok cs = true -> maddr_parse (enc_maddr cs) = Ok cs.
Proof.
  intros F. unfold maddr_parse. rewrite (enc_maddr_bytes _ F). apply maddr_parse_f_enc; [exact F|lia].
Qed.

Lemma last_comp_app cs c : last_comp (cs ++ [c]) = Some c.
Proof. unfold last_comp. rewrite rev_app_distr. reflexivity. Qed.

Lemma p2p_comp_ok p : valid p = true -> comp_ok (P2P, to_bytes p) = true.
Proof.
  intros V. unfold comp_ok. destruct (valid_inv _ V) as (_ & _ & L & B).
  rewrite (to_bytes_ok _ B). change (proto_kind P2P) with (Some KPeerId). cbn [andb data_ok].
  rewrite (of_bytes_to_bytes _ V). cbn [andb].
  rewrite (to_bytes_shape _ V). unfold blen. cbn [length]. unfold len in L. rewrite Protobuf.two64.
  destruct (N.of_nat (S (S (length (digest p)))) <? 18446744073709551616) eqn:E; [reflexivity|lia].
Qed.

(* any address that ends with /p2p/<id>: try_from_multiaddr returns that id *)
Lemma of_maddr_trailing_p2p cs p : forallb comp_ok cs = true -> valid p = true ->
  of_maddr (enc_maddr (cs ++ [(P2P, to_bytes p)])) = Some p.
Proof.
  intros F V. unfold of_maddr. rewrite maddr_parse_enc.
  - unfold of_comps. rewrite last_comp_app, N.eqb_refl. apply of_bytes_to_bytes. exact V.
  - rewrite forallb_app, F. cbn [forallb]. rewrite (p2p_comp_ok _ V). reflexivity.
Qed.

Lemma of_maddr_valid b p : of_maddr b = Some p -> valid p = true.
Proof.
  unfold of_maddr, of_comps. destruct (maddr_parse b) as [cs| |]; try discriminate.
  destruct (last_comp cs) as [[id d]|]; [|discriminate].
  destruct (id =? P2P); [|discriminate]. apply of_bytes_valid.
Qed.

(* the single-component parser of Model.v is the general one restricted to one component *)
Lemma of_component_is_of_maddr p : valid p = true ->
  of_maddr (to_component p) = Some p /\ of_component (to_component p) = Some p.
Proof.
  intros V. split; [|apply of_component_to_component; exact V].
  assert (E : to_component p = enc_maddr ([] ++ [(P2P, to_bytes p)])).
  { unfold to_component, enc_maddr. cbn [app flat_map enc_comp]. change (proto_kind P2P) with (Some KPeerId).
    cbn iota. rewrite app_nil_r. unfold blen, len. reflexivity. }
  rewrite E. apply of_maddr_trailing_p2p; [reflexivity|exact V].
Qed.

(* AddressRecord::new: the stored address always ends with a /p2p component; it is the given peer
   unless the caller's address already named one, and then the address is kept as it is *)
Lemma record_new_spec p cs : forallb comp_ok cs = true -> valid p = true ->
  ends_with_p2p (record_new p cs) = true /\
  forallb comp_ok (record_new p cs) = true /\
  (ends_with_p2p cs = false -> of_maddr (enc_maddr (record_new p cs)) = Some p) /\
  (ends_with_p2p cs = true -> record_new p cs = cs).
Proof.
  intros F V. unfold record_new. destruct (ends_with_p2p cs) eqn:E.
  - repeat split; [exact E|exact F|discriminate].
  - repeat split; [| | |discriminate].
    + unfold ends_with_p2p. rewrite last_comp_app. apply N.eqb_refl.
    + rewrite forallb_app, F. cbn [forallb]. rewrite (p2p_comp_ok _ V). reflexivity.
    + intros _. apply of_maddr_trailing_p2p; assumption.
Qed.

(* an address that parsed and ends with /p2p always yields an id: multiaddr only builds a /p2p
   component from bytes that the reference's from_bytes takes, and litep2p's from_multihash admits
   exactly those (admits = ref_admits) *)
Lemma parsed_p2p_has_id b cs : maddr_parse b = Ok cs -> ends_with_p2p cs = true ->
  exists p, of_maddr b = Some p.
Proof.
  intros P E. unfold of_maddr, of_comps. rewrite P. unfold ends_with_p2p in E.
  destruct (last_comp cs) as [[id d]|] eqn:L; [|discriminate]. rewrite E.
  (* the component was accepted by comp_parse, whose data_ok for /p2p is of_bytes *)
  assert (In (id, d) cs).
  { apply in_rev. unfold last_comp in L. cbv delta [comp] in L. revert L.
    destruct (rev cs) as [|c r]; intros L; [discriminate|]. injection L as ->. left. reflexivity. }
  clear L.
  assert (G : forall fuel b cs, maddr_parse_f fuel b = Ok cs ->
             forall id d, In (id, d) cs -> id = P2P -> exists p, of_bytes d = Some p).
  { induction fuel as [|f IH]; intros b0 cs0; [discriminate|]. destruct b0 as [|x t]; cbn [maddr_parse_f].
    - intros [= <-] ? ? [].
    - destruct (comp_parse (x :: t)) as [[[i dd] rest]|] eqn:C; [|discriminate].
      destruct (maddr_parse_f f rest) as [cs1| |] eqn:R; try discriminate. intros [= <-] id0 d0 [I|I] EI.
      + injection I as -> ->. subst id0. revert C. unfold comp_parse.
        destruct (decode_u32 (x :: t)) as [[i' r]|]; [|discriminate].
        destruct (proto_kind i') as [k|] eqn:K; [|discriminate].
        destruct k as [n| | | | |].
        * destruct (take_n n r) as [[a b1]|]; [|discriminate]. intros [= -> _ _]. discriminate K.
        * intros [= -> _ _]. discriminate K.
        * destruct (decode_u64 r) as [[n r2]|]; [|discriminate]. destruct (take_n n r2) as [[a b1]|]; [|discriminate].
          destruct (data_ok KUtf8 a); [|discriminate]. intros [= -> _ _]. discriminate K.
        * destruct (decode_u64 r) as [[n r2]|]; [|discriminate]. destruct (take_n n r2) as [[a b1]|]; [|discriminate].
          destruct (data_ok KRaw a); [|discriminate]. intros [= -> _ _]. discriminate K.
        * destruct (decode_u64 r) as [[n r2]|]; [|discriminate]. destruct (take_n n r2) as [[a b1]|]; [|discriminate].
          destruct (data_ok KMultihash a); [|discriminate]. intros [= -> _ _]. discriminate K.
        * destruct (decode_u64 r) as [[n r2]|]; [|discriminate]. destruct (take_n n r2) as [[a b1]|]; [|discriminate].
          destruct (data_ok KPeerId a) eqn:D; [|discriminate]. intros [= _ -> _].
          cbn [data_ok] in D. destruct (of_bytes d0) as [p|]; [eauto|discriminate].
      + exact (IH _ _ R _ _ I EI). }
  unfold maddr_parse in P. destruct (bytes_ok b); [|discriminate].
  apply N.eqb_eq in E. destruct (G _ _ _ P _ _ H E) as (p & Hp). rewrite Hp. eauto.
Qed.

(* ---------- appending to an address that is kept as raw bytes ---------- *)
(* `Multiaddr::try_from(Vec<u8>)` validates and keeps the bytes as they came; `with(..)` appends the
   encoding of the new component to them. So the address of an AddressRecord is the caller's bytes
   followed by the canonical /p2p component, not a re-encoding. *)
Lemma take_varint_app_rest fuel : forall l p r x,
  take_varint fuel l = Some (p, r) -> take_varint fuel (l ++ x) = Some (p, r ++ x).
Proof.
  induction fuel as [|f IH]; intros l p r x; [destruct l; discriminate|].
  destruct l as [|b t]; cbn [take_varint app]; [discriminate|].
  destruct (b <? 128); [intros [= <- <-]; reflexivity|].
  destruct (take_varint f t) as [[p' r']|] eqn:T; [|discriminate]. intros [= <- <-].
  rewrite (IH _ _ _ x T). reflexivity.
Qed.

Lemma decode_gen_app_rest nb bits l n r x :
  decode_gen nb bits l = Some (n, r) -> decode_gen nb bits (l ++ x) = Some (n, r ++ x).
Proof.
  unfold decode_gen. destruct (take_varint nb l) as [[p r']|] eqn:T; [|discriminate].
  rewrite (take_varint_app_rest _ _ _ _ x T). destruct (minimal p); [|discriminate].
  intros [= <- <-]. reflexivity.
Qed.

Lemma take_n_app_rest n (l a r x : bytes) :
  take_n n l = Some (a, r) -> take_n n (l ++ x) = Some (a, r ++ x).
Proof.
  unfold take_n. destruct (blen l <? n) eqn:E; [discriminate|]. intros [= <- <-].
  rewrite blen_app. destruct (blen l + blen x <? n) eqn:E2; [lia|].
  assert (L : (N.to_nat n <= length l)%nat) by (unfold blen in E; lia).
  rewrite firstn_app, skipn_app.
  replace (N.to_nat n - length l)%nat with 0%nat by lia. cbn [firstn skipn]. rewrite app_nil_r. reflexivity.
Qed.

Lemma comp_parse_app_rest b id d rest x :
  comp_parse b = Some (id, d, rest) -> comp_parse (b ++ x) = Some (id, d, rest ++ x).
Proof.
  unfold comp_parse. destruct (decode_u32 b) as [[i r]|] eqn:D; [|discriminate].
  unfold decode_u32 in *. rewrite (decode_gen_app_rest _ _ _ _ _ x D).
  destruct (proto_kind i) as [k|]; [|discriminate].
  destruct k as [n| | | | |].
  - destruct (take_n n r) as [[a r']|] eqn:T; [|discriminate]. rewrite (take_n_app_rest _ _ _ _ x T).
    intros [= <- <- <-]. reflexivity.
  - intros [= <- <- <-]. reflexivity.
  - destruct (decode_u64 r) as [[n r2]|] eqn:D2; [|discriminate]. unfold decode_u64 in *.
    rewrite (decode_gen_app_rest _ _ _ _ _ x D2).
    destruct (take_n n r2) as [[a r']|] eqn:T; [|discriminate]. rewrite (take_n_app_rest _ _ _ _ x T).
    destruct (data_ok KUtf8 a); [|discriminate]. intros [= <- <- <-]. reflexivity.
  - destruct (decode_u64 r) as [[n r2]|] eqn:D2; [|discriminate]. unfold decode_u64 in *.
    rewrite (decode_gen_app_rest _ _ _ _ _ x D2).
    destruct (take_n n r2) as [[a r']|] eqn:T; [|discriminate]. rewrite (take_n_app_rest _ _ _ _ x T).
    destruct (data_ok KRaw a); [|discriminate]. intros [= <- <- <-]. reflexivity.
  - destruct (decode_u64 r) as [[n r2]|] eqn:D2; [|discriminate]. unfold decode_u64 in *.
    rewrite (decode_gen_app_rest _ _ _ _ _ x D2).
    destruct (take_n n r2) as [[a r']|] eqn:T; [|discriminate]. rewrite (take_n_app_rest _ _ _ _ x T).
    destruct (data_ok KMultihash a); [|discriminate]. intros [= <- <- <-]. reflexivity.
  - destruct (decode_u64 r) as [[n r2]|] eqn:D2; [|discriminate]. unfold decode_u64 in *.
    rewrite (decode_gen_app_rest _ _ _ _ _ x D2).
    destruct (take_n n r2) as [[a r']|] eqn:T; [|discriminate]. rewrite (take_n_app_rest _ _ _ _ x T).
    destruct (data_ok KPeerId a); [|discriminate]. intros [= <- <- <-]. reflexivity.
Qed.

Lemma maddr_parse_f_app fuel : forall b cs x cs',
  maddr_parse_f fuel b = Ok cs -> maddr_parse_f (S (length x)) x = Ok cs' ->
  maddr_parse_f (fuel + S (length x)) (b ++ x) = Ok (cs ++ cs').
Proof.
  induction fuel as [|f IH]; intros b cs x cs'; [discriminate|].
  destruct b as [|y t].
  - cbn [maddr_parse_f]. intros [= <-] X. cbn [app]. rewrite maddr_parse_fuel_irrelevant by lia. exact X.
  - cbn [maddr_parse_f]. destruct (comp_parse (y :: t)) as [[[id d] rest]|] eqn:C; [|discriminate].
    destruct (maddr_parse_f f rest) as [cs1| |] eqn:R; try discriminate. intros [= <-] X.
    change (S f + S (length x))%nat with (S (f + S (length x))).
    change ((y :: t) ++ x) with (y :: (t ++ x)). cbn [maddr_parse_f].
    change (y :: t ++ x) with ((y :: t) ++ x). rewrite (comp_parse_app_rest _ _ _ _ x C).
    rewrite (IH _ _ _ _ R X). reflexivity.
Qed.

Lemma maddr_parse_app b cs x cs' :
  maddr_parse b = Ok cs -> maddr_parse x = Ok cs' -> maddr_parse (b ++ x) = Ok (cs ++ cs').
Proof.
  unfold maddr_parse. destruct (bytes_ok b) eqn:B; [|discriminate]. destruct (bytes_ok x) eqn:X; [|discriminate].
  rewrite bytes_ok_app, B, X. cbn [andb]. intros P Q.
  rewrite <- (maddr_parse_f_app _ _ _ _ _ P Q). symmetry. apply maddr_parse_fuel_irrelevant.
  rewrite app_length. lia.
Qed.

Lemma record_new_bytes_spec p b cs : maddr_parse b = Ok cs -> valid p = true ->
  exists rb, record_new_bytes p b = Some rb /\ maddr_parse rb = Ok (record_new p cs) /\
    (ends_with_p2p cs = false -> of_maddr rb = Some p) /\
    (ends_with_p2p cs = true -> rb = b /\ exists q, of_maddr rb = Some q).
Proof.
  intros P V. unfold record_new_bytes, record_new. rewrite P.
  destruct (ends_with_p2p cs) eqn:E.
  - exists b. split; [reflexivity|]. split; [exact P|]. split; [discriminate|].
    intros _. split; [reflexivity|]. exact (parsed_p2p_has_id _ _ P E).
  - assert (Q : maddr_parse (enc_comp (P2P, to_bytes p)) = Ok [(P2P, to_bytes p)]).
    { replace (enc_comp (P2P, to_bytes p)) with (enc_maddr [(P2P, to_bytes p)])
        by (unfold enc_maddr; cbn [flat_map]; apply app_nil_r).
      apply maddr_parse_enc. cbn [forallb]. rewrite (p2p_comp_ok _ V). reflexivity. }
    exists (b ++ enc_comp (P2P, to_bytes p)). split; [reflexivity|].
    pose proof (maddr_parse_app _ _ _ _ P Q) as PQ. split; [exact PQ|]. split; [|discriminate].
    intros _. unfold of_maddr. rewrite PQ. unfold of_comps. rewrite last_comp_app, N.eqb_refl.
    apply of_bytes_to_bytes. exact V.
Qed.
