(* C18, round 3 — peer ids inside general binary multiaddresses: `PeerId::try_from_multiaddr` on
   any address (the last component decides), and `AddressRecord::new` / `from_multiaddr` of
   src/transport/manager/address.rs, which appends `/p2p/<peer>` through the infallible
   `From<PeerId> for multiaddr::PeerId`.

   The binary multiaddress parser is the one of coq/C19/Formats.v (multiaddr 0.18.2's protocol
   table; its /p2p component already calls this property's `of_bytes`). This file adds the encoder
   and the two address-book constructors (definitions only; lemmas in AddrProofs.v, so that the
   executable model does not depend on any proof). *)
From Coq Require Import List Arith NArith Bool Lia.
From V.common Require Import Wire Varint Protobuf.
From V.C18 Require Import Model.
From V.C19 Require Import Formats.
Import ListNotations.
Open Scope N_scope.

Definition comp := (N * bytes)%type.

(* Protocol::write_bytes *)
Definition enc_comp (c : comp) : bytes :=
  let '(id, d) := c in
  encode id ++
  match proto_kind id with
  | Some KNone | Some (KFixed _) | None => d
  | Some _ => encode (blen d) ++ d
  end.
Definition enc_maddr (cs : list comp) : bytes := flat_map enc_comp cs.

(* what `Protocol::from_bytes` gives back for a component *)
Definition comp_ok (c : comp) : bool :=
  let '(id, d) := c in
  bytes_ok d &&
  match proto_kind id with
  | None => false
  | Some KNone => match d with [] => true | _ => false end
  | Some (KFixed n) => blen d =? n
  | Some k => data_ok k d && (blen d <? 2 ^ 64)
  end.

(* Multiaddr::try_from(bytes) followed by PeerId::try_from_multiaddr: `iter().last()` must be a
   /p2p component whose multihash from_multihash admits *)
Definition last_comp (cs : list comp) : option comp :=
  match rev cs with c :: _ => Some c | [] => None end.
Definition of_comps (cs : list comp) : option pid :=
  match last_comp cs with
  | Some (id, d) => if id =? P2P then of_bytes d else None
  | None => None
  end.
Definition of_maddr (b : bytes) : option pid :=
  match maddr_parse b with Ok cs => of_comps cs | _ => None end.

Definition ends_with_p2p (cs : list comp) : bool :=
  match last_comp cs with Some (id, _) => id =? P2P | None => false end.

(* AddressRecord::new: append /p2p/<peer> unless the address already ends with a /p2p component
   (whatever peer that names) *)
Definition record_new (p : pid) (cs : list comp) : list comp :=
  if ends_with_p2p cs then cs else cs ++ [(P2P, to_bytes p)].
(* AddressRecord::from_multiaddr *)
Definition record_from_multiaddr (cs : list comp) : option (list comp) :=
  if ends_with_p2p cs then Some cs else None.

(* the bytes of the record's address and the id they carry *)
Definition record_new_bytes (p : pid) (b : bytes) : option bytes :=
  match maddr_parse b with
  | Ok cs => Some (if ends_with_p2p cs then b else b ++ enc_comp (P2P, to_bytes p))
  | _ => None
  end.

