(* C18 — pinned property theorems. This file contains statements, `exact`, and
   Print Assumptions only. The pins in tools/pins/C18.v re-check the statements.

   Bytes are N below 256 (`bytes_ok`), byte strings / ASCII texts are `list N`.
   `valid p` is what every value of the Rust type satisfies: admitted code/length, code < 2^64,
   digest of at most 64 bytes (Multihash<64>). SHA-256 is abstract: `sha` is any byte string
   of length 32. *)
From Coq Require Import List NArith Bool.
From V.gen Require Consts.
From V.common Require Import Varint.
From V.C18 Require Import Model Proofs.
Import ListNotations.
Open Scope N_scope.

(* ---- derivation ---- *)
(* identity multihash of the encoding when it has at most 42 bytes, SHA-256 multihash otherwise
   (42, 0x00 and 0x12 are the constants read from src/peer_id.rs at check time) *)
Theorem C18_derive_inline :
  forall sha enc, len enc <= 42 -> of_key_enc sha enc = mkPid 0 enc.
Proof. exact of_key_enc_inline. Qed.
Print Assumptions C18_derive_inline.

Theorem C18_derive_hashed :
  forall sha enc, 42 < len enc -> of_key_enc sha enc = mkPid 18 sha.
Proof. exact of_key_enc_hashed. Qed.
Print Assumptions C18_derive_hashed.

(* an Ed25519 key encodes to 36 bytes, so its id is always the identity multihash of
   08 01 12 20 ‖ key, and distinct keys have distinct ids *)
Theorem C18_ed25519_inline :
  forall sha k, length k = 32%nat ->
    len (encode_ed25519 k) = 36 /\ of_ed25519 sha k = mkPid 0 ([8; 1; 18; 32] ++ k).
Proof. intros sha k H. split; [exact (encode_ed25519_len k H) | exact (of_ed25519_inline sha k H)]. Qed.
Print Assumptions C18_ed25519_inline.

Theorem C18_ed25519_injective :
  forall sha1 sha2 k1 k2, length k1 = 32%nat -> length k2 = 32%nat ->
    of_ed25519 sha1 k1 = of_ed25519 sha2 k2 -> k1 = k2.
Proof. exact of_ed25519_injective. Qed.
Print Assumptions C18_ed25519_injective.

(* the canonical key encoding is recognised, and only it *)
Theorem C18_ed25519_encoding_roundtrip :
  forall k, length k = 32%nat -> decode_ed25519_canonical (encode_ed25519 k) = Some k.
Proof. exact decode_encode_ed25519. Qed.
Print Assumptions C18_ed25519_encoding_roundtrip.

Theorem C18_ed25519_encoding_unique :
  forall b k, decode_ed25519_canonical b = Some k -> b = encode_ed25519 k /\ length k = 32%nat.
Proof. exact decode_ed25519_canonical_inv. Qed.
Print Assumptions C18_ed25519_encoding_unique.

(* every constructor yields a valid id: the invariant behind `From<PeerId> for multiaddr::PeerId` *)
Theorem C18_derived_valid :
  forall sha enc, bytes_ok enc = true -> bytes_ok sha = true -> length sha = 32%nat ->
    valid (of_key_enc sha enc) = true.
Proof. exact of_key_enc_valid. Qed.
Print Assumptions C18_derived_valid.

Theorem C18_parsed_valid :
  forall b p, of_bytes b = Some p -> valid p = true.
Proof. exact of_bytes_valid. Qed.
Print Assumptions C18_parsed_valid.

Theorem C18_parsed_text_valid :
  forall t p, of_text t = Some p -> valid p = true.
Proof. exact of_text_valid. Qed.
Print Assumptions C18_parsed_text_valid.

Theorem C18_parsed_component_valid :
  forall b p, of_component b = Some p -> valid p = true.
Proof. exact of_component_valid. Qed.
Print Assumptions C18_parsed_component_valid.

(* litep2p's admission rule is the reference's (libp2p-identity 0.2.14, transcribed) *)
Theorem C18_admits_reference :
  forall p, admits p = ref_admits p.
Proof. exact admits_ref. Qed.
Print Assumptions C18_admits_reference.

(* ---- round trips: id -> rendering -> id ---- *)
Theorem C18_bytes_roundtrip :
  forall p, valid p = true -> of_bytes (to_bytes p) = Some p.
Proof. exact of_bytes_to_bytes. Qed.
Print Assumptions C18_bytes_roundtrip.

Theorem C18_text_roundtrip :
  forall p, valid p = true -> of_text (to_text p) = Some p.
Proof. exact of_text_to_text. Qed.
Print Assumptions C18_text_roundtrip.

Theorem C18_component_roundtrip :
  forall p, valid p = true -> of_component (to_component p) = Some p.
Proof. exact of_component_to_component. Qed.
Print Assumptions C18_component_roundtrip.

(* re-serialising an accepted input gives an input that parses to the same id *)
Theorem C18_bytes_normalise :
  forall b p, of_bytes b = Some p -> of_bytes (to_bytes p) = Some p.
Proof. exact of_bytes_normal. Qed.
Print Assumptions C18_bytes_normalise.

(* ---- canonicality: rendering <- id <- input ---- *)
(* One byte string per id, PROVIDED neither varint of the input occupies the 10th byte
   (inputs at most 10 bytes longer than their digest; real ids are 2 bytes longer).
   The full statement `of_bytes b = Some p -> to_bytes p = b` is false for the code as it is,
   see C18_bytes_canonical_refuted. *)
Theorem C18_bytes_canonical_partial :
  forall b p, of_bytes b = Some p -> (length b <= length (digest p) + 10)%nat -> to_bytes p = b.
Proof. exact of_bytes_canonical. Qed.
Print Assumptions C18_bytes_canonical_partial.

Theorem C18_bytes_canonical_refuted :
  exists b p, of_bytes b = Some p /\ to_bytes p <> b.
Proof. exact bytes_noncanonical_witness. Qed.
Print Assumptions C18_bytes_canonical_refuted.

(* base58 is a bijection between byte strings and the texts it accepts *)
Theorem C18_b58_decode_encode :
  forall b, bytes_ok b = true -> b58_decode (b58_encode b) = Some b.
Proof. exact b58_decode_encode. Qed.
Print Assumptions C18_b58_decode_encode.

Theorem C18_b58_encode_decode :
  forall t b, b58_decode t = Some b -> b58_encode b = t /\ bytes_ok b = true.
Proof. exact b58_encode_decode. Qed.
Print Assumptions C18_b58_encode_decode.

Theorem C18_text_canonical_partial :
  forall t p, of_text t = Some p ->
    (forall b, b58_decode t = Some b -> (length b <= length (digest p) + 10)%nat) ->
    to_text p = t.
Proof. exact of_text_canonical. Qed.
Print Assumptions C18_text_canonical_partial.

(* ---- varints (coq/common/Varint.v) ---- *)
Theorem C18_varint_roundtrip :
  forall n rest, n < 2 ^ 64 -> decode_u64 (encode n ++ rest) = Some (n, rest).
Proof. exact decode_u64_encode. Qed.
Print Assumptions C18_varint_roundtrip.

Theorem C18_varint_minimal :
  forall l n rest, bytes_ok l = true -> decode_u64 l = Some (n, rest) ->
    exists pre, l = pre ++ rest /\ (1 <= length pre <= 10)%nat /\ bytes_ok pre = true /\
                ((length pre <= 9)%nat -> pre = encode n).
Proof. exact decode_u64_shape. Qed.
Print Assumptions C18_varint_minimal.

(* non-vacuity: concrete ids of both kinds go round *)
Example C18_example_identity :
  of_bytes (to_bytes (mkPid 0 (encode_ed25519 (repeat 7 32)))) = Some (mkPid 0 (encode_ed25519 (repeat 7 32)))
  /\ of_text (to_text (mkPid 18 (repeat 9 32))) = Some (mkPid 18 (repeat 9 32))
  /\ to_text (mkPid 0 [1; 2; 3]) = [49; 53; 84; 74; 85; 114]
  /\ of_bytes [22; 1; 5] = None.
Proof. vm_compute. repeat split. Qed.
