(* C18 — pinned property theorems. This file contains statements, `exact`, and
   Print Assumptions only. The pins in tools/pins/C18.v re-check the statements.

   Bytes are N below 256 (`bytes_ok`), byte strings / ASCII texts are `list N`.
   `valid p` is what every value of the Rust type satisfies: admitted code/length, code < 2^64,
   digest of at most 64 bytes (Multihash<64>). SHA-256 is abstract: `sha` is any byte string
   of length 32. *)
From Coq Require Import List NArith Bool.
From V.gen Require Consts PeerIdSites.
From V.common Require Import Varint Protobuf Sha256.
From V.C18 Require Import Model Proofs KeyProofs Addr AddrProofs.
From V.C19 Require Import Formats.
Import ListNotations.
Open Scope N_scope.

(* ---- derivation ---- *)
(* identity multihash of the encoding when it has at most 42 bytes, SHA-256 multihash otherwise
   (42, 0x00 and 0x12 are the constants read from src/peer_id.rs at check time) *)
Theorem C18_derive_inline :
  forall sha enc, len enc <= 42 -> of_key_enc sha enc = mkPid 0 enc.
Proof. exact of_key_enc_inline. Qed.
Print Assumptions C18_derive_inline.

Theorem C18_derive_hashed :
  forall sha enc, 42 < len enc -> of_key_enc sha enc = mkPid 18 sha.
Proof. exact of_key_enc_hashed. Qed.
Print Assumptions C18_derive_hashed.

(* an Ed25519 key encodes to 36 bytes, so its id is always the identity multihash of
   08 01 12 20 ‖ key, and distinct keys have distinct ids *)
Theorem C18_ed25519_inline :
  forall sha k, length k = 32%nat ->
    len (encode_ed25519 k) = 36 /\ of_ed25519 sha k = mkPid 0 ([8; 1; 18; 32] ++ k).
Proof. intros sha k H. split; [exact (encode_ed25519_len k H) | exact (of_ed25519_inline sha k H)]. Qed.
Print Assumptions C18_ed25519_inline.

Theorem C18_ed25519_injective :
  forall sha1 sha2 k1 k2, length k1 = 32%nat -> length k2 = 32%nat ->
    of_ed25519 sha1 k1 = of_ed25519 sha2 k2 -> k1 = k2.
Proof. exact of_ed25519_injective. Qed.
Print Assumptions C18_ed25519_injective.

(* the canonical key encoding is recognised, and only it *)
Theorem C18_ed25519_encoding_roundtrip :
  forall k, length k = 32%nat -> decode_ed25519_canonical (encode_ed25519 k) = Some k.
Proof. exact decode_encode_ed25519. Qed.
Print Assumptions C18_ed25519_encoding_roundtrip.

Theorem C18_ed25519_encoding_unique :
  forall b k, decode_ed25519_canonical b = Some k -> b = encode_ed25519 k /\ length k = 32%nat.
Proof. exact decode_ed25519_canonical_inv. Qed.
Print Assumptions C18_ed25519_encoding_unique.

(* every constructor yields a valid id: the invariant behind `From<PeerId> for multiaddr::PeerId` *)
Theorem C18_derived_valid :
  forall sha enc, bytes_ok enc = true -> bytes_ok sha = true -> length sha = 32%nat ->
    valid (of_key_enc sha enc) = true.
Proof. exact of_key_enc_valid. Qed.
Print Assumptions C18_derived_valid.

Theorem C18_parsed_valid :
  forall b p, of_bytes b = Some p -> valid p = true.
Proof. exact of_bytes_valid. Qed.
Print Assumptions C18_parsed_valid.

Theorem C18_parsed_text_valid :
  forall t p, of_text t = Some p -> valid p = true.
Proof. exact of_text_valid. Qed.
Print Assumptions C18_parsed_text_valid.

Theorem C18_parsed_component_valid :
  forall b p, of_component b = Some p -> valid p = true.
Proof. exact of_component_valid. Qed.
Print Assumptions C18_parsed_component_valid.

(* litep2p's admission rule is the reference's (libp2p-identity 0.2.14, transcribed) *)
Theorem C18_admits_reference :
  forall p, admits p = ref_admits p.
Proof. exact admits_ref. Qed.
Print Assumptions C18_admits_reference.

(* ---- round trips: id -> rendering -> id ---- *)
Theorem C18_bytes_roundtrip :
  forall p, valid p = true -> of_bytes (to_bytes p) = Some p.
Proof. exact of_bytes_to_bytes. Qed.
Print Assumptions C18_bytes_roundtrip.

Theorem C18_text_roundtrip :
  forall p, valid p = true -> of_text (to_text p) = Some p.
Proof. exact of_text_to_text. Qed.
Print Assumptions C18_text_roundtrip.

Theorem C18_component_roundtrip :
  forall p, valid p = true -> of_component (to_component p) = Some p.
Proof. exact of_component_to_component. Qed.
Print Assumptions C18_component_roundtrip.

(* re-serialising an accepted input gives an input that parses to the same id *)
Theorem C18_bytes_normalise :
  forall b p, of_bytes b = Some p -> of_bytes (to_bytes p) = Some p.
Proof. exact of_bytes_normal. Qed.
Print Assumptions C18_bytes_normalise.

(* ---- canonicality: rendering <- id <- input ---- *)
(* One byte string per id, PROVIDED neither varint of the input occupies the 10th byte
   (inputs at most 10 bytes longer than their digest; real ids are 2 bytes longer).
   The full statement `of_bytes b = Some p -> to_bytes p = b` is false for the code as it is,
   see C18_bytes_canonical_refuted. *)
Theorem C18_bytes_canonical_partial :
  forall b p, of_bytes b = Some p -> (length b <= length (digest p) + 10)%nat -> to_bytes p = b.
Proof. exact of_bytes_canonical. Qed.
Print Assumptions C18_bytes_canonical_partial.

Theorem C18_bytes_canonical_refuted :
  exists b p, of_bytes b = Some p /\ to_bytes p <> b.
Proof. exact bytes_noncanonical_witness. Qed.
Print Assumptions C18_bytes_canonical_refuted.

(* base58 is a bijection between byte strings and the texts it accepts *)
Theorem C18_b58_decode_encode :
  forall b, bytes_ok b = true -> b58_decode (b58_encode b) = Some b.
Proof. exact b58_decode_encode. Qed.
Print Assumptions C18_b58_decode_encode.

Theorem C18_b58_encode_decode :
  forall t b, b58_decode t = Some b -> b58_encode b = t /\ bytes_ok b = true.
Proof. exact b58_encode_decode. Qed.
Print Assumptions C18_b58_encode_decode.

Theorem C18_text_canonical_partial :
  forall t p, of_text t = Some p ->
    (forall b, b58_decode t = Some b -> (length b <= length (digest p) + 10)%nat) ->
    to_text p = t.
Proof. exact of_text_canonical. Qed.
Print Assumptions C18_text_canonical_partial.

(* ---- varints (coq/common/Varint.v) ---- *)
Theorem C18_varint_roundtrip :
  forall n rest, n < 2 ^ 64 -> decode_u64 (encode n ++ rest) = Some (n, rest).
Proof. exact decode_u64_encode. Qed.
Print Assumptions C18_varint_roundtrip.

Theorem C18_varint_minimal :
  forall l n rest, bytes_ok l = true -> decode_u64 l = Some (n, rest) ->
    exists pre, l = pre ++ rest /\ (1 <= length pre <= 10)%nat /\ bytes_ok pre = true /\
                ((length pre <= 9)%nat -> pre = encode n).
Proof. exact decode_u64_shape. Qed.
Print Assumptions C18_varint_minimal.

(* ====================================================================================== *)
(* Round 2                                                                                 *)
(* ====================================================================================== *)

(* ---- one derivation ---- *)
(* Every way the crate turns a key into a peer id is `derive` applied to the canonical protobuf
   encoding of the key: PeerId::from_public_key, the two From impls, PublicKey::to_peer_id,
   ed25519::PublicKey::to_peer_id, the local ids (Litep2p::new, TransportManager, Identify),
   RemotePublicKey::to_peer_id, and through it the Noise identity check and the TLS certificate
   parser (QUIC), which are the same function of (decoder, hash, received bytes, signature ok).
   `H` is SHA-256, `dec` is RemotePublicKey::from_protobuf_encoding — both arbitrary. *)
Theorem C18_single_derivation :
  forall (H : hash) (dec : decoder),
  (forall k,
     from_impl H k = from_public_key H k /\ publickey_to_peer_id H k = from_public_key H k /\
     ed25519_to_peer_id H k = from_public_key H k /\ local_peer_id H k = from_public_key H k /\
     identify_local_peer_id H k = from_public_key H k /\
     from_public_key H k = derive H (key_encoding (KEd k))) /\
  (forall k, remote_to_peer_id H k = derive H (key_encoding k)) /\
  (forall identity verified,
     tls_identity dec H identity verified = noise_identity dec H identity verified) /\
  (forall identity k, dec identity = Some k ->
     noise_identity dec H identity true = Some (derive H (key_encoding k)) /\
     noise_identity dec H identity false = None) /\
  (forall identity v, dec identity = None -> noise_identity dec H identity v = None).
Proof. exact single_derivation. Qed.
Print Assumptions C18_single_derivation.

(* The model's table of derivation sites (each line names its model function) is the list of
   sites extracted from the Rust source by tools/gen_c18_sites.py on every check: a new place
   that makes a peer id from key material, or a site that changes what it calls, breaks this. *)
Theorem C18_derivation_sites :
  derivation_sites = V.gen.PeerIdSites.sites.
Proof. exact sites_match. Qed.
Print Assumptions C18_derivation_sites.

(* the id of a remote depends on the decoded key only, never on the bytes it was decoded from *)
Theorem C18_identity_encoding_irrelevant :
  forall dec H b1 b2 v, dec b1 = dec b2 -> noise_identity dec H b1 v = noise_identity dec H b2 v.
Proof. exact identity_encoding_irrelevant. Qed.
Print Assumptions C18_identity_encoding_irrelevant.

Theorem C18_ed25519_id :
  forall H k, length k = 32%nat -> from_public_key H k = mkPid 0 ([8; 1; 18; 32] ++ k).
Proof. exact ed25519_id. Qed.
Print Assumptions C18_ed25519_id.

(* RSA (cargo feature `rsa`): SHA-256 multihash of 08 00 12 len SubjectPublicKeyInfo, as in the
   reference; every RSA key of at least 19 PKCS#1 bytes is past the inline limit *)
Theorem C18_rsa_id :
  forall H pk, 19 <= len pk ->
    remote_to_peer_id H (KRsa pk) = mkPid 18 (H ([8; 0; 18] ++ encode (len (spki pk)) ++ spki pk)).
Proof. exact rsa_id. Qed.
Print Assumptions C18_rsa_id.

Theorem C18_is_public_key_own :
  forall H k, length k = 32%nat -> is_public_key H (from_public_key H k) k = Some true.
Proof. exact is_public_key_own. Qed.
Print Assumptions C18_is_public_key_own.

(* is_public_key also recognises the (legacy) SHA-256 id of an Ed25519 key *)
Theorem C18_is_public_key_true :
  forall H p k, is_public_key H p k = Some true <->
    p = mkPid 0 (encode_ed25519 k) \/ p = mkPid 18 (H (encode_ed25519 k)).
Proof. exact is_public_key_true. Qed.
Print Assumptions C18_is_public_key_true.

Theorem C18_random_valid :
  forall r, length r = 32%nat -> bytes_ok r = true -> valid (random_pid r) = true.
Proof. exact random_valid. Qed.
Print Assumptions C18_random_valid.

(* ---- Eq / Ord / Hash against the renderings ---- *)
(* two valid ids are equal iff their bytes, their base58 texts, their /p2p components are equal,
   iff the derived PartialEq says so, iff the derived Ord says Equal (Hash hashes code and
   digest, i.e. the value) *)
Theorem C18_eq_iff_bytes :
  forall p q, valid p = true -> valid q = true ->
  (p = q <-> to_bytes p = to_bytes q) /\ (p = q <-> to_text p = to_text q) /\
  (p = q <-> to_component p = to_component q) /\
  (pid_eqb p q = true <-> p = q) /\ (pid_cmp p q = Eq <-> p = q).
Proof. exact eq_iff_renderings. Qed.
Print Assumptions C18_eq_iff_bytes.

(* the derived Ord (code, size, zero-padded 64-byte array) is the lexicographic order of the bytes *)
Theorem C18_ord_is_bytes_order :
  forall p q, valid p = true -> valid q = true -> pid_cmp p q = list_cmp (to_bytes p) (to_bytes q).
Proof. exact cmp_is_bytes_order. Qed.
Print Assumptions C18_ord_is_bytes_order.

(* ---- serde ---- *)
Theorem C18_serde_roundtrip :
  forall p, valid p = true ->
  de_hr (ser_hr p) = Some p /\ de_bin (ser_bin p) = Some p /\ of_json (json_of p) = Some p.
Proof. exact serde_roundtrip. Qed.
Print Assumptions C18_serde_roundtrip.

Theorem C18_serde_sound :
  (forall t p, de_hr t = Some p -> valid p = true) /\ (forall b p, de_bin b = Some p -> valid p = true).
Proof. exact serde_sound. Qed.
Print Assumptions C18_serde_sound.

(* base58 texts consist of alphabet characters: nothing to escape in JSON, no '/' *)
Theorem C18_text_alphabet :
  forall p c, In c (to_text p) -> In c alphabet /\ json_plain c = true /\ c <> SLASH.
Proof. exact text_alphabet. Qed.
Print Assumptions C18_text_alphabet.

(* ---- the textual multiaddress ---- *)
Theorem C18_addr_text_roundtrip :
  forall p, valid p = true ->
  of_addr_text (to_addr_text p) = Some p /\
  of_addr_text (SLASH :: NAME_IPFS ++ SLASH :: to_text p) = Some p.
Proof. exact addr_text_roundtrip. Qed.
Print Assumptions C18_addr_text_roundtrip.

Theorem C18_addr_text_valid :
  forall t p, of_addr_text t = Some p -> valid p = true.
Proof. exact of_addr_text_valid. Qed.
Print Assumptions C18_addr_text_valid.

(* "/p2p/<s>" is the rendering of the id it parses to (same 10-byte-varint proviso as for bytes;
   the alias "/ipfs/<s>" and longer addresses are other spellings by design) *)
Theorem C18_addr_text_canonical_partial :
  forall s p, ~ In SLASH s -> of_addr_text (SLASH :: NAME_P2P ++ SLASH :: s) = Some p ->
  (forall b, b58_decode s = Some b -> (length b <= length (digest p) + 10)%nat) ->
  SLASH :: NAME_P2P ++ SLASH :: s = to_addr_text p.
Proof. exact of_addr_text_canonical. Qed.
Print Assumptions C18_addr_text_canonical_partial.

(* non-vacuity: concrete ids of both kinds go round *)
Example C18_example_identity :
  of_bytes (to_bytes (mkPid 0 (encode_ed25519 (repeat 7 32)))) = Some (mkPid 0 (encode_ed25519 (repeat 7 32)))
  /\ of_text (to_text (mkPid 18 (repeat 9 32))) = Some (mkPid 18 (repeat 9 32))
  /\ to_text (mkPid 0 [1; 2; 3]) = [49; 53; 84; 74; 85; 114]
  /\ of_bytes [22; 1; 5] = None.
Proof. vm_compute. repeat split. Qed.

(* non-vacuity, round 2: "/p2p/73kJ" and "/ipfs/73kJ" are the id 12 01 07, its JSON form is "73kJ" in
   quotes, a relayed address ending in p2p-circuit has no final id, the Ord of two concrete ids *)
Example C18_example_round2 :
  of_addr_text [47; 112; 50; 112; 47; 55; 51; 107; 74] = Some (mkPid 18 [7])
  /\ of_addr_text [47; 105; 112; 102; 115; 47; 55; 51; 107; 74] = Some (mkPid 18 [7])
  /\ of_addr_text ([47; 112; 50; 112; 47; 55; 51; 107; 74] ++ SLASH :: NAME_CIRCUIT) = None
  /\ json_of (mkPid 18 [7]) = [34; 55; 51; 107; 74; 34]
  /\ of_json [34; 55; 51; 107; 74; 34] = Some (mkPid 18 [7])
  /\ pid_cmp (mkPid 0 [7]) (mkPid 0 [7; 0]) = Lt
  /\ derivation_sites <> []
  /\ len (key_encoding (KRsa (repeat 1 270))) = 299.
Proof. vm_compute. repeat split; discriminate. Qed.

(* ====================================================================================== *)
(* Round 3                                                                                 *)
(* ====================================================================================== *)

(* ---- which protobuf-encoded key blobs are keys: the decoder that used to be an oracle ---- *)
(* keys.proto's message written by prost and read back by the prost model (common/Protobuf.v) *)
Theorem C18_keymsg_roundtrip :
  forall m, k_type m < 2 ^ 32 -> len (k_data m) < 2 ^ 64 -> decode_keymsg (encode_keymsg m) = Some m.
Proof. exact decode_keymsg_encode. Qed.
Print Assumptions C18_keymsg_roundtrip.

(* the canonical encoding of a key (what the peer id is derived from) is that message *)
Theorem C18_key_encoding_is_message :
  (forall k, length k = 32%nat -> key_encoding (KEd k) = encode_keymsg (mkKeyMsg KT_ED25519 k)) /\
  (forall pk, key_encoding (KRsa pk) = encode_keymsg (mkKeyMsg KT_RSA (spki pk))).
Proof.
  split; [intros k L; symmetry; exact (encode_keymsg_ed k L) | intros pk; symmetry; exact (encode_keymsg_rsa pk)].
Qed.
Print Assumptions C18_key_encoding_is_message.

(* the KeyType numbers, the list of all key types and the admitted ones (with / without the cargo
   feature `rsa`) are the tables extracted from src/schema/keys.proto and the match arms of
   src/crypto/mod.rs on every check *)
Theorem C18_admission_tables :
  KT_RSA = 0 /\ KT_ED25519 = 1 /\ KT_SECP256K1 = 2 /\ KT_ECDSA = 3 /\
  key_types = V.gen.PeerIdSites.key_type_numbers /\
  remote_admission = V.gen.PeerIdSites.remote_admission /\
  local_admission = V.gen.PeerIdSites.local_admission.
Proof.
  destruct key_type_numbers_match as (A & B & C & D & E). destruct admission_table_match as (F & G).
  repeat split; assumption.
Qed.
Print Assumptions C18_admission_tables.

(* exhaustively over the enum and beyond it: Ed25519 always, RSA only with the feature, Secp256k1,
   ECDSA and every number outside the enum never *)
Theorem C18_key_types :
  map (admitted_type remote_admission false) key_types = [false; true; false; false] /\
  map (admitted_type remote_admission true) key_types = [true; true; false; false] /\
  map (admitted_type local_admission true) key_types = [false; true; false; false] /\
  (forall rsa t, 4 <= t -> admitted_type remote_admission rsa t = false).
Proof.
  destruct admitted_enum as (A & B & C). repeat split; try assumption. exact admitted_outside_enum.
Qed.
Print Assumptions C18_key_types.

(* RemotePublicKey::from_protobuf_encoding admits a blob only as an Ed25519-typed message whose
   Data field has 32 bytes that are a curve point, or (feature `rsa`) an RSA-typed message whose
   Data field the X.509 parser takes; `on_curve` and `x509` are the two library calls left as
   parameters *)
Theorem C18_key_admission_sound :
  forall on_curve x509 rsa b k, decode_pubkey on_curve x509 rsa b = Some k ->
    exists m, decode_keymsg b = Some m /\
    match k with
    | KEd kk => k_type m = 1 /\ k_data m = kk /\ length kk = 32%nat /\ on_curve kk = true
    | KRsa pk => k_type m = 0 /\ rsa = true /\ x509 (k_data m) = Some pk
    end.
Proof. exact decode_pubkey_sound. Qed.
Print Assumptions C18_key_admission_sound.

Theorem C18_key_admission_other_types :
  forall on_curve x509 rsa b m,
    decode_keymsg b = Some m -> k_type m <> 1 -> (k_type m <> 0 \/ rsa = false) ->
    decode_pubkey on_curve x509 rsa b = None.
Proof. exact decode_pubkey_other_types. Qed.
Print Assumptions C18_key_admission_other_types.

(* the canonical encoding of a key is admitted as that key *)
Theorem C18_key_admission_canonical :
  forall on_curve x509 rsa,
  (forall k, length k = 32%nat ->
     decode_pubkey on_curve x509 rsa (key_encoding (KEd k)) = if on_curve k then Some (KEd k) else None) /\
  (forall pk, len (spki pk) < 2 ^ 64 ->
     decode_pubkey on_curve x509 rsa (key_encoding (KRsa pk)) =
       if rsa then match x509 (spki pk) with Some pk' => Some (KRsa pk') | None => None end else None).
Proof.
  intros oc x rsa. split; [exact (decode_pubkey_canonical_ed oc x rsa) | exact (decode_pubkey_canonical_rsa oc x rsa)].
Qed.
Print Assumptions C18_key_admission_canonical.

Theorem C18_ed25519_try_from_bytes :
  forall oc d k, ed25519_try_from_bytes oc d = Some k <-> (k = d /\ length d = 32%nat /\ oc d = true).
Proof. exact ed25519_try_from_bytes_spec. Qed.
Print Assumptions C18_ed25519_try_from_bytes.

(* The composition of decoder, admission and derivation: whatever bytes a remote sends as its
   identity (Noise payload, TLS certificate extension), an accepted identity has the id of the
   canonical encoding of the admitted key; for Ed25519 that is the identity multihash of
   08 01 12 20 ‖ key, and the digest of the id decodes back to the same key. *)
Theorem C18_remote_identity_canonical :
  forall on_curve x509 rsa (H : hash) b v p,
    noise_identity (decode_pubkey on_curve x509 rsa) H b v = Some p ->
    v = true /\ exists k, decode_pubkey on_curve x509 rsa b = Some k /\ p = derive H (key_encoding k) /\
      match k with
      | KEd kk => p = mkPid 0 (encode_ed25519 kk) /\ length kk = 32%nat /\ on_curve kk = true /\
                  decode_pubkey on_curve x509 rsa (digest p) = Some (KEd kk)
      | KRsa pk => rsa = true
      end.
Proof. exact remote_identity_canonical. Qed.
Print Assumptions C18_remote_identity_canonical.

Theorem C18_remote_identity_one_id :
  forall on_curve x509 rsa (H : hash) b1 b2 k,
    decode_pubkey on_curve x509 rsa b1 = Some k -> decode_pubkey on_curve x509 rsa b2 = Some k ->
    noise_identity (decode_pubkey on_curve x509 rsa) H b1 true =
      noise_identity (decode_pubkey on_curve x509 rsa) H b2 true /\
    tls_identity (decode_pubkey on_curve x509 rsa) H b1 true =
      noise_identity (decode_pubkey on_curve x509 rsa) H b1 true.
Proof. exact remote_identity_one_id. Qed.
Print Assumptions C18_remote_identity_one_id.

(* ---- every place that parses a peer id goes through the modelled gates ---- *)
Theorem C18_parse_sites :
  parse_sites = V.gen.PeerIdSites.parse_sites.
Proof. exact parse_sites_match. Qed.
Print Assumptions C18_parse_sites.

(* ---- canonicality, exactly ---- *)
(* an accepted byte string is header ++ digest with a header of 2, 11 or 20 bytes (each of the two
   varints is its one-byte encoding or occupies ten bytes), and with a 2-byte header it is the
   rendering of the id *)
Theorem C18_bytes_header :
  forall b p, of_bytes b = Some p ->
    exists h, b = h ++ digest p /\ (length h = 2 \/ length h = 11 \/ length h = 20)%nat /\
              (length h = 2%nat -> h = [code p; len (digest p)]).
Proof. exact of_bytes_header. Qed.
Print Assumptions C18_bytes_header.

(* the full form of C18_bytes_canonical_partial: an accepted input is the rendering of its id if
   AND ONLY IF it is two bytes longer than the digest *)
Theorem C18_bytes_canonical_iff :
  forall b p, of_bytes b = Some p -> (to_bytes p = b <-> length b = (length (digest p) + 2)%nat).
Proof. exact of_bytes_canonical_iff. Qed.
Print Assumptions C18_bytes_canonical_iff.

(* known-finding class 1, exactly: the accepted inputs that are not canonical are 9 or 18 bytes
   longer than the rendering *)
Theorem C18_bytes_noncanonical_length :
  forall b p, of_bytes b = Some p -> to_bytes p <> b ->
    (length b = length (to_bytes p) + 9 \/ length b = length (to_bytes p) + 18)%nat.
Proof. exact of_bytes_noncanonical_length. Qed.
Print Assumptions C18_bytes_noncanonical_length.

Theorem C18_text_canonical_iff :
  forall t p, of_text t = Some p ->
    (to_text p = t <-> exists b, b58_decode t = Some b /\ length b = (length (digest p) + 2)%nat).
Proof. exact of_text_canonical_iff. Qed.
Print Assumptions C18_text_canonical_iff.

Theorem C18_component_canonical_iff :
  forall b p, of_component b = Some p -> (to_component p = b <-> length b = (length (digest p) + 5)%nat).
Proof. exact of_component_canonical_iff. Qed.
Print Assumptions C18_component_canonical_iff.

(* The repair that was NOT made. A re-encoding check in from_bytes (`of_bytes_strict`: accept only
   when to_bytes of the result is the input) would make parsing canonical, and it differs from the
   real parser exactly on the inputs of class 1. The reference accepts those inputs (same multihash
   and unsigned-varint code; differential run), the multiaddress path never sees the bytes
   (multiaddr parses them into its own PeerId type before litep2p is asked), and the statement
   demands "accepts exactly what the reference accepts": the check would trade that clause for
   canonicality and make from_bytes disagree with try_from_multiaddr / TryFrom<Multihash>. *)
Theorem C18_strict_parser :
  (forall b p, of_bytes_strict b = Some p <-> (valid p = true /\ b = to_bytes p)) /\
  (forall b, of_bytes_strict b <> of_bytes b <->
     exists p, of_bytes b = Some p /\
               (length b = length (to_bytes p) + 9 \/ length b = length (to_bytes p) + 18)%nat).
Proof. split; [exact of_bytes_strict_spec | exact of_bytes_strict_differs]. Qed.
Print Assumptions C18_strict_parser.

(* ---- the error variant of from_str ---- *)
Theorem C18_text_error_variant :
  forall t,
  (of_text_err t = 0 <-> exists p, of_text t = Some p) /\
  (of_text_err t = 1 <-> b58_decode t = None) /\
  (of_text_err t = 2 <-> exists b, b58_decode t = Some b /\ of_bytes b = None).
Proof. exact of_text_err_spec. Qed.
Print Assumptions C18_text_error_variant.

(* ---- is_public_key on values of the type; the infallible conversion ---- *)
Theorem C18_is_public_key_total :
  forall H p k, valid p = true -> is_public_key H p k <> None.
Proof. exact is_public_key_total. Qed.
Print Assumptions C18_is_public_key_total.

Theorem C18_is_public_key_other :
  forall H k1 k2, length k1 = 32%nat -> length k2 = 32%nat -> k1 <> k2 ->
    is_public_key H (from_public_key H k1) k2 = Some false.
Proof. exact is_public_key_other. Qed.
Print Assumptions C18_is_public_key_other.

(* `From<PeerId> for multiaddr::PeerId` / to_multiaddr_peer_id: every valid id passes the
   reference's from_multihash *)
Theorem C18_infallible_conversion :
  forall p, valid p = true -> ref_admits p = true.
Proof. exact valid_ref_admits. Qed.
Print Assumptions C18_infallible_conversion.

(* non-vacuity, round 3: five other encodings of one Ed25519 key (fields swapped, type repeated,
   an unknown field, a non-minimal length varint, key type 2^32 + 1) are admitted as that key and
   a Secp256k1-typed one is not; the class-1 witness is 9 bytes longer than its rendering *)
Example C18_example_round3 :
  let k := repeat 7 32 in
  let dec := decode_pubkey (fun _ => true) (fun _ => None) false in
  dec ([18; 32] ++ k ++ [8; 1]) = Some (KEd k)
  /\ dec ([8; 0; 8; 1; 18; 32] ++ k) = Some (KEd k)
  /\ dec ([8; 1; 18; 32] ++ k ++ [24; 5]) = Some (KEd k)
  /\ dec ([8; 1; 18; 160; 0] ++ k) = Some (KEd k)
  /\ dec ([8; 129; 128; 128; 128; 16; 18; 32] ++ k) = Some (KEd k)
  /\ dec ([8; 2; 18; 32] ++ k) = None
  /\ dec ([8; 1; 18; 31] ++ removelast k) = None
  /\ of_bytes_strict witness_noncanonical = None
  /\ of_text_err [48] = 1 /\ of_text_err [50] = 2.
Proof. vm_compute. repeat split. Qed.

(* ---- peer ids inside general binary multiaddresses; the address book's constructors ---- *)
(* (the binary multiaddress parser `maddr_parse` is the model of coq/C19/Formats.v: multiaddr
   0.18.2's protocol table, whose /p2p component calls this property's `of_bytes`) *)
Theorem C18_multiaddr_roundtrip :
  forall cs, forallb comp_ok cs = true -> maddr_parse (enc_maddr cs) = Ok cs.
Proof. exact maddr_parse_enc. Qed.
Print Assumptions C18_multiaddr_roundtrip.

(* any address ending with /p2p/<id>, whatever precedes it: try_from_multiaddr gives the id back *)
Theorem C18_multiaddr_trailing_p2p :
  forall cs p, forallb comp_ok cs = true -> valid p = true ->
    of_maddr (enc_maddr (cs ++ [(P2P, to_bytes p)])) = Some p.
Proof. exact of_maddr_trailing_p2p. Qed.
Print Assumptions C18_multiaddr_trailing_p2p.

Theorem C18_multiaddr_id_valid :
  forall b p, of_maddr b = Some p -> valid p = true.
Proof. exact of_maddr_valid. Qed.
Print Assumptions C18_multiaddr_id_valid.

(* the one-component parser used in the canonicality theorems is the general one on that input *)
Theorem C18_component_is_multiaddr :
  forall p, valid p = true -> of_maddr (to_component p) = Some p /\ of_component (to_component p) = Some p.
Proof. exact of_component_is_of_maddr. Qed.
Print Assumptions C18_component_is_multiaddr.

(* a parsed address whose last component is /p2p always yields an id (multiaddr built that component
   with the reference's from_bytes; litep2p's from_multihash admits the same set) *)
Theorem C18_parsed_p2p_has_id :
  forall b cs, maddr_parse b = Ok cs -> ends_with_p2p cs = true -> exists p, of_maddr b = Some p.
Proof. exact parsed_p2p_has_id. Qed.
Print Assumptions C18_parsed_p2p_has_id.

(* src/transport/manager/address.rs, AddressRecord::new on ANY parsed address and any valid peer:
   the record's address parses, ends with /p2p and yields an id — the given peer when the address
   did not name one (the bytes of `/p2p/<peer>` are appended through the infallible conversion),
   the one it already named otherwise (address kept byte for byte) *)
Theorem C18_address_record_new :
  forall p b cs, maddr_parse b = Ok cs -> valid p = true ->
    exists rb, record_new_bytes p b = Some rb /\ maddr_parse rb = Ok (record_new p cs) /\
      (ends_with_p2p cs = false -> of_maddr rb = Some p) /\
      (ends_with_p2p cs = true -> rb = b /\ exists q, of_maddr rb = Some q).
Proof. exact record_new_bytes_spec. Qed.
Print Assumptions C18_address_record_new.

Theorem C18_address_record_components :
  forall p cs, forallb comp_ok cs = true -> valid p = true ->
    ends_with_p2p (record_new p cs) = true /\
    forallb comp_ok (record_new p cs) = true /\
    (ends_with_p2p cs = false -> of_maddr (enc_maddr (record_new p cs)) = Some p) /\
    (ends_with_p2p cs = true -> record_new p cs = cs).
Proof. exact record_new_spec. Qed.
Print Assumptions C18_address_record_components.

(* non-vacuity: /ip4/1.2.3.4/tcp/8080 gets /p2p/<12 01 07> appended; an address ending in
   /p2p/<12 01 07> is kept for another peer; from_multiaddr tells the two apart *)
Example C18_example_address_record :
  let a := [4; 1; 2; 3; 4; 6; 31; 144] in
  let p := mkPid 18 [7] in
  record_new_bytes p a = Some (a ++ [165; 3; 3; 18; 1; 7])
  /\ of_maddr (a ++ [165; 3; 3; 18; 1; 7]) = Some p
  /\ record_new_bytes (mkPid 0 [9]) (a ++ [165; 3; 3; 18; 1; 7]) = Some (a ++ [165; 3; 3; 18; 1; 7])
  /\ of_maddr a = None
  /\ of_maddr (a ++ [165; 3; 3; 18; 1; 7] ++ [6; 31; 144]) = None.
Proof. vm_compute. repeat split. Qed.

(* ---- the first sentence of the property in closed form, with SHA-256 itself (common/Sha256.v:
   executable FIPS 180-4, checked on the NIST vectors and differentially on every run) ---- *)
Theorem C18_derive_sha256 :
  forall enc, derive sha256 enc = (if len enc <=? 42 then mkPid 0 enc else mkPid 18 (sha256 enc)) /\
              derive_fast enc = derive sha256 enc.
Proof. intros enc. split; [exact (derive_sha256_spec enc) | exact (derive_fast_eq enc)]. Qed.
Print Assumptions C18_derive_sha256.

(* every derived id is a valid id (32-byte digest, bytes) and goes round through bytes, text and
   the multiaddress component *)
Theorem C18_derived_roundtrip :
  forall enc, bytes_ok enc = true ->
    valid (derive sha256 enc) = true /\
    of_bytes (to_bytes (derive sha256 enc)) = Some (derive sha256 enc) /\
    of_text (to_text (derive sha256 enc)) = Some (derive sha256 enc) /\
    of_component (to_component (derive sha256 enc)) = Some (derive sha256 enc).
Proof.
  intros enc B. split; [exact (derive_sha256_valid enc B) | exact (derive_sha256_roundtrip enc B)].
Qed.
Print Assumptions C18_derived_roundtrip.

(* known-finding class 1 for text and for a binary /p2p component, exactly (these are the length
   differences the oracle's known_class admits — nothing else is excused) *)
Theorem C18_text_noncanonical_length :
  forall t p, of_text t = Some p -> to_text p <> t ->
    exists b, b58_decode t = Some b /\
      (length b = length (to_bytes p) + 9 \/ length b = length (to_bytes p) + 18)%nat.
Proof. exact of_text_noncanonical_length. Qed.
Print Assumptions C18_text_noncanonical_length.

Theorem C18_component_noncanonical_length :
  forall b p, of_component b = Some p -> to_component p <> b ->
    exists e, (length b = length (to_component p) + e)%nat /\ In e [3; 9; 12; 18; 21; 27; 30]%nat.
Proof. exact of_component_noncanonical_length. Qed.
Print Assumptions C18_component_noncanonical_length.
