(* C18 — lemmas about the PeerId model. *)
From Coq Require Import List Arith NArith Bool Lia.
From Coq Require Import ZifyBool ZifyNat ZifyN.
From V.gen Require Consts.
From V.common Require Import Varint.
From V.C18 Require Import Model.
Import ListNotations.
Open Scope N_scope.

Arguments N.add : simpl never.
Arguments N.mul : simpl never.
Arguments N.sub : simpl never.
Arguments N.eqb : simpl never.
Arguments N.ltb : simpl never.
Arguments N.leb : simpl never.
Arguments N.div : simpl never.
Arguments N.modulo : simpl never.
Arguments N.pow : simpl never.
Arguments N.of_nat : simpl never.

Lemma consts_facts :
  MAX_INLINE = 42 /\ IDENTITY = 0 /\ MH_SIZE = 64 /\ SHA256 = 18.
Proof. repeat split; reflexivity. Qed.

Lemma two64 : 2 ^ 64 = 18446744073709551616.
Proof. reflexivity. Qed.

Lemma len_app a b : len (a ++ b) = len a + len b.
Proof. unfold len. rewrite app_length. lia. Qed.

(* ---------- admission: litep2p = reference ---------- *)
Lemma match_other (A : Type) (c : N) (a b d : A) :
  c <> 18 -> c <> 0 -> match c with 18 => a | 0 => b | _ => d end = d.
Proof.
  intros H1 H2. destruct c as [|p]; [congruence|].
  do 5 (destruct p as [p|p|]; try reflexivity). congruence.
Qed.

Lemma admits_ref p : admits p = ref_admits p.
Proof.
  unfold admits, ref_admits. destruct consts_facts as (-> & -> & _ & ->).
  destruct (N.eqb_spec (code p) 18) as [->|H1]; [reflexivity|].
  destruct (N.eqb_spec (code p) 0) as [->|H2]; cbn [andb].
  - destruct (len (digest p) <=? 42); reflexivity.
  - rewrite match_other by assumption. reflexivity.
Qed.

(* ---------- bytes ---------- *)
Lemma valid_inv p : valid p = true ->
  admits p = true /\ code p < 2 ^ 64 /\ len (digest p) <= 64 /\ bytes_ok (digest p) = true.
Proof.
  unfold valid. destruct consts_facts as (_ & _ & -> & _). intros H.
  apply andb_prop in H as [H H4]. apply andb_prop in H as [H H3]. apply andb_prop in H as [H1 H2].
  repeat split; [exact H1|lia|lia|exact H4].
Qed.

Lemma to_bytes_ok p : bytes_ok (digest p) = true -> bytes_ok (to_bytes p) = true.
Proof.
  intros H. unfold to_bytes, mh_to_bytes. rewrite !bytes_ok_app, !encode_bytes, H. reflexivity.
Qed.

Lemma mh_parse_to_bytes p :
  code p < 2 ^ 64 -> len (digest p) <= 64 -> mh_parse (mh_to_bytes p) = Some p.
Proof.
  intros Hc Hl. unfold mh_parse, mh_to_bytes.
  rewrite decode_u64_encode by exact Hc.
  rewrite decode_u64_encode by (rewrite two64; lia).
  destruct consts_facts as (_ & _ & -> & _).
  destruct ((64 <? len (digest p)) || (255 <? len (digest p))) eqn:E; [lia|].
  rewrite N.eqb_refl. destruct p; reflexivity.
Qed.

Lemma of_bytes_to_bytes p : valid p = true -> of_bytes (to_bytes p) = Some p.
Proof.
  intros V. destruct (valid_inv _ V) as (A & C & L & B).
  unfold of_bytes. rewrite (to_bytes_ok _ B). unfold to_bytes.
  rewrite (mh_parse_to_bytes _ C L), A. reflexivity.
Qed.

(* shape of an accepted input *)
Lemma of_bytes_inv b p : of_bytes b = Some p ->
  valid p = true /\
  exists pre1 pre2, b = pre1 ++ pre2 ++ digest p /\
    (1 <= length pre1 <= 10)%nat /\ (1 <= length pre2 <= 10)%nat /\
    ((length pre1 <= 9)%nat -> pre1 = encode (code p)) /\
    ((length pre2 <= 9)%nat -> pre2 = encode (len (digest p))).
Proof.
  unfold of_bytes. destruct (bytes_ok b) eqn:B; [|discriminate].
  unfold mh_parse.
  destruct (decode_u64 b) as [[c r1]|] eqn:D1; [|discriminate].
  destruct (decode_u64 r1) as [[sz r2]|] eqn:D2; [|discriminate].
  destruct ((MH_SIZE <? sz) || (255 <? sz)) eqn:E; [discriminate|].
  destruct (len r2 =? sz) eqn:E2; [|discriminate].
  destruct (admits (mkPid c r2)) eqn:A; [|discriminate]. intros [= <-].
  destruct (decode_u64_shape _ _ _ B D1) as (pre1 & E1 & L1 & B1 & C1).
  assert (Br1 : bytes_ok r1 = true).
  { rewrite E1, bytes_ok_app in B. apply andb_prop in B. tauto. }
  destruct (decode_u64_shape _ _ _ Br1 D2) as (pre2 & E3 & L2 & B2 & C2).
  assert (Br2 : bytes_ok r2 = true).
  { rewrite E3, bytes_ok_app in Br1. apply andb_prop in Br1. tauto. }
  pose proof (decode_gen_lt _ _ _ _ _ D1) as Hc.
  cbn [code digest]. split.
  - unfold valid. cbn [code digest]. rewrite A, Br2.
    destruct consts_facts as (_ & _ & EM & _). rewrite EM in *.
    destruct (c <? 2 ^ 64) eqn:E4; [|lia].
    destruct (len r2 <=? 64) eqn:E5; [reflexivity|lia].
  - exists pre1, pre2. split; [rewrite E1, E3; reflexivity|].
    split; [exact L1|]. split; [exact L2|]. split; [exact C1|].
    intros H9. replace (len r2) with sz by lia. exact (C2 H9).
Qed.

Lemma of_bytes_valid b p : of_bytes b = Some p -> valid p = true.
Proof. intros H. apply (of_bytes_inv _ _ H). Qed.

Lemma of_bytes_normal b p : of_bytes b = Some p -> of_bytes (to_bytes p) = Some p.
Proof. intros H. apply of_bytes_to_bytes. exact (of_bytes_valid _ _ H). Qed.

(* canonical unless one of the two varints occupies 10 bytes *)
Lemma of_bytes_canonical b p :
  of_bytes b = Some p -> (length b <= length (digest p) + 10)%nat -> to_bytes p = b.
Proof.
  intros H L. destruct (of_bytes_inv _ _ H) as (_ & pre1 & pre2 & E & L1 & L2 & C1 & C2).
  rewrite E, !app_length in L.
  unfold to_bytes, mh_to_bytes. rewrite E, <- C1, <- C2 by lia. reflexivity.
Qed.

Lemma of_bytes_injective_on_canonical b1 b2 p :
  of_bytes b1 = Some p -> of_bytes b2 = Some p ->
  (length b1 <= length (digest p) + 10)%nat -> (length b2 <= length (digest p) + 10)%nat -> b1 = b2.
Proof.
  intros H1 H2 L1 L2. rewrite <- (of_bytes_canonical _ _ H1 L1). apply of_bytes_canonical; assumption.
Qed.

(* the non-canonical input that the real code accepts (10-byte varint, truncated by the decoder) *)
Definition witness_noncanonical : list N :=
  [146; 128; 128; 128; 128; 128; 128; 128; 128; 2; 1; 7].

Lemma bytes_noncanonical_witness :
  exists b p, of_bytes b = Some p /\ to_bytes p <> b.
Proof.
  exists witness_noncanonical, (mkPid 18 [7]). split; [vm_compute; reflexivity|].
  vm_compute. discriminate.
Qed.

(* ---------- derivation ---------- *)
Lemma of_key_enc_inline sha enc : len enc <= 42 -> of_key_enc sha enc = mkPid 0 enc.
Proof.
  intros H. unfold of_key_enc. destruct consts_facts as (-> & -> & _ & _).
  destruct (len enc <=? 42) eqn:E; [reflexivity|lia].
Qed.

Lemma of_key_enc_hashed sha enc : 42 < len enc -> of_key_enc sha enc = mkPid 18 sha.
Proof.
  intros H. unfold of_key_enc. destruct consts_facts as (-> & _ & _ & ->).
  destruct (len enc <=? 42) eqn:E; [lia|reflexivity].
Qed.

Lemma of_key_enc_valid sha enc :
  bytes_ok enc = true -> bytes_ok sha = true -> length sha = 32%nat ->
  valid (of_key_enc sha enc) = true.
Proof.
  intros B1 B2 L. unfold of_key_enc, valid, admits.
  destruct consts_facts as (-> & -> & -> & ->).
  destruct (len enc <=? 42) eqn:E; cbn [code digest].
  - rewrite B1. change (0 =? 18) with false. change (0 =? 0) with true. rewrite E. cbn [andb].
    rewrite two64. change (0 <? 18446744073709551616) with true.
    destruct (len enc <=? 64) eqn:E2; [reflexivity|lia].
  - rewrite B2. change (18 =? 18) with true. rewrite two64.
    change (18 <? 18446744073709551616) with true. unfold len. rewrite L. reflexivity.
Qed.

Lemma encode_ed25519_len k : length k = 32%nat -> len (encode_ed25519 k) = 36.
Proof. intros H. unfold len, encode_ed25519. rewrite app_length, H. reflexivity. Qed.

Lemma of_ed25519_inline sha k :
  length k = 32%nat -> of_ed25519 sha k = mkPid 0 (encode_ed25519 k).
Proof.
  intros H. unfold of_ed25519. apply of_key_enc_inline. rewrite (encode_ed25519_len _ H). lia.
Qed.

Lemma of_ed25519_injective sha1 sha2 k1 k2 :
  length k1 = 32%nat -> length k2 = 32%nat -> of_ed25519 sha1 k1 = of_ed25519 sha2 k2 -> k1 = k2.
Proof.
  intros H1 H2. rewrite !of_ed25519_inline by assumption. unfold encode_ed25519.
  intros [= E]. exact E.
Qed.

Lemma decode_encode_ed25519 k :
  length k = 32%nat -> decode_ed25519_canonical (encode_ed25519 k) = Some k.
Proof.
  intros H. unfold encode_ed25519, decode_ed25519_canonical. cbn [app].
  unfold len. rewrite H. reflexivity.
Qed.

Lemma decode_ed25519_canonical_inv b k :
  decode_ed25519_canonical b = Some k -> b = encode_ed25519 k /\ length k = 32%nat.
Proof.
  unfold decode_ed25519_canonical, encode_ed25519.
  destruct b as [|b0 b]; [discriminate|].
  destruct (N.eq_dec b0 8) as [->|N0]; [|destruct b0 as [|q]; [discriminate|]; do 4 (destruct q as [q|q|]; try discriminate); congruence].
  destruct b as [|b1 b]; [discriminate|].
  destruct (N.eq_dec b1 1) as [->|N1]; [|destruct b1 as [|q]; [discriminate|]; do 1 (destruct q as [q|q|]; try discriminate); congruence].
  destruct b as [|b2 b]; [discriminate|].
  destruct (N.eq_dec b2 18) as [->|N2]; [|destruct b2 as [|q]; [discriminate|]; do 5 (destruct q as [q|q|]; try discriminate); congruence].
  destruct b as [|b3 b]; [discriminate|].
  destruct (N.eq_dec b3 32) as [->|N3]; [|destruct b3 as [|q]; [discriminate|]; do 6 (destruct q as [q|q|]; try discriminate); congruence].
  destruct (len b =? 32) eqn:E; [|discriminate]. intros [= <-]. split; [reflexivity|]. unfold len in E. lia.
Qed.

(* ---------- positional numbers ---------- *)
Lemma last_cons (x : N) l d : l <> [] -> last (x :: l) d = last l d.
Proof. destruct l; [congruence|reflexivity]. Qed.

Lemma hd_rev_last (l : list N) d : hd d (rev l) = last l d.
Proof.
  induction l as [|x t IH]; [reflexivity|].
  cbn [rev]. destruct t as [|y t'].
  - reflexivity.
  - rewrite last_cons by discriminate. rewrite <- IH.
    cbn [rev]. destruct (rev t' ++ [y]) eqn:E; [destruct (rev t'); discriminate|reflexivity].
Qed.

Lemma last_rev_hd (l : list N) d : last (rev l) d = hd d l.
Proof. rewrite <- hd_rev_last, rev_involutive. reflexivity. Qed.

Lemma pow2_succ f : 2 ^ N.of_nat (S f) = 2 * 2 ^ N.of_nat f.
Proof. rewrite Nat2N.inj_succ, N.pow_succ_r by lia. reflexivity. Qed.

Lemma pow2_pos f : 0 < 2 ^ N.of_nat f.
Proof. induction f as [|f IH]; [reflexivity|rewrite pow2_succ; lia]. Qed.

Section Radix.
Variable base : N.
Hypothesis Hbase : 2 <= base.

Lemma digits_le_zero f : digits_le base f 0 = [].
Proof. destruct f; reflexivity. Qed.

Lemma div_base_lt n q : n < 2 * q -> n / base < q.
Proof.
  intros H. apply N.div_lt_upper_bound; [lia|].
  assert (2 * q <= base * q) by (apply N.mul_le_mono_r; lia). lia.
Qed.

Lemma value_digits f : forall n, n < 2 ^ N.of_nat f -> value_le base (digits_le base f n) = n.
Proof.
  induction f as [|f IH]; intros n H.
  - change (2 ^ N.of_nat 0) with 1 in H. cbn [digits_le value_le]. lia.
  - cbn [digits_le]. destruct (n =? 0) eqn:E; [cbn [value_le]; lia|].
    cbn [value_le]. rewrite pow2_succ in H. rewrite IH by (apply div_base_lt; exact H).
    pose proof (N.div_mod n base). lia.
Qed.

Lemma digits_nonempty f n : n <> 0 -> n < 2 ^ N.of_nat f -> digits_le base f n <> [].
Proof.
  destruct f as [|f]; intros H0 H.
  - change (2 ^ N.of_nat 0) with 1 in H. lia.
  - cbn [digits_le]. destruct (n =? 0) eqn:E; [lia|discriminate].
Qed.

Lemma digits_ok f : forall n, n < 2 ^ N.of_nat f ->
  Forall (fun d => d < base) (digits_le base f n) /\ last (digits_le base f n) 1 <> 0.
Proof.
  induction f as [|f IH]; intros n H.
  - cbn [digits_le last]. split; [constructor|lia].
  - cbn [digits_le]. destruct (n =? 0) eqn:E; [cbn [last]; split; [constructor|lia]|].
    rewrite pow2_succ in H.
    assert (Hd : n / base < 2 ^ N.of_nat f) by (apply div_base_lt; exact H).
    destruct (IH _ Hd) as [F L]. split.
    + constructor; [apply N.mod_lt; lia|exact F].
    + destruct (N.eq_dec (n / base) 0) as [Z|NZ].
      * rewrite Z, digits_le_zero. cbn [last].
        apply N.div_small_iff in Z; [|lia]. rewrite N.mod_small by exact Z. lia.
      * rewrite last_cons by (apply digits_nonempty; assumption). exact L.
Qed.

Lemma value_le_pos ds : ds <> [] -> last ds 1 <> 0 -> 0 < value_le base ds.
Proof.
  induction ds as [|d t IH]; [congruence|]. intros _ L. cbn [value_le].
  destruct t as [|x t'].
  - cbn [last] in L. cbn [value_le]. lia.
  - rewrite last_cons in L by discriminate.
    assert (0 < value_le base (x :: t')) by (apply IH; [discriminate|exact L]).
    assert (1 * value_le base (x :: t') <= base * value_le base (x :: t')) by (apply N.mul_le_mono_r; lia).
    lia.
Qed.

Lemma digits_value : forall ds f,
  Forall (fun d => d < base) ds -> last ds 1 <> 0 -> value_le base ds < 2 ^ N.of_nat f ->
  digits_le base f (value_le base ds) = ds.
Proof.
  induction ds as [|d t IH]; intros f F L H.
  - cbn [value_le]. apply digits_le_zero.
  - pose proof (value_le_pos (d :: t) ltac:(discriminate) L) as P.
    destruct f as [|f]; [change (2 ^ N.of_nat 0) with 1 in H; lia|].
    inversion F as [|? ? Fd Ft]; subst.
    cbn [digits_le]. destruct (value_le base (d :: t) =? 0) eqn:E; [lia|].
    cbn [value_le] in *.
    assert (Hm : (d + base * value_le base t) mod base = d).
    { rewrite N.mul_comm, N.mod_add by lia. apply N.mod_small. exact Fd. }
    assert (Hq : (d + base * value_le base t) / base = value_le base t).
    { rewrite N.mul_comm, N.div_add by lia. rewrite N.div_small by exact Fd. lia. }
    rewrite Hm, Hq. f_equal. apply IH.
    + exact Ft.
    + destruct t as [|x t']; [cbn [last]; lia|]. rewrite last_cons in L by discriminate. exact L.
    + rewrite pow2_succ in H.
      assert (2 * value_le base t <= base * value_le base t) by (apply N.mul_le_mono_r; lia). lia.
Qed.

Lemma size_fuel n : n < 2 ^ N.of_nat (N.to_nat (N.size n)).
Proof. rewrite N2Nat.id. apply N.size_gt. Qed.

Lemma value_digits_be n : value_be base (digits_be base n) = n.
Proof. unfold value_be, digits_be. rewrite rev_involutive. apply value_digits. apply size_fuel. Qed.

Lemma digits_be_ok n :
  Forall (fun d => d < base) (digits_be base n) /\ hd 1 (digits_be base n) <> 0.
Proof.
  unfold digits_be. destruct (digits_ok _ n (size_fuel n)) as [F L]. split.
  - apply Forall_rev. exact F.
  - rewrite hd_rev_last. exact L.
Qed.

Lemma digits_value_be ds :
  Forall (fun d => d < base) ds -> hd 1 ds <> 0 -> digits_be base (value_be base ds) = ds.
Proof.
  intros F H. unfold digits_be, value_be.
  rewrite digits_value; [apply rev_involutive| apply Forall_rev; exact F | rewrite last_rev_hd; exact H | apply size_fuel].
Qed.
End Radix.

(* ---------- leading zeros ---------- *)
Lemma split_zeros_spec l : forall z t, split_zeros l = (z, t) -> l = repeat 0 z ++ t /\ hd 1 t <> 0.
Proof.
  induction l as [|x l IH]; intros z t.
  - cbn [split_zeros]. intros [= <- <-]. split; [reflexivity|cbn; lia].
  - destruct x as [|p].
    + cbn [split_zeros]. destruct (split_zeros l) as [z' r] eqn:E. intros [= <- <-].
      destruct (IH _ _ eq_refl) as [-> H]. split; [reflexivity|exact H].
    + cbn [split_zeros]. intros [= <- <-]. split; [reflexivity|cbn [hd]; lia].
Qed.

Lemma split_zeros_app z t : hd 1 t <> 0 -> split_zeros (repeat 0 z ++ t) = (z, t).
Proof.
  intros H. induction z as [|z IH].
  - cbn [repeat app]. destruct t as [|[|p] t']; [reflexivity|cbn [hd] in H; lia|reflexivity].
  - cbn [repeat app split_zeros]. rewrite IH. reflexivity.
Qed.

Lemma Forall_repeat0 b z : 0 < b -> Forall (fun d : N => d < b) (repeat 0 z).
Proof. intros H. induction z; cbn [repeat]; constructor; auto. Qed.

Section Rebase.
Variables from to : N.
Hypothesis Hfrom : 2 <= from.
Hypothesis Hto : 2 <= to.

Lemma rebase_digits l : Forall (fun d => d < to) (rebase from to l).
Proof.
  unfold rebase. destruct (split_zeros l) as [z t]. apply Forall_app. split.
  - apply Forall_repeat0. lia.
  - apply digits_be_ok. exact Hto.
Qed.

Lemma rebase_inverse l :
  Forall (fun d => d < from) l -> rebase to from (rebase from to l) = l.
Proof.
  intros F. unfold rebase at 2. destruct (split_zeros l) as [z t] eqn:E.
  destruct (split_zeros_spec _ _ _ E) as [-> H].
  apply Forall_app in F as [_ Ft].
  unfold rebase. rewrite split_zeros_app by (apply digits_be_ok; exact Hto).
  rewrite value_digits_be by exact Hto.
  rewrite digits_value_be by assumption. reflexivity.
Qed.
End Rebase.

(* ---------- base58 ---------- *)
Lemma index_of_spec c l : forall i, index_of c l = Some i ->
  nth (N.to_nat i) l 0 = c /\ i < len l.
Proof.
  induction l as [|x t IH]; intros i; cbn [index_of]; [discriminate|].
  destruct (N.eqb_spec x c) as [->|NE].
  - intros [= <-]. split; [reflexivity|unfold len; cbn [length]; lia].
  - destruct (index_of c t) as [j|]; [|discriminate]. intros [= <-].
    destruct (IH _ eq_refl) as [H1 H2]. split.
    + rewrite N.add_1_r, N2Nat.inj_succ. exact H1.
    + unfold len in *. cbn [length]. lia.
Qed.

Lemma idx_chr d : d < 58 -> idx (chr d) = Some d.
Proof.
  intros H.
  assert (A : forallb (fun d => match idx (chr d) with Some x => x =? d | None => false end)
                      (map N.of_nat (seq 0 58)) = true) by (vm_compute; reflexivity).
  rewrite forallb_forall in A. specialize (A d).
  assert (I : In d (map N.of_nat (seq 0 58))).
  { apply in_map_iff. exists (N.to_nat d). split; [lia|]. apply in_seq. lia. }
  specialize (A I). destruct (idx (chr d)) as [x|]; [|discriminate]. f_equal. lia.
Qed.

Lemma chr_idx c d : idx c = Some d -> chr d = c /\ d < 58.
Proof. intros H. destruct (index_of_spec _ _ _ H) as [H1 H2]. split; [exact H1|exact H2]. Qed.

Lemma map_opt_idx_chr ds : Forall (fun d => d < 58) ds -> map_opt idx (map chr ds) = Some ds.
Proof.
  induction 1 as [|d t Hd Ht IH]; [reflexivity|].
  cbn [map map_opt]. rewrite (idx_chr _ Hd), IH. reflexivity.
Qed.

Lemma map_opt_idx_inv t : forall ds, map_opt idx t = Some ds ->
  Forall (fun d => d < 58) ds /\ map chr ds = t.
Proof.
  induction t as [|c t IH]; intros ds; cbn [map_opt].
  - intros [= <-]. split; [constructor|reflexivity].
  - destruct (idx c) as [d|] eqn:E; [|discriminate].
    destruct (map_opt idx t) as [r|]; [|discriminate]. intros [= <-].
    destruct (IH _ eq_refl) as [F M]. destruct (chr_idx _ _ E) as [C L].
    split; [constructor; assumption|]. cbn [map]. rewrite C, M. reflexivity.
Qed.

Lemma bytes_ok_Forall l : bytes_ok l = true <-> Forall (fun d => d < 256) l.
Proof.
  unfold bytes_ok. rewrite forallb_forall, Forall_forall. unfold is_byte.
  split; intros H x Hx; specialize (H x Hx); lia.
Qed.

Lemma b58_decode_encode b : bytes_ok b = true -> b58_decode (b58_encode b) = Some b.
Proof.
  intros B. unfold b58_decode, b58_encode.
  rewrite map_opt_idx_chr by (apply rebase_digits; lia).
  rewrite rebase_inverse; [reflexivity|lia|lia|apply bytes_ok_Forall; exact B].
Qed.

Lemma b58_encode_decode t b : b58_decode t = Some b -> b58_encode b = t /\ bytes_ok b = true.
Proof.
  unfold b58_decode, b58_encode.
  destruct (map_opt idx t) as [ds|] eqn:E; [|discriminate]. intros [= <-].
  destruct (map_opt_idx_inv _ _ E) as [F M]. split.
  - rewrite rebase_inverse; [exact M|lia|lia|exact F].
  - apply bytes_ok_Forall. apply rebase_digits; lia.
Qed.

(* ---------- text ---------- *)
Lemma of_text_to_text p : valid p = true -> of_text (to_text p) = Some p.
Proof.
  intros V. destruct (valid_inv _ V) as (_ & _ & _ & B).
  unfold of_text, to_text. rewrite b58_decode_encode by (apply to_bytes_ok; exact B).
  apply of_bytes_to_bytes. exact V.
Qed.

Lemma of_text_canonical t p :
  of_text t = Some p ->
  (forall b, b58_decode t = Some b -> (length b <= length (digest p) + 10)%nat) ->
  to_text p = t.
Proof.
  unfold of_text, to_text. destruct (b58_decode t) as [b|] eqn:D; [|discriminate].
  intros H L. rewrite (of_bytes_canonical _ _ H (L _ eq_refl)).
  apply (b58_encode_decode _ _ D).
Qed.

Lemma of_text_valid t p : of_text t = Some p -> valid p = true.
Proof.
  unfold of_text. destruct (b58_decode t); [|discriminate]. apply of_bytes_valid.
Qed.

(* ---------- multiaddr component ---------- *)
Lemma to_bytes_length p : valid p = true -> (length (to_bytes p) <= 84)%nat.
Proof.
  intros V. destruct (valid_inv _ V) as (_ & C & L & _).
  unfold to_bytes, mh_to_bytes. rewrite !app_length.
  assert (length (encode (code p)) <= 10)%nat by (apply (encode_length _ 9); pose proof pow128_10; lia).
  assert (length (encode (len (digest p))) <= 10)%nat
    by (apply (encode_length _ 9); pose proof pow128_10; rewrite two64 in *; lia).
  unfold len in L. lia.
Qed.

Lemma of_component_to_component p : valid p = true -> of_component (to_component p) = Some p.
Proof.
  intros V. destruct (valid_inv _ V) as (_ & _ & _ & B).
  pose proof (to_bytes_length _ V) as L.
  unfold of_component, to_component.
  rewrite !bytes_ok_app, !encode_bytes, (to_bytes_ok _ B). cbn [andb].
  rewrite decode_u32_encode by (vm_compute; reflexivity).
  change (P2P =? P2P) with true. cbv iota.
  rewrite decode_u64_encode by (rewrite two64; unfold len; lia).
  rewrite N.eqb_refl. apply of_bytes_to_bytes. exact V.
Qed.

Lemma of_component_valid b p : of_component b = Some p -> valid p = true.
Proof.
  unfold of_component. destruct (bytes_ok b); [|discriminate].
  destruct (decode_u32 b) as [[id r1]|]; [|discriminate].
  destruct (id =? P2P); [|discriminate].
  destruct (decode_u64 r1) as [[n r2]|]; [|discriminate].
  destruct (len r2 =? n); [|discriminate]. apply of_bytes_valid.
Qed.

(* ====================================================================================== *)
(* Round 2                                                                                 *)
(* ====================================================================================== *)
From V.gen Require PeerIdSites.
From V.common Require Import Wire.

(* the model's table of derivation sites is the one extracted from the Rust source *)
Lemma sites_match : derivation_sites = PeerIdSites.sites.
Proof. reflexivity. Qed.

(* ---------- one derivation ---------- *)
Lemma from_public_key_is_derive H k : from_public_key H k = derive H (key_encoding (KEd k)).
Proof. reflexivity. Qed.

Lemma remote_is_derive H k : remote_to_peer_id H k = derive H (key_encoding k).
Proof. destruct k; reflexivity. Qed.

Lemma all_entry_points_agree H k :
  from_impl H k = from_public_key H k /\
  publickey_to_peer_id H k = from_public_key H k /\
  ed25519_to_peer_id H k = from_public_key H k /\
  remote_to_peer_id H (KEd k) = from_public_key H k /\
  local_peer_id H k = from_public_key H k /\
  identify_local_peer_id H k = from_public_key H k.
Proof. repeat split; reflexivity. Qed.

Lemma handshakes_agree dec H identity verified :
  noise_identity dec H identity verified = tls_identity dec H identity verified.
Proof. reflexivity. Qed.

Lemma noise_identity_spec dec H identity k :
  dec identity = Some k ->
  noise_identity dec H identity true = Some (derive H (key_encoding k)) /\
  noise_identity dec H identity false = None.
Proof.
  intros E. unfold noise_identity. rewrite E, remote_is_derive. split; reflexivity.
Qed.

Lemma noise_identity_none dec H identity v : dec identity = None -> noise_identity dec H identity v = None.
Proof. intros E. unfold noise_identity. rewrite E. reflexivity. Qed.

(* the id depends on the decoded key only, not on the bytes it was decoded from *)
Lemma identity_encoding_irrelevant dec H b1 b2 v :
  dec b1 = dec b2 -> noise_identity dec H b1 v = noise_identity dec H b2 v.
Proof. intros E. unfold noise_identity. rewrite E. reflexivity. Qed.

Lemma ed25519_id H k : length k = 32%nat -> from_public_key H k = mkPid 0 (encode_ed25519 k).
Proof.
  intros L. unfold from_public_key, derive. apply of_key_enc_inline.
  rewrite (encode_ed25519_len _ L). lia.
Qed.

(* RSA *)
Lemma der_len_nonempty n : (1 <= length (der_len n))%nat.
Proof. unfold der_len. destruct (n <? 128); cbn [length]; lia. Qed.

Lemma len_der_ge t c : 2 + len c <= len (der t c).
Proof.
  unfold der, len. cbn [length]. rewrite app_length. pose proof (der_len_nonempty (N.of_nat (length c))). lia.
Qed.

Lemma rsa_encoding_long pk : 24 + len pk <= len (key_encoding (KRsa pk)).
Proof.
  cbn [key_encoding]. rewrite !len_app.
  assert (1 <= len (encode (len (spki pk)))).
  { destruct (encode_spec (len (spki pk))) as (W & _). pose proof (wf_nonempty _ W) as NE.
    destruct (encode (len (spki pk))) as [|x e]; [congruence|]. unfold len. cbn [length]. lia. }
  assert (20 + len pk <= len (spki pk)).
  { unfold spki. pose proof (len_der_ge 48 (der 48 (RSA_OID ++ [5; 0]) ++ der 3 (0 :: pk))) as H1.
    rewrite len_app in H1.
    pose proof (len_der_ge 48 (RSA_OID ++ [5; 0])) as H2.
    pose proof (len_der_ge 3 (0 :: pk)) as H3.
    assert (len (RSA_OID ++ [5; 0]) = 13) by reflexivity.
    assert (len (0 :: pk) = 1 + len pk) by (unfold len; cbn [length]; lia). lia. }
  change (len [8; 0; 18]) with 3. lia.
Qed.

Lemma rsa_id H pk : 19 <= len pk ->
  remote_to_peer_id H (KRsa pk) = mkPid 18 (H (key_encoding (KRsa pk))).
Proof.
  intros L. cbn [remote_to_peer_id]. unfold derive. apply of_key_enc_hashed.
  pose proof (rsa_encoding_long pk). lia.
Qed.

(* is_public_key *)
Lemma nlist_eqb_eq a : forall b, list_eqb N.eqb a b = true <-> a = b.
Proof.
  induction a as [|x a IH]; intros [|y b]; cbn [list_eqb]; try (split; [discriminate|discriminate]); [tauto|].
  rewrite andb_true_iff, IH, N.eqb_eq. split; [intros [-> ->]; reflexivity | intros [= -> ->]; auto].
Qed.

Lemma pid_eqb_eq a b : pid_eqb a b = true <-> a = b.
Proof.
  unfold pid_eqb. rewrite andb_true_iff, N.eqb_eq, nlist_eqb_eq.
  destruct a as [ca da], b as [cb db]; cbn. split; [intros [-> ->]; reflexivity | intros [= -> ->]; auto].
Qed.

Lemma is_public_key_own H k :
  length k = 32%nat -> is_public_key H (from_public_key H k) k = Some true.
Proof.
  intros L. rewrite (ed25519_id H k L). unfold is_public_key. cbn [code].
  destruct consts_facts as (_ & -> & _ & ->).
  change (0 =? 18) with false. change (0 =? 0) with true. cbv iota.
  f_equal. apply pid_eqb_eq. reflexivity.
Qed.

Lemma is_public_key_true H p k :
  is_public_key H p k = Some true <->
  p = mkPid 0 (encode_ed25519 k) \/ p = mkPid 18 (H (encode_ed25519 k)).
Proof.
  unfold is_public_key. destruct consts_facts as (_ & -> & _ & ->). split.
  - destruct (N.eqb_spec (code p) 18) as [E|NE].
    + intros [= E2]. right. symmetry. apply pid_eqb_eq. exact E2.
    + destruct (N.eqb_spec (code p) 0) as [E0|NE0]; [|discriminate].
      intros [= E2]. left. symmetry. apply pid_eqb_eq. exact E2.
  - intros [-> | ->]; cbn [code].
    + change (0 =? 18) with false. change (0 =? 0) with true. cbv iota. f_equal. apply pid_eqb_eq. reflexivity.
    + change (18 =? 18) with true. cbv iota. f_equal. apply pid_eqb_eq. reflexivity.
Qed.

Lemma random_valid r : length r = 32%nat -> bytes_ok r = true -> valid (random_pid r) = true.
Proof.
  intros L B. unfold random_pid, valid, admits. cbn [code digest].
  destruct consts_facts as (-> & -> & -> & ->). rewrite B.
  change (0 =? 18) with false. change (0 =? 0) with true. unfold len. rewrite L. reflexivity.
Qed.

(* ---------- Eq / Ord ---------- *)
Lemma to_bytes_injective p q : valid p = true -> valid q = true -> to_bytes p = to_bytes q -> p = q.
Proof.
  intros Vp Vq E. pose proof (of_bytes_to_bytes _ Vp) as Hp. rewrite E, (of_bytes_to_bytes _ Vq) in Hp.
  congruence.
Qed.

Lemma to_text_injective p q : valid p = true -> valid q = true -> to_text p = to_text q -> p = q.
Proof.
  intros Vp Vq E. pose proof (of_text_to_text _ Vp) as Hp. rewrite E, (of_text_to_text _ Vq) in Hp.
  congruence.
Qed.

Lemma to_component_injective p q :
  valid p = true -> valid q = true -> to_component p = to_component q -> p = q.
Proof.
  intros Vp Vq E. pose proof (of_component_to_component _ Vp) as Hp.
  rewrite E, (of_component_to_component _ Vq) in Hp. congruence.
Qed.

Lemma valid_code p : valid p = true -> code p = 0 \/ code p = 18.
Proof.
  intros V. destruct (valid_inv _ V) as (A & _). unfold admits in A.
  destruct consts_facts as (_ & E0 & _ & E18). rewrite E0, E18 in A.
  destruct (N.eqb_spec (code p) 18); [tauto|].
  destruct (N.eqb_spec (code p) 0); [tauto|]. cbn in A. discriminate.
Qed.

Lemma to_bytes_shape p : valid p = true -> to_bytes p = code p :: len (digest p) :: digest p.
Proof.
  intros V. destruct (valid_inv _ V) as (_ & _ & L & _).
  unfold to_bytes, mh_to_bytes.
  rewrite (encode_small (code p)) by (destruct (valid_code _ V) as [-> | ->]; lia).
  rewrite (encode_small (len (digest p))) by lia. reflexivity.
Qed.

Lemma list_cmp_app_same z : forall a b, length a = length b ->
  list_cmp (a ++ z) (b ++ z) = list_cmp a b.
Proof.
  assert (R : list_cmp z z = Eq).
  { induction z as [|x z IH]; [reflexivity|]. cbn [list_cmp]. rewrite N.compare_refl. exact IH. }
  induction a as [|x a IH]; intros [|y b] L; cbn [length] in L; try discriminate.
  - cbn [app list_cmp]. exact R.
  - cbn [app list_cmp]. destruct (x ?= y); [apply IH; lia|reflexivity|reflexivity].
Qed.

Lemma cmp_is_bytes_order p q :
  valid p = true -> valid q = true -> pid_cmp p q = list_cmp (to_bytes p) (to_bytes q).
Proof.
  intros Vp Vq. rewrite (to_bytes_shape _ Vp), (to_bytes_shape _ Vq).
  unfold pid_cmp. cbn [list_cmp]. destruct (code p ?= code q); [|reflexivity|reflexivity].
  destruct (len (digest p) ?= len (digest q)) eqn:E; [|reflexivity|reflexivity].
  apply N.compare_eq in E. unfold len in E. apply Nat2N.inj in E.
  unfold pad64. rewrite E. apply list_cmp_app_same. exact E.
Qed.

Lemma list_cmp_eq a : forall b, list_cmp a b = Eq <-> a = b.
Proof.
  induction a as [|x a IH]; intros [|y b]; cbn [list_cmp]; try (split; discriminate); [tauto|].
  destruct (x ?= y) eqn:E.
  - apply N.compare_eq in E. subst y. rewrite IH. split; [intros ->; reflexivity|intros [= ->]; reflexivity].
  - split; [discriminate|]. intros [= -> _]. rewrite N.compare_refl in E. discriminate.
  - split; [discriminate|]. intros [= -> _]. rewrite N.compare_refl in E. discriminate.
Qed.

Lemma cmp_eq_iff p q : valid p = true -> valid q = true -> (pid_cmp p q = Eq <-> p = q).
Proof.
  intros Vp Vq. rewrite (cmp_is_bytes_order _ _ Vp Vq), list_cmp_eq. split.
  - apply to_bytes_injective; assumption.
  - intros ->. reflexivity.
Qed.

(* ---------- serde ---------- *)
Lemma chr_in_alphabet d : d < 58 -> In (chr d) alphabet.
Proof.
  intros H. unfold chr. apply nth_In. change (length alphabet) with 58%nat. lia.
Qed.

Lemma b58_encode_chars b c : In c (b58_encode b) -> In c alphabet.
Proof.
  unfold b58_encode. intros I. apply in_map_iff in I as (d & <- & Id).
  apply chr_in_alphabet.
  pose proof (rebase_digits 256 58 ltac:(lia) ltac:(lia) b) as F.
  rewrite Forall_forall in F. exact (F _ Id).
Qed.

Lemma alphabet_plain c : In c alphabet -> json_plain c = true /\ c <> SLASH.
Proof.
  assert (A : forallb (fun c => json_plain c && negb (c =? SLASH)) alphabet = true) by (vm_compute; reflexivity).
  rewrite forallb_forall in A. intros I. specialize (A _ I).
  apply andb_prop in A as [A1 A2]. split; [exact A1|]. intros ->. vm_compute in A2. discriminate.
Qed.

Lemma to_text_plain p : forallb json_plain (to_text p) = true.
Proof.
  apply forallb_forall. intros c I. apply alphabet_plain. exact (b58_encode_chars _ _ I).
Qed.

Lemma to_text_no_slash p : ~ In SLASH (to_text p).
Proof.
  intros I. apply b58_encode_chars in I. apply alphabet_plain in I. destruct I as [_ N]. congruence.
Qed.

Lemma of_json_json_of p : valid p = true -> of_json (json_of p) = Some p.
Proof.
  intros V. unfold of_json, json_of, ser_hr, de_hr, QUOTE.
  rewrite rev_app_distr. cbn [rev app]. rewrite rev_involutive, to_text_plain.
  apply of_text_to_text. exact V.
Qed.

(* ---------- textual multiaddress ---------- *)
Lemma split_on_nosep sep l : ~ In sep l -> split_on sep l = [l].
Proof.
  induction l as [|c t IH]; intros NI; [reflexivity|].
  cbn [split_on]. rewrite IH by (intros I; apply NI; right; exact I).
  destruct (N.eqb_spec c sep) as [->|NE]; [exfalso; apply NI; left; reflexivity|reflexivity].
Qed.

Lemma split_on_nonempty sep l : split_on sep l <> [].
Proof.
  induction l as [|c t IH]; cbn [split_on]; [discriminate|].
  destruct (split_on sep t); [discriminate|]. destruct (c =? sep); discriminate.
Qed.

Lemma split_on_app sep a b : ~ In sep a -> split_on sep (a ++ sep :: b) = a :: split_on sep b.
Proof.
  induction a as [|c t IH]; intros NI.
  - cbn [app split_on]. pose proof (split_on_nonempty sep b).
    destruct (split_on sep b) as [|cur rest]; [congruence|]. rewrite N.eqb_refl. reflexivity.
  - cbn [app split_on]. rewrite IH by (intros I; apply NI; right; exact I).
    destruct (N.eqb_spec c sep) as [->|NE]; [exfalso; apply NI; left; reflexivity|reflexivity].
Qed.

Lemma split_single_component name s :
  ~ In SLASH name -> ~ In SLASH s ->
  split_on SLASH (SLASH :: name ++ SLASH :: s) = [[]; name; s].
Proof.
  intros N1 N2. change (SLASH :: name ++ SLASH :: s) with ([] ++ SLASH :: (name ++ SLASH :: s)).
  rewrite split_on_app by (intros []). rewrite split_on_app by exact N1.
  rewrite split_on_nosep by exact N2. reflexivity.
Qed.

Lemma name_p2p_noslash : ~ In SLASH NAME_P2P.
Proof. vm_compute. intuition discriminate. Qed.
Lemma name_ipfs_noslash : ~ In SLASH NAME_IPFS.
Proof. vm_compute. intuition discriminate. Qed.

Lemma of_addr_text_single name s :
  (name = NAME_P2P \/ name = NAME_IPFS) -> ~ In SLASH s ->
  of_addr_text (SLASH :: name ++ SLASH :: s) = of_text s.
Proof.
  intros Hn NS. unfold of_addr_text.
  rewrite split_single_component; [|destruct Hn as [-> | ->]; [apply name_p2p_noslash|apply name_ipfs_noslash]|exact NS].
  cbn [parse_parts].
  replace (list_eqb N.eqb name NAME_P2P || list_eqb N.eqb name NAME_IPFS) with true
    by (destruct Hn as [-> | ->]; reflexivity).
  destruct (of_text s) as [p|]; reflexivity.
Qed.

Lemma of_addr_text_to_addr_text p : valid p = true -> of_addr_text (to_addr_text p) = Some p.
Proof.
  intros V. unfold to_addr_text.
  rewrite of_addr_text_single by (auto using to_text_no_slash). apply of_text_to_text. exact V.
Qed.

Lemma of_addr_text_ipfs_alias p :
  valid p = true -> of_addr_text (SLASH :: NAME_IPFS ++ SLASH :: to_text p) = Some p.
Proof.
  intros V. rewrite of_addr_text_single by (auto using to_text_no_slash). apply of_text_to_text. exact V.
Qed.

(* every peer id that comes out of the textual parser is valid *)
Definition proto_valid (x : proto) : Prop := match x with PP2p p => valid p = true | PCircuit => True end.

Lemma parse_parts_valid n : forall parts ps, (length parts <= n)%nat ->
  parse_parts parts = Some ps -> Forall proto_valid ps.
Proof.
  induction n as [|n IH]; intros parts ps L.
  - destruct parts; [|cbn [length] in L; lia]. cbn [parse_parts]. intros [= <-]. constructor.
  - destruct parts as [|name rest]; [cbn [parse_parts]; intros [= <-]; constructor|].
    cbn [parse_parts]. cbn [length] in L.
    destruct (list_eqb N.eqb name NAME_P2P || list_eqb N.eqb name NAME_IPFS).
    + destruct rest as [|arg rest']; [discriminate|].
      destruct (of_text arg) as [p|] eqn:T; [|discriminate].
      destruct (parse_parts rest') as [ps'|] eqn:P; [|discriminate]. intros [= <-].
      constructor; [exact (of_text_valid _ _ T)|].
      apply (IH rest'); [cbn [length] in L; lia|exact P].
    + destruct (list_eqb N.eqb name NAME_CIRCUIT); [|discriminate].
      destruct (parse_parts rest) as [ps'|] eqn:P; [|discriminate]. intros [= <-].
      constructor; [exact I|]. apply (IH rest); [lia|exact P].
Qed.

Lemma last_in (A : Type) (l : list A) (d : A) : l <> [] -> In (last l d) l.
Proof.
  induction l as [|x t IH]; [congruence|]. intros _. destruct t as [|y t'].
  - left. reflexivity.
  - right. change (last (x :: y :: t') d) with (last (y :: t') d). apply IH. discriminate.
Qed.

Lemma of_addr_text_valid t p : of_addr_text t = Some p -> valid p = true.
Proof.
  unfold of_addr_text. destruct (split_on SLASH t) as [|[|] parts]; try discriminate.
  destruct (parse_parts parts) as [ps|] eqn:P; [|discriminate].
  pose proof (parse_parts_valid _ _ _ (le_n _) P) as F.
  destruct (last ps PCircuit) as [q|] eqn:E; [|discriminate]. intros [= <-].
  assert (NE : ps <> []) by (intros ->; cbn in E; discriminate).
  rewrite Forall_forall in F. specialize (F _ (last_in _ ps PCircuit NE)).
  rewrite E in F. exact F.
Qed.

Lemma of_addr_text_canonical s p :
  ~ In SLASH s -> of_addr_text (SLASH :: NAME_P2P ++ SLASH :: s) = Some p ->
  (forall b, b58_decode s = Some b -> (length b <= length (digest p) + 10)%nat) ->
  SLASH :: NAME_P2P ++ SLASH :: s = to_addr_text p.
Proof.
  intros NS H L. rewrite of_addr_text_single in H by auto.
  unfold to_addr_text. rewrite (of_text_canonical _ _ H L). reflexivity.
Qed.

(* ---------- packaged statements ---------- *)
Lemma single_derivation (H : hash) (dec : decoder) :
  (forall k,
     from_impl H k = from_public_key H k /\ publickey_to_peer_id H k = from_public_key H k /\
     ed25519_to_peer_id H k = from_public_key H k /\ local_peer_id H k = from_public_key H k /\
     identify_local_peer_id H k = from_public_key H k /\
     from_public_key H k = derive H (key_encoding (KEd k))) /\
  (forall k, remote_to_peer_id H k = derive H (key_encoding k)) /\
  (forall identity verified,
     tls_identity dec H identity verified = noise_identity dec H identity verified) /\
  (forall identity k, dec identity = Some k ->
     noise_identity dec H identity true = Some (derive H (key_encoding k)) /\
     noise_identity dec H identity false = None) /\
  (forall identity v, dec identity = None -> noise_identity dec H identity v = None).
Proof.
  split; [intros k; repeat split; reflexivity|].
  split; [apply remote_is_derive|].
  split; [reflexivity|].
  split; [intros identity k E; apply noise_identity_spec; exact E|].
  intros identity v E. apply noise_identity_none. exact E.
Qed.

Lemma eq_iff_renderings p q : valid p = true -> valid q = true ->
  (p = q <-> to_bytes p = to_bytes q) /\ (p = q <-> to_text p = to_text q) /\
  (p = q <-> to_component p = to_component q) /\
  (pid_eqb p q = true <-> p = q) /\ (pid_cmp p q = Eq <-> p = q).
Proof.
  intros Vp Vq. repeat split; try (intros ->; reflexivity).
  - apply to_bytes_injective; assumption.
  - apply to_text_injective; assumption.
  - apply to_component_injective; assumption.
  - apply pid_eqb_eq.
  - apply pid_eqb_eq.
  - apply cmp_eq_iff; assumption.
  - apply cmp_eq_iff; assumption.
Qed.

Lemma serde_roundtrip p : valid p = true ->
  de_hr (ser_hr p) = Some p /\ de_bin (ser_bin p) = Some p /\ of_json (json_of p) = Some p.
Proof.
  intros V. split; [exact (of_text_to_text _ V)|]. split; [exact (of_bytes_to_bytes _ V)|].
  exact (of_json_json_of _ V).
Qed.

Lemma serde_sound :
  (forall t p, de_hr t = Some p -> valid p = true) /\ (forall b p, de_bin b = Some p -> valid p = true).
Proof. split; [exact of_text_valid | exact of_bytes_valid]. Qed.

Lemma addr_text_roundtrip p : valid p = true ->
  of_addr_text (to_addr_text p) = Some p /\
  of_addr_text (SLASH :: NAME_IPFS ++ SLASH :: to_text p) = Some p.
Proof. intros V. split; [exact (of_addr_text_to_addr_text _ V) | exact (of_addr_text_ipfs_alias _ V)]. Qed.

Lemma text_alphabet p c : In c (to_text p) -> In c alphabet /\ json_plain c = true /\ c <> SLASH.
Proof.
  intros I. pose proof (b58_encode_chars _ _ I) as A. split; [exact A|]. exact (alphabet_plain _ A).
Qed.
