(* C18 — executable model of litep2p's PeerId (src/peer_id.rs) on top of
   multihash 0.19 (`Multihash<64>`), unsigned-varint 0.8 and bs58 0.5.  Definitions only.

   Bytes are N below 256, byte strings and texts (ASCII codes) are `list N`.
   SHA-256 is not modelled: where the code hashes, the digest is an argument (the harness
   supplies it, computed with the sha2 crate); theorems quantify over any 32-byte digest. *)
From Coq Require Import List NArith Bool.
From V.gen Require Consts.
From V.common Require Import Varint.
Import ListNotations.
Open Scope N_scope.

Definition MAX_INLINE : N := Consts.MAX_INLINE_KEY_LENGTH.      (* 42 *)
Definition IDENTITY : N := Consts.MULTIHASH_IDENTITY_CODE.      (* 0x00 *)
Definition MH_SIZE : N := Consts.PEER_ID_MULTIHASH_SIZE.        (* the 64 of Multihash<64> *)
Definition SHA256 : N := 18.                                    (* Code::Sha2_256 = 0x12 *)

Definition len (l : list N) : N := N.of_nat (length l).

(* a Multihash<64> value: code : u64, digest of `size` bytes *)
Record pid := mkPid { code : N; digest : list N }.

(* Multihash::to_bytes / write_multihash *)
Definition mh_to_bytes (p : pid) : list N :=
  encode (code p) ++ encode (len (digest p)) ++ digest p.

(* Multihash::<64>::from_bytes: read_u64 code, read_u64 size, size <= 64 (and <= 255),
   read_exact size bytes, nothing may remain *)
Definition mh_parse (b : list N) : option pid :=
  match decode_u64 b with
  | None => None
  | Some (c, r1) =>
      match decode_u64 r1 with
      | None => None
      | Some (sz, r2) =>
          if (MH_SIZE <? sz) || (255 <? sz) then None
          else if len r2 =? sz then Some (mkPid c r2) else None
      end
  end.

(* PeerId::from_multihash of litep2p *)
Definition admits (p : pid) : bool :=
  if code p =? SHA256 then true
  else if (code p =? IDENTITY) && (len (digest p) <=? MAX_INLINE) then true
  else false.

(* libp2p-identity 0.2.14, PeerId::from_multihash (transcribed: MULTIHASH_SHA256_CODE = 0x12,
   MULTIHASH_IDENTITY_CODE = 0, MAX_INLINE_KEY_LENGTH = 42) *)
Definition ref_admits (p : pid) : bool :=
  match code p with
  | 18 => true
  | 0 => len (digest p) <=? 42
  | _ => false
  end.

(* PeerId::from_bytes *)
Definition of_bytes (b : list N) : option pid :=
  if bytes_ok b then
    match mh_parse b with
    | Some p => if admits p then Some p else None
    | None => None
    end
  else None.

Definition to_bytes (p : pid) : list N := mh_to_bytes p.

(* what every value of the Rust type satisfies (Multihash<64> invariant + admission) *)
Definition valid (p : pid) : bool :=
  admits p && (code p <? 2 ^ 64) && (len (digest p) <=? MH_SIZE) && bytes_ok (digest p).

(* PeerId::from_public_key_protobuf; `sha` = SHA-256 of key_enc *)
Definition of_key_enc (sha key_enc : list N) : pid :=
  if len key_enc <=? MAX_INLINE then mkPid IDENTITY key_enc else mkPid SHA256 sha.

(* PublicKey::to_protobuf_encoding for Ed25519: field 1 varint = 1 (KeyType::Ed25519),
   field 2 length-delimited = the 32 key bytes *)
Definition encode_ed25519 (k : list N) : list N := [8; 1; 18; 32] ++ k.

(* the canonical form recognised (the general prost decoder is not modelled) *)
Definition decode_ed25519_canonical (b : list N) : option (list N) :=
  match b with
  | 8 :: 1 :: 18 :: 32 :: k => if len k =? 32 then Some k else None
  | _ => None
  end.

(* PeerId of an Ed25519 key (PeerId::from_public_key) *)
Definition of_ed25519 (sha k : list N) : pid := of_key_enc sha (encode_ed25519 k).

(* ---------- positional numbers (for base58) ---------- *)
Fixpoint digits_le (base : N) (fuel : nat) (n : N) : list N :=
  match fuel with
  | O => []
  | S f => if n =? 0 then [] else n mod base :: digits_le base f (n / base)
  end.
Definition digits_be (base n : N) : list N := rev (digits_le base (N.to_nat (N.size n)) n).

Fixpoint value_le (base : N) (ds : list N) : N :=
  match ds with [] => 0 | d :: t => d + base * value_le base t end.
Definition value_be (base : N) (ds : list N) : N := value_le base (rev ds).

(* number of leading zeros and the rest *)
Fixpoint split_zeros (l : list N) : nat * list N :=
  match l with
  | 0 :: t => let '(z, r) := split_zeros t in (S z, r)
  | _ => (O, l)
  end.

(* re-express a big-endian digit string in another base, keeping leading zeros one for one
   (this is what bs58 encode/decode do) *)
Definition rebase (from to : N) (l : list N) : list N :=
  let '(z, t) := split_zeros l in repeat 0 z ++ digits_be to (value_be from t).

(* bs58 alphabet "123456789ABCDEFGHJKLMNPQRSTUVWXYZabcdefghijkmnopqrstuvwxyz" *)
Definition alphabet : list N :=
  [49;50;51;52;53;54;55;56;57;
   65;66;67;68;69;70;71;72;74;75;76;77;78;80;81;82;83;84;85;86;87;88;89;90;
   97;98;99;100;101;102;103;104;105;106;107;109;110;111;112;113;114;115;116;117;118;119;120;121;122].

Definition chr (d : N) : N := nth (N.to_nat d) alphabet 0.
Fixpoint index_of (c : N) (l : list N) : option N :=
  match l with
  | [] => None
  | x :: t => if x =? c then Some 0
              else match index_of c t with Some i => Some (i + 1) | None => None end
  end.
Definition idx (c : N) : option N := index_of c alphabet.

Fixpoint map_opt {A B} (f : A -> option B) (l : list A) : option (list B) :=
  match l with
  | [] => Some []
  | x :: t => match f x, map_opt f t with Some y, Some r => Some (y :: r) | _, _ => None end
  end.

(* bs58::encode(bytes).into_string() *)
Definition b58_encode (bytes : list N) : list N := map chr (rebase 256 58 bytes).
(* bs58::decode(text).into_vec() *)
Definition b58_decode (text : list N) : option (list N) :=
  match map_opt idx text with
  | Some ds => Some (rebase 58 256 ds)
  | None => None
  end.

(* PeerId::to_base58 / FromStr *)
Definition to_text (p : pid) : list N := b58_encode (to_bytes p).
Definition of_text (t : list N) : option pid :=
  match b58_decode t with Some b => of_bytes b | None => None end.

(* ---------- the /p2p component of a binary multiaddress ---------- *)
Definition P2P : N := 421.
(* Protocol::P2p(..).write_bytes: varint 421, varint length, multihash bytes *)
Definition to_component (p : pid) : list N :=
  encode P2P ++ encode (len (to_bytes p)) ++ to_bytes p.
(* Protocol::from_bytes for a /p2p component that is the whole input, followed by
   PeerId::try_from_multiaddr: decode::u32 id, decode::usize n, split_at n, PeerId::from_bytes *)
Definition of_component (b : list N) : option pid :=
  if bytes_ok b then
    match decode_u32 b with
    | Some (id, r1) =>
        if id =? P2P then
          match decode_u64 r1 with
          | Some (n, r2) => if len r2 =? n then of_bytes r2 else None
          | None => None
          end
        else None
    | None => None
    end
  else None.
